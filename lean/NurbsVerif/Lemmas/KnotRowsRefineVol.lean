import NurbsVerif.Lemmas.KnotRowsRefine
import NurbsVerif.Lemmas.A54Helper
import NurbsVerif.Lemmas.VolRefineObj

/-! List-of-rows branches, part 5: one direction of `operations.refine_knotvector` on a volume, computed
    through the rows (A5.4 as coded on the list of rows) = the specification-level model `refineDir`. -/
namespace Geomdl
namespace Rows
open RemInv
variable {K : Type} [Field K] [LinearOrder K] [IsStrictOrderedRing K]

/-- A5.4 as coded on ONE iso-curve with the default list `X` is the fold of single insertions -/
theorem refineA54_eq_fold_default (p d : ℕ) (U : List K) (c : List (List K)) (density : ℕ) (tol : K)
    (hwf : CurveWF p d U c) (hend : ∀ i, c.length ≤ i → fnOf U i = fnOf U c.length)
    (hclamp : fnOf U 0 = fnOf U p) (hmult : ∀ y ∈ U, U.count y ≤ p + 1)
    (h0 : 0 ≤ tol) (hsep : SepBy tol (U ++ refineKnots p U density))
    (hX : (refineX p U density tol).isEmpty = false) :
    refineA54 p U c (refineX p U density tol) tol = (refineX p U density tol).foldl (insertOne p tol) (U, c) := by
  have h := knotRefinementA54_eq_model_default p d U c density tol hwf hend hclamp hmult h0 hsep
  have e : refineXOf p U none [] density tol = refineX p U density tol := by
    unfold refineX refineXOf
    simp only [List.append_nil]
  unfold knotRefinementA54 knotRefinement at h
  simp only [e, hX] at h
  simpa using h

theorem headD_mem_length {m : ℕ} {R : List (List (List K))} (h : RectW m R) (hne : 0 < R.length) :
    (R.headD []).length = m := by
  cases R with
  | nil => simp at hne
  | cons a t => exact h a (by simp)

section vol
variable (d : ℕ) (S : Shape K) (hS : VolWF d S) (hd : 0 < d) (density : ℕ) (tol : K) (h0 : 0 ≤ tol)
include hS hd h0

theorem refineVolRows_eq (dir : ℕ) (hdir : dir < 3) (hyp : DirHyp S dir density tol)
    (hclamp : fnOf (S.kv dir) 0 = fnOf (S.kv dir) (S.deg dir))
    (hmult : ∀ y ∈ S.kv dir, (S.kv dir).count y ≤ S.deg dir + 1) :
    refineVolRows S dir density tol = refineDir S dir density tol := by
  have hsu : 0 < S.size 0 := by have := hS.dir0.pn; omega
  have hsv : 0 < S.size 1 := by have := hS.dir1.pn; omega
  have hsw : 0 < S.size 2 := by have := hS.dir2.pn; omega
  have hkv : KvWF (S.deg dir) (S.kv dir) (S.size dir) := hS.dir dir hdir
  unfold refineVolRows refineDir
  simp only []
  by_cases hX : (refineX (S.deg dir) (S.kv dir) density tol).isEmpty = true
  · rw [if_pos hX, if_pos hX]
  · rw [if_neg hX, if_neg hX]
    have hXf : (refineX (S.deg dir) (S.kv dir) density tol).isEmpty = false := by simpa using hX
    -- per iso-curve: A5.4 as coded = fold
    have key : ∀ c : List (List K), c.length = S.size dir → NetOk d c →
        refineA54 (S.deg dir) (S.kv dir) c (refineX (S.deg dir) (S.kv dir) density tol) tol
          = (refineX (S.deg dir) (S.kv dir) density tol).foldl (insertOne (S.deg dir) tol) (S.kv dir, c) := by
      intro c hc hnet
      exact refineA54_eq_fold_default (S.deg dir) d (S.kv dir) c density tol (hkv.curve d c hc hnet)
        (by rw [hc]; exact hyp.1) hclamp hmult h0 hyp.2 hXf
    have hm : ∀ f : List (List K) → List (List K),
        S.mapDir dir f = mapVol dir (S.size 0) (S.size 1) (S.size 2) S.net f := by
      intro f
      unfold Shape.mapDir Shape.pdim
      rw [hS.degs]; simp
    rw [hm]
    -- the three directions
    have main : (refineA54Rows (S.deg dir) (S.kv dir) (volRows dir (S.size 0) (S.size 1) (S.size 2) S.net)
          (refineX (S.deg dir) (S.kv dir) density tol) tol).1
          = (List.foldl (insertOne (S.deg dir) tol) (S.kv dir, List.replicate (S.size dir) [])
              (refineX (S.deg dir) (S.kv dir) density tol)).1 ∧
        mapVolRows dir (S.size 0) (S.size 1) (S.size 2) S.net
          (fun R => (refineA54Rows (S.deg dir) (S.kv dir) R (refineX (S.deg dir) (S.kv dir) density tol) tol).2)
          = mapVol dir (S.size 0) (S.size 1) (S.size 2) S.net
              (fun c => (List.foldl (insertOne (S.deg dir) tol) (S.kv dir, c)
                (refineX (S.deg dir) (S.kv dir) density tol)).2) := by
      obtain rfl | rfl | rfl : dir = 0 ∨ dir = 1 ∨ dir = 2 := by omega
      · have hw : ((volRows 0 (S.size 0) (S.size 1) (S.size 2) S.net).headD []).length = S.size 1 * S.size 2 :=
          headD_mem_length (volRows0_rect _ _ _ _) (by rw [volRows0_length]; exact hsu)
        have hcol : ∀ v w, v < S.size 1 → w < S.size 2 →
            (refineA54Rows (S.deg 0) (S.kv 0) (volRows 0 (S.size 0) (S.size 1) (S.size 2) S.net)
              (refineX (S.deg 0) (S.kv 0) density tol) tol).1
              = ((refineX (S.deg 0) (S.kv 0) density tol).foldl (insertOne (S.deg 0) tol)
                  (S.kv 0, RemInv.lineU (S.size 0) (S.size 1) S.net v w)).1 ∧
            isoCol (v + S.size 1 * w) (refineA54Rows (S.deg 0) (S.kv 0) (volRows 0 (S.size 0) (S.size 1) (S.size 2) S.net)
              (refineX (S.deg 0) (S.kv 0) density tol) tol).2
              = ((refineX (S.deg 0) (S.kv 0) density tol).foldl (insertOne (S.deg 0) tol)
                  (S.kv 0, RemInv.lineU (S.size 0) (S.size 1) S.net v w)).2 := by
          intro v w hv hw'
          have hlt : v + S.size 1 * w < S.size 1 * S.size 2 := by
            have h := flatIdx2_lt (su := S.size 2) (sv := S.size 1) hw' hv
            unfold flatIdx2 at h
            rw [Nat.mul_comm (S.size 2)] at h
            exact h
          have := isoCol_refineA54Rows (v + S.size 1 * w) (S.deg 0) (S.kv 0) _
            (refineX (S.deg 0) (S.kv 0) density tol) tol (by rw [hw]; exact hlt)
          rw [isoCol_volRows0 _ _ _ _ _ _ hv hw', key _ (by simp [RemInv.lineU])
            (RemInv.lineU_netOk _ _ _ d _ hS.net hS.netlen v w hv hw')] at this
          exact this
        refine ⟨?_, ?_⟩
        · rw [(hcol 0 0 hsv hsw).1]
          exact insert_fold_kv_indep _ _ _ _ _ _ (by simp [RemInv.lineU])
        · exact mapVolRows0_eq _ _ _ _ _ _ hsv hsw (fun v w hv hw' => (hcol v w hv hw').2)
      · have hw : ((volRows 1 (S.size 0) (S.size 1) (S.size 2) S.net).headD []).length = S.size 0 * S.size 2 :=
          headD_mem_length (volRows1_rect _ _ _ _) (by rw [volRows1_length]; exact hsv)
        have hcol : ∀ a w, a < S.size 0 → w < S.size 2 →
            (refineA54Rows (S.deg 1) (S.kv 1) (volRows 1 (S.size 0) (S.size 1) (S.size 2) S.net)
              (refineX (S.deg 1) (S.kv 1) density tol) tol).1
              = ((refineX (S.deg 1) (S.kv 1) density tol).foldl (insertOne (S.deg 1) tol)
                  (S.kv 1, RemInv.lineV (S.size 0) (S.size 1) S.net a w)).1 ∧
            isoCol (a + S.size 0 * w) (refineA54Rows (S.deg 1) (S.kv 1) (volRows 1 (S.size 0) (S.size 1) (S.size 2) S.net)
              (refineX (S.deg 1) (S.kv 1) density tol) tol).2
              = ((refineX (S.deg 1) (S.kv 1) density tol).foldl (insertOne (S.deg 1) tol)
                  (S.kv 1, RemInv.lineV (S.size 0) (S.size 1) S.net a w)).2 := by
          intro a w ha hw'
          have hlt : a + S.size 0 * w < S.size 0 * S.size 2 := by
            have h := flatIdx2_lt (su := S.size 2) (sv := S.size 0) hw' ha
            unfold flatIdx2 at h
            rw [Nat.mul_comm (S.size 2)] at h
            exact h
          have := isoCol_refineA54Rows (a + S.size 0 * w) (S.deg 1) (S.kv 1) _
            (refineX (S.deg 1) (S.kv 1) density tol) tol (by rw [hw]; exact hlt)
          rw [isoCol_volRows1 _ _ _ _ _ _ ha hw', key _ (by simp [RemInv.lineV])
            (RemInv.lineV_netOk _ _ _ d _ hS.net hS.netlen a w ha hw')] at this
          exact this
        refine ⟨?_, ?_⟩
        · rw [(hcol 0 0 hsu hsw).1]
          exact insert_fold_kv_indep _ _ _ _ _ _ (by simp [RemInv.lineV])
        · exact mapVolRows1_eq _ _ _ _ _ _ hsu hsw (fun a w ha hw' => (hcol a w ha hw').2)
      · have hw : ((volRows 2 (S.size 0) (S.size 1) (S.size 2) S.net).headD []).length = S.size 0 * S.size 1 :=
          headD_mem_length (volRows2_rect 2 _ _ _ (le_refl _) _) (by rw [volRows2_length 2 _ _ _ (le_refl _)]; exact hsw)
        have hcol : ∀ a v, a < S.size 0 → v < S.size 1 →
            (refineA54Rows (S.deg 2) (S.kv 2) (volRows 2 (S.size 0) (S.size 1) (S.size 2) S.net)
              (refineX (S.deg 2) (S.kv 2) density tol) tol).1
              = ((refineX (S.deg 2) (S.kv 2) density tol).foldl (insertOne (S.deg 2) tol)
                  (S.kv 2, RemInv.lineW (S.size 0) (S.size 1) (S.size 2) S.net a v)).1 ∧
            isoCol (v + S.size 1 * a) (refineA54Rows (S.deg 2) (S.kv 2) (volRows 2 (S.size 0) (S.size 1) (S.size 2) S.net)
              (refineX (S.deg 2) (S.kv 2) density tol) tol).2
              = ((refineX (S.deg 2) (S.kv 2) density tol).foldl (insertOne (S.deg 2) tol)
                  (S.kv 2, RemInv.lineW (S.size 0) (S.size 1) (S.size 2) S.net a v)).2 := by
          intro a v ha hv
          have hlt : v + S.size 1 * a < S.size 0 * S.size 1 := flatIdx2_lt ha hv
          have := isoCol_refineA54Rows (v + S.size 1 * a) (S.deg 2) (S.kv 2) _
            (refineX (S.deg 2) (S.kv 2) density tol) tol (by rw [hw]; exact hlt)
          rw [isoCol_volRows2 _ _ _ _ (le_refl _) _ _ _ ha hv, key _ (by simp [RemInv.lineW])
            (RemInv.lineW_netOk _ _ _ d _ hS.net hS.netlen a v ha hv)] at this
          exact this
        refine ⟨?_, ?_⟩
        · rw [(hcol 0 0 hsu hsv).1]
          exact insert_fold_kv_indep _ _ _ _ _ _ (by simp [RemInv.lineW])
        · apply mapVolRows2_eq 2 _ _ _ (le_refl _) _ _ _ hsu hsv
          · apply rectW_of_weak _ d (Nat.mul_pos hsu hsv) hd
            · have := rectW'_refineA54Rows (S.deg 2) (S.kv 2) (volRows 2 (S.size 0) (S.size 1) (S.size 2) S.net)
                (refineX (S.deg 2) (S.kv 2) density tol) tol (by rw [hw]; exact volRows2_rect 2 _ _ _ (le_refl _) _)
              rw [hw] at this
              exact this
            · have e := (hcol 0 0 hsu hsv).2
              simp only [Nat.mul_zero, Nat.add_zero] at e
              rw [e]
              exact (refine_isocurve (S.deg 2) d (S.kv 2) (S.size 2) density tol hS.dir2 hyp.1 h0 hyp.2
                (RemInv.lineW (S.size 0) (S.size 1) (S.size 2) S.net 0 0) (by simp [RemInv.lineW])
                (RemInv.lineW_netOk _ _ _ d _ hS.net hS.netlen 0 0 hsu hsv)).2.1
          · exact fun a v ha hv => (hcol a v ha hv).2
    obtain ⟨m1, m2⟩ := main
    rw [m1, ← m2]
    rfl

end vol
end Rows
end Geomdl
