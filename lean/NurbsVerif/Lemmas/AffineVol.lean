import NurbsVerif.Lemmas.HullRat
import NurbsVerif.Model.Transform

/-! Affine maps of the control net (what `operations.translate / rotate / scale` do: the map is applied
    to the Cartesian control points, weights are kept) move every evaluated point – curve, surface,
    volume, rational or not – by the same map. -/
namespace Geomdl
open Blossom Finset
variable {K : Type} [Field K] [LinearOrder K] [IsStrictOrderedRing K]

/-- `f` acts on points with `d` coordinates as the affine map `x ↦ A x + b` -/
structure AffOn (d : ℕ) (f : List K → List K) (A : ℕ → ℕ → K) (b : ℕ → K) : Prop where
  len : ∀ pt : List K, pt.length = d → (f pt).length = d
  coord : ∀ pt : List K, pt.length = d → ∀ j, j < d →
    (f pt).getD j 0 = ∑ l ∈ range d, A j l * pt.getD l 0 + b j

theorem list_eq_of_getD_lt {a b : List K} (d : ℕ) (ha : a.length = d) (hb : b.length = d)
    (h : ∀ j, j < d → a.getD j 0 = b.getD j 0) : a = b := by
  apply List.ext_getElem (by rw [ha, hb])
  intro i h1 h2
  have := h i (by omega)
  rw [List.getD_eq_getElem?_getD, List.getD_eq_getElem?_getD, List.getElem?_eq_getElem h1,
    List.getElem?_eq_getElem h2] at this
  simpa using this

theorem getLastD_eq_getD_of_length (x : List K) (d : ℕ) (hx : x.length = d + 1) : x.getLastD 1 = x.getD d 0 := by
  rw [List.getLastD_eq_getLast?, List.getLast?_eq_getElem?, hx]
  simp only [Nat.add_sub_cancel, List.getD_eq_getElem?_getD]
  rw [List.getElem?_eq_getElem (by omega)]
  simp

/-! ### the model's `onCartesian` on a homogeneous point -/

theorem onCartesian_length (d : ℕ) (f : List K → List K) (x : List K) (hx : x.length = d + 1)
    (hf : ∀ pt : List K, pt.length = d → (f pt).length = d) : (onCartesian true f x).length = d + 1 := by
  show ((f (project x)).map (· * x.getLastD 1) ++ [x.getLastD 1]).length = d + 1
  simp [hf _ (project_length x d hx)]

/-- weights are unchanged -/
theorem onCartesian_weight (d : ℕ) (f : List K → List K) (x : List K) (hx : x.length = d + 1)
    (hf : ∀ pt : List K, pt.length = d → (f pt).length = d) : (onCartesian true f x).getD d 0 = x.getD d 0 := by
  show ((f (project x)).map (· * x.getLastD 1) ++ [x.getLastD 1]).getD d 0 = _
  have hl : ((f (project x)).map (· * x.getLastD 1)).length = d := by simp [hf _ (project_length x d hx)]
  rw [List.getD_eq_getElem?_getD, List.getElem?_append_right (by omega), hl, getLastD_eq_getD_of_length x d hx]
  simp

/-- in homogeneous coordinates the map is linear: `(A x + b w, w)` -/
theorem onCartesian_coord (d : ℕ) (f : List K → List K) (A : ℕ → ℕ → K) (b : ℕ → K) (hf : AffOn d f A b)
    (x : List K) (hx : x.length = d + 1) (hw : x.getD d 0 ≠ 0) (j : ℕ) (hj : j < d) :
    (onCartesian true f x).getD j 0 = ∑ l ∈ range d, A j l * x.getD l 0 + b j * x.getD d 0 := by
  show ((f (project x)).map (· * x.getLastD 1) ++ [x.getLastD 1]).getD j 0 = _
  have hfl : (f (project x)).length = d := hf.len _ (project_length x d hx)
  have hl : ((f (project x)).map (· * x.getLastD 1)).length = d := by simp [hfl]
  rw [List.getD_eq_getElem?_getD, List.getElem?_append_left (by omega), getLastD_eq_getD_of_length x d hx,
    List.getElem?_map, List.getElem?_eq_getElem (by omega)]
  simp only [Option.map_some, Option.getD_some]
  have e : (f (project x))[j]'(by omega) = (f (project x)).getD j 0 := by
    rw [List.getD_eq_getElem?_getD, List.getElem?_eq_getElem (by omega)]; simp
  rw [e, hf.coord _ (project_length x d hx) j hj, add_mul, Finset.sum_mul]
  congr 1
  apply Finset.sum_congr rfl
  intro l hl'
  rw [project_getD x d l hx (Finset.mem_range.mp hl')]
  field_simp

/-! ### generic statements for a point given as a convex combination -/
section Generic
variable {ι : Type}

theorem affine_comb_fin (s : Finset ι) (c : ι → K) (hc1 : ∑ i ∈ s, c i = 1) (m : ℕ) (H : ι → ℕ → K)
    (A : ℕ → K) (b : K) :
    ∑ i ∈ s, c i * (∑ l ∈ range m, A l * H i l + b) = ∑ l ∈ range m, A l * (∑ i ∈ s, c i * H i l) + b := by
  rw [linear_comb_fin]
  simp only [mul_add, Finset.sum_add_distrib]
  rw [← Finset.sum_mul, hc1, one_mul]

theorem linear_comb_fin_w (s : Finset ι) (c : ι → K) (m : ℕ) (H : ι → ℕ → K) (wt : ι → K)
    (A : ℕ → K) (b : K) :
    ∑ i ∈ s, c i * (∑ l ∈ range m, A l * H i l + b * wt i)
      = ∑ l ∈ range m, A l * (∑ i ∈ s, c i * H i l) + b * ∑ i ∈ s, c i * wt i := by
  rw [linear_comb_fin]
  simp only [mul_add, Finset.sum_add_distrib]
  congr 1
  rw [Finset.mul_sum]
  apply Finset.sum_congr rfl; intro i _; ring

/-- non-rational: the combination of the mapped control points is the mapped combination -/
theorem affine_lists (s : Finset ι) (c : ι → K) (hc1 : ∑ i ∈ s, c i = 1)
    (d : ℕ) (f : List K → List K) (A : ℕ → ℕ → K) (b : ℕ → K) (hf : AffOn d f A b)
    (pt qt : List K) (cp : ι → List K) (hcp : ∀ i ∈ s, (cp i).length = d) (hpt : pt.length = d) (hqt : qt.length = d)
    (hX : ∀ l, pt.getD l 0 = ∑ i ∈ s, c i * (cp i).getD l 0)
    (hY : ∀ l, qt.getD l 0 = ∑ i ∈ s, c i * (f (cp i)).getD l 0) : qt = f pt := by
  apply list_eq_of_getD_lt d hqt (hf.len pt hpt)
  intro j hj
  rw [hY j, hf.coord pt hpt j hj]
  rw [Finset.sum_congr rfl (fun i hmem => by rw [hf.coord (cp i) (hcp i hmem) j hj])]
  rw [affine_comb_fin s c hc1]
  congr 1
  apply Finset.sum_congr rfl
  intro l _
  rw [hX l]

/-- rational: weights unchanged, and the projected combination of the mapped homogeneous control
    points is the map of the projected combination -/
theorem rat_affine_lists (s : Finset ι) (c : ι → K) (hc1 : ∑ i ∈ s, c i = 1) (hc0 : ∀ i ∈ s, 0 ≤ c i)
    (d : ℕ) (f : List K → List K) (A : ℕ → ℕ → K) (b : ℕ → K) (hf : AffOn d f A b)
    (pt qt : List K) (cp : ι → List K) (hcp : ∀ i ∈ s, (cp i).length = d + 1)
    (hw : ∀ i ∈ s, 0 < (cp i).getD d 0) (hpt : pt.length = d + 1) (hqt : qt.length = d + 1)
    (hX : ∀ l, pt.getD l 0 = ∑ i ∈ s, c i * (cp i).getD l 0)
    (hY : ∀ l, qt.getD l 0 = ∑ i ∈ s, c i * (onCartesian true f (cp i)).getD l 0) :
    qt.getD d 0 = pt.getD d 0 ∧ 0 < pt.getD d 0 ∧ project qt = f (project pt) := by
  have hd : qt.getD d 0 = pt.getD d 0 := by
    rw [hY d, hX d]
    apply Finset.sum_congr rfl
    intro i hmem
    rw [onCartesian_weight d f (cp i) (hcp i hmem) hf.len]
  have hpos : 0 < pt.getD d 0 := by
    rw [hX d]; exact convex_pos_fin s c (fun i => (cp i).getD d 0) hc1 hc0 hw
  refine ⟨hd, hpos, ?_⟩
  apply list_eq_of_getD_lt d (project_length qt d hqt) (hf.len _ (project_length pt d hpt))
  intro j hj
  rw [project_getD qt d j hqt hj, hd, hf.coord _ (project_length pt d hpt) j hj]
  have hq : qt.getD j 0 = ∑ l ∈ range d, A j l * pt.getD l 0 + b j * pt.getD d 0 := by
    rw [hY j]
    rw [Finset.sum_congr rfl (fun i hmem => by
      rw [onCartesian_coord d f A b hf (cp i) (hcp i hmem) (ne_of_gt (hw i hmem)) j hj])]
    rw [linear_comb_fin_w s c d (fun i l => (cp i).getD l 0) (fun i => (cp i).getD d 0) (A j) (b j), ← hX d]
    congr 1
    apply Finset.sum_congr rfl
    intro l _
    rw [hX l]
  rw [hq, add_div, Finset.sum_div, mul_div_assoc, div_self (ne_of_gt hpos), mul_one]
  congr 1
  apply Finset.sum_congr rfl
  intro l hl
  rw [project_getD pt d l hpt (Finset.mem_range.mp hl), mul_div_assoc]

end Generic

/-! ### mapped nets -/

theorem ptsGet_map (g : List K → List K) (P : List (List K)) (i : ℕ) (hi : i < P.length) :
    ptsGet (P.map g) i = g (ptsGet P i) := by
  simp [ptsGet, List.getD_eq_getElem?_getD, hi]

theorem netOk_map (d d' : ℕ) (g : List K → List K) (P : List (List K)) (hP : NetOk d P)
    (hg : ∀ pt : List K, pt.length = d → (g pt).length = d') : NetOk d' (P.map g) := by
  intro pt hpt
  simp only [List.mem_map] at hpt
  obtain ⟨x, hx, rfl⟩ := hpt
  exact hg x (hP x hx)

/-- the transformed homogeneous net is again a net of `d+1`-coordinate points with the same,
    positive, weights -/
theorem onCartesian_net (d : ℕ) (f : List K → List K) (P : List (List K)) (hP : NetOk (d+1) P)
    (hf : ∀ pt : List K, pt.length = d → (f pt).length = d) :
    NetOk (d+1) (P.map (onCartesian true f)) ∧
    ∀ i, i < P.length → (ptsGet (P.map (onCartesian true f)) i).getD d 0 = (ptsGet P i).getD d 0 := by
  refine ⟨netOk_map (d+1) (d+1) _ P hP (fun pt hpt => onCartesian_length d f pt hpt hf), ?_⟩
  intro i hi
  rw [ptsGet_map _ P i hi]
  exact onCartesian_weight d f _ (ptsGet_length hP i hi) hf

end Geomdl
