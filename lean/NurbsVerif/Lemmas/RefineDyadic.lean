import NurbsVerif.Model.Knots2
import Mathlib.Tactic.Ring
import Mathlib.Tactic.Linarith
import Mathlib.Tactic.FieldSimp
import Mathlib.Algebra.Order.Field.Basic

/-! The density loop in closed form: after `d` rounds every interval of the list is divided into
    `2^d` equal parts. -/
namespace Geomdl
variable {K : Type} [Field K] [LinearOrder K] [IsStrictOrderedRing K]

theorem densify_ne_nil : ∀ (l : List K), l ≠ [] → densify l ≠ []
  | [], h => absurd rfl h
  | [a], _ => by simp [densify]
  | a :: b :: rest, _ => by simp [densify]

theorem densify_length' : ∀ (l : List K), l ≠ [] → (densify l).length = 2 * l.length - 1
  | [], h => absurd rfl h
  | [a], _ => by simp [densify]
  | a :: b :: rest, _ => by
      have ih := densify_length' (b :: rest) (by simp)
      simp only [densify, List.length_cons] at ih ⊢
      omega

theorem densify_even : ∀ (l : List K) (i : ℕ), i < l.length → (densify l).getD (2 * i) 0 = l.getD i 0
  | [], i, h => by simp at h
  | [a], i, h => by
      have : i = 0 := by simpa using h
      subst this; simp [densify]
  | a :: b :: rest, 0, _ => by simp [densify]
  | a :: b :: rest, i+1, h => by
      have ih := densify_even (b :: rest) i (by simpa using h)
      have e1 : 2 * (i + 1) = (2 * i) + 1 + 1 := by ring
      simp only [densify, e1, List.getD_cons_succ]
      exact ih

theorem densify_odd : ∀ (l : List K) (i : ℕ), i + 1 < l.length →
    (densify l).getD (2 * i + 1) 0 = l.getD i 0 + (l.getD (i+1) 0 - l.getD i 0) / (1 + 1)
  | a :: b :: rest, 0, _ => by simp [densify]
  | a :: b :: rest, i+1, h => by
      have ih := densify_odd (b :: rest) i (by simpa using h)
      have e2 : 2 * (i + 1) + 1 = (2 * i + 1) + 1 + 1 := by ring
      simp only [densify, e2, List.getD_cons_succ]
      exact ih
  | [], i, h => by simp at h
  | [a], i, h => by simp at h

/-- after `d` rounds a list of `m` values has `2^d (m - 1) + 1` values -/
theorem iterate_densify_length : ∀ (d : ℕ) (l : List K), l ≠ [] →
    (iterate densify d l).length = 2 ^ d * (l.length - 1) + 1
  | 0, l, h => by
      have : 0 < l.length := List.length_pos_iff.mpr h
      simp only [iterate, pow_zero, one_mul]; omega
  | d+1, l, h => by
      have hpos : 0 < l.length := List.length_pos_iff.mpr h
      show (iterate densify d (densify l)).length = _
      rw [iterate_densify_length d (densify l) (densify_ne_nil l h), densify_length' l h]
      obtain ⟨m, hm⟩ : ∃ m, l.length = m + 1 := ⟨l.length - 1, by omega⟩
      rw [hm]
      have e1 : 2 * (m + 1) - 1 - 1 = 2 * m := by omega
      have e2 : m + 1 - 1 = m := by omega
      rw [e1, e2, pow_succ]; ring

/-- **closed form of the density loop**: entry `2^d · i + r` (`0 ≤ r ≤ 2^d`) of the list after `d`
    rounds is `l_i + (l_{i+1} - l_i) · r / 2^d` – every interval of the original list has been
    bisected `d` times -/
theorem iterate_densify_getD : ∀ (d : ℕ) (l : List K) (i r : ℕ), i + 1 < l.length → r ≤ 2 ^ d →
    (iterate densify d l).getD (2 ^ d * i + r) 0
      = l.getD i 0 + (l.getD (i+1) 0 - l.getD i 0) * (r : K) / (2 : K) ^ d
  | 0, l, i, r, hi, hr => by
      simp only [pow_zero] at hr
      simp only [iterate, pow_zero, one_mul, div_one]
      rcases Nat.le_one_iff_eq_zero_or_eq_one.mp hr with rfl | rfl
      · simp
      · simp
  | d+1, l, i, r, hi, hr => by
      have hne : l ≠ [] := by intro e; rw [e] at hi; simp at hi
      have hdl := densify_length' l hne
      have h2 : (0:K) < 2 := by norm_num
      have h2d : (0:K) < (2:K) ^ d := pow_pos h2 d
      show (iterate densify d (densify l)).getD (2 ^ (d+1) * i + r) 0 = _
      rcases Nat.le_total r (2 ^ d) with hle | hgt
      · have eidx : 2 ^ (d+1) * i + r = 2 ^ d * (2 * i) + r := by rw [pow_succ]; ring
        rw [eidx, iterate_densify_getD d (densify l) (2 * i) r (by omega) hle,
          densify_even l i (by omega), densify_odd l i hi, pow_succ]
        field_simp
        ring
      · have hr' : r - 2 ^ d ≤ 2 ^ d := by rw [pow_succ] at hr; omega
        have eidx : 2 ^ (d+1) * i + r = 2 ^ d * (2 * i + 1) + (r - 2 ^ d) := by
          rw [pow_succ]
          have : 2 ^ d * (2 * i + 1) = 2 ^ d * 2 * i + 2 ^ d := by ring
          rw [this]; omega
        have e2 : 2 * i + 1 + 1 = 2 * (i + 1) := by ring
        rw [eidx, iterate_densify_getD d (densify l) (2 * i + 1) (r - 2 ^ d) (by omega) hr',
          e2, densify_even l (i + 1) (by omega), densify_odd l i hi, Nat.cast_sub hgt, Nat.cast_pow, pow_succ]
        push_cast
        field_simp
        ring

end Geomdl
