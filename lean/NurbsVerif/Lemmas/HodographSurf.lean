import NurbsVerif.Model.Hodograph
import NurbsVerif.Lemmas.SurfLoopsA37Val
import NurbsVerif.Lemmas.Hodograph
import NurbsVerif.Lemmas.Grid

/-! The hodograph surfaces of `operations.derivative_surface` (model `derivativeSurface`, built from A3.7 as
    coded on the whole net): evaluated on the shifted spans they are the partial derivatives. -/
namespace Geomdl
open Blossom Polynomial Finset
open scoped Polynomial.Bivariate
variable {K : Type} [Field K] [LinearOrder K] [IsStrictOrderedRing K]

/-- the flat net cut out of `PKL[k][l]`: point `(x, y)` -/
theorem pklNet_get (T : Arr4 (Option (List K))) (k l nu nv x y : ℕ) (hx : x < nu) (hy : y < nv) :
    ptsGet (pklNet T k l nu nv) (y + nv * x) = (T.get k l x y).getD [] := by
  unfold pklNet ptsGet
  have h := flatMap_map_getD (List.range nu) (List.range nv) (fun i j => (T.get k l i j).getD []) [] 0 0 x y
    (by simpa using hx) (by simpa using hy)
  simp only [List.length_range] at h
  rw [show y + nv * x = x * nv + y by rw [Nat.mul_comm]; omega, h]
  simp [List.getD_eq_getElem?_getD, List.getElem?_range hx, List.getElem?_range hy]

/-- **a derivative surface cut out of A3.7's table is the mixed partial derivative.**  The net
    `PKL[k][l]` (computed on the whole control net with requested order `order`), with degrees
    `(pu - k, pv - l)`, `sv - l` columns and knot functions that are the original ones shifted by `k` resp.
    `l` on the windows that are read, evaluated at `(u, v)` on the spans `(κu - k, κv - l)`, gives
    `∂ᵏ/∂uᵏ ∂ˡ/∂vˡ` of the bivariate span polynomial of the original surface. -/
theorem derivSurface_true (pu pv : ℕ) (Uu Uv Vu Vv : ℕ → K) (su sv : ℕ) (P : List (List K)) (κu κv : ℕ) (u v : K)
    (d c order k l : ℕ)
    (hpu : pu ≤ κu) (hpv : pv ≤ κv) (hκu : κu < su) (hκv : κv < sv) (hlen : P.length = su * sv) (hP : NetOk d P)
    (hmu : Monotone Uu) (hmv : Monotone Uv) (hspu : Uu κu < Uu (κu+1)) (hspv : Uv κv < Uv (κv+1))
    (hk : k ≤ min pu order) (hl : l ≤ min (order - k) (min pv order))
    (hVu : ∀ i, κu + 1 ≤ i + pu → i + 2 * k ≤ κu + pu → Vu i = Uu (i + k))
    (hVv : ∀ i, κv + 1 ≤ i + pv → i + 2 * l ≤ κv + pv → Vv i = Uv (i + l)) :
    (surfacePointAt (pu - k) (pv - l) Vu Vv (sv - l)
        (pklNet (surfaceDerivCptsA37 pu pv Uu Uv su sv P 0 (su - 1) 0 (sv - 1) order) k l (su - k) (sv - l))
        (κu - k) (κv - l) u v).getD c 0
      = (pderivU^[k] (pderivV^[l] (surfSpanPoly pu pv Uu Uv sv P κu κv c))).evalEval u v := by
  have hent := fun i j (hi : i ≤ su - 1 - k) (hj : j ≤ sv - 1 - l) =>
    a37_entry pu pv Uu Uv su sv P 0 (su - 1) 0 (sv - 1) order d (by omega) (by omega) hlen hP
      (by omega) (by omega) k l i j hk hl hi hj
  rw [Nat.zero_add, Nat.zero_add] at hent
  set T := surfaceDerivCptsA37 pu pv Uu Uv su sv P 0 (su - 1) 0 (sv - 1) order with hT
  have hkp : k ≤ pu := by omega
  have hlp : l ≤ pv := by omega
  -- basis functions on the shifted knots / spans
  have hNu : basisFuns (pu - k) Vu (κu - k) u = basisFuns (pu - k) Uu κu u := by
    rw [basisFuns_congr Vu (fun i => Uu (i + k)) (κu - k) u (pu - k) (by omega)
      (fun i h1 h2 => hVu i (by omega) (by omega)),
      basisFuns_shift Uu k (κu - k) u (pu - k) (by omega), show κu - k + k = κu by omega]
  have hNv : basisFuns (pv - l) Vv (κv - l) v = basisFuns (pv - l) Uv κv v := by
    rw [basisFuns_congr Vv (fun i => Uv (i + l)) (κv - l) v (pv - l) (by omega)
      (fun i h1 h2 => hVv i (by omega) (by omega)),
      basisFuns_shift Uv l (κv - l) v (pv - l) (by omega), show κv - l + l = κv by omega]
  -- the points of the net that are read
  have hpt : ∀ a b, a ≤ pu - k → b ≤ pv - l →
      (ptsGet (pklNet T k l (su - k) (sv - l)) (κv - l - (pv - l) + b + (sv - l) * (κu - k - (pu - k) + a))).length = d ∧
      (ptsGet (pklNet T k l (su - k) (sv - l)) (κv - l - (pv - l) + b + (sv - l) * (κu - k - (pu - k) + a))).getD c 0
        = dIter Uv pv l (fun y => dIter Uu pu k (fun x => netCoord sv P c x y) (κu - pu + k + a)) (κv - pv + l + b) := by
    intro a b ha hb
    have e1 : κu - k - (pu - k) = κu - pu := by omega
    have e2 : κv - l - (pv - l) = κv - pv := by omega
    have e3 : κu - pu + a < su - k := by omega
    have e4 : κv - pv + b < sv - l := by omega
    rw [e1, e2, pklNet_get T k l (su - k) (sv - l) _ _ e3 e4]
    have e5 : κu - pu + a ≤ su - 1 - k := by clear hl hk e1 e2 e4; omega
    have e6 : κv - pv + b ≤ sv - 1 - l := by clear hl hk e1 e2 e3 e5; omega
    obtain ⟨X, hX, hXl, hXc⟩ := hent (κu - pu + a) (κv - pv + b) e5 e6
    rw [hX, Option.getD_some]
    refine ⟨hXl, ?_⟩
    have i1 : 0 + (κu - pu + a) + k = κu - pu + k + a := by omega
    have i2 : 0 + (κv - pv + b) + l = κv - pv + l + b := by omega
    rw [hXc c, i1, i2]
  have hdim : dimOf (pklNet T k l (su - k) (sv - l)) = d := by
    have h0 := pklNet_get T k l (su - k) (sv - l) 0 0 (by omega) (by omega)
    obtain ⟨X, hX, hXl, _⟩ := hent 0 0 (by omega) (by omega)
    rw [hX, Option.getD_some] at h0
    simp only [Nat.mul_zero, Nat.add_zero] at h0
    unfold dimOf
    unfold ptsGet at h0
    rw [List.getD_eq_getElem?_getD] at h0
    cases hq : pklNet T k l (su - k) (sv - l) with
    | nil => rw [hq] at h0; simp at h0; subst h0; simpa using hXl
    | cons q qs => rw [hq] at h0; simp at h0; simpa [h0] using hXl
  unfold surfacePointAt
  simp only []
  rw [hdim, hNu, hNv]
  rw [linComb_range d c (pu - k) _ (Blossom.basisFuns_length _ _ _ _) _ (by
    intro a ha
    apply linComb_length
    intro pt hpt'
    simp only [List.mem_map, List.mem_range] at hpt'
    obtain ⟨b, hb, rfl⟩ := hpt'
    exact (hpt a b ha (by omega)).1)]
  rw [evalEval_surfSpanPoly_pderiv]
  refine Eq.trans ?_ (dIter2_basis_sum pu pv Uu Uv κu κv u v (fun x y => netCoord sv P c x y) k l hpu hpv
    (sep_of_mono Uu κu hmu hspu) (sep_of_mono Uv κv hmv hspv) hkp hlp)
  have h1 : ∀ a ∈ range (pu - k + 1),
      (basisFuns (pu - k) Uu κu u).getD a 0 *
        (linComb d (basisFuns (pv - l) Uv κv v) ((List.range (pv - l + 1)).map (fun b =>
          ptsGet (pklNet T k l (su - k) (sv - l)) (κv - l - (pv - l) + b + (sv - l) * (κu - k - (pu - k) + a))))).getD c 0
      = ∑ b ∈ range (pv - l + 1), (basisFuns (pv - l) Uv κv v).getD b 0 *
          ((basisFuns (pu - k) Uu κu u).getD a 0 *
            dIter Uv pv l (fun y => dIter Uu pu k (fun x => netCoord sv P c x y) (κu - pu + k + a)) (κv - pv + l + b)) := by
    intro a ha
    rw [Finset.mem_range] at ha
    rw [linComb_range d c (pv - l) _ (Blossom.basisFuns_length _ _ _ _) _ (fun b hb => (hpt a b (by omega) hb).1),
      Finset.mul_sum]
    apply Finset.sum_congr rfl
    intro b hb
    rw [Finset.mem_range] at hb
    rw [(hpt a b (by omega) (by omega)).2]
    ring
  rw [Finset.sum_congr rfl h1, Finset.sum_comm]
  apply Finset.sum_congr rfl
  intro b _
  rw [Finset.mul_sum]

end Geomdl
