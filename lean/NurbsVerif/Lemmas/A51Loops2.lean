import NurbsVerif.Lemmas.A51Loops

/-!
  A5.1 as coded against the index-by-index model, part 2: the output array `ctrlpts_new` (generic in the element
  type `List β` and the blend `f`, see part 1; the point branch and the list-of-rows branch are instances:
  `Lemmas/A51LoopsPts.lean`, `Lemmas/A51LoopsRows.lean`).

  Bookkeeping: `CpInv n M W c` says that the work array `c` has `n` slots and every slot whose index is in the
  set `W` ("already written") holds the value `M x` the index model assigns to it.  Every assignment
  `ctrlpts_new[y] = v` of the code writes `v = M y` (lemmas `insIdx_*`: one per assignment of the code), so
  the set only grows (a slot that is written twice – `L = k + num - j - s` in the last pass when
  `num + s = p` – receives the same value twice); after the last loop the set is everything.
-/
namespace Geomdl
namespace A51L

section generic
variable {α : Type}

/-- `c` has `n` slots and every slot in `W` holds its final value `M x` -/
def CpInv (n : Nat) (M : Nat → α) (W : Nat → Prop) (c : List α) : Prop :=
  c.length = n ∧ ∀ x, W x → x < n → c[x]? = some (M x)

theorem cpInv_replicate (n : Nat) (M : Nat → α) (a : α) : CpInv n M (fun _ => False) (List.replicate n a) :=
  ⟨by simp, fun _ h _ => h.elim⟩

theorem cpInv_mono {n : Nat} {M : Nat → α} {W W' : Nat → Prop} {c : List α}
    (h : ∀ x, x < n → W' x → W x) (hc : CpInv n M W c) : CpInv n M W' c :=
  ⟨hc.1, fun x hx hn => hc.2 x (h x hn hx) hn⟩

/-- one assignment `c[y] = v` with `v` the final value of slot `y` -/
theorem cpInv_set {n : Nat} {M : Nat → α} {W : Nat → Prop} {c : List α} (y : Nat) (v : α) (hv : v = M y)
    (hc : CpInv n M W c) : CpInv n M (fun x => W x ∨ x = y) (c.set y v) := by
  refine ⟨by simpa using hc.1, fun x hx hn => ?_⟩
  by_cases hxy : x = y
  · subst hxy
    rw [List.getElem?_set_self (by rw [hc.1]; exact hn), hv]
  · rw [List.getElem?_set_ne (fun h => hxy h.symm)]
    rcases hx with hx | hx
    · exact hc.2 x hx hn
    · exact absurd hx hxy

/-- a loop of assignments `for i in is: c[g i] = f i`, each writing a final value -/
theorem cpInv_foldl {n : Nat} {M : Nat → α} (g : Nat → Nat) (f : Nat → α) :
    ∀ (is : List Nat) {W : Nat → Prop} {c : List α}, (∀ i ∈ is, f i = M (g i)) → CpInv n M W c →
      CpInv n M (fun x => W x ∨ ∃ i ∈ is, g i = x) (is.foldl (fun c i => c.set (g i) (f i)) c) := by
  intro is
  induction is with
  | nil => intro W c _ hc; exact cpInv_mono (fun x _ h => by simpa using h) hc
  | cons a is ih =>
    intro W c hf hc
    rw [List.foldl_cons]
    have h1 := cpInv_set (g a) (f a) (hf a (by simp)) hc
    have h2 := ih (fun i hi => hf i (by simp [hi])) h1
    refine cpInv_mono (fun x _ h => ?_) h2
    rcases h with h | ⟨i, hi, hgi⟩
    · exact Or.inl (Or.inl h)
    · rcases List.mem_cons.mp hi with rfl | hi
      · exact Or.inl (Or.inr hgi.symm)
      · exact Or.inr ⟨i, hi, hgi⟩

/-- everything written: the array is the table of `M` -/
theorem cpInv_total {n : Nat} {M : Nat → α} {W : Nat → Prop} {c : List α} (hW : ∀ x, x < n → W x)
    (hc : CpInv n M W c) : c = (List.range n).map M := by
  apply List.ext_getElem?
  intro x
  by_cases hx : x < n
  · rw [hc.2 x (hW x hx) hx, List.getElem?_map, List.getElem?_range hx]; rfl
  · rw [List.getElem?_eq_none (by rw [hc.1]; omega), List.getElem?_eq_none (by simp; omega)]

end generic

section
variable {β : Type} (f : Nat → Nat → List β → List β → List β)

/-- the model's `temp` array at insertion level `j` (`insTempAt`, `insTempAtRows`) -/
def gTempAt (P : List (List β)) (k p s : Nat) : Nat → List (List β)
  | 0 => insTempInit P k p s
  | j+1 => gStep f k p s (j+1) (gTempAt P k p s j)

/-- the value the index model assigns to slot `i` (the body of `Geomdl.knotInsertion` / `knotInsertionRows`) -/
def insIdx (p : Nat) (P : List (List β)) (r s k : Nat) (i : Nat) : List β :=
  if i + p ≤ k then ptsGet P i
  else if i + p ≤ k + r then ptsGet (gTempAt f P k p s (i + p - k)) 0
  else if i + s < k then ptsGet (gTempAt f P k p s r) (i + p - k - r)
  else if i + s < k + r then ptsGet (gTempAt f P k p s (k + r - s - i)) (p - (k + r - s - i) - s)
  else ptsGet P (i - r)

/-- the index-form model, generic -/
def gModel (p : Nat) (P : List (List β)) (r s k : Nat) : List (List β) :=
  (List.range (P.length + r)).map (insIdx f p P r s k)

/-- `ctrlpts_new[i] = ctrlpts[i]` for `i ≤ k - p` -/
theorem insIdx_head (p : Nat) (P : List (List β)) (r s k i : Nat) (hi : i + p ≤ k) :
    ptsGet P i = insIdx f p P r s k i := by
  unfold insIdx; rw [if_pos hi]

/-- `ctrlpts_new[i + num] = ctrlpts[i]` for `i ≥ k - s` -/
theorem insIdx_tail (p : Nat) (P : List (List β)) (r s k i : Nat) (hrs : r + s ≤ p)
    (hi : k ≤ i + s) : ptsGet P i = insIdx f p P r s k (i + r) := by
  unfold insIdx
  by_cases h1 : i + r + p ≤ k
  · rw [if_pos h1]; congr 1; omega
  · rw [if_neg h1, if_neg (by omega), if_neg (by omega), if_neg (by omega)]; congr 1; omega

/-- `ctrlpts_new[L] = temp[0]` in pass `j` -/
theorem insIdx_left (p : Nat) (P : List (List β)) (r s k j : Nat) (hpk : p ≤ k)
    (hj1 : 1 ≤ j) (hjr : j ≤ r) :
    ptsGet (gTempAt f P k p s j) 0 = insIdx f p P r s k (k - p + j) := by
  unfold insIdx
  rw [if_neg (by omega), if_pos (by omega)]
  have e : k - p + j + p - k = j := by omega
  rw [e]

/-- `ctrlpts_new[k + num - j - s] = temp[p - j - s]` in pass `j` -/
theorem insIdx_right (p : Nat) (P : List (List β)) (r s k j : Nat) (hpk : p ≤ k)
    (hrs : r + s ≤ p) (hj1 : 1 ≤ j) (hjr : j ≤ r) :
    ptsGet (gTempAt f P k p s j) (p - j - s) = insIdx f p P r s k (k + r - j - s) := by
  unfold insIdx
  rw [if_neg (by omega)]
  by_cases h2 : k + r - j - s + p ≤ k + r
  · rw [if_pos h2]
    have e1 : k + r - j - s + p - k = j := by omega
    have e2 : p - j - s = 0 := by omega
    rw [e1, e2]
  · rw [if_neg h2, if_neg (by omega), if_pos (by omega)]
    have e1 : k + r - s - (k + r - j - s) = j := by omega
    rw [e1]

/-- `ctrlpts_new[i] = temp[i - L]` in the last loop -/
theorem insIdx_mid (p : Nat) (P : List (List β)) (r s k i : Nat) (hpk : p ≤ k)
    (h1 : k + r + 1 ≤ i + p) (h2 : i + s < k) :
    ptsGet (gTempAt f P k p s r) (i - (k - p + r)) = insIdx f p P r s k i := by
  unfold insIdx
  rw [if_neg (by omega), if_neg (by omega), if_pos h2]
  have e : i - (k - p + r) = i + p - k - r := by omega
  rw [e]

/-- the slots written before the insertion loop and by its first `J` passes -/
def WJ (p r s k J : Nat) (x : Nat) : Prop :=
  x + p ≤ k ∨ k + r ≤ x + s ∨ (k + 1 ≤ x + p ∧ x + p ≤ k + J) ∨ (x + s + 1 ≤ k + r ∧ k + r ≤ x + s + J)

/-- after the two copy loops -/
theorem cpInv_init (p : Nat) (P : List (List β)) (r s k : Nat) (hpk : p ≤ k) (hrs : r + s ≤ p) :
    CpInv (P.length + r) (insIdx f p P r s k) (WJ p r s k 0) (a51Init p P r s k).cp := by
  have h0 := cpInv_replicate (P.length + r) (insIdx f p P r s k) ([] : List β)
  have h1 := cpInv_foldl (M := insIdx f p P r s k) (fun i => i) (fun i => ptsGet P i) (List.range (k + 1 - p))
    (fun i hi => insIdx_head f p P r s k i (by have := List.mem_range.mp hi; omega)) h0
  have h2 := cpInv_foldl (M := insIdx f p P r s k) (fun i => i + r) (fun i => ptsGet P i)
    (List.range' (k - s) (P.length - (k - s)))
    (fun i hi => insIdx_tail f p P r s k i hrs (by have := List.mem_range'_1.mp hi; omega)) h1
  refine cpInv_mono (fun x hx hW => ?_) h2
  rcases hW with h | h | h | h
  · exact Or.inl (Or.inr ⟨x, List.mem_range.mpr (by omega), rfl⟩)
  · exact Or.inr ⟨x - r, List.mem_range'_1.mpr (by omega), by omega⟩
  · omega
  · omega

/-- the state of the code after `J` passes of `for j in range(1, num + 1)` -/
def stateAt (p : Nat) (P : List (List β)) (r s k J : Nat) : A51St β :=
  (List.range' 1 J).foldl (gOuter f p r s k) (a51Init p P r s k)

/-- **loop invariant of the insertion loop**: after `J ≤ num` passes `temp` reads like the model's level `J`
    and the slots of `WJ … J` hold their final values -/
theorem outer_inv (p : Nat) (P : List (List β)) (r s k : Nat) (hpk : p ≤ k) (hrs : r + s ≤ p) :
    ∀ J, J ≤ r →
      TempRel p (stateAt f p P r s k J).temp (gTempAt f P k p s J) ∧
      CpInv (P.length + r) (insIdx f p P r s k) (WJ p r s k J) (stateAt f p P r s k J).cp := by
  intro J
  induction J with
  | zero =>
    intro _
    exact ⟨tempRel_init p P r s k (by omega), cpInv_init f p P r s k hpk hrs⟩
  | succ J ih =>
    intro hJ
    obtain ⟨ht, hc⟩ := ih (by omega)
    have hst : stateAt f p P r s k (J + 1) = gOuter f p r s k (stateAt f p P r s k J) (J + 1) := by
      unfold stateAt
      rw [List.range'_1_concat, List.foldl_append, Nat.add_comm 1 J]; rfl
    have ht' : TempRel p (gOuter f p r s k (stateAt f p P r s k J) (J + 1)).temp (gTempAt f P k p s (J + 1)) :=
      tempRel_step f k p s (J + 1) _ _ (by omega) ht
    rw [hst]
    refine ⟨ht', ?_⟩
    have hL := cpInv_set (k - p + (J + 1)) (ptsGet (gOuter f p r s k (stateAt f p P r s k J) (J + 1)).temp 0)
      ((ht'.2 0).trans (insIdx_left f p P r s k (J + 1) hpk (by omega) (by omega))) hc
    have hR := cpInv_set (k + r - (J + 1) - s)
      (ptsGet (gOuter f p r s k (stateAt f p P r s k J) (J + 1)).temp (p - (J + 1) - s))
      ((ht'.2 _).trans (insIdx_right f p P r s k (J + 1) hpk hrs (by omega) (by omega))) hL
    refine cpInv_mono (fun x hx hW => ?_) hR
    unfold WJ at hW ⊢
    by_cases h1 : x = k + r - (J + 1) - s
    · exact Or.inr h1
    · by_cases h2 : x = k - p + (J + 1)
      · exact Or.inl (Or.inr h2)
      · refine Or.inl (Or.inl ?_)
        omega

/-- **the loops = the index-by-index form**, for every element type and blend, under the guard `p ≤ k`,
    `num + s ≤ p` (no negative index) -/
theorem gA51_eq (p : Nat) (P : List (List β)) (r s k : Nat)
    (hpk : p ≤ k) (hrs : r + s ≤ p) :
    gA51 f p P r s k = gModel f p P r s k := by
  obtain ⟨ht, hc⟩ := outer_inv f p P r s k hpk hrs r (Nat.le_refl r)
  have hfin := cpInv_foldl (M := insIdx f p P r s k) (fun i => i)
    (fun i => ptsGet (stateAt f p P r s k r).temp (i - (k - p + r)))
    (List.range' (k - p + r + 1) (k - s - (k - p + r + 1)))
    (fun i hi => by
      have := List.mem_range'_1.mp hi
      rw [ht.2]
      exact insIdx_mid f p P r s k i hpk (by omega) (by omega)) hc
  unfold gModel
  refine cpInv_total (fun x hx => ?_) hfin
  unfold WJ
  by_cases hm : k + r + 1 ≤ x + p ∧ x + s < k
  · exact Or.inr ⟨x, List.mem_range'_1.mpr (by omega), rfl⟩
  · refine Or.inl ?_
    omega

end
end A51L
end Geomdl
