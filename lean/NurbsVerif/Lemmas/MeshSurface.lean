import NurbsVerif.Lemmas.MeshGeom
import NurbsVerif.Lemmas.Grid
/-!
# The vertices of the tessellation are points of the surface (C15)

`makeTriangleMesh su sv s` stores with every vertex its parameters `uv` and the index `src` of the evaluated
point whose position it copies.  Here the three model functions `makeTriangleMesh`, `surfaceGrid`
(`Surface.evaluate` on the `linspace` grid) and `surfacePoint` meet in one statement: the copied point IS the
surface point at the stored parameters.
-/
namespace Geomdl.Mesh
open Geomdl
variable {K : Type} [Field K] [LinearOrder K] [IsStrictOrderedRing K]

private theorem lsLen (a b : K) (n : ℕ) : (linspaceCore a b n).length = n := by simp [linspaceCore]

/-- grid line `i` exists iff it is one of the sampled lines (`gridCount = ⌈size / s⌉`, the repaired size) -/
theorem lt_gridCount_iff (size s i : ℕ) : i < gridCount size s ↔ 0 < s ∧ i * s < size := by
  unfold gridCount
  rcases Nat.eq_zero_or_pos s with rfl | hs
  · simp
  · rw [Nat.lt_iff_add_one_le, Nat.le_div_iff_mul_le hs, Nat.add_mul]
    constructor
    · intro h; exact ⟨hs, by omega⟩
    · intro h; omega

theorem vertex_uv_src_getElem? (su sv s i j : ℕ) (hu : 2 ≤ gridCount su s) (hv : 2 ≤ gridCount sv s)
    (hi : i < gridCount su s) (hj : j < gridCount sv s) :
    (makeTriangleMesh (K := K) su sv s).uv[gridVid (gridCount sv s) i j]? =
        some ((i : K) * meshJump su s, (j : K) * meshJump sv s) ∧
    (makeTriangleMesh (K := K) su sv s).src[gridVid (gridCount sv s) i j]? = some (j * s + (i * s) * sv) := by
  rw [makeTriangleMesh_eq su sv s hu hv]
  simp only [List.getElem?_map, meshVertices_getElem? su sv s i j hi hj, Option.map_some, accParam_eq, and_self]

/-- the vertex on grid lines `(i, j)` carries the point of the sampled grid (sample sizes `su × sv`, parameters
    `linspace(0,1,·)`) that is the surface point at the parameters the vertex stores -/
theorem vertex_is_surface_point (rat : Bool) (pu pv : ℕ) (Uu Uv : ℕ → K) (nu nv : ℕ) (P : List (List K))
    (su sv s i j : ℕ) (hu : 2 ≤ gridCount su s) (hv : 2 ≤ gridCount sv s)
    (hi : i < gridCount su s) (hj : j < gridCount sv s) :
    ∃ uv src, (makeTriangleMesh (K := K) su sv s).uv[gridVid (gridCount sv s) i j]? = some uv ∧
      (makeTriangleMesh (K := K) su sv s).src[gridVid (gridCount sv s) i j]? = some src ∧
      uv = ((i : K) * meshJump su s, (j : K) * meshJump sv s) ∧ src = j * s + (i * s) * sv ∧
      src < (surfaceGrid rat pu pv Uu Uv nu nv P (linspaceCore 0 1 su) (linspaceCore 0 1 sv)).length ∧
      (surfaceGrid rat pu pv Uu Uv nu nv P (linspaceCore 0 1 su) (linspaceCore 0 1 sv)).getD src []
        = projIf rat (surfacePoint pu pv Uu Uv nu nv P uv.1 uv.2) := by
  obtain ⟨h1, h2⟩ := vertex_uv_src_getElem? (K := K) su sv s i j hu hv hi hj
  have his : i * s < su := ((lt_gridCount_iff su s i).1 hi).2
  have hjs : j * s < sv := ((lt_gridCount_iff sv s j).1 hj).2
  refine ⟨_, _, h1, h2, rfl, rfl, ?_, ?_⟩
  · rw [surfaceGrid_length, lsLen, lsLen]
    calc j * s + i * s * sv < sv + i * s * sv := by omega
      _ = (i * s + 1) * sv := by ring
      _ ≤ su * sv := Nat.mul_le_mul_right sv (by omega)
  · have lu := lsLen (0 : K) 1 su
    have lv := lsLen (0 : K) 1 sv
    have g := surfaceGrid_getD rat pu pv Uu Uv nu nv P (linspaceCore 0 1 su) (linspaceCore 0 1 sv)
      (i * s) (j * s) (by omega) (by omega)
    rw [lv] at g
    have e : j * s + i * s * sv = i * s * sv + j * s := by omega
    rw [e, g, ← accParam_eq_linspace su s i his, ← accParam_eq_linspace sv s j hjs, accParam_eq, accParam_eq]

end Geomdl.Mesh
