import NurbsVerif.Lemmas.VolRefineShape

/-! Object level: two loops over the parametric directions of a surface / a volume (`dirFold_surface`,
    `dirFold_volume`) that agree on every state reachable by direction steps that are `DirStepOk` (well-formed, same
    degrees, the knot vector and the size of the direction whose turn it is still those of the original object)
    return the same object and the same flag.  Used to carry "the helper as coded = the model of the helper",
    which holds on well-formed objects only, through the loops of `operations.insert_knot` /
    `operations.refine_knotvector`. -/
namespace Geomdl
set_option linter.unusedSectionVars false
variable {K : Type} [Field K] [LinearOrder K] [IsStrictOrderedRing K]

theorem dirFold_surface_congr (d : ℕ) (S : Shape K) (hS : SurfWF d S)
    (step step' : Shape K × Bool → ℕ → Shape K × Bool)
    (hstep : ∀ (T : Shape K) (b : Bool) (dir : ℕ), dir < 2 → SurfWF d T → T.degs = S.degs → T.rat = S.rat →
      T.kv dir = S.kv dir → T.size dir = S.size dir → DirStepOk d T (step (T, b) dir).1 dir)
    (heq : ∀ (T : Shape K) (b : Bool) (dir : ℕ), dir < 2 → SurfWF d T → T.degs = S.degs → T.rat = S.rat →
      T.kv dir = S.kv dir → T.size dir = S.size dir → step' (T, b) dir = step (T, b) dir) :
    (List.range S.pdim).foldl step' (S, true) = (List.range S.pdim).foldl step (S, true) := by
  have hpd : S.pdim = 2 := hS.degs
  rw [hpd, show List.range 2 = [0, 1] from rfl]
  simp only [List.foldl_cons, List.foldl_nil]
  have a1 := hstep S true 0 (by omega) hS rfl rfl rfl rfl
  obtain ⟨s1, s2, s2', s3⟩ := surf_step d S _ 0 (by omega) hS a1
  rw [heq S true 0 (by omega) hS rfl rfl rfl rfl]
  exact heq (step (S, true) 0).1 (step (S, true) 0).2 1 (by omega) s1.wf s2 s2' (s3 1 (by omega)).1 (s3 1 (by omega)).2

theorem dirFold_volume_congr (d : ℕ) (S : Shape K) (hS : VolWF d S)
    (step step' : Shape K × Bool → ℕ → Shape K × Bool)
    (hstep : ∀ (T : Shape K) (b : Bool) (dir : ℕ), dir < 3 → VolWF d T → T.degs = S.degs → T.rat = S.rat →
      T.kv dir = S.kv dir → T.size dir = S.size dir → DirStepOk d T (step (T, b) dir).1 dir)
    (heq : ∀ (T : Shape K) (b : Bool) (dir : ℕ), dir < 3 → VolWF d T → T.degs = S.degs → T.rat = S.rat →
      T.kv dir = S.kv dir → T.size dir = S.size dir → step' (T, b) dir = step (T, b) dir) :
    (List.range S.pdim).foldl step' (S, true) = (List.range S.pdim).foldl step (S, true) := by
  have hpd : S.pdim = 3 := hS.degs
  rw [hpd, show List.range 3 = [0, 1, 2] from rfl]
  simp only [List.foldl_cons, List.foldl_nil]
  have a1 := hstep S true 0 (by omega) hS rfl rfl rfl rfl
  obtain ⟨s1, s2, s2', s3⟩ := vol_step d S _ 0 (by omega) hS a1
  have b1 := hstep (step (S, true) 0).1 (step (S, true) 0).2 1 (by omega) s1.wf s2 s2'
    (s3 1 (by omega)).1 (s3 1 (by omega)).2
  obtain ⟨t1, t2, t2', t3⟩ := vol_step d _ _ 1 (by omega) s1.wf b1
  have hw := (s1.trans t1).wf
  rw [heq S true 0 (by omega) hS rfl rfl rfl rfl,
    heq (step (S, true) 0).1 (step (S, true) 0).2 1 (by omega) s1.wf s2 s2' (s3 1 (by omega)).1 (s3 1 (by omega)).2]
  exact heq (step (step (S, true) 0) 1).1 (step (step (S, true) 0) 1).2 2 (by omega) hw (t2.trans s2)
    (t2'.trans s2') ((t3 2 (by omega)).1.trans (s3 2 (by omega)).1) ((t3 2 (by omega)).2.trans (s3 2 (by omega)).2)

end Geomdl
