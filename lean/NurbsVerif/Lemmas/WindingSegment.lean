import NurbsVerif.Lemmas.PredicatesPlanar
import Mathlib.Tactic.FieldSimp

/-!
# The winding counter of `wn_poly` is constant along a segment that no polygon edge crosses

`Crosses a b p q` is the orientation test for "segment `a b` meets segment `p q`" (touching and collinear
configurations included).  If no edge of a CLOSED polyline crosses the segment `p q`, the winding counters of `p`
and of `q` are equal (`wnNum_eq_of_no_crossing`).  Per edge the difference of the two counters is the difference
of a vertex potential (is the vertex in the half strip swept by the rightward ray while its origin moves from `p`
to `q`), which telescopes along a closed polyline.
-/
set_option linter.unusedSectionVars false
namespace Geomdl
variable {K : Type} [Field K] [LinearOrder K] [IsStrictOrderedRing K]

/-- orientation test: the segments `a b` and `p q` meet (or are collinear) -/
def Crosses (a b p q : K × K) : Prop :=
  isLeft a b p * isLeft a b q ≤ 0 ∧ isLeft p q a * isLeft p q b ≤ 0

instance (a b p q : K × K) : Decidable (Crosses a b p q) := by unfold Crosses; infer_instance

theorem crosses_swap_edge (a b p q : K × K) : Crosses b a p q ↔ Crosses a b p q := by
  unfold Crosses
  rw [isLeft_swap a b p, isLeft_swap a b q, neg_mul_neg, mul_comm (isLeft p q b)]

theorem crosses_swap_seg (a b p q : K × K) : Crosses a b q p ↔ Crosses a b p q := by
  unfold Crosses
  rw [isLeft_swap p q a, isLeft_swap p q b, neg_mul_neg, mul_comm (isLeft a b q)]

/-- vertex potential: `v` lies in the half strip `p.y < y ≤ q.y`, strictly right of the line `p q` -/
def stripPot (p q v : K × K) : Int := if p.2 < v.2 ∧ v.2 ≤ q.2 ∧ isLeft p q v < 0 then 1 else 0

private theorem neg_of_mul_neg' {x y : K} (h : x * y < 0) (hy : 0 < y) : x < 0 := by
  by_contra hx
  have := mul_nonneg (not_lt.mp hx) hy.le
  linarith

private theorem nonpos_of_mul_nonpos' {x y : K} (h : x * y ≤ 0) (hy : 0 < y) : x ≤ 0 := by
  by_contra hx
  have := mul_pos (not_le.mp hx) hy
  linarith

private theorem pos_of_mul_pos' {x y : K} (h : 0 < x * y) (hy : 0 < y) : 0 < x := by
  by_contra hx
  have := mul_nonneg (neg_nonneg.mpr (not_lt.mp hx)) hy.le
  linarith

private theorem nonneg_of_mul_nonneg' {x y : K} (h : 0 ≤ x * y) (hy : 0 < y) : 0 ≤ x := by
  by_contra hx
  have := mul_pos (neg_pos.mpr (not_le.mp hx)) hy
  linarith

private theorem mul_nonpos_of {x y : K} (h : (x ≤ 0 ∧ 0 ≤ y) ∨ (0 ≤ x ∧ y ≤ 0)) : x * y ≤ 0 := by
  rcases h with ⟨h1, h2⟩ | ⟨h1, h2⟩
  · exact mul_nonpos_of_nonpos_of_nonneg h1 h2
  · exact mul_nonpos_of_nonneg_of_nonpos h1 h2

section identities
variable (a b p q : K × K)

private theorem idE1 : -(isLeft p q a) * (b.2 - a.2) = isLeft a b p * (q.2 - a.2) - isLeft a b q * (p.2 - a.2) := by
  unfold isLeft; ring
private theorem idE2 : isLeft p q b * (b.2 - a.2) = isLeft a b p * (b.2 - q.2) - isLeft a b q * (b.2 - p.2) := by
  unfold isLeft; ring
private theorem idE3 : -(isLeft a b p) * (q.2 - p.2) = isLeft p q a * (b.2 - p.2) - isLeft p q b * (a.2 - p.2) := by
  unfold isLeft; ring
private theorem idE4 : isLeft a b q * (q.2 - p.2) = isLeft p q a * (q.2 - b.2) - isLeft p q b * (q.2 - a.2) := by
  unfold isLeft; ring
end identities

/-- edge from the low zone to the middle zone -/
private theorem case_LM (a b p q : K × K) (ha : a.2 ≤ p.2) (hb1 : p.2 < b.2) (hb2 : b.2 ≤ q.2)
    (hm : ¬ Crosses a b p q) : (0 < isLeft a b p ↔ isLeft p q b < 0) := by
  have e3 := idE3 a b p q
  have e4 := idE4 a b p q
  have hpq : 0 < q.2 - p.2 := by linarith
  constructor
  · intro hA
    by_contra hD
    have hD : 0 ≤ isLeft p q b := not_lt.mp hD
    apply hm
    have t1 : 0 < isLeft a b p * (q.2 - p.2) := mul_pos hA hpq
    have t2 : isLeft p q b * (a.2 - p.2) ≤ 0 := mul_nonpos_of_nonneg_of_nonpos hD (by linarith)
    have hC : isLeft p q a < 0 := neg_of_mul_neg' (y := b.2 - p.2) (by linarith) (by linarith)
    have t3 : isLeft p q a * (q.2 - b.2) ≤ 0 := mul_nonpos_of_nonpos_of_nonneg hC.le (by linarith)
    have t4 : 0 ≤ isLeft p q b * (q.2 - a.2) := mul_nonneg hD (by linarith)
    have hB : isLeft a b q ≤ 0 := nonpos_of_mul_nonpos' (y := q.2 - p.2) (by linarith) hpq
    exact ⟨mul_nonpos_of (Or.inr ⟨hA.le, hB⟩), mul_nonpos_of (Or.inl ⟨hC.le, hD⟩)⟩
  · intro hD
    by_contra hA
    have hA : isLeft a b p ≤ 0 := not_lt.mp hA
    apply hm
    have t1 : isLeft a b p * (q.2 - p.2) ≤ 0 := mul_nonpos_of_nonpos_of_nonneg hA hpq.le
    have t2 : 0 ≤ isLeft p q b * (a.2 - p.2) := mul_nonneg_of_nonpos_of_nonpos hD.le (by linarith)
    have hC : 0 ≤ isLeft p q a := nonneg_of_mul_nonneg' (y := b.2 - p.2) (by linarith) (by linarith)
    have t3 : 0 ≤ isLeft p q a * (q.2 - b.2) := mul_nonneg hC (by linarith)
    have t4 : isLeft p q b * (q.2 - a.2) < 0 := mul_neg_of_neg_of_pos hD (by linarith)
    have hB : 0 < isLeft a b q := pos_of_mul_pos' (y := q.2 - p.2) (by linarith) hpq
    exact ⟨mul_nonpos_of (Or.inl ⟨hA, hB.le⟩), mul_nonpos_of (Or.inr ⟨hC, hD.le⟩)⟩

/-- edge from the low zone to the high zone -/
private theorem case_LH (a b p q : K × K) (ha : a.2 ≤ p.2) (hpq : p.2 ≤ q.2) (hb : q.2 < b.2)
    (hm : ¬ Crosses a b p q) : (0 < isLeft a b p ↔ 0 < isLeft a b q) := by
  have e1 := idE1 a b p q
  have e2 := idE2 a b p q
  have hab : 0 < b.2 - a.2 := by linarith
  constructor
  · intro hA
    by_contra hB
    have hB : isLeft a b q ≤ 0 := not_lt.mp hB
    apply hm
    have t1 : 0 ≤ isLeft a b p * (q.2 - a.2) := mul_nonneg hA.le (by linarith)
    have t2 : isLeft a b q * (p.2 - a.2) ≤ 0 := mul_nonpos_of_nonpos_of_nonneg hB (by linarith)
    have hC' : isLeft p q a ≤ 0 := nonpos_of_mul_nonpos' (y := b.2 - a.2) (by linarith) hab
    have t3 : 0 < isLeft a b p * (b.2 - q.2) := mul_pos hA (by linarith)
    have t4 : isLeft a b q * (b.2 - p.2) ≤ 0 := mul_nonpos_of_nonpos_of_nonneg hB (by linarith)
    have hD : 0 < isLeft p q b := pos_of_mul_pos' (y := b.2 - a.2) (by linarith) hab
    exact ⟨mul_nonpos_of (Or.inr ⟨hA.le, hB⟩), mul_nonpos_of (Or.inl ⟨hC', hD.le⟩)⟩
  · intro hB
    by_contra hA
    have hA : isLeft a b p ≤ 0 := not_lt.mp hA
    apply hm
    have t1 : isLeft a b p * (q.2 - a.2) ≤ 0 := mul_nonpos_of_nonpos_of_nonneg hA (by linarith)
    have t2 : 0 ≤ isLeft a b q * (p.2 - a.2) := mul_nonneg hB.le (by linarith)
    have hC : 0 ≤ isLeft p q a := nonneg_of_mul_nonneg' (y := b.2 - a.2) (by linarith) hab
    have t3 : isLeft a b p * (b.2 - q.2) ≤ 0 := mul_nonpos_of_nonpos_of_nonneg hA (by linarith)
    have t4 : 0 < isLeft a b q * (b.2 - p.2) := mul_pos hB (by linarith)
    have hD : isLeft p q b < 0 := neg_of_mul_neg' (y := b.2 - a.2) (by linarith) hab
    exact ⟨mul_nonpos_of (Or.inl ⟨hA, hB.le⟩), mul_nonpos_of (Or.inr ⟨hC, hD.le⟩)⟩

/-- both ends in the middle zone -/
private theorem case_MM (a b p q : K × K) (ha1 : p.2 < a.2) (ha2 : a.2 ≤ q.2) (hb1 : p.2 < b.2) (hb2 : b.2 ≤ q.2)
    (hm : ¬ Crosses a b p q) : (isLeft p q a < 0 ↔ isLeft p q b < 0) := by
  have e3 := idE3 a b p q
  have e4 := idE4 a b p q
  have hpq : 0 < q.2 - p.2 := by linarith
  constructor
  · intro hC
    by_contra hD
    have hD : 0 ≤ isLeft p q b := not_lt.mp hD
    apply hm
    have t1 : isLeft p q a * (b.2 - p.2) < 0 := mul_neg_of_neg_of_pos hC (by linarith)
    have t2 : 0 ≤ isLeft p q b * (a.2 - p.2) := mul_nonneg hD (by linarith)
    have hA : 0 < isLeft a b p := pos_of_mul_pos' (y := q.2 - p.2) (by linarith) hpq
    have t3 : isLeft p q a * (q.2 - b.2) ≤ 0 := mul_nonpos_of_nonpos_of_nonneg hC.le (by linarith)
    have t4 : 0 ≤ isLeft p q b * (q.2 - a.2) := mul_nonneg hD (by linarith)
    have hB : isLeft a b q ≤ 0 := nonpos_of_mul_nonpos' (y := q.2 - p.2) (by linarith) hpq
    exact ⟨mul_nonpos_of (Or.inr ⟨hA.le, hB⟩), mul_nonpos_of (Or.inl ⟨hC.le, hD⟩)⟩
  · intro hD
    by_contra hC
    have hC : 0 ≤ isLeft p q a := not_lt.mp hC
    apply hm
    have t1 : 0 ≤ isLeft p q a * (b.2 - p.2) := mul_nonneg hC (by linarith)
    have t2 : isLeft p q b * (a.2 - p.2) < 0 := mul_neg_of_neg_of_pos hD (by linarith)
    have hA : isLeft a b p < 0 := by
      have : 0 < -(isLeft a b p) * (q.2 - p.2) := by linarith
      have := pos_of_mul_pos' this hpq
      linarith
    have t3 : 0 ≤ isLeft p q a * (q.2 - b.2) := mul_nonneg hC (by linarith)
    have t4 : isLeft p q b * (q.2 - a.2) ≤ 0 := mul_nonpos_of_nonpos_of_nonneg hD.le (by linarith)
    have hB : 0 ≤ isLeft a b q := nonneg_of_mul_nonneg' (y := q.2 - p.2) (by linarith) hpq
    exact ⟨mul_nonpos_of (Or.inl ⟨hA.le, hB⟩), mul_nonpos_of (Or.inr ⟨hC, hD.le⟩)⟩

/-- edge from the middle zone to the high zone -/
private theorem case_MH (a b p q : K × K) (ha1 : p.2 < a.2) (ha2 : a.2 ≤ q.2) (hb : q.2 < b.2)
    (hm : ¬ Crosses a b p q) : (0 < isLeft a b q ↔ isLeft p q a < 0) := by
  have e3 := idE3 a b p q
  have e4 := idE4 a b p q
  have hpq : 0 < q.2 - p.2 := by linarith
  constructor
  · intro hB
    by_contra hC
    have hC : 0 ≤ isLeft p q a := not_lt.mp hC
    apply hm
    have t1 : 0 < isLeft a b q * (q.2 - p.2) := mul_pos hB hpq
    have t2 : isLeft p q a * (q.2 - b.2) ≤ 0 := mul_nonpos_of_nonneg_of_nonpos hC (by linarith)
    have hD : isLeft p q b < 0 := by
      have h5 : isLeft p q b * (q.2 - a.2) < 0 := by linarith
      rcases lt_or_eq_of_le ha2 with h6 | h6
      · exact neg_of_mul_neg' h5 (by linarith)
      · rw [h6, sub_self, mul_zero] at h5; exact absurd h5 (lt_irrefl _)
    have t3 : 0 ≤ isLeft p q a * (b.2 - p.2) := mul_nonneg hC (by linarith)
    have t4 : isLeft p q b * (a.2 - p.2) < 0 := mul_neg_of_neg_of_pos hD (by linarith)
    have hA : isLeft a b p < 0 := by
      have : 0 < -(isLeft a b p) * (q.2 - p.2) := by linarith
      have := pos_of_mul_pos' this hpq
      linarith
    exact ⟨mul_nonpos_of (Or.inl ⟨hA.le, hB.le⟩), mul_nonpos_of (Or.inr ⟨hC, hD.le⟩)⟩
  · intro hC
    by_contra hB
    have hB : isLeft a b q ≤ 0 := not_lt.mp hB
    apply hm
    have t1 : isLeft a b q * (q.2 - p.2) ≤ 0 := mul_nonpos_of_nonpos_of_nonneg hB hpq.le
    have t2 : 0 < isLeft p q a * (q.2 - b.2) := mul_pos_of_neg_of_neg hC (by linarith)
    have hD : 0 < isLeft p q b := by
      have h5 : 0 < isLeft p q b * (q.2 - a.2) := by linarith
      rcases lt_or_eq_of_le ha2 with h6 | h6
      · exact pos_of_mul_pos' h5 (by linarith)
      · rw [h6, sub_self, mul_zero] at h5; exact absurd h5 (lt_irrefl _)
    have t3 : isLeft p q a * (b.2 - p.2) < 0 := mul_neg_of_neg_of_pos hC (by linarith)
    have t4 : 0 < isLeft p q b * (a.2 - p.2) := mul_pos hD (by linarith)
    have hA : 0 < isLeft a b p := pos_of_mul_pos' (y := q.2 - p.2) (by linarith) hpq
    exact ⟨mul_nonpos_of (Or.inr ⟨hA.le, hB⟩), mul_nonpos_of (Or.inl ⟨hC.le, hD.le⟩)⟩

/-- per edge, `p` not above `q`, edge not descending: the difference of the two crossing counts is the difference
    of the potential -/
private theorem wnEdge_diff_up (a b p q : K × K) (hpq : p.2 ≤ q.2) (hab : a.2 ≤ b.2) (hm : ¬ Crosses a b p q) :
    wnEdge p a b - wnEdge q a b = stripPot p q b - stripPot p q a := by
  unfold wnEdge stripPot
  by_cases ha1 : a.2 ≤ p.2
  · -- a low
    have ha2 : a.2 ≤ q.2 := le_trans ha1 hpq
    have na : ¬ (p.2 < a.2) := not_lt.mpr ha1
    by_cases hb1 : p.2 < b.2
    · by_cases hb2 : b.2 ≤ q.2
      · -- (L, M)
        have nb : ¬ (q.2 < b.2) := not_lt.mpr hb2
        have h := case_LM a b p q ha1 hb1 hb2 hm
        by_cases hA : 0 < isLeft a b p
        · have hD := h.mp hA
          simp [ha1, ha2, hb1, hb2, nb, na, hA, hD]
        · have hD : ¬ isLeft p q b < 0 := fun hD => hA (h.mpr hD)
          simp [ha1, ha2, hb1, hb2, nb, na, hA, hD]
      · -- (L, H)
        have hb2' : q.2 < b.2 := not_le.mp hb2
        have h := case_LH a b p q ha1 hpq hb2' hm
        by_cases hA : 0 < isLeft a b p
        · have hB := h.mp hA
          simp [ha1, ha2, hb1, hb2, hb2', na, hA, hB]
        · have hB : ¬ 0 < isLeft a b q := fun hB => hA (h.mpr hB)
          simp [ha1, ha2, hb1, hb2, hb2', na, hA, hB]
    · -- (L, L)
      have hb1' : b.2 ≤ p.2 := not_lt.mp hb1
      have nb : ¬ (q.2 < b.2) := not_lt.mpr (le_trans hb1' hpq)
      simp [ha1, ha2, hb1, nb, na]
  · have ha1' : p.2 < a.2 := not_le.mp ha1
    have hb1 : p.2 < b.2 := lt_of_lt_of_le ha1' hab
    have nb1 : ¬ (b.2 ≤ p.2) := not_le.mpr hb1
    by_cases ha2 : a.2 ≤ q.2
    · by_cases hb2 : b.2 ≤ q.2
      · -- (M, M)
        have nb : ¬ (q.2 < b.2) := not_lt.mpr hb2
        have h := case_MM a b p q ha1' ha2 hb1 hb2 hm
        by_cases hC : isLeft p q a < 0
        · have hD := h.mp hC
          simp [ha1, ha1', ha2, hb1, hb2, nb, nb1, hC, hD]
        · have hD : ¬ isLeft p q b < 0 := fun hD => hC (h.mpr hD)
          simp [ha1, ha1', ha2, hb1, hb2, nb, nb1, hC, hD]
      · -- (M, H)
        have hb2' : q.2 < b.2 := not_le.mp hb2
        have h := case_MH a b p q ha1' ha2 hb2' hm
        by_cases hB : 0 < isLeft a b q
        · have hC := h.mp hB
          simp [ha1, ha1', ha2, hb1, hb2, hb2', nb1, hB, hC]
        · have hC : ¬ isLeft p q a < 0 := fun hC => hB (h.mpr hC)
          simp [ha1, ha1', ha2, hb1, hb2, hb2', nb1, hB, hC]
    · -- (H, H)
      have ha2' : q.2 < a.2 := not_le.mp ha2
      have hb2 : ¬ (b.2 ≤ q.2) := not_le.mpr (lt_of_lt_of_le ha2' hab)
      simp [ha1, ha2, nb1, hb2]

/-- per edge, `p` not above `q` -/
theorem wnEdge_diff (a b p q : K × K) (hpq : p.2 ≤ q.2) (hm : ¬ Crosses a b p q) :
    wnEdge p a b - wnEdge q a b = stripPot p q b - stripPot p q a := by
  rcases le_total a.2 b.2 with hab | hab
  · exact wnEdge_diff_up a b p q hpq hab hm
  · have h := wnEdge_diff_up b a p q hpq hab (fun hc => hm ((crosses_swap_edge a b p q).mp hc))
    rw [wnEdge_swap p a b, wnEdge_swap q a b] at h
    omega

/-- along a chain none of whose edges crosses the segment `p q` (`p` not above `q`) the difference of the two
    winding counters telescopes -/
theorem wnNum_diff_chain (p q : K × K) (hpq : p.2 ≤ q.2) : ∀ (a : K × K) (l : List (K × K)),
    (∀ e ∈ (a :: l).zip l, ¬ Crosses e.1 e.2 p q) →
    ∀ z, (a :: l).getLast? = some z → wnNum p (a :: l) - wnNum q (a :: l) = stripPot p q z - stripPot p q a
  | a, [], _, z, hz => by
    simp only [List.getLast?_singleton, Option.some.injEq] at hz
    subst hz; simp
  | a, b :: l, h, z, hz => by
    rw [List.getLast?_cons_cons] at hz
    have ih := wnNum_diff_chain p q hpq b l (fun e he => h e (by
      rw [List.zip_cons_cons]; exact List.mem_cons_of_mem _ he)) z hz
    have h1 := wnEdge_diff a b p q hpq (h (a, b) (by rw [List.zip_cons_cons]; simp))
    rw [wnNum_cons_cons, wnNum_cons_cons]
    omega

/-- **No crossing, same winding counter.**  `poly` a closed polyline (`V₀ … Vₙ = V₀`); if none of its edges crosses
    (orientation test `Crosses`) the segment from `p` to `q`, then `wn_poly` counts the same for `p` and for `q`. -/
theorem wnNum_eq_of_no_crossing (p q : K × K) (poly : List (K × K)) (hclosed : poly.head? = poly.getLast?)
    (h : ∀ e ∈ poly.zip poly.tail, ¬ Crosses e.1 e.2 p q) : wnNum p poly = wnNum q poly := by
  cases poly with
  | nil => rfl
  | cons v0 l =>
    have hz : (v0 :: l).getLast? = some v0 := by rw [← hclosed]; rfl
    rcases le_total p.2 q.2 with hpq | hpq
    · have := wnNum_diff_chain p q hpq v0 l h v0 hz
      omega
    · have := wnNum_diff_chain q p hpq v0 l (fun e he hc => h e he ((crosses_swap_seg e.1 e.2 p q).mp hc)) v0 hz
      omega

theorem wnPoly_eq_of_no_crossing (p q : K × K) (poly : List (K × K)) (hclosed : poly.head? = poly.getLast?)
    (h : ∀ e ∈ poly.zip poly.tail, ¬ Crosses e.1 e.2 p q) : wnPoly p poly = wnPoly q poly := by
  unfold wnPoly; rw [wnNum_eq_of_no_crossing p q poly hclosed h]

/-! ### crossing means a common point; polygons that stay out of a box -/

/-- the four orientation values all vanish: the two segments are collinear (or degenerate) -/
def AllCollinear (a b p q : K × K) : Prop :=
  isLeft a b p = 0 ∧ isLeft a b q = 0 ∧ isLeft p q a = 0 ∧ isLeft p q b = 0

/-- per edge, collinear configuration: both crossing counts and both potentials vanish -/
theorem wnEdge_diff_collinear (a b p q : K × K) (h : AllCollinear a b p q) :
    wnEdge p a b - wnEdge q a b = stripPot p q b - stripPot p q a := by
  obtain ⟨h1, h2, h3, h4⟩ := h
  unfold wnEdge stripPot
  simp [h1, h2, h3, h4]

/-- per edge: the identity holds unless the edge properly meets the segment -/
theorem wnEdge_diff' (a b p q : K × K) (hpq : p.2 ≤ q.2) (hm : ¬ Crosses a b p q ∨ AllCollinear a b p q) :
    wnEdge p a b - wnEdge q a b = stripPot p q b - stripPot p q a := by
  rcases hm with hm | hm
  · exact wnEdge_diff a b p q hpq hm
  · exact wnEdge_diff_collinear a b p q hm

theorem allCollinear_swap_seg (a b p q : K × K) : AllCollinear a b q p ↔ AllCollinear a b p q := by
  unfold AllCollinear
  rw [isLeft_swap p q a, isLeft_swap p q b]
  constructor
  · rintro ⟨h1, h2, h3, h4⟩; exact ⟨h2, h1, by linarith, by linarith⟩
  · rintro ⟨h1, h2, h3, h4⟩; exact ⟨h2, h1, by linarith, by linarith⟩

theorem wnNum_diff_chain' (p q : K × K) (hpq : p.2 ≤ q.2) : ∀ (a : K × K) (l : List (K × K)),
    (∀ e ∈ (a :: l).zip l, ¬ Crosses e.1 e.2 p q ∨ AllCollinear e.1 e.2 p q) →
    ∀ z, (a :: l).getLast? = some z → wnNum p (a :: l) - wnNum q (a :: l) = stripPot p q z - stripPot p q a
  | a, [], _, z, hz => by
    simp only [List.getLast?_singleton, Option.some.injEq] at hz
    subst hz; simp
  | a, b :: l, h, z, hz => by
    rw [List.getLast?_cons_cons] at hz
    have ih := wnNum_diff_chain' p q hpq b l (fun e he => h e (by
      rw [List.zip_cons_cons]; exact List.mem_cons_of_mem _ he)) z hz
    have h1 := wnEdge_diff' a b p q hpq (h (a, b) (by rw [List.zip_cons_cons]; simp))
    rw [wnNum_cons_cons, wnNum_cons_cons]
    omega

/-- `wnNum_eq_of_no_crossing` with collinear edges allowed -/
theorem wnNum_eq_of_no_proper_crossing (p q : K × K) (poly : List (K × K)) (hclosed : poly.head? = poly.getLast?)
    (h : ∀ e ∈ poly.zip poly.tail, ¬ Crosses e.1 e.2 p q ∨ AllCollinear e.1 e.2 p q) : wnNum p poly = wnNum q poly := by
  cases poly with
  | nil => rfl
  | cons v0 l =>
    have hz : (v0 :: l).getLast? = some v0 := by rw [← hclosed]; rfl
    rcases le_total p.2 q.2 with hpq | hpq
    · have := wnNum_diff_chain' p q hpq v0 l h v0 hz
      omega
    · have := wnNum_diff_chain' q p hpq v0 l (fun e he => by
        rcases h e he with h1 | h1
        · exact Or.inl fun hc => h1 ((crosses_swap_seg e.1 e.2 p q).mp hc)
        · exact Or.inr ((allCollinear_swap_seg e.1 e.2 p q).mpr h1)) v0 hz
      omega

/-- **A crossing that is not a collinear configuration is a common point**: `p + t (q - p) = a + s (b - a)` with
    `s, t ∈ [0, 1]` -/
theorem crosses_common_point (a b p q : K × K) (hc : Crosses a b p q) (hn : ¬ AllCollinear a b p q) :
    ∃ t, 0 ≤ t ∧ t ≤ 1 ∧ ∃ s, 0 ≤ s ∧ s ≤ 1 ∧
      p.1 + t * (q.1 - p.1) = a.1 + s * (b.1 - a.1) ∧ p.2 + t * (q.2 - p.2) = a.2 + s * (b.2 - a.2) := by
  obtain ⟨h1, h2⟩ := hc
  have e0 : isLeft p q a - isLeft p q b = isLeft a b q - isLeft a b p := by unfold isLeft; ring
  have hne : isLeft a b p - isLeft a b q ≠ 0 := by
    intro h0
    have hAB : isLeft a b p = isLeft a b q := by linarith
    rw [hAB] at h1
    have hB : isLeft a b q = 0 := by
      have := mul_self_nonneg (isLeft a b q)
      exact mul_self_eq_zero.mp (le_antisymm h1 this)
    have hCD : isLeft p q a = isLeft p q b := by linarith
    rw [hCD] at h2
    have hD : isLeft p q b = 0 := by
      have := mul_self_nonneg (isLeft p q b)
      exact mul_self_eq_zero.mp (le_antisymm h2 this)
    exact hn ⟨by rw [hAB, hB], hB, by rw [hCD, hD], hD⟩
  have hne2 : isLeft p q a - isLeft p q b ≠ 0 := by rw [e0]; intro h0; apply hne; linarith
  -- parameters
  have tbound : ∀ (x y : K), x * y ≤ 0 → x - y ≠ 0 → 0 ≤ x / (x - y) ∧ x / (x - y) ≤ 1 := by
    intro x y hxy hd
    rcases lt_or_gt_of_ne hd with hlt | hgt
    · -- x - y < 0
      have hx : x ≤ 0 := by
        by_contra hx
        have hx : 0 < x := not_le.mp hx
        have hy : 0 < y := by linarith
        have := mul_pos hx hy
        linarith
      have hy : 0 ≤ y := by
        by_contra hy
        have hy : y < 0 := not_le.mp hy
        rcases lt_or_eq_of_le hx with hx' | hx'
        · have := mul_pos_of_neg_of_neg hx' hy; linarith
        · rw [hx'] at hlt; linarith
      constructor
      · exact div_nonneg_of_nonpos hx hlt.le
      · rw [div_le_one_of_neg hlt]; linarith
    · have hx : 0 ≤ x := by
        by_contra hx
        have hx : x < 0 := not_le.mp hx
        have hy : y < 0 := by linarith
        have := mul_pos_of_neg_of_neg hx hy
        linarith
      have hy : y ≤ 0 := by
        by_contra hy
        have hy : 0 < y := not_le.mp hy
        rcases lt_or_eq_of_le hx with hx' | hx'
        · have := mul_pos hx' hy; linarith
        · rw [← hx'] at hgt; linarith
      constructor
      · exact div_nonneg hx hgt.le
      · rw [div_le_one hgt]; linarith
  obtain ⟨t0, t1⟩ := tbound _ _ h1 hne
  obtain ⟨s0, s1⟩ := tbound _ _ h2 hne2
  have hd : isLeft p q a - isLeft p q b = -(isLeft a b p - isLeft a b q) := by rw [e0]; ring
  have k1 : (p.1 - a.1) * (isLeft a b p - isLeft a b q) + isLeft a b p * (q.1 - p.1) + isLeft p q a * (b.1 - a.1) = 0 := by
    unfold isLeft; ring
  have k2 : (p.2 - a.2) * (isLeft a b p - isLeft a b q) + isLeft a b p * (q.2 - p.2) + isLeft p q a * (b.2 - a.2) = 0 := by
    unfold isLeft; ring
  refine ⟨_, t0, t1, _, s0, s1, ?_, ?_⟩
  · rw [hd, div_neg, neg_mul, ← sub_eq_zero]
    have : p.1 + isLeft a b p / (isLeft a b p - isLeft a b q) * (q.1 - p.1)
        - (a.1 + -(isLeft p q a / (isLeft a b p - isLeft a b q) * (b.1 - a.1)))
        = ((p.1 - a.1) * (isLeft a b p - isLeft a b q) + isLeft a b p * (q.1 - p.1) + isLeft p q a * (b.1 - a.1))
            / (isLeft a b p - isLeft a b q) := by
      field_simp
      ring
    rw [this, k1, zero_div]
  · rw [hd, div_neg, neg_mul, ← sub_eq_zero]
    have : p.2 + isLeft a b p / (isLeft a b p - isLeft a b q) * (q.2 - p.2)
        - (a.2 + -(isLeft p q a / (isLeft a b p - isLeft a b q) * (b.2 - a.2)))
        = ((p.2 - a.2) * (isLeft a b p - isLeft a b q) + isLeft a b p * (q.2 - p.2) + isLeft p q a * (b.2 - a.2))
            / (isLeft a b p - isLeft a b q) := by
      field_simp
      ring
    rw [this, k2, zero_div]

/-- the closed axis-parallel box `[lo.1, hi.1] × [lo.2, hi.2]` -/
def InBox (lo hi x : K × K) : Prop := lo.1 ≤ x.1 ∧ x.1 ≤ hi.1 ∧ lo.2 ≤ x.2 ∧ x.2 ≤ hi.2

/-- no point of the closed segment `a b` lies in the box -/
def SegmentAvoidsBox (lo hi a b : K × K) : Prop :=
  ∀ s, 0 ≤ s → s ≤ 1 → ¬ InBox lo hi (a.1 + s * (b.1 - a.1), a.2 + s * (b.2 - a.2))

theorem inBox_convex (lo hi p q : K × K) (hp : InBox lo hi p) (hq : InBox lo hi q) (t : K) (h0 : 0 ≤ t) (h1 : t ≤ 1) :
    InBox lo hi (p.1 + t * (q.1 - p.1), p.2 + t * (q.2 - p.2)) := by
  obtain ⟨p1, p2, p3, p4⟩ := hp
  obtain ⟨q1, q2, q3, q4⟩ := hq
  have h1' : 0 ≤ 1 - t := by linarith
  refine ⟨?_, ?_, ?_, ?_⟩
  · have : lo.1 = (1 - t) * lo.1 + t * lo.1 := by ring
    have a1 := mul_le_mul_of_nonneg_left p1 h1'
    have a2 := mul_le_mul_of_nonneg_left q1 h0
    show lo.1 ≤ p.1 + t * (q.1 - p.1)
    nlinarith
  · have a1 := mul_le_mul_of_nonneg_left p2 h1'
    have a2 := mul_le_mul_of_nonneg_left q2 h0
    show p.1 + t * (q.1 - p.1) ≤ hi.1
    nlinarith
  · have a1 := mul_le_mul_of_nonneg_left p3 h1'
    have a2 := mul_le_mul_of_nonneg_left q3 h0
    show lo.2 ≤ p.2 + t * (q.2 - p.2)
    nlinarith
  · have a1 := mul_le_mul_of_nonneg_left p4 h1'
    have a2 := mul_le_mul_of_nonneg_left q4 h0
    show p.2 + t * (q.2 - p.2) ≤ hi.2
    nlinarith

/-- **`wn_poly` is constant on a box that the polygon stays out of**: `p`, `q` in the box, no point of any edge of the
    closed polyline in the box ⇒ the winding counters of `p` and `q` agree. -/
theorem wnNum_eq_of_avoids_box (lo hi p q : K × K) (hp : InBox lo hi p) (hq : InBox lo hi q) (poly : List (K × K))
    (hclosed : poly.head? = poly.getLast?) (h : ∀ e ∈ poly.zip poly.tail, SegmentAvoidsBox lo hi e.1 e.2) :
    wnNum p poly = wnNum q poly := by
  apply wnNum_eq_of_no_proper_crossing p q poly hclosed
  intro e he
  by_cases hc : Crosses e.1 e.2 p q
  · right
    by_contra hn
    obtain ⟨t, t0, t1, s, s0, s1, e1, e2⟩ := crosses_common_point e.1 e.2 p q hc hn
    apply h e he s s0 s1
    rw [← e1, ← e2]
    exact inBox_convex lo hi p q hp hq t t0 t1
  · exact Or.inl hc

theorem wnPoly_eq_of_avoids_box (lo hi p q : K × K) (hp : InBox lo hi p) (hq : InBox lo hi q) (poly : List (K × K))
    (hclosed : poly.head? = poly.getLast?) (h : ∀ e ∈ poly.zip poly.tail, SegmentAvoidsBox lo hi e.1 e.2) :
    wnPoly p poly = wnPoly q poly := by
  unfold wnPoly; rw [wnNum_eq_of_avoids_box lo hi p q hp hq poly hclosed h]

end Geomdl
