import NurbsVerif.Lemmas.LinalgPivot
import Mathlib.LinearAlgebra.Matrix.Determinant.Basic
import Mathlib.LinearAlgebra.Matrix.Block
import Mathlib.LinearAlgebra.Matrix.NonsingularInverse

/-! Bridge from the list model to Mathlib's `Matrix`: products, the inverse on both sides, the
    permutation matrix of `matrix_pivot`, and `matrix_determinant = Matrix.det`. -/
namespace Lin
open Finset

section
variable {K : Type} [Field K]

/-- the `r × c` matrix of a list of rows (entries outside the lists are `0`) -/
def toMat (r c : ℕ) (A : List (List K)) : Matrix (Fin r) (Fin c) K := fun i j => ent A i j

theorem toMat_mul_of_sums (A X B : List (List K)) (n d : ℕ)
    (h : ∀ i, i < n → ∀ c, c < d → ∑ j ∈ range n, ent A i j * ent X j c = ent B i c) :
    toMat n n A * toMat n d X = toMat n d B := by
  ext i c
  simp only [Matrix.mul_apply, toMat]
  rw [← h i i.2 c c.2, Finset.sum_range]

theorem foldl_mul_eq_prod (f : ℕ → K) (n : ℕ) (a : K) :
    (List.range n).foldl (fun d i => d * f i) a = a * ∏ i ∈ range n, f i := by
  induction n with
  | zero => simp
  | succ n ih => rw [List.range_succ, List.foldl_append, ih, prod_range_succ]; simp [mul_assoc]

theorem getElem?_swapAt {α : Type} (l : List α) (a b k : ℕ) (ha : a < l.length) (hb : b < l.length) :
    (swapAt l a b)[k]? = l[if k = a then b else if k = b then a else k]? := by
  unfold swapAt
  rw [List.getElem?_eq_getElem ha, List.getElem?_eq_getElem hb]
  simp only [List.getElem?_set]
  by_cases hkb : k = b
  · subst hkb
    by_cases hka : k = a
    · subst hka; simp [ha]
    · simp [hka, hb, ha]
  · by_cases hka : k = a
    · subst hka
      have : b ≠ k := fun h => hkb h.symm
      simp [this, ha, hb, hkb]
    · have h1 : b ≠ k := fun h => hkb h.symm
      have h2 : a ≠ k := fun h => hka h.symm
      simp [h1, h2, hka, hkb]

theorem toMat_swapAt (l : List (List K)) (n c a b : ℕ) (hl : l.length = n) (ha : a < n) (hb : b < n) :
    toMat n c (swapAt l a b) = (toMat n c l).submatrix (Equiv.swap (⟨a, ha⟩ : Fin n) ⟨b, hb⟩) id := by
  ext i j
  simp only [toMat, Matrix.submatrix_apply, id, ent, List.getD_eq_getElem?_getD]
  rw [getElem?_swapAt l a b i (by omega) (by omega)]
  congr 3
  rw [Equiv.swap_apply_def]
  by_cases h1 : i = ⟨a, ha⟩
  · simp [h1]
  · by_cases h2 : i = ⟨b, hb⟩
    · have e1 : (i : ℕ) ≠ a := fun h => h1 (Fin.ext h)
      have e2 : (i : ℕ) = b := by rw [h2]
      rw [if_neg h1, if_pos h2, if_neg e1, if_pos e2]
    · have e1 : (i : ℕ) ≠ a := fun h => h1 (Fin.ext h)
      have e2 : (i : ℕ) ≠ b := fun h => h2 (Fin.ext h)
      rw [if_neg h1, if_neg h2, if_neg e1, if_neg e2]

theorem neg_one_pow_eq_ite (k : ℕ) : (-1 : K) ^ k = if k % 2 = 0 then 1 else -1 := by
  split_ifs with h
  · exact Even.neg_one_pow (Nat.even_iff.mpr h)
  · exact Odd.neg_one_pow (Nat.odd_iff.mpr (by omega))
end

variable {K : Type} [Field K] [LinearOrder K]

theorem argMaxAbs_lt (mp : List (List K)) (j n : ℕ) (hj : j < n) : argMaxAbs mp j n < n := by
  unfold argMaxAbs
  have key : ∀ (l : List ℕ) (acc : K × ℕ), (∀ t ∈ l, j + t < n) → acc.2 < n →
      (l.foldl (fun (acc : K × ℕ) t =>
        let a := Geomdl.absK (ent mp (j + t) j)
        if acc.1 < a then (a, j + t) else acc) acc).2 < n := by
    intro l
    induction l with
    | nil => intro acc _ h; exact h
    | cons t l ih =>
      intro acc hl h
      simp only [List.foldl_cons]
      apply ih
      · intro t' ht'; exact hl t' (by simp [ht'])
      · split_ifs
        · exact hl t (by simp)
        · exact h
  apply key
  · intro t ht; have := List.mem_range.mp ht; omega
  · exact hj

/-- determinant invariant of the pivoting loop: each row exchange flips the sign once -/
structure PivDet (m : List (List K)) (st : PivotState K) : Prop where
  len : st.mp.length = m.length
  det : (toMat m.length m.length st.mp).det = (-1) ^ st.swaps * (toMat m.length m.length m).det

theorem pivotStep_det (m : List (List K)) (st : PivotState K) (j : ℕ) (hj : j < m.length)
    (h : PivDet m st) : PivDet m (pivotStep st j) := by
  unfold pivotStep
  by_cases hr : j = argMaxAbs st.mp j st.mp.length
  · simpa [← hr] using h
  · simp only [hr, if_false]
    have hrow : argMaxAbs st.mp j st.mp.length < m.length := by
      rw [h.len]; exact argMaxAbs_lt _ _ _ hj
    constructor
    · have := (swapAt_perm st.mp j (argMaxAbs st.mp j st.mp.length)).length_eq
      rw [this, h.len]
    · simp only
      rw [toMat_swapAt st.mp m.length m.length j _ h.len hj hrow, Matrix.det_permute,
        Equiv.Perm.sign_swap (by intro e; exact hr (by simpa using congrArg Fin.val e)), h.det, pow_succ]
      simp

theorem pivotFold_det (m : List (List K)) : ∀ (js : List ℕ) (st : PivotState K),
    (∀ j ∈ js, j < m.length) → PivDet m st → PivDet m (js.foldl pivotStep st)
  | [], _, _, h => h
  | j :: js, st, hj, h =>
    pivotFold_det m js _ (fun j' hj' => hj j' (by simp [hj'])) (pivotStep_det m st j (hj j (by simp)) h)

theorem matrixPivot_det (m : List (List K)) :
    (toMat m.length m.length (matrixPivot m).mp).det
      = (-1) ^ (matrixPivot m).swaps * (toMat m.length m.length m).det := by
  have h0 : PivDet m ⟨m, identity m.length, 0⟩ := ⟨rfl, by simp⟩
  exact (pivotFold_det m (List.range m.length) _ (fun j hj => List.mem_range.mp hj) h0).det

/-- the LU factors as matrices -/
theorem toMat_doolittle (A : List (List K)) (n : ℕ)
    (hpiv : ∀ j, j < n → (doolittle (ent A) n).U j j ≠ 0) :
    toMat n n A = (Matrix.of fun (i j : Fin n) => (doolittle (ent A) n).L i j)
      * (Matrix.of fun (i j : Fin n) => (doolittle (ent A) n).U i j) := by
  ext i k
  simp only [Matrix.mul_apply, toMat, Matrix.of_apply]
  rw [← doolittle_LU (ent A) n hpiv i k i.2 k.2, Finset.sum_range]

theorem det_eq_prod_pivots (A : List (List K)) (n : ℕ)
    (hpiv : ∀ j, j < n → (doolittle (ent A) n).U j j ≠ 0) :
    (toMat n n A).det = ∏ i ∈ range n, ((doolittle (ent A) n).L i i * (doolittle (ent A) n).U i i) := by
  rw [toMat_doolittle A n hpiv, Matrix.det_mul]
  rw [Matrix.det_of_isLowerTriangular, Matrix.det_of_isUpperTriangular]
  · simp only [Matrix.of_apply]
    rw [← Finset.prod_mul_distrib, Finset.prod_range (fun i => (doolittle (ent A) n).L i i * (doolittle (ent A) n).U i i)]
  · intro i j hij
    simp only [id] at hij
    exact doolittle_U_lower_zero _ _ _ _ i.2 j.2 hij
  · intro i j hij
    have : (i : ℕ) < j := by simpa using hij
    exact doolittle_L_upper_zero _ _ _ _ i.2 j.2 this

/-- **`matrix_determinant` is the determinant** whenever Doolittle on the row-permuted matrix
    meets no zero pivot (this is the hypothesis that fails at the F-16b witness). -/
theorem matrixDeterminant_eq_det (m : List (List K))
    (hpiv : ∀ j, j < m.length →
      (doolittle (ent (matrixPivot m).mp) m.length).U j j ≠ 0) :
    matrixDeterminant m = (toMat m.length m.length m).det := by
  unfold matrixDeterminant
  simp only
  rw [(matrixPivot_lengths m).1, foldl_mul_eq_prod, one_mul, ← det_eq_prod_pivots _ _ hpiv,
    matrixPivot_det, pivotSign, ← neg_one_pow_eq_ite]
  rw [mul_comm, ← mul_assoc, ← pow_add, ← two_mul, pow_mul]
  simp

theorem toMat_identity (n : ℕ) : toMat n n (identity n : List (List K)) = 1 := by
  ext i j
  simp only [toMat, ent_identity' n i j i.2 j.2, Matrix.one_apply, Fin.ext_iff]

/-- `matrix_inverse`, when it returns, returns a two-sided inverse (so the input is non-singular). -/
theorem matrixInverse_matrix (m X : List (List K)) (h : matrixInverse m = some X) :
    toMat m.length m.length m * toMat m.length m.length X = 1 ∧
    toMat m.length m.length X * toMat m.length m.length m = 1 := by
  have h1 : toMat m.length m.length m * toMat m.length m.length X = 1 := by
    rw [← toMat_identity]
    apply toMat_mul_of_sums
    intro i hi c hc
    rw [(matrixInverse_correct m X h).2 i hi c hc, ent_identity' _ _ _ hi hc]
  exact ⟨h1, mul_eq_one_comm.mp h1⟩

/-- `P·A` as a matrix product -/
theorem matrixPivot_toMat_mul (m : List (List K)) :
    toMat m.length m.length (matrixPivot m).mp
      = toMat m.length m.length (matrixPivot m).p * toMat m.length m.length m := by
  ext k j
  simp only [Matrix.mul_apply, toMat]
  rw [matrixPivot_mul m k j k.2, Finset.sum_range]

/-- **`matrix_pivot` returns a permutation matrix and the correspondingly row-permuted matrix**:
    for one permutation `τ` of the indices, `P` is the identity with rows permuted by `τ` and the
    returned matrix is the input with rows permuted by `τ`. -/
theorem matrixPivot_equiv (m : List (List K)) :
    ∃ τ : Equiv.Perm (Fin m.length),
      toMat m.length m.length (matrixPivot m).p = (1 : Matrix (Fin m.length) (Fin m.length) K).submatrix τ id ∧
      toMat m.length m.length (matrixPivot m).mp = (toMat m.length m.length m).submatrix τ id := by
  obtain ⟨σ, hp, hm, hq⟩ := matrixPivot_spec m
  have hl : σ.length = m.length := by simpa using hp.length_eq
  have hnd : σ.Nodup := hp.nodup_iff.mpr List.nodup_range
  let f : Fin m.length → Fin m.length := fun k => ⟨σ.getD k 0, perm_range_getD_lt hp k k.2⟩
  have hinj : Function.Injective f := by
    intro a b hab
    have h1 : σ.getD a 0 = σ.getD b 0 := congrArg Fin.val hab
    have ha : (a : ℕ) < σ.length := by omega
    have hb' : (b : ℕ) < σ.length := by omega
    rw [List.getD_eq_getElem?_getD, List.getD_eq_getElem?_getD, List.getElem?_eq_getElem ha,
      List.getElem?_eq_getElem hb'] at h1
    simp only [Option.getD_some] at h1
    exact Fin.ext ((hnd.getElem_inj_iff).mp h1)
  refine ⟨Equiv.ofBijective f (Finite.injective_iff_bijective.mp hinj), ?_, ?_⟩
  · ext k j
    simp only [toMat, Matrix.submatrix_apply, id, Equiv.ofBijective_apply, Matrix.one_apply]
    rw [hq, ent_map_rows _ _ _ _ (by omega), ent_identity' _ _ _ (perm_range_getD_lt hp k k.2) j.2]
    simp only [f, Fin.ext_iff]
  · ext k j
    simp only [toMat, Matrix.submatrix_apply, id, Equiv.ofBijective_apply]
    rw [hm, ent_map_rows _ _ _ _ (by omega)]

end Lin
