import NurbsVerif.Lemmas.KnotVec

/-! `knotvector.generate / normalize / check`, `linalg.linspace`: closed form of the generated vectors,
    sortedness, end multiplicities, acceptance by `check`, idempotence of `normalize`. -/
namespace Geomdl
variable {K : Type} [Field K] [LinearOrder K] [IsStrictOrderedRing K]

/-! ### `isSortedB` -/

theorem isSortedB_of_getD : ∀ (U : List K), (∀ i, i + 1 < U.length → U.getD i 0 ≤ U.getD (i+1) 0) →
    isSortedB U = true
  | [], _ => rfl
  | [_], _ => rfl
  | a :: b :: r, h => by
      have h0 : a ≤ b := by simpa using h 0 (by simp)
      have ih := isSortedB_of_getD (b :: r) (fun i hi => by
        have := h (i+1) (by simp only [List.length_cons] at hi ⊢; omega)
        simpa using this)
      simp [isSortedB, h0, ih]

theorem getD_of_isSortedB : ∀ (U : List K), isSortedB U = true → ∀ i, i + 1 < U.length →
    U.getD i 0 ≤ U.getD (i+1) 0
  | [], _, i, hi => by simp at hi
  | [_], _, i, hi => by simp at hi
  | a :: b :: r, h, i, hi => by
      simp only [isSortedB, Bool.and_eq_true, decide_eq_true_eq] at h
      cases i with
      | zero => simpa using h.1
      | succ i =>
        have := getD_of_isSortedB (b :: r) h.2 i (by simp only [List.length_cons] at hi ⊢; omega)
        simpa using this

/-- `isSortedB` says exactly that no consecutive pair descends -/
theorem isSortedB_iff (U : List K) :
    isSortedB U = true ↔ ∀ i, i + 1 < U.length → U.getD i 0 ≤ U.getD (i+1) 0 :=
  ⟨getD_of_isSortedB U, isSortedB_of_getD U⟩

/-- a strictly increasing map does not change the verdict of the order check -/
theorem isSortedB_map (f : K → K) (hf : ∀ a b, f a ≤ f b ↔ a ≤ b) : ∀ (U : List K),
    isSortedB (U.map f) = isSortedB U
  | [] => rfl
  | [_] => rfl
  | a :: b :: r => by
      have ih := isSortedB_map f hf (b :: r)
      simp only [List.map_cons] at ih
      simp only [List.map_cons, isSortedB, ih]
      congr 1
      simp [hf a b]

/-! ### `linspace` -/

theorem linspace_eq_core (a b : K) (num : ℕ) (tol : K) (hab : tol < |a - b|) (hn : 2 ≤ num) :
    linspace a b num tol = linspaceCore a b num := by
  unfold linspace
  rw [if_neg (by rw [absK_eq]; exact not_le.mpr hab), if_pos (by omega)]

theorem linspace_degenerate (a b : K) (num : ℕ) (tol : K) (h : |a - b| ≤ tol ∨ num ≤ 1) :
    linspace a b num tol = [a] := by
  unfold linspace
  by_cases hab : absK (a - b) ≤ tol
  · rw [if_pos hab]
  · rw [if_neg hab, if_neg]
    rcases h with h | h
    · rw [absK_eq] at hab; exact absurd h hab
    · omega

theorem linspace_unit_eq_core (num : ℕ) (tol : K) (htol : tol < 1) (hn : 2 ≤ num) :
    linspace (0:K) 1 num tol = linspaceCore 0 1 num :=
  linspace_eq_core 0 1 num tol (by simpa using htol) hn

/-! ### closed form of `knotGenerate` -/

theorem getD_append3 (A B C : List K) (i : ℕ) :
    (A ++ B ++ C).getD i 0 = if i < A.length then A.getD i 0
      else if i < A.length + B.length then B.getD (i - A.length) 0 else C.getD (i - A.length - B.length) 0 := by
  simp only [List.getD_eq_getElem?_getD]
  by_cases h1 : i < A.length
  · rw [if_pos h1, List.append_assoc, List.getElem?_append_left h1]
  · rw [if_neg h1, List.append_assoc, List.getElem?_append_right (by omega)]
    by_cases h2 : i < A.length + B.length
    · rw [if_pos h2, List.getElem?_append_left (by omega)]
    · rw [if_neg h2, List.getElem?_append_right (by omega)]

theorem getD_replicate (n i : ℕ) (c : K) (hi : i < n) : (List.replicate n c).getD i 0 = c := by
  simp [List.getD_eq_getElem?_getD, hi]

/-- entries of a clamped generated vector: `p` zeros, the `n-p+1` evenly spaced values `j/(n-p)`, `p` ones -/
theorem knotGenerate_clamped_getD (p n : ℕ) (tol : K) (htol : tol < 1) (hn : p + 1 ≤ n) (i : ℕ) (hi : i ≤ n + p) :
    (knotGenerate p n true tol : List K).getD i 0
      = if i < p then 0 else if i ≤ n then ((i - p : ℕ) : K) / ((n - p : ℕ) : K) else 1 := by
  unfold knotGenerate
  simp only [if_true]
  rw [linspace_unit_eq_core _ tol htol (by omega), getD_append3]
  simp only [List.length_replicate, linspaceCore_length]
  by_cases h1 : i < p
  · rw [if_pos h1, if_pos h1, getD_replicate p i 0 h1]
  · rw [if_neg h1, if_neg h1]
    by_cases h2 : i ≤ n
    · rw [if_pos (by omega), if_pos h2, linspaceCore_getD 0 1 _ _ (by omega)]
      have : n - p + 1 - 1 = n - p := by omega
      rw [this]; ring
    · rw [if_neg (by omega), if_neg h2, getD_replicate p _ 1 (by omega)]

/-- entries of an unclamped generated vector: `i/(n+p)` -/
theorem knotGenerate_unclamped_getD (p n : ℕ) (tol : K) (htol : tol < 1) (hn : p + 1 ≤ n) (i : ℕ) (hi : i ≤ n + p) :
    (knotGenerate p n false tol : List K).getD i 0 = (i : K) / ((n + p : ℕ) : K) := by
  unfold knotGenerate
  simp only [Bool.false_eq_true, if_false]
  rw [linspace_unit_eq_core _ tol htol (by omega), linspaceCore_getD 0 1 _ _ (by omega)]
  have : p + n + 1 - 1 = n + p := by omega
  rw [this]; ring

/-- a clamped generated vector ends with `p + 1` ones -/
theorem knotGenerate_clamped_end (p n : ℕ) (tol : K) (htol : tol < 1) (hn : p + 1 ≤ n) (i : ℕ)
    (h1 : n ≤ i) (h2 : i ≤ n + p) : (knotGenerate p n true tol : List K).getD i 0 = 1 := by
  rw [knotGenerate_clamped_getD p n tol htol hn i h2, if_neg (by omega)]
  by_cases h : i ≤ n
  · have : i = n := by omega
    subst this
    rw [if_pos (le_refl _)]
    have : ((i - p : ℕ) : K) ≠ 0 := Nat.cast_ne_zero.mpr (by omega)
    exact div_self this
  · rw [if_neg h]

/-- the interior knots of a clamped generated vector lie strictly between 0 and 1 -/
theorem knotGenerate_clamped_interior (p n : ℕ) (tol : K) (htol : tol < 1) (hn : p + 1 ≤ n) (i : ℕ)
    (h1 : p < i) (h2 : i < n) :
    0 < (knotGenerate p n true tol : List K).getD i 0 ∧ (knotGenerate p n true tol : List K).getD i 0 < 1 := by
  rw [knotGenerate_clamped_getD p n tol htol hn i (by omega), if_neg (by omega), if_pos (by omega)]
  have hd : (0:K) < ((n - p : ℕ) : K) := Nat.cast_pos.mpr (by omega)
  have hi : (0:K) < ((i - p : ℕ) : K) := Nat.cast_pos.mpr (by omega)
  have hlt : ((i - p : ℕ) : K) < ((n - p : ℕ) : K) := Nat.cast_lt.mpr (by omega)
  exact ⟨div_pos hi hd, (div_lt_one hd).mpr hlt⟩

/-- generated knot vectors are non-decreasing (consecutive entries) -/
theorem knotGenerate_step (p n : ℕ) (clamped : Bool) (tol : K) (htol : tol < 1) (hn : p + 1 ≤ n) (i : ℕ)
    (hi : i + 1 ≤ n + p) :
    (knotGenerate p n clamped tol : List K).getD i 0 ≤ (knotGenerate p n clamped tol : List K).getD (i+1) 0 := by
  cases clamped
  · rw [knotGenerate_unclamped_getD p n tol htol hn i (by omega),
      knotGenerate_unclamped_getD p n tol htol hn (i+1) hi]
    apply div_le_div_of_nonneg_right _ (Nat.cast_nonneg _)
    exact_mod_cast Nat.le_succ i
  · rw [knotGenerate_clamped_getD p n tol htol hn i (by omega),
      knotGenerate_clamped_getD p n tol htol hn (i+1) hi]
    have hd : (0:K) < ((n - p : ℕ) : K) := Nat.cast_pos.mpr (by omega)
    by_cases a1 : i < p
    · rw [if_pos a1]
      by_cases a2 : i + 1 < p
      · rw [if_pos a2]
      · rw [if_neg a2, if_pos (by omega)]
        exact div_nonneg (Nat.cast_nonneg _) (Nat.cast_nonneg _)
    · rw [if_neg a1, if_neg (show ¬ i + 1 < p by omega)]
      by_cases a3 : i + 1 ≤ n
      · rw [if_pos (show i ≤ n by omega), if_pos a3]
        apply div_le_div_of_nonneg_right _ (Nat.cast_nonneg _)
        exact Nat.cast_le.mpr (by omega)
      · rw [if_neg a3]
        by_cases a4 : i ≤ n
        · rw [if_pos a4]
          rw [div_le_one hd]
          exact Nat.cast_le.mpr (by omega)
        · rw [if_neg a4]

theorem knotGenerate_sorted (p n : ℕ) (clamped : Bool) (tol : K) (htol : tol < 1) (hp : 1 ≤ p) (hn : p + 1 ≤ n) :
    isSortedB (knotGenerate p n clamped tol : List K) = true := by
  apply isSortedB_of_getD
  intro i hi
  rw [knotGenerate_length p n clamped tol htol hp hn] at hi
  exact knotGenerate_step p n clamped tol htol hn i (by omega)

/-- generated knot vectors pass `knotvector.check` -/
theorem knotCheck_generate (p n : ℕ) (clamped : Bool) (tol : K) (htol : tol < 1) (hp : 1 ≤ p) (hn : p + 1 ≤ n) :
    knotCheck p (knotGenerate p n clamped tol : List K) n = true := by
  unfold knotCheck
  rw [knotGenerate_sorted p n clamped tol htol hp hn, knotGenerate_length p n clamped tol htol hp hn]
  simp; omega

/-- `check` accepts exactly the lists of the right length without a descent -/
theorem knotCheck_iff (p n : ℕ) (U : List K) :
    knotCheck p U n = true ↔ U.length = p + n + 1 ∧ ∀ i, i + 1 < U.length → U.getD i 0 ≤ U.getD (i+1) 0 := by
  unfold knotCheck
  rw [Bool.and_eq_true, decide_eq_true_eq, isSortedB_iff]

/-! ### `knotNormalize` -/

theorem knotNormalize_fixed (W : List K) (h0 : W.headD 0 = 0) (h1 : W.getLastD 0 = 1) : knotNormalize W = W := by
  unfold knotNormalize
  simp only []
  rw [h0, h1]
  simp

/-- normalisation is idempotent -/
theorem knotNormalize_idem (V : List K) (hne : V ≠ []) (hrange : V.headD 0 < V.getLastD 0) :
    knotNormalize (knotNormalize V) = knotNormalize V := by
  obtain ⟨_, h2, h3, _⟩ := knotNormalize_spec V hne hrange
  exact knotNormalize_fixed _ h2 h3

/-- normalisation preserves strict order too (it is injective on the knot values) -/
theorem knotNormalize_strict (V : List K) (hne : V ≠ []) (hrange : V.headD 0 < V.getLastD 0) (i j : ℕ)
    (hij : fnOf V i < fnOf V j) : fnOf (knotNormalize V) i < fnOf (knotNormalize V) j := by
  have hpos : 0 < V.getLastD 0 - V.headD 0 := by linarith
  rw [fnOf_knotNormalize V i hne, fnOf_knotNormalize V j hne]
  have : 0 < 1 / (V.getLastD 0 - V.headD 0) := one_div_pos.mpr hpos
  have := mul_lt_mul_of_pos_left hij this
  linarith

/-- normalisation does not change the verdict of `check` -/
theorem knotCheck_normalize (p n : ℕ) (V : List K) (hrange : V.headD 0 < V.getLastD 0) :
    knotCheck p (knotNormalize V) n = knotCheck p V n := by
  have hpos : 0 < V.getLastD 0 - V.headD 0 := by linarith
  unfold knotCheck knotNormalize
  simp only [List.length_map]
  rw [isSortedB_map _ (fun a b => by
    rw [div_le_div_iff_of_pos_right hpos]
    constructor <;> intro h <;> linarith)]

/-- generated vectors are already normalised -/
theorem knotNormalize_generate (p n : ℕ) (clamped : Bool) (tol : K) (htol : tol < 1) (hp : 1 ≤ p) (hn : p + 1 ≤ n) :
    knotNormalize (knotGenerate p n clamped tol : List K) = knotGenerate p n clamped tol := by
  have hlen := knotGenerate_length p n clamped tol htol hp hn
  apply knotNormalize_fixed
  · have : (knotGenerate p n clamped tol : List K).headD 0 = (knotGenerate p n clamped tol : List K).getD 0 0 := by
      cases (knotGenerate p n clamped tol : List K) <;> simp
    rw [this]
    cases clamped
    · rw [knotGenerate_unclamped_getD p n tol htol hn 0 (by omega)]; simp
    · rw [knotGenerate_clamped_getD p n tol htol hn 0 (by omega)]
      rw [if_pos (by omega)]
  · have : (knotGenerate p n clamped tol : List K).getLastD 0
        = (knotGenerate p n clamped tol : List K).getD (n + p) 0 := by
      rw [List.getLastD_eq_getLast?, List.getLast?_eq_getElem?, hlen, List.getD_eq_getElem?_getD]
      simp
    rw [this]
    cases clamped
    · rw [knotGenerate_unclamped_getD p n tol htol hn _ (le_refl _)]
      have : ((n + p : ℕ) : K) ≠ 0 := Nat.cast_ne_zero.mpr (by omega)
      exact div_self this
    · exact knotGenerate_clamped_end p n tol htol hn _ (by omega) (le_refl _)

end Geomdl
