import NurbsVerif.Lemmas.SplitCurve
import Mathlib.Algebra.Order.AbsoluteValue.Basic

/-! `helpers.find_multiplicity` is exact when every knot is either equal to the parameter or further
    than `tol` away from it. -/
set_option linter.unusedSectionVars false
namespace Geomdl
open Blossom
variable {K : Type} [Field K] [LinearOrder K] [IsStrictOrderedRing K]

/-- a non-decreasing sequence bounded by `ub` on `[0, n)` is `< ub` up to some `a` and `= ub` from there -/
theorem mono_run (f : ℕ → K) (ub : K) (hm : Monotone f) : ∀ n, (∀ x, x < n → f x ≤ ub) →
    ∃ a, a ≤ n ∧ (∀ x, x < a → f x < ub) ∧ (∀ x, a ≤ x → x < n → f x = ub) := by
  intro n
  induction n with
  | zero => intro _; exact ⟨0, le_refl _, by intro x hx; omega, by intro x _ hx; omega⟩
  | succ n ih =>
    intro h
    by_cases hn : f n < ub
    · refine ⟨n + 1, le_refl _, ?_, by intro x h1 h2; omega⟩
      intro x hx
      exact lt_of_le_of_lt (hm (by omega)) hn
    · have hn' : f n = ub := le_antisymm (h n (by omega)) (not_lt.mp hn)
      obtain ⟨a, ha, h1, h2⟩ := ih (fun x hx => h x (by omega))
      refine ⟨a, by omega, h1, ?_⟩
      intro x hx1 hx2
      rcases Nat.eq_or_lt_of_le (show x ≤ n by omega) with e | e
      · rw [e]; exact hn'
      · exact h2 x hx1 e

theorem fnOf_getElem (U : List K) (i : ℕ) (hi : i < U.length) : fnOf U i = U[i] := by
  unfold fnOf
  simp only [List.getD_eq_getElem?_getD]
  rw [List.getElem?_eq_getElem hi]; rfl

/-- **`find_multiplicity` is exact under separation**: with `k` the span of `ub`, the reported number
    `s` satisfies: the `s` knots ending at `k` equal `ub` and everything before is smaller -/
theorem findMultiplicity_run (U : List K) (ub tol : K) (k : ℕ) (hm : Monotone (fnOf U)) (htol : 0 ≤ tol)
    (hsep : ∀ x ∈ U, |ub - x| ≤ tol → x = ub) (hk : k + 1 < U.length)
    (h1 : fnOf U k ≤ ub) (h2 : ub < fnOf U (k+1)) :
    ∃ a, a ≤ k + 1 ∧ findMultiplicity ub U tol = k + 1 - a ∧ (∀ x, x < a → fnOf U x < ub) ∧
      (∀ x, a ≤ x → x ≤ k → fnOf U x = ub) := by
  obtain ⟨a, ha, hlt, heq⟩ := mono_run (fnOf U) ub hm (k + 1) (fun x hx => le_trans (hm (by omega)) h1)
  refine ⟨a, ha, ?_, hlt, fun x hx1 hx2 => heq x hx1 (by omega)⟩
  unfold findMultiplicity
  have hfilter : U.filter (fun kv => decide (absK (ub - kv) ≤ tol)) = U.filter (fun kv => decide (kv = ub)) := by
    apply List.filter_congr
    intro x hx
    rw [absK_eq]
    by_cases hxe : x = ub
    · simp [hxe, htol]
    · have : ¬ (|ub - x| ≤ tol) := fun h => hxe (hsep x hx h)
      simp [hxe, this]
  rw [hfilter]
  have hsplit : U = U.take a ++ ((U.drop a).take (k + 1 - a) ++ U.drop (k + 1)) := by
    rw [List.take_drop]
    have : a + (k + 1 - a) = k + 1 := by omega
    rw [this]
    conv_lhs => rw [← List.take_append_drop (k + 1) U, ← List.take_append_drop a (U.take (k + 1))]
    rw [List.take_take, List.append_assoc]
    have : min a (k + 1) = a := by omega
    rw [this, List.drop_take]
  have f1 : (U.take a).filter (fun kv => decide (kv = ub)) = [] := by
    rw [List.filter_eq_nil_iff]
    intro x hx
    rw [List.mem_take_iff_getElem] at hx
    obtain ⟨i, hi, rfl⟩ := hx
    have := hlt i (by omega)
    rw [fnOf_getElem U i (by omega)] at this
    simp [ne_of_lt this]
  have f2 : ((U.drop a).take (k + 1 - a)).filter (fun kv => decide (kv = ub)) = (U.drop a).take (k + 1 - a) := by
    rw [List.filter_eq_self]
    intro x hx
    rw [List.mem_take_iff_getElem] at hx
    obtain ⟨i, hi, rfl⟩ := hx
    simp only [List.length_drop] at hi
    have := heq (a + i) (by omega) (by omega)
    rw [fnOf_getElem U (a + i) (by omega)] at this
    simp [this]
  have f3 : (U.drop (k + 1)).filter (fun kv => decide (kv = ub)) = [] := by
    rw [List.filter_eq_nil_iff]
    intro x hx
    rw [List.mem_drop_iff_getElem] at hx
    obtain ⟨i, hi, rfl⟩ := hx
    have : fnOf U (k + 1) ≤ fnOf U (i + (k + 1)) := hm (by omega)
    rw [fnOf_getElem U (i + (k + 1)) hi] at this
    have h3 : ub < U[i + (k + 1)] := lt_of_lt_of_le h2 this
    have e : U[k + 1 + i] = U[i + (k + 1)] := by congr 1; omega
    simp only [decide_eq_true_eq]
    rw [e]; exact ne_of_gt h3
  conv_lhs => rw [hsplit]
  rw [List.filter_append, List.filter_append, f1, f2, f3]
  simp
  omega

end Geomdl
