import Mathlib.Algebra.BigOperators.Intervals
import Mathlib.Algebra.Order.Field.Basic
import Mathlib.Data.Nat.Choose.Sum
import Mathlib.Tactic.Ring
import Mathlib.Tactic.FieldSimp

open Finset
variable {K : Type} [Field K] [CharZero K]

/-- Bernstein basis -/
def bern (n i : ℕ) (u : K) : K := (Nat.choose n i : K) * u ^ i * (1 - u) ^ (n - i)

/-- coefficient used by `helpers.degree_elevation` (loop `j = max(0,i-t) .. min(p,i)`) -/
def elevCoef (p t i j : ℕ) : K :=
  if i ≤ j + t ∧ j ≤ i ∧ j ≤ p then ((Nat.choose p j : K) * (Nat.choose t (i - j) : K)) / (Nat.choose (p + t) i : K) else 0

/-- elevated control points -/
def elev (p t : ℕ) (P : ℕ → K) (i : ℕ) : K := ∑ j ∈ range (p+1), elevCoef p t i j * P j

theorem bern_sum_one (t : ℕ) (u : K) : ∑ l ∈ range (t+1), bern t l u = 1 := by
  have := add_pow u (1 - u) t
  simp only [add_sub_cancel, one_pow] at this
  rw [this]
  apply sum_congr rfl
  intro l _
  unfold bern; ring

theorem inner_sum (p t j : ℕ) (hj : j ≤ p) (u : K) :
    ∑ i ∈ range (p + t + 1), bern (p+t) i u * elevCoef p t i j = bern p j u := by
  -- only i ∈ [j, j+t] contribute
  have hsub : Ico j (j + t + 1) ⊆ range (p + t + 1) := by
    intro x hx; simp at hx ⊢; omega
  rw [← sum_subset hsub (by
    intro i _ hi
    simp only [mem_Ico, not_and_or, not_le, not_lt] at hi
    unfold elevCoef
    rw [if_neg (by omega), mul_zero])]
  rw [sum_Ico_eq_sum_range]
  have : j + t + 1 - j = t + 1 := by omega
  rw [this]
  calc ∑ l ∈ range (t+1), bern (p+t) (j+l) u * elevCoef p t (j+l) j
      = ∑ l ∈ range (t+1), bern p j u * bern t l u := by
        apply sum_congr rfl
        intro l hl
        have hl' := mem_range.mp hl
        unfold elevCoef bern
        rw [if_pos (by omega)]
        have hne : (Nat.choose (p + t) (j + l) : K) ≠ 0 := by
          exact_mod_cast (Nat.choose_pos (by omega)).ne'
        have e1 : j + l - j = l := by omega
        have e2 : p + t - (j + l) = (p - j) + (t - l) := by omega
        rw [e1, e2, pow_add, pow_add]
        field_simp
    _ = bern p j u := by rw [← mul_sum, bern_sum_one, mul_one]

/-- degree elevation preserves the Bernstein form, for every degree, count and parameter -/
theorem elev_preserves (p t : ℕ) (P : ℕ → K) (u : K) :
    ∑ i ∈ range (p + t + 1), bern (p+t) i u * elev p t P i = ∑ j ∈ range (p+1), bern p j u * P j := by
  unfold elev
  simp only [mul_sum]
  rw [sum_comm]
  apply sum_congr rfl
  intro j hj
  have hj' : j ≤ p := by have := mem_range.mp hj; omega
  rw [← inner_sum p t j hj' u, sum_mul]
  apply sum_congr rfl
  intro i _
  ring

theorem elev_first (p t : ℕ) (P : ℕ → K) : elev p t P 0 = P 0 := by
  unfold elev
  rw [sum_eq_single 0]
  · unfold elevCoef; simp
  · intro j _ hj; unfold elevCoef; rw [if_neg (by omega), zero_mul]
  · intro h; simp at h

#print axioms elev_preserves
