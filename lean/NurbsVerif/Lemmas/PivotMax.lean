import NurbsVerif.Lemmas.LinalgMatrix
import NurbsVerif.Lemmas.KnotVec

/-! What the pivoting loop of `matrix_pivot` guarantees about the matrix it returns: in every column `j` the diagonal
    entry is maximal in absolute value among the entries on and below the diagonal (of the RETURNED, unreduced,
    matrix), and the returned sign is the determinant of the returned permutation matrix. -/
namespace Lin
open Finset
variable {K : Type} [Field K] [LinearOrder K]

section argmax
variable [IsStrictOrderedRing K]

/-- the fold of the inner loop: the running maximum dominates every visited entry and is attained (or still `0`)
    at the running row, which never lies above `j` -/
theorem argMaxFold_spec (mp : List (List K)) (j : ℕ) : ∀ (l : List ℕ) (acc : K × ℕ),
    acc.1 ≤ |ent mp acc.2 j| → j ≤ acc.2 →
    let res := l.foldl (fun (acc : K × ℕ) t =>
        let a := Geomdl.absK (ent mp (j + t) j)
        if acc.1 < a then (a, j + t) else acc) acc
    acc.1 ≤ res.1 ∧ (∀ t ∈ l, |ent mp (j + t) j| ≤ res.1) ∧ res.1 ≤ |ent mp res.2 j| ∧ j ≤ res.2 := by
  intro l
  induction l with
  | nil => intro acc h1 h2; exact ⟨le_refl _, by simp, h1, h2⟩
  | cons t l ih =>
    intro acc h1 h2
    simp only [List.foldl_cons, Geomdl.absK_eq]
    by_cases c : acc.1 < |ent mp (j + t) j|
    · rw [if_pos c]
      obtain ⟨g1, g2, g3, g4⟩ := ih (|ent mp (j + t) j|, j + t) (le_refl _) (by simp)
      simp only [Geomdl.absK_eq] at g1 g2 g3 g4
      refine ⟨le_trans (le_of_lt c) g1, ?_, g3, g4⟩
      intro t' ht'
      rcases List.mem_cons.mp ht' with e | e
      · rw [e]; exact g1
      · exact g2 t' e
    · rw [if_neg c]
      obtain ⟨g1, g2, g3, g4⟩ := ih acc h1 h2
      simp only [Geomdl.absK_eq] at g1 g2 g3 g4
      refine ⟨g1, ?_, g3, g4⟩
      intro t' ht'
      rcases List.mem_cons.mp ht' with e | e
      · rw [e]; exact le_trans (not_lt.mp c) g1
      · exact g2 t' e

/-- **the inner loop of `matrix_pivot`** returns a row `r ∈ [j, n)` whose entry in column `j` is maximal in absolute
    value among the rows `j … n-1` -/
theorem argMaxAbs_spec (mp : List (List K)) (j n : ℕ) (hj : j < n) :
    j ≤ argMaxAbs mp j n ∧ argMaxAbs mp j n < n ∧
    ∀ i, j ≤ i → i < n → |ent mp i j| ≤ |ent mp (argMaxAbs mp j n) j| := by
  refine ⟨?_, argMaxAbs_lt mp j n hj, ?_⟩
  · exact (argMaxFold_spec mp j (List.range (n - j)) ((0 : K), j) (abs_nonneg _) (le_refl _)).2.2.2
  · intro i h1 h2
    obtain ⟨_, g2, g3, _⟩ := argMaxFold_spec mp j (List.range (n - j)) ((0 : K), j) (abs_nonneg _) (le_refl _)
    have := g2 (i - j) (List.mem_range.mpr (by omega))
    rw [show j + (i - j) = i by omega] at this
    exact le_trans this g3
end argmax

omit [LinearOrder K] in
theorem ent_swapAt (l : List (List K)) (a b i c : ℕ) (ha : a < l.length) (hb : b < l.length) :
    ent (swapAt l a b) i c = ent l (if i = a then b else if i = b then a else i) c := by
  unfold ent
  simp only [List.getD_eq_getElem?_getD]
  rw [getElem?_swapAt l a b i ha hb]

/-- invariant of the outer loop after the columns `0 … j-1`: each of them has its maximum (over the rows on and below
    the diagonal) on the diagonal -/
structure PivMax (n : ℕ) (st : PivotState K) (j : ℕ) : Prop where
  len : st.mp.length = n
  mx : ∀ c, c < j → ∀ i, c ≤ i → i < n → |ent st.mp i c| ≤ |ent st.mp c c|

theorem pivotStep_max [IsStrictOrderedRing K] (n : ℕ) (st : PivotState K) (j : ℕ) (hj : j < n) (h : PivMax n st j) :
    PivMax n (pivotStep st j) (j + 1) := by
  obtain ⟨r1, r2, r3⟩ := argMaxAbs_spec st.mp j n hj
  unfold pivotStep
  rw [h.len]
  by_cases hr : j = argMaxAbs st.mp j n
  · rw [if_pos hr]
    refine ⟨h.len, ?_⟩
    intro c hc i h1 h2
    rcases Nat.lt_succ_iff_lt_or_eq.mp hc with c1 | c1
    · exact h.mx c c1 i h1 h2
    · subst c1
      have := r3 i h1 h2
      rwa [← hr] at this
  · rw [if_neg hr]
    generalize argMaxAbs st.mp j n = r at *
    have hjl : j < st.mp.length := by rw [h.len]; exact hj
    have hrl : r < st.mp.length := by rw [h.len]; exact r2
    refine ⟨by rw [(swapAt_perm st.mp j r).length_eq, h.len], ?_⟩
    intro c hc i h1 h2
    simp only
    rw [ent_swapAt _ _ _ _ _ hjl hrl, ent_swapAt _ _ _ _ _ hjl hrl]
    rcases Nat.lt_succ_iff_lt_or_eq.mp hc with c1 | c1
    · -- an earlier column: row `c` is not touched, the rows below are exchanged among themselves
      rw [if_neg (show ¬ c = j by omega), if_neg (show ¬ c = r by omega)]
      apply h.mx c c1
      · split_ifs <;> omega
      · split_ifs <;> omega
    · -- the new column `j`
      subst c1
      rw [if_pos rfl]
      apply r3
      · split_ifs <;> omega
      · split_ifs <;> omega

theorem pivotPrefix_max [IsStrictOrderedRing K] (m p0 : List (List K)) : ∀ j, j ≤ m.length →
    PivMax m.length ((List.range j).foldl pivotStep ⟨m, p0, 0⟩) j := by
  intro j
  induction j with
  | zero => intro _; exact ⟨rfl, fun c hc => by omega⟩
  | succ j ih =>
    intro hj
    rw [List.range_succ, List.foldl_append]
    exact pivotStep_max m.length _ j (by omega) (ih (by omega))

/-- **max-pivot property of `matrix_pivot`**: in the returned matrix every diagonal entry is maximal in absolute
    value among the entries of its column on and below the diagonal.  (The maximum is taken in the row-permuted
    INPUT matrix – the loop never eliminates – so this is not the partial pivoting of Gaussian elimination.) -/
theorem matrixPivot_max [IsStrictOrderedRing K] (m : List (List K)) (j i : ℕ) (hji : j ≤ i) (hi : i < m.length) :
    |ent (matrixPivot m).mp i j| ≤ |ent (matrixPivot m).mp j j| :=
  (pivotPrefix_max m (identity m.length) m.length (le_refl _)).mx j (by omega) i hji hi

/-! ### the sign is the determinant of `P` -/

/-- determinant invariant of the loop for the second list `p` (the same rows are exchanged) -/
structure PivDetP (n : ℕ) (p0 : List (List K)) (st : PivotState K) : Prop where
  lenm : st.mp.length = n
  lenp : st.p.length = n
  det : (toMat n n st.p).det = (-1) ^ st.swaps * (toMat n n p0).det

theorem pivotStep_detP (n : ℕ) (p0 : List (List K)) (st : PivotState K) (j : ℕ) (hj : j < n)
    (h : PivDetP n p0 st) : PivDetP n p0 (pivotStep st j) := by
  unfold pivotStep
  by_cases hr : j = argMaxAbs st.mp j st.mp.length
  · simpa [← hr] using h
  · simp only [hr, if_false]
    have hrow : argMaxAbs st.mp j st.mp.length < n := by
      rw [h.lenm]; exact argMaxAbs_lt _ _ _ hj
    refine ⟨?_, ?_, ?_⟩
    · rw [(swapAt_perm st.mp j _).length_eq, h.lenm]
    · rw [(swapAt_perm st.p j _).length_eq, h.lenp]
    · simp only
      rw [toMat_swapAt st.p n n j _ h.lenp hj hrow, Matrix.det_permute,
        Equiv.Perm.sign_swap (by intro e; exact hr (by simpa using congrArg Fin.val e)), h.det, pow_succ]
      simp

theorem pivotFold_detP (n : ℕ) (p0 : List (List K)) : ∀ (js : List ℕ) (st : PivotState K),
    (∀ j ∈ js, j < n) → PivDetP n p0 st → PivDetP n p0 (js.foldl pivotStep st)
  | [], _, _, h => h
  | j :: js, st, hj, h =>
    pivotFold_detP n p0 js _ (fun j' hj' => hj j' (by simp [hj'])) (pivotStep_detP n p0 st j (hj j (by simp)) h)

/-- **the sign returned by `matrix_pivot(m, sign=True)` is `det P`** -/
theorem matrixPivot_sign_eq_det_p (m : List (List K)) :
    pivotSign (matrixPivot m) = (toMat m.length m.length (matrixPivot m).p).det := by
  have h0 : PivDetP m.length (identity m.length) ⟨m, identity m.length, 0⟩ :=
    ⟨rfl, by simp [identity, tabulate], by simp⟩
  have := (pivotFold_detP m.length (identity m.length) (List.range m.length) _
    (fun j hj => List.mem_range.mp hj) h0).det
  rw [toMat_identity, Matrix.det_one, mul_one] at this
  rw [pivotSign, ← neg_one_pow_eq_ite]
  exact this.symm

/-- a non-singular matrix has a non-zero first pivot after `matrix_pivot` (otherwise its first column vanishes) -/
theorem matrixPivot_first_ne_zero [IsStrictOrderedRing K] (m : List (List K)) (hn : 0 < m.length)
    (hdet : (toMat m.length m.length m).det ≠ 0) : ent (matrixPivot m).mp 0 0 ≠ 0 := by
  intro h0
  apply hdet
  have hcol : ∀ i : Fin m.length, toMat m.length m.length (matrixPivot m).mp i ⟨0, hn⟩ = 0 := by
    intro i
    have := matrixPivot_max m 0 i (Nat.zero_le _) i.2
    rw [h0, abs_zero] at this
    exact abs_eq_zero.mp (le_antisymm this (abs_nonneg _))
  have hz := Matrix.det_eq_zero_of_column_eq_zero (A := toMat m.length m.length (matrixPivot m).mp) ⟨0, hn⟩ hcol
  rw [matrixPivot_det] at hz
  rcases mul_eq_zero.mp hz with h | h
  · exact absurd h (pow_ne_zero _ (by norm_num))
  · exact h

end Lin
