import NurbsVerif.Lemmas.FitKnotsValid
import NurbsVerif.Lemmas.Fitting
import NurbsVerif.Lemmas.BasisOne
import NurbsVerif.Lemmas.Hull

/-! Schoenberg–Whitney direction for `fitting.interpolate_curve`: with the averaged knot vector (Eq. 9.8, `invp · p = 1`)
    and strictly increasing parameters every parameter lies strictly inside the support of its own basis function,
    `U_i < ū_i < U_{i+p+1}`, hence the collocation matrix of `_build_coeff_matrix` has a positive diagonal.  (This is
    the necessary half of the Schoenberg–Whitney theorem; total positivity / non-singularity is not proved.) -/
namespace Geomdl
open Blossom Finset Lin
variable {K : Type} [Field K] [LinearOrder K] [IsStrictOrderedRing K]

/-- the Cox–de Boor functions of a non-decreasing knot function are non-negative -/
theorem cdb_nonneg_all (U : ℕ → K) (hm : Monotone U) (u : K) : ∀ (p i : ℕ), 0 ≤ cdb U p i u := by
  intro p
  induction p with
  | zero =>
    intro i
    simp only [cdb]
    split
    · exact zero_le_one
    · exact le_refl _
  | succ p ih =>
    intro i
    simp only [cdb]
    apply add_nonneg
    · by_cases h : cdb U p i u = 0
      · rw [h, mul_zero]
      · obtain ⟨a, _⟩ := cdb_support U hm u p i h
        have : U i ≤ U (i + p + 1) := hm (by omega)
        exact mul_nonneg (div_nonneg (by linarith) (by linarith)) (ih i)
    · by_cases h : cdb U p (i+1) u = 0
      · rw [h, mul_zero]
      · obtain ⟨_, b⟩ := cdb_support U hm u p (i+1) h
        have e : i + 1 + p + 1 = i + p + 2 := by omega
        rw [e] at b
        have : U (i + 1) ≤ U (i + p + 2) := hm (by omega)
        exact mul_nonneg (div_nonneg (by linarith) (by linarith)) (ih (i+1))

/-- **positivity inside the support**: for a non-decreasing knot function, `N_{i,p}(u) > 0` when
    `U_i ≤ u < U_{i+p+1}` and either `U_i < u` or `U_{i+p} ≤ u` (the latter covers `u = U_i` with `U_i = … = U_{i+p}`) -/
theorem cdb_pos (U : ℕ → K) (hm : Monotone U) (u : K) : ∀ (p i : ℕ),
    U i ≤ u → u < U (i + p + 1) → (U i < u ∨ U (i + p) ≤ u) → 0 < cdb U p i u := by
  intro p
  induction p with
  | zero =>
    intro i h1 h2 _
    simp only [cdb]
    rw [if_pos ⟨h1, h2⟩]
    exact zero_lt_one
  | succ p ih =>
    intro i h1 h2 h3
    simp only [cdb]
    have e2 : i + (p + 1) + 1 = i + p + 2 := by omega
    rw [e2] at h2
    by_cases c : u < U (i + p + 1)
    · -- the first term is positive
      have hlt : U i < u := by
        rcases h3 with h | h
        · exact h
        · exact absurd (show U (i + p + 1) ≤ u from h) (not_le.mpr c)
      have t1 : 0 < (u - U i) / (U (i + p + 1) - U i) * cdb U p i u :=
        mul_pos (div_pos (by linarith) (by linarith)) (ih i h1 c (Or.inl hlt))
      have t2 : 0 ≤ (U (i + p + 2) - u) / (U (i + p + 2) - U (i + 1)) * cdb U p (i + 1) u := by
        have : U (i + 1) ≤ U (i + p + 2) := hm (by omega)
        by_cases hu : u ≤ U (i + p + 2)
        · exact mul_nonneg (div_nonneg (by linarith) (by linarith)) (cdb_nonneg_all U hm u p (i+1))
        · linarith
      linarith
    · -- the second term is positive
      have c' : U (i + p + 1) ≤ u := not_lt.mp c
      have hle : U (i + 1) ≤ U (i + p + 1) := hm (by omega)
      have e3 : i + 1 + p + 1 = i + p + 2 := by omega
      have e4 : i + 1 + p = i + p + 1 := by omega
      have t2 : 0 < (U (i + p + 2) - u) / (U (i + p + 2) - U (i + 1)) * cdb U p (i + 1) u :=
        mul_pos (div_pos (by linarith) (by linarith))
          (ih (i + 1) (le_trans hle c') (by rw [e3]; exact h2) (Or.inr (by rw [e4]; exact c')))
      have t1 : 0 ≤ (u - U i) / (U (i + p + 1) - U i) * cdb U p i u := by
        have : U i ≤ U (i + p + 1) := hm (by omega)
        exact mul_nonneg (div_nonneg (by linarith) (by linarith)) (cdb_nonneg_all U hm u p i)
      linarith

/-- an entry of the collocation matrix is the Cox–de Boor value `N_{j,p}(ū_i)` when `ū_i` lies in the half-open domain -/
theorem buildCoeffMatrix_ent_cdb (p : ℕ) (U : ℕ → K) (uk : List K) (n i j : ℕ) (hm : Monotone U) (hpn : p + 1 ≤ n)
    (hi : i < uk.length) (hj : j < n) (hlo : U p ≤ uk.getD i 0) (hhi : uk.getD i 0 < U n) :
    ent (buildCoeffMatrix p U uk n) i j = cdb U p j (uk.getD i 0) := by
  rw [buildCoeffMatrix_ent p U uk n i j hi hj]
  obtain ⟨g1, g2, g3, g4⟩ := findSpanLinear_spec p U n (uk.getD i 0) hpn hm hlo
  have g5 : uk.getD i 0 < U (findSpanLinear p U n (uk.getD i 0) + 1) :=
    g4.elim id (fun e => by rw [e]; exact hhi)
  generalize findSpanLinear p U n (uk.getD i 0) = k at *
  rw [cdb_eq_basisFuns U k _ hm g3 g5 p g1 j]
  by_cases c : k - p ≤ j ∧ j ≤ k
  · rw [if_pos c, if_pos (by omega)]
    congr 1; omega
  · rw [if_neg c, if_neg (by omega)]

/-- the last diagonal entry of the collocation matrix is `1` when the last parameter is the end of a clamped
    domain whose last span is not empty -/
theorem buildCoeffMatrix_ent_last (p : ℕ) (U : ℕ → K) (uk : List K) (n i : ℕ) (hm : Monotone U) (hpn : p + 1 ≤ n)
    (hi : i < uk.length) (hu : uk.getD i 0 = U n) (hne : U (n - 1) < U n)
    (hcl : ∀ a, n ≤ a → a < n + p → U a = U n) :
    ent (buildCoeffMatrix p U uk n) i (n - 1) = 1 := by
  rw [buildCoeffMatrix_ent p U uk n i (n - 1) hi (by omega)]
  have hlo : U p ≤ uk.getD i 0 := by rw [hu]; exact hm (by omega)
  obtain ⟨g1, g2, g3, g4⟩ := findSpanLinear_spec p U n (uk.getD i 0) hpn hm hlo
  have hk : findSpanLinear p U n (uk.getD i 0) + 1 = n := by
    rcases g4 with h | h
    · exfalso
      have : U (findSpanLinear p U n (uk.getD i 0) + 1) ≤ U n := hm (by omega)
      have h' : U n < U (findSpanLinear p U n (uk.getD i 0) + 1) := lt_of_eq_of_lt hu.symm h
      exact absurd h' (not_lt.mpr this)
    · exact h
  have hk' : findSpanLinear p U n (uk.getD i 0) = n - 1 := by omega
  rw [hk', if_pos (by omega), hu]
  have e : n - 1 + 1 = n := by omega
  rw [basisFuns_at_clamped_end U (n - 1) (U n) hm (by rw [e]; exact hne) p (by omega)
    (fun a h1 h2 => by
      rcases Nat.eq_or_lt_of_le h1 with h | h
      · rw [← h, e]
      · exact hcl a (by omega) (by omega)) (by rw [e])]
  rw [show n - 1 - (n - 1 - p) = p by omega, List.getD_append_right _ _ _ _ (by simp)]
  simp

/-- **Schoenberg–Whitney positions for the averaged knot vector**: with `invp · p = 1` and parameters that run
    strictly increasing from 0 to 1, every interior parameter lies strictly inside the support of its own basis
    function: `U_i < ū_i < U_{i+p+1}` for `0 < i < n − 1` -/
theorem averaged_schoenberg_whitney (p n : ℕ) (uk : List K) (invp : K) (hp : 1 ≤ p) (hpn : p + 1 ≤ n)
    (hinv : invp * (p : K) = 1) (hfirst : uk.getD 0 0 = 0) (hlast : uk.getD (n - 1) 0 = 1)
    (hstrict : ∀ i j, i < j → j < n → uk.getD i 0 < uk.getD j 0) (i : ℕ) (hi1 : 1 ≤ i) (hi2 : i + 1 < n) :
    fnOf (computeKnotVector p n uk invp) i < uk.getD i 0 ∧
    uk.getD i 0 < fnOf (computeKnotVector p n uk invp) (i + p + 1) := by
  have hpK : (0 : K) < (p : K) := by exact_mod_cast hp
  have hinv0 : 0 < invp := by
    by_contra hneg
    have : invp * (p : K) ≤ 0 := mul_nonpos_of_nonpos_of_nonneg (not_lt.mp hneg) (le_of_lt hpK)
    rw [hinv] at this
    exact absurd this (not_le.mpr zero_lt_one)
  constructor
  · rw [computeKnotVector_fn p n uk invp hpn]
    by_cases c : i ≤ p
    · rw [if_pos c]
      have := hstrict 0 i (by omega) (by omega)
      rwa [hfirst] at this
    · rw [if_neg c, if_pos (by omega)]
      obtain ⟨_, b2⟩ := avg_bounds p n uk invp hp hinv0 hstrict (i - p) (by omega)
      rw [hinv, one_mul, show i - p + p - 1 = i - 1 by omega] at b2
      exact lt_of_le_of_lt b2 (hstrict (i - 1) i (by omega) (by omega))
  · rw [computeKnotVector_fn p n uk invp hpn, if_neg (by omega)]
    by_cases c : i + p + 1 < n
    · rw [if_pos c]
      obtain ⟨b1, _⟩ := avg_bounds p n uk invp hp hinv0 hstrict (i + p + 1 - p) (by omega)
      rw [hinv, one_mul] at b1
      have e : i + p + 1 - p = i + 1 := by omega
      rw [e] at b1 ⊢
      exact lt_of_lt_of_le (hstrict i (i + 1) (by omega) (by omega)) b1
    · rw [if_neg c]
      have := hstrict i (n - 1) (by omega) (by omega)
      rwa [hlast] at this

/-- **the collocation matrix of the averaged knot vector has a positive diagonal** (`N_{i,p}(ū_i) > 0` for every `i`,
    as computed by `_build_coeff_matrix`: span search + A2.2), for `invp · p = 1` and parameters that run strictly
    increasing from 0 to 1 – a necessary condition for the matrix to be non-singular -/
theorem averaged_collocation_diag_pos (p n : ℕ) (uk : List K) (invp : K) (hp : 1 ≤ p) (hpn : p + 1 ≤ n)
    (hinv : invp * (p : K) = 1) (hlen : uk.length = n) (hfirst : uk.getD 0 0 = 0) (hlast : uk.getD (n - 1) 0 = 1)
    (hstrict : ∀ i j, i < j → j < n → uk.getD i 0 < uk.getD j 0) (i : ℕ) (hi : i < n) :
    0 < ent (buildCoeffMatrix p (fnOf (computeKnotVector p n uk invp)) uk n) i i := by
  have hpK : (0 : K) < (p : K) := by exact_mod_cast hp
  have hinv0 : 0 < invp := by
    by_contra hneg
    have : invp * (p : K) ≤ 0 := mul_nonpos_of_nonpos_of_nonneg (not_lt.mp hneg) (le_of_lt hpK)
    rw [hinv] at this
    exact absurd this (not_le.mpr zero_lt_one)
  have hC := computeKnotVector_clampedKnots p n uk invp hp hpn hinv0 (le_of_eq hinv) hlen hfirst hlast hstrict
  set U := fnOf (computeKnotVector p n uk invp) with hU
  have hUp : U p = 0 := hC.zeros p le_rfl
  have hUn : U n = 1 := hC.ones n le_rfl
  by_cases c : i + 1 < n
  · have hlo : U p ≤ uk.getD i 0 := by
      rw [hUp]; exact params_nonneg_of_strict n uk hlen hfirst hstrict i
    have hhi : uk.getD i 0 < U n := by
      rw [hUn]
      have := hstrict i (n - 1) (by omega) (by omega)
      rwa [hlast] at this
    rw [buildCoeffMatrix_ent_cdb p U uk n i i hC.mono hpn (by omega) hi hlo hhi]
    rcases Nat.eq_zero_or_pos i with e | e
    · subst e
      have h0 : U 0 = 0 := hC.zeros 0 (by omega)
      apply cdb_pos U hC.mono _ p 0 (by rw [h0, hfirst])
      · rw [hfirst]
        have := (hC.ends hpn).1
        simpa using this
      · right; rw [Nat.zero_add, hUp, hfirst]
    · obtain ⟨s1, s2⟩ := averaged_schoenberg_whitney p n uk invp hp hpn hinv hfirst hlast hstrict i e c
      exact cdb_pos U hC.mono _ p i (le_of_lt s1) s2 (Or.inl s1)
  · have hin : i = n - 1 := by omega
    rw [hin]
    rw [buildCoeffMatrix_ent_last p U uk n (n - 1) hC.mono hpn (by omega) (by rw [hlast, hUn]) ?_
      (fun a h1 _ => (hC.ones a h1).trans hUn.symm)]
    · exact zero_lt_one
    · rw [hUn]; exact (hC.ends hpn).2

end Geomdl
