import NurbsVerif.Lemmas.DecompUnclampedSurfU

/-! `decompose_surface(…, decompose_dir='u')` end to end, u knot vector clamped or not. -/
set_option linter.unusedSectionVars false
namespace Geomdl
open Blossom Finset
variable {K : Type} [Field K] [LinearOrder K] [IsStrictOrderedRing K]

/-- **`decompose_surface` in u, end to end, u knot vector clamped or not**: not rejected; one strip per
    non-empty u interval, in order; each strip has `pu+1` control points in u over a well-formed u knot
    vector, the same v data, and coincides with the original on `[breaks i, breaks (i+1)] × (v domain)`
    under the affine map of its own u domain; strip `i` is a Bézier strip in u (clamped at both ends) whenever
    (`i ≥ 1` or the input is clamped at its u start) and (`i` is not the last or the input is clamped at its
    u end). -/
theorem decompose_surface_u_allU (rat : Bool) (pu pv d : ℕ) (tol : K) (fuel : ℕ) (Uu Uv : List K) (su sv : ℕ)
    (P : List (List K)) (hP : NetOk d P) (hlenP : P.length = su * sv)
    (hVm : Monotone (fnOf Uv)) (hsv : pv + 1 ≤ sv) (hVn : knotNormalize Uv = Uv)
    (h0 : DecompWFU pu d Uu (colOf su sv P 0) tol)
    (hfuel : (spanStarts pu (fnOf Uu) su).length ≤ fuel + 1) :
    ∃ pieces : List (List K × ℕ × List (List K)),
      decomposeDirE 0 tol fuel (surfShape rat pu pv Uu Uv su sv P)
        = some (pieces.map (fun q => surfShape rat pu pv q.1 Uv q.2.1 sv q.2.2)) ∧
      decomposeDir 0 tol fuel (surfShape rat pu pv Uu Uv su sv P)
        = pieces.map (fun q => surfShape rat pu pv q.1 Uv q.2.1 sv q.2.2) ∧
      pieces.length = (spanStarts pu (fnOf Uu) su).length ∧
      (∀ i, i < pieces.length →
        (pieces.getD i ([], 0, [])).2.1 = pu + 1 ∧
        SplitKvWF pu (pu + 1) (pieces.getD i ([], 0, [])).1 ∧
        (pieces.getD i ([], 0, [])).2.2.length = (pu + 1) * sv ∧ NetOk d (pieces.getD i ([], 0, [])).2.2 ∧
        ∀ v, fnOf Uv pv ≤ v → ∀ t, 0 ≤ t → t ≤ 1 → ∀ j,
          (surfacePoint pu pv (fnOf (pieces.getD i ([], 0, [])).1) (fnOf Uv) (pu + 1) sv
              (pieces.getD i ([], 0, [])).2.2
              (fnOf (pieces.getD i ([], 0, [])).1 pu
                + t * (fnOf (pieces.getD i ([], 0, [])).1 (pu + 1) - fnOf (pieces.getD i ([], 0, [])).1 pu)) v).getD j 0
            = (surfacePoint pu pv (fnOf Uu) (fnOf Uv) su sv P
                ((breaks pu (fnOf Uu) su).getD i 0
                  + t * ((breaks pu (fnOf Uu) su).getD (i + 1) 0 - (breaks pu (fnOf Uu) su).getD i 0)) v).getD j 0) ∧
      (∀ i, i < pieces.length → (1 ≤ i ∨ fnOf Uu 0 = fnOf Uu pu) →
        (i + 1 < pieces.length ∨ fnOf Uu (su + pu) = fnOf Uu su) →
        ClampedKv pu (pu + 1) (pieces.getD i ([], 0, [])).1 ∧
        ((pu + 1 < su ∨ (fnOf Uu 0 = 0 ∧ fnOf Uu (su + pu) = 1)) → (pieces.getD i ([], 0, [])).1 = bezKv pu)) ∧
      ((pu + 1 < su ∨ (fnOf Uu 0 = 0 ∧ fnOf Uu (su + pu) = 1)) → ∀ i, i < pieces.length →
        fnOf (pieces.getD i ([], 0, [])).1 0 = 0 ∧ fnOf (pieces.getD i ([], 0, [])).1 (pu + 1 + pu) = 1) := by
  have hsv0 : 0 < sv := by omega
  obtain ⟨pieces, hdec, hok, hcols⟩ :=
    decompose_surface_u_colsU rat pu pv d tol Uv sv hVn hsv0 fuel Uu su P hP hlenP h0
  -- the curve theorem on every column
  have hcurve : ∀ y, y < sv → _ := fun y hy =>
    decompose_curve_unclamped_final rat pu d tol fuel Uu (colOf su sv P y) (h0.col hP hlenP y hy)
      (by rw [colOf_length]; exact hfuel)
  -- matching the two descriptions of the column pieces
  have hmatch : ∀ y, y < sv → ∀ (py : List (List K × List (List K))),
      pieces.map (fun q => curveShape rat pu q.1 (colOf q.2.1 sv q.2.2 y)) = py.map (fun q => curveShape rat pu q.1 q.2) →
      pieces.length = py.length ∧ ∀ i, i < pieces.length →
        py.getD i ([], []) = ((pieces.getD i ([], 0, [])).1,
          colOf (pieces.getD i ([], 0, [])).2.1 sv (pieces.getD i ([], 0, [])).2.2 y) := by
    intro y hy py hm
    have hl : pieces.length = py.length := by
      have := congrArg List.length hm
      simpa using this
    refine ⟨hl, ?_⟩
    intro i hi
    have h1 : (pieces.map (fun q => curveShape rat pu q.1 (colOf q.2.1 sv q.2.2 y))).getD i (curveShape rat pu [] [])
        = (py.map (fun q => curveShape rat pu q.1 q.2)).getD i (curveShape rat pu [] []) := by rw [hm]
    rw [getD_map_lt _ pieces i ([], 0, []) _ hi, getD_map_lt _ py i ([], []) _ (by omega)] at h1
    have := curveShape_inj h1
    exact Prod.ext this.1.symm this.2.symm
  obtain ⟨py0, hpy0, _, hlen0, _, hbez0, _, hnorm0⟩ := hcurve 0 hsv0
  rw [hcols 0 hsv0] at hpy0
  obtain ⟨hl0, hel0⟩ := hmatch 0 hsv0 py0 (Option.some.inj hpy0)
  rw [colOf_length] at hlen0 hbez0 hnorm0
  -- per column facts about piece `i`
  have hpc : ∀ i, i < pieces.length → ∀ y, y < sv →
      SegPiece pu d (curveFn pu Uu (colOf su sv P y)) ((breaks pu (fnOf Uu) su).getD i 0)
        ((breaks pu (fnOf Uu) su).getD (i + 1) 0)
        ((pieces.getD i ([], 0, [])).1, colOf (pieces.getD i ([], 0, [])).2.1 sv (pieces.getD i ([], 0, [])).2.2 y) := by
    intro i hi y hy
    obtain ⟨py, hpy, _, _, hS, _⟩ := hcurve y hy
    rw [hcols y hy] at hpy
    obtain ⟨hl, hel⟩ := hmatch y hy py (Option.some.inj hpy)
    have := hS i (by omega)
    rw [hel i hi, colOf_length] at this
    exact this
  refine ⟨pieces, hdec, decomposeDirE_some 0 tol fuel _ _ hdec, by rw [hl0, hlen0], ?_, ?_, ?_⟩
  rotate_left 2
  · intro hc i hi
    have := hnorm0 hc i (by omega)
    rw [hel0 i hi] at this
    exact this
  · intro i hi
    obtain ⟨c0, n0, _⟩ := hpc i hi 0 hsv0
    have hn : (pieces.getD i ([], 0, [])).2.1 = pu + 1 := by
      simp only [colOf_length] at n0; exact n0
    have hqmem : pieces.getD i ([], 0, []) ∈ pieces := by
      rw [List.getD_eq_getElem _ _ hi]; exact List.getElem_mem _
    obtain ⟨hqlen, hqnet⟩ := hok _ hqmem
    have kq := c0.toSplitKvWF h0.hp
    simp only [colOf_length] at kq
    rw [hn] at kq hqlen
    refine ⟨hn, kq, hqlen, hqnet, ?_⟩
    intro v hv t ht0 ht1 j
    have hpn : pu + 1 ≤ su := by have := h0.wf.pn; rw [colOf_length] at this; exact this
    have hbr := breaks_getD_range pu su (fnOf Uu) h0.wf.mono (by omega) 0
    have hcnt : (breaks pu (fnOf Uu) su).length = pieces.length + 1 := by
      rw [breaks_length, hl0, hlen0]
    have ra := hbr i (by omega)
    have rb := hbr (i + 1) (by omega)
    apply surface_cols_eval' pu pv d _ Uu Uv (pu + 1) su sv _ P _ _ v j hVm hsv hv hqnet hqlen hP hlenP
    · have hq0 : fnOf (pieces.getD i ([], 0, [])).1 pu ≤ fnOf (pieces.getD i ([], 0, [])).1 (pu + 1) := kq.mono (by omega)
      obtain ⟨b1, b2, _, _⟩ := findSpanLinear_spec pu (fnOf (pieces.getD i ([], 0, [])).1) (pu + 1)
        (fnOf (pieces.getD i ([], 0, [])).1 pu
          + t * (fnOf (pieces.getD i ([], 0, [])).1 (pu + 1) - fnOf (pieces.getD i ([], 0, [])).1 pu))
        (le_refl _) kq.mono (by nlinarith)
      exact ⟨b1, b2⟩
    · obtain ⟨b1, b2, _, _⟩ := findSpanLinear_spec pu (fnOf Uu) su
        ((breaks pu (fnOf Uu) su).getD i 0
          + t * ((breaks pu (fnOf Uu) su).getD (i + 1) 0 - (breaks pu (fnOf Uu) su).getD i 0))
        hpn h0.wf.mono (by nlinarith [ra.1, rb.1])
      exact ⟨b1, b2⟩
    · intro y hy
      obtain ⟨_, _, h3⟩ := hpc i hi y hy
      have := h3 t ht0 ht1 j
      rw [hn] at this
      exact this
  · intro i hi hs he
    have := hbez0 i (by omega) hs (by rw [← hl0]; exact he)
    rw [hel0 i hi] at this
    obtain ⟨hb, hkv⟩ := this
    have kq := hb.1.toKv
    simp only [colOf_length] at kq
    have hn : (pieces.getD i ([], 0, [])).2.1 = pu + 1 := by
      have := hb.2.1
      simp only [colOf_length] at this; exact this
    rw [hn] at kq
    exact ⟨kq, hkv⟩

end Geomdl
