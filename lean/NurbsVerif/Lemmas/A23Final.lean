import NurbsVerif.Lemmas.A23Pass
import NurbsVerif.Lemmas.SurfDerivBasis

/-! A2.3, part 5: the window sum is the sum over all basis functions of degree `p-k`, the final
    multiplication by `p!/(p-k)!`, and the theorem: the literal transcription of
    `helpers.basis_function_ders` returns the specification table `basisDers`. -/
namespace Geomdl
open Blossom Finset
variable {K : Type} [Field K] [LinearOrder K] [IsStrictOrderedRing K]

/-- the sum over the window `j1 … j2` (and the two special cases) is the full sum of A3.3/A3.4 for the
    unit control sequence: outside the window the differences vanish -/
theorem a23Dsum_eq (p κ r : ℕ) (U : ℕ → K) (u : K) (k : ℕ) (hr : r ≤ p) (hk : k ≤ p) (hp : p ≤ κ) :
    a23Dsum p κ r U u k
      = ∑ m ∈ range (p + 1 - k), (basisFuns (p - k) U κ u).getD m 0
          * dPlain U p k (eU (κ - p + r)) (κ - p + m + k) := by
  unfold a23Dsum
  have hL : ∀ j, (if (k ≤ r + j ∧ r + j ≤ p) then a23Term p κ r U u k j else 0)
      = if (k ≤ r + j ∧ r + j ≤ p) then (basisFuns (p - k) U κ u).getD (r + j - k) 0
          * dPlain U p k (eU (κ - p + r)) (κ - p + (r + j - k) + k) else 0 := by
    intro j
    by_cases h : k ≤ r + j ∧ r + j ≤ p
    · rw [if_pos h, if_pos h]
      unfold a23Term aCoef
      rw [mul_comm]
      congr 2
      omega
    · rw [if_neg h, if_neg h]
  have hR : ∀ m, (basisFuns (p - k) U κ u).getD m 0 * dPlain U p k (eU (κ - p + r)) (κ - p + m + k)
      = if (r ≤ m + k ∧ m ≤ r) then (basisFuns (p - k) U κ u).getD m 0
          * dPlain U p k (eU (κ - p + r)) (κ - p + m + k) else 0 := by
    intro m
    by_cases h : r ≤ m + k ∧ m ≤ r
    · rw [if_pos h]
    · rw [if_neg h]
      by_cases h1 : r ≤ m + k
      · rw [dPlain_unit_above U p (κ - p + r) k _ (by omega), mul_zero]
      · rw [dPlain_unit_below U p (κ - p + r) k _ (by omega), mul_zero]
  simp only [hL]
  rw [Finset.sum_congr rfl (fun m _ => hR m), ← Finset.sum_filter, ← Finset.sum_filter]
  apply Finset.sum_nbij' (fun j => r + j - k) (fun m => m + k - r)
  · intro j hj
    simp only [Finset.mem_filter, Finset.mem_range] at hj ⊢
    omega
  · intro m hm
    simp only [Finset.mem_filter, Finset.mem_range] at hm ⊢
    omega
  · intro j hj
    simp only [Finset.mem_filter, Finset.mem_range] at hj
    omega
  · intro m hm
    simp only [Finset.mem_filter, Finset.mem_range] at hm
    omega
  · intro j _
    rfl

/-- the final loop: row `k` (`1 ≤ k ≤ n`) is multiplied by `p (p-1) … (p-k+1)` -/
theorem a23Scale_spec (p : ℕ) (D : Arr2 K) : ∀ n,
    ((List.range' 1 n).foldl (a23ScaleStep p) (D, (Nat.cast p : K))).2 = (Nat.descFactorial p (n+1) : K) ∧
    ∀ x y, ((List.range' 1 n).foldl (a23ScaleStep p) (D, (Nat.cast p : K))).1.get x y
      = if (1 ≤ x ∧ x ≤ n ∧ y ≤ p) then D.get x y * (Nat.descFactorial p x : K) else D.get x y := by
  intro n
  induction n with
  | zero =>
    refine ⟨by simp, ?_⟩
    intro x y
    rw [if_neg (by omega)]
    rfl
  | succ n ih =>
    obtain ⟨h1, h2⟩ := ih
    rw [List.range'_concat, List.foldl_append]
    simp only [List.foldl_cons, List.foldl_nil, Nat.one_mul]
    refine ⟨?_, ?_⟩
    · simp only [a23ScaleStep]
      rw [h1, Nat.descFactorial_succ p (n+1), Nat.add_comm 1 n]
      push_cast
      ring
    · intro x y
      simp only [a23ScaleStep]
      by_cases hc : x = 1 + n ∧ y ≤ p
      · rw [if_pos hc, h2, if_neg (by omega), h1, if_pos ⟨by omega, by omega, hc.2⟩, hc.1, Nat.add_comm 1 n]
      · rw [if_neg hc, h2]
        by_cases hc2 : 1 ≤ x ∧ x ≤ n ∧ y ≤ p
        · rw [if_pos hc2, if_pos ⟨hc2.1, by omega, hc2.2.2⟩]
        · rw [if_neg hc2, if_neg (by omega)]

/-- two rectangular tables with equal entries are equal -/
theorem list2_ext (L L' : List (List K)) (n m : ℕ) (hL : L.length = n) (hL' : L'.length = n)
    (hrow : ∀ k, k < n → (L.getD k []).length = m) (hrow' : ∀ k, k < n → (L'.getD k []).length = m)
    (hent : ∀ k r, k < n → r < m → (L.getD k []).getD r 0 = (L'.getD k []).getD r 0) : L = L' := by
  apply List.ext_getElem (by omega)
  intro k h1 h2
  have e1 : L.getD k [] = L[k] := by simp [List.getD_eq_getElem?_getD, h1]
  have e2 : L'.getD k [] = L'[k] := by simp [List.getD_eq_getElem?_getD, h2]
  have l1 := hrow k (by omega)
  have l2 := hrow' k (by omega)
  rw [e1] at l1
  rw [e2] at l2
  apply List.ext_getElem (by omega)
  intro r g1 g2
  have := hent k r (by omega) (by omega)
  rw [e1, e2] at this
  simpa [List.getD_eq_getElem?_getD, g1, g2] using this

/-- entries of the transcription's output -/
theorem basisFunsDersA23_entry (p : ℕ) (U : ℕ → K) (κ : ℕ) (u : K) (d k r : ℕ) (hk : k ≤ min p d) (hr : r ≤ p) :
    ((basisFunsDersA23 p U κ u d).getD k []).getD r 0 = (a23Table p U κ u d).get k r := by
  unfold basisFunsDersA23
  simp only [List.getD_eq_getElem?_getD, List.getElem?_map]
  rw [List.getElem?_range (by omega)]
  simp only [Option.map_some, Option.getD_some, List.getElem?_map]
  rw [List.getElem?_range (by omega)]
  simp

/-- **A2.3 as coded returns the derivative table**: the literal transcription of
    `helpers.basis_function_ders(p, U, κ, u, d)` (`d ≤ p ≤ κ`) equals the specification-level table
    `basisDers` (the derivatives of the unit-control-point curves by A3.3/A3.4) – for every knot sequence
    and parameter (a zero denominator gives the same `x / 0 = 0` on both sides; under the span guard no
    denominator met is zero). -/
theorem basisFunsDersA23_eq_basisDers (p : ℕ) (U : ℕ → K) (κ : ℕ) (u : K) (d : ℕ) (hd : d ≤ p) (hp : p ≤ κ) :
    basisFunsDersA23 p U κ u d = basisDers p U κ u d := by
  have hmin : min p d = d := by omega
  obtain ⟨hup, hlo⟩ := nduTable_spec U κ u p
  apply list2_ext _ _ (d+1) (p+1)
  · simp [basisFunsDersA23, hmin]
  · exact basisDers_length p U κ u d
  · intro k hk
    unfold basisFunsDersA23
    simp only [List.getD_eq_getElem?_getD, List.getElem?_map]
    rw [List.getElem?_range (by omega)]
    simp
  · intro k hk
    exact basisDers_row_length p U κ u d k (by omega)
  · intro k r hk hr
    rw [basisFunsDersA23_entry p U κ u d k r (by omega) (by omega)]
    unfold a23Table
    simp only []
    rw [(a23Scale_spec p _ d).2 k r,
      a23_rloop_ders p κ U u (nduTable p U κ u) hp hup hlo d hd _ (p+1) (le_refl _) k r]
    simp only []
    by_cases hk0 : k = 0
    · subst hk0
      rw [if_neg (by omega), if_neg (by omega), if_pos rfl, hup p r (le_refl _) (by omega),
        basisDers_zero_row p U κ u d r hp (by omega)]
    · rw [if_pos ⟨by omega, by omega, by omega⟩, if_pos ⟨by omega, by omega, by omega⟩,
        a23Dsum_eq p κ r U u k (by omega) (by omega) hp,
        basisDers_entry_sum p U κ u d k r hp (by omega) (by omega) (by omega), Finset.sum_mul]
      apply Finset.sum_congr rfl
      intro m _
      rw [dIter_eq_dPlain]
      ring

open Polynomial in
/-- hence the entries A2.3 returns are the derivatives of the basis polynomials of the span -/
theorem basisFunsDersA23_true (p : ℕ) (U : ℕ → K) (κ : ℕ) (u : K) (d k r : ℕ)
    (hd : d ≤ p) (hp : p ≤ κ) (hm : Monotone U) (hspan : U κ < U (κ+1)) (hk : k ≤ d) (hr : r ≤ p) :
    ((basisFunsDersA23 p U κ u d).getD k []).getD r 0 = eval u (derivative^[k] (basisSpanPoly p U κ r)) := by
  rw [basisFunsDersA23_eq_basisDers p U κ u d hd hp]
  exact basisDers_eq_derivative p U κ u d k r hp hm hspan hk hr

open Polynomial in
/-- Algorithm A3.2 (`CK[k] = Σ_r ders[k][r] · P[κ-p+r]` with the table of A2.3 as coded) gives the `k`-th
    derivative of the span polynomial -/
theorem a32_sum_true (p : ℕ) (U : ℕ → K) (P : List (List K)) (κ : ℕ) (u : K) (d k j : ℕ)
    (hd : d ≤ p) (hp : p ≤ κ) (hm : Monotone U) (hspan : U κ < U (κ+1)) (hk : k ≤ d) :
    ∑ r ∈ range (p+1), ((basisFunsDersA23 p U κ u d).getD k []).getD r 0 * (ptsGet P (κ - p + r)).getD j 0
      = eval u (derivative^[k] (spanPoly p U P κ j)) := by
  rw [spanPoly_eq_sum_basis p U P κ j hp, iterate_derivative_sum, eval_finsetSum]
  apply Finset.sum_congr rfl
  intro r hr
  rw [Finset.mem_range] at hr
  rw [iterate_derivative_C_mul, eval_mul, eval_C,
    basisFunsDersA23_true p U κ u d k r hd hp hm hspan hk (by omega), mul_comm]

end Geomdl
