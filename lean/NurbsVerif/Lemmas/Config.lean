import NurbsVerif.Model.LRU
import NurbsVerif.Lemmas.Locality
import NurbsVerif.Lemmas.Span
import NurbsVerif.Lemmas.EvalSpec

/-! Configuration independence: knot range (affine re-parametrisation), memoisation. -/
namespace Geomdl
open Blossom
variable {K : Type} [Field K] [LinearOrder K] [IsStrictOrderedRing K]

/-- linear span search is invariant under an increasing affine map of knots and parameter -/
theorem findSpanLinearAux_affine (U : ℕ → K) (n : ℕ) (u a b : K) (ha : 0 < a) : ∀ (fuel s : ℕ),
    findSpanLinearAux (fun i => a * U i + b) n (a * u + b) fuel s = findSpanLinearAux U n u fuel s := by
  intro fuel
  induction fuel with
  | zero => intro s; rfl
  | succ fuel ih =>
    intro s
    simp only [findSpanLinearAux]
    have : (a * U s + b ≤ a * u + b) ↔ (U s ≤ u) := by
      constructor
      · intro h
        have : a * U s ≤ a * u := by linarith
        exact le_of_mul_le_mul_left this ha
      · intro h
        have := mul_le_mul_of_nonneg_left h (le_of_lt ha)
        linarith
    simp only [this, ih]

theorem findSpanLinear_affine (p : ℕ) (U : ℕ → K) (n : ℕ) (u a b : K) (ha : 0 < a) :
    findSpanLinear p (fun i => a * U i + b) n (a * u + b) = findSpanLinear p U n u := by
  unfold findSpanLinear
  rw [findSpanLinearAux_affine U n u a b ha]

/-- evaluation with knots `a•U + b` at `a*u + b` equals evaluation with `U` at `u` -/
theorem curvePoint_affine_knots (p : ℕ) (U : ℕ → K) (P : List (List K)) (u a b : K) (ha : 0 < a) :
    curvePoint p (fun i => a * U i + b) P (a * u + b) = curvePoint p U P u := by
  unfold curvePoint curvePointAt
  rw [findSpanLinear_affine p U P.length u a b ha, basisFuns_affine U _ u a b (ne_of_gt ha) p]

end Geomdl

namespace Geomdl
variable {α β : Type} [DecidableEq α]

/-- every stored value is the function value of its key -/
def LRU.Inv (f : α → β) (c : LRU α β) : Prop := ∀ e ∈ c.entries, e.2 = f e.1

theorem LRU.call_spec (f : α → β) (c : LRU α β) (x : α) (h : c.Inv f) :
    (c.call f x).1 = f x ∧ (c.call f x).2.Inv f := by
  unfold LRU.call
  cases hfind : c.entries.find? (fun e => decide (e.1 = x)) with
  | none =>
    simp only []
    refine ⟨by trivial, ?_⟩
    intro e he
    have he' := List.mem_of_mem_take he
    rcases List.mem_cons.mp he' with h1 | h1
    · rw [h1]
    · exact h e h1
  | some e0 =>
    simp only []
    have hmem : e0 ∈ c.entries := List.mem_of_find?_eq_some hfind
    have hkey : e0.1 = x := by
      have := List.find?_some hfind
      simpa using this
    have hval : e0.2 = f x := by rw [h e0 hmem, hkey]
    refine ⟨hval, ?_⟩
    intro e he
    rcases List.mem_cons.mp he with h1 | h1
    · rw [h1]; exact hval
    · exact h e (List.mem_of_mem_filter h1)

/-- **memoisation is transparent for every call history and every capacity** -/
theorem LRU.run_eq_map (f : α → β) : ∀ (xs : List α) (c : LRU α β), c.Inv f → LRU.run f c xs = xs.map f := by
  intro xs
  induction xs with
  | nil => intro c _; rfl
  | cons x xs ih =>
    intro c h
    obtain ⟨h1, h2⟩ := LRU.call_spec f c x h
    simp only [LRU.run, List.map_cons]
    rw [h1, ih _ h2]

theorem LRU.empty_inv (f : α → β) (cap : ℕ) : (LRU.mk cap ([] : List (α × β))).Inv f := by
  intro e he; simp at he

end Geomdl
