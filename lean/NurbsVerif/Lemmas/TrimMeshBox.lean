import NurbsVerif.Lemmas.TrimMeshWhole

/-!
# Trimmed tessellation (C15): "within one sampling cell", geometric form

A grid cell `[u0, u1] × [v0, v1]` that no trim polyline enters - no point of any trim edge lies in the cell enlarged
by `tol²` on every side - is treated as a whole: omitted if it lies in a trim, emitted as the two untrimmed triangles
otherwise.  (All sample points of the cell lie in the enlarged cell, and `wn_poly` is constant on a box the polygon
stays out of.)
-/
set_option linter.unusedSectionVars false
namespace Geomdl.Trim
open Geomdl Geomdl.Mesh
variable {K : Type} [Field K] [LinearOrder K] [IsStrictOrderedRing K]

/-- no point of any edge of any trim lies in the box -/
def TrimsAvoidBox (trims : List (Trim K)) (lo hi : K × K) : Prop :=
  ∀ tr ∈ trims, ∀ e ∈ polySegments tr.pts, SegmentAvoidsBox lo hi e.1 e.2

theorem offsetPoints_inBox (tols : K) (ht : 0 ≤ tols) (lo hi uv : K × K)
    (h : lo.1 + tols ≤ uv.1 ∧ uv.1 + tols ≤ hi.1 ∧ lo.2 + tols ≤ uv.2 ∧ uv.2 + tols ≤ hi.2) :
    ∀ s ∈ offsetPoints tols uv, InBox lo hi s := by
  intro s hs
  obtain ⟨h1, h2, h3, h4⟩ := h
  simp only [offsetPoints, List.mem_cons, List.not_mem_nil, or_false] at hs
  rcases hs with rfl | rfl | rfl | rfl <;>
    (simp only [InBox, cornerPoint, vtolOf, Bool.false_eq_true, if_false]
     refine ⟨?_, ?_, ?_, ?_⟩ <;> linarith)

theorem triCenter_inBox (lo hi a b c : K × K) (ha : InBox lo hi a) (hb : InBox lo hi b) (hc : InBox lo hi c) :
    InBox lo hi (triCenterUV a b c) := by
  obtain ⟨a1, a2, a3, a4⟩ := ha
  obtain ⟨b1, b2, b3, b4⟩ := hb
  obtain ⟨c1, c2, c3, c4⟩ := hc
  have h3 : (0 : K) < ((3 : ℕ) : K) := by norm_num
  simp only [InBox, triCenterUV]
  refine ⟨?_, ?_, ?_, ?_⟩
  · rw [le_div_iff₀ h3]; push_cast; linarith
  · rw [div_le_iff₀ h3]; push_cast; linarith
  · rw [le_div_iff₀ h3]; push_cast; linarith
  · rw [div_le_iff₀ h3]; push_cast; linarith

/-- all 18 sample points of the cell `[u0,u1] × [v0,v1]` lie in the cell enlarged by `tols` -/
theorem cellSamples_inBox (tols : K) (ht : 0 ≤ tols) (u0 u1 v0 v1 : K) (hu : u0 ≤ u1) (hv : v0 ≤ v1) :
    ∀ s ∈ cellSamples tols (u0, v0) (u1, v0) (u1, v1) (u0, v1), InBox (u0 - tols, v0 - tols) (u1 + tols, v1 + tols) s := by
  intro s hs
  have inb : ∀ (x y : K), u0 ≤ x → x ≤ u1 → v0 ≤ y → y ≤ v1 → InBox (u0 - tols, v0 - tols) (u1 + tols, v1 + tols) (x, y) := by
    intro x y h1 h2 h3 h4
    exact ⟨by simp only []; linarith, by simp only []; linarith, by simp only []; linarith, by simp only []; linarith⟩
  have off : ∀ (x y : K), u0 ≤ x → x ≤ u1 → v0 ≤ y → y ≤ v1 →
      ∀ s ∈ offsetPoints tols (x, y), InBox (u0 - tols, v0 - tols) (u1 + tols, v1 + tols) s := by
    intro x y h1 h2 h3 h4
    apply offsetPoints_inBox tols ht
    exact ⟨by simp only []; linarith, by simp only []; linarith, by simp only []; linarith, by simp only []; linarith⟩
  simp only [cellSamples, List.mem_append, List.mem_cons, List.not_mem_nil, or_false] at hs
  rcases hs with (((h | h) | h) | h) | h
  · exact off u0 v0 (le_refl _) hu (le_refl _) hv s h
  · exact off u1 v0 hu (le_refl _) (le_refl _) hv s h
  · exact off u1 v1 hu (le_refl _) hv (le_refl _) s h
  · exact off u0 v1 (le_refl _) hu hv (le_refl _) s h
  · rcases h with rfl | rfl
    · exact triCenter_inBox _ _ _ _ _ (inb u0 v0 (le_refl _) hu (le_refl _) hv) (inb u1 v0 hu (le_refl _) (le_refl _) hv)
        (inb u1 v1 hu (le_refl _) hv (le_refl _))
    · exact triCenter_inBox _ _ _ _ _ (inb u0 v0 (le_refl _) hu (le_refl _) hv) (inb u1 v1 hu (le_refl _) hv (le_refl _))
        (inb u0 v1 (le_refl _) hu hv (le_refl _))

/-- `loopCell_whole` with the hypothesis in its bare form: all sample points agree with `x` about lying in a trim -/
theorem loopCell_whole' (tt : TrimTol K) (sq : K → K) (trims : List (Trim K)) (hnr : ∀ tr ∈ trims, tr.reversed = false)
    (uvs : List (K × K)) (nv : ℕ) (st : TrimLoop K) (hst : FlagsOK tt.tols trims uvs st.flags) (i j : ℕ) (x : K × K)
    (same : ∀ s ∈ cellSamples tt.tols (uvs.getD (j + i * nv) (0, 0)) (uvs.getD (j + (i + 1) * nv) (0, 0))
        (uvs.getD (j + 1 + (i + 1) * nv) (0, 0)) (uvs.getD (j + 1 + i * nv) (0, 0)),
      (InSomeTrim trims s ↔ InSomeTrim trims x)) :
    (InSomeTrim trims x →
      (loopCell tt sq trims uvs nv st (i, j)).verts = [] ∧ (loopCell tt sq trims uvs nv st (i, j)).tris = []) ∧
    (¬ InSomeTrim trims x →
      (loopCell tt sq trims uvs nv st (i, j)).tris.map (·.2) = polygonTriangulate (quadCell nv i j)) := by
  constructor
  · intro hin
    apply loopCell_omitted tt sq trims hnr uvs nv st i j
    · exact (same _ (by simp [cellSamples, offsetPoints])).mpr hin
    · exact (same _ (by simp [cellSamples, offsetPoints])).mpr hin
    · exact (same _ (by simp [cellSamples, offsetPoints])).mpr hin
    · exact (same _ (by simp [cellSamples, offsetPoints])).mpr hin
  · intro hout
    have near : ∀ c, (∀ s ∈ offsetPoints tt.tols c, s ∈ cellSamples tt.tols (uvs.getD (j + i * nv) (0, 0))
        (uvs.getD (j + (i + 1) * nv) (0, 0)) (uvs.getD (j + 1 + (i + 1) * nv) (0, 0)) (uvs.getD (j + 1 + i * nv) (0, 0))) →
        ¬ NearInside tt.tols trims c := by
      intro c hc hn
      obtain ⟨s, hs, hin⟩ := (nearInside_iff tt.tols trims c).mp hn
      exact hout ((same s (hc s hs)).mp hin)
    have r := loopCell_untrimmed tt sq trims hnr uvs nv st hst i j
      (near _ (fun s hs => by simp only [cellSamples, List.mem_append]; tauto))
      (near _ (fun s hs => by simp only [cellSamples, List.mem_append]; tauto))
      (near _ (fun s hs => by simp only [cellSamples, List.mem_append]; tauto))
      (near _ (fun s hs => by simp only [cellSamples, List.mem_append]; tauto))
      (fun hin => hout ((same _ (by simp [cellSamples])).mp hin))
      (fun hin => hout ((same _ (by simp [cellSamples])).mp hin))
    exact r.2.2

/-- **A cell no trim polyline enters is treated as a whole** (loop level): the corner parameters of cell `(i, j)` form
    the rectangle `[u0,u1] × [v0,v1]`, no point of any trim edge lies in that rectangle enlarged by `tol²`; then for any
    point `x` of the enlarged rectangle: `x` in a trim ⇒ the cell is omitted, `x` in no trim ⇒ the cell is emitted as
    the two untrimmed triangles. -/
theorem trimCells_cell_untouched (tt : TrimTol K) (ht : 0 ≤ tt.tols) (sq : K → K) (trims : List (Trim K))
    (hnr : ∀ tr ∈ trims, tr.reversed = false) (hcl : ∀ tr ∈ trims, tr.pts.head? = tr.pts.getLast?)
    (uvs : List (K × K)) (nu nv i j : ℕ) (hi : i < nu - 1) (hj : j < nv - 1) (u0 u1 v0 v1 : K) (hu : u0 ≤ u1) (hv : v0 ≤ v1)
    (h1 : uvs.getD (j + i * nv) (0, 0) = (u0, v0)) (h2 : uvs.getD (j + (i + 1) * nv) (0, 0) = (u1, v0))
    (h3 : uvs.getD (j + 1 + (i + 1) * nv) (0, 0) = (u1, v1)) (h4 : uvs.getD (j + 1 + i * nv) (0, 0) = (u0, v1))
    (hav : TrimsAvoidBox trims (u0 - tt.tols, v0 - tt.tols) (u1 + tt.tols, v1 + tt.tols))
    (x : K × K) (hx : InBox (u0 - tt.tols, v0 - tt.tols) (u1 + tt.tols, v1 + tt.tols) x) :
    ∃ r, (trimCells tt sq trims uvs nu nv).trace[j + i * (nv - 1)]? = some r ∧
      (InSomeTrim trims x → r.verts = [] ∧ r.tris = []) ∧
      (¬ InSomeTrim trims x → r.tris.map (·.2) = polygonTriangulate (quadCell nv i j)) := by
  refine ⟨_, trimCells_trace tt sq trims uvs nu nv i j hi hj, ?_⟩
  apply loopCell_whole' tt sq trims hnr uvs nv _
    (flagsOK_stateAt tt sq trims hnr uvs nv (meshGrid2 (nu - 1) (nv - 1) fun i j => (i, j)) (j + i * (nv - 1))) i j x
  intro s hs
  rw [h1, h2, h3, h4] at hs
  have hsb := cellSamples_inBox tt.tols ht u0 u1 v0 v1 hu hv s hs
  have e : ∀ tr ∈ trims, wnPoly s tr.pts = wnPoly x tr.pts := fun tr htr =>
    wnPoly_eq_of_avoids_box _ _ s x hsb hx tr.pts (hcl tr htr) (hav tr htr)
  constructor
  · rintro ⟨tr, htr, hh⟩; exact ⟨tr, htr, by rw [← e tr htr]; exact hh⟩
  · rintro ⟨tr, htr, hh⟩; exact ⟨tr, htr, by rw [e tr htr]; exact hh⟩

/-- the parameters of the grid vertices of `make_triangle_mesh` -/
theorem meshUVs_getD (su sv s i j : ℕ) (hi : i < gridCount su s) (hj : j < gridCount sv s) :
    ((meshVertices (K := K) su sv s).map (·.1)).getD (j + i * gridCount sv s) (0, 0)
      = ((i : K) * meshJump su s, (j : K) * meshJump sv s) := by
  rw [List.getD_eq_getElem?_getD, List.getElem?_map]
  have := meshVertices_getElem? (K := K) su sv s i j hi hj
  unfold gridVid at this
  rw [this]
  simp [accParam_eq]

/-- the same for the grid of `makeTrimMesh` itself: cell `(i, j)` is `[i·ju, (i+1)·ju] × [j·jv, (j+1)·jv]` -/
theorem makeTrimMesh_cell_untouched (tt : TrimTol K) (ht : 0 ≤ tt.tols) (sq : K → K) (trims : List (Trim K))
    (hnr : ∀ tr ∈ trims, tr.reversed = false) (hcl : ∀ tr ∈ trims, tr.pts.head? = tr.pts.getLast?)
    (su sv s : ℕ) (hs : 0 < s) (hsu : 2 ≤ su) (hsv : 2 ≤ sv) (i j : ℕ) (hi : i < gridCount su s - 1) (hj : j < gridCount sv s - 1)
    (hav : TrimsAvoidBox trims ((i : K) * meshJump su s - tt.tols, (j : K) * meshJump sv s - tt.tols)
      (((i + 1 : ℕ) : K) * meshJump su s + tt.tols, ((j + 1 : ℕ) : K) * meshJump sv s + tt.tols))
    (x : K × K) (hx : InBox ((i : K) * meshJump su s - tt.tols, (j : K) * meshJump sv s - tt.tols)
      (((i + 1 : ℕ) : K) * meshJump su s + tt.tols, ((j + 1 : ℕ) : K) * meshJump sv s + tt.tols) x) :
    ∃ r, (trimCells tt sq trims ((meshVertices (K := K) su sv s).map (·.1)) (gridCount su s) (gridCount sv s)).trace[
        j + i * (gridCount sv s - 1)]? = some r ∧
      (InSomeTrim trims x → r.verts = [] ∧ r.tris = []) ∧
      (¬ InSomeTrim trims x → r.tris.map (·.2) = polygonTriangulate (quadCell (gridCount sv s) i j)) := by
  have ju := meshJump_pos (K := K) hsu hs
  have jv := meshJump_pos (K := K) hsv hs
  have e1 : j + 1 + (i + 1) * gridCount sv s = (j + 1) + (i + 1) * gridCount sv s := rfl
  have e2 : j + 1 + i * gridCount sv s = (j + 1) + i * gridCount sv s := rfl
  apply trimCells_cell_untouched tt ht sq trims hnr hcl _ _ _ i j hi hj _ _ _ _ ?_ ?_
    (meshUVs_getD su sv s i j (by omega) (by omega)) (meshUVs_getD su sv s (i + 1) j (by omega) (by omega))
    (by rw [e1]; exact meshUVs_getD su sv s (i + 1) (j + 1) (by omega) (by omega))
    (by rw [e2]; exact meshUVs_getD su sv s i (j + 1) (by omega) (by omega)) hav x hx
  · push_cast; nlinarith
  · push_cast; nlinarith

end Geomdl.Trim
