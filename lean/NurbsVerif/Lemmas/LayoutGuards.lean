/-
  C13, the guards of `sweep_vector` made explicit (audit 4, H2 / H4): the vector must have at least as many entries as
  the control points have SPATIAL coordinates – `point_translate` zips, a shorter vector shortens the translated points
  and the next `set_ctrlpts` raises.  Under that guard the point maps of the sweep keep the number of coordinates.
-/
import NurbsVerif.Lemmas.ConstructRatSweep

namespace Geomdl
open Blossom
set_option linter.unusedSectionVars false
variable {K : Type} [Field K] [LinearOrder K] [IsStrictOrderedRing K]

/-- `point_translate` keeps the number of coordinates when the vector is long enough (it zips: longer vectors are cut) -/
theorem pointTranslate_length_of_le (vec p : List K) (d : ℕ) (hp : p.length = d) (hv : d ≤ vec.length) :
    (pointTranslate vec p).length = d := by
  unfold pointTranslate
  rw [List.length_zipWith, hp]
  omega

/-- … and without the guard it does not: the translated point has `min` of the two lengths -/
theorem pointTranslate_length_min (vec p : List K) :
    (pointTranslate vec p).length = min p.length vec.length := by
  unfold pointTranslate
  rw [List.length_zipWith]

/-- the point map of a rational sweep keeps the number of homogeneous coordinates when the vector has at least as many
    entries as there are Cartesian coordinates -/
theorem pointTranslateW_length_of_le (vec p : List K) (d : ℕ) (hp : p.length = d + 1) (hv : d ≤ vec.length) :
    (pointTranslateW vec p).length = d + 1 := by
  unfold pointTranslateW
  simp only [List.length_append, List.length_zipWith, List.length_dropLast, hp, List.length_cons, List.length_nil]
  omega

/-- the point map the driver ops `sweepc` / `sweeps` use (`rat`: homogeneous points, `d` counts the weight) keeps the
    number of coordinates under the guard of the ops -/
theorem sweepTr_length (vec : List K) (rat : Bool) (d : ℕ) (P : List (List K)) (hd : ∀ p ∈ P, p.length = d)
    (h1 : (if rat then 1 else 0) ≤ d) (hvec : (if rat then d - 1 else d) ≤ vec.length) :
    ∀ p ∈ P, ((if rat then pointTranslateW vec else pointTranslate vec) p).length = d := by
  intro p hp
  cases rat with
  | false =>
    simp only [Bool.false_eq_true, if_false] at hvec ⊢
    exact pointTranslate_length_of_le vec p d (hd p hp) hvec
  | true =>
    simp only [if_true] at hvec h1 ⊢
    have e : d = (d - 1) + 1 := by omega
    rw [e]
    exact pointTranslateW_length_of_le vec p (d - 1) (by rw [hd p hp]; exact e) hvec

/-- a swept net (input points followed by the mapped points) has points of one dimension when the point map keeps it -/
theorem sweep_pts_length {β : Type} (tr : List β → List β) (P : List (List β)) (d : ℕ) (hd : ∀ p ∈ P, p.length = d)
    (htr : ∀ p ∈ P, (tr p).length = d) : ∀ p ∈ P ++ P.map tr, p.length = d := by
  intro p hp
  rcases List.mem_append.mp hp with h | h
  · exact hd p h
  · obtain ⟨q, hq, rfl⟩ := List.mem_map.mp h
    exact htr q hq

end Geomdl
