import NurbsVerif.Model.TrimMesh
import Mathlib.Algebra.Order.Field.Basic
import Mathlib.Tactic.Ring
import Mathlib.Tactic.Linarith

/-!
# Trimmed tessellation, one cell (C15): lemmas about `Geomdl.trimCell`

Flags (`trimFlagStep` and the two classification loops), the selection of the minimal-parameter intersection,
snapping, the polygon assembly loop, the fan, and the shape of the result of one call of
`surface_trim_tessellate`.
-/
set_option linter.unusedSectionVars false
namespace Geomdl.Trim
open Geomdl
variable {K : Type} [Field K] [LinearOrder K] [IsStrictOrderedRing K]

/-! ### flags -/

/-- the two classification loops have the same body: a fold of `trimFlagStep` over the trims with a
    per-trim hit test -/
def flagFold (hit : Trim K → Bool) (trims : List (Trim K)) (f : TrimFlags) : TrimFlags :=
  trims.foldl (fun f tr => trimFlagStep f (hit tr) tr.reversed) f

theorem classifyCorner_eq (tols : K) (trims : List (Trim K)) (idx : ℕ) (uv : K × K) (f : TrimFlags) :
    classifyCorner tols trims idx uv f
      = flagFold (fun tr => wnPoly (cornerPoint tols idx uv tr.reversed) tr.pts) trims f := rfl

theorem classifyTri_eq (trims : List (Trim K)) (ctr : K × K) :
    classifyTri trims ctr = flagFold (fun tr => wnPoly ctr tr.pts) trims {} := rfl

theorem trimFlagStep_sticky (f : TrimFlags) (hit rev : Bool) (h1 : f.trim = true) (h2 : f.inside = true) :
    (trimFlagStep f hit rev).trim = true ∧ (trimFlagStep f hit rev).inside = true := by
  rcases f with ⟨i, t, n⟩
  simp only at h1 h2; subst h1; subst h2
  cases n <;> cases hit <;> cases rev <;> simp [trimFlagStep]

theorem trimFlagStep_hit (f : TrimFlags) :
    (trimFlagStep f true false).trim = true ∧ (trimFlagStep f true false).inside = true := by
  simp [trimFlagStep]

theorem flagFold_sticky (hit : Trim K → Bool) : ∀ (trims : List (Trim K)) (f : TrimFlags),
    f.trim = true → f.inside = true → (flagFold hit trims f).trim = true ∧ (flagFold hit trims f).inside = true
  | [], _, h1, h2 => ⟨h1, h2⟩
  | tr :: rest, f, h1, h2 => by
    have h := trimFlagStep_sticky f (hit tr) tr.reversed h1 h2
    exact flagFold_sticky hit rest _ h.1 h.2

/-- once a NON-reversed trim contains the tested point, the object ends up `inside` (and flagged `trim`),
    whatever the other trims say -/
theorem flagFold_hit (hit : Trim K → Bool) : ∀ (trims : List (Trim K)) (f : TrimFlags),
    (∃ tr ∈ trims, tr.reversed = false ∧ hit tr = true) →
    (flagFold hit trims f).trim = true ∧ (flagFold hit trims f).inside = true
  | [], _, h => by obtain ⟨tr, hm, _⟩ := h; cases hm
  | tr :: rest, f, h => by
    obtain ⟨tr', hm, hr, hh⟩ := h
    rcases List.mem_cons.mp hm with e | hm'
    · subst e
      have h := trimFlagStep_hit f
      have : flagFold hit (tr' :: rest) f = flagFold hit rest (trimFlagStep f true false) := by
        simp [flagFold, hr, hh]
      rw [this]
      exact flagFold_sticky hit rest _ h.1 h.2
    · exact flagFold_hit hit rest _ ⟨tr', hm', hr, hh⟩

/-- with only non-reversed trims the `inside` flag is the old flag OR "some trim contains the point";
    `no_trim` is never touched -/
theorem flagFold_nonreversed (hit : Trim K → Bool) : ∀ (trims : List (Trim K)) (f : TrimFlags),
    (∀ tr ∈ trims, tr.reversed = false) →
    (flagFold hit trims f).inside = (f.inside || trims.any hit) ∧ (flagFold hit trims f).noTrim = f.noTrim
  | [], f, _ => by simp [flagFold]
  | tr :: rest, f, h => by
    have hr : tr.reversed = false := h tr (by simp)
    have ih := flagFold_nonreversed hit rest (trimFlagStep f (hit tr) tr.reversed)
      (fun t ht => h t (List.mem_cons_of_mem _ ht))
    have e : flagFold hit (tr :: rest) f = flagFold hit rest (trimFlagStep f (hit tr) tr.reversed) := rfl
    rw [e, ih.1, ih.2, hr]
    cases hh : hit tr <;> simp [trimFlagStep, hh]

theorem flagFold_nil (hit : Trim K → Bool) (f : TrimFlags) : flagFold hit [] f = f := rfl

/-! ### `selMin`, snapping -/

private def selStep : K × (K × K) → ℕ × K × (K × K) → K × (K × K) :=
  fun acc is => if is.2.1 < acc.1 then (is.2.1, is.2.2) else acc

private theorem selMin_def (hi : K) (l : List (ℕ × K × (K × K))) :
    selMin hi l = l.foldl selStep (hi, ((0 : K), (0 : K))) := rfl

private theorem foldl_selStep_cases : ∀ (l : List (ℕ × K × (K × K))) (acc : K × (K × K)),
    l.foldl selStep acc = acc ∨ ∃ is ∈ l, l.foldl selStep acc = (is.2.1, is.2.2)
  | [], acc => Or.inl rfl
  | x :: rest, acc => by
    rw [List.foldl_cons]
    rcases foldl_selStep_cases rest (selStep acc x) with h | ⟨is, hm, h⟩
    · rw [h]
      unfold selStep
      by_cases hx : x.2.1 < acc.1
      · right; exact ⟨x, by simp, by simp [hx]⟩
      · left; simp [hx]
    · right; exact ⟨is, List.mem_cons_of_mem _ hm, h⟩

private theorem foldl_selStep_le : ∀ (l : List (ℕ × K × (K × K))) (acc : K × (K × K)),
    (l.foldl selStep acc).1 ≤ acc.1 ∧ ∀ is ∈ l, (l.foldl selStep acc).1 ≤ is.2.1
  | [], acc => ⟨le_refl _, by simp⟩
  | x :: rest, acc => by
    rw [List.foldl_cons]
    obtain ⟨h1, h2⟩ := foldl_selStep_le rest (selStep acc x)
    have hs : (selStep acc x).1 ≤ acc.1 ∧ (selStep acc x).1 ≤ x.2.1 := by
      unfold selStep
      by_cases hx : x.2.1 < acc.1
      · simp [hx, le_of_lt hx]
      · simp [hx, not_lt.mp hx]
    refine ⟨le_trans h1 hs.1, ?_⟩
    intro is hm
    rcases List.mem_cons.mp hm with e | hm'
    · subst e; exact le_trans h1 hs.2
    · exact h2 is hm'

/-- `uv_min = []` is never read: with at least one intersection, all of parameter `< 1.0 + tol`, the loop picks the
    parameter and point of one of them -/
theorem selMin_mem (hi : K) (l : List (ℕ × K × (K × K))) (hne : l ≠ []) (hlt : ∀ is ∈ l, is.2.1 < hi) :
    ∃ is ∈ l, selMin hi l = (is.2.1, is.2.2) := by
  rw [selMin_def]
  cases l with
  | nil => exact absurd rfl hne
  | cons x rest =>
    rw [List.foldl_cons]
    have hx : x.2.1 < hi := hlt x (by simp)
    have e : selStep (hi, ((0 : K), (0 : K))) x = (x.2.1, x.2.2) := by simp [selStep, hx]
    rw [e]
    rcases foldl_selStep_cases rest (x.2.1, x.2.2) with h | ⟨is, hm, h⟩
    · exact ⟨x, by simp, h⟩
    · exact ⟨is, List.mem_cons_of_mem _ hm, h⟩

/-- the selected parameter is minimal among the intersections on the edge -/
theorem selMin_le (hi : K) (l : List (ℕ × K × (K × K))) : ∀ is ∈ l, (selMin hi l).1 ≤ is.2.1 := by
  rw [selMin_def]; exact (foldl_selStep_le l _).2

/-- snapping moves a coordinate by at most `tol`, and only onto 0 or 1 -/
theorem snap1_cases (tol x : K) : snap1 tol x = x ∨ (snap1 tol x = 0 ∧ |x| ≤ tol) ∨ (snap1 tol x = 1 ∧ |x - 1| ≤ tol) := by
  unfold snap1
  by_cases h0 : x - tol ≤ 0 ∧ 0 ≤ x + tol
  · right; left
    refine ⟨by rw [if_pos h0], abs_le.mpr ⟨by linarith [h0.2], by linarith [h0.1]⟩⟩
  · by_cases h1 : x - tol ≤ 1 ∧ 1 ≤ x + tol
    · right; right
      refine ⟨by rw [if_neg h0, if_pos h1], abs_le.mpr ⟨by linarith [h1.2], by linarith [h1.1]⟩⟩
    · left; rw [if_neg h0, if_neg h1]

theorem snap1_close (tol x : K) (ht : 0 ≤ tol) : |snap1 tol x - x| ≤ tol := by
  rcases snap1_cases tol x with h | ⟨h, hx⟩ | ⟨h, hx⟩
  · rw [h]; simpa using ht
  · rw [h]; simpa using hx
  · rw [h, abs_sub_comm]; exact hx

/-! ### fan, numbering -/

theorem mem_zipWith {α β γ : Type} (f : α → β → γ) : ∀ (l1 : List α) (l2 : List β) (x : γ),
    x ∈ List.zipWith f l1 l2 → ∃ a ∈ l1, ∃ b ∈ l2, x = f a b
  | [], _, x, h => by simp at h
  | _ :: _, [], x, h => by simp at h
  | a :: l1, b :: l2, x, h => by
    rw [List.zipWith_cons_cons, List.mem_cons] at h
    rcases h with e | h
    · exact ⟨a, by simp, b, by simp, e⟩
    · obtain ⟨a', ha, b', hb, e⟩ := mem_zipWith f l1 l2 x h
      exact ⟨a', List.mem_cons_of_mem _ ha, b', List.mem_cons_of_mem _ hb, e⟩

theorem mem_fanTriangles {α : Type} (l : List α) (t : α × α × α) (h : t ∈ fanTriangles l) :
    t.1 ∈ l ∧ t.2.1 ∈ l ∧ t.2.2 ∈ l ∧ l.head? = some t.1 := by
  cases l with
  | nil => simp [fanTriangles] at h
  | cons a rest =>
    obtain ⟨b, hb, c, hc, e⟩ := mem_zipWith _ _ _ _ h
    subst e
    exact ⟨by simp, List.mem_cons_of_mem _ hb, List.mem_cons_of_mem _ (List.mem_of_mem_tail hc), rfl⟩

theorem fanTriangles_length {α : Type} (l : List α) : (fanTriangles l).length = l.length - 2 := by
  cases l with
  | nil => rfl
  | cons a rest => simp [fanTriangles]

theorem mem_numberFrom {α : Type} (start : ℕ) (l : List α) (x : ℕ × α) (h : x ∈ numberFrom start l) :
    start ≤ x.1 ∧ x.1 < start + l.length ∧ x.2 ∈ l := by
  obtain ⟨k, hk, a, ha, e⟩ := mem_zipWith _ _ _ _ h
  subst e
  have := List.mem_range.mp hk
  exact ⟨by simp, by simpa using this, ha⟩

/-- an entry of the numbered fan: id `start + k`, apex `l[0]`, the two CONSECUTIVE entries `l[k+1]`, `l[k+2]` -/
theorem mem_numberFrom_fanTriangles {α : Type} (start : ℕ) (l : List α) (x : ℕ × (α × α × α))
    (h : x ∈ numberFrom start (fanTriangles l)) :
    ∃ k, x.1 = start + k ∧ l[0]? = some x.2.1 ∧ l[k + 1]? = some x.2.2.1 ∧ l[k + 2]? = some x.2.2.2 := by
  obtain ⟨i, hi, e⟩ := List.mem_iff_getElem.mp h
  cases l with
  | nil => simp [numberFrom, fanTriangles] at hi
  | cons a rest =>
    simp only [numberFrom, fanTriangles, List.length_zipWith, List.length_range, List.length_tail] at hi
    simp only [numberFrom, fanTriangles, List.getElem_zipWith, List.getElem_range, List.getElem_tail] at e
    subst e
    refine ⟨i, rfl, rfl, ?_, ?_⟩
    · simp
    · simp

theorem numberFrom_length {α : Type} (start : ℕ) (l : List α) : (numberFrom start l).length = l.length := by
  simp [numberFrom]

/-- the ids of the generic fan are `polygon_triangulate` of the ids (the untrimmed model) -/
theorem fanTriangles_ids {α : Type} (idOf : α → ℕ) (l : List α) :
    (fanTriangles l).map (fun t => [idOf t.1, idOf t.2.1, idOf t.2.2]) = polygonTriangulate (l.map idOf) := by
  cases l with
  | nil => rfl
  | cons a rest =>
    simp only [fanTriangles, polygonTriangulate, List.map_cons, List.map_zipWith, List.zipWith_map_left,
      List.zipWith_map_right, ← List.map_tail]

end Geomdl.Trim
