import NurbsVerif.Lemmas.ExchangeDers
import NurbsVerif.Lemmas.RatSurfDersModel
import NurbsVerif.Lemmas.SurfDeriv
import NurbsVerif.Lemmas.SurfDerivBasis
import NurbsVerif.Lemmas.Hull

/-!
  C14, derivatives of the reimported SURFACE (see `ExchangeDers.lean` for curves): the table of mixed derivatives
  `SKL[k][l]`, `k, l ≤ order`, both evaluator variants (`tri`).

  (a) unit weights: every cell of the homogeneous table is the cell of the plain table extended by the
      derivative `δ_{k0} δ_{l0}` of the constant weight function (`surfaceDersAt_unit_cell`: partition of unity and
      `Σ_r N_r⁽ᵏ⁾ = 0` for `k ≥ 1`), and A4.4 on such a table returns the plain table (`ratSurfaceDers_unit`);
  (b) normalised knot vectors: cell `[k][l]` is multiplied by `(lastU - firstU)ᵏ (lastV - firstV)ˡ` (C17).
-/
set_option linter.unusedSectionVars false

namespace Geomdl
open Blossom Finset
variable {K : Type} [Field K] [LinearOrder K] [IsStrictOrderedRing K]

theorem linComb_fold_append_const (d : ℕ) (c : K) : ∀ (N : List K) (pts : List (List K)) (acc : List K) (a : K),
    acc.length = d → (∀ pt ∈ pts, pt.length = d) → N.length = pts.length →
    (List.zip N (pts.map (· ++ [c]))).foldl (fun acc x => vadd acc (vsmul x.1 x.2)) (acc ++ [a]) =
    (List.zip N pts).foldl (fun acc x => vadd acc (vsmul x.1 x.2)) acc ++ [a + N.sum * c]
  | [], [], acc, a, _, _, _ => by simp
  | [], _ :: _, _, _, _, _, h => by simp at h
  | _ :: _, [], _, _, _, _, h => by simp at h
  | x :: N, pt :: pts, acc, a, hacc, hpts, hN => by
      have hpt : pt.length = d := hpts pt List.mem_cons_self
      simp only [List.map_cons, List.zip_cons_cons, List.foldl_cons, List.sum_cons]
      have e : vadd (acc ++ [a]) (vsmul x (pt ++ [c])) = vadd acc (vsmul x pt) ++ [a + x * c] := by
        unfold vadd vsmul
        rw [List.map_append, List.zipWith_append (by simp [hacc, hpt])]
        simp
      rw [e, linComb_fold_append_const d c N pts _ _ (by rw [vadd_len]; simp [hacc, hpt, vsmul])
        (fun q hq => hpts q (List.mem_cons_of_mem _ hq)) (by simpa using hN)]
      congr 2
      ring

/-- a linear combination of points that all carry the same extra last coordinate `c` -/
theorem linComb_append_const (d : ℕ) (c : K) (N : List K) (pts : List (List K)) (hpts : ∀ pt ∈ pts, pt.length = d)
    (hN : N.length = pts.length) :
    linComb (d+1) N (pts.map (· ++ [c])) = linComb d N pts ++ [N.sum * c] := by
  unfold linComb
  have : (vzero (d+1) : List K) = vzero d ++ [0] := by unfold vzero; rw [List.replicate_succ']
  rw [this, linComb_fold_append_const d c N pts (vzero d) 0 (by simp [vzero]) hpts hN, zero_add]

/-- the rows of the table of basis-function derivatives sum to 1 (row 0: partition of unity) resp. 0 (rows `k ≥ 1`) -/
theorem basisDers_row_sum (p : ℕ) (U : ℕ → K) (κ : ℕ) (u : K) (dmax k : ℕ) (hp : p ≤ κ) (hs : SpanOk U κ u)
    (hk : k ≤ dmax) : ((basisDers p U κ u dmax).getD k []).sum = if k = 0 then 1 else 0 := by
  rw [list_sum_eq_range, basisDers_row_length p U κ u dmax k hk]
  by_cases h0 : k = 0
  · subst h0
    rw [if_pos rfl, ← basisFuns_sum_range p hs]
    apply Finset.sum_congr rfl
    intro r hr
    rw [Finset.mem_range] at hr
    exact basisDers_zero_row p U κ u dmax r hp (by omega)
  · rw [if_neg h0]
    exact basisDers_sum_zero p U κ u dmax k hp hs.mono hs.nonempty (by omega) hk

/-- **every cell of the derivative table of the unit-weight surface** is the cell of the plain surface, extended by
    the corresponding derivative of the constant weight function 1 -/
theorem surfaceDersAt_unit_cell (pu pv : ℕ) (Uu Uv : ℕ → K) (su sv : ℕ) (P : List (List K)) (κu κv : ℕ) (u v : K)
    (d order : ℕ) (tri : Bool) (k l : ℕ)
    (hpu : pu ≤ κu) (hpv : pv ≤ κv) (hκu : κu < su) (hκv : κv < sv) (hlen : P.length = su * sv) (hP : NetOk d P)
    (hsu : SpanOk Uu κu u) (hsv : SpanOk Uv κv v) (hk : k ≤ order) (hl : l ≤ order) :
    tget (surfaceDersAt pu pv Uu Uv sv (P.map (· ++ [1])) κu κv u v order tri) k l
      = tget (surfaceDersAt pu pv Uu Uv sv P κu κv u v order tri) k l ++ [if k = 0 ∧ l = 0 then 1 else 0] := by
  have hpos : 0 < P.length := by
    have := flat_index_lt κu κv su sv hκu hκv
    omega
  obtain ⟨hdim, hdim1⟩ := dimOf_eq_of P d hP hpos
  unfold tget
  rw [surfaceDersAt_entry _ _ _ _ _ _ _ _ _ _ _ _ k l hk hl, surfaceDersAt_entry _ _ _ _ _ _ _ _ _ _ _ _ k l hk hl,
    hdim, hdim1]
  have hidx : ∀ r ∈ List.range (pu+1), ∀ s ∈ List.range (pv+1), κv - pv + s + sv * (κu - pu + r) < P.length := by
    intro r hr s hs
    rw [List.mem_range] at hr hs
    rw [hlen]
    exact flat_index_lt _ _ su sv (by omega) (by omega)
  by_cases hc : k ≤ min pu order ∧ l ≤ min pv order ∧ (tri = false ∨ k + l ≤ order)
  · rw [if_pos hc, if_pos hc]
    have hinner : (List.range (pu+1)).map (fun r => linComb (d+1) ((basisDers pv Uv κv v (min pv order)).getD l [])
          ((List.range (pv+1)).map (fun s => ptsGet (P.map (· ++ [1])) (κv - pv + s + sv * (κu - pu + r))))) =
        ((List.range (pu+1)).map (fun r => linComb d ((basisDers pv Uv κv v (min pv order)).getD l [])
          ((List.range (pv+1)).map (fun s => ptsGet P (κv - pv + s + sv * (κu - pu + r)))))).map
            (· ++ [((basisDers pv Uv κv v (min pv order)).getD l []).sum * 1]) := by
      rw [List.map_map]
      apply List.map_congr_left
      intro r hr
      have : (List.range (pv+1)).map (fun s => ptsGet (P.map (· ++ [1])) (κv - pv + s + sv * (κu - pu + r))) =
          ((List.range (pv+1)).map (fun s => ptsGet P (κv - pv + s + sv * (κu - pu + r)))).map (· ++ [1]) := by
        rw [List.map_map]
        apply List.map_congr_left
        intro s hs
        simp only [Function.comp, ptsGet_append1 P _ (hidx r hr s hs)]
      simp only [Function.comp]
      rw [this, linComb_append_const d]
      · intro pt hpt
        simp only [List.mem_map] at hpt
        obtain ⟨s, hs, rfl⟩ := hpt
        exact ptsGet_len P d _ hP (hidx r hr s hs)
      · rw [basisDers_row_length pv Uv κv v (min pv order) l hc.2.1]; simp
    rw [hinner, linComb_append_const d]
    · rw [basisDers_row_sum pu Uu κu u (min pu order) k hpu hsu hc.1,
        basisDers_row_sum pv Uv κv v (min pv order) l hpv hsv hc.2.1]
      congr 2
      by_cases h1 : k = 0 <;> by_cases h2 : l = 0 <;> simp [h1, h2]
    · intro pt hpt
      simp only [List.mem_map] at hpt
      obtain ⟨r, hr, rfl⟩ := hpt
      apply linComb_len
      intro q hq
      simp only [List.mem_map] at hq
      obtain ⟨s, hs, rfl⟩ := hq
      exact ptsGet_len P d _ hP (hidx r hr s hs)
    · rw [basisDers_row_length pu Uu κu u (min pu order) k hc.1]; simp
  · rw [if_neg hc, if_neg hc]
    have hne : ¬ (k = 0 ∧ l = 0) := by
      rintro ⟨rfl, rfl⟩
      exact hc ⟨by omega, by omega, Or.inr (by omega)⟩
    rw [if_neg hne]
    unfold vzero
    rw [List.replicate_succ']

/-- the cell equation of A4.4 with a constant weight function 1 returns the numerator -/
theorem cellSpec_unit (A w E : ℕ → ℕ → K) (k l : ℕ) (h00 : w 0 0 = 1)
    (h : ∀ a b, a ≤ k → b ≤ l → (a ≠ 0 ∨ b ≠ 0) → w a b = 0) : cellSpec A w E k l = A k l := by
  unfold cellSpec
  rw [h00, div_one, Finset.sum_eq_zero, Finset.sum_eq_zero, sub_zero, sub_zero]
  · intro a ha
    rw [Finset.mem_range] at ha
    rw [h (a+1) 0 (by omega) (by omega) (Or.inl (by omega)), zero_mul, zero_add, Finset.sum_eq_zero, mul_zero]
    intro b hb
    rw [Finset.mem_range] at hb
    rw [h (a+1) (b+1) (by omega) (by omega) (Or.inl (by omega)), mul_zero, zero_mul]
  · intro b hb
    rw [Finset.mem_range] at hb
    rw [h 0 (b+1) (by omega) (by omega) (Or.inr (by omega)), mul_zero, zero_mul]

theorem ratSurfaceDers_dims (SKLw : List (List (List K))) (order : ℕ) :
    (ratSurfaceDers SKLw order).length = order + 1 ∧
    ∀ k, k ≤ order → ((ratSurfaceDers SKLw order).getD k []).length = order + 1 := by
  refine ⟨by rw [ratSurfaceDers_eq_build', buildL_length], ?_⟩
  intro k hk
  rw [ratSurfaceDers_row SKLw order k hk]
  unfold ratRowF
  rw [buildL_length]

/-- two `(order+1) × (order+1)` tables with the same cells are equal -/
theorem table_ext (T T' : List (List (List K))) (order : ℕ)
    (h1 : T.length = order + 1) (h1' : T'.length = order + 1)
    (h2 : ∀ k, k ≤ order → (T.getD k []).length = order + 1) (h2' : ∀ k, k ≤ order → (T'.getD k []).length = order + 1)
    (h : ∀ k l, k ≤ order → l ≤ order → tget T k l = tget T' k l) : T = T' := by
  apply List.ext_getElem (by rw [h1, h1'])
  intro k hk hk'
  have e : T[k] = T.getD k [] := by rw [List.getD_eq_getElem?_getD, List.getElem?_eq_getElem hk]; rfl
  have e' : T'[k] = T'.getD k [] := by rw [List.getD_eq_getElem?_getD, List.getElem?_eq_getElem hk']; rfl
  rw [e, e']
  have hko : k ≤ order := by omega
  apply List.ext_getElem (by rw [h2 k hko, h2' k hko])
  intro l hl hl'
  have := h k l hko (by rw [h2 k hko] at hl; omega)
  unfold tget at this
  revert this hl hl'
  generalize T.getD k [] = R
  generalize T'.getD k [] = R'
  intro hl hl' this
  rw [List.getD_eq_getElem?_getD, List.getD_eq_getElem?_getD, List.getElem?_eq_getElem hl,
    List.getElem?_eq_getElem hl'] at this
  simpa using this

/-- **A4.4 on a table whose weight coordinates are those of the constant weight function 1** returns the table
    without the weight coordinate -/
theorem ratSurfaceDers_unit (Tw T : List (List (List K))) (order d : ℕ)
    (h1 : T.length = order + 1) (h2 : ∀ k, k ≤ order → (T.getD k []).length = order + 1)
    (hlen : ∀ k l, k ≤ order → l ≤ order → (tget T k l).length = d)
    (hcell : ∀ k l, k ≤ order → l ≤ order → tget Tw k l = tget T k l ++ [if k = 0 ∧ l = 0 then 1 else 0]) :
    ratSurfaceDers Tw order = T := by
  obtain ⟨g1, g2⟩ := ratSurfaceDers_dims Tw order
  have hw : ∀ i j, i ≤ order → j ≤ order → (tget Tw i j).length = d + 1 := by
    intro i j hi hj
    rw [hcell i j hi hj]; simp [hlen i j hi hj]
  have hlast : ∀ i j, i ≤ order → j ≤ order → (tget Tw i j).getD d 0 = if i = 0 ∧ j = 0 then 1 else 0 := by
    intro i j hi hj
    rw [hcell i j hi hj, List.getD_eq_getElem?_getD, List.getElem?_append_right (by rw [hlen i j hi hj])]
    simp [hlen i j hi hj]
  apply table_ext _ _ order g1 h1 g2 h2
  intro k l hk hl
  apply list_eq_of_getD_lt d (ratSurfaceDers_entry_length Tw order d hw k l hk hl) (hlen k l hk hl)
  intro j hj
  rw [ratSurfaceDers_coord Tw order d hw k l j hk hl hj, cellSpec_unit]
  · rw [hcell k l hk hl, List.getD_eq_getElem?_getD, List.getElem?_append_left (by rw [hlen k l hk hl]; exact hj),
      ← List.getD_eq_getElem?_getD]
  · rw [hlast 0 0 (by omega) (by omega)]; simp
  · intro a b ha hb hab
    rw [hlast a b (by omega) (by omega), if_neg]
    rintro ⟨rfl, rfl⟩
    rcases hab with h | h <;> exact h rfl

/-- **A3.6 + A4.4 on the unit-weight net = A3.6 on the plain net** (given non-empty spans) -/
theorem surfaceDersAt_unit (pu pv : ℕ) (Uu Uv : ℕ → K) (su sv : ℕ) (P : List (List K)) (κu κv : ℕ) (u v : K)
    (d order : ℕ) (tri : Bool)
    (hpu : pu ≤ κu) (hpv : pv ≤ κv) (hκu : κu < su) (hκv : κv < sv) (hlen : P.length = su * sv) (hP : NetOk d P)
    (hsu : SpanOk Uu κu u) (hsv : SpanOk Uv κv v) :
    ratSurfaceDers (surfaceDersAt pu pv Uu Uv sv (combineUnit P) κu κv u v order tri) order
      = surfaceDersAt pu pv Uu Uv sv P κu κv u v order tri := by
  rw [combineUnit_eq]
  exact ratSurfaceDers_unit _ _ order d (surfaceDersAt_length _ _ _ _ _ _ _ _ _ _ _ _)
    (fun k hk => surfaceDersAt_row_length _ _ _ _ _ _ _ _ _ _ _ _ k hk)
    (fun k l hk hl => surfaceDersAt_entry_length pu pv Uu Uv su sv P κu κv u v d order tri k l hpu hpv hκu hκv hlen hP hk hl)
    (fun k l hk hl => surfaceDersAt_unit_cell pu pv Uu Uv su sv P κu κv u v d order tri k l hpu hpv hκu hκv hlen hP
      hsu hsv hk hl)

namespace Exch

/-- `Surface.derivatives(u, v, order)` on a surface record: span search per direction, A3.6 on the stored net (`tri`:
    the triangular table of the alternative evaluator), A4.4 iff rational -/
abbrev Srf.ders (s : Srf K) (u v : K) (order : ℕ) (tri : Bool) : List (List (List K)) :=
  if s.rational then
    ratSurfaceDers (surfaceDersAt s.degU s.degV (fnOf s.knotsU) (fnOf s.knotsV) s.sizeV s.net
      (findSpanLinear s.degU (fnOf s.knotsU) s.sizeU u) (findSpanLinear s.degV (fnOf s.knotsV) s.sizeV v) u v order tri) order
  else
    surfaceDersAt s.degU s.degV (fnOf s.knotsU) (fnOf s.knotsV) s.sizeV s.net
      (findSpanLinear s.degU (fnOf s.knotsU) s.sizeU u) (findSpanLinear s.degV (fnOf s.knotsV) s.sizeV v) u v order tri

/-- the unit weights of the reimported form do not change any derivative: same knots, same parameters -/
theorem Srf.ders_unit_weights (s : Srf K) (d : ℕ) (h : s.EvalOk d) (u v : K)
    (hu : InDomain s.degU s.knotsU s.sizeU u) (hv : InDomain s.degV s.knotsV s.sizeV v) (order : ℕ) (tri : Bool) :
    ratSurfaceDers (surfaceDersAt s.degU s.degV (fnOf s.knotsU) (fnOf s.knotsV) s.sizeV (homNet s.rational s.net)
      (findSpanLinear s.degU (fnOf s.knotsU) s.sizeU u) (findSpanLinear s.degV (fnOf s.knotsV) s.sizeV v) u v order tri) order
      = s.ders u v order tri := by
  obtain ⟨hUu, _, _⟩ := kvWF_of_kvOk _ _ _ h.kvU h.lastU
  obtain ⟨hUv, _, _⟩ := kvWF_of_kvOk _ _ _ h.kvV h.lastV
  obtain ⟨hsu, a1, a2⟩ := findSpanLinear_dom hUu.knotsOk u hu.1 hu.2
  obtain ⟨hsv, b1, b2⟩ := findSpanLinear_dom hUv.knotsOk v hv.1 hv.2
  obtain ⟨r, pu, pv, su, sv, Uu, Uv, P⟩ := s
  cases r with
  | true => simp [homNet, Srf.ders]
  | false =>
    simp only [Srf.ders, Bool.false_eq_true, if_false]
    rw [homNet_false_eq]
    exact surfaceDersAt_unit pu pv (fnOf Uu) (fnOf Uv) su sv P _ _ u v d order tri a1 b1 a2 b2 h.len h.net hsu hsv

/-- **surfaces**: the table of mixed derivatives of the reimported surface at the normalised parameters is the table
    of the exported surface at `(u, v)`, cell `[k][l]` multiplied by `(lastU - firstU)ᵏ (lastV - firstV)ˡ` -/
theorem Srf.asRational_ders (s : Srf K) (d : ℕ) (h : s.EvalOk d) (u v : K)
    (hu : InDomain s.degU s.knotsU s.sizeU u) (hv : InDomain s.degV s.knotsV s.sizeV v) (order : ℕ) (tri : Bool) :
    s.asRational.ders (normParam s.knotsU u) (normParam s.knotsV v) order tri
      = scaleJet2 (s.knotsU.getLastD 0 - s.knotsU.headD 0) (s.knotsV.getLastD 0 - s.knotsV.headD 0)
          (s.ders u v order tri) := by
  obtain ⟨_, hneu, hru⟩ := kvWF_of_kvOk _ _ _ h.kvU h.lastU
  obtain ⟨_, hnev, hrv⟩ := kvWF_of_kvOk _ _ _ h.kvV h.lastV
  rw [← Srf.ders_unit_weights s d h u v hu hv order tri]
  obtain ⟨r, pu, pv, su, sv, Uu, Uv, P⟩ := s
  simp only [Srf.ders, Srf.asRational, if_true, normParam]
  rw [surfaceDers_normalized pu pv Uu Uv su sv _ u v order tri hneu hru hnev hrv, ratSurfaceDers_scale]

theorem scaleJet2_one (T : List (List (List K))) : scaleJet2 (1 : K) 1 T = T := by
  unfold scaleJet2
  apply List.ext_getElem (by simp)
  intro k h1 h2
  simp only [List.getElem_mapIdx]
  apply List.ext_getElem (by simp)
  intro l h3 h4
  simp [vsmul]

/-- a surface whose knot vectors already are normalised comes back with the same derivatives -/
theorem Srf.asRational_ders_normalised (s : Srf K) (d : ℕ) (h : s.EvalOk d) (u v : K)
    (hu : InDomain s.degU s.knotsU s.sizeU u) (hv : InDomain s.degV s.knotsV s.sizeV v) (order : ℕ) (tri : Bool)
    (hu0 : s.knotsU.headD 0 = 0) (hu1 : s.knotsU.getLastD 0 = 1) (hv0 : s.knotsV.headD 0 = 0)
    (hv1 : s.knotsV.getLastD 0 = 1) :
    s.asRational.ders u v order tri = s.ders u v order tri := by
  have := Srf.asRational_ders s d h u v hu hv order tri
  rw [normParam, normParam, hu0, hu1, hv0, hv1, sub_zero, sub_zero, div_one, sub_zero, div_one, scaleJet2_one] at this
  exact this

end Exch
end Geomdl
