import NurbsVerif.Lemmas.DecompUnclampedFinal
import NurbsVerif.Lemmas.SplitUnclampedSurfU
import NurbsVerif.Lemmas.SplitSurfUDecompMain

/-! `decompose_surface(…, decompose_dir='u')` for a u knot vector that need NOT be clamped (model with
    exceptions `decomposeDirE 0` on a surface): splitting and decomposing commute with taking columns. -/
set_option linter.unusedSectionVars false
namespace Geomdl
open Blossom
variable {K : Type} [Field K] [LinearOrder K] [IsStrictOrderedRing K]

/-- splitting a surface in u commutes with taking columns, u knot vector clamped or not -/
theorem split_surface_u_colsU (rat : Bool) (pu pv d : ℕ) (Uu Uv : List K) (su sv : ℕ) (P : List (List K)) (ub tol : K)
    (hP : NetOk d P) (hlenP : P.length = su * sv) (hsv0 : 0 < sv)
    (hU : SplitKvWF pu su Uu) (hlo : fnOf Uu pu < ub) (hhi : ub < fnOf Uu su)
    (hmx : MultExact pu (fnOf Uu) (findSpanLinear pu (fnOf Uu) su ub) (findMultiplicity ub Uu tol) ub) :
    ∃ UA nA PA UB nB PB,
      splitDir (surfShape rat pu pv Uu Uv su sv P) 0 ub tol
        = some (surfShape rat pu pv UA (knotNormalize Uv) nA sv PA, surfShape rat pu pv UB (knotNormalize Uv) nB sv PB) ∧
      PA.length = nA * sv ∧ PB.length = nB * sv ∧ NetOk d PA ∧ NetOk d PB ∧
      ∀ y, y < sv →
        splitDir (curveShape rat pu Uu (colOf su sv P y)) 0 ub tol
          = some (curveShape rat pu UA (colOf nA sv PA y), curveShape rat pu UB (colOf nB sv PB y)) := by
  have hcolWF : ∀ y, y < sv → CurveWF pu d Uu (colOf su sv P y) := fun y hy =>
    hU.toWF (colOf su sv P y) (colOf_length su sv P y) (colOf_netOk su sv d P hP hlenP y hy)
  obtain ⟨k1, k2, _, _⟩ := findSpanLinear_spec pu (fnOf Uu) su ub hU.pn hU.mono (le_of_lt hlo)
  obtain ⟨hsz, hlenR, hnetR, hcolsR⟩ := refinedU_cols su sv pu d Uu P ub tol hsv0 hP hlenP k1 k2 hmx.le
  have hcol : ∀ y, y < sv →
      CutOkU pu d (refinedU su sv pu Uu P ub tol).1
        (colOf (su + (pu - findMultiplicity ub Uu tol)) sv (refinedU su sv pu Uu P ub tol).2.1 y) ub
        (findSpanLinear pu (fnOf Uu) su ub + (pu - findMultiplicity ub Uu tol)) := by
    intro y hy
    have := splitRefined_cutU pu d Uu (colOf su sv P y) ub tol (hcolWF y hy) hU.hp
      (by exact hlo) (by rw [colOf_length]; exact hhi) (by rw [colOf_length]; exact hmx)
    rw [colOf_length, (hcolsR y hy).1, ← (hcolsR y hy).2] at this
    exact this
  have hceq : ∀ y, y < sv → _ := fun y hy =>
    splitDir_curve_eqU rat pu d Uu (colOf su sv P y) ub tol (hcolWF y hy) hU.hp
      (by exact hlo) (by rw [colOf_length]; exact hhi) (by rw [colOf_length]; exact hmx)
  have hnot : ¬ (ub = Uu.getD pu 0 ∨ ub = Uu.getD su 0) := by
    have hl := hU.len
    rw [fnOf_getD Uu pu (by omega), fnOf_getD Uu su (by omega)]
    intro h
    rcases h with h | h
    · rw [h] at hlo; exact lt_irrefl _ hlo
    · rw [h] at hhi; exact lt_irrefl _ hhi
  have hcut0 := hcol 0 hsv0
  have hspan : findSpanLinear pu (fnOf (refinedU su sv pu Uu P ub tol).1) (refinedU su sv pu Uu P ub tol).2.2 ub
      = findSpanLinear pu (fnOf Uu) su ub + (pu - findMultiplicity ub Uu tol) := by
    have := hcut0.span
    rw [colOf_length] at this
    rw [hsz]; exact this
  have heq := splitDir_surfShape_u rat pu pv Uu Uv su sv P ub tol hnot
  rw [hspan, hsz] at heq
  set k := findSpanLinear pu (fnOf Uu) su ub with hk
  set s := findMultiplicity ub Uu tol with hs
  set W := (refinedU su sv pu Uu P ub tol).1 with hW
  set Q := (refinedU su sv pu Uu P ub tol).2.1 with hQ
  have hm := hcut0.hm
  have hpm := hcut0.hpm
  rw [colOf_length] at hm
  have e1 : k - pu + 1 + (pu - s) = k + (pu - s) - pu + 1 := by omega
  have e2 : k + (pu - s) - pu + 1 - 1 = k + (pu - s) - pu := by omega
  rw [e1, e2] at heq
  set fA : List (List K) → List (List K) := fun c => (c.take (k + (pu - s) - pu + 1)).drop 0 with hfA
  set fB : List (List K) → List (List K) := fun c => (c.take (su + (pu - s))).drop (k + (pu - s) - pu) with hfB
  have hfAlen : ∀ y, y < sv → (fA (colOf (su + (pu - s)) sv Q y)).length = k + (pu - s) - pu + 1 := by
    intro y _; simp only [hfA, List.drop_zero, List.length_take, colOf_length]; omega
  have hfBlen : ∀ y, y < sv → (fB (colOf (su + (pu - s)) sv Q y)).length = su + (pu - s) - (k + (pu - s) - pu) := by
    intro y _; simp only [hfB, List.length_drop, List.length_take, colOf_length]; omega
  have hcolQ : ∀ y, y < sv → NetOk d (colOf (su + (pu - s)) sv Q y) := fun y hy => (hcol y hy).wf.net
  have hfAnet : ∀ y, y < sv → NetOk d (fA (colOf (su + (pu - s)) sv Q y)) := by
    intro y hy pt hpt
    exact hcolQ y hy pt (List.mem_of_mem_take (List.mem_of_mem_drop hpt))
  have hfBnet : ∀ y, y < sv → NetOk d (fB (colOf (su + (pu - s)) sv Q y)) := by
    intro y hy pt hpt
    exact hcolQ y hy pt (List.mem_of_mem_take (List.mem_of_mem_drop hpt))
  obtain ⟨hszA, hlenA, hnetA, hcolsA⟩ := mapSurfU_general (su + (pu - s)) sv _ d Q fA hsv0 hfAlen hfAnet
  obtain ⟨hszB, hlenB, hnetB, hcolsB⟩ := mapSurfU_general (su + (pu - s)) sv _ d Q fB hsv0 hfBlen hfBnet
  rw [hszA, hszB] at heq
  refine ⟨_, _, _, _, _, _, heq, hlenA, hlenB, hnetA, hnetB, ?_⟩
  intro y hy
  have := hceq y hy
  rw [colOf_length, (hcolsR y hy).1, ← (hcolsR y hy).2] at this
  rw [this, hcolsA y hy, hcolsB y hy]
  have e : fB (colOf (su + (pu - s)) sv Q y) = (colOf (su + (pu - s)) sv Q y).drop (k + (pu - s) - pu) := by
    simp only [hfB]
    rw [List.take_of_length_le (by rw [colOf_length])]
  rw [e]
  simp only [hfA, List.drop_zero]
  rfl

theorem decomposeDirE_surf_bezier (rat : Bool) (pu pv : ℕ) (Uu Uv : List K) (su sv : ℕ) (P : List (List K))
    (tol : K) (fuel : ℕ) (hlen : Uu.length = su + pu + 1) (hn : su = pu + 1) :
    decomposeDirE 0 tol fuel (surfShape rat pu pv Uu Uv su sv P) = some [surfShape rat pu pv Uu Uv su sv P] := by
  cases fuel with
  | zero => rfl
  | succ fuel =>
    have : ((Uu.drop (pu + 1)).take (Uu.length - 2 * (pu + 1))) = [] := by
      have : Uu.length - 2 * (pu + 1) = 0 := by omega
      rw [this]; rfl
    simp only [decomposeDirE, surfShape, Shape.deg, Shape.kv, List.getD_cons_zero, this]

theorem decomposeDirE_surf_step (rat : Bool) (pu pv : ℕ) (Uu Uv : List K) (su sv : ℕ) (P : List (List K))
    (tol : K) (fuel : ℕ) (hlen : Uu.length = su + pu + 1) (hn : pu + 1 < su) (A B : Shape K)
    (hm : findMultiplicity (fnOf Uu (pu + 1)) Uu tol ≤ pu)
    (hs : splitDir (surfShape rat pu pv Uu Uv su sv P) 0 (fnOf Uu (pu + 1)) tol = some (A, B)) :
    decomposeDirE 0 tol (fuel + 1) (surfShape rat pu pv Uu Uv su sv P)
      = (decomposeDirE 0 tol fuel B).map (fun l => A :: l) := by
  obtain ⟨rest, hrest⟩ := interior_head Uu pu su hlen hn
  have hsE : splitDirE { rat := rat, degs := [pu, pv], kvs := [Uu, Uv], sizes := [su, sv], net := P } 0
      (fnOf Uu (pu + 1)) tol = some (A, B) := by
    have := splitDirE_of_le (surfShape rat pu pv Uu Uv su sv P) 0 (fnOf Uu (pu + 1)) tol
      (by simpa [surfShape, Shape.deg, Shape.kv] using hm)
    rw [← hs, ← this]; rfl
  simp only [decomposeDirE, surfShape, Shape.deg, Shape.kv, List.getD_cons_zero, hrest, hsE]

/-- all columns of a surface whose column 0 is admissible are admissible curves -/
theorem DecompWFU.col {pu d : ℕ} {Uu : List K} {su sv : ℕ} {P : List (List K)} {tol : K}
    (h0 : DecompWFU pu d Uu (colOf su sv P 0) tol) (hP : NetOk d P) (hlenP : P.length = su * sv)
    (y : ℕ) (hy : y < sv) : DecompWFU pu d Uu (colOf su sv P y) tol := by
  have hl := h0.wf.len
  have hpn := h0.wf.pn
  have hlast := h0.wf.last
  have hmul := h0.mul
  have hunit := h0.unit
  rw [colOf_length] at hl hpn hlast hmul hunit
  refine ⟨⟨h0.wf.mono, ?_, ?_, ?_, colOf_netOk su sv d P hP hlenP y hy⟩, h0.hp, h0.first, ?_, ?_, h0.tol0, h0.sep⟩
  all_goals rw [colOf_length]
  · exact hl
  · exact hpn
  · exact hlast
  · exact hmul
  · exact hunit

/-- the u data of an admissible column as a knot-vector record -/
theorem DecompWFU.toKv {pu d : ℕ} {Uu : List K} {su sv : ℕ} {P : List (List K)} {tol : K}
    (h0 : DecompWFU pu d Uu (colOf su sv P 0) tol) : SplitKvWF pu su Uu := by
  have := h0.wf.toSplitKvWF h0.hp
  rw [colOf_length] at this
  exact this

/-- **columns of the pieces are the pieces of the columns** (v knot vector normalised, so that the
    pieces keep it); the model with exceptions raises on the surface exactly when it does on the columns -/
theorem decompose_surface_u_colsU (rat : Bool) (pu pv d : ℕ) (tol : K) (Uv : List K) (sv : ℕ)
    (hVn : knotNormalize Uv = Uv) (hsv0 : 0 < sv) : ∀ (fuel : ℕ) (Uu : List K) (su : ℕ) (P : List (List K)),
    NetOk d P → P.length = su * sv → DecompWFU pu d Uu (colOf su sv P 0) tol →
    ∃ pieces : List (List K × ℕ × List (List K)),
      decomposeDirE 0 tol fuel (surfShape rat pu pv Uu Uv su sv P)
        = some (pieces.map (fun q => surfShape rat pu pv q.1 Uv q.2.1 sv q.2.2)) ∧
      (∀ q ∈ pieces, q.2.2.length = q.2.1 * sv ∧ NetOk d q.2.2) ∧
      ∀ y, y < sv → decomposeDirE 0 tol fuel (curveShape rat pu Uu (colOf su sv P y))
        = some (pieces.map (fun q => curveShape rat pu q.1 (colOf q.2.1 sv q.2.2 y))) := by
  intro fuel
  induction fuel with
  | zero =>
    intro Uu su P hP hlenP _
    exact ⟨[(Uu, su, P)], rfl, by intro q hq; simp only [List.mem_singleton] at hq; rw [hq]; exact ⟨hlenP, hP⟩,
      fun y _ => rfl⟩
  | succ fuel ih =>
    intro Uu su P hP hlenP h0
    have hUlen : Uu.length = su + pu + 1 := by have := h0.wf.len; rw [colOf_length] at this; exact this
    have hpn : pu + 1 ≤ su := by have := h0.wf.pn; rw [colOf_length] at this; exact this
    by_cases hn : pu + 1 < su
    · have hU : SplitKvWF pu su Uu := h0.toKv
      obtain ⟨hlo, hhi, hmx, _, _⟩ := decomp_factsU pu d Uu (colOf su sv P 0) tol h0 (by rw [colOf_length]; exact hn)
      rw [colOf_length] at hhi hmx
      obtain ⟨UA, nA, PA, UB, nB, PB, hsplit, hlenA, hlenB, hnetA, hnetB, hcols⟩ :=
        split_surface_u_colsU rat pu pv d Uu Uv su sv P (fnOf Uu (pu + 1)) tol hP hlenP hsv0 hU hlo hhi hmx
      rw [hVn] at hsplit
      -- the remainder's column 0 is admissible
      have hB0 : DecompWFU pu d UB (colOf nB sv PB 0) tol := by
        have hrem := remainder_wfU pu d Uu (colOf su sv P 0) tol h0 (by rw [colOf_length]; exact hn)
        have heq := splitDir_curve_eqU rat pu d Uu (colOf su sv P 0) (fnOf Uu (pu + 1)) tol h0.wf h0.hp
          hlo (by rw [colOf_length]; exact hhi) (by rw [colOf_length]; exact hmx)
        rw [hcols 0 hsv0] at heq
        have hinj := curveShape_inj (Prod.mk.inj (Option.some.inj heq)).2
        rw [hinj.1, hinj.2]
        exact hrem
      obtain ⟨piecesB, hdecB, hokB, hcolsB⟩ := ih UB nB PB hnetB hlenB hB0
      refine ⟨(UA, nA, PA) :: piecesB, ?_, ?_, ?_⟩
      · rw [decomposeDirE_surf_step rat pu pv Uu Uv su sv P tol fuel hUlen hn _ _ hmx.le hsplit, hdecB]; rfl
      · intro q hq
        rcases List.mem_cons.mp hq with e | hq'
        · rw [e]; exact ⟨hlenA, hnetA⟩
        · exact hokB q hq'
      · intro y hy
        rw [decomposeDirE_step rat pu Uu (colOf su sv P y) tol fuel (by rw [colOf_length]; exact hUlen)
              (by rw [colOf_length]; exact hn) _ _ hmx.le (hcols y hy), hcolsB y hy]
        rfl
    · have hsu : su = pu + 1 := by omega
      refine ⟨[(Uu, su, P)], ?_, ?_, ?_⟩
      · rw [decomposeDirE_surf_bezier rat pu pv Uu Uv su sv P tol (fuel + 1) hUlen hsu]; rfl
      · intro q hq; simp only [List.mem_singleton] at hq; rw [hq]; exact ⟨hlenP, hP⟩
      · intro y _
        rw [decomposeDirE_bezier rat pu Uu (colOf su sv P y) tol (fuel + 1) (by rw [colOf_length]; exact hUlen)
              (by rw [colOf_length]; exact hsu)]
        rfl

end Geomdl
