import NurbsVerif.Lemmas.SplitSurfUV

/-! `decompose_surface(…, decompose_dir='uv')` end to end: one Bézier patch per pair of non-empty
    knot intervals, u-major order, each coinciding with the original on its rectangle. -/
set_option linter.unusedSectionVars false
namespace Geomdl
open Blossom Finset
variable {K : Type} [Field K] [LinearOrder K] [IsStrictOrderedRing K]

theorem decompose_surface_uv_all (rat : Bool) (pu pv d : ℕ) (tol : K) (Uu Uv : List K) (su sv : ℕ)
    (P : List (List K)) (hP : NetOk d P) (hlenP : P.length = su * sv)
    (hUn : knotNormalize Uu = Uu) (hVn : knotNormalize Uv = Uv)
    (hU0 : DecompWF pu d Uu (colOf su sv P 0) tol) (hV0 : DecompWF pv d Uv (rowOf sv P 0) tol) :
    (decomposeUV tol (surfShape rat pu pv Uu Uv su sv P)).length
      = (spanStarts pu (fnOf Uu) su).length * (spanStarts pv (fnOf Uv) sv).length ∧
    ∀ i, i < (spanStarts pu (fnOf Uu) su).length → ∀ l, l < (spanStarts pv (fnOf Uv) sv).length →
      ∃ Pil : List (List K),
        (decomposeUV tol (surfShape rat pu pv Uu Uv su sv P)).getD
            (l + (spanStarts pv (fnOf Uv) sv).length * i) (surfShape rat pu pv [] [] 0 0 [])
          = surfShape rat pu pv (bezKv pu) (bezKv pv) (pu + 1) (pv + 1) Pil ∧
        Pil.length = (pu + 1) * (pv + 1) ∧ NetOk d Pil ∧
        ∀ s, 0 ≤ s → s ≤ 1 → ∀ t, 0 ≤ t → t ≤ 1 → ∀ j,
          (surfacePoint pu pv (fnOf (bezKv pu)) (fnOf (bezKv pv)) (pu + 1) (pv + 1) Pil s t).getD j 0
            = (surfacePoint pu pv (fnOf Uu) (fnOf Uv) su sv P
                ((breaks pu (fnOf Uu) su).getD i 0
                  + s * ((breaks pu (fnOf Uu) su).getD (i + 1) 0 - (breaks pu (fnOf Uu) su).getD i 0))
                ((breaks pv (fnOf Uv) sv).getD l 0
                  + t * ((breaks pv (fnOf Uv) sv).getD (l + 1) 0 - (breaks pv (fnOf Uv) sv).getD l 0))).getD j 0 := by
  have hpnU : pu + 1 ≤ su := by have := hU0.cl.wf.pn; rw [colOf_length] at this; exact this
  have hpnV : pv + 1 ≤ sv := by have := hV0.cl.wf.pn; rw [rowOf_length] at this; exact this
  have hUlen : Uu.length = su + pu + 1 := by have := hU0.cl.wf.len; rw [colOf_length] at this; exact this
  have hVlen : Uv.length = sv + pv + 1 := by have := hV0.cl.wf.len; rw [rowOf_length] at this; exact this
  have hUm := hU0.cl.wf.mono
  have hVm := hV0.cl.wf.mono
  have hUends := normalized_ends hU0.cl hUn
  have hVends := normalized_ends hV0.cl hVn
  rw [colOf_length] at hUends
  rw [rowOf_length] at hVends
  have hcU := spanStarts_length_le pu (fnOf Uu) su
  have hcV := spanStarts_length_le pv (fnOf Uv) sv
  set cU := (spanStarts pu (fnOf Uu) su).length with hcUdef
  set cV := (spanStarts pv (fnOf Uv) sv).length with hcVdef
  obtain ⟨piecesU, hdecU, hlenU, hbezU, hpU⟩ :=
    decompose_surface_u_all rat pu pv d tol Uu.length Uu Uv su sv P hP hlenP hVm hpnV hVn hU0 (by omega)
  have hbezU' := hbezU (Or.inr hUends)
  -- the v decomposition of strip `i`
  have key : ∀ i, i < piecesU.length →
      ∃ piecesV : List (List K × ℕ × List (List K)),
        decomposeDir 1 tol Uv.length (surfShape rat pu pv (bezKv pu) Uv (pu + 1) sv (piecesU.getD i ([], 0, [])).2.2)
          = piecesV.map (fun r => surfShape rat pu pv (bezKv pu) r.1 (pu + 1) r.2.1 r.2.2) ∧
        piecesV.length = cV ∧
        ∀ l, l < cV →
          (piecesV.getD l ([], 0, [])).1 = bezKv pv ∧ (piecesV.getD l ([], 0, [])).2.1 = pv + 1 ∧
          (piecesV.getD l ([], 0, [])).2.2.length = (pu + 1) * (pv + 1) ∧ NetOk d (piecesV.getD l ([], 0, [])).2.2 ∧
          ∀ s, 0 ≤ s → s ≤ 1 → ∀ t, 0 ≤ t → t ≤ 1 → ∀ j,
            (surfacePoint pu pv (fnOf (bezKv pu)) (fnOf (bezKv pv)) (pu + 1) (pv + 1)
                (piecesV.getD l ([], 0, [])).2.2 s t).getD j 0
              = (surfacePoint pu pv (fnOf Uu) (fnOf Uv) su sv P
                  ((breaks pu (fnOf Uu) su).getD i 0
                    + s * ((breaks pu (fnOf Uu) su).getD (i + 1) 0 - (breaks pu (fnOf Uu) su).getD i 0))
                  ((breaks pv (fnOf Uv) sv).getD l 0
                    + t * ((breaks pv (fnOf Uv) sv).getD (l + 1) 0 - (breaks pv (fnOf Uv) sv).getD l 0))).getD j 0 := by
    intro i hi
    obtain ⟨hq2, kq, hqlen, hqnet, hqc⟩ := hpU i hi
    have hqmem : piecesU.getD i ([], 0, []) ∈ piecesU := by
      rw [List.getD_eq_getElem _ _ hi]; exact List.getElem_mem _
    have hq1 := hbezU' _ hqmem
    rw [hq1] at kq hqc
    have hrow0 : DecompWF pv d Uv (rowOf sv (piecesU.getD i ([], 0, [])).2.2 0) tol :=
      hV0.swap (by rw [rowOf_length, rowOf_length])
        (rowOf_netOk (pu + 1) sv d _ hqnet hqlen 0 (by omega))
    obtain ⟨piecesV, hdecV, hlenV, hbezV, hpV⟩ :=
      decompose_surface_v_all rat pu pv d tol Uv.length (bezKv pu) Uv (pu + 1) sv (piecesU.getD i ([], 0, [])).2.2
        hqnet hqlen kq.mono (le_refl _) (knotNormalize_bez pu) hrow0 (by omega)
    have hbezV' := hbezV (Or.inr hVends)
    refine ⟨piecesV, hdecV, hlenV, ?_⟩
    intro l hl
    obtain ⟨hr2, _, hrlen, hrnet, hrc⟩ := hpV l (by omega)
    have hrmem : piecesV.getD l ([], 0, []) ∈ piecesV := by
      rw [List.getD_eq_getElem _ _ (by omega)]; exact List.getElem_mem _
    have hr1 := hbezV' _ hrmem
    refine ⟨hr1, hr2, hrlen, hrnet, ?_⟩
    intro s hs0 hs1 t ht0 ht1 j
    have hbrV := breaks_getD_range pv sv (fnOf Uv) hVm (by omega) 0
    have hcntV : (breaks pv (fnOf Uv) sv).length = cV + 1 := by rw [breaks_length]
    have ra := hbrV l (by omega)
    have rb := hbrV (l + 1) (by omega)
    have h1 := hrc s (by rw [fnOf_bez_lo pu pu (le_refl _)]; exact hs0) t ht0 ht1 j
    rw [hr1, fnOf_bez_lo pv pv (le_refl _), fnOf_bez_hi pv] at h1
    have e1 : (0 : K) + t * (1 - 0) = t := by ring
    rw [e1] at h1
    rw [h1]
    have h2 := hqc ((breaks pv (fnOf Uv) sv).getD l 0
        + t * ((breaks pv (fnOf Uv) sv).getD (l + 1) 0 - (breaks pv (fnOf Uv) sv).getD l 0))
      (by nlinarith [ra.1, rb.1]) s hs0 hs1 j
    rw [fnOf_bez_lo pu pu (le_refl _), fnOf_bez_hi pu] at h2
    have e2 : (0 : K) + s * (1 - 0) = s := by ring
    rw [e2] at h2
    exact h2
  -- the list of rows
  have hL : decomposeUV tol (surfShape rat pu pv Uu Uv su sv P)
      = List.flatten (piecesU.map (fun q =>
          decomposeDir 1 tol Uv.length (surfShape rat pu pv q.1 Uv q.2.1 sv q.2.2))) := by
    unfold decomposeUV
    have e0 : ((surfShape rat pu pv Uu Uv su sv P).kv 0).length = Uu.length := rfl
    rw [e0, hdecU, List.flatMap_def, List.map_map]
    rfl
  have hrowAt : ∀ i, i < piecesU.length →
      (piecesU.map (fun q => decomposeDir 1 tol Uv.length (surfShape rat pu pv q.1 Uv q.2.1 sv q.2.2))).getD i []
        = decomposeDir 1 tol Uv.length (surfShape rat pu pv (bezKv pu) Uv (pu + 1) sv (piecesU.getD i ([], 0, [])).2.2) := by
    intro i hi
    rw [getD_map_lt _ piecesU i ([], 0, []) _ hi]
    obtain ⟨hq2, _, _, _, _⟩ := hpU i hi
    have hqmem : piecesU.getD i ([], 0, []) ∈ piecesU := by
      rw [List.getD_eq_getElem _ _ hi]; exact List.getElem_mem _
    rw [hbezU' _ hqmem, hq2]
  have hrows : ∀ r ∈ piecesU.map (fun q => decomposeDir 1 tol Uv.length (surfShape rat pu pv q.1 Uv q.2.1 sv q.2.2)),
      r.length = cV := by
    intro r hr
    obtain ⟨i, hi, rfl⟩ := List.getElem_of_mem hr
    have hi' : i < piecesU.length := by simpa using hi
    rw [← List.getD_eq_getElem _ [] hi, hrowAt i hi']
    obtain ⟨piecesV, hdecV, hlenV, _⟩ := key i hi'
    rw [hdecV, List.length_map, hlenV]
  constructor
  · rw [hL, flatten_uniform_length cV _ hrows, List.length_map, hlenU, Nat.mul_comm]
  · intro i hi l hl
    have hi' : i < piecesU.length := by omega
    obtain ⟨piecesV, hdecV, hlenV, hfacts⟩ := key i hi'
    obtain ⟨hr1, hr2, hrlen, hrnet, hrc⟩ := hfacts l hl
    refine ⟨(piecesV.getD l ([], 0, [])).2.2, ?_, hrlen, hrnet, hrc⟩
    rw [hL, flatten_uniform_getD _ cV _ hrows i l (by simpa using hi') hl, hrowAt i hi', hdecV,
        getD_map_lt _ piecesV l ([], 0, []) _ (by omega), hr1, hr2]

end Geomdl
