import NurbsVerif.Model.Basis
import Mathlib.Algebra.Order.Field.Basic
import Mathlib.Tactic.FieldSimp
import Mathlib.Tactic.Ring
import Mathlib.Tactic.Linarith
import Mathlib.Tactic.Positivity

namespace Geomdl
variable {K : Type} [Field K] [LinearOrder K] [IsStrictOrderedRing K]

theorem bfInner_length (L R : Nat → K) (j : Nat) (r : Nat) (N : List K) (s : K) :
    (bfInner L R j r N s).length = N.length + 1 := by
  induction N generalizing r s with
  | nil => simp [bfInner]
  | cons n ns ih => simp [bfInner, ih]

theorem bfInner_sum (L R : Nat → K) (j : Nat) (r : Nat) (N : List K) (s : K)
    (hden : ∀ k, k < N.length → R (r + k + 1) + L (j - (r + k)) ≠ 0) :
    (bfInner L R j r N s).sum = s + N.sum := by
  induction N generalizing r s with
  | nil => simp [bfInner]
  | cons n ns ih =>
    have h0 := hden 0 (by simp)
    simp only [Nat.add_zero] at h0
    simp only [bfInner, List.sum_cons]
    rw [ih]
    · field_simp
      ring
    · intro k hk
      have := hden (k+1) (by simp; omega)
      simpa [Nat.add_assoc, Nat.add_comm 1 k] using this

theorem bfInner_nonneg (L R : Nat → K) (j : Nat) (r : Nat) (N : List K) (s : K)
    (hs : 0 ≤ s) (hN : ∀ x ∈ N, 0 ≤ x)
    (hL : ∀ k, 0 ≤ L k) (hR : ∀ k, 0 ≤ R k) :
    ∀ x ∈ bfInner L R j r N s, 0 ≤ x := by
  induction N generalizing r s with
  | nil => intro x hx; simp [bfInner] at hx; simpa [hx] using hs
  | cons n ns ih =>
    intro x hx
    simp only [bfInner, List.mem_cons] at hx
    have hn : 0 ≤ n := hN n (by simp)
    have hd : 0 ≤ R (r+1) + L (j - r) := add_nonneg (hR _) (hL _)
    have ht : 0 ≤ n / (R (r+1) + L (j - r)) := div_nonneg hn hd
    rcases hx with hx | hx
    · rw [hx]; exact add_nonneg hs (mul_nonneg (hR _) ht)
    · exact ih (r+1) _ (mul_nonneg (hL _) ht) (fun y hy => hN y (by simp [hy])) x hx
end Geomdl
