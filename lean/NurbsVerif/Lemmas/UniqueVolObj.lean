import NurbsVerif.Lemmas.UniqueVol
import NurbsVerif.Lemmas.UniqueTensorObj

/-! # "Removable at all" at object level, volumes

The volume analogue of `UniqueTensorObj`: `S` is the volume at hand, `T` a well-formed volume with the same points whose
knot vector in direction `dir` is that of `S` with `r` copies of `ub` taken out (stated from `T`'s side).  Then `S` IS
the object `operations.insert_knot` produces from `T` (uniqueness of the control net of a B-spline volume), and
`operations.remove_knot` on `S` with the library's own searches returns the object of `r - t` insertions into `T`
(`T` itself for `t = r`). -/
namespace Geomdl
open Blossom Finset
set_option linter.unusedSectionVars false
variable {K : Type} [Field K] [LinearOrder K] [IsStrictOrderedRing K]

/-- **Uniqueness of the control net, volume objects** -/
theorem volShape_net_unique (d : ℕ) (S S' : Shape K) (hS : VolWF d S) (hS' : VolWF d S')
    (hdegs : S'.degs = S.degs) (hkvs : S'.kvs = S.kvs) (hsizes : S'.sizes = S.sizes)
    (hact0 : AllActive (S.deg 0) (S.size 0) (fnOf (S.kv 0))) (hact1 : AllActive (S.deg 1) (S.size 1) (fnOf (S.kv 1)))
    (hact2 : AllActive (S.deg 2) (S.size 2) (fnOf (S.kv 2)))
    (h : ∀ u v w, fnOf (S.kv 0) (S.deg 0) ≤ u → u < fnOf (S.kv 0) (S.size 0) →
      fnOf (S.kv 1) (S.deg 1) ≤ v → v < fnOf (S.kv 1) (S.size 1) →
      fnOf (S.kv 2) (S.deg 2) ≤ w → w < fnOf (S.kv 2) (S.size 2) → ∀ j,
      (volEval S u v w).getD j 0 = (volEval S' u v w).getD j 0) : S.net = S'.net := by
  have e1 : ∀ i, S'.deg i = S.deg i := fun i => by unfold Shape.deg; rw [hdegs]
  have e2 : ∀ i, S'.kv i = S.kv i := fun i => by unfold Shape.kv; rw [hkvs]
  have e3 : ∀ i, S'.size i = S.size i := fun i => by unfold Shape.size; rw [hsizes]
  apply volume_net_unique (S.deg 0) (S.deg 1) (S.deg 2) d (fnOf (S.kv 0)) (fnOf (S.kv 1)) (fnOf (S.kv 2))
    (S.size 0) (S.size 1) (S.size 2) S.net S'.net
    hS.dir0.mono hS.dir1.mono hS.dir2.mono hS.dir0.pn hS.dir1.pn hS.dir2.pn hact0 hact1 hact2 hS.netlen
    (by rw [hS'.netlen, e3, e3, e3]) hS.net hS'.net
  intro u v w a b c e f g j
  have := h u v w a b c e f g j
  simp only [volEval, e1, e2, e3] at this
  exact this

/-- the hypotheses of "the knot `ub` of direction `dir` of the volume `S` is removable `r` times, witnessed by the
    volume `T`" -/
structure VolRemovableObj (d : ℕ) (S T : Shape K) (dir : ℕ) (ub : K) (r : ℕ) (tol : K) : Prop where
  wfS : VolWF d S
  wfT : VolWF d T
  dir3 : dir < 3
  /-- inserting `ub` `r` times into `T` is admissible, `r ≥ 1`, the multiplicity found is the true one -/
  round : RoundOk T dir ub r tol
  rat : S.rat = T.rat
  degs : S.degs = T.degs
  /-- the knot vectors of `S` are those of `T` with `ub` inserted `r` times in direction `dir` -/
  kvs : S.kvs = T.kvs.set dir (insKvOf T dir ub r)
  sizes : S.sizes = T.sizes.set dir (T.size dir + r)
  active0 : AllActive (S.deg 0) (S.size 0) (fnOf (S.kv 0))
  active1 : AllActive (S.deg 1) (S.size 1) (fnOf (S.kv 1))
  active2 : AllActive (S.deg 2) (S.size 2) (fnOf (S.kv 2))
  /-- same points on the half-open domain -/
  same : ∀ u v w, fnOf (S.kv 0) (S.deg 0) ≤ u → u < fnOf (S.kv 0) (S.size 0) →
    fnOf (S.kv 1) (S.deg 1) ≤ v → v < fnOf (S.kv 1) (S.size 1) →
    fnOf (S.kv 2) (S.deg 2) ≤ w → w < fnOf (S.kv 2) (S.size 2) → ∀ j,
    (volEval T u v w).getD j 0 = (volEval S u v w).getD j 0

/-- what `insertKnotDir` produces from `T`: well-formed, same points as `T`, the sizes of `S` -/
theorem insDirOf_volume (d : ℕ) (T : Shape K) (hT : VolWF d T) (dir : ℕ) (hdir : dir < 3) (ub : K) (r : ℕ) (tol : K)
    (hr1 : 1 ≤ r) (hreq : DirReqOk T dir ub r tol) :
    VolSame d T (insDirOf T dir ub r tol) ∧
    (insDirOf T dir ub r tol).sizes = T.sizes.set dir (T.size dir + r) := by
  have hop := isoOp_of_dirReqOk d T dir ub r tol (hT.dir dir hdir) hr1 hreq
  have hsz : (insDirOf T dir ub r tol).size dir = T.size dir + r := by
    rcases (by omega : dir = 0 ∨ dir = 1 ∨ dir = 2) with rfl | rfl | rfl
    · exact (volume_dirOp0 d T hT _ _ _ hop).2.2
    · exact (volume_dirOp1 d T hT _ _ _ hop).2.2
    · exact (volume_dirOp2 d T hT _ _ _ hop).2.2
  refine ⟨(vol_step d T _ dir hdir hT (Or.inr ⟨_, _, _, hop, rfl⟩)).1, ?_⟩
  have : (insDirOf T dir ub r tol).sizes = T.sizes.set dir (T.mapDir dir (insFnOf T dir ub r tol)).2 := rfl
  rw [this]
  have h2 : (T.sizes.set dir (T.mapDir dir (insFnOf T dir ub r tol)).2).getD dir 0 = T.size dir + r := hsz
  rw [getD_set_self _ dir _ _ (by rw [hT.sizes]; exact hdir)] at h2
  rw [h2]

/-- **A removable knot of a volume was inserted**: `S` is the object `operations.insert_knot` produces from `T`. -/
theorem VolRemovableObj.is_inserted {d : ℕ} {S T : Shape K} {dir : ℕ} {ub : K} {r : ℕ} {tol : K}
    (h : VolRemovableObj d S T dir ub r tol) : S = insDirOf T dir ub r tol := by
  obtain ⟨hsame, hsizes⟩ := insDirOf_volume d T h.wfT dir h.dir3 ub r tol h.round.r1 h.round.req
  have hdegs' : (insDirOf T dir ub r tol).degs = S.degs := h.degs.symm
  have hkvs' : (insDirOf T dir ub r tol).kvs = S.kvs := h.kvs.symm
  have hsizes' : (insDirOf T dir ub r tol).sizes = S.sizes := by rw [hsizes, h.sizes]
  have e1 : ∀ i, (insDirOf T dir ub r tol).deg i = S.deg i := fun i => by unfold Shape.deg; rw [hdegs']
  have e2 : ∀ i, (insDirOf T dir ub r tol).kv i = S.kv i := fun i => by unfold Shape.kv; rw [hkvs']
  have e3 : ∀ i, (insDirOf T dir ub r tol).size i = S.size i := fun i => by unfold Shape.size; rw [hsizes']
  refine Shape.ext' (A := S) (B := insDirOf T dir ub r tol) h.rat h.degs h.kvs hsizes'.symm ?_
  apply volShape_net_unique d S _ h.wfS hsame.wf hdegs' hkvs' hsizes' h.active0 h.active1 h.active2
  intro u v w a b c e f g j
  rw [← h.same u v w a b c e f g j]
  symm
  apply hsame.eval u v w
  · rw [← hsame.lo0, e2, e1]; exact a
  · rw [← hsame.hi0, e2, e3]; exact le_of_lt b
  · rw [← hsame.lo1, e2, e1]; exact c
  · rw [← hsame.hi1, e2, e3]; exact le_of_lt e
  · rw [← hsame.lo2, e2, e1]; exact f
  · rw [← hsame.hi2, e2, e3]; exact le_of_lt g

/-- **Object level, volumes, whenever removable at all**: `operations.remove_knot` on `S` (one requested direction;
    span and multiplicity by the library's own searches on `S`; either setting of `check`; the per-iso-curve model
    `removeKnotDir`) with count `t = nums[dir]`, `1 ≤ t ≤ r`, returns the object of `r - t` insertions of `ub` into
    `T` and reports success; for `t = r` it returns `T` itself. -/
theorem VolRemovableObj.removeKnot {d : ℕ} {S T : Shape K} {dir : ℕ} {ub : K} {r : ℕ} {tol : K}
    (h : VolRemovableObj d S T dir ub r tol) (params : List (Option K)) (nums : List ℕ) (tol2 : K) (check : Bool)
    (ho : OnlyDir dir params nums) (hp : params.getD dir none = some ub) (h2 : 0 ≤ tol2)
    (ht1 : 1 ≤ nums.getD dir 0) (htr : nums.getD dir 0 ≤ r) :
    Geomdl.removeKnot S params nums tol tol2 check = (insDirOf T dir ub (r - nums.getD dir 0) tol, true) ∧
    (nums.getD dir 0 = r → Geomdl.removeKnot S params nums tol tol2 check = (T, true)) := by
  have hpd : (insDirOf T dir ub r tol).pdim = 3 := h.wfT.degs
  have hd3 := h.dir3
  rw [h.is_inserted]
  refine ⟨removeKnot_onlyDir _ _ dir params nums tol tol2 check ub (by omega) ho hp (by omega)
    (volume_insertDir_removeDir_t d T h.wfT dir h.dir3 ub r _ tol tol2 check h.round h2 ht1 htr), ?_⟩
  intro e
  refine removeKnot_onlyDir _ _ dir params nums tol tol2 check ub (by omega) ho hp (by omega) ?_
  rw [e]
  exact volume_insertDir_removeDir d T h.wfT dir h.dir3 ub r tol tol2 check h.round h2

/-- **… and the evaluated points are unchanged** -/
theorem VolRemovableObj.removeKnot_points {d : ℕ} {S T : Shape K} {dir : ℕ} {ub : K} {r : ℕ} {tol : K}
    (h : VolRemovableObj d S T dir ub r tol) (params : List (Option K)) (nums : List ℕ) (tol2 : K) (check : Bool)
    (ho : OnlyDir dir params nums) (hp : params.getD dir none = some ub) (h2 : 0 ≤ tol2)
    (ht1 : 1 ≤ nums.getD dir 0) (htr : nums.getD dir 0 ≤ r)
    (u v w : K) (hu1 : fnOf (T.kv 0) (T.deg 0) ≤ u) (hu2 : u ≤ fnOf (T.kv 0) (T.size 0))
    (hv1 : fnOf (T.kv 1) (T.deg 1) ≤ v) (hv2 : v ≤ fnOf (T.kv 1) (T.size 1))
    (hw1 : fnOf (T.kv 2) (T.deg 2) ≤ w) (hw2 : w ≤ fnOf (T.kv 2) (T.size 2)) (j : ℕ) :
    (volEval (Geomdl.removeKnot S params nums tol tol2 check).1 u v w).getD j 0 = (volEval T u v w).getD j 0 := by
  obtain ⟨a, b⟩ := h.removeKnot params nums tol2 check ho hp h2 ht1 htr
  by_cases e : nums.getD dir 0 = r
  · rw [b e]
  · rw [a]
    have hreq : DirReqOk T dir ub (r - nums.getD dir 0) tol :=
      ⟨h.round.req.lo, h.round.req.hi, h.round.req.mult, by have := h.round.req.rs; omega⟩
    exact (insDirOf_volume d T h.wfT dir h.dir3 ub _ tol (by omega) hreq).1.eval u v w hu1 hu2 hv1 hv2 hw1 hw2 j

end Geomdl
