import NurbsVerif.Lemmas.VolRefineObj

/-! `operations.insert_knot` at object level: one direction step (`insertKnotDir`) on a surface or a
    volume is an `IsoOp` along that direction; the loop over the directions of one call
    (`insertKnot`, several directions at once) preserves every evaluated point, the domain and
    well-formedness, and completes, when every requested direction is admissible. -/
namespace Geomdl
open Blossom Finset
set_option linter.unusedSectionVars false
variable {K : Type} [Field K] [LinearOrder K] [IsStrictOrderedRing K]

/-- the request "insert `u` `r` times into direction `dir`" is admissible for `S`: parameter inside
    the half-open domain of that direction, the multiplicity the library computes (with its tolerance)
    is a run of copies ending at the span, and `r + s ≤ p` -/
structure DirReqOk (S : Shape K) (dir : ℕ) (u : K) (r : ℕ) (tol : K) : Prop where
  lo : fnOf (S.kv dir) (S.deg dir) ≤ u
  hi : u < fnOf (S.kv dir) (S.size dir)
  mult : ∀ x, findSpanLinear (S.deg dir) (fnOf (S.kv dir)) (S.size dir) u - findMultiplicity u (S.kv dir) tol < x →
    x ≤ findSpanLinear (S.deg dir) (fnOf (S.kv dir)) (S.size dir) u → fnOf (S.kv dir) x = u
  rs : r + findMultiplicity u (S.kv dir) tol ≤ S.deg dir

theorem dirReqOk_transfer (S T : Shape K) (dir : ℕ) (u : K) (r : ℕ) (tol : K) (hdegs : T.degs = S.degs)
    (hkv : T.kv dir = S.kv dir) (hsz : T.size dir = S.size dir) (h : DirReqOk S dir u r tol) :
    DirReqOk T dir u r tol := by
  have e_deg : T.deg dir = S.deg dir := by unfold Shape.deg; rw [hdegs]
  obtain ⟨a, b, c, e⟩ := h
  refine ⟨?_, ?_, ?_, ?_⟩
  · rw [hkv, e_deg]; exact a
  · rw [hkv, hsz]; exact b
  · rw [hkv, hsz, e_deg]; exact c
  · rw [hkv, e_deg]; exact e

/-- decidable route to `DirReqOk`: the parameter is equal to or further than `tol` from every knot of
    the direction, lies in the half-open domain, and its number of occurrences plus `r` is at most the
    degree -/
theorem dirReqOk_of_sep (S : Shape K) (dir : ℕ) (u : K) (r : ℕ) (tol : K)
    (hkv : KvWF (S.deg dir) (S.kv dir) (S.size dir)) (h0 : 0 ≤ tol)
    (hsep : ∀ y ∈ S.kv dir, u = y ∨ tol < |u - y|)
    (hlo : fnOf (S.kv dir) (S.deg dir) ≤ u) (hhi : u < fnOf (S.kv dir) (S.size dir))
    (hrs : r + (S.kv dir).count u ≤ S.deg dir) : DirReqOk S dir u r tol := by
  have hmul := findMultiplicity_eq_count tol h0 u (S.kv dir) hsep
  obtain ⟨k1, k2, k3, k4⟩ := findSpanLinear_spec (S.deg dir) (fnOf (S.kv dir)) (S.size dir) u hkv.pn hkv.mono hlo
  have hk4 : u < fnOf (S.kv dir) (findSpanLinear (S.deg dir) (fnOf (S.kv dir)) (S.size dir) u + 1) := by
    rcases k4 with h | h
    · exact h
    · rw [h]; exact hhi
  refine ⟨hlo, hhi, ?_, by rw [hmul]; exact hrs⟩
  rw [hmul]
  exact mult_block (S.kv dir) hkv.mono u _ (by have := hkv.len; omega) k3 hk4

/-- what `insertKnotDir` returns when the multiplicity allows the insertion (whatever `check` is) -/
theorem insertKnotDir_withDir (S : Shape K) (dir : ℕ) (u : K) (r : ℕ) (tol : K) (check : Bool)
    (hrs : r + findMultiplicity u (S.kv dir) tol ≤ S.deg dir) :
    insertKnotDir S dir u r tol check = some (S.withDir dir
      (knotInsertionKv (S.kv dir) u (findSpanLinear (S.deg dir) (fnOf (S.kv dir)) (S.size dir) u) r)
      (fun c => knotInsertion (S.deg dir) (fnOf (S.kv dir)) c u r (findMultiplicity u (S.kv dir) tol)
        (findSpanLinear (S.deg dir) (fnOf (S.kv dir)) (S.size dir) u))) := by
  unfold insertKnotDir
  simp only []
  rw [if_neg (fun h => absurd h.2 (by omega))]

/-- the `IsoOp` of an admissible request -/
theorem isoOp_of_dirReqOk (d : ℕ) (S : Shape K) (dir : ℕ) (u : K) (r : ℕ) (tol : K)
    (hkv : KvWF (S.deg dir) (S.kv dir) (S.size dir)) (hr1 : 1 ≤ r) (h : DirReqOk S dir u r tol) :
    IsoOp (S.deg dir) d (S.kv dir)
      (knotInsertionKv (S.kv dir) u (findSpanLinear (S.deg dir) (fnOf (S.kv dir)) (S.size dir) u) r)
      (S.size dir) (S.size dir + r)
      (fun c => knotInsertion (S.deg dir) (fnOf (S.kv dir)) c u r (findMultiplicity u (S.kv dir) tol)
        (findSpanLinear (S.deg dir) (fnOf (S.kv dir)) (S.size dir) u)) :=
  isoOp_insert (S.deg dir) d (S.kv dir) (S.size dir) r _ u hkv h.lo h.hi h.mult hr1 h.rs

/-- the loop body of `operations.insert_knot` -/
abbrev insKnotStep (params : List (Option K)) (nums : List ℕ) (tol : K) (check : Bool)
    (acc : Shape K × Bool) (d : ℕ) : Shape K × Bool :=
  if acc.2 = false then acc else
    match params.getD d none with
    | none => acc
    | some u =>
      if nums.getD d 0 = 0 then acc
      else match insertKnotDir acc.1 d u (nums.getD d 0) tol check with
        | some S' => (S', true)
        | none => (acc.1, false)

theorem insertKnot_eq (S : Shape K) (params : List (Option K)) (nums : List ℕ) (tol : K) (check : Bool) :
    insertKnot S params nums tol check = (List.range S.pdim).foldl (insKnotStep params nums tol check) (S, true) := rfl

/-- one step of the loop: nothing, or an `IsoOp` along `dir`; the flag stays `true` -/
theorem insKnotStep_ok (d : ℕ) (T : Shape K) (b : Bool) (dir : ℕ) (params : List (Option K)) (nums : List ℕ)
    (tol : K) (check : Bool) (hkv : KvWF (T.deg dir) (T.kv dir) (T.size dir))
    (hreq : ∀ u, params.getD dir none = some u → nums.getD dir 0 ≠ 0 → DirReqOk T dir u (nums.getD dir 0) tol) :
    DirStepOk d T (insKnotStep params nums tol check (T, b) dir).1 dir ∧
    (b = true → (insKnotStep params nums tol check (T, b) dir).2 = true) := by
  unfold insKnotStep
  cases b with
  | false => exact ⟨Or.inl rfl, fun h => absurd h (by simp)⟩
  | true =>
    simp only [Bool.true_eq_false, if_false]
    cases hp : params.getD dir none with
    | none => exact ⟨Or.inl rfl, fun _ => rfl⟩
    | some u =>
      simp only []
      by_cases hn : nums.getD dir 0 = 0
      · rw [if_pos hn]; exact ⟨Or.inl rfl, fun _ => rfl⟩
      · rw [if_neg hn]
        have hq := hreq u hp hn
        rw [insertKnotDir_withDir T dir u _ tol check hq.rs]
        exact ⟨Or.inr ⟨_, _, _, isoOp_of_dirReqOk d T dir u _ tol hkv (by omega) hq, rfl⟩, fun _ => rfl⟩

/-- every requested direction of one `insert_knot` call on an object with `n` directions is admissible -/
def CallOk (n : ℕ) (S : Shape K) (params : List (Option K)) (nums : List ℕ) (tol : K) : Prop :=
  ∀ dir, dir < n → ∀ u, params.getD dir none = some u → nums.getD dir 0 ≠ 0 → DirReqOk S dir u (nums.getD dir 0) tol

/-- **one `insert_knot` call on a surface, any subset of the two directions** -/
theorem insertKnot_surface' (d : ℕ) (S : Shape K) (hS : SurfWF d S) (params : List (Option K)) (nums : List ℕ)
    (tol : K) (check : Bool) (hreq : CallOk 2 S params nums tol) :
    SurfSame d S (insertKnot S params nums tol check).1 ∧ (insertKnot S params nums tol check).1.degs = S.degs ∧
    (insertKnot S params nums tol check).1.rat = S.rat ∧ (insertKnot S params nums tol check).2 = true := by
  rw [insertKnot_eq]
  obtain ⟨a, b, c, e⟩ := dirFold_surface d S hS True (insKnotStep params nums tol check)
    (fun T b dir hdir hT hdegs _ hkv hsz =>
      let h := insKnotStep_ok d T b dir params nums tol check (hT.dir dir hdir)
        (fun u hp hn => dirReqOk_transfer S T dir u _ tol hdegs hkv hsz (hreq dir hdir u hp hn))
      ⟨h.1, fun _ => h.2⟩)
  exact ⟨a, b, c, e trivial⟩

/-- **one `insert_knot` call on a volume, any subset of the three directions** -/
theorem insertKnot_volume' (d : ℕ) (S : Shape K) (hS : VolWF d S) (params : List (Option K)) (nums : List ℕ)
    (tol : K) (check : Bool) (hreq : CallOk 3 S params nums tol) :
    VolSame d S (insertKnot S params nums tol check).1 ∧ (insertKnot S params nums tol check).1.degs = S.degs ∧
    (insertKnot S params nums tol check).1.rat = S.rat ∧ (insertKnot S params nums tol check).2 = true := by
  rw [insertKnot_eq]
  obtain ⟨a, b, c, e⟩ := dirFold_volume d S hS True (insKnotStep params nums tol check)
    (fun T b dir hdir hT hdegs _ hkv hsz =>
      let h := insKnotStep_ok d T b dir params nums tol check (hT.dir dir hdir)
        (fun u hp hn => dirReqOk_transfer S T dir u _ tol hdegs hkv hsz (hreq dir hdir u hp hn))
      ⟨h.1, fun _ => h.2⟩)
  exact ⟨a, b, c, e trivial⟩

/-! ### a later direction rejected by the multiplicity check: the earlier directions stay applied -/

/-- the request is rejected by the multiplicity check of `insert_knot` -/
def DirRejected (S : Shape K) (dir : ℕ) (u : K) (r : ℕ) (tol : K) (check : Bool) : Prop :=
  check = true ∧ S.deg dir < r + findMultiplicity u (S.kv dir) tol

theorem insertKnotDir_rejected (S : Shape K) (dir : ℕ) (u : K) (r : ℕ) (tol : K) (check : Bool)
    (h : DirRejected S dir u r tol check) : insertKnotDir S dir u r tol check = none := by
  unfold insertKnotDir
  simp only []
  rw [if_pos ⟨h.1, h.2⟩]

/-- every requested direction is admissible or is rejected by the check -/
def CallOkOrRej (n : ℕ) (S : Shape K) (params : List (Option K)) (nums : List ℕ) (tol : K) (check : Bool) : Prop :=
  ∀ dir, dir < n → ∀ u, params.getD dir none = some u → nums.getD dir 0 ≠ 0 →
    DirReqOk S dir u (nums.getD dir 0) tol ∨ DirRejected S dir u (nums.getD dir 0) tol check

theorem insKnotStep_any (d : ℕ) (T : Shape K) (b : Bool) (dir : ℕ) (params : List (Option K)) (nums : List ℕ)
    (tol : K) (check : Bool) (hkv : KvWF (T.deg dir) (T.kv dir) (T.size dir))
    (hreq : ∀ u, params.getD dir none = some u → nums.getD dir 0 ≠ 0 →
      DirReqOk T dir u (nums.getD dir 0) tol ∨ DirRejected T dir u (nums.getD dir 0) tol check) :
    DirStepOk d T (insKnotStep params nums tol check (T, b) dir).1 dir := by
  unfold insKnotStep
  cases b with
  | false => exact Or.inl rfl
  | true =>
    simp only [Bool.true_eq_false, if_false]
    cases hp : params.getD dir none with
    | none => exact Or.inl rfl
    | some u =>
      simp only []
      by_cases hn : nums.getD dir 0 = 0
      · rw [if_pos hn]; exact Or.inl rfl
      · rw [if_neg hn]
        rcases hreq u hp hn with hq | hq
        · rw [insertKnotDir_withDir T dir u _ tol check hq.rs]
          exact Or.inr ⟨_, _, _, isoOp_of_dirReqOk d T dir u _ tol hkv (by omega) hq, rfl⟩
        · rw [insertKnotDir_rejected T dir u _ tol check hq]
          exact Or.inl rfl

theorem dirRejected_transfer (S T : Shape K) (dir : ℕ) (u : K) (r : ℕ) (tol : K) (check : Bool) (hdegs : T.degs = S.degs)
    (hkv : T.kv dir = S.kv dir) (h : DirRejected S dir u r tol check) : DirRejected T dir u r tol check := by
  have e_deg : T.deg dir = S.deg dir := by unfold Shape.deg; rw [hdegs]
  unfold DirRejected at h ⊢
  rw [hkv, e_deg]; exact h

/-- **one `insert_knot` call on a surface where every requested direction is admissible or rejected
    by the multiplicity check**: whatever was applied before the rejection keeps every point -/
theorem insertKnot_surface_any' (d : ℕ) (S : Shape K) (hS : SurfWF d S) (params : List (Option K)) (nums : List ℕ)
    (tol : K) (check : Bool) (hreq : CallOkOrRej 2 S params nums tol check) :
    SurfSame d S (insertKnot S params nums tol check).1 := by
  rw [insertKnot_eq]
  exact (dirFold_surface d S hS False (insKnotStep params nums tol check)
    (fun T b dir hdir hT hdegs _ hkv hsz =>
      ⟨insKnotStep_any d T b dir params nums tol check (hT.dir dir hdir)
        (fun u hp hn => (hreq dir hdir u hp hn).imp (dirReqOk_transfer S T dir u _ tol hdegs hkv hsz)
          (dirRejected_transfer S T dir u _ tol check hdegs hkv)), fun hf => hf.elim⟩)).1

theorem insertKnot_volume_any' (d : ℕ) (S : Shape K) (hS : VolWF d S) (params : List (Option K)) (nums : List ℕ)
    (tol : K) (check : Bool) (hreq : CallOkOrRej 3 S params nums tol check) :
    VolSame d S (insertKnot S params nums tol check).1 := by
  rw [insertKnot_eq]
  exact (dirFold_volume d S hS False (insKnotStep params nums tol check)
    (fun T b dir hdir hT hdegs _ hkv hsz =>
      ⟨insKnotStep_any d T b dir params nums tol check (hT.dir dir hdir)
        (fun u hp hn => (hreq dir hdir u hp hn).imp (dirReqOk_transfer S T dir u _ tol hdegs hkv hsz)
          (dirRejected_transfer S T dir u _ tol check hdegs hkv)), fun hf => hf.elim⟩)).1

/-! ### sequences of calls -/

/-- every call of the list is admissible in the state it is applied to -/
def CallsOk (n : ℕ) (tol : K) (check : Bool) : Shape K → List (List (Option K) × List ℕ) → Prop
  | _, [] => True
  | S, c :: cs => CallOk n S c.1 c.2 tol ∧ CallsOk n tol check (insertKnot S c.1 c.2 tol check).1 cs

/-- the object after a sequence of `insert_knot` calls -/
abbrev insertCalls (tol : K) (check : Bool) (S : Shape K) (calls : List (List (Option K) × List ℕ)) : Shape K :=
  calls.foldl (fun T c => (insertKnot T c.1 c.2 tol check).1) S

/-- **any sequence of admissible `insert_knot` calls on a surface** -/
theorem insertCalls_surface (d : ℕ) (tol : K) (check : Bool) (calls : List (List (Option K) × List ℕ)) :
    ∀ (S : Shape K), SurfWF d S → CallsOk 2 tol check S calls → SurfSame d S (insertCalls tol check S calls) := by
  induction calls with
  | nil => intro S hS _; exact SurfSame.refl hS
  | cons c cs ih =>
    intro S hS hok
    obtain ⟨h1, h2⟩ := hok
    obtain ⟨a, _, _, _⟩ := insertKnot_surface' d S hS c.1 c.2 tol check h1
    show SurfSame d S (insertCalls tol check (insertKnot S c.1 c.2 tol check).1 cs)
    exact a.trans (ih _ a.wf h2)

/-- **any sequence of admissible `insert_knot` calls on a volume** -/
theorem insertCalls_volume (d : ℕ) (tol : K) (check : Bool) (calls : List (List (Option K) × List ℕ)) :
    ∀ (S : Shape K), VolWF d S → CallsOk 3 tol check S calls → VolSame d S (insertCalls tol check S calls) := by
  induction calls with
  | nil => intro S hS _; exact VolSame.refl hS
  | cons c cs ih =>
    intro S hS hok
    obtain ⟨h1, h2⟩ := hok
    obtain ⟨a, _, _, _⟩ := insertKnot_volume' d S hS c.1 c.2 tol check h1
    show VolSame d S (insertCalls tol check (insertKnot S c.1 c.2 tol check).1 cs)
    exact a.trans (ih _ a.wf h2)

end Geomdl
