import NurbsVerif.Lemmas.FitApproxEval
import NurbsVerif.Lemmas.BasisOne2

/-! `fitting.approximate_curve`, data with distinct consecutive points: the least-squares statement for
    the EVALUATED curve without hypothesis on `basis_function_one` (A2.4 = Cox–de Boor, C03). -/
namespace Geomdl
open Blossom Finset Lin
variable {K : Type} [Field K] [LinearOrder K] [IsStrictOrderedRing K]

/-- `basis_function_one` returns the Cox–de Boor values at the interior parameters -/
theorem approx_basisFunOne_cdb (p : ℕ) (cds : List K) (nc : ℕ) (fl : K → ℕ) (hfl : IsFloor fl)
    (hp : 1 ≤ p) (hpn : p + 1 ≤ nc) (hnd : nc ≤ cds.length + 1) (hpos : ∀ x ∈ cds, 0 < x)
    (k : ℕ) (hk1 : 1 ≤ k) (hk2 : k + 1 < cds.length + 1) (j : ℕ) :
    basisFunOne p (fnOf (computeKnotVector2 p (cds.length + 1) nc (computeParams cds) fl))
        (computeKnotVector2 p (cds.length + 1) nc (computeParams cds) fl).length j ((computeParams cds).getD k 0)
      = cdb (fnOf (computeKnotVector2 p (cds.length + 1) nc (computeParams cds) fl)) p j ((computeParams cds).getD k 0) := by
  obtain ⟨g1, g2, _, g4⟩ := approx_knots_ok p cds nc fl hfl hp hpn hnd hpos
  obtain ⟨hz, ho⟩ := computeKnotVector2_clamped p (cds.length + 1) nc (computeParams cds) fl hpn
  obtain ⟨d1, d2⟩ := g4 k hk1 hk2
  apply basisFunOne_eq_cdb p _ g1 _ j _ d1 (by rw [hz 0 (by omega)]; exact g2)
  intro _
  rw [computeKnotVector2_length p _ nc _ fl hpn, ho (nc + p + 1 - 1) (by omega)]
  rw [ho nc le_rfl] at d2
  exact ne_of_lt d2

/-- **least squares for the evaluated curve**: for data with distinct consecutive points, whenever the
    solver returns, the returned control polygon minimises `Σ_k |Q_k − C(ū_k)|²` (interior data points,
    `C` evaluated by A3.1) among all polygons with the same end points and `nc − 2` interior points. -/
theorem approximateCurve_least_squares (p : ℕ) (pts : List (List K)) (cds : List K) (nc : ℕ) (fl : K → ℕ)
    (kv : List K) (cp : List (List K)) (d : ℕ) (hfl : IsFloor fl) (hp : 1 ≤ p) (hpn : p + 1 ≤ nc)
    (hnc : nc ≤ pts.length) (hlen : cds.length + 1 = pts.length) (hpos : ∀ x ∈ cds, 0 < x)
    (hP : NetOk d pts) (h : approximateCurve p pts cds nc fl = some (kv, cp))
    (y : List (List K)) (hy : y.length = nc - 2) (hyd : NetOk d y) :
    lsqErrorEval p (fnOf kv) (computeParams cds) pts d cp
      ≤ lsqErrorEval p (fnOf kv) (computeParams cds) pts d ([pts.headD []] ++ y ++ [pts.getLastD []]) := by
  have hkv := (approximateCurve_normal p pts cds nc fl kv cp hnc h).1
  apply approximateCurve_minimises_evaluated_distinct p pts cds nc fl kv cp d hfl hp hpn hnc hlen hpos hP h _ y hy hyd
  intro k hk1 hk2 j _
  rw [hkv, ← hlen]
  exact approx_basisFunOne_cdb p cds nc fl hfl hp hpn (by omega) hpos k hk1 (by omega) j

end Geomdl
