import NurbsVerif.Lemmas.ConfigDersRat
import NurbsVerif.Lemmas.AssembleAffine

/-!
  C17, derivatives with the normalised knot vector (`knotvector.normalize`, the `normalize_kv` option): at
  the normalised parameter `(u - first)/(last - first)`, the derivative of order `k` is the derivative
  with the original knots at `u` multiplied by `(last - first)ᵏ`.
-/
set_option linter.unusedSectionVars false

namespace Geomdl
open Blossom
variable {K : Type} [Field K] [LinearOrder K] [IsStrictOrderedRing K]

theorem curveDers_normalized (p : ℕ) (Ul : List K) (P : List (List K)) (u : K) (order : ℕ)
    (hne : Ul ≠ []) (hr : Ul.headD 0 < Ul.getLastD 0) :
    curveDers p (fnOf (knotNormalize Ul)) P ((u - Ul.headD 0) / (Ul.getLastD 0 - Ul.headD 0)) order
      = scaleJet (Ul.getLastD 0 - Ul.headD 0) (curveDers p (fnOf Ul) P u order) := by
  obtain ⟨ha, hf, hu⟩ := normalize_affine Ul hne hr u
  rw [hf, hu, curveDers_affine p (fnOf Ul) P u order _ _ ha, one_div, inv_inv]

theorem ratCurveDers_normalized (p : ℕ) (Ul : List K) (Pw : List (List K)) (u : K) (order : ℕ)
    (hne : Ul ≠ []) (hr : Ul.headD 0 < Ul.getLastD 0) :
    ratCurveDers (curveDers p (fnOf (knotNormalize Ul)) Pw ((u - Ul.headD 0) / (Ul.getLastD 0 - Ul.headD 0)) order)
      = scaleJet (Ul.getLastD 0 - Ul.headD 0) (ratCurveDers (curveDers p (fnOf Ul) Pw u order)) := by
  rw [curveDers_normalized p Ul Pw u order hne hr, ratCurveDers_scale]

theorem surfaceDers_normalized (pu pv : ℕ) (Uul Uvl : List K) (su sv : ℕ) (P : List (List K)) (u v : K) (order : ℕ)
    (tri : Bool) (hneu : Uul ≠ []) (hru : Uul.headD 0 < Uul.getLastD 0) (hnev : Uvl ≠ [])
    (hrv : Uvl.headD 0 < Uvl.getLastD 0) :
    surfaceDersAt pu pv (fnOf (knotNormalize Uul)) (fnOf (knotNormalize Uvl)) sv P
        (findSpanLinear pu (fnOf (knotNormalize Uul)) su ((u - Uul.headD 0) / (Uul.getLastD 0 - Uul.headD 0)))
        (findSpanLinear pv (fnOf (knotNormalize Uvl)) sv ((v - Uvl.headD 0) / (Uvl.getLastD 0 - Uvl.headD 0)))
        ((u - Uul.headD 0) / (Uul.getLastD 0 - Uul.headD 0)) ((v - Uvl.headD 0) / (Uvl.getLastD 0 - Uvl.headD 0))
        order tri
      = scaleJet2 (Uul.getLastD 0 - Uul.headD 0) (Uvl.getLastD 0 - Uvl.headD 0)
          (surfaceDersAt pu pv (fnOf Uul) (fnOf Uvl) sv P (findSpanLinear pu (fnOf Uul) su u)
            (findSpanLinear pv (fnOf Uvl) sv v) u v order tri) := by
  obtain ⟨ha1, hf1, hu1⟩ := normalize_affine Uul hneu hru u
  obtain ⟨ha2, hf2, hu2⟩ := normalize_affine Uvl hnev hrv v
  rw [hf1, hu1, hf2, hu2, surfaceDers_affine pu pv (fnOf Uul) (fnOf Uvl) su sv P u v order tri _ _ _ _ ha1 ha2,
    one_div, inv_inv, one_div, inv_inv]

end Geomdl
