import NurbsVerif.Lemmas.FitDiag
import NurbsVerif.Lemmas.FitKnotsApply
import NurbsVerif.Lemmas.FitGuards
import NurbsVerif.Lemmas.LinalgSDD
import NurbsVerif.Lemmas.LUMinors

/-! The tractable banded case of "the plain LU solver returns on spline collocation matrices": degree 1.  With the
    averaged knot vector of degree 1 every parameter is a knot (`U_{i+1} = ū_i`), the hat functions are `1` at their
    own node and `0` at the others, so `_build_coeff_matrix` returns the identity matrix, Doolittle meets the pivots
    `1, …, 1`, and `lu_solve` returns the data points themselves. -/
namespace Geomdl
open Blossom Finset Lin
variable {K : Type} [Field K] [LinearOrder K] [IsStrictOrderedRing K]

omit [IsStrictOrderedRing K] in
/-- degree 0 at a knot `U_s` that starts a non-empty span: only the function of that span is `1` -/
theorem cdb_zero_at_knot (U : ℕ → K) (hm : Monotone U) (s j : ℕ) (hs : U s < U (s + 1)) :
    cdb U 0 j (U s) = if j = s then 1 else 0 := by
  simp only [cdb]
  by_cases c : j = s
  · subst c
    rw [if_pos ⟨le_refl _, hs⟩, if_pos rfl]
  · rw [if_neg c, if_neg]
    rintro ⟨h1, h2⟩
    rcases Nat.lt_or_ge j s with d | d
    · exact absurd h2 (not_lt.mpr (hm (by omega)))
    · have : U (s + 1) ≤ U j := hm (by omega)
      exact absurd (lt_of_lt_of_le hs this) (not_lt.mpr h1)

omit [IsStrictOrderedRing K] in
/-- **hat functions at a node**: `N_{j,1}(U_s) = δ_{j+1,s}` when the span that starts at `U_s` is not empty -/
theorem cdb_one_at_knot (U : ℕ → K) (hm : Monotone U) (s j : ℕ) (hs : U s < U (s + 1)) :
    cdb U 1 j (U s) = if j + 1 = s then 1 else 0 := by
  have e0 := cdb_zero_at_knot U hm s j hs
  have e1 := cdb_zero_at_knot U hm s (j + 1) hs
  have e2 : cdb U 1 j (U s) = (U s - U j) / (U (j + 1) - U j) * cdb U 0 j (U s)
      + (U (j + 2) - U s) / (U (j + 2) - U (j + 1)) * cdb U 0 (j + 1) (U s) := rfl
  rw [e2, e0, e1]
  by_cases c : j + 1 = s
  · subst c
    have : U (j + 2) - U (j + 1) ≠ 0 := sub_ne_zero.mpr (ne_of_gt hs)
    rw [if_neg (by omega), if_pos rfl, mul_zero, zero_add, mul_one, div_self this]
  · rw [if_neg c, mul_zero, add_zero]
    by_cases d : j = s
    · subst d; rw [if_pos rfl, sub_self, zero_div, zero_mul]
    · rw [if_neg d, mul_zero]

/-- the whole last row of the collocation matrix (parameter at the end of a clamped domain): the unit vector -/
theorem buildCoeffMatrix_last_row (p : ℕ) (U : ℕ → K) (uk : List K) (n i j : ℕ) (hm : Monotone U) (hpn : p + 1 ≤ n)
    (hi : i < uk.length) (hj : j < n) (hu : uk.getD i 0 = U n) (hne : U (n - 1) < U n)
    (hcl : ∀ a, n ≤ a → a < n + p → U a = U n) :
    ent (buildCoeffMatrix p U uk n) i j = if j = n - 1 then 1 else 0 := by
  rw [buildCoeffMatrix_ent p U uk n i j hi hj]
  have hlo : U p ≤ uk.getD i 0 := by rw [hu]; exact hm (by omega)
  obtain ⟨g1, g2, g3, g4⟩ := findSpanLinear_spec p U n (uk.getD i 0) hpn hm hlo
  have hk : findSpanLinear p U n (uk.getD i 0) + 1 = n := by
    rcases g4 with h | h
    · exfalso
      have : U (findSpanLinear p U n (uk.getD i 0) + 1) ≤ U n := hm (by omega)
      have h' : U n < U (findSpanLinear p U n (uk.getD i 0) + 1) := lt_of_eq_of_lt hu.symm h
      exact absurd h' (not_lt.mpr this)
    · exact h
  have hk' : findSpanLinear p U n (uk.getD i 0) = n - 1 := by omega
  rw [hk', hu]
  have e : n - 1 + 1 = n := by omega
  rw [basisFuns_at_clamped_end U (n - 1) (U n) hm (by rw [e]; exact hne) p (by omega)
    (fun a h1 h2 => by
      rcases Nat.eq_or_lt_of_le h1 with h | h
      · rw [← h, e]
      · exact hcl a (by omega) (by omega)) (by rw [e])]
  by_cases c : j = n - 1
  · rw [if_pos c, if_pos (by omega), c, show n - 1 - (n - 1 - p) = p by omega,
      List.getD_append_right _ _ _ _ (by simp)]
    simp
  · rw [if_neg c]
    split_ifs with d
    · rw [List.getD_append _ _ _ _ (by simp; omega)]
      simp only [List.getD_eq_getElem?_getD, List.getElem?_replicate]
      split_ifs <;> rfl
    · rfl

omit [LinearOrder K] [IsStrictOrderedRing K] in
/-- a list of `n` rows of length `n` with the entries of the identity is the list `matrix_identity(n)` builds -/
theorem eq_identity_of_ent (A : List (List K)) (n : ℕ) (hl : A.length = n) (hr : ∀ r ∈ A, r.length = n)
    (h : ∀ i j, i < n → j < n → ent A i j = if i = j then 1 else 0) : A = identity n := by
  apply List.ext_getElem (by simp [identity, tabulate, hl])
  intro i h1 h2
  have hin : i < n := by omega
  apply List.ext_getElem (by simp [identity, tabulate, hr _ (List.getElem_mem h1)])
  intro j h3 h4
  have hjn : j < n := by rw [hr _ (List.getElem_mem h1)] at h3; exact h3
  have e1 := h i j hin hjn
  unfold ent at e1
  simp only [List.getD_eq_getElem?_getD, List.getElem?_eq_getElem h1, Option.getD_some,
    List.getElem?_eq_getElem h3] at e1
  rw [e1]
  simp [identity, tabulate]

/-- **degree 1, every parameter a knot (`ū_i = U_{i+1}`) of a clamped knot vector with distinct interior knots:
    `_build_coeff_matrix` returns the identity matrix** -/
theorem buildCoeffMatrix_one_eq_identity (kv uk : List K) (n : ℕ) (hn : 2 ≤ n) (hC : ClampedKnots 1 n kv)
    (hlen : uk.length = n) (hk : ∀ i, i < n → uk.getD i 0 = fnOf kv (i + 1)) :
    buildCoeffMatrix 1 (fnOf kv) uk n = identity n := by
  apply eq_identity_of_ent _ n (by simp [buildCoeffMatrix, hlen])
  · intro r hr
    simp only [buildCoeffMatrix, List.mem_map] at hr
    obtain ⟨u, _, rfl⟩ := hr
    simp
  · intro i j hi hj
    set U := fnOf kv with hU
    have hUn : U n = 1 := hC.ones n le_rfl
    by_cases c : i + 1 < n
    · have hs : U (i + 1) < U (i + 1 + 1) := hC.strict (i + 1) (by omega) c
      have hlo : U 1 ≤ uk.getD i 0 := by rw [hk i hi]; exact hC.mono (by omega)
      have hhi : uk.getD i 0 < U n := by
        rw [hk i hi]
        exact lt_of_lt_of_le hs (hC.mono (by omega))
      rw [buildCoeffMatrix_ent_cdb 1 U uk n i j hC.mono (by omega) (by omega) hj hlo hhi, hk i hi,
        cdb_one_at_knot U hC.mono (i + 1) j hs]
      by_cases d : i = j
      · rw [if_pos d, if_pos (by omega)]
      · rw [if_neg d, if_neg (by omega)]
    · have hin : i = n - 1 := by omega
      have hu : uk.getD i 0 = U n := by rw [hk i hi, hin]; congr 1; omega
      have hne : U (n - 1) < U n := by
        have := hC.strict (n - 1) (by omega) (by omega)
        rwa [show n - 1 + 1 = n by omega] at this
      rw [buildCoeffMatrix_last_row 1 U uk n i j hC.mono (by omega) (by omega) hj hu hne
        (fun a h1 _ => (hC.ones a h1).trans hUn.symm)]
      by_cases d : i = j
      · rw [if_pos d, if_pos (by omega)]
      · rw [if_neg d, if_neg (by omega)]

/-- with the averaged knot vector of degree 1 (`invp = 1.0/1 = 1`) every parameter is a knot -/
theorem averaged_one_param_is_knot (n : ℕ) (uk : List K) (hn : 2 ≤ n) (hfirst : uk.getD 0 0 = 0)
    (hlast : uk.getD (n - 1) 0 = 1) (i : ℕ) (hi : i < n) :
    uk.getD i 0 = fnOf (computeKnotVector 1 n uk 1) (i + 1) := by
  rw [computeKnotVector_fn 1 n uk 1 (by omega)]
  by_cases c : i + 1 ≤ 1
  · rw [if_pos c, show i = 0 by omega, hfirst]
  · rw [if_neg c]
    by_cases d : i + 1 < n
    · rw [if_pos d]; simp
    · rw [if_neg d, show i = n - 1 by omega, hlast]

/-- **the degree-1 collocation matrix of `interpolate_curve` / `interpolate_surface` is the identity** for parameters
    that run strictly increasing from 0 to 1 (distinct consecutive data points) -/
theorem collocation_one_eq_identity (n : ℕ) (uk : List K) (hn : 2 ≤ n) (hlen : uk.length = n)
    (hfirst : uk.getD 0 0 = 0) (hlast : uk.getD (n - 1) 0 = 1)
    (hstrict : ∀ i j, i < j → j < n → uk.getD i 0 < uk.getD j 0) :
    buildCoeffMatrix 1 (fnOf (computeKnotVector 1 n uk 1)) uk n = identity n :=
  buildCoeffMatrix_one_eq_identity _ uk n hn
    (computeKnotVector_clampedKnots 1 n uk 1 le_rfl (by omega) zero_lt_one (by simp) hlen hfirst hlast hstrict)
    hlen (averaged_one_param_is_knot n uk hn hfirst hlast)

/-- the identity matrix is strictly diagonally dominant -/
theorem identity_sdd (n : ℕ) : SDD (ent (identity n : List (List K))) n := by
  intro i hi
  have : ∑ j ∈ (range n).filter (· ≠ i), |ent (identity n : List (List K)) i j| = 0 := by
    apply sum_eq_zero
    intro j hj
    simp only [mem_filter, mem_range] at hj
    rw [ent_identity' n i j hi hj.1, if_neg (fun e => hj.2 e.symm), abs_zero]
  rw [this, ent_identity' n i i hi hi, if_pos rfl, abs_one]
  exact zero_lt_one

/-- `lu_solve(I, b)` returns `b` (entrywise; `b` with `n` rows) -/
theorem luSolve_identity (n : ℕ) (b : List (List K)) (hb : b.length = n) :
    ∃ x, luSolve (identity n : List (List K)) b = some x ∧ x.length = n ∧
      ∀ i, i < n → ∀ c, c < (b.headD []).length → ent x i c = ent b i c := by
  have hl : (identity n : List (List K)).length = n := by simp [identity, tabulate]
  have hb' : b.length = (identity n : List (List K)).length := by rw [hl, hb]
  obtain ⟨x, hx⟩ := luSolve_isSome (identity n : List (List K)) b hb'
    (by rw [hl]; exact sdd_pivots_ne_zero _ n (identity_sdd n))
  obtain ⟨h1, _, h3⟩ := luSolve_correct _ _ _ hb' hx
  rw [hl] at h1 h3
  refine ⟨x, hx, h1, ?_⟩
  intro i hi c hc
  rw [← h3 i hi c hc]
  have : ∀ j ∈ range n, ent (identity n : List (List K)) i j * ent x j c = if i = j then ent x j c else 0 := by
    intro j hj
    rw [ent_identity' n i j hi (mem_range.mp hj)]
    split_ifs <;> simp
  rw [sum_congr rfl this, sum_ite_eq, if_pos (mem_range.mpr hi)]

/-- the collocation matrix of `interpolate_curve(points, 1)` (chord-length parameters of data whose consecutive points
    are distinct, `1.0/degree = 1`) is the identity -/
theorem interpolateCurve_one_matrix (cds : List K) (hne : 1 ≤ cds.length) (hpos : ∀ x ∈ cds, 0 < x) :
    buildCoeffMatrix 1 (fnOf (computeKnotVector 1 (cds.length + 1) (computeParams cds) 1)) (computeParams cds)
      (cds.length + 1) = identity (cds.length + 1) := by
  obtain ⟨g1, g2, g3, g4⟩ := computeParams_ok cds hne hpos
  exact collocation_one_eq_identity (cds.length + 1) _ (by omega) g1 g2 g3 g4

/-- the same for a direction of `interpolate_surface` (averaged parameters of `compute_params_surface`) -/
theorem interpolateSurface_one_matrix (n : ℕ) (cdsList : List (List K)) (hn : 2 ≤ n)
    (hc : cdsList ≠ [] ∧ ∀ c ∈ cdsList, c.length + 1 = n ∧ ∀ x ∈ c, 0 < x) :
    buildCoeffMatrix 1 (fnOf (computeKnotVector 1 n (averageParams cdsList n) 1)) (averageParams cdsList n) n
      = identity n := by
  obtain ⟨g1, g2, g3, g4⟩ := averageParams_ok cdsList n (by omega) hc
  exact collocation_one_eq_identity n _ hn g1 g2 g3 g4

/-- **`interpolate_curve` of degree 1 always returns** (consecutive data points distinct), with the data points as
    control points -/
theorem interpolateCurve_one_returns (pts : List (List K)) (cds : List K) (hg : InterpCurveOk 1 pts cds)
    (hpos : ∀ x ∈ cds, 0 < x) :
    ∃ cp, interpolateCurve 1 pts cds 1 = some (computeKnotVector 1 pts.length (computeParams cds) 1, cp) ∧
      cp.length = pts.length ∧ ∀ i, i < pts.length → ∀ c, c < (pts.headD []).length → ent cp i c = ent pts i c := by
  have hl := hg.len
  have hpn := hg.pn
  unfold interpolateCurve
  simp only
  rw [← hl, interpolateCurve_one_matrix cds (by omega) hpos]
  obtain ⟨x, hx, h1, h2⟩ := luSolve_identity (cds.length + 1) pts hl.symm
  rw [hx]
  exact ⟨x, rfl, by rw [h1], fun i hi c hc => h2 i hi c hc⟩

end Geomdl
