/-
  Lemmas for C13, part 5: transposition swaps the roles of `u` and `v` in evaluation.
  The A3.5 model `surfacePointAt` (Model/Eval.lean) is a nested `linComb`; coordinate `j` of a
  `linComb` of vectors of one common length is the weighted sum of the coordinates, and two nested
  weighted sums commute.
-/
import NurbsVerif.Model.Eval
import NurbsVerif.Lemmas.LayoutOps
import NurbsVerif.Lemmas.Diag
import Mathlib.Algebra.BigOperators.Group.Finset.Basic
import Mathlib.Algebra.BigOperators.Group.Finset.Sigma
import Mathlib.Algebra.BigOperators.Ring.Finset
import Mathlib.Tactic.Ring

namespace Geomdl
open Finset
variable {K : Type} [Field K]

theorem length_vadd (a b : List K) : (vadd a b).length = min a.length b.length := by
  unfold vadd; simp

theorem getD_vadd (a b : List K) (h : a.length = b.length) (j : ℕ) :
    (vadd a b).getD j 0 = a.getD j 0 + b.getD j 0 := by
  unfold vadd
  simp only [List.getD_eq_getElem?_getD, List.getElem?_zipWith]
  by_cases hj : j < a.length
  · have hj' : j < b.length := by omega
    simp [List.getElem?_eq_getElem hj, List.getElem?_eq_getElem hj']
  · simp [List.getElem?_eq_none (by omega : a.length ≤ j), List.getElem?_eq_none (by omega : b.length ≤ j)]

theorem getD_vsmul (c : K) (a : List K) (j : ℕ) : (vsmul c a).getD j 0 = c * a.getD j 0 := by
  unfold vsmul
  simp only [List.getD_eq_getElem?_getD, List.getElem?_map]
  by_cases hj : j < a.length
  · simp [List.getElem?_eq_getElem hj]
  · simp [List.getElem?_eq_none (by omega : a.length ≤ j)]

/-- the fold of `linComb` from an arbitrary start of the right length -/
theorem linComb_fold (d : ℕ) : ∀ (N : List K) (f : ℕ → List K) (s m : ℕ) (acc : List K),
    acc.length = d → (∀ i, s ≤ i → i < s + m → (f i).length = d) → N.length = m →
    ((List.zip N ((List.range' s m).map f)).foldl (fun acc x => vadd acc (vsmul x.1 x.2)) acc).length = d ∧
    ∀ j, ((List.zip N ((List.range' s m).map f)).foldl (fun acc x => vadd acc (vsmul x.1 x.2)) acc).getD j 0
      = acc.getD j 0 + ∑ i ∈ range m, N.getD i 0 * (f (s + i)).getD j 0
  | [], f, s, m, acc, hacc, _, hN => by
      simp at hN; subst hN; simp [hacc]
  | n :: N, f, s, m, acc, hacc, hf, hN => by
      obtain ⟨m', rfl⟩ : ∃ m', m = m' + 1 := ⟨N.length, by simp at hN; omega⟩
      have hfs : (f s).length = d := hf s (le_refl _) (by omega)
      have hacc' : (vadd acc (vsmul n (f s))).length = d := by
        rw [length_vadd]; unfold vsmul; simp [hacc, hfs]
      have ih := linComb_fold d N f (s + 1) m' (vadd acc (vsmul n (f s))) hacc'
        (fun i h1 h2 => hf i (by omega) (by omega)) (by simpa using hN)
      simp only [List.range'_succ, List.map_cons, List.zip_cons_cons, List.foldl_cons]
      refine ⟨ih.1, fun j => ?_⟩
      rw [ih.2 j, getD_vadd _ _ (by unfold vsmul; simp [hacc, hfs]), getD_vsmul, Finset.sum_range_succ']
      simp only [List.getD_cons_succ, List.getD_cons_zero, Nat.add_zero]
      have : ∀ i, s + 1 + i = s + (i + 1) := by intro i; omega
      simp only [this]; ring

theorem layout_linComb_range (d : ℕ) (N : List K) (f : ℕ → List K) (m : ℕ) (hN : N.length = m)
    (hf : ∀ i, i < m → (f i).length = d) :
    (linComb d N ((List.range m).map f)).length = d ∧
    ∀ j, (linComb d N ((List.range m).map f)).getD j 0 = ∑ i ∈ range m, N.getD i 0 * (f i).getD j 0 := by
  have h := linComb_fold d N f 0 m (vzero d) (by simp [vzero]) (fun i _ hi => hf i (by omega)) hN
  unfold linComb
  rw [List.range_eq_range']
  refine ⟨h.1, fun j => ?_⟩
  rw [h.2 j]
  have : (vzero d : List K).getD j 0 = 0 := by
    unfold vzero; simp only [List.getD_eq_getElem?_getD, List.getElem?_replicate]; split <;> rfl
  rw [this]; simp

theorem list_eq_of_getD {a b : List K} {d : ℕ} (ha : a.length = d) (hb : b.length = d)
    (h : ∀ j, a.getD j 0 = b.getD j 0) : a = b := by
  apply List.ext_getElem (by rw [ha, hb])
  intro i h1 h2
  have := h i
  simp only [List.getD_eq_getElem?_getD, List.getElem?_eq_getElem h1, List.getElem?_eq_getElem h2,
    Option.getD_some] at this
  exact this

/-- coordinates of the A3.5 point, for nets whose points have one common length -/
theorem surfacePointAt_coord (pu pv : ℕ) (Uu Uv : ℕ → K) (sv : ℕ) (P : List (List K)) (spanU spanV : ℕ) (u v : K)
    (d : ℕ) (hdim : dimOf P = d)
    (hpt : ∀ k, k < pu + 1 → ∀ l, l < pv + 1 → (ptsGet P (spanV - pv + l + sv * (spanU - pu + k))).length = d) :
    (surfacePointAt pu pv Uu Uv sv P spanU spanV u v).length = d ∧
    ∀ j, (surfacePointAt pu pv Uu Uv sv P spanU spanV u v).getD j 0 =
      ∑ k ∈ range (pu + 1), (basisFuns pu Uu spanU u).getD k 0 *
        ∑ l ∈ range (pv + 1), (basisFuns pv Uv spanV v).getD l 0 *
          (ptsGet P (spanV - pv + l + sv * (spanU - pu + k))).getD j 0 := by
  unfold surfacePointAt
  simp only [hdim]
  have inner : ∀ k, k < pu + 1 → _ := fun k hk =>
    layout_linComb_range d (basisFuns pv Uv spanV v) (fun l => ptsGet P (spanV - pv + l + sv * (spanU - pu + k)))
      (pv + 1) (Blossom.basisFuns_length pv Uv spanV v) (fun l hl => hpt k hk l hl)
  have outer := layout_linComb_range d (basisFuns pu Uu spanU u)
    (fun k => linComb d (basisFuns pv Uv spanV v)
      ((List.range (pv + 1)).map fun l => ptsGet P (spanV - pv + l + sv * (spanU - pu + k))))
    (pu + 1) (Blossom.basisFuns_length pu Uu spanU u) (fun k hk => (inner k hk).1)
  refine ⟨outer.1, fun j => ?_⟩
  rw [outer.2 j]
  apply Finset.sum_congr rfl
  intro k hk
  rw [(inner k (Finset.mem_range.1 hk)).2 j]

/-- `S^T(v, u) = S(u, v)` on given spans -/
theorem transposeSrf_surfacePointAt (S : Srf (List K) (ℕ → K)) (h : S.WF) (d : ℕ)
    (hd : ∀ p ∈ S.pts, p.length = d) (spanU spanV : ℕ) (hpU : S.du ≤ spanU) (hpV : S.dv ≤ spanV)
    (hU : spanU < S.su) (hV : spanV < S.sv) (u v : K) :
    surfacePointAt (transposeSrf S).du (transposeSrf S).dv (transposeSrf S).ku (transposeSrf S).kv
        (transposeSrf S).sv (transposeSrf S).pts spanV spanU v u
      = surfacePointAt S.du S.dv S.ku S.kv S.sv S.pts spanU spanV u v := by
  obtain ⟨hl, hsu, hsv⟩ := h
  have hT := transposeSrf_eq S (by omega)
  -- every addressed point of `S` has length `d`
  have hin : ∀ a b, a < S.su → b < S.sv → (ptsGet S.pts (b + S.sv * a)).length = d := by
    intro a b ha hb
    have hlt : b + S.sv * a < S.pts.length := by rw [hl]; exact flatIdx2_lt ha hb
    unfold ptsGet
    rw [List.getD_eq_getElem?_getD, List.getElem?_eq_getElem hlt]
    exact hd _ (List.getElem_mem hlt)
  have hdimS : dimOf S.pts = d := by
    have := hin 0 0 (by omega) (by omega)
    unfold ptsGet at this; unfold dimOf
    rw [List.headD_eq_head?_getD, List.head?_eq_getElem?]
    simpa [List.getD_eq_getElem?_getD] using this
  -- the transposed net, entry by entry
  have hTpt : ∀ a b, a < S.su → b < S.sv →
      ptsGet (transposeSrf S).pts (a + S.su * b) = ptsGet S.pts (b + S.sv * a) := by
    intro a b ha hb
    have := transposeSrf_at S ha hb
    unfold Srf.at flatIdx2 at this
    unfold ptsGet
    have e : (transposeSrf S).sv = S.su := by rw [hT]
    rw [e] at this
    exact this
  have hdimT : dimOf (transposeSrf S).pts = d := by
    have := hTpt 0 0 (by omega) (by omega)
    rw [← hin 0 0 (by omega) (by omega), ← this]
    unfold ptsGet dimOf
    rw [List.headD_eq_head?_getD, List.head?_eq_getElem?]
    simp [List.getD_eq_getElem?_getD]
  have e1 : (transposeSrf S).du = S.dv := by rw [hT]
  have e2 : (transposeSrf S).dv = S.du := by rw [hT]
  have e3 : (transposeSrf S).ku = S.kv := by rw [hT]
  have e4 : (transposeSrf S).kv = S.ku := by rw [hT]
  have e5 : (transposeSrf S).sv = S.su := by rw [hT]
  rw [e1, e2, e3, e4, e5]
  have cS := surfacePointAt_coord S.du S.dv S.ku S.kv S.sv S.pts spanU spanV u v d hdimS
    (fun k hk l hl => hin _ _ (by omega) (by omega))
  have cT := surfacePointAt_coord S.dv S.du S.kv S.ku S.su (transposeSrf S).pts spanV spanU v u d hdimT
    (fun l hl k hk => by rw [hTpt _ _ (by omega) (by omega)]; exact hin _ _ (by omega) (by omega))
  apply list_eq_of_getD cT.1 cS.1
  intro j
  rw [cT.2 j, cS.2 j]
  simp only [Finset.mul_sum]
  rw [Finset.sum_comm]
  apply Finset.sum_congr rfl
  intro k hk
  apply Finset.sum_congr rfl
  intro l hl
  have hk' := Finset.mem_range.1 hk
  have hl' := Finset.mem_range.1 hl
  rw [hTpt _ _ (by omega) (by omega)]
  ring

end Geomdl
