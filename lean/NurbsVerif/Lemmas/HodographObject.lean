import NurbsVerif.Lemmas.HodographSurfAll
import NurbsVerif.Lemmas.AssembleAffine
import NurbsVerif.Lemmas.AssembleWF
import NurbsVerif.Lemmas.HodographWitness

/-!
  The hodograph OBJECTS: `operations.derivative_curve` / `derivative_surface` hand `U[1:-1]` to the knot-vector
  setter of the new object, which stores `knotvector.normalize(U[1:-1])` (`normalize_kv=True`).

  * when `U[1:-1]` already spans `[0, 1]` (clamped input on `[0,1]` – the library's default) the setter is the
    identity and the object evaluated at the SAME parameter is the derivative;
  * in general the object is the derivative re-parametrised: evaluated at `(u - U[1]) / (U[-2] - U[1])` it gives
    `C'(u)` (finding F-02c: at the same parameter it does not).
-/
set_option linter.unusedSectionVars false

namespace Geomdl
open Blossom Polynomial
open scoped Polynomial.Bivariate
variable {K : Type} [Field K] [LinearOrder K] [IsStrictOrderedRing K]

/-- `knotvector.normalize` is the identity on a knot vector that starts at 0 and ends at 1 -/
theorem knotNormalize_id (V : List K) (h0 : V.headD 0 = 0) (h1 : V.getLastD 0 = 1) : knotNormalize V = V := by
  unfold knotNormalize
  simp only [h0, h1, sub_zero, div_one]
  exact List.map_id' V

/-! ### curves -/

/-- the stored hodograph curve, same parameter, on the span given (`U[1:-1]` spans `[0,1]`) -/
theorem hodograph_object_at_span (p : ℕ) (U : List K) (P : List (List K)) (κ : ℕ) (u : K) (d j : ℕ)
    (hp2 : 2 ≤ p) (hp : p ≤ κ) (hκ : κ < P.length) (hU : U.length = P.length + p + 1) (hP : NetOk d P)
    (hm : Monotone (fnOf U)) (hspan : fnOf U κ < fnOf U (κ+1))
    (h0 : (kvInner U).headD 0 = 0) (h1 : (kvInner U).getLastD 0 = 1) :
    (curvePointAt (derivativeCurve p U P).1 (fnOf (knotNormalize (derivativeCurve p U P).2.1))
        (derivativeCurve p U P).2.2 (κ - 1) u).getD j 0
      = eval u (derivative (spanPoly p (fnOf U) P κ j)) := by
  have hkv : (derivativeCurve p U P).2.1 = kvInner U := rfl
  rw [hkv, knotNormalize_id _ h0 h1]
  exact hodograph_true p U P κ u d j (by omega) hp hκ hU hP hm hspan

/-- the stored hodograph curve evaluated as the library evaluates a curve, same parameter, whole closed domain -/
theorem hodograph_object_on_domain (p d : ℕ) (U : List K) (P : List (List K)) (hC : CurveWF p d U P) (hp2 : 2 ≤ p)
    (h0 : (kvInner U).headD 0 = 0) (h1 : (kvInner U).getLastD 0 = 1)
    (u : K) (hlo : fnOf U p ≤ u) (hhi : u ≤ fnOf U P.length) (j : ℕ) :
    (curvePoint (derivativeCurve p U P).1 (fnOf (knotNormalize (derivativeCurve p U P).2.1))
        (derivativeCurve p U P).2.2 u).getD j 0
      = eval u (derivative (spanPoly p (fnOf U) P (findSpanLinear p (fnOf U) P.length u) j)) := by
  obtain ⟨hs, _, _⟩ := findSpanLinear_dom hC.knotsOk u hlo hhi
  have hkv : (derivativeCurve p U P).2.1 = kvInner U := rfl
  rw [hkv, knotNormalize_id _ h0 h1]
  exact hodograph_curvePoint_true p U P u d j (by omega) hC.pn hC.len hC.net hC.mono hlo hs.nonempty

/-- the stored hodograph curve for ANY knot vector: it is the derivative re-parametrised by the affine map of the
    setter, `u ↦ (u - U[1]) / (U[-2] - U[1])` -/
theorem hodograph_object_reparam (p d : ℕ) (U : List K) (P : List (List K)) (hC : CurveWF p d U P) (hp2 : 2 ≤ p)
    (hr : (kvInner U).headD 0 < (kvInner U).getLastD 0)
    (u : K) (hlo : fnOf U p ≤ u) (hhi : u ≤ fnOf U P.length) (j : ℕ) :
    (curvePoint (derivativeCurve p U P).1 (fnOf (knotNormalize (derivativeCurve p U P).2.1))
        (derivativeCurve p U P).2.2
        ((u - (kvInner U).headD 0) / ((kvInner U).getLastD 0 - (kvInner U).headD 0))).getD j 0
      = eval u (derivative (spanPoly p (fnOf U) P (findSpanLinear p (fnOf U) P.length u) j)) := by
  obtain ⟨hs, _, _⟩ := findSpanLinear_dom hC.knotsOk u hlo hhi
  have hkv : (derivativeCurve p U P).2.1 = kvInner U := rfl
  have hne : kvInner U ≠ [] := by
    intro h
    have := kvInner_length U
    rw [h, hC.len] at this
    simp at this
    have := hC.pn
    omega
  rw [hkv, curvePoint_normalized _ (kvInner U) _ u hne hr]
  exact hodograph_curvePoint_true p U P u d j (by omega) hC.pn hC.len hC.net hC.mono hlo hs.nonempty

/-! ### surfaces -/

/-- the surface described by constructor data, evaluated as the library evaluates a surface (two span searches) -/
def surfDataPoint (s : SurfData K) (u v : K) : List K :=
  surfacePoint s.1 s.2.1 (fnOf s.2.2.1) (fnOf s.2.2.2.1) s.2.2.2.2.1 s.2.2.2.2.2.1 s.2.2.2.2.2.2 u v

theorem surfDataPoint_eq (s : SurfData K) (u v : K) :
    surfDataPoint s u v = surfDataPointAt s (findSpanLinear s.1 (fnOf s.2.2.1) s.2.2.2.2.1 u)
      (findSpanLinear s.2.1 (fnOf s.2.2.2.1) s.2.2.2.2.2.1 v) u v := rfl

/-- normalisation is the identity on data whose flagged knot vectors span `[0, 1]` -/
theorem surfDataNormalize_id (nu nv : Bool) (s : SurfData K)
    (hu : nu = true → s.2.2.1.headD 0 = 0 ∧ s.2.2.1.getLastD 0 = 1)
    (hv : nv = true → s.2.2.2.1.headD 0 = 0 ∧ s.2.2.2.1.getLastD 0 = 1) : surfDataNormalize nu nv s = s := by
  obtain ⟨a, b, c, e, f, g, h⟩ := s
  unfold surfDataNormalize
  have e1 : (if nu then knotNormalize c else c) = c := by
    cases nu with
    | false => rfl
    | true => simpa using knotNormalize_id c (hu rfl).1 (hu rfl).2
  have e2 : (if nv then knotNormalize e else e) = e := by
    cases nv with
    | false => rfl
    | true => simpa using knotNormalize_id e (hv rfl).1 (hv rfl).2
  simp only [e1, e2]

/-- the three hodograph surfaces through the span search of each of them (data before the setter) -/
theorem derivativeSurface_point_true (pu pv : ℕ) (Uu Uv : List K) (su sv : ℕ) (P : List (List K)) (u v : K) (d c : ℕ)
    (hpu1 : 1 ≤ pu) (hpv1 : 1 ≤ pv) (hUu : Uu.length = su + pu + 1) (hUv : Uv.length = sv + pv + 1)
    (hKu : KnotsOk pu (fnOf Uu) su) (hKv : KnotsOk pv (fnOf Uv) sv) (hlen : P.length = su * sv) (hP : NetOk d P)
    (hu1 : fnOf Uu pu ≤ u) (hu2 : u ≤ fnOf Uu su) (hv1 : fnOf Uv pv ≤ v) (hv2 : v ≤ fnOf Uv sv) :
    (surfDataPoint (derivativeSurface pu pv Uu Uv su sv P).1 u v).getD c 0
      = (pderivU (surfSpanPoly pu pv (fnOf Uu) (fnOf Uv) sv P (findSpanLinear pu (fnOf Uu) su u)
          (findSpanLinear pv (fnOf Uv) sv v) c)).evalEval u v ∧
    (surfDataPoint (derivativeSurface pu pv Uu Uv su sv P).2.1 u v).getD c 0
      = (pderivV (surfSpanPoly pu pv (fnOf Uu) (fnOf Uv) sv P (findSpanLinear pu (fnOf Uu) su u)
          (findSpanLinear pv (fnOf Uv) sv v) c)).evalEval u v ∧
    (surfDataPoint (derivativeSurface pu pv Uu Uv su sv P).2.2 u v).getD c 0
      = (pderivU (pderivV (surfSpanPoly pu pv (fnOf Uu) (fnOf Uv) sv P (findSpanLinear pu (fnOf Uu) su u)
          (findSpanLinear pv (fnOf Uv) sv v) c))).evalEval u v := by
  obtain ⟨hsu, hpu, hκu⟩ := findSpanLinear_dom hKu u hu1 hu2
  obtain ⟨hsv, hpv, hκv⟩ := findSpanLinear_dom hKv v hv1 hv2
  obtain ⟨h1, h2, h3⟩ := derivativeSurface_true pu pv Uu Uv su sv P _ _ u v d c hpu1 hpv1 hpu hpv hκu hκv hlen hP
    hUu hUv hKu.mono hKv.mono hsu.nonempty hsv.nonempty
  have eu := hodograph_span pu Uu su u hpu1 hKu.pn hUu
  have ev := hodograph_span pv Uv sv v hpv1 hKv.pn hUv
  refine ⟨?_, ?_, ?_⟩
  · rw [surfDataPoint_eq]
    show (surfDataPointAt _ (findSpanLinear (pu - 1) (fnOf (kvInner Uu)) (su - 1) u)
      (findSpanLinear pv (fnOf Uv) sv v) u v).getD c 0 = _
    rw [eu]; exact h1
  · rw [surfDataPoint_eq]
    show (surfDataPointAt _ (findSpanLinear pu (fnOf Uu) su u)
      (findSpanLinear (pv - 1) (fnOf (kvInner Uv)) (sv - 1) v) u v).getD c 0 = _
    rw [ev]; exact h2
  · rw [surfDataPoint_eq]
    show (surfDataPointAt _ (findSpanLinear (pu - 1) (fnOf (kvInner Uu)) (su - 1) u)
      (findSpanLinear (pv - 1) (fnOf (kvInner Uv)) (sv - 1) v) u v).getD c 0 = _
    rw [eu, ev]; exact h3

/-- one-direction forms of `surfacePoint_normalized` -/
theorem surfacePoint_normalized_u (pu pv : ℕ) (Uul : List K) (Uv : ℕ → K) (su sv : ℕ) (P : List (List K)) (u v : K)
    (hneu : Uul ≠ []) (hru : Uul.headD 0 < Uul.getLastD 0) :
    surfacePoint pu pv (fnOf (knotNormalize Uul)) Uv su sv P
        ((u - Uul.headD 0) / (Uul.getLastD 0 - Uul.headD 0)) v
      = surfacePoint pu pv (fnOf Uul) Uv su sv P u v := by
  obtain ⟨ha1, hf1, hu1⟩ := normalize_affine Uul hneu hru u
  have := surfacePoint_affine_knots pu pv (fnOf Uul) Uv su sv P u v (1 / (Uul.getLastD 0 - Uul.headD 0))
    (-(Uul.headD 0) / (Uul.getLastD 0 - Uul.headD 0)) 1 0 ha1 one_pos
  simp only [one_mul, add_zero] at this
  rw [hf1, hu1]
  exact this

theorem surfacePoint_normalized_v (pu pv : ℕ) (Uu : ℕ → K) (Uvl : List K) (su sv : ℕ) (P : List (List K)) (u v : K)
    (hnev : Uvl ≠ []) (hrv : Uvl.headD 0 < Uvl.getLastD 0) :
    surfacePoint pu pv Uu (fnOf (knotNormalize Uvl)) su sv P
        u ((v - Uvl.headD 0) / (Uvl.getLastD 0 - Uvl.headD 0))
      = surfacePoint pu pv Uu (fnOf Uvl) su sv P u v := by
  obtain ⟨ha2, hf2, hu2⟩ := normalize_affine Uvl hnev hrv v
  have := surfacePoint_affine_knots pu pv Uu (fnOf Uvl) su sv P u v 1 0 (1 / (Uvl.getLastD 0 - Uvl.headD 0))
    (-(Uvl.headD 0) / (Uvl.getLastD 0 - Uvl.headD 0)) one_pos ha2
  simp only [one_mul, add_zero] at this
  rw [hf2, hu2]
  exact this

/-- the parameter map of the setter in a direction: the affine map of `knotvector.normalize` when the direction is
    normalised, the identity otherwise -/
def normParam (n : Bool) (V : List K) (u : K) : K :=
  if n then (u - V.headD 0) / (V.getLastD 0 - V.headD 0) else u

/-- a normalised surface evaluated at the mapped parameters is the original one at the original parameters -/
theorem surfDataPoint_normalize (nu nv : Bool) (s : SurfData K) (u v : K)
    (hu : nu = true → s.2.2.1 ≠ [] ∧ s.2.2.1.headD 0 < s.2.2.1.getLastD 0)
    (hv : nv = true → s.2.2.2.1 ≠ [] ∧ s.2.2.2.1.headD 0 < s.2.2.2.1.getLastD 0) :
    surfDataPoint (surfDataNormalize nu nv s) (normParam nu s.2.2.1 u) (normParam nv s.2.2.2.1 v)
      = surfDataPoint s u v := by
  obtain ⟨a, b, c, e, f, g, h⟩ := s
  unfold surfDataPoint surfDataNormalize normParam
  cases nu <;> cases nv
  · rfl
  · exact surfacePoint_normalized_v a b (fnOf c) e f g h u v (hv rfl).1 (hv rfl).2
  · exact surfacePoint_normalized_u a b c (fnOf e) f g h u v (hu rfl).1 (hu rfl).2
  · exact surfacePoint_normalized a b c e f g h u v (hu rfl).1 (hu rfl).2 (hv rfl).1 (hv rfl).2

theorem kvInner_ne_nil (U : List K) (n p : ℕ) (hU : U.length = n + p + 1) (h : 2 ≤ n + p) : kvInner U ≠ [] := by
  intro h0
  have := kvInner_length U
  rw [h0, hU] at this
  simp at this
  omega

/-- **the three hodograph surface OBJECTS, same parameters** (`U[1:-1]` spans `[0,1]` in both directions): the
    setters are the identity, each stored surface evaluated through its own span searches is the partial derivative -/
theorem derivativeSurface_objects_true (norm : Bool) (pu pv : ℕ) (Uu Uv : List K) (su sv : ℕ) (P : List (List K))
    (u v : K) (d c : ℕ)
    (hpu1 : 1 ≤ pu) (hpv1 : 1 ≤ pv) (hUu : Uu.length = su + pu + 1) (hUv : Uv.length = sv + pv + 1)
    (hKu : KnotsOk pu (fnOf Uu) su) (hKv : KnotsOk pv (fnOf Uv) sv) (hlen : P.length = su * sv) (hP : NetOk d P)
    (h0u : (kvInner Uu).headD 0 = 0) (h1u : (kvInner Uu).getLastD 0 = 1)
    (h0v : (kvInner Uv).headD 0 = 0) (h1v : (kvInner Uv).getLastD 0 = 1)
    (hu1 : fnOf Uu pu ≤ u) (hu2 : u ≤ fnOf Uu su) (hv1 : fnOf Uv pv ≤ v) (hv2 : v ≤ fnOf Uv sv) :
    (surfDataPoint (surfDataNormalize norm false (derivativeSurface pu pv Uu Uv su sv P).1) u v).getD c 0
      = (pderivU (surfSpanPoly pu pv (fnOf Uu) (fnOf Uv) sv P (findSpanLinear pu (fnOf Uu) su u)
          (findSpanLinear pv (fnOf Uv) sv v) c)).evalEval u v ∧
    (surfDataPoint (surfDataNormalize false norm (derivativeSurface pu pv Uu Uv su sv P).2.1) u v).getD c 0
      = (pderivV (surfSpanPoly pu pv (fnOf Uu) (fnOf Uv) sv P (findSpanLinear pu (fnOf Uu) su u)
          (findSpanLinear pv (fnOf Uv) sv v) c)).evalEval u v ∧
    (surfDataPoint (surfDataNormalize true true (derivativeSurface pu pv Uu Uv su sv P).2.2) u v).getD c 0
      = (pderivU (pderivV (surfSpanPoly pu pv (fnOf Uu) (fnOf Uv) sv P (findSpanLinear pu (fnOf Uu) su u)
          (findSpanLinear pv (fnOf Uv) sv v) c))).evalEval u v := by
  have e1 : surfDataNormalize norm false (derivativeSurface pu pv Uu Uv su sv P).1
      = (derivativeSurface pu pv Uu Uv su sv P).1 :=
    surfDataNormalize_id _ _ _ (fun _ => ⟨h0u, h1u⟩) (fun h => by simp at h)
  have e2 : surfDataNormalize false norm (derivativeSurface pu pv Uu Uv su sv P).2.1
      = (derivativeSurface pu pv Uu Uv su sv P).2.1 :=
    surfDataNormalize_id _ _ _ (fun h => by simp at h) (fun _ => ⟨h0v, h1v⟩)
  have e3 : surfDataNormalize true true (derivativeSurface pu pv Uu Uv su sv P).2.2
      = (derivativeSurface pu pv Uu Uv su sv P).2.2 :=
    surfDataNormalize_id _ _ _ (fun _ => ⟨h0u, h1u⟩) (fun _ => ⟨h0v, h1v⟩)
  rw [e1, e2, e3]
  exact derivativeSurface_point_true pu pv Uu Uv su sv P u v d c hpu1 hpv1 hUu hUv hKu hKv hlen hP hu1 hu2 hv1 hv2

/-- **the three hodograph surface OBJECTS for any knot vectors**: each stored surface is the partial derivative
    re-parametrised by the affine maps of the setters that normalise -/
theorem derivativeSurface_objects_reparam (norm : Bool) (pu pv : ℕ) (Uu Uv : List K) (su sv : ℕ) (P : List (List K))
    (u v : K) (d c : ℕ)
    (hpu1 : 1 ≤ pu) (hpv1 : 1 ≤ pv) (hUu : Uu.length = su + pu + 1) (hUv : Uv.length = sv + pv + 1)
    (hKu : KnotsOk pu (fnOf Uu) su) (hKv : KnotsOk pv (fnOf Uv) sv) (hlen : P.length = su * sv) (hP : NetOk d P)
    (hru : (kvInner Uu).headD 0 < (kvInner Uu).getLastD 0) (hrv : (kvInner Uv).headD 0 < (kvInner Uv).getLastD 0)
    (hu1 : fnOf Uu pu ≤ u) (hu2 : u ≤ fnOf Uu su) (hv1 : fnOf Uv pv ≤ v) (hv2 : v ≤ fnOf Uv sv) :
    (surfDataPoint (surfDataNormalize norm false (derivativeSurface pu pv Uu Uv su sv P).1)
        (normParam norm (kvInner Uu) u) v).getD c 0
      = (pderivU (surfSpanPoly pu pv (fnOf Uu) (fnOf Uv) sv P (findSpanLinear pu (fnOf Uu) su u)
          (findSpanLinear pv (fnOf Uv) sv v) c)).evalEval u v ∧
    (surfDataPoint (surfDataNormalize false norm (derivativeSurface pu pv Uu Uv su sv P).2.1)
        u (normParam norm (kvInner Uv) v)).getD c 0
      = (pderivV (surfSpanPoly pu pv (fnOf Uu) (fnOf Uv) sv P (findSpanLinear pu (fnOf Uu) su u)
          (findSpanLinear pv (fnOf Uv) sv v) c)).evalEval u v ∧
    (surfDataPoint (surfDataNormalize true true (derivativeSurface pu pv Uu Uv su sv P).2.2)
        (normParam true (kvInner Uu) u) (normParam true (kvInner Uv) v)).getD c 0
      = (pderivU (pderivV (surfSpanPoly pu pv (fnOf Uu) (fnOf Uv) sv P (findSpanLinear pu (fnOf Uu) su u)
          (findSpanLinear pv (fnOf Uv) sv v) c))).evalEval u v := by
  have hneu := kvInner_ne_nil Uu su pu hUu (by have := hKu.pn; omega)
  have hnev := kvInner_ne_nil Uv sv pv hUv (by have := hKv.pn; omega)
  obtain ⟨h1, h2, h3⟩ := derivativeSurface_point_true pu pv Uu Uv su sv P u v d c hpu1 hpv1 hUu hUv hKu hKv hlen hP
    hu1 hu2 hv1 hv2
  have e1 := surfDataPoint_normalize norm false (derivativeSurface pu pv Uu Uv su sv P).1 u v
    (fun _ => ⟨hneu, hru⟩) (fun h => by simp at h)
  have e2 := surfDataPoint_normalize false norm (derivativeSurface pu pv Uu Uv su sv P).2.1 u v
    (fun h => by simp at h) (fun _ => ⟨hnev, hrv⟩)
  have e3 := surfDataPoint_normalize true true (derivativeSurface pu pv Uu Uv su sv P).2.2 u v
    (fun _ => ⟨hneu, hru⟩) (fun _ => ⟨hnev, hrv⟩)
  refine ⟨?_, ?_, ?_⟩
  · rw [← h1, ← e1]; rfl
  · rw [← h2, ← e2]; rfl
  · rw [← h3, ← e3]; rfl

end Geomdl

/-! ### witnesses -/
namespace C02
open Geomdl

theorem hw_wf : CurveWF 2 2 hwU hwP where
  mono := hwU_mono
  len := rfl
  pn := by decide
  last := by decide +kernel
  net := hwP_ok

theorem hwUu_knotsOk : KnotsOk 2 (fnOf hwUu) 3 := ⟨hwUu_mono, by omega, by decide +kernel⟩
theorem hwUv_knotsOk : KnotsOk 2 (fnOf hwUv) 4 := ⟨hwUv_mono, by omega, by decide +kernel⟩

/-- an UNCLAMPED quadratic curve (finding F-02c) -/
def ucU : List ℚ := [0, 1/10, 2/10, 4/10, 5/10, 7/10, 9/10, 1]
def ucP : List (List ℚ) := [[0, 0], [1, 2], [3, 1], [4, 4], [6, 0]]

theorem uc_wf : CurveWF 2 2 ucU ucP where
  mono := fnOf_monotone_of_isSortedB ucU (by decide +kernel)
  len := rfl
  pn := by decide
  last := by decide +kernel
  net := by
    intro pt hpt; simp [ucP] at hpt; rcases hpt with h | h | h | h | h <;> simp [h]

end C02
