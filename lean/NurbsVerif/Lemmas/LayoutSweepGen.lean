import NurbsVerif.Lemmas.LayoutBoundaryVol
import NurbsVerif.Lemmas.KnotVec
import NurbsVerif.Lemmas.FitParams

/-!
  C13: the knot vector `sweep_vector` generates for the sweep direction, `knotvector.generate(1, 2) = [0, 0, 1, 1]`
  (model `knotGenerate 1 2 true tol`, what the driver ops `sweepc` / `sweeps` pass), meets the hypotheses
  `KnotsOk 1 · 2`, `ClampedOk 1 · 2` of the evaluated sweep theorems; a 3-D volume witness.
-/
namespace Geomdl
variable {K : Type} [Field K] [LinearOrder K] [IsStrictOrderedRing K]

theorem knotGenerate_one_two (tol : K) (htol : tol < 1) : (knotGenerate 1 2 true tol : List K) = [0, 0, 1, 1] := by
  unfold knotGenerate linspace
  have h1 : ¬ absK (-(1:K)) ≤ tol := by
    rw [absK_eq]; simp only [abs_neg, abs_one]; exact not_le.mpr htol
  simp [h1, linspaceCore, List.range_succ]

theorem gen12_knotsOk : KnotsOk 1 (fnOf ([0, 0, 1, 1] : List K)) 2 where
  mono := fnOf_monotone_of_isSortedB _ (by simp [isSortedB])
  pn := by omega
  last := by simp [fnOf]

theorem gen12_clampedOk : ClampedOk 1 (fnOf ([0, 0, 1, 1] : List K)) 2 where
  start := by intro i h1 h2; obtain rfl : i = 1 := by omega
              rfl
  stop := by intro i h1 h2; obtain rfl : i = 2 := by omega
             rfl
  first := by simp [fnOf]

theorem genKv_knotsOk (tol : K) (htol : tol < 1) : KnotsOk 1 (fnOf (knotGenerate 1 2 true tol : List K)) 2 := by
  rw [knotGenerate_one_two tol htol]; exact gen12_knotsOk

theorem genKv_clampedOk (tol : K) (htol : tol < 1) : ClampedOk 1 (fnOf (knotGenerate 1 2 true tol : List K)) 2 := by
  rw [knotGenerate_one_two tol htol]; exact gen12_clampedOk

theorem genKv_ends (tol : K) (htol : tol < 1) :
    fnOf (knotGenerate 1 2 true tol : List K) 1 = 0 ∧ fnOf (knotGenerate 1 2 true tol : List K) 2 = 1 := by
  rw [knotGenerate_one_two tol htol]; exact ⟨by simp [fnOf], by simp [fnOf]⟩

end Geomdl

namespace C13
open Geomdl

/-- a 2×3×2 volume of degrees (1, 2, 1) with 3-D control points (a net `BSpline.Volume.set_ctrlpts` accepts) -/
def c13EvalVol : Vol (List ℚ) (ℕ → ℚ) :=
  { du := 1, dv := 2, dw := 1, ku := fnOf [0,0,1,1], kv := fnOf [0,0,0,1,1,1], kw := fnOf [0,0,1,1],
    su := 2, sv := 3, sw := 2,
    pts := [[0,0,0],[1,2,1],[2,0,0],[3,5,1],[4,1,2],[5,5,0],[6,0,3],[7,3,3],[8,8,4],[9,1,3],[10,0,5],[11,7,3]] }

/-- a 2×2 bilinear surface with 3-D points, for the sweep theorems -/
def c13SweepSrf : Srf (List ℚ) (ℕ → ℚ) :=
  { du := 1, dv := 1, ku := fnOf [0,0,1,1], kv := fnOf [0,0,1,1], su := 2, sv := 2,
    pts := [[0,0,1],[0,1,2],[1,0,0],[1,1,4]] }

end C13
