import NurbsVerif.Lemmas.BasisDersOne
import NurbsVerif.Lemmas.DersSum

/-!
# The derivative recurrence (Eq. 2.9) is the derivative

`cdbD U k p i u` (what A2.5 returns) equals entry `[k][i-(κ-p)]` of `basisDers p U κ u d`, the
specification model of A2.3: the `k`-th derivative at `u` of the span polynomial of the curve whose only
non-zero control value is a `1` at index `i`.  Route: the `k`-th derivative of a span polynomial is the
degree `p-k` span polynomial of the `k`-fold scaled differences (`iterate_derivative_spanPoly`), its
value is the combination of these differences with the Cox–de Boor functions of degree `p-k`, and an
Abel summation moves the differences from the control values to the functions.
-/
namespace Geomdl
open Blossom Polynomial Finset
variable {K : Type} [Field K] [LinearOrder K] [IsStrictOrderedRing K]

/-- peel the FIRST differencing step off the iterated scaled differences -/
theorem dIter_shift (U : ℕ → K) (p : ℕ) (c : ℕ → K) : ∀ k,
    dIter U (p+1) (k+1) c = dIter U p k (fun m => ((p + 1 : ℕ) : K) * dscal U (p+1) c m) := by
  intro k
  induction k with
  | zero => funext m; simp [dIter]
  | succ k ih =>
    funext m
    have e : p + 1 - (k + 1) = p - k := by omega
    show ((p + 1 - (k + 1) : ℕ) : K) * dscal U (p + 1 - (k + 1)) (dIter U (p+1) (k+1) c) m = _
    rw [ih, e]
    rfl

/-- summation by parts on a window -/
theorem abel_window (c w : ℕ → K) (a : ℕ) : ∀ n,
    ∑ r ∈ range n, (c (a + 1 + r) - c (a + r)) * w (a + 1 + r)
      = ∑ r ∈ range (n + 1), c (a + r) * (w (a + r) - w (a + r + 1)) - c a * w a + c (a + n) * w (a + n + 1) := by
  intro n
  induction n with
  | zero => simp; ring
  | succ n ih =>
    rw [Finset.sum_range_succ, ih, Finset.sum_range_succ _ (n+1)]
    have e1 : a + 1 + n = a + (n + 1) := by omega
    have e2 : a + (n + 1) + 1 = a + (n + 1) + 1 := rfl
    have e3 : a + n + 1 = a + (n + 1) := by omega
    rw [e1, e3]
    ring

/-- **moving the differences to the functions**: the degree `p-k` Cox–de Boor combination of the `k`-fold
    scaled differences of `c` is the combination of `c` with the derivative recurrences -/
theorem cdb_dIter_sum (U : ℕ → K) (κ : ℕ) (u : K) (hm : Monotone U) (h1 : U κ ≤ u) (h2 : u < U (κ+1)) :
    ∀ (k p : ℕ), k ≤ p → p ≤ κ → ∀ (c : ℕ → K),
      ∑ j ∈ range (p - k + 1), cdb U (p - k) (κ - (p - k) + j) u * dIter U p k c (κ - (p - k) + j)
        = ∑ r ∈ range (p + 1), c (κ - p + r) * cdbD U k p (κ - p + r) u := by
  intro k
  induction k with
  | zero =>
    intro p _ _ c
    simp only [Nat.sub_zero, dIter, cdbD]
    exact Finset.sum_congr rfl (fun j _ => mul_comm _ _)
  | succ k ih =>
    intro p hk hp c
    obtain ⟨p', rfl⟩ : ∃ p', p = p' + 1 := ⟨p - 1, by omega⟩
    have e : p' + 1 - (k + 1) = p' - k := by omega
    rw [dIter_shift, e, ih p' (by omega) (by omega)]
    -- Abel summation with w m = (p'+1) * N^{(k)}_{m,p'} / (U (m+p'+1) - U m)
    set a := κ - (p' + 1) with ha
    have ea : κ - p' = a + 1 := by omega
    let w : ℕ → K := fun m => ((p' + 1 : ℕ) : K) * (cdbD U k p' m u / (U (m + p' + 1) - U m))
    have hl : ∀ r, ((p' + 1 : ℕ) : K) * dscal U (p'+1) c (κ - p' + r) * cdbD U k p' (κ - p' + r) u
        = (c (a + 1 + r) - c (a + r)) * w (a + 1 + r) := by
      intro r
      have e1 : a + 1 + r - 1 = a + r := by omega
      simp only [ea, dscal, e1, w]
      ring_nf
    have hr : ∀ r, c (a + r) * cdbD U (k+1) (p'+1) (a + r) u = c (a + r) * (w (a + r) - w (a + r + 1)) := by
      intro r
      have e1 : a + r + 1 + p' + 1 = a + r + p' + 2 := by omega
      simp only [cdbD, w, e1]
      ring
    rw [Finset.sum_congr rfl (fun r _ => hl r), abel_window c w a (p' + 1),
      Finset.sum_congr rfl (fun r _ => hr r)]
    have hwa : w a = 0 := by
      have : cdbD U k p' a u = 0 := by
        by_contra hne
        obtain ⟨_, y⟩ := cdbD_support U hm u k p' a hne
        have : U (a + p' + 1) ≤ U κ := hm (by omega)
        exact absurd (lt_of_lt_of_le y this) (not_lt.mpr h1)
      simp only [w, this, zero_div, mul_zero]
    have hwb : w (a + (p' + 1) + 1) = 0 := by
      have : cdbD U k p' (a + (p' + 1) + 1) u = 0 := by
        by_contra hne
        obtain ⟨x, _⟩ := cdbD_support U hm u k p' _ hne
        have : U (κ + 1) ≤ U (a + (p' + 1) + 1) := hm (by omega)
        exact absurd (lt_of_lt_of_le h2 (le_trans this x)) (lt_irrefl _)
      simp only [w, this, zero_div, mul_zero]
    rw [hwa, hwb]
    ring

/-- **A2.5's recurrence is the derivative**: entry `[k][r]` of the specification model of the derivative
    table (derivatives of the span polynomials of the unit control sequences) is `N^{(k)}_{κ-p+r,p}(u)` -/
theorem basisDers_eq_cdbD (p : ℕ) (U : ℕ → K) (κ : ℕ) (u : K) (d k r : ℕ)
    (hp : p ≤ κ) (hm : Monotone U) (h1 : U κ ≤ u) (h2 : u < U (κ+1)) (hk : k ≤ d) (hkp : k ≤ p) (hr : r ≤ p) :
    ((basisDers p U κ u d).getD k []).getD r 0 = cdbD U k p (κ - p + r) u := by
  have hspan : U κ < U (κ+1) := lt_of_le_of_lt h1 h2
  have hsep : Sep U κ := sep_of_mono U κ hm hspan
  rw [basisDers_entry p U κ u d k r hk hr]
  rw [curveDersAt_all p U (unitNet κ p r) κ u 1 0 d k hp (by simp [unitNet]) (unitNet_netOk κ p r) hm hspan hk]
  unfold spanPoly
  rw [iterate_derivative_spanPoly U κ p hsep hp _ k hkp, eval_polP]
  simp only [eval_C]
  rw [← diag U κ u (p - k) (by omega), wsum_eq_sum, Blossom.basisFuns_length]
  have hcdb : ∀ j ∈ range (p - k + 1),
      (basisFuns (p - k) U κ u).getD j 0
          * dIter U p k (fun m => (ptsGet (unitNet (K := K) κ p r) m).getD 0 0) (κ - (p - k) + j)
        = cdb U (p - k) (κ - (p - k) + j) u
          * dIter U p k (fun m => (ptsGet (unitNet (K := K) κ p r) m).getD 0 0) (κ - (p - k) + j) := by
    intro j hj
    rw [Finset.mem_range] at hj
    rw [cdb_eq_basisFuns U κ u hm h1 h2 (p - k) (by omega) (κ - (p - k) + j), if_pos (by omega)]
    congr 2; omega
  rw [Finset.sum_congr rfl hcdb, cdb_dIter_sum U κ u hm h1 h2 k p hkp hp]
  rw [Finset.sum_eq_single r]
  · rw [unitNet_coord κ p r _ hr hp, if_pos rfl, one_mul]
  · intro b hb hbr
    rw [unitNet_coord κ p r _ hr hp, if_neg (by omega), zero_mul]
  · intro h; exfalso; apply h; rw [Finset.mem_range]; omega

theorem basisFunDersOne_getD (p : ℕ) (U : ℕ → K) (hm : Monotone U) (i : ℕ) (u : K) (order k : ℕ)
    (ho : order ≤ p) (hk : k ≤ order) : (basisFunDersOne p U i u order).getD k 0 = cdbD U k p i u := by
  rw [basisFunDersOne_eq p U hm i u order ho]
  have : k < order + 1 := by omega
  simp [List.getD_eq_getElem?_getD, this]

/-- **A2.5 = column of the derivative table** (specification model of A2.3) on the half-open span `κ`:
    entry `k` of `basis_function_ders_one` for the function `i = κ − p + r` is entry `[k][r]` -/
theorem basisFunDersOne_eq_basisDers (p : ℕ) (U : ℕ → K) (hm : Monotone U) (κ : ℕ) (u : K)
    (hp : p ≤ κ) (h1 : U κ ≤ u) (h2 : u < U (κ+1)) (i r : ℕ) (hir : i + p = κ + r) (hr : r ≤ p)
    (order d k : ℕ) (ho : order ≤ p) (hk : k ≤ order) (hkd : k ≤ d) :
    (basisFunDersOne p U i u order).getD k 0 = ((basisDers p U κ u d).getD k []).getD r 0 := by
  rw [basisFunDersOne_getD p U hm i u order k ho hk,
    basisDers_eq_cdbD p U κ u d k r hp hm h1 h2 hkd (by omega) hr]
  congr 1; omega

end Geomdl
