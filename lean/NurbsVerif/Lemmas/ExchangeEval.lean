import NurbsVerif.Lemmas.Locality
import NurbsVerif.Model.Eval
import Mathlib.Tactic.FieldSimp

/-! C14, "hence evaluating to the same points": the reader normalises the knot vectors; evaluating the reimported
data at the correspondingly normalised parameter gives the same basis values, hence (same net) the same point. -/
namespace Geomdl
namespace Exch
open Blossom
variable {K : Type} [Field K]

/-- A2.2 on the normalised knot vector `(U - a)/(b - a)` at the normalised parameter `(u - a)/(b - a)` returns the
    basis values of the original knot vector at `u` -/
theorem basisFuns_normalised (U : ℕ → K) (k : ℕ) (u a b : K) (hab : a ≠ b) (p : ℕ) :
    basisFuns p (fun i => (U i - a) / (b - a)) k ((u - a) / (b - a)) = basisFuns p U k u := by
  have hd : b - a ≠ 0 := sub_ne_zero.mpr (Ne.symm hab)
  have h := basisFuns_affine U k u (1 / (b - a)) (-a / (b - a)) (by simp [hd]) p
  have e1 : (fun i => 1 / (b - a) * U i + -a / (b - a)) = (fun i => (U i - a) / (b - a)) := by
    funext i; field_simp; ring
  have e2 : 1 / (b - a) * u + -a / (b - a) = (u - a) / (b - a) := by
    field_simp; ring
  rw [e1, e2] at h
  exact h

/-- A3.1 on a given span: same net, normalised knots, normalised parameter - same point -/
theorem curvePointAt_normalised (p : ℕ) (U : ℕ → K) (P : List (List K)) (k : ℕ) (u a b : K) (hab : a ≠ b) :
    curvePointAt p (fun i => (U i - a) / (b - a)) P k ((u - a) / (b - a)) = curvePointAt p U P k u := by
  unfold curvePointAt
  rw [basisFuns_normalised U k u a b hab p]

/-- A3.5 on given spans: the same for surfaces (each direction normalised with its own range) -/
theorem surfacePointAt_normalised (pu pv : ℕ) (Uu Uv : ℕ → K) (sv : ℕ) (P : List (List K)) (ku kv : ℕ)
    (u v a b c d : K) (hab : a ≠ b) (hcd : c ≠ d) :
    surfacePointAt pu pv (fun i => (Uu i - a) / (b - a)) (fun i => (Uv i - c) / (d - c)) sv P ku kv
        ((u - a) / (b - a)) ((v - c) / (d - c))
      = surfacePointAt pu pv Uu Uv sv P ku kv u v := by
  unfold surfacePointAt
  rw [basisFuns_normalised Uu ku u a b hab pu, basisFuns_normalised Uv kv v c d hcd pv]

/-- volumes -/
theorem volumePointAt_normalised (pu pv pw : ℕ) (Uu Uv Uw : ℕ → K) (su sv : ℕ) (P : List (List K)) (ku kv kw : ℕ)
    (u v w a b c d e f : K) (hab : a ≠ b) (hcd : c ≠ d) (hef : e ≠ f) :
    volumePointAt pu pv pw (fun i => (Uu i - a) / (b - a)) (fun i => (Uv i - c) / (d - c)) (fun i => (Uw i - e) / (f - e))
        su sv P ku kv kw ((u - a) / (b - a)) ((v - c) / (d - c)) ((w - e) / (f - e))
      = volumePointAt pu pv pw Uu Uv Uw su sv P ku kv kw u v w := by
  unfold volumePointAt
  rw [basisFuns_normalised Uu ku u a b hab pu, basisFuns_normalised Uv kv v c d hcd pv,
    basisFuns_normalised Uw kw w e f hef pw]

end Exch
end Geomdl
