import NurbsVerif.Lemmas.Span
import NurbsVerif.Lemmas.BasisProps

/-!
  Assembly, part 1: what the library's span search (`findSpanLinear`) returns for EVERY parameter of
  the closed domain `[U p, U n]` of a well-formed knot function, in the form the span-level theorems
  (`SpanOk U k u`, half-open span, clamped ends) need it.
-/
namespace Geomdl
variable {K : Type} [Field K] [LinearOrder K] [IsStrictOrderedRing K]

/-- a well-formed knot function for degree `p` and `n` control points: non-decreasing, at least
    `p+1` control points, and the last span `[U (n-1), U n]` of the domain is non-empty -/
structure KnotsOk (p : ℕ) (U : ℕ → K) (n : ℕ) : Prop where
  mono : Monotone U
  pn : p + 1 ≤ n
  last : U (n - 1) < U n

/-- **closed domain**: for every `u ∈ [U p, U n]` the span the search returns is a non-empty span
    that contains `u` (closed on the right), and it is a legal span index -/
theorem findSpanLinear_dom {p : ℕ} {U : ℕ → K} {n : ℕ} (h : KnotsOk p U n) (u : K)
    (hlo : U p ≤ u) (hhi : u ≤ U n) :
    SpanOk U (findSpanLinear p U n u) u ∧ p ≤ findSpanLinear p U n u ∧ findSpanLinear p U n u < n := by
  obtain ⟨h1, h2, h3, h4⟩ := findSpanLinear_spec p U n u h.pn h.mono hlo
  refine ⟨⟨h.mono, h3, ?_, ?_⟩, h1, h2⟩
  · rcases h4 with h4 | h4
    · exact le_of_lt h4
    · rw [h4]; exact hhi
  · rcases h4 with h4 | h4
    · exact lt_of_le_of_lt h3 h4
    · have e : findSpanLinear p U n u = n - 1 := by omega
      rw [h4, e]; exact h.last

/-- **half-open domain**: for `u ∈ [U p, U n)` the span found is the half-open knot interval of `u` -/
theorem findSpanLinear_halfopen {p : ℕ} {U : ℕ → K} {n : ℕ} (hm : Monotone U) (hpn : p + 1 ≤ n) (u : K)
    (hlo : U p ≤ u) (hhi : u < U n) :
    U (findSpanLinear p U n u) ≤ u ∧ u < U (findSpanLinear p U n u + 1) ∧
      p ≤ findSpanLinear p U n u ∧ findSpanLinear p U n u < n := by
  obtain ⟨h1, h2, h3, h4⟩ := findSpanLinear_spec p U n u hpn hm hlo
  refine ⟨h3, ?_, h1, h2⟩
  rcases h4 with h4 | h4
  · exact h4
  · rw [h4]; exact hhi

/-- **right end of the domain**: at `u = U n` the search returns the last span `n - 1` -/
theorem findSpanLinear_right_end {p : ℕ} {U : ℕ → K} {n : ℕ} (hm : Monotone U) (hpn : p + 1 ≤ n) :
    findSpanLinear p U n (U n) = n - 1 := by
  obtain ⟨h1, h2, h3, h4⟩ := findSpanLinear_spec p U n (U n) hpn hm (hm (by omega))
  rcases h4 with h4 | h4
  · have : U (findSpanLinear p U n (U n) + 1) ≤ U n := hm (by omega)
    exact absurd h4 (not_lt.mpr this)
  · omega

/-- **left end of the domain**: at `u = U p` the search returns the first span `p` when it is
    non-empty -/
theorem findSpanLinear_left_end {p : ℕ} {U : ℕ → K} {n : ℕ} (hm : Monotone U) (hpn : p + 1 ≤ n)
    (hfirst : U p < U (p+1)) : findSpanLinear p U n (U p) = p := by
  obtain ⟨h1, h2, h3, h4⟩ := findSpanLinear_spec p U n (U p) hpn hm (le_refl _)
  by_contra hne
  have : U (p+1) ≤ U (findSpanLinear p U n (U p)) := hm (by omega)
  exact absurd (lt_of_lt_of_le hfirst (le_trans this h3)) (lt_irrefl _)

end Geomdl
