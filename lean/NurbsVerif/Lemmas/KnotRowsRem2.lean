import NurbsVerif.Lemmas.KnotRowsRem

/-! List-of-rows branches, part 7: all removal steps of the rows branch of A5.8 against the point branch on
    every iso-curve, under the hypothesis that every iso-curve passes the removability test at every step. -/
namespace Geomdl
namespace Rows
open RemInv
variable {K : Type} [Field K] [LinearOrder K] [IsStrictOrderedRing K]

/-- the state of `knotRemoval` on one curve before step `t` -/
def remState (p : ℕ) (U : ℕ → K) (P : List (List K)) (u : K) (s r : ℕ) (tol2 : K) (t : ℕ) :
    List (List K) × List (List K) × ℕ × ℕ :=
  (List.range t).foldl (remStep U u p tol2) (P, List.replicate (2 * p + 1) [], r - p, r - s)

/-- **every one of the `num` removal steps of `knotRemoval` on this curve finds the knot removable** -/
def AllRemovable (p : ℕ) (U : ℕ → K) (P : List (List K)) (u : K) (num s r : ℕ) (tol2 : K) : Prop :=
  ∀ t, t < num → remFlag U u p tol2 (remState p U P u s r tol2 t) t = true

/-- the sharing table at the start of step `t`: only slot `0` and (from the second step on) the slot
    `W = last - first` of `temp`, which is the row `last` of `ctrlpts_new` -/
def AlStart (t W last : ℕ) (al : List (ℕ × ℕ)) : Prop :=
  ∀ a ∈ al, a.1 = 0 ∨ (1 ≤ t ∧ a.1 = W ∧ a.2 = last)

/-- rows state and the state of iso-curve `c` at the start of a step -/
def Sim (c : ℕ) (st : RemRowsSt K × ℕ × ℕ) (cs : List (List K) × List (List K) × ℕ × ℕ) : Prop :=
  isoCol c st.1.cp = cs.1 ∧ isoCol c st.1.temp = cs.2.1 ∧ st.2.1 = cs.2.2.1 ∧ st.2.2 = cs.2.2.2

section step
variable (U : ℕ → K) (u : K) (p m t W first last : ℕ) (tol2 : K) (st : RemRowsSt K)
  (hm : 0 < m) (hlast : last = first + W) (hW1 : 1 ≤ t → t < W ∧ 2 ≤ W) (hW2 : W ≤ t + 2 * p + 4)
  (hlen : last < st.cp.length) (hal : AlStart t W last st.al)

/-- the state after the two bindings of `temp` and the start of the sweep -/
def sweepStart : RemRowsSt K :=
  { ((st.bindTemp 0 (first - 1)).bindTemp (last - first + 2) (last + 1)) with
      i := first, j := last, ii := 1, jj := last - first + 1 }

include hlast hW1 hal in
theorem sweepStart_inv (c : ℕ) (cpc tempc : List (List K)) (h1 : isoCol c st.cp = cpc) (h2 : isoCol c st.temp = tempc) :
    SwInv c t last cpc (sweepStart first last st)
      { temp := cTemp0 cpc tempc first last, i := first, j := last, ii := 1, jj := last - first + 1 } := by
  have hWl : last - first = W := by omega
  constructor
  · show isoCol c ((st.temp.set 0 (rowGet st.cp (first - 1))).set (last - first + 2)
      (rowGet st.cp (last + 1))) = cTemp0 cpc tempc first last
    unfold cTemp0
    rw [isoCol_set, isoCol_set, ← ptsGet_isoCol, ← ptsGet_isoCol, h1, h2]
  · rfl
  · rfl
  · rfl
  · rfl
  · intro x _
    show ptsGet (rowGet st.cp x) c = ptsGet cpc x
    rw [← ptsGet_isoCol, h1]
  · show st.cp.length = cpc.length
    rw [← h1, isoCol_length]
  · exact le_refl _
  · exact le_refl _
  · show 1 + last = last - first + 1 + first
    omega
  · intro a ha
    show a.1 = 0 ∨ last - first + 1 < a.1 ∨ (a.2 = last ∧ (last = last → a.1 ≠ 1))
    have ha' : a ∈ (last - first + 2, last + 1) :: (((0, first - 1) :: st.al.filter (fun b => b.1 != 0)).filter
        (fun b => b.1 != last - first + 2)) := ha
    rcases List.mem_cons.mp ha' with e | e
    · right; left; rw [e]; simp
    · have e1 := (List.mem_filter.mp e).1
      rcases List.mem_cons.mp e1 with e2 | e2
      · left; rw [e2]
      · have e3 := (List.mem_filter.mp e2).1
        rcases hal a e3 with h0 | ⟨ht, hw, hl⟩
        · left; exact h0
        · right; right
          refine ⟨hl, fun _ => ?_⟩
          have := (hW1 ht).2
          omega

include hm hlast hW1 hW2 hlen hal in
/-- **one removal step**: if the FIRST iso-curve and iso-curve `c` both pass the removability test, the
    rows branch does to iso-curve `c` what the point branch does, and the sharing table is again of the
    form it has at the start of a step -/
theorem step_sim (c : ℕ) (hc : c < m)
    (cp0 temp0 cpc tempc : List (List K))
    (s0 : Sim 0 (st, first, last) (cp0, temp0, first, last))
    (sc : Sim c (st, first, last) (cpc, tempc, first, last))
    (f0 : remFlag U u p tol2 (cp0, temp0, first, last) t = true)
    (fc : remFlag U u p tol2 (cpc, tempc, first, last) t = true) :
    Sim c (remStepRows U u p m tol2 (st, first, last) t) (remStep U u p tol2 (cpc, tempc, first, last) t) ∧
    AlStart (t + 1) (W + 2) (last + 1) (remStepRows U u p m tol2 (st, first, last) t).1.al ∧
    (remStepRows U u p m tol2 (st, first, last) t).1.cp.length = st.cp.length := by
  have hWl : last - first = W := by omega
  have hc1 : isoCol c st.cp = cpc := sc.1
  -- the sweep, on column 0 and on column c
  have inv0 := sweep_sim 0 m hm U u p t last cp0 (p + 2) _ _
    (sweepStart_inv t W first last st hlast hW1 hal 0 cp0 temp0 s0.1 s0.2.1)
  have invc := sweep_sim c m hc U u p t last cpc (p + 2) _ _
    (sweepStart_inv t W first last st hlast hW1 hal c cpc tempc sc.1 sc.2.1)
  have hflag : remFlagRows U u p t tol2 (remSweepRows U u p t m (p + 2) (sweepStart first last st)) = true := by
    rw [flag_sim U u p t last tol2 cp0 _ _ inv0]
    exact f0
  have hrows : remStepRows U u p m tol2 (st, first, last) t
      = (remCopyRows first t (p + 2) first last (remSweepRows U u p t m (p + 2) (sweepStart first last st)),
          first - 1, last + 1) := by
    unfold remStepRows
    simp only []
    have : ({ ((st.bindTemp 0 (first - 1)).bindTemp (last - first + 2) (last + 1)) with
        i := first, j := last, ii := 1, jj := last - first + 1 } : RemRowsSt K) = sweepStart first last st := rfl
    rw [this, hflag]
    rfl
  rw [hrows, remStep_pieces, fc]
  simp only [if_true]
  set sw := remSweepRows U u p t m (p + 2) (sweepStart first last st) with hsw
  have hswlen : sw.cp.length = st.cp.length := by
    rw [invc.len, ← hc1, isoCol_length]
  have hfuel : last ≤ first + t + 2 * (p + 2) := by omega
  refine ⟨⟨?_, ?_, rfl, rfl⟩, ?_, ?_⟩
  · -- ctrlpts_new, iso-curve c
    apply net_ext
    · rw [isoCol_length, remCopyRows_length, remCopy_length, hswlen, ← hc1, isoCol_length]
    · intro y _
      rw [ptsGet_isoCol, remCopyRows_get first t (p + 2) first last sw y hfuel (by rw [hswlen]; exact hlen),
        remCopy_get _ first t (p + 2) first last cpc y hfuel (by rw [← hc1, isoCol_length]; exact hlen)]
      by_cases hcp : first ≤ y ∧ y ≤ last ∧ (2 * y + t < first + last ∨ first + last + t < 2 * y)
      · rw [if_pos hcp, if_pos hcp, ← ptsGet_isoCol, invc.temp]
        rfl
      · rw [if_neg hcp, if_neg hcp]
        apply invc.cp
        by_cases hy : y = last
        · right
          have hz : ¬ (first + t < last) := by
            intro hlt
            apply hcp
            subst hy
            exact ⟨by omega, le_refl _, Or.inr (by omega)⟩
          rw [hsw, sweep_zero U u p t m (p + 2) (sweepStart first last st) hz]
          rfl
        · left; exact hy
  · -- temp
    rw [remCopyRows_temp, invc.temp]
    rfl
  · -- the sharing table
    intro a ha
    obtain ⟨h1, h2⟩ := remCopyRows_al first t (p + 2) first last sw a hfuel ha
    rw [hsw, sweep_al] at h1
    have ha' : a ∈ (last - first + 2, last + 1) :: (((0, first - 1) :: st.al.filter (fun b => b.1 != 0)).filter
        (fun b => b.1 != last - first + 2)) := h1
    rcases List.mem_cons.mp ha' with e | e
    · right; rw [e]; exact ⟨by omega, by simp; omega, rfl⟩
    · have e1 := (List.mem_filter.mp e).1
      rcases List.mem_cons.mp e1 with e2 | e2
      · left; rw [e2]
      · have e3 := (List.mem_filter.mp e2).1
        rcases hal a e3 with h0 | ⟨ht, hw, hl⟩
        · left; exact h0
        · exfalso
          apply h2
          rw [hl]
          have := (hW1 ht).1
          exact ⟨by omega, le_refl _, Or.inr (by omega)⟩
  · rw [remCopyRows_length, hswlen]

end step

/-! ### all steps -/

theorem isoCol_shift (c i j : ℕ) : ∀ (l : List ℕ) (cp : List (List (List K))),
    isoCol c (l.foldl (fun (q : List (List (List K))) k => q.set (j + k) (rowGet q (i + 1 + k))) cp)
      = l.foldl (fun (q : List (List K)) k => q.set (j + k) (ptsGet q (i + 1 + k))) (isoCol c cp) := by
  intro l
  induction l with
  | nil => intro cp; rfl
  | cons a l ih => intro cp; rw [List.foldl_cons, List.foldl_cons, ih, isoCol_set, ptsGet_isoCol]


section fold
variable (p : ℕ) (U : ℕ → K) (R : List (List (List K))) (u : K) (num s r : ℕ) (tol2 : K)

/-- the rows state before step `t` -/
def rowsState (t : ℕ) : RemRowsSt K × ℕ × ℕ :=
  (List.range t).foldl (remStepRows U u p (R.headD []).length tol2)
    ({ cp := R, temp := List.replicate (2 * p + 1) (List.replicate (R.headD []).length []), al := [],
       i := 0, j := 0, ii := 0, jj := 0 }, r - p, r - s)

theorem remState_succ (P : List (List K)) (t : ℕ) :
    remState p U P u s r tol2 (t + 1) = remStep U u p tol2 (remState p U P u s r tol2 t) t := by
  unfold remState
  rw [List.range_succ, List.foldl_append]
  rfl

theorem rowsState_succ (t : ℕ) :
    rowsState p U R u s r tol2 (t + 1)
      = remStepRows U u p (R.headD []).length tol2 (rowsState p U R u s r tol2 t) t := by
  unfold rowsState
  rw [List.range_succ, List.foldl_append]
  rfl

variable (hm : 0 < (R.headD []).length) (hsp : s ≤ p) (hns : num ≤ s) (hps : p + num ≤ r) (hr : r < R.length)
  (hall : ∀ c, c < (R.headD []).length → AllRemovable p U (isoCol c R) u num s r tol2)
include hm hsp hns hps hr hall

theorem fold_sim : ∀ t, t ≤ num →
    (∀ c, c < (R.headD []).length →
      Sim c (rowsState p U R u s r tol2 t) (remState p U (isoCol c R) u s r tol2 t)) ∧
    (rowsState p U R u s r tol2 t).2.1 = r - p - t ∧ (rowsState p U R u s r tol2 t).2.2 = r - s + t ∧
    AlStart t (p - s + 2 * t) (r - s + t) (rowsState p U R u s r tol2 t).1.al ∧
    (rowsState p U R u s r tol2 t).1.cp.length = R.length := by
  intro t
  induction t with
  | zero =>
    intro _
    refine ⟨?_, rfl, rfl, ?_, rfl⟩
    · intro c _
      refine ⟨rfl, ?_, rfl, rfl⟩
      show isoCol c (List.replicate (2 * p + 1) (List.replicate (R.headD []).length [])) = List.replicate (2 * p + 1) []
      rw [isoCol_replicate, ptsGet_replicate_nil]
    · intro a ha
      exact absurd ha (List.not_mem_nil)
  | succ t ih =>
    intro ht
    obtain ⟨hsim, hf, hl, hal, hlen⟩ := ih (by omega)
    have hst : rowsState p U R u s r tol2 t = ((rowsState p U R u s r tol2 t).1, r - p - t, r - s + t) :=
      Prod.ext rfl (Prod.ext hf hl)
    have hcs : ∀ c, c < (R.headD []).length → remState p U (isoCol c R) u s r tol2 t
        = ((remState p U (isoCol c R) u s r tol2 t).1, (remState p U (isoCol c R) u s r tol2 t).2.1, r - p - t, r - s + t) := by
      intro c hc
      obtain ⟨_, _, h3, h4⟩ := hsim c hc
      exact Prod.ext rfl (Prod.ext rfl (Prod.ext (by rw [← h3, hf]) (by rw [← h4, hl])))
    have hstep : ∀ c, c < (R.headD []).length → _ := fun c hc =>
      step_sim U u p (R.headD []).length t (p - s + 2 * t) (r - p - t) (r - s + t) tol2 (rowsState p U R u s r tol2 t).1
        hm (by omega) (by intro h; omega) (by omega) (by rw [hlen]; omega) hal c hc
        (remState p U (isoCol 0 R) u s r tol2 t).1 (remState p U (isoCol 0 R) u s r tol2 t).2.1
        (remState p U (isoCol c R) u s r tol2 t).1 (remState p U (isoCol c R) u s r tol2 t).2.1
        (by rw [← hst, ← hcs 0 hm]; exact hsim 0 hm)
        (by rw [← hst, ← hcs c hc]; exact hsim c hc)
        (by rw [← hcs 0 hm]; exact hall 0 hm t (by omega))
        (by rw [← hcs c hc]; exact hall c hc t (by omega))
    rw [rowsState_succ, hst]
    refine ⟨?_, ?_, ?_, ?_, ?_⟩
    · intro c hc
      rw [remState_succ, hcs c hc]
      exact (hstep c hc).1
    · show r - p - t - 1 = r - p - (t + 1)
      omega
    · show r - s + t + 1 = r - s + (t + 1)
      omega
    · have := (hstep 0 hm).2.1
      rw [show p - s + 2 * (t + 1) = p - s + 2 * t + 2 by omega, show r - s + (t + 1) = r - s + t + 1 by omega]
      exact this
    · rw [(hstep 0 hm).2.2, hlen]

/-- **when every iso-curve passes the removability test at every step, every iso-curve of the rows branch of
    A5.8 is A5.8 of that iso-curve** -/
theorem isoCol_knotRemovalRows (c : ℕ) (hc : c < (R.headD []).length) :
    isoCol c (knotRemovalRows p U R u num s r tol2) = knotRemoval p U (isoCol c R) u num s r tol2 := by
  unfold knotRemovalRows knotRemoval
  by_cases h0 : num = 0
  · rw [if_pos h0, if_pos h0]
  · rw [if_neg h0, if_neg h0]
    simp only []
    obtain ⟨hsim, _, _, _, _⟩ := fold_sim p U R u num s r tol2 hm hsp hns hps hr hall num (le_refl _)
    have h1 := (hsim c hc).1
    unfold rowsState remState at h1
    rw [isoCol_take, isoCol_shift, h1, isoCol_length]

end fold

end Rows
end Geomdl
