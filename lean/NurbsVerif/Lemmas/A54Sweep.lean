import NurbsVerif.Lemmas.A54Arr
import NurbsVerif.Lemmas.A54Ins

/-! The `for l in range(1, degree + 1)` loop of A5.4 in closed form: entry `k - p + l - 1` of the
    work array becomes the blend of its old value and its old right neighbour. -/
namespace Geomdl
open Blossom
variable {K : Type} [Field K] [LinearOrder K] [IsStrictOrderedRing K]

/-- the point written in pass `l = l0 + 1`: `b` if `abs(alpha) < tol`, else `alpha·a + (1 - alpha)·b` -/
def a54Pt (p : ℕ) (U : ℕ → K) (x tol : K) (kv : List K) (i k l0 : ℕ) (a b : List K) : List K :=
  if absK (kv.getD (k + (l0 + 1)) 0 - x) < tol then b
  else List.zipWith (fun p1 p2 =>
      (kv.getD (k + (l0 + 1)) 0 - x) / (kv.getD (k + (l0 + 1)) 0 - U (i - p + (l0 + 1))) * p1
        + (1 - (kv.getD (k + (l0 + 1)) 0 - x) / (kv.getD (k + (l0 + 1)) 0 - U (i - p + (l0 + 1)))) * p2) a b

theorem a54Blend_eq (p : ℕ) (U : ℕ → K) (x tol : K) (kv : List K) (i k : ℕ) (cp : List (List K)) (l0 : ℕ) :
    a54Blend p U x tol kv i k cp l0
      = cp.set (k - p + l0) (a54Pt p U x tol kv i k l0 (ptsGet cp (k - p + l0)) (ptsGet cp (k - p + l0 + 1))) := by
  unfold a54Blend a54Pt
  have e1 : k - p + (l0 + 1) - 1 = k - p + l0 := by omega
  have e2 : k - p + (l0 + 1) = k - p + l0 + 1 := by omega
  simp only [e1, e2]
  split_ifs <;> rfl

theorem a54Blend_length (p : ℕ) (U : ℕ → K) (x tol : K) (kv : List K) (i k : ℕ) (cp : List (List K)) (l0 : ℕ) :
    (a54Blend p U x tol kv i k cp l0).length = cp.length := by
  rw [a54Blend_eq]; simp

theorem a54Sweep_length (p : ℕ) (U : ℕ → K) (x tol : K) (kv : List K) (i k : ℕ) : ∀ (q : ℕ) (cp : List (List K)),
    ((List.range q).foldl (a54Blend p U x tol kv i k) cp).length = cp.length := by
  intro q
  induction q with
  | zero => intro cp; rfl
  | succ q ih =>
    intro cp
    rw [List.range_succ, List.foldl_append]
    simp only [List.foldl_cons, List.foldl_nil]
    rw [a54Blend_length, ih]

/-- closed form of the first `q` passes -/
theorem a54Sweep_get (p : ℕ) (U : ℕ → K) (x tol : K) (kv : List K) (i k : ℕ) (cp : List (List K)) :
    ∀ (q : ℕ), k - p + q < cp.length + 1 → ∀ t,
    ptsGet ((List.range q).foldl (a54Blend p U x tol kv i k) cp) t
      = if k - p ≤ t ∧ t < k - p + q then
          a54Pt p U x tol kv i k (t - (k - p)) (ptsGet cp t) (ptsGet cp (t + 1))
        else ptsGet cp t := by
  intro q
  induction q with
  | zero => intro _ t; simp
  | succ q ih =>
    intro hq t
    rw [List.range_succ, List.foldl_append]
    simp only [List.foldl_cons, List.foldl_nil]
    rw [a54Blend_eq]
    have ih' := ih (by omega)
    unfold ptsGet at ih' ⊢
    by_cases ht : t = k - p + q
    · subst ht
      rw [getD_set_eq _ _ _ _ (by rw [a54Sweep_length]; omega)]
      rw [if_pos (by omega), ih' (k - p + q), ih' (k - p + q + 1), if_neg (by omega), if_neg (by omega)]
      congr 1; omega
    · rw [getD_set_of_ne _ _ _ _ _ (fun e => ht e.symm), ih' t]
      by_cases c : k - p ≤ t ∧ t < k - p + q
      · rw [if_pos c, if_pos (by omega)]
      · rw [if_neg c, if_neg (by omega)]

theorem zipWith_blend_getD (α : K) (a b : List K) (j : ℕ) (h : a.length = b.length) :
    (List.zipWith (fun p1 p2 => α * p1 + (1 - α) * p2) a b).getD j 0 = α * a.getD j 0 + (1 - α) * b.getD j 0 := by
  simp only [List.getD_eq_getElem?_getD, List.getElem?_zipWith]
  by_cases hj : j < a.length
  · have hy : j < b.length := by omega
    simp [List.getElem?_eq_getElem hj, List.getElem?_eq_getElem hy]
  · have hy : ¬ j < b.length := by omega
    simp [List.getElem?_eq_none (not_lt.mp hj), List.getElem?_eq_none (not_lt.mp hy)]

/-- the written point, coordinate by coordinate, under tolerance separation of `x` and the knot read:
    the `abs(alpha) < tol` branch is the blend with weight exactly 0 -/
theorem a54Pt_coord (p : ℕ) (U : ℕ → K) (x tol : K) (kv : List K) (i k l0 d : ℕ) (a b : List K)
    (ha : a.length = d) (hb : b.length = d)
    (hsep : kv.getD (k + (l0 + 1)) 0 = x ∨ tol < |kv.getD (k + (l0 + 1)) 0 - x|) :
    (a54Pt p U x tol kv i k l0 a b).length = d ∧ ∀ jc,
    (a54Pt p U x tol kv i k l0 a b).getD jc 0
      = (kv.getD (k + (l0 + 1)) 0 - x) / (kv.getD (k + (l0 + 1)) 0 - U (i - p + (l0 + 1))) * a.getD jc 0
        + (1 - (kv.getD (k + (l0 + 1)) 0 - x) / (kv.getD (k + (l0 + 1)) 0 - U (i - p + (l0 + 1)))) * b.getD jc 0 := by
  unfold a54Pt
  rw [absK_eq]
  by_cases hbr : |kv.getD (k + (l0 + 1)) 0 - x| < tol
  · rw [if_pos hbr]
    have hx : kv.getD (k + (l0 + 1)) 0 = x := by
      rcases hsep with h | h
      · exact h
      · exact absurd (lt_trans h hbr) (lt_irrefl _)
    refine ⟨hb, fun jc => ?_⟩
    rw [hx, sub_self, zero_div]; ring
  · rw [if_neg hbr]
    refine ⟨by simp [ha, hb], fun jc => ?_⟩
    exact zipWith_blend_getD _ a b jc (by rw [ha, hb])

theorem blend_scalar (vk um x a b : K) (h : vk - um ≠ 0) :
    (vk - x) / (vk - um) * a + (1 - (vk - x) / (vk - um)) * b = ((vk - x) * a + (x - um) * b) / (vk - um) := by
  field_simp
  ring

end Geomdl
