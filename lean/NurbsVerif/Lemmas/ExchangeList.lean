import NurbsVerif.Model.Exchange
import Mathlib.Algebra.Field.Basic
import Mathlib.Tactic.Ring
import Mathlib.Tactic.FieldSimp

/-! List plumbing behind the exchange formats (C14): the row/column tables, the two flips are mutually
inverse permutations, slicing a volume net into w-layers, `(x,y,z,w) ↔ (xw,yw,zw,w)`. -/
namespace Geomdl
namespace Exch

theorem idx_lt {i j m n : Nat} (hi : i < m) (hj : j < n) : i * n + j < m * n := by
  have h : (i + 1) * n ≤ m * n := Nat.mul_le_mul_right n hi
  rw [Nat.succ_mul] at h
  omega

section tab
variable {α β : Type}

theorem tab_succ (m n : Nat) (f : Nat → Nat → α) :
    tab (m + 1) n f = tab m n f ++ (List.range n).map (f m) := by
  simp [tab, List.range_succ, List.flatMap_append]

@[simp] theorem tab_length (m n : Nat) (f : Nat → Nat → α) : (tab m n f).length = m * n := by
  induction m with
  | zero => simp [tab]
  | succ m ih => rw [tab_succ, List.length_append, ih]; simp [Nat.succ_mul]

theorem tab_getElem? {m n i j : Nat} (f : Nat → Nat → α) (hi : i < m) (hj : j < n) :
    (tab m n f)[i * n + j]? = some (f i j) := by
  induction m with
  | zero => omega
  | succ m ih =>
    rw [tab_succ]
    by_cases h : i < m
    · rw [List.getElem?_append_left (by rw [tab_length]; exact idx_lt h hj)]
      exact ih h
    · have him : i = m := by omega
      subst him
      rw [List.getElem?_append_right (by rw [tab_length]; omega)]
      simp [tab_length, hj]

theorem tab_getD {m n i j : Nat} (f : Nat → Nat → α) (d : α) (hi : i < m) (hj : j < n) :
    (tab m n f).getD (i * n + j) d = f i j := by
  simp [List.getD_eq_getElem?_getD, tab_getElem? f hi hj]

theorem tab_congr {m n : Nat} {f g : Nat → Nat → α} (h : ∀ i, i < m → ∀ j, j < n → f i j = g i j) :
    tab m n f = tab m n g := by
  induction m with
  | zero => simp [tab]
  | succ m ih =>
    rw [tab_succ, tab_succ, ih (fun i hi j hj => h i (by omega) j hj)]
    congr 1
    apply List.map_congr_left
    intro j hj
    exact h m (by omega) j (by simpa using hj)

theorem tab_map (m n : Nat) (f : Nat → Nat → α) (h : α → β) :
    (tab m n f).map h = tab m n (fun i j => h (f i j)) := by
  simp [tab, List.map_flatMap, Function.comp_def]

/-- a list of `m*n` entries is the table of its own entries in row-major order -/
theorem tab_self {m n : Nat} (l : List α) (d : α) (hl : l.length = m * n) :
    tab m n (fun i j => l.getD (i * n + j) d) = l := by
  apply List.ext_getElem?
  intro k
  by_cases hk : k < m * n
  · have hn : 0 < n := by
      rcases Nat.eq_zero_or_pos n with h | h
      · subst h; simp at hk
      · exact h
    have h1 : k / n < m := by
      apply Nat.div_lt_of_lt_mul
      rwa [Nat.mul_comm] at hk
    have h2 : k % n < n := Nat.mod_lt _ hn
    have h3 : k / n * n + k % n = k := Nat.div_add_mod' k n
    have := tab_getElem? (fun i j => l.getD (i * n + j) d) h1 h2
    rw [h3] at this
    rw [this]
    simp [List.getD_eq_getElem?_getD, List.getElem?_eq_getElem (show k < l.length by omega)]
  · rw [List.getElem?_eq_none (by simp; omega), List.getElem?_eq_none (by omega)]

end tab

/-! ### the flips -/
section flip
variable {α β : Type}

@[simp] theorem flipCtrlpts_length (l : List (List α)) (su sv : Nat) : (flipCtrlpts l su sv).length = su * sv := by
  simp [flipCtrlpts, Nat.mul_comm]

@[simp] theorem flipCtrlptsU_length (l : List (List α)) (su sv : Nat) : (flipCtrlptsU l su sv).length = su * sv := by
  simp [flipCtrlptsU]

/-- u-row order and back: `flip_ctrlpts_u ∘ flip_ctrlpts = id` on nets of `su*sv` points -/
theorem flipU_flip (l : List (List α)) (su sv : Nat) (hl : l.length = su * sv) :
    flipCtrlptsU (flipCtrlpts l su sv) su sv = l := by
  unfold flipCtrlptsU flipCtrlpts
  rw [tab_congr (g := fun i j => l.getD (i * sv + j) [])]
  · exact tab_self l [] hl
  · intro i hi j hj
    rw [Nat.add_comm i (j * su), tab_getD _ _ hj hi, Nat.add_comm]

theorem flip_flipU (l : List (List α)) (su sv : Nat) (hl : l.length = su * sv) :
    flipCtrlpts (flipCtrlptsU l su sv) su sv = l := by
  unfold flipCtrlptsU flipCtrlpts
  rw [tab_congr (g := fun i j => l.getD (i * su + j) [])]
  · exact tab_self l [] (by rw [hl, Nat.mul_comm])
  · intro i hi j hj
    rw [Nat.add_comm i (j * sv), tab_getD _ _ hj hi, Nat.add_comm]

/-- documented order of the mesh files: entry `u + v*su` of the flipped net is point `(u, v)`, i.e.
    entry `v + u*sv` of the library's net -/
theorem flipCtrlpts_getD (l : List (List α)) (su sv u v : Nat) (hu : u < su) (hv : v < sv) :
    (flipCtrlpts l su sv).getD (u + v * su) [] = l.getD (v + u * sv) [] := by
  unfold flipCtrlpts
  rw [Nat.add_comm u, tab_getD _ _ hv hu]

theorem getD_map_nil (l : List (List α)) (h : List α → List β) (h0 : h [] = []) (k : Nat) :
    (l.map h).getD k [] = h (l.getD k []) := by
  simp only [List.getD_eq_getElem?_getD, List.getElem?_map]
  cases l[k]? <;> simp [h0]

theorem flipCtrlptsU_map (l : List (List α)) (su sv : Nat) (h : List α → List β) (h0 : h [] = []) :
    flipCtrlptsU (l.map h) su sv = (flipCtrlptsU l su sv).map h := by
  unfold flipCtrlptsU
  rw [tab_map]
  exact tab_congr (fun i _ j _ => getD_map_nil l h h0 _)

theorem flipCtrlpts_map (l : List (List α)) (su sv : Nat) (h : List α → List β) (h0 : h [] = []) :
    flipCtrlpts (l.map h) su sv = (flipCtrlpts l su sv).map h := by
  unfold flipCtrlpts
  rw [tab_map]
  exact tab_congr (fun i _ j _ => getD_map_nil l h h0 _)

end flip

/-! ### layers (slicing a volume net) -/
section layers
variable {α : Type}

theorem layers_succ (l : List α) (S n : Nat) (g : List α → List α) :
    layers l S (n + 1) g = layers l S n g ++ g (slice l (n * S) S) := by
  simp [layers, List.range_succ, List.flatMap_append]

theorem layers_length (l : List α) (S n : Nat) (g : List α → List α) (hg : ∀ x, x.length = S → (g x).length = S)
    (hl : n * S ≤ l.length) : (layers l S n g).length = n * S := by
  induction n with
  | zero => simp [layers]
  | succ n ih =>
    rw [layers_succ, List.length_append, ih (by rw [Nat.succ_mul] at hl; omega)]
    rw [hg _ (by simp [slice]; rw [Nat.succ_mul] at hl; omega), Nat.succ_mul]

/-- the first `n` layers only look at the first `n*S` entries -/
theorem layers_congr (l l' : List α) (S n : Nat) (g : List α → List α)
    (h : ∀ w, w < n → slice l (w * S) S = slice l' (w * S) S) : layers l S n g = layers l' S n g := by
  induction n with
  | zero => simp [layers]
  | succ n ih => rw [layers_succ, layers_succ, ih (fun w hw => h w (by omega)), h n (by omega)]

theorem slice_append_left (a b : List α) (k S : Nat) (h : k + S ≤ a.length) : slice (a ++ b) k S = slice a k S := by
  unfold slice
  rw [List.drop_append_of_le_length (by omega), List.take_append_of_le_length (by simp; omega)]

theorem slice_append_right (a b : List α) (S : Nat) (hb : b.length = S) : slice (a ++ b) a.length S = b := by
  unfold slice
  rw [List.drop_left']
  · rw [← hb]; exact List.take_length
  · rfl

/-- slicing, transforming every layer by `g`, slicing again and transforming by `g'` restores the list
    when `g' ∘ g = id` on layers -/
theorem layers_layers (l : List α) (S n : Nat) (g g' : List α → List α)
    (hg : ∀ x, x.length = S → (g x).length = S) (hgg : ∀ x, x.length = S → g' (g x) = x)
    (hl : l.length = n * S) : layers (layers l S n g) S n g' = l := by
  induction n generalizing l with
  | zero =>
    have : l = [] := List.eq_nil_of_length_eq_zero (by simpa using hl)
    simp [layers, this]
  | succ n ih =>
    have hS : n * S ≤ l.length := by rw [hl, Nat.succ_mul]; omega
    have hlast : (slice l (n * S) S).length = S := by simp [slice]; rw [hl, Nat.succ_mul]; omega
    have hlen : (layers l S n g).length = n * S := layers_length l S n g hg hS
    rw [layers_succ l, layers_succ]
    have e1 : layers (layers l S n g ++ g (slice l (n * S) S)) S n g' = layers (layers l S n g) S n g' := by
      apply layers_congr
      intro w hw
      apply slice_append_left
      rw [hlen]
      have : (w + 1) * S ≤ n * S := Nat.mul_le_mul_right S hw
      rw [Nat.succ_mul] at this; omega
    have e2 : layers (layers l S n g) S n g' = layers (layers (l.take (n * S)) S n g) S n g' := by
      congr 1
      apply layers_congr
      intro w hw
      unfold slice
      have : (w + 1) * S ≤ n * S := Nat.mul_le_mul_right S hw
      rw [Nat.succ_mul] at this
      rw [List.drop_take, List.take_take]
      congr 1
      omega
    rw [e1, e2, ih (l.take (n * S)) (by simp; omega)]
    have e3 : slice (layers l S n g ++ g (slice l (n * S) S)) (n * S) S = g (slice l (n * S) S) := by
      have := slice_append_right (layers l S n g) (g (slice l (n * S) S)) S (hg _ hlast)
      rwa [hlen] at this
    rw [e3, hgg _ hlast]
    unfold slice
    have e4 : List.take S (List.drop (n * S) l) = List.drop (n * S) l :=
      List.take_of_length_le (by rw [List.length_drop, hl, Nat.succ_mul]; omega)
    rw [e4]
    exact List.take_append_drop _ _

/-- the layers of a net mapped point-wise -/
theorem layers_map {β : Type} (l : List α) (S n : Nat) (g : List α → List α) (g' : List β → List β) (h : α → β)
    (hc : ∀ x, g' (x.map h) = (g x).map h) : layers (l.map h) S n g' = (layers l S n g).map h := by
  induction n with
  | zero => simp [layers]
  | succ n ih =>
    rw [layers_succ, layers_succ, ih, List.map_append]
    congr 1
    unfold slice
    rw [← hc, List.map_take, List.map_drop]

end layers

/-! ### allSome -/
section allSome
variable {α β : Type}

@[simp] theorem allSome_map_some (l : List α) : allSome (l.map some) = some l := by
  induction l with
  | nil => rfl
  | cons a r ih => simp [allSome, ih]

theorem allSome_map_of (l : List α) (f : α → Option β) (g : α → β) (h : ∀ a ∈ l, f a = some (g a)) :
    allSome (l.map f) = some (l.map g) := by
  induction l with
  | nil => rfl
  | cons a r ih =>
    simp only [List.map_cons, h a (by simp)]
    simp [allSome, ih (fun b hb => h b (by simp [hb]))]

end allSome

section toks
variable {K : Type} [NatCast K]

@[simp] theorem lineNums_map_num (l : List K) : lineNums (l.map Tok.num) = some l := by
  unfold lineNums
  rw [List.map_map]
  exact allSome_map_some l

@[simp] theorem linesNums_map_num (f : List (List K)) : linesNums (f.map (·.map Tok.num)) = some f := by
  unfold linesNums
  rw [List.map_map]
  have : ((lineNums (K := K)) ∘ fun x => List.map Tok.num x) = some := by
    funext x; simp
  rw [this]
  exact allSome_map_some f

end toks

/-! ### weights -/
section weights
variable {K : Type} [Field K]

@[simp] theorem unweightPt_nil : unweightPt ([] : List K) = [] := rfl
@[simp] theorem weightPt_nil : weightPt ([] : List K) = [] := rfl

@[simp] theorem getLastD_concat (q : List K) (w d : K) : (q ++ [w]).getLastD d = w := by
  simp [List.getLastD_eq_getLast?]

theorem exists_concat (p : List K) (hp : p ≠ []) : ∃ q w, p = q ++ [w] := by
  refine ⟨p.dropLast, p.getLast hp, ?_⟩
  exact (List.dropLast_append_getLast hp).symm

@[simp] theorem unweightPt_concat (q : List K) (w : K) : unweightPt (q ++ [w]) = q.map (· / w) ++ [w] := by
  simp [unweightPt]

@[simp] theorem weightPt_concat (q : List K) (w : K) : weightPt (q ++ [w]) = q.map (· * w) ++ [w] := by
  simp [weightPt]

/-- `(xw,..,w) ↦ (x,..,w) ↦ (xw,..,w)` is the identity when the weight is not zero -/
theorem weight_unweightPt (p : List K) (hw : p.getLastD 0 ≠ 0) : weightPt (unweightPt p) = p := by
  by_cases hp : p = []
  · subst hp; rfl
  · obtain ⟨q, w, rfl⟩ := exists_concat p hp
    rw [getLastD_concat] at hw
    simp [Function.comp_def, div_mul_cancel₀ _ hw]

theorem unweight_weightPt (p : List K) (hw : p.getLastD 0 ≠ 0) : unweightPt (weightPt p) = p := by
  by_cases hp : p = []
  · subst hp; rfl
  · obtain ⟨q, w, rfl⟩ := exists_concat p hp
    rw [getLastD_concat] at hw
    simp [Function.comp_def, mul_div_cancel_right₀ _ hw]

/-- all weights of a homogeneous net are non-zero (and no point is empty) -/
def WeightsOk (net : List (List K)) : Prop := ∀ p ∈ net, p ≠ [] ∧ p.getLastD 0 ≠ 0

theorem map_weight_unweight (net : List (List K)) (h : WeightsOk net) : (net.map unweightPt).map weightPt = net := by
  rw [List.map_map]
  conv_rhs => rw [← List.map_id net]
  apply List.map_congr_left
  intro p hp
  exact weight_unweightPt p (h p hp).2

theorem map_unweight_weight (net : List (List K)) (h : WeightsOk net) : (net.map weightPt).map unweightPt = net := by
  rw [List.map_map]
  conv_rhs => rw [← List.map_id net]
  apply List.map_congr_left
  intro p hp
  exact unweight_weightPt p (h p hp).2

theorem combine_cons (p : List K) (r : List (List K)) (w : K) (ws : List K) :
    combine (p :: r) (w :: ws) = (p.map (· * w) ++ [w]) :: combine r ws := rfl

theorem combine_ones (net : List (List K)) : combine net (ones net.length) = net.map (· ++ [1]) := by
  induction net with
  | nil => rfl
  | cons p r ih =>
    have : ones (K := K) (p :: r).length = 1 :: ones r.length := by simp [ones, List.replicate_succ]
    rw [this, combine_cons, ih]
    simp

theorem separatePts_combine (pts : List (List K)) (ws : List K) (hl : pts.length = ws.length) (hw : ∀ w ∈ ws, w ≠ 0) :
    separatePts (combine pts ws) = pts := by
  induction pts generalizing ws with
  | nil => simp [combine, separatePts]
  | cons p r ih =>
    cases ws with
    | nil => simp at hl
    | cons w ws =>
      have hw0 : w ≠ 0 := hw w (by simp)
      rw [combine_cons]
      have e := ih ws (by simpa using hl) (fun x hx => hw x (by simp [hx]))
      unfold separatePts at e ⊢
      rw [List.map_cons, e]
      simp [Function.comp_def, mul_div_cancel_right₀ _ hw0]

theorem separateWts_combine (pts : List (List K)) (ws : List K) (hl : pts.length = ws.length) :
    separateWts (combine pts ws) = ws := by
  induction pts generalizing ws with
  | nil => cases ws <;> simp_all [combine, separateWts]
  | cons p r ih =>
    cases ws with
    | nil => simp at hl
    | cons w ws =>
      rw [combine_cons]
      have e := ih ws (by simpa using hl)
      unfold separateWts at e ⊢
      rw [List.map_cons, e]
      simp

/-- `combine_ctrlpts_weights(separate_ctrlpts_weights(Pw)) = Pw` for non-zero weights -/
theorem combine_separate (net : List (List K)) (h : WeightsOk net) :
    combine (separatePts net) (separateWts net) = net := by
  induction net with
  | nil => rfl
  | cons p r ih =>
    have hp := h p (by simp)
    have e := ih (fun q hq => h q (by simp [hq]))
    obtain ⟨q, w, rfl⟩ := exists_concat p hp.1
    have hw : w ≠ 0 := by simpa using hp.2
    unfold separatePts separateWts at e ⊢
    rw [List.map_cons, List.map_cons, combine_cons, e]
    simp [Function.comp_def, div_mul_cancel₀ _ hw]

theorem separatePts_length (net : List (List K)) : (separatePts net).length = net.length := by simp [separatePts]
theorem separateWts_length (net : List (List K)) : (separateWts net).length = net.length := by simp [separateWts]

/-- record → stored net → record on the control point part: what the importer stores is the original
    homogeneous net -/
theorem recNet_rec (rational : Bool) (net : List (List K)) (h : rational = true → WeightsOk net) :
    recNet (recPoints rational net) (recWeights rational net) = homNet rational net := by
  cases rational with
  | false => simp [recNet, recPoints, recWeights, homNet]
  | true =>
    have hw := h rfl
    simp only [recNet, recPoints, recWeights, homNet, if_true]
    rw [separatePts_combine _ _ (by simp [ones]) (by intro w hw; simp [ones] at hw; rw [hw.2]; exact one_ne_zero)]
    exact combine_separate net hw

end weights

/-! ### knot normalisation -/
section knots
variable {K : Type} [Field K]

/-- a knot vector that starts at 0 and ends at 1 is left alone by `knotvector.normalize` -/
theorem knotNormalize_of_unit (U : List K) (h0 : U.headD 0 = 0) (h1 : U.getLastD 0 = 1) : knotNormalize U = U := by
  show U.map (fun x => (x - U.headD 0) / (U.getLastD 0 - U.headD 0)) = U
  rw [h0, h1]
  simp

/-- normalising twice is normalising once (non-degenerate range) -/
theorem knotNormalize_idem (U : List K) (hne : U.headD 0 ≠ U.getLastD 0) :
    knotNormalize (knotNormalize U) = knotNormalize U := by
  have hU : U ≠ [] := by
    intro h; subst h; simp at hne
  apply knotNormalize_of_unit
  · unfold knotNormalize
    cases U with
    | nil => exact absurd rfl hU
    | cons a r => simp
  · unfold knotNormalize
    have hd : U.getLastD 0 - U.headD 0 ≠ 0 := sub_ne_zero.mpr (Ne.symm hne)
    cases U with
    | nil => exact absurd rfl hU
    | cons a r =>
      simp only [List.getLastD_eq_getLast?, List.getLast?_map]
      simp only [List.getLast?_eq_some_getLast (l := a :: r) (by simp), Option.map_some, Option.getD_some]
      have : (a :: r).getLastD 0 = (a :: r).getLast (by simp) := by
        simp [List.getLastD_eq_getLast?, List.getLast?_eq_some_getLast]
      rw [this] at hd
      simp only [List.headD_cons] at hd ⊢
      exact div_self hd

end knots

end Exch
end Geomdl
