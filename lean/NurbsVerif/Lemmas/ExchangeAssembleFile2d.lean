import NurbsVerif.Lemmas.Exchange

/-!
  C14, the 2-D control point file helpers of `compatibility.py` (`flip_ctrlpts2d_file`,
  `generate_ctrlptsw2d_file`, `generate_ctrlpts2d_weights_file`) on EVERY rectangular file
  (`size_u` lines of `size_v` points, both sizes positive): what the repaired helpers write, and that the
  pinned flip raises on every non-square file (finding F-14b).
-/
namespace Geomdl
namespace Exch

/-! ### the saved structure and its text -/
section saved
variable {K : Type}

/-- the fold step of `savedLines` -/
def svStep (acc : List (List (List K)) × List (List K)) (p : List K × Bool) : List (List (List K)) × List (List K) :=
  if p.2 then (acc.1 ++ [acc.2 ++ [p.1]], []) else (acc.1, acc.2 ++ [p.1])

theorem savedLines_eq (s : Saved K) :
    savedLines s = (if (s.flatten.foldl svStep ([], [])).2.isEmpty then (s.flatten.foldl svStep ([], [])).1
      else (s.flatten.foldl svStep ([], [])).1 ++ [(s.flatten.foldl svStep ([], [])).2]) := rfl

theorem foldl_svStep_false (l : List (List K)) (acc : List (List (List K))) (cur : List (List K)) :
    (l.map (fun pt => (pt, false))).foldl svStep (acc, cur) = (acc, cur ++ l) := by
  induction l generalizing cur with
  | nil => simp
  | cons a r ih =>
    simp only [List.map_cons, List.foldl_cons, svStep, Bool.false_eq_true, if_false]
    rw [ih]; simp

/-- a line of the saved structure: points followed by `;`, the last one followed by a new line -/
def markLine (r : List (List K) × List K) : List (List K × Bool) := r.1.map (fun pt => (pt, false)) ++ [(r.2, true)]
def textLine (r : List (List K) × List K) : List (List K) := r.1 ++ [r.2]

theorem foldl_svStep_lines (R : List (List (List K) × List K)) (acc : List (List (List K))) :
    ((R.map markLine).flatten).foldl svStep (acc, []) = (acc ++ R.map textLine, []) := by
  induction R generalizing acc with
  | nil => simp
  | cons r R ih =>
    simp only [List.map_cons, List.flatten_cons, List.foldl_append, markLine, foldl_svStep_false,
      List.foldl_cons, List.foldl_nil, svStep, if_true, List.nil_append]
    rw [ih]; simp [textLine]

theorem savedLines_lines (R : List (List (List K) × List K)) : savedLines (R.map markLine) = R.map textLine := by
  rw [savedLines_eq, foldl_svStep_lines]; simp

/-- the saved structure of `m` lines of `n ≥ 1` points with the line end after point `n - 1` denotes these `m`
    lines of `n` points -/
theorem savedLines_grid (m n : Nat) (hn : 0 < n) (P : Nat → Nat → List K) :
    savedLines ((List.range m).map fun i => (List.range n).map fun j => (P i j, decide (j = n - 1)))
      = (List.range m).map fun i => (List.range n).map (P i) := by
  obtain ⟨k, rfl⟩ : ∃ k, n = k + 1 := ⟨n - 1, by omega⟩
  have h1 : ((List.range m).map fun i => (List.range (k + 1)).map fun j => (P i j, decide (j = k + 1 - 1)))
      = ((List.range m).map fun i => ((List.range k).map (P i), P i k)).map markLine := by
    rw [List.map_map]
    apply List.map_congr_left
    intro i _
    simp only [Function.comp, markLine, List.range_succ, List.map_append, List.map_cons, List.map_nil, List.map_map,
      Nat.add_sub_cancel, decide_true]
    congr 1
    apply List.map_congr_left
    intro j hj
    have : j ≠ k := by have := List.mem_range.1 hj; omega
    simp [this]
  rw [h1, savedLines_lines, List.map_map]
  apply List.map_congr_left
  intro i _
  simp [textLine, List.range_succ]

end saved

/-! ### rectangular arrays -/
section rect
variable {α : Type}

/-- `su` rows of `sv` entries -/
def Rect2d (g : List (List α)) (su sv : Nat) : Prop := g.length = su ∧ ∀ r ∈ g, r.length = sv

theorem Rect2d.row {g : List (List α)} {su sv : Nat} (h : Rect2d g su sv) {i : Nat} (hi : i < su) :
    ∃ r, g[i]? = some r ∧ r.length = sv ∧ g.getD i [] = r := by
  have hi' : i < g.length := by rw [h.1]; exact hi
  refine ⟨g[i], List.getElem?_eq_getElem hi', h.2 _ (List.getElem_mem hi'), ?_⟩
  rw [List.getD_eq_getElem?_getD, List.getElem?_eq_getElem hi']; rfl

theorem Rect2d.eq_tab [Inhabited α] {g : List (List α)} {su sv : Nat} (h : Rect2d g su sv) (d : α) :
    (List.range su).map (fun i => (List.range sv).map fun j => (g.getD i []).getD j d) = g := by
  apply List.ext_getElem
  · simp [h.1]
  · intro i h1 h2
    have hi : i < su := by simpa using h1
    obtain ⟨r, hr, hlen, hgd⟩ := h.row hi
    have : g[i] = r := by
      have := List.getElem?_eq_getElem h2
      rw [hr] at this; exact (Option.some.inj this).symm
    simp only [List.getElem_map, List.getElem_range, hgd, this]
    apply List.ext_getElem
    · simp [hlen]
    · intro j k1 k2
      simp [List.getD_eq_getElem?_getD, List.getElem?_eq_getElem k2]

/-- `[u][v] → [v][u]` of a rectangular array is rectangular with the sizes swapped, entry `[v][u]` = input `[u][v]` -/
theorem flipCtrlpts2d_rect {β : Type} (g : List (List (List β))) (su sv : Nat) :
    Rect2d (flipCtrlpts2d g su sv) sv su := by
  refine ⟨by simp [flipCtrlpts2d], ?_⟩
  intro r hr
  simp only [flipCtrlpts2d, List.mem_map] at hr
  obtain ⟨i, _, rfl⟩ := hr
  simp

theorem flipCtrlpts2d_getD {β : Type} (g : List (List (List β))) (su sv u v : Nat) (hu : u < su) (hv : v < sv) :
    ((flipCtrlpts2d g su sv).getD v []).getD u [] = (g.getD u []).getD v [] := by
  simp [flipCtrlpts2d, List.getD_eq_getElem?_getD, hu, hv]

end rect

theorem allSome_none_of_mem {α : Type} (l : List (Option α)) (h : none ∈ l) : allSome l = none := by
  induction l with
  | nil => simp at h
  | cons a r ih =>
    cases a with
    | none => rfl
    | some x =>
      have : none ∈ r := by simpa using h
      simp [allSome, ih this]

section helpers
variable {K : Type} [Field K]

/-- the text of a 2-D control point file holding the array `g` -/
def file2Of (g : List (List (List K))) : File2 K := g.map (·.map (·.map Tok.num))

/-- `_read_ctrltps2d_file` on the file of a rectangular array: the array, the number of lines, the length of the last line -/
theorem read2d_file (g : List (List (List K))) (su sv : Nat) (h : Rect2d g su sv) (hu : 0 < su) :
    read2d (file2Of g) = some (g, su, sv) := by
  have h1 : allSome ((file2Of g).map linesNums) = some g := by
    unfold file2Of
    rw [List.map_map]
    have : (linesNums (K := K) ∘ fun x => List.map (fun x => List.map Tok.num x) x) = some := by
      funext x; simp
    rw [this]; exact allSome_map_some g
  unfold read2d
  rw [h1]
  have hne : g ≠ [] := by intro e; rw [e] at h; simp [Rect2d] at h; omega
  have hl : (g.getLastD []).length = sv := by
    have : g.getLastD [] = g.getLast hne := by
      rw [List.getLastD_eq_getLast?, List.getLast?_eq_some_getLast hne]; rfl
    rw [this]; exact h.2 _ (List.getLast_mem hne)
  show some (g, g.length, (g.getLastD []).length) = _
  rw [h.1, hl]

omit [Field K] in
/-- the saver (line end after point `e`) on a rectangular array of the sizes it is told: every index is in range -/
theorem save2dWith_rect (e : Nat) (g : List (List (List K))) (su sv : Nat) (h : Rect2d g su sv) :
    save2dWith e g su sv
      = some ((List.range su).map fun i => (List.range sv).map fun j => ((g.getD i []).getD j [], decide (j = e))) := by
  unfold save2dWith
  apply allSome_map_of
  intro i hi
  obtain ⟨r, hr, hlen, hgd⟩ := h.row (List.mem_range.1 hi)
  apply allSome_map_of
  intro j hj
  have hj' : j < r.length := by rw [hlen]; exact List.mem_range.1 hj
  simp [hr, List.getElem?_eq_getElem hj', List.getD_eq_getElem?_getD]

omit [Field K] in
/-- **repaired `_save_ctrlpts2d_file`**: a rectangular array (`size_v ≥ 1`) is written as its `size_u` lines of
    `size_v` points -/
theorem save2d_lines (g : List (List (List K))) (su sv : Nat) (h : Rect2d g su sv) (hv : 0 < sv) :
    (save2d g su sv).map savedLines = some g := by
  unfold save2d
  rw [save2dWith_rect _ g su sv h, Option.map_some, savedLines_grid su sv hv (fun i j => (g.getD i []).getD j [])]
  rw [h.eq_tab]

/-- **repaired `flip_ctrlpts2d_file`**, every rectangular file: the output file is the transposed array
    (`size_v` lines of `size_u` points, entry `[v][u]` = input `[u][v]`, see `flipCtrlpts2d_getD`) -/
theorem flip2dFile_rect (g : List (List (List K))) (su sv : Nat) (h : Rect2d g su sv) (hu : 0 < su) (_hv : 0 < sv) :
    flip2dFile (file2Of g) = some (flipCtrlpts2d g su sv) := by
  unfold flip2dFile
  rw [read2d_file g su sv h hu]
  exact save2d_lines _ sv su (flipCtrlpts2d_rect g su sv) hu

theorem map_rect {β γ : Type} (f : β → γ) (g : List (List β)) (su sv : Nat) (h : Rect2d g su sv) :
    Rect2d (g.map (·.map f)) su sv := by
  refine ⟨by simp [h.1], ?_⟩
  intro r hr
  obtain ⟨r0, hr0, rfl⟩ := List.mem_map.1 hr
  simp [h.2 r0 hr0]

/-- **`generate_ctrlptsw2d_file`** (repaired saver), every rectangular file: same layout, every point `(x,y,z,w) ↦ (xw,yw,zw,w)` -/
theorem weight2dFile_rect (g : List (List (List K))) (su sv : Nat) (h : Rect2d g su sv) (hu : 0 < su) (hv : 0 < sv) :
    weight2dFile (file2Of g) = some (g.map (·.map weightPt)) := by
  unfold weight2dFile
  rw [read2d_file g su sv h hu]
  exact save2d_lines _ su sv (map_rect weightPt g su sv h) hv

/-- **`generate_ctrlpts2d_weights_file`** (repaired saver): every point `(xw,yw,zw,w) ↦ (x,y,z,w)` -/
theorem unweight2dFile_rect (g : List (List (List K))) (su sv : Nat) (h : Rect2d g su sv) (hu : 0 < su) (hv : 0 < sv) :
    unweight2dFile (file2Of g) = some (g.map (·.map unweightPt)) := by
  unfold unweight2dFile
  rw [read2d_file g su sv h hu]
  exact save2d_lines _ su sv (map_rect unweightPt g su sv h) hv

/-- flipping twice gives the file back -/
theorem flip2d_twice (g : List (List (List K))) (su sv : Nat) (h : Rect2d g su sv) (hu : 0 < su) (hv : 0 < sv) :
    (flip2dFile (file2Of g)).bind (fun g' => flip2dFile (file2Of g')) = some g := by
  rw [flip2dFile_rect g su sv h hu hv, Option.bind_some,
    flip2dFile_rect _ sv su (flipCtrlpts2d_rect g su sv) hv hu]
  congr 1
  have h2 := flipCtrlpts2d_rect (flipCtrlpts2d g su sv) sv su
  have e1 := h2.eq_tab ([] : List K)
  have e2 := h.eq_tab ([] : List K)
  rw [← e1]
  conv_rhs => rw [← e2]
  apply List.map_congr_left
  intro i hi
  apply List.map_congr_left
  intro j hj
  rw [flipCtrlpts2d_getD _ sv su j i (List.mem_range.1 hj) (List.mem_range.1 hi),
    flipCtrlpts2d_getD _ su sv i j (List.mem_range.1 hi) (List.mem_range.1 hj)]

/-- weights file → homogeneous file → weights file: the identity when the weights are non-zero -/
theorem unweight_weight2d (g : List (List (List K))) (su sv : Nat) (h : Rect2d g su sv) (hu : 0 < su) (hv : 0 < sv)
    (hw : ∀ r ∈ g, WeightsOk r) :
    (weight2dFile (file2Of g)).bind (fun g' => unweight2dFile (file2Of g')) = some g := by
  rw [weight2dFile_rect g su sv h hu hv, Option.bind_some,
    unweight2dFile_rect _ su sv (map_rect weightPt g su sv h) hu hv, List.map_map]
  congr 1
  conv_rhs => rw [← List.map_id g]
  apply List.map_congr_left
  intro r hr
  exact map_unweight_weight r (hw r hr)

/-- **F-14b in general**: the pinned `flip_ctrlpts2d_file` (flipped array saved with the unflipped sizes) raises
    `IndexError` on EVERY non-square rectangular file -/
theorem flip2dFilePinned_nonsquare (g : List (List (List K))) (su sv : Nat) (h : Rect2d g su sv) (hu : 0 < su) (hv : 0 < sv)
    (hne : su ≠ sv) : flip2dFilePinned (file2Of g) = none := by
  unfold flip2dFilePinned
  rw [read2d_file g su sv h hu]
  have hF := flipCtrlpts2d_rect g su sv
  suffices hs : save2dPinned (flipCtrlpts2d g su sv) su sv = none by simp [hs]
  unfold save2dPinned save2dWith
  apply allSome_none_of_mem
  rw [List.mem_map]
  rcases Nat.lt_or_gt_of_ne hne with hlt | hgt
  · -- more columns than rows: row 0 of the flipped array has only `su` entries, column `su < sv` is read
    refine ⟨0, List.mem_range.2 hu, ?_⟩
    apply allSome_none_of_mem
    rw [List.mem_map]
    refine ⟨su, List.mem_range.2 hlt, ?_⟩
    obtain ⟨r, hr, hlen, _⟩ := hF.row hv
    rw [hr]
    simp [List.getElem?_eq_none (by omega : r.length ≤ su)]
  · -- more rows than columns: the flipped array has only `sv` rows, row `sv < su` is read
    refine ⟨sv, List.mem_range.2 hgt, ?_⟩
    apply allSome_none_of_mem
    rw [List.mem_map]
    refine ⟨0, List.mem_range.2 hv, ?_⟩
    rw [List.getElem?_eq_none (by rw [hF.1])]

end helpers
end Exch
end Geomdl
