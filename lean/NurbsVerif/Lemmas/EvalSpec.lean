import NurbsVerif.Model.Eval
import NurbsVerif.Lemmas.BasisProps
import Mathlib.Algebra.BigOperators.Intervals
import Mathlib.Algebra.BigOperators.Ring.Finset
import Mathlib.Tactic.Ring

/-! The evaluation model (`linComb`, `curvePointAt`) coordinatewise, and against the Cox–de Boor sum. -/
namespace Geomdl
open Blossom Finset
variable {K : Type} [Field K] [LinearOrder K] [IsStrictOrderedRing K]

theorem vadd_getD (a b : List K) (j : ℕ) (h : a.length = b.length) :
    (vadd a b).getD j 0 = a.getD j 0 + b.getD j 0 := by
  unfold vadd
  simp only [List.getD_eq_getElem?_getD, List.getElem?_zipWith]
  by_cases hj : j < a.length
  · have hb : j < b.length := by omega
    simp [List.getElem?_eq_getElem hj, List.getElem?_eq_getElem hb]
  · have hb : ¬ j < b.length := by omega
    simp [List.getElem?_eq_none (not_lt.mp hj), List.getElem?_eq_none (not_lt.mp hb)]

theorem vsmul_getD (c : K) (a : List K) (j : ℕ) : (vsmul c a).getD j 0 = c * a.getD j 0 := by
  unfold vsmul
  simp only [List.getD_eq_getElem?_getD, List.getElem?_map]
  cases h : a[j]? <;> simp

theorem vadd_length (a b : List K) : (vadd a b).length = min a.length b.length := by simp [vadd]
theorem vsmul_length (c : K) (a : List K) : (vsmul c a).length = a.length := by simp [vsmul]

/-- weighted sum of the `j`-th coordinates -/
def coordSum (j : ℕ) : List K → List (List K) → K
  | n :: ns, pt :: pts => n * pt.getD j 0 + coordSum j ns pts
  | _, _ => 0

theorem linComb_fold_getD (d j : ℕ) : ∀ (l : List (K × List K)) (acc : List K), acc.length = d →
    (∀ x ∈ l, x.2.length = d) →
    (l.foldl (fun acc x => vadd acc (vsmul x.1 x.2)) acc).getD j 0
      = acc.getD j 0 + (l.map (fun x => x.1 * x.2.getD j 0)).sum := by
  intro l
  induction l with
  | nil => intro acc _ _; simp
  | cons x xs ih =>
    intro acc hacc hl
    simp only [List.foldl_cons, List.map_cons, List.sum_cons]
    have hx : x.2.length = d := hl x (by simp)
    rw [ih _ (by rw [vadd_length, vsmul_length, hacc, hx]; simp) (fun y hy => hl y (by simp [hy]))]
    rw [vadd_getD _ _ _ (by rw [vsmul_length, hacc, hx]), vsmul_getD]
    ring

theorem linComb_getD (d j : ℕ) (N : List K) (pts : List (List K)) (hl : ∀ pt ∈ pts, pt.length = d) :
    (linComb d N pts).getD j 0 = ((List.zip N pts).map (fun x => x.1 * x.2.getD j 0)).sum := by
  unfold linComb
  rw [linComb_fold_getD d j _ _ (by simp [vzero])]
  · simp [vzero, List.getD_eq_getElem?_getD, List.getElem?_replicate]
    split <;> simp
  · intro x hx
    exact hl _ (List.of_mem_zip hx).2

/-- the list-level weighted sum is `wsum` of Lemmas/Diag against the coordinate function -/
theorem zip_sum_eq_wsum (j : ℕ) (c : ℕ → List K) : ∀ (N : List K) (b : ℕ),
    ((List.zip N ((List.range' b N.length).map c)).map (fun x => x.1 * x.2.getD j 0)).sum
      = wsum N (fun i => (c i).getD j 0) b := by
  intro N
  induction N with
  | nil => intro b; simp [wsum]
  | cons n ns ih =>
    intro b
    simp only [List.length_cons, List.range'_succ, List.map_cons, List.zip_cons_cons, List.sum_cons, wsum]
    rw [ih (b+1)]

theorem wsum_eq_sum (c : ℕ → K) : ∀ (N : List K) (b : ℕ),
    wsum N c b = ∑ r ∈ range N.length, N.getD r 0 * c (b + r) := by
  intro N
  induction N with
  | nil => intro b; simp [wsum]
  | cons n ns ih =>
    intro b
    simp only [wsum, List.length_cons]
    rw [Finset.sum_range_succ', ih (b+1)]
    simp only [List.getD_cons_succ, List.getD_cons_zero, Nat.add_zero]
    rw [add_comm]
    congr 1
    apply Finset.sum_congr rfl
    intro r _
    congr 2
    omega

/-- the sum of *all* Cox–de Boor functions times control values reduces to the `p+1` active ones -/
theorem cdb_sum_eq_wsum (U : ℕ → K) (k : ℕ) (u : K) (hm : Monotone U) (h1 : U k ≤ u) (h2 : u < U (k+1))
    (p : ℕ) (hp : p ≤ k) (n : ℕ) (hn : k < n) (c : ℕ → K) :
    ∑ i ∈ range n, cdb U p i u * c i = wsum (basisFuns p U k u) c (k - p) := by
  rw [wsum_eq_sum, Blossom.basisFuns_length]
  have hsplit : n = (k - p) + ((p + 1) + (n - (k + 1))) := by omega
  rw [hsplit, Finset.sum_range_add, Finset.sum_range_add]
  have z1 : ∑ x ∈ range (k - p), cdb U p x u * c x = 0 := by
    apply Finset.sum_eq_zero
    intro i hi
    rw [Finset.mem_range] at hi
    rw [cdb_eq_basisFuns U k u hm h1 h2 p hp i, if_neg (by omega), zero_mul]
  have z2 : ∑ x ∈ range (n - (k + 1)), cdb U p (k - p + (p + 1 + x)) u * c (k - p + (p + 1 + x)) = 0 := by
    apply Finset.sum_eq_zero
    intro i _
    rw [cdb_eq_basisFuns U k u hm h1 h2 p hp _, if_neg (by omega), zero_mul]
  rw [z1, z2, zero_add, add_zero]
  apply Finset.sum_congr rfl
  intro r hr
  rw [Finset.mem_range] at hr
  rw [cdb_eq_basisFuns U k u hm h1 h2 p hp _, if_pos (by omega)]
  congr 2
  omega

end Geomdl

namespace Geomdl
open Blossom Finset
variable {K : Type} [Field K] [LinearOrder K] [IsStrictOrderedRing K]

theorem linComb_length (d : ℕ) (N : List K) (pts : List (List K)) (hl : ∀ pt ∈ pts, pt.length = d) :
    (linComb d N pts).length = d := by
  unfold linComb
  have : ∀ (l : List (K × List K)) (acc : List K), acc.length = d → (∀ x ∈ l, x.2.length = d) →
      (l.foldl (fun acc x => vadd acc (vsmul x.1 x.2)) acc).length = d := by
    intro l
    induction l with
    | nil => intro acc h _; simpa using h
    | cons x xs ih =>
      intro acc hacc hx
      simp only [List.foldl_cons]
      apply ih
      · rw [vadd_length, vsmul_length, hacc, hx x (by simp)]; simp
      · intro y hy; exact hx y (by simp [hy])
  apply this
  · simp [vzero]
  · intro x hx; exact hl _ (List.of_mem_zip hx).2

theorem linComb_range (d j q : ℕ) (N : List K) (hN : N.length = q + 1) (f : ℕ → List K)
    (hf : ∀ r, r ≤ q → (f r).length = d) :
    (linComb d N ((List.range (q+1)).map f)).getD j 0 = ∑ r ∈ range (q+1), N.getD r 0 * (f r).getD j 0 := by
  rw [linComb_getD d j N _ (by
    intro pt hpt
    simp only [List.mem_map, List.mem_range] at hpt
    obtain ⟨r, hr, rfl⟩ := hpt
    exact hf r (by omega))]
  have h := zip_sum_eq_wsum j f N 0
  rw [hN] at h
  rw [List.range_eq_range', h, wsum_eq_sum, hN]
  simp

theorem cdb_sum_window (U : ℕ → K) (k : ℕ) (u : K) (hm : Monotone U) (h1 : U k ≤ u) (h2 : u < U (k+1))
    (p : ℕ) (hp : p ≤ k) (n : ℕ) (hn : k < n) (c : ℕ → K) :
    ∑ i ∈ range n, cdb U p i u * c i = ∑ r ∈ range (p+1), (basisFuns p U k u).getD r 0 * c (k - p + r) := by
  rw [cdb_sum_eq_wsum U k u hm h1 h2 p hp n hn, wsum_eq_sum, Blossom.basisFuns_length]

/-- all points of a net have `d` coordinates -/
def NetOk (d : ℕ) (P : List (List K)) : Prop := ∀ pt ∈ P, pt.length = d

theorem ptsGet_length {d : ℕ} {P : List (List K)} (h : NetOk d P) (i : ℕ) (hi : i < P.length) :
    (ptsGet P i).length = d := by
  unfold ptsGet
  rw [List.getD_eq_getElem?_getD, List.getElem?_eq_getElem hi]
  exact h _ (List.getElem_mem hi)

theorem dimOf_eq {d : ℕ} {P : List (List K)} (h : NetOk d P) (hne : 0 < P.length) : dimOf P = d := by
  unfold dimOf
  cases P with
  | nil => simp at hne
  | cons a as => exact h a (by simp)

/-- **A3.1 = the definition**: coordinate `j` of the evaluated point is the sum over ALL control
    points of Cox–de Boor basis function times control point coordinate. -/
theorem curvePointAt_eq_cdb (p : ℕ) (U : ℕ → K) (P : List (List K)) (k : ℕ) (u : K) (d j : ℕ)
    (hm : Monotone U) (h1 : U k ≤ u) (h2 : u < U (k+1)) (hp : p ≤ k) (hk : k < P.length) (hP : NetOk d P) :
    (curvePointAt p U P k u).getD j 0 = ∑ i ∈ range P.length, cdb U p i u * (ptsGet P i).getD j 0 := by
  unfold curvePointAt
  rw [dimOf_eq hP (by omega)]
  rw [linComb_range d j p _ (Blossom.basisFuns_length p U k u) (fun i => ptsGet P (k - p + i))
        (fun r hr => ptsGet_length hP _ (by omega))]
  rw [cdb_sum_window U k u hm h1 h2 p hp P.length hk (fun i => (ptsGet P i).getD j 0)]

/-- **A3.5 = the definition** (tensor product; flat index `v + sv·u`) -/
theorem surfacePointAt_eq_cdb (pu pv : ℕ) (Uu Uv : ℕ → K) (su sv : ℕ) (P : List (List K)) (ku kv : ℕ) (u v : K)
    (d j : ℕ) (hmu : Monotone Uu) (hmv : Monotone Uv)
    (hu1 : Uu ku ≤ u) (hu2 : u < Uu (ku+1)) (hv1 : Uv kv ≤ v) (hv2 : v < Uv (kv+1))
    (hpu : pu ≤ ku) (hpv : pv ≤ kv) (hku : ku < su) (hkv : kv < sv) (hlen : P.length = su * sv) (hP : NetOk d P) :
    (surfacePointAt pu pv Uu Uv sv P ku kv u v).getD j 0
      = ∑ a ∈ range su, ∑ b ∈ range sv, cdb Uu pu a u * cdb Uv pv b v * (ptsGet P (b + sv * a)).getD j 0 := by
  have hpos : 0 < P.length := by
    rw [hlen]; exact Nat.mul_pos (by omega) (by omega)
  have hidx : ∀ a b, a < su → b < sv → b + sv * a < P.length := by
    intro a b ha hb
    rw [hlen]
    calc b + sv * a < sv + sv * a := by omega
      _ = sv * (a + 1) := by ring
      _ ≤ sv * su := Nat.mul_le_mul_left _ (by omega)
      _ = su * sv := by ring
  unfold surfacePointAt
  simp only []
  rw [dimOf_eq hP hpos]
  rw [linComb_range d j pu _ (Blossom.basisFuns_length pu Uu ku u) _ (fun r hr => by
    apply linComb_length
    intro pt hpt
    simp only [List.mem_map, List.mem_range] at hpt
    obtain ⟨l, hl, rfl⟩ := hpt
    have := hidx (ku - pu + r) (kv - pv + l) (by omega) (by omega)
    exact ptsGet_length hP _ this)]
  have inner : ∀ r, r ≤ pu →
      (linComb d (basisFuns pv Uv kv v)
        ((List.range (pv+1)).map (fun l => ptsGet P (kv - pv + l + sv * (ku - pu + r))))).getD j 0
      = ∑ b ∈ range sv, cdb Uv pv b v * (ptsGet P (b + sv * (ku - pu + r))).getD j 0 := by
    intro r hr
    rw [linComb_range d j pv _ (Blossom.basisFuns_length pv Uv kv v) _ (fun l hl => by
      have := hidx (ku - pu + r) (kv - pv + l) (by omega) (by omega)
      exact ptsGet_length hP _ this)]
    rw [cdb_sum_window Uv kv v hmv hv1 hv2 pv hpv sv hkv (fun b => (ptsGet P (b + sv * (ku - pu + r))).getD j 0)]
  have step : ∑ r ∈ range (pu + 1), (basisFuns pu Uu ku u).getD r 0 *
        (linComb d (basisFuns pv Uv kv v)
          ((List.range (pv+1)).map (fun l => ptsGet P (kv - pv + l + sv * (ku - pu + r))))).getD j 0
      = ∑ r ∈ range (pu + 1), (basisFuns pu Uu ku u).getD r 0 *
        ∑ b ∈ range sv, cdb Uv pv b v * (ptsGet P (b + sv * (ku - pu + r))).getD j 0 := by
    apply Finset.sum_congr rfl
    intro r hr
    rw [Finset.mem_range] at hr
    rw [inner r (by omega)]
  rw [step]
  have outer := cdb_sum_window Uu ku u hmu hu1 hu2 pu hpu su hku
    (fun a => ∑ b ∈ range sv, cdb Uv pv b v * (ptsGet P (b + sv * a)).getD j 0)
  rw [← outer]
  apply Finset.sum_congr rfl
  intro a _
  rw [Finset.mul_sum]
  apply Finset.sum_congr rfl
  intro b _
  ring

end Geomdl

namespace Geomdl
open Blossom Finset
variable {K : Type} [Field K] [LinearOrder K] [IsStrictOrderedRing K]

theorem wsum_one (N : List K) : ∀ b, wsum N (fun _ => (1:K)) b = N.sum := by
  induction N with
  | nil => intro b; simp [wsum]
  | cons n ns ih => intro b; simp [wsum, ih]

theorem list_sum_eq_range (N : List K) : N.sum = ∑ r ∈ range N.length, N.getD r 0 := by
  rw [← wsum_one N 0, wsum_eq_sum]
  simp

/-- a convex combination (non-negative coefficients summing to one) of positive numbers is positive -/
theorem convex_pos (n : ℕ) (c w : ℕ → K) (hc : ∀ r, r < n → 0 ≤ c r) (hs : ∑ r ∈ range n, c r = 1)
    (hw : ∀ r, r < n → 0 < w r) : 0 < ∑ r ∈ range n, c r * w r := by
  apply Finset.sum_pos'
  · intro r hr; rw [Finset.mem_range] at hr
    exact mul_nonneg (hc r hr) (le_of_lt (hw r hr))
  · by_contra hcon
    push_neg at hcon
    have : ∑ r ∈ range n, c r = 0 := by
      apply Finset.sum_eq_zero
      intro r hr
      have h1 := hcon r hr
      rw [Finset.mem_range] at hr
      have h2 := hc r hr
      have hwr := hw r hr
      by_contra hne
      have hpos : 0 < c r := lt_of_le_of_ne h2 (Ne.symm hne)
      have := mul_pos hpos hwr
      linarith
    rw [this] at hs
    exact zero_ne_one hs

/-- the weight coordinate (index `d`) of the homogeneous point computed by A3.1 is positive when
    all weights are positive: the rational evaluation never divides by zero -/
theorem curvePointAt_weight_pos (p : ℕ) (U : ℕ → K) (P : List (List K)) (k : ℕ) (u : K) (d : ℕ)
    (h : SpanOk U k u) (hp : p ≤ k) (hk : k < P.length) (hP : NetOk (d+1) P)
    (hw : ∀ i, i < P.length → 0 < (ptsGet P i).getD d 0) :
    0 < (curvePointAt p U P k u).getD d 0 := by
  unfold curvePointAt
  rw [dimOf_eq hP (by omega)]
  rw [linComb_range (d+1) d p _ (Blossom.basisFuns_length p U k u) (fun i => ptsGet P (k - p + i))
        (fun r hr => ptsGet_length hP _ (by omega))]
  apply convex_pos
  · intro r hr
    have hmem : (basisFuns p U k u).getD r 0 ∈ basisFuns p U k u := by
      rw [List.getD_eq_getElem?_getD, List.getElem?_eq_getElem (by rw [Blossom.basisFuns_length]; exact hr)]
      exact List.getElem_mem _
    exact basisFuns_nonneg p h _ hmem
  · have := basisFuns_sum p h
    rw [list_sum_eq_range, Blossom.basisFuns_length] at this
    exact this
  · intro r hr; exact hw _ (by omega)

theorem project_getD (pt : List K) (d j : ℕ) (hlen : pt.length = d + 1) (hj : j < d) :
    (project pt).getD j 0 = pt.getD j 0 / pt.getD d 0 := by
  unfold project
  have hne : pt ≠ [] := by intro h; simp [h] at hlen
  have hlast : pt.getLastD 1 = pt.getD d 0 := by
    rw [List.getLastD_eq_getLast?, List.getLast?_eq_getElem?, hlen]
    simp only [Nat.add_sub_cancel, List.getD_eq_getElem?_getD]
    rw [List.getElem?_eq_getElem (by omega)]
    simp
  rw [hlast]
  simp only [List.getD_eq_getElem?_getD, List.getElem?_map, List.getElem?_dropLast]
  have : j < pt.length - 1 := by omega
  simp [this, List.getElem?_eq_getElem (show j < pt.length by omega)]

/-! ### `linalg.linspace` -/
theorem linspaceCore_length (a b : K) (n : ℕ) : (linspaceCore a b n).length = n := by simp [linspaceCore]

theorem linspaceCore_getD (a b : K) (n i : ℕ) (hi : i < n) :
    (linspaceCore a b n).getD i 0 = a + (i : K) * (b - a) / ((n - 1 : ℕ) : K) := by
  simp [linspaceCore, List.getD_eq_getElem?_getD, hi]

theorem linspaceCore_first (a b : K) (n : ℕ) (hn : 1 ≤ n) : (linspaceCore a b n).getD 0 0 = a := by
  rw [linspaceCore_getD a b n 0 (by omega)]; simp

theorem linspaceCore_last (a b : K) (n : ℕ) (hn : 2 ≤ n) : (linspaceCore a b n).getD (n - 1) 0 = b := by
  rw [linspaceCore_getD a b n (n-1) (by omega)]
  have : ((n - 1 : ℕ) : K) ≠ 0 := by
    have : (0:K) < ((n - 1 : ℕ) : K) := by exact_mod_cast (show 0 < n - 1 by omega)
    exact ne_of_gt this
  field_simp
  ring

theorem linspaceCore_strictMono (a b : K) (n i j : ℕ) (hab : a < b) (hij : i < j) (hj : j < n) :
    (linspaceCore a b n).getD i 0 < (linspaceCore a b n).getD j 0 := by
  rw [linspaceCore_getD a b n i (by omega), linspaceCore_getD a b n j hj]
  have hpos : (0:K) < ((n - 1 : ℕ) : K) := by exact_mod_cast (show 0 < n - 1 by omega)
  have hij' : (i : K) < (j : K) := by exact_mod_cast hij
  have : (i : K) * (b - a) / ((n - 1 : ℕ) : K) < (j : K) * (b - a) / ((n - 1 : ℕ) : K) := by
    apply div_lt_div_of_pos_right _ hpos
    exact mul_lt_mul_of_pos_right hij' (by linarith)
  linarith

end Geomdl

namespace Geomdl
open Blossom Finset
variable {K : Type} [Field K] [LinearOrder K] [IsStrictOrderedRing K]

/-- **volume evaluation = the definition** (triple tensor product; flat index `v + sv·(u + su·w)`) -/
theorem volumePointAt_eq_cdb (pu pv pw : ℕ) (Uu Uv Uw : ℕ → K) (su sv sw : ℕ) (P : List (List K))
    (ku kv kw : ℕ) (u v w : K) (d j : ℕ)
    (hmu : Monotone Uu) (hmv : Monotone Uv) (hmw : Monotone Uw)
    (hu1 : Uu ku ≤ u) (hu2 : u < Uu (ku+1)) (hv1 : Uv kv ≤ v) (hv2 : v < Uv (kv+1)) (hw1 : Uw kw ≤ w) (hw2 : w < Uw (kw+1))
    (hpu : pu ≤ ku) (hpv : pv ≤ kv) (hpw : pw ≤ kw) (hku : ku < su) (hkv : kv < sv) (hkw : kw < sw)
    (hlen : P.length = su * sv * sw) (hP : NetOk d P) :
    (volumePointAt pu pv pw Uu Uv Uw su sv P ku kv kw u v w).getD j 0
      = ∑ a ∈ range su, ∑ b ∈ range sv, ∑ c ∈ range sw,
          cdb Uu pu a u * cdb Uv pv b v * cdb Uw pw c w * (ptsGet P (b + sv * (a + su * c))).getD j 0 := by
  have hpos : 0 < P.length := by
    rw [hlen]; exact Nat.mul_pos (Nat.mul_pos (by omega) (by omega)) (by omega)
  have hidx : ∀ a b c, a < su → b < sv → c < sw → b + sv * (a + su * c) < P.length := by
    intro a b c ha hb hc
    rw [hlen]
    have h1 : a + su * c < su * sw := by
      calc a + su * c < su + su * c := by omega
        _ = su * (c + 1) := by ring
        _ ≤ su * sw := Nat.mul_le_mul_left _ (by omega)
    calc b + sv * (a + su * c) < sv + sv * (a + su * c) := by omega
      _ = sv * (a + su * c + 1) := by ring
      _ ≤ sv * (su * sw) := Nat.mul_le_mul_left _ (by omega)
      _ = su * sv * sw := by ring
  unfold volumePointAt
  simp only []
  rw [dimOf_eq hP hpos]
  -- innermost sums
  have innerW : ∀ a b, a ≤ pu → b ≤ pv →
      (linComb d (basisFuns pw Uw kw w)
        ((List.range (pw+1)).map (fun c => ptsGet P (kv - pv + b + sv * (ku - pu + a + su * (kw - pw + c)))))).getD j 0
      = ∑ c ∈ range sw, cdb Uw pw c w * (ptsGet P (kv - pv + b + sv * (ku - pu + a + su * c))).getD j 0 := by
    intro a b ha hb
    rw [linComb_range d j pw _ (Blossom.basisFuns_length pw Uw kw w) _ (fun c hc =>
      ptsGet_length hP _ (hidx (ku - pu + a) (kv - pv + b) (kw - pw + c) (by omega) (by omega) (by omega)))]
    rw [cdb_sum_window Uw kw w hmw hw1 hw2 pw hpw sw hkw (fun c => (ptsGet P (kv - pv + b + sv * (ku - pu + a + su * c))).getD j 0)]
  have lenW : ∀ a b, a ≤ pu → b ≤ pv →
      (linComb d (basisFuns pw Uw kw w)
        ((List.range (pw+1)).map (fun c => ptsGet P (kv - pv + b + sv * (ku - pu + a + su * (kw - pw + c)))))).length = d := by
    intro a b ha hb
    apply linComb_length
    intro pt hpt
    simp only [List.mem_map, List.mem_range] at hpt
    obtain ⟨c, hc, rfl⟩ := hpt
    exact ptsGet_length hP _ (hidx (ku - pu + a) (kv - pv + b) (kw - pw + c) (by omega) (by omega) (by omega))
  have innerV : ∀ a, a ≤ pu →
      (linComb d (basisFuns pv Uv kv v) ((List.range (pv+1)).map (fun b =>
        linComb d (basisFuns pw Uw kw w)
          ((List.range (pw+1)).map (fun c => ptsGet P (kv - pv + b + sv * (ku - pu + a + su * (kw - pw + c)))))))).getD j 0
      = ∑ b ∈ range sv, cdb Uv pv b v * ∑ c ∈ range sw, cdb Uw pw c w * (ptsGet P (b + sv * (ku - pu + a + su * c))).getD j 0 := by
    intro a ha
    rw [linComb_range d j pv _ (Blossom.basisFuns_length pv Uv kv v) _ (fun b hb => lenW a b ha hb)]
    have step : ∑ b ∈ range (pv + 1), (basisFuns pv Uv kv v).getD b 0 *
          (linComb d (basisFuns pw Uw kw w)
            ((List.range (pw+1)).map (fun c => ptsGet P (kv - pv + b + sv * (ku - pu + a + su * (kw - pw + c)))))).getD j 0
        = ∑ b ∈ range (pv + 1), (basisFuns pv Uv kv v).getD b 0 *
            ∑ c ∈ range sw, cdb Uw pw c w * (ptsGet P (kv - pv + b + sv * (ku - pu + a + su * c))).getD j 0 := by
      apply Finset.sum_congr rfl
      intro b hb
      rw [Finset.mem_range] at hb
      rw [innerW a b ha (by omega)]
    rw [step]
    rw [cdb_sum_window Uv kv v hmv hv1 hv2 pv hpv sv hkv
          (fun b => ∑ c ∈ range sw, cdb Uw pw c w * (ptsGet P (b + sv * (ku - pu + a + su * c))).getD j 0)]
  have lenV : ∀ a, a ≤ pu →
      (linComb d (basisFuns pv Uv kv v) ((List.range (pv+1)).map (fun b =>
        linComb d (basisFuns pw Uw kw w)
          ((List.range (pw+1)).map (fun c => ptsGet P (kv - pv + b + sv * (ku - pu + a + su * (kw - pw + c)))))))).length = d := by
    intro a ha
    apply linComb_length
    intro pt hpt
    simp only [List.mem_map, List.mem_range] at hpt
    obtain ⟨b, hb, rfl⟩ := hpt
    exact lenW a b ha (by omega)
  rw [linComb_range d j pu _ (Blossom.basisFuns_length pu Uu ku u) _ (fun a ha => lenV a ha)]
  have stepU : ∑ a ∈ range (pu + 1), (basisFuns pu Uu ku u).getD a 0 *
        (linComb d (basisFuns pv Uv kv v) ((List.range (pv+1)).map (fun b =>
          linComb d (basisFuns pw Uw kw w)
            ((List.range (pw+1)).map (fun c => ptsGet P (kv - pv + b + sv * (ku - pu + a + su * (kw - pw + c)))))))).getD j 0
      = ∑ a ∈ range (pu + 1), (basisFuns pu Uu ku u).getD a 0 *
          ∑ b ∈ range sv, cdb Uv pv b v * ∑ c ∈ range sw, cdb Uw pw c w * (ptsGet P (b + sv * (ku - pu + a + su * c))).getD j 0 := by
    apply Finset.sum_congr rfl
    intro a ha
    rw [Finset.mem_range] at ha
    rw [innerV a (by omega)]
  rw [stepU]
  rw [← cdb_sum_window Uu ku u hmu hu1 hu2 pu hpu su hku
        (fun a => ∑ b ∈ range sv, cdb Uv pv b v * ∑ c ∈ range sw, cdb Uw pw c w * (ptsGet P (b + sv * (a + su * c))).getD j 0)]
  apply Finset.sum_congr rfl
  intro a _
  rw [Finset.mul_sum]
  apply Finset.sum_congr rfl
  intro b _
  rw [Finset.mul_sum, Finset.mul_sum]
  apply Finset.sum_congr rfl
  intro c _
  ring

end Geomdl
