import NurbsVerif.Lemmas.SplitEval

/-! `operations.split_curve` end to end: the model `splitDir` on a curve, unfolded to explicit pieces,
    and the coincidence of both pieces with the original curve. -/
set_option linter.unusedSectionVars false
namespace Geomdl
open Blossom
variable {K : Type} [Field K] [LinearOrder K] [IsStrictOrderedRing K]

/-- a B-spline / NURBS curve (homogeneous points when `rat`) as a `Shape`: what the driver's
    `parseShape` builds for `c rat p U P` -/
def curveShape (rat : Bool) (p : ℕ) (U : List K) (P : List (List K)) : Shape K :=
  { rat := rat, degs := [p], kvs := [U], sizes := [P.length], net := P }

/-- the refined curve `split_curve` cuts: the split parameter inserted `p - s` times -/
def splitRefined (p : ℕ) (U : List K) (P : List (List K)) (ub tol : K) : List K × List (List K) :=
  if p - findMultiplicity ub U tol = 0 then (U, P)
  else insStep p (U, P) (ub, p - findMultiplicity ub U tol, findMultiplicity ub U tol)

/-- **`splitDir` on a curve, unfolded**: both pieces as explicit slices of the refined curve -/
theorem splitDir_curveShape (rat : Bool) (p : ℕ) (U : List K) (P : List (List K)) (ub tol : K)
    (h : ¬ (ub = U.getD p 0 ∨ ub = U.getD P.length 0)) :
    splitDir (curveShape rat p U P) 0 ub tol =
      some (curveShape rat p
              (knotNormalize ((splitRefined p U P ub tol).1.take
                (findSpanLinear p (fnOf (splitRefined p U P ub tol).1) (splitRefined p U P ub tol).2.length ub + 1) ++ [ub]))
              ((splitRefined p U P ub tol).2.take
                (findSpanLinear p (fnOf U) P.length ub - p + 1 + (p - findMultiplicity ub U tol))),
            curveShape rat p
              (knotNormalize (List.replicate (p + 1) ub ++ (splitRefined p U P ub tol).1.drop
                (findSpanLinear p (fnOf (splitRefined p U P ub tol).1) (splitRefined p U P ub tol).2.length ub + 1)))
              ((splitRefined p U P ub tol).2.drop
                (findSpanLinear p (fnOf U) P.length ub - p + 1 + (p - findMultiplicity ub U tol) - 1))) := by
  unfold splitDir splitRefined
  simp only [curveShape, Shape.deg, Shape.kv, Shape.size, List.getD_cons_zero] at h ⊢
  rw [if_neg h]
  by_cases hr : p - findMultiplicity ub U tol = 0
  · simp [hr, Shape.mapDir, Shape.pdim, normKv]
  · simp [hr, insertKnotDir, insStep, Shape.mapDir, Shape.pdim, Shape.kv, Shape.size, Shape.deg, normKv]

/-- what the theorems assume about the multiplicity `s` that `find_multiplicity` reports for the split
    parameter (span `k`): not above the degree, and EXACT – the `s` knots ending at `k` equal `ub`, the
    one before is smaller -/
structure MultExact (p : ℕ) (U : ℕ → K) (k s : ℕ) (ub : K) : Prop where
  le : s ≤ p
  eq : ∀ x, k - s < x → x ≤ k → U x = ub
  lt : U (k - s) < ub

theorem Uh_zero (k : ℕ) (ub : K) (U : ℕ → K) : Uh k 0 ub U = U := by
  funext i
  unfold Uh
  by_cases h : i ≤ k
  · rw [if_pos h]
  · rw [if_neg h, if_neg (by omega)]; rfl

/-- the refined state of `split_curve`: knots `Uh`, sizes, well-formedness, unchanged curve -/
theorem splitRefined_spec (p d : ℕ) (U : List K) (P : List (List K)) (ub tol : K)
    (hwf : CurveWF p d U P) (hlo : fnOf U p < ub) (hhi : ub < fnOf U P.length)
    (hmx : MultExact p (fnOf U) (findSpanLinear p (fnOf U) P.length ub) (findMultiplicity ub U tol) ub) :
    fnOf (splitRefined p U P ub tol).1
        = Uh (findSpanLinear p (fnOf U) P.length ub) (p - findMultiplicity ub U tol) ub (fnOf U) ∧
    (splitRefined p U P ub tol).2.length = P.length + (p - findMultiplicity ub U tol) ∧
    CurveWF p d (splitRefined p U P ub tol).1 (splitRefined p U P ub tol).2 ∧
    (∀ u, fnOf U p ≤ u → u ≤ fnOf U P.length → ∀ j,
      (curvePoint p (fnOf (splitRefined p U P ub tol).1) (splitRefined p U P ub tol).2 u).getD j 0
        = (curvePoint p (fnOf U) P u).getD j 0) := by
  unfold splitRefined
  by_cases hr : p - findMultiplicity ub U tol = 0
  · rw [if_pos hr, hr, Uh_zero]
    exact ⟨rfl, rfl, hwf, fun _ _ _ _ => rfl⟩
  · rw [if_neg hr]
    obtain ⟨k1, k2, k3, k4⟩ := findSpanLinear_spec p (fnOf U) P.length ub hwf.pn hwf.mono (le_of_lt hlo)
    have hreq : ReqOk p (U, P) (ub, p - findMultiplicity ub U tol, findMultiplicity ub U tol) :=
      ⟨le_of_lt hlo, hhi, hmx.eq,
        (by show 1 ≤ p - findMultiplicity ub U tol; omega),
        (by show p - findMultiplicity ub U tol + findMultiplicity ub U tol ≤ p; have := hmx.le; omega)⟩
    obtain ⟨hwf', _, _⟩ := insStep_wf p d (U, P) _ hwf hreq
    refine ⟨?_, ?_, hwf', ?_⟩
    · exact fnOf_knotInsertionKv U ub _ _ (by
        show findSpanLinear p (fnOf U) P.length ub + 1 < U.length
        have := hwf.len; omega)
    · simp only [insStep]; exact knotInsertion_length _ _ _ _ _ _ _
    · intro u hu0 hu1 j
      have hr1 : 1 ≤ p - findMultiplicity ub U tol := by omega
      have hrs : p - findMultiplicity ub U tol + findMultiplicity ub U tol ≤ p := by have := hmx.le; omega
      exact knotInsertion_preserves_curve p U P ub u (p - findMultiplicity ub U tol) (findMultiplicity ub U tol)
        d j hwf.net hwf.mono hwf.len hwf.pn (le_of_lt hlo) hhi hmx.eq hr1 hrs hu0 hu1 hwf.last

/-- **after the insertion step the curve is cut-ready**: the split parameter has multiplicity exactly
    `p`, its last copy at index `k + r` -/
theorem splitRefined_cut (p d : ℕ) (U : List K) (P : List (List K)) (ub tol : K)
    (hwf : CurveWF p d U P) (hp : 1 ≤ p) (hc0 : fnOf U 0 = fnOf U p)
    (hc1 : fnOf U (P.length + p) = fnOf U P.length) (hlo : fnOf U p < ub) (hhi : ub < fnOf U P.length)
    (hmx : MultExact p (fnOf U) (findSpanLinear p (fnOf U) P.length ub) (findMultiplicity ub U tol) ub) :
    CutOk p d (splitRefined p U P ub tol).1 (splitRefined p U P ub tol).2 ub
      (findSpanLinear p (fnOf U) P.length ub + (p - findMultiplicity ub U tol)) := by
  obtain ⟨hW, hN, hwf', _⟩ := splitRefined_spec p d U P ub tol hwf hlo hhi hmx
  obtain ⟨k1, k2, k3, k4⟩ := findSpanLinear_spec p (fnOf U) P.length ub hwf.pn hwf.mono (le_of_lt hlo)
  set k := findSpanLinear p (fnOf U) P.length ub with hk
  set s := findMultiplicity ub U tol with hs
  have hsp := hmx.le
  have hk2 : ub < fnOf U (k + 1) := by
    rcases k4 with h | h
    · exact h
    · rw [h]; exact hhi
  -- the first copy of `ub` lies behind the clamped start
  have hks : p + s ≤ k := by
    by_contra hc
    by_cases hs0 : s = 0
    · omega
    · have h1 : fnOf U (k - s + 1) = ub := hmx.eq _ (by omega) (by omega)
      have h2 : fnOf U (k - s + 1) ≤ fnOf U p := hwf.mono (by omega)
      linarith
  refine ⟨hwf', hp, by rw [hN]; omega, by omega, ?_, ?_, ?_, ?_, ?_⟩
  · intro x h1 h2
    rw [hW]; unfold Uh
    by_cases c : x ≤ k
    · rw [if_pos c]; exact hmx.eq x (by omega) c
    · rw [if_neg c, if_pos h2]
  · rw [hW]; unfold Uh
    rw [if_pos (by omega)]
    have : k + (p - s) - p = k - s := by omega
    rw [this]; exact hmx.lt
  · rw [hW]; unfold Uh
    rw [if_neg (by omega), if_neg (by omega)]
    have : k + (p - s) + 1 - (p - s) = k + 1 := by omega
    rw [this]; exact hk2
  · rw [hW]; unfold Uh
    rw [if_pos (by omega), if_pos (by omega)]; exact hc0
  · rw [hW, hN]; unfold Uh
    rw [if_neg (by omega), if_neg (by omega), if_neg (by omega), if_neg (by omega)]
    have e1 : P.length + (p - s) + p - (p - s) = P.length + p := by omega
    have e2 : P.length + (p - s) - (p - s) = P.length := by omega
    rw [e1, e2]; exact hc1

theorem fnOf_getD (U : List K) (i : ℕ) (hi : i < U.length) : U.getD i 0 = fnOf U i := by
  unfold fnOf
  simp only [List.getD_eq_getElem?_getD]
  rw [List.getElem?_eq_getElem hi]; rfl

/-- in a cut-ready curve the library's search finds the last copy of the split parameter -/
theorem CutOk.span {p d : ℕ} {Wl : List K} {Q : List (List K)} {ub : K} {m : ℕ} (h : CutOk p d Wl Q ub m) :
    findSpanLinear p (fnOf Wl) Q.length ub = m :=
  findSpanLinear_unique p (fnOf Wl) Q.length ub h.wf.pn h.wf.mono (le_of_lt h.lo) h.hi m
    (by rw [h.atm]) h.above

/-- **`splitDir` on a well-formed clamped curve at an interior parameter**: not rejected, and the two
    pieces are the normalised left / right cuts of the refined curve -/
theorem splitDir_curve_eq (rat : Bool) (p d : ℕ) (U : List K) (P : List (List K)) (ub tol : K)
    (hwf : CurveWF p d U P) (hp : 1 ≤ p) (hc0 : fnOf U 0 = fnOf U p)
    (hc1 : fnOf U (P.length + p) = fnOf U P.length) (hlo : fnOf U p < ub) (hhi : ub < fnOf U P.length)
    (hmx : MultExact p (fnOf U) (findSpanLinear p (fnOf U) P.length ub) (findMultiplicity ub U tol) ub) :
    splitDir (curveShape rat p U P) 0 ub tol =
      some (curveShape rat p
              (knotNormalize (leftKv (splitRefined p U P ub tol).1 ub
                (findSpanLinear p (fnOf U) P.length ub + (p - findMultiplicity ub U tol))))
              ((splitRefined p U P ub tol).2.take
                (findSpanLinear p (fnOf U) P.length ub + (p - findMultiplicity ub U tol) - p + 1)),
            curveShape rat p
              (knotNormalize (rightKv p (splitRefined p U P ub tol).1 ub
                (findSpanLinear p (fnOf U) P.length ub + (p - findMultiplicity ub U tol))))
              ((splitRefined p U P ub tol).2.drop
                (findSpanLinear p (fnOf U) P.length ub + (p - findMultiplicity ub U tol) - p))) := by
  have hcut := splitRefined_cut p d U P ub tol hwf hp hc0 hc1 hlo hhi hmx
  obtain ⟨k1, k2, _, _⟩ := findSpanLinear_spec p (fnOf U) P.length ub hwf.pn hwf.mono (le_of_lt hlo)
  have hlen := hwf.len
  have hnot : ¬ (ub = U.getD p 0 ∨ ub = U.getD P.length 0) := by
    rw [fnOf_getD U p (by omega), fnOf_getD U P.length (by omega)]
    intro h
    rcases h with h | h
    · rw [h] at hlo; exact lt_irrefl _ hlo
    · rw [h] at hhi; exact lt_irrefl _ hhi
  rw [splitDir_curveShape rat p U P ub tol hnot, hcut.span]
  have e1 : findSpanLinear p (fnOf U) P.length ub - p + 1 + (p - findMultiplicity ub U tol)
      = findSpanLinear p (fnOf U) P.length ub + (p - findMultiplicity ub U tol) - p + 1 := by omega
  have e2 : findSpanLinear p (fnOf U) P.length ub + (p - findMultiplicity ub U tol) - p + 1 - 1
      = findSpanLinear p (fnOf U) P.length ub + (p - findMultiplicity ub U tol) - p := by omega
  rw [e1, e2]
  rfl

end Geomdl
