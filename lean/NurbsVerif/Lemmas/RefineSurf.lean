import NurbsVerif.Lemmas.RefineKv
import NurbsVerif.Lemmas.InsertSurf

/-! Lifting a curve-level net transformation that preserves every iso-curve to surfaces: general
    gather/scatter facts for `mapSurfV` / `mapSurfU`, and refinement of a surface in one direction. -/
namespace Geomdl
open Blossom Finset
variable {K : Type} [Field K] [LinearOrder K] [IsStrictOrderedRing K]

/-- rows of a `mapSurfV` result for any row transformation with uniform output length -/
theorem mapSurfV_gen (su sv d L : ℕ) (P : List (List K)) (f : List (List K) → List (List K)) (hsu : 0 < su)
    (hf : ∀ x, x < su → (f (rowOf sv P x)).length = L ∧ NetOk d (f (rowOf sv P x))) :
    (mapSurfV su sv P f).2 = L ∧ (mapSurfV su sv P f).1.length = su * L ∧ NetOk d (mapSurfV su sv P f).1 ∧
      ∀ x, x < su → rowOf L (mapSurfV su sv P f).1 x = f (rowOf sv P x) := by
  have hrows : ∀ r ∈ (List.range su).map (fun u => f (rowOf sv P u)), r.length = L := by
    intro r h
    simp only [List.mem_map, List.mem_range] at h
    obtain ⟨a, ha, rfl⟩ := h
    exact (hf a ha).1
  refine ⟨?_, ?_, ?_, ?_⟩
  · show (((List.range su).map (fun u => f (rowOf sv P u))).headD []).length = L
    cases su with
    | zero => omega
    | succ n =>
      rw [List.range_succ_eq_map]
      simp only [List.map_cons, List.headD_cons]
      exact (hf 0 (by omega)).1
  · show (List.flatten ((List.range su).map (fun u => f (rowOf sv P u)))).length = _
    rw [flatten_uniform_length L _ hrows]; simp; ring
  · intro pt hpt
    have hpt' : pt ∈ List.flatten ((List.range su).map (fun u => f (rowOf sv P u))) := hpt
    rw [List.mem_flatten] at hpt'
    obtain ⟨l, hl, hptl⟩ := hpt'
    simp only [List.mem_map, List.mem_range] at hl
    obtain ⟨a, ha, rfl⟩ := hl
    exact (hf a ha).2 pt hptl
  · intro x hx
    exact mapSurfV_rows su sv L P f (fun x hx => (hf x hx).1) x hx

/-- columns of a `mapSurfU` result for any column transformation with uniform output length -/
theorem mapSurfU_gen (su sv d L : ℕ) (P : List (List K)) (f : List (List K) → List (List K)) (hsv : 0 < sv)
    (hf : ∀ y, y < sv → (f (colOf su sv P y)).length = L ∧ NetOk d (f (colOf su sv P y))) :
    (mapSurfU su sv P f).2 = L ∧ (mapSurfU su sv P f).1.length = L * sv ∧ NetOk d (mapSurfU su sv P f).1 ∧
      ∀ y, y < sv → colOf L sv (mapSurfU su sv P f).1 y = f (colOf su sv P y) := by
  set res := mapSurfU su sv P f with hres
  have hsize : res.2 = L := by
    show (((List.range sv).map (fun v => f (colOf su sv P v))).headD []).length = L
    cases sv with
    | zero => omega
    | succ n =>
      rw [List.range_succ_eq_map]
      simp only [List.map_cons, List.headD_cons]
      exact (hf 0 (by omega)).1
  have hrows : ∀ rw_ ∈ (List.range L).map (fun u => (List.range sv).map (fun v =>
      ptsGet (((List.range sv).map (fun v => f (colOf su sv P v))).getD v []) u)), rw_.length = sv := by
    intro rw_ h
    simp only [List.mem_map, List.mem_range] at h
    obtain ⟨a, _, rfl⟩ := h
    simp
  have hnet : res.1 = List.flatten ((List.range L).map (fun u => (List.range sv).map (fun v =>
      ptsGet (((List.range sv).map (fun v => f (colOf su sv P v))).getD v []) u))) := by
    show (List.range res.2).flatMap _ = _
    rw [hsize, List.flatMap_def]
    rfl
  have hentry : ∀ y a, y < sv → a < L →
      ptsGet res.1 (y + sv * a) = ptsGet (f (colOf su sv P y)) a := by
    intro y a hy ha
    unfold ptsGet
    rw [hnet, flatten_uniform_getD [] sv _ hrows a y (by simp; exact ha) hy]
    simp [List.getD_eq_getElem?_getD, ha, hy, ptsGet]
  refine ⟨hsize, ?_, ?_, ?_⟩
  · rw [hnet, flatten_uniform_length sv _ hrows]; simp; ring
  · intro pt hpt
    rw [hnet, List.mem_flatten] at hpt
    obtain ⟨l, hl, hptl⟩ := hpt
    simp only [List.mem_map, List.mem_range] at hl
    obtain ⟨a, ha, rfl⟩ := hl
    simp only [List.mem_map, List.mem_range] at hptl
    obtain ⟨y, hy, rfl⟩ := hptl
    have : ((List.range sv).map (fun v => f (colOf su sv P v))).getD y [] = f (colOf su sv P y) := by
      simp [List.getD_eq_getElem?_getD, hy]
    rw [this]
    exact ptsGet_length (hf y hy).2 a (by rw [(hf y hy).1]; exact ha)
  · intro y hy
    apply List.ext_getElem
    · rw [(hf y hy).1]; simp [colOf]
    · intro i h1 h2
      have hi : i < L := by simpa [colOf] using h1
      simp only [colOf, List.getElem_map, List.getElem_range]
      rw [hentry y i hy hi]
      unfold ptsGet
      rw [List.getD_eq_getElem?_getD, List.getElem?_eq_getElem h2]
      rfl

/-- if every iso-curve `u = const` keeps its point at `v`, the surface keeps its point at `(u, v)` -/
theorem surf_lift_rows (pu pv : ℕ) (Uu Uv Uv' : ℕ → K) (su sv L : ℕ) (P Q : List (List K)) (ku κ κ' : ℕ) (u v : K)
    (d j : ℕ) (hpu : pu ≤ ku) (hku : ku < su) (hκ1 : pv ≤ κ) (hκ2 : κ < sv) (hκ'1 : pv ≤ κ') (hκ'2 : κ' < L)
    (hlenP : P.length = su * sv) (hP : NetOk d P) (hlenQ : Q.length = su * L) (hQ : NetOk d Q)
    (hrow : ∀ x, x < su → (curvePointAt pv Uv' (rowOf L Q x) κ' v).getD j 0 = (curvePointAt pv Uv (rowOf sv P x) κ v).getD j 0) :
    (surfacePointAt pu pv Uu Uv' L Q ku κ' u v).getD j 0 = (surfacePointAt pu pv Uu Uv sv P ku κ u v).getD j 0 := by
  rw [surfacePointAt_rows pu pv Uu Uv' su L Q ku κ' u v d j hpu hκ'1 hku hκ'2 hlenQ hQ]
  rw [surfacePointAt_rows pu pv Uu Uv su sv P ku κ u v d j hpu hκ1 hku hκ2 hlenP hP]
  apply Finset.sum_congr rfl
  intro a ha
  rw [Finset.mem_range] at ha
  rw [hrow (ku - pu + a) (by omega)]

/-- if every iso-curve `v = const` keeps its point at `u`, the surface keeps its point at `(u, v)` -/
theorem surf_lift_cols (pu pv : ℕ) (Uu Uu' Uv : ℕ → K) (su sv L : ℕ) (P Q : List (List K)) (kv κ κ' : ℕ) (u v : K)
    (d j : ℕ) (hpv : pv ≤ kv) (hkv : kv < sv) (hκ1 : pu ≤ κ) (hκ2 : κ < su) (hκ'1 : pu ≤ κ') (hκ'2 : κ' < L)
    (hlenP : P.length = su * sv) (hP : NetOk d P) (hlenQ : Q.length = L * sv) (hQ : NetOk d Q)
    (hcol : ∀ y, y < sv → (curvePointAt pu Uu' (colOf L sv Q y) κ' u).getD j 0 = (curvePointAt pu Uu (colOf su sv P y) κ u).getD j 0) :
    (surfacePointAt pu pv Uu' Uv sv Q κ' kv u v).getD j 0 = (surfacePointAt pu pv Uu Uv sv P κ kv u v).getD j 0 := by
  rw [surfacePointAt_cols pu pv Uu' Uv L sv Q κ' kv u v d j hκ'1 hpv hκ'2 hkv hlenQ hQ]
  rw [surfacePointAt_cols pu pv Uu Uv su sv P κ kv u v d j hκ1 hpv hκ2 hkv hlenP hP]
  apply Finset.sum_congr rfl
  intro b hb
  rw [Finset.mem_range] at hb
  rw [hcol (kv - pv + b) (by omega)]

/-! ### one parametric direction: knot vector with its size -/

/-- a well-formed knot vector for `n` control points of degree `p` -/
structure KvWF (p : ℕ) (U : List K) (n : ℕ) : Prop where
  mono : Monotone (fnOf U)
  len : U.length = n + p + 1
  pn : p + 1 ≤ n
  last : fnOf U (n - 1) < fnOf U n

theorem KvWF.curve {p : ℕ} {U : List K} {n : ℕ} (h : KvWF p U n) (d : ℕ) (c : List (List K))
    (hc : c.length = n) (hnet : NetOk d c) : CurveWF p d U c :=
  ⟨h.mono, by rw [hc]; exact h.len, by rw [hc]; exact h.pn, by rw [hc]; exact h.last, hnet⟩

/-- the new control polygon of one iso-curve -/
abbrev refNet (p : ℕ) (tol : K) (U X : List K) (c : List (List K)) : List (List K) :=
  (X.foldl (insertOne p tol) (U, c)).2

/-- the new knot vector (computed on a dummy polygon of the right length, as `refineDir` does) -/
abbrev refKv (p : ℕ) (tol : K) (U X : List K) (n : ℕ) : List K :=
  (X.foldl (insertOne p tol) (U, List.replicate n ([] : List K))).1

/-- everything the surface lifting needs about the refinement of ONE iso-curve -/
theorem refine_isocurve (p d : ℕ) (U : List K) (n density : ℕ) (tol : K) (hkv : KvWF p U n)
    (hend : ∀ i, n ≤ i → fnOf U i = fnOf U n) (h0 : 0 ≤ tol) (hsep : SepBy tol (U ++ refineKnots p U density))
    (c : List (List K)) (hc : c.length = n) (hnet : NetOk d c) :
    let X := refineX p U density tol
    (refNet p tol U X c).length = n + X.length ∧ NetOk d (refNet p tol U X c) ∧
    KvWF p (refKv p tol U X n) (n + X.length) ∧
    fnOf (refKv p tol U X n) p = fnOf U p ∧ fnOf (refKv p tol U X n) (n + X.length) = fnOf U n ∧
    ∀ (v : K), fnOf U p ≤ v → v ≤ fnOf U n → ∀ j,
      (curvePointAt p (fnOf (refKv p tol U X n)) (refNet p tol U X c)
          (findSpanLinear p (fnOf (refKv p tol U X n)) (n + X.length) v) v).getD j 0
        = (curvePointAt p (fnOf U) c (findSpanLinear p (fnOf U) n v) v).getD j 0 := by
  intro X
  have hwf : CurveWF p d U c := hkv.curve d c hc hnet
  have hend' : ∀ i, c.length ≤ i → fnOf U i = fnOf U c.length := by rw [hc]; exact hend
  have hok := refineX_ok p d U c density tol hwf hend' h0 hsep
  obtain ⟨hwf', hp', hn'⟩ := refine_fold_wf p d tol X (U, c) hwf hok
  have hkveq : (X.foldl (insertOne p tol) (U, c)).1 = refKv p tol U X n :=
    insert_fold_kv_indep p tol X U c (List.replicate n []) (by simp [hc])
  have hlenkv : (X.foldl (insertOne p tol) (U, c)).1.length = U.length + X.length := by
    rw [(insert_fold_perm p tol X (U, c)).length_eq]; simp; omega
  have hlen : (refNet p tol U X c).length = n + X.length := by
    have h1 := hwf'.len
    have h2 := hkv.len
    show (X.foldl (insertOne p tol) (U, c)).2.length = _
    omega
  rw [hkveq] at hwf' hp' hn'
  have hp'' : fnOf (refKv p tol U X n) p = fnOf U p := hp'
  have hn'' : fnOf (refKv p tol U X n) (n + X.length) = fnOf U n := by
    have : fnOf (refKv p tol U X n) (refNet p tol U X c).length = fnOf U c.length := hn'
    rw [hlen, hc] at this; exact this
  refine ⟨hlen, hwf'.net, ⟨hwf'.mono, ?_, ?_, ?_⟩, hp'', hn'', ?_⟩
  · have := hwf'.len
    rw [show (X.foldl (insertOne p tol) (U, c)).2.length = n + X.length from hlen] at this
    exact this
  · have := hkv.pn; omega
  · have := hwf'.last
    rw [show (X.foldl (insertOne p tol) (U, c)).2.length = n + X.length from hlen] at this
    exact this
  · intro v hlo hhi j
    have := refine_fold_preserves_curve p d tol X (U, c) hwf hok v hlo (by rw [show (U, c).2.length = n from hc]; exact hhi) j
    unfold curvePoint at this
    rw [hkveq, show (X.foldl (insertOne p tol) (U, c)).2.length = n + X.length from hlen,
      show (U, c).2.length = n from hc] at this
    exact this

end Geomdl
