import NurbsVerif.Model.Mesh
import Mathlib.Algebra.Order.Field.Basic
import Mathlib.Tactic.Ring
import Mathlib.Tactic.FieldSimp
import Mathlib.Tactic.Linarith

/-!
# Combinatorics of the tessellation grid (C15)

`meshGrid2` loops, vertex counts, the triangle list, `fix_numbering`, index ranges.
-/
namespace Geomdl.Mesh

/-! ### `meshGrid2` -/

theorem grid2_succ {α : Type} (n m : ℕ) (f : ℕ → ℕ → α) :
    meshGrid2 (n + 1) m f = meshGrid2 n m f ++ (List.range m).map (f n) := by
  simp [meshGrid2, List.range_succ, List.flatMap_append]

theorem grid2_length {α : Type} (n m : ℕ) (f : ℕ → ℕ → α) : (meshGrid2 n m f).length = n * m := by
  induction n with
  | zero => simp [meshGrid2]
  | succ n ih => rw [grid2_succ, List.length_append, ih]; simp; ring

theorem mem_grid2 {α : Type} {n m : ℕ} {f : ℕ → ℕ → α} {x : α} :
    x ∈ meshGrid2 n m f ↔ ∃ i, i < n ∧ ∃ j, j < m ∧ f i j = x := by
  simp [meshGrid2, List.mem_flatMap, List.mem_map, List.mem_range]

theorem grid2_getElem? {α : Type} (n m : ℕ) (f : ℕ → ℕ → α) (i j : ℕ) (hi : i < n) (hj : j < m) :
    (meshGrid2 n m f)[j + i * m]? = some (f i j) := by
  induction n with
  | zero => omega
  | succ n ih =>
    rw [grid2_succ]
    by_cases h : i < n
    · have hlt : j + i * m < (meshGrid2 n m f).length := by
        rw [grid2_length]
        calc j + i * m < m + i * m := by omega
          _ = (i + 1) * m := by ring
          _ ≤ n * m := Nat.mul_le_mul_right m h
      rw [List.getElem?_append_left hlt]; exact ih h
    · have hin : i = n := by omega
      subst hin
      have hge : (meshGrid2 i m f).length ≤ j + i * m := by rw [grid2_length]; omega
      rw [List.getElem?_append_right hge, grid2_length]
      simp [hj]

/-- all inner lists of equal length `c` -/
theorem length_flatten_const {α : Type} (l : List (List α)) (c : ℕ) (h : ∀ x ∈ l, x.length = c) :
    l.flatten.length = l.length * c := by
  induction l with
  | nil => simp
  | cons a l ih =>
    simp only [List.flatten_cons, List.length_append, List.length_cons]
    rw [ih (fun x hx => h x (List.mem_cons_of_mem _ hx)), h a List.mem_cons_self]; ring

/-! ### vertex counts -/

/-- when the spacing divides `size - 1` the grid has `(size-1)/s + 1` lines -/
theorem gridCount_of_dvd (k s : ℕ) (hs : 0 < s) : gridCount (k * s + 1) s = k + 1 := by
  unfold gridCount
  have : k * s + 1 + s - 1 = (k + 1) * s := by
    have : k * s + 1 + s - 1 = k * s + s := by omega
    rw [this]; ring
  rw [this, Nat.mul_div_cancel _ hs]

theorem gridCount_one (size : ℕ) : gridCount size 1 = size := by
  unfold gridCount; simp

/-- the pinned size expression undercounts for every spacing `≥ 3` that divides `size - 1` -/
theorem gridCountPinned_of_dvd (k s : ℕ) (hs : 3 ≤ s) : gridCountPinned (k * s + 1) s = k := by
  unfold gridCountPinned
  have h : 2 * (k * s + 1) + s = (s + 2) + k * (2 * s) := by ring
  rw [h, Nat.add_mul_div_right _ _ (by omega : 0 < 2 * s)]
  have : (s + 2) / (2 * s) = 0 := Nat.div_eq_of_lt (by omega)
  omega

/-- spacing 1 and 2: the pinned expression is right (for sizes `≥ 1`) -/
theorem gridCountPinned_one (size : ℕ) : gridCountPinned size 1 = size := by
  unfold gridCountPinned; omega

theorem gridCountPinned_two (size : ℕ) : gridCountPinned size 2 = gridCount size 2 := by
  unfold gridCountPinned gridCount; omega

/-! ### triangles -/

theorem polygonTriangulate_quad (a b c d : ℕ) :
    polygonTriangulate [a, b, c, d] = [[a, b, c], [a, c, d]] := rfl

theorem cellTris_length (nv i j : ℕ) : (polygonTriangulate (quadCell nv i j)).length = 2 := rfl

theorem meshTriangles_length (nu nv : ℕ) : (meshTriangles nu nv).length = 2 * ((nu - 1) * (nv - 1)) := by
  unfold meshTriangles
  rw [length_flatten_const _ 2, grid2_length]
  · ring
  · intro x hx
    obtain ⟨i, _, j, _, rfl⟩ := mem_grid2.1 hx
    rfl

/-- the faces are exactly the two triangles `(v1,v2,v3)`, `(v1,v3,v4)` of every grid cell -/
theorem mem_meshTriangles {nu nv : ℕ} {t : List ℕ} :
    t ∈ meshTriangles nu nv ↔ ∃ i, i < nu - 1 ∧ ∃ j, j < nv - 1 ∧
      (t = [gridVid nv i j, gridVid nv (i + 1) j, gridVid nv (i + 1) (j + 1)] ∨
       t = [gridVid nv i j, gridVid nv (i + 1) (j + 1), gridVid nv i (j + 1)]) := by
  unfold meshTriangles
  simp only [List.mem_flatten, mem_grid2]
  constructor
  · rintro ⟨l, ⟨i, hi, j, hj, rfl⟩, ht⟩
    refine ⟨i, hi, j, hj, ?_⟩
    simp only [quadCell, polygonTriangulate_quad, List.mem_cons, List.not_mem_nil, or_false] at ht
    simpa [gridVid, Nat.add_comm, Nat.add_left_comm, Nat.add_assoc] using ht
  · rintro ⟨i, hi, j, hj, h⟩
    refine ⟨_, ⟨i, hi, j, hj, rfl⟩, ?_⟩
    simp only [quadCell, polygonTriangulate_quad, List.mem_cons, List.not_mem_nil, or_false]
    simpa [gridVid, Nat.add_comm, Nat.add_left_comm, Nat.add_assoc] using h

theorem gridVid_lt {nu nv i j : ℕ} (hi : i < nu) (hj : j < nv) : gridVid nv i j < nu * nv := by
  unfold gridVid
  calc j + i * nv < nv + i * nv := by omega
    _ = (i + 1) * nv := by ring
    _ ≤ nu * nv := Nat.mul_le_mul_right nv hi

/-- every face index is a vertex id -/
theorem meshTriangles_index_lt {nu nv : ℕ} {t : List ℕ} (ht : t ∈ meshTriangles nu nv) :
    ∀ v ∈ t, v < nu * nv := by
  obtain ⟨i, hi, j, hj, h⟩ := mem_meshTriangles.1 ht
  have h1 : gridVid nv i j < nu * nv := gridVid_lt (by omega) (by omega)
  have h2 : gridVid nv (i + 1) j < nu * nv := gridVid_lt (by omega) (by omega)
  have h3 : gridVid nv (i + 1) (j + 1) < nu * nv := gridVid_lt (by omega) (by omega)
  have h4 : gridVid nv i (j + 1) < nu * nv := gridVid_lt (by omega) (by omega)
  rcases h with rfl | rfl <;> intro v hv <;> simp at hv <;> rcases hv with rfl | rfl | rfl <;> assumption

theorem meshTriangles_length3 {nu nv : ℕ} {t : List ℕ} (ht : t ∈ meshTriangles nu nv) : t.length = 3 := by
  obtain ⟨i, _, j, _, h⟩ := mem_meshTriangles.1 ht
  rcases h with rfl | rfl <;> rfl

/-! ### `fix_numbering` -/

theorem mem_foldl_insertNew (t acc : List ℕ) (x : ℕ) :
    x ∈ t.foldl insertNewId acc ↔ x ∈ acc ∨ x ∈ t := by
  induction t generalizing acc with
  | nil => simp
  | cons a t ih =>
    rw [List.foldl_cons, ih]
    unfold insertNewId
    by_cases h : acc.contains a = true
    · rw [if_pos h]
      have : a ∈ acc := by simpa using h
      constructor
      · rintro (h1 | h1); exact Or.inl h1; exact Or.inr (List.mem_cons_of_mem _ h1)
      · rintro (h1 | h1)
        · exact Or.inl h1
        · rcases List.mem_cons.1 h1 with rfl | h2
          · exact Or.inl this
          · exact Or.inr h2
    · rw [if_neg h]
      simp only [List.mem_append, List.mem_singleton, List.mem_cons]
      tauto

theorem mem_usedIds_aux (tris : List (List ℕ)) (acc : List ℕ) (x : ℕ) :
    x ∈ tris.foldl (fun acc t => t.foldl insertNewId acc) acc ↔ x ∈ acc ∨ ∃ t ∈ tris, x ∈ t := by
  induction tris generalizing acc with
  | nil => simp
  | cons a l ih =>
    rw [List.foldl_cons, ih, mem_foldl_insertNew]
    simp only [List.mem_cons, exists_eq_or_imp]
    tauto

theorem mem_usedIds {tris : List (List ℕ)} {x : ℕ} : x ∈ usedIds tris ↔ ∃ t ∈ tris, x ∈ t := by
  unfold usedIds; rw [mem_usedIds_aux]; simp

/-- on a grid with at least two lines per direction every vertex is a corner of some triangle -/
theorem gridVid_used {nu nv : ℕ} (hu : 2 ≤ nu) (hv : 2 ≤ nv) {i j : ℕ} (hi : i < nu) (hj : j < nv) :
    gridVid nv i j ∈ usedIds (meshTriangles nu nv) := by
  rw [mem_usedIds]
  by_cases h1 : i + 1 < nu
  · by_cases h2 : j + 1 < nv
    · exact ⟨_, mem_meshTriangles.2 ⟨i, by omega, j, by omega, Or.inl rfl⟩, by simp⟩
    · -- j = nv - 1: it is v4 of cell (i, j-1)
      obtain ⟨j', rfl⟩ : ∃ j', j = j' + 1 := ⟨j - 1, by omega⟩
      exact ⟨_, mem_meshTriangles.2 ⟨i, by omega, j', by omega, Or.inr rfl⟩, by simp⟩
  · obtain ⟨i', rfl⟩ : ∃ i', i = i' + 1 := ⟨i - 1, by omega⟩
    by_cases h2 : j + 1 < nv
    · exact ⟨_, mem_meshTriangles.2 ⟨i', by omega, j, by omega, Or.inl rfl⟩, by simp⟩
    · obtain ⟨j', rfl⟩ : ∃ j', j = j' + 1 := ⟨j - 1, by omega⟩
      exact ⟨_, mem_meshTriangles.2 ⟨i', by omega, j', by omega, Or.inl rfl⟩, by simp⟩

theorem lt_used {nu nv : ℕ} (hu : 2 ≤ nu) (hv : 2 ≤ nv) {k : ℕ} (hk : k < nu * nv) :
    k ∈ usedIds (meshTriangles nu nv) := by
  have hnv : 0 < nv := by omega
  have h := gridVid_used hu hv (i := k / nv) (j := k % nv)
    ((Nat.div_lt_iff_lt_mul hnv).2 hk) (Nat.mod_lt _ hnv)
  have e : gridVid nv (k / nv) (k % nv) = k := by
    unfold gridVid; rw [Nat.mul_comm]; exact Nat.mod_add_div k nv
  rwa [e] at h

theorem idxOf_range {n k : ℕ} (hk : k < n) : (List.range n).idxOf k = k := by
  induction n with
  | zero => omega
  | succ n ih =>
    rw [List.range_succ]
    by_cases h : k < n
    · rw [List.idxOf_append_of_mem (by simpa using h)]; exact ih h
    · have : k = n := by omega
      subst this
      rw [List.idxOf_append_of_notMem (by simp)]
      simp

/-- `fix_numbering` is the identity on the untrimmed grid mesh: no vertex is dropped, no index changes -/
theorem fixNumbering_grid {nu nv : ℕ} (hu : 2 ≤ nu) (hv : 2 ≤ nv) :
    fixNumbering (nu * nv) (meshTriangles nu nv) = (List.range (nu * nv), meshTriangles nu nv) := by
  unfold fixNumbering
  have hk : (List.range (nu * nv)).filter (fun v => (usedIds (meshTriangles nu nv)).contains v)
      = List.range (nu * nv) := by
    rw [List.filter_eq_self]
    intro a ha
    have := lt_used hu hv (List.mem_range.1 ha)
    simpa using this
  simp only [hk]
  congr 1
  have : ∀ t ∈ meshTriangles nu nv, t.map (fun v => (List.range (nu * nv)).idxOf v) = t := by
    intro t ht
    conv_rhs => rw [← List.map_id t]
    apply List.map_congr_left
    intro v hv'
    exact idxOf_range (meshTriangles_index_lt ht v hv')
  conv_rhs => rw [← List.map_id (meshTriangles nu nv)]
  exact List.map_congr_left this

theorem filterMap_getElem?_take {α : Type} (l : List α) (n : ℕ) :
    (List.range n).filterMap (fun k => l[k]?) = l.take n := by
  induction n with
  | zero => simp
  | succ n ih =>
    rw [List.range_succ, List.filterMap_append, ih, List.take_add_one]
    cases h : l[n]? <;> simp [h]

theorem filterMap_getElem?_range {α : Type} (l : List α) :
    (List.range l.length).filterMap (fun k => l[k]?) = l := by
  rw [filterMap_getElem?_take, List.take_length]

end Geomdl.Mesh
