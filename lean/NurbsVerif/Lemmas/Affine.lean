import NurbsVerif.Lemmas.EvalSpec
import Mathlib.Algebra.BigOperators.Ring.Finset

/-! Affine invariance of the evaluation model. -/
namespace Geomdl
open Blossom Finset
variable {K : Type} [Field K] [LinearOrder K] [IsStrictOrderedRing K]

/-- If every control point `Q r` is the image of `P r` under one affine map (coordinate `j` of the
    image is `Σ_l A l * x_l + b`), then coordinate `j` of `Σ N_r Q_r` is the same affine function of
    the coordinates of `Σ N_r P_r`, provided the coefficients sum to one. -/
theorem affine_comb_coord (n m : ℕ) (N : ℕ → K) (hN : ∑ r ∈ range n, N r = 1)
    (P : ℕ → ℕ → K) (Qj : ℕ → K) (A : ℕ → K) (b : K)
    (hQ : ∀ r, r < n → Qj r = ∑ l ∈ range m, A l * P r l + b) :
    ∑ r ∈ range n, N r * Qj r = ∑ l ∈ range m, A l * (∑ r ∈ range n, N r * P r l) + b := by
  have h1 : ∑ r ∈ range n, N r * Qj r = ∑ r ∈ range n, (∑ l ∈ range m, A l * (N r * P r l) + N r * b) := by
    apply Finset.sum_congr rfl
    intro r hr
    rw [hQ r (Finset.mem_range.mp hr), mul_add, Finset.mul_sum]
    congr 1
    apply Finset.sum_congr rfl
    intro l _
    ring
  rw [h1, Finset.sum_add_distrib, Finset.sum_comm, ← Finset.sum_mul, hN, one_mul]
  congr 1
  apply Finset.sum_congr rfl
  intro l _
  rw [Finset.mul_sum]

/-- the linear (homogeneous-coordinate) version needs no condition on the coefficients -/
theorem linear_comb_coord (n m : ℕ) (N : ℕ → K)
    (P : ℕ → ℕ → K) (Qj : ℕ → K) (A : ℕ → K)
    (hQ : ∀ r, r < n → Qj r = ∑ l ∈ range m, A l * P r l) :
    ∑ r ∈ range n, N r * Qj r = ∑ l ∈ range m, A l * (∑ r ∈ range n, N r * P r l) := by
  have h1 : ∑ r ∈ range n, N r * Qj r = ∑ r ∈ range n, ∑ l ∈ range m, A l * (N r * P r l) := by
    apply Finset.sum_congr rfl
    intro r hr
    rw [hQ r (Finset.mem_range.mp hr), Finset.mul_sum]
    apply Finset.sum_congr rfl
    intro l _
    ring
  rw [h1, Finset.sum_comm]
  apply Finset.sum_congr rfl
  intro l _
  rw [Finset.mul_sum]

/-- coordinates of the A3.1 model as a Finset sum over the `p+1` active control points -/
theorem curvePointAt_sum (p : ℕ) (U : ℕ → K) (P : List (List K)) (k : ℕ) (u : K) (d j : ℕ)
    (hp : p ≤ k) (hk : k < P.length) (hP : NetOk d P) :
    (curvePointAt p U P k u).getD j 0
      = ∑ r ∈ range (p+1), (basisFuns p U k u).getD r 0 * (ptsGet P (k - p + r)).getD j 0 := by
  unfold curvePointAt
  rw [dimOf_eq hP (by omega)]
  rw [linComb_range d j p _ (Blossom.basisFuns_length p U k u) (fun i => ptsGet P (k - p + i))
        (fun r hr => ptsGet_length hP _ (by omega))]

/-- **Affine invariance of curve evaluation** (non-rational): if the net `Q` is the image of the net
    `P` under an affine map of the coordinates, every evaluated point of `Q` is the image of the
    evaluated point of `P` under the same map (translation, scaling, rotation about any centre,
    any `c`, `s`). -/
theorem curvePointAt_affine (p : ℕ) (U : ℕ → K) (P Q : List (List K)) (k : ℕ) (u : K) (d : ℕ)
    (h : SpanOk U k u) (hp : p ≤ k) (hk : k < P.length) (hlen : Q.length = P.length)
    (hP : NetOk d P) (hQ : NetOk d Q) (j : ℕ) (A : ℕ → K) (b : K)
    (hmap : ∀ i, i < P.length → (ptsGet Q i).getD j 0 = ∑ l ∈ range d, A l * (ptsGet P i).getD l 0 + b) :
    (curvePointAt p U Q k u).getD j 0 = ∑ l ∈ range d, A l * (curvePointAt p U P k u).getD l 0 + b := by
  rw [curvePointAt_sum p U Q k u d j hp (by omega) hQ]
  have hs : ∑ r ∈ range (p+1), (basisFuns p U k u).getD r 0 = 1 := by
    have := basisFuns_sum p h
    rw [list_sum_eq_range, Blossom.basisFuns_length] at this
    exact this
  rw [affine_comb_coord (p+1) d (fun r => (basisFuns p U k u).getD r 0) hs
        (fun r l => (ptsGet P (k - p + r)).getD l 0) (fun r => (ptsGet Q (k - p + r)).getD j 0) A b
        (fun r hr => hmap _ (by omega))]
  congr 1
  apply Finset.sum_congr rfl
  intro l _
  rw [curvePointAt_sum p U P k u d l hp hk hP]

end Geomdl
