import NurbsVerif.Lemmas.BasisOne
import NurbsVerif.Lemmas.Hull
import NurbsVerif.Lemmas.Span

/-!
# A2.4 against the Cox–de Boor functions on the domain and against A2.2

The two boundary special cases of `helpers.basis_function_one`:
* first function at `u = U 0`: agrees with Cox–de Boor when `u` is in the domain (`U p ≤ u`, i.e. the start
  is clamped) and the first function is not degenerate (`U 0 < U (p+1)`);
* last function at the last knot: the half-open Cox–de Boor function is `0` there, the routine returns
  `1`, which is the value of the last non-vanishing function A2.2 computes on the last span of a vector
  clamped at the end.
-/
namespace Blossom
open Geomdl
variable {K : Type} [Field K] [LinearOrder K] [IsStrictOrderedRing K]

theorem getD_one_cons_replicate (p : ℕ) : ((1:K) :: List.replicate p 0).getD 0 0 = 1 := by simp

theorem getD_replicate_append_one (p r : ℕ) (hr : r ≤ p) :
    (List.replicate p (0:K) ++ [1]).getD r 0 = if r = p then 1 else 0 := by
  by_cases h : r = p
  · subst h
    rw [if_pos rfl, List.getD_eq_getElem?_getD, List.getElem?_append_right (by simp)]
    simp
  · rw [if_neg h, List.getD_eq_getElem?_getD, List.getElem?_append_left (by simp; omega)]
    have : r < p := by omega
    simp [this]

/-- first Cox–de Boor function at the start of a knot vector clamped at the start -/
theorem cdb_first_at_start (U : ℕ → K) (hm : Monotone U) (p : ℕ) (h0 : U 0 = U p) (h1 : U p < U (p+1)) :
    cdb U p 0 (U 0) = 1 := by
  have hU : ∀ i, i ≤ p → U i = U 0 := fun i hi =>
    le_antisymm (by rw [h0]; exact hm hi) (hm (Nat.zero_le _))
  rw [cdb_eq_basisFuns U p (U 0) hm (le_of_eq h0.symm) (by rw [h0]; exact h1) p (le_refl _) 0,
    if_pos (by omega)]
  rw [basisFuns_at_clamped_start U p (U 0) hm h1 p (le_refl _) (fun i _ hi => hU i hi)]
  simp

/-- **A2.4 = Cox–de Boor on the domain**, except for the last function at the last knot -/
theorem basisFunOne_eq_cdb (p : ℕ) (U : ℕ → K) (hm : Monotone U) (m i : ℕ) (u : K)
    (hlo : U p ≤ u) (hdeg : U 0 < U (p+1)) (hlast : i + p + 2 = m → u ≠ U (m - 1)) :
    basisFunOne p U m i u = cdb U p i u := by
  rw [basisFunOne_eq p U hm]
  by_cases hs : i = 0 ∧ u = U 0
  · rw [if_pos (Or.inl hs)]
    obtain ⟨hi, hu⟩ := hs
    subst hi
    have h0 : U 0 = U p := le_antisymm (hm (Nat.zero_le _)) (by rw [← hu]; exact hlo)
    rw [hu, cdb_first_at_start U hm p h0 (by rw [← h0]; exact hdeg)]
  · rw [if_neg]
    rintro (h | ⟨h1, h2⟩)
    · exact hs h
    · exact hlast h1 h2

/-- the last function at the last knot: A2.4 returns 1 where the half-open Cox–de Boor function is 0 -/
theorem basisFunOne_last (p : ℕ) (U : ℕ → K) (hm : Monotone U) (m i : ℕ) (hi : i + p + 2 = m) :
    basisFunOne p U m i (U (m - 1)) = 1 ∧ cdb U p i (U (m - 1)) = 0 := by
  constructor
  · rw [basisFunOne_eq p U hm, if_pos (Or.inr ⟨hi, rfl⟩)]
  · apply cdb_eq_zero_of_outside U hm
    right
    have : i + p + 1 = m - 1 := by omega
    rw [this]

/-- **A2.4 = entry of A2.2** on a half-open span: the function with index `i = k - p + r` -/
theorem basisFunOne_eq_basisFuns (p : ℕ) (U : ℕ → K) (hm : Monotone U) (m k : ℕ) (u : K)
    (hp : p ≤ k) (h1 : U k ≤ u) (h2 : u < U (k+1)) (i r : ℕ) (hir : i + p = k + r) (hr : r ≤ p) :
    basisFunOne p U m i u = (basisFuns p U k u).getD r 0 := by
  rw [basisFunOne_eq p U hm]
  by_cases hs : i = 0 ∧ u = U 0
  · rw [if_pos (Or.inl hs)]
    obtain ⟨hi, hu⟩ := hs
    have hk : k = p := by omega
    have hr0 : r = 0 := by omega
    subst hk; subst hr0
    have hU : ∀ j, j ≤ k → U j = u := fun j hj =>
      le_antisymm (le_trans (hm hj) h1) (by rw [hu]; exact hm (Nat.zero_le _))
    rw [basisFuns_at_clamped_start U k u hm (lt_of_le_of_lt h1 h2) k (le_refl _) (fun j _ hj => hU j hj)]
    simp
  · rw [if_neg]
    · rw [cdb_eq_basisFuns U k u hm h1 h2 p hp i, if_pos (by omega)]
      congr 1; omega
    · rintro (h | ⟨h3, h4⟩)
      · exact hs h
      · have : U (k+1) ≤ U (m-1) := hm (by omega)
        rw [← h4] at this
        exact absurd h2 (not_lt.mpr this)

/-- outside the window `k-p..k` A2.4 returns 0 on the half-open span `k` (first function not degenerate) -/
theorem basisFunOne_eq_zero (p : ℕ) (U : ℕ → K) (hm : Monotone U) (m k : ℕ) (u : K)
    (hp : p ≤ k) (hkm : k + 1 < m) (h1 : U k ≤ u) (h2 : u < U (k+1)) (hdeg : U 0 < U (p+1)) (i : ℕ)
    (hi : i + p < k ∨ k < i) :
    basisFunOne p U m i u = 0 := by
  rw [basisFunOne_eq p U hm, if_neg, cdb_eq_basisFuns U k u hm h1 h2 p hp i, if_neg (by omega)]
  rintro (⟨h3, h4⟩ | ⟨h3, h4⟩)
  · -- i = 0, u = U 0: then k > p and U 0 = … = U k = u ≥ U (p+1)
    have hk : p + 1 ≤ k := by omega
    have : U (p+1) ≤ U k := hm hk
    rw [h4] at h1
    exact absurd hdeg (not_lt.mpr (le_trans this h1))
  · have : U (k+1) ≤ U (m-1) := hm (by omega)
    rw [← h4] at this
    exact absurd h2 (not_lt.mpr this)

/-- **A2.4 = entry of A2.2 at the closed end** of a knot vector clamped at the end (`k` = last span,
    `u` = last knot): the boundary special case is what makes the single-function routine agree with A2.2 there -/
theorem basisFunOne_eq_basisFuns_end (p : ℕ) (U : ℕ → K) (hm : Monotone U) (m k : ℕ)
    (hp : p ≤ k) (hm2 : k + p + 2 = m) (hne : U k < U (k+1)) (hcl : U (k+1) = U (m-1))
    (i r : ℕ) (hir : i + p = k + r) (hr : r ≤ p) :
    basisFunOne p U m i (U (m-1)) = (basisFuns p U k (U (m-1))).getD r 0 := by
  have hU : ∀ j, k + 1 ≤ j → j ≤ k + p → U j = U (m-1) := fun j h1 h2 =>
    le_antisymm (hm (by omega)) (by rw [← hcl]; exact hm h1)
  rw [basisFuns_at_clamped_end U k (U (m-1)) hm hne p hp hU hcl.symm, getD_replicate_append_one p r hr]
  by_cases hrp : r = p
  · rw [if_pos hrp]
    exact (basisFunOne_last p U hm m i (by omega)).1
  · rw [if_neg hrp, basisFunOne_eq p U hm, if_neg]
    · apply cdb_eq_zero_of_outside U hm
      right
      exact hm (by omega)
    · rintro (⟨h3, h4⟩ | ⟨h3, _⟩)
      · have : U 0 ≤ U k := hm (Nat.zero_le _)
        rw [← h4, ← hcl] at this
        exact absurd hne (not_lt.mpr this)
      · omega

/-- **A2.4 = entry of A2.2 on the whole closed domain** of a knot vector clamped at the end with end
    multiplicity `p+1` (`n` control points, `n+p+1` knots), the span being the one `find_span_linear` returns -/
theorem basisFunOne_eq_basisFuns_domain (p : ℕ) (U : ℕ → K) (n : ℕ) (u : K) (hpn : p + 1 ≤ n) (hm : Monotone U)
    (hlo : U p ≤ u) (hhi : u ≤ U n) (hend : U n = U (n + p)) (hne : U (n - 1) < U n) (r : ℕ) (hr : r ≤ p) :
    basisFunOne p U (n + p + 1) (findSpanLinear p U n u - p + r) u
      = (basisFuns p U (findSpanLinear p U n u) u).getD r 0 := by
  obtain ⟨h1, h2, h3, h4⟩ := Geomdl.findSpanLinear_spec p U n u hpn hm hlo
  generalize findSpanLinear p U n u = k at *
  by_cases hlt : u < U (k+1)
  · exact basisFunOne_eq_basisFuns p U hm _ k u h1 h3 hlt _ r (by omega) hr
  · have hk : k + 1 = n := by
      rcases h4 with h | h
      · exact absurd h hlt
      · exact h
    have hu : u = U n := le_antisymm hhi (by rw [← hk]; exact not_lt.mp hlt)
    have e1 : n + p + 1 - 1 = n + p := by omega
    have e2 : n - 1 = k := by omega
    have := basisFunOne_eq_basisFuns_end p U hm (n + p + 1) k h1 (by omega)
      (by rw [hk, ← e2]; exact hne) (by rw [hk, e1]; exact hend) (k - p + r) r (by omega) hr
    rw [e1, ← hend, ← hu] at this
    exact this

/-- (for non-vacuity examples) the knot function of 0,0,0,0,1,1,1,1,… is non-decreasing -/
theorem cubicBezierKnots_mono : Monotone (fun i : ℕ => if i ≤ 3 then (0:ℚ) else 1) := by
  intro a b hab
  by_cases ha : a ≤ 3 <;> by_cases hb : b ≤ 3 <;> simp [ha, hb] <;> omega

end Blossom
