import NurbsVerif.Lemmas.SplitSurfVDecompMain
import NurbsVerif.Lemmas.SplitSurfSep

/-! `decompose_surface(…, decompose_dir='uv')`: decomposition in u, then every strip in v. -/
set_option linter.unusedSectionVars false
namespace Geomdl
open Blossom Finset
variable {K : Type} [Field K] [LinearOrder K] [IsStrictOrderedRing K]

theorem knotNormalize_bez (p : ℕ) : knotNormalize (bezKv p : List K) = bezKv p := by
  have hh : (bezKv p : List K).headD 0 = 0 := by simp [bezKv, List.replicate_succ]
  have hl : (bezKv p : List K).getLastD 0 = 1 := by
    unfold bezKv
    rw [List.replicate_succ' (n := p) (a := (1 : K)), ← List.append_assoc]
    simp
  unfold knotNormalize
  simp only [hh, hl, sub_zero, div_one, List.map_id']

theorem fnOf_bez_lo (p i : ℕ) (hi : i ≤ p) : fnOf (bezKv p : List K) i = 0 := by
  unfold fnOf bezKv
  simp only [List.getD_eq_getElem?_getD]
  rw [List.getElem?_append_left (by simp; omega)]
  simp [show i < p + 1 by omega]

theorem fnOf_bez_hi (p : ℕ) : fnOf (bezKv p : List K) (p + 1) = 1 := by
  unfold fnOf bezKv
  simp only [List.getD_eq_getElem?_getD]
  rw [List.getElem?_append_right (by simp)]
  simp

/-- a clamped knot vector that is its own normalisation starts at 0 and ends at 1 -/
theorem normalized_ends {p d : ℕ} {U : List K} {P : List (List K)} (h : ClampedWF p d U P)
    (hn : knotNormalize U = U) : fnOf U p = 0 ∧ fnOf U P.length = 1 := by
  have hlen := h.wf.len
  have hne : U ≠ [] := by intro e; rw [e] at hlen; simp at hlen
  have hhead : U.headD 0 = fnOf U 0 := by
    cases U with
    | nil => exact absurd rfl hne
    | cons a as => simp [fnOf]
  have hlast : U.getLastD 0 = fnOf U (P.length + p) := by
    unfold fnOf
    rw [List.getLastD_eq_getLast?, List.getLast?_eq_getElem?, List.getD_eq_getElem?_getD]
    have e : U.length - 1 = P.length + p := by omega
    rw [e, List.getElem?_eq_getElem (by omega)]
    simp
  have hrange : U.headD 0 < U.getLastD 0 := by
    rw [hhead, hlast, h.c0, h.c1]
    exact lt_of_le_of_lt (h.wf.mono (by have := h.wf.pn; omega)) h.wf.last
  obtain ⟨_, h0, h1, _⟩ := knotNormalize_spec U hne hrange
  rw [hn] at h0 h1
  rw [hhead, h.c0] at h0
  rw [hlast, h.c1] at h1
  exact ⟨h0, h1⟩

/-- admissibility does not depend on the control points, only on their number and dimension -/
theorem DecompWF.swap {p d : ℕ} {U : List K} {P P' : List (List K)} {tol : K} (h : DecompWF p d U P tol)
    (hl : P'.length = P.length) (hnet : NetOk d P') : DecompWF p d U P' tol := by
  refine ⟨⟨⟨h.cl.wf.mono, ?_, ?_, ?_, hnet⟩, h.cl.hp, h.cl.c0, ?_⟩, ?_, ?_, h.tol0, h.sep⟩
  all_goals rw [hl]
  · exact h.cl.wf.len
  · exact h.cl.wf.pn
  · exact h.cl.wf.last
  · exact h.cl.c1
  · exact h.mul
  · exact h.unit

end Geomdl
