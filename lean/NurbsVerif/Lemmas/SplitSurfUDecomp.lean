import NurbsVerif.Lemmas.SplitSurfUCols
import NurbsVerif.Lemmas.SplitDecompMain

/-! `decompose_surface(…, decompose_dir='u')` (model `decomposeDir 0` on a surface) commutes with taking
    columns: the columns of the pieces are the pieces of the columns. -/
set_option linter.unusedSectionVars false
namespace Geomdl
open Blossom
variable {K : Type} [Field K] [LinearOrder K] [IsStrictOrderedRing K]

theorem curveShape_inj {rat : Bool} {p : ℕ} {U U' : List K} {P P' : List (List K)}
    (h : curveShape rat p U P = curveShape rat p U' P') : U = U' ∧ P = P' := by
  simp only [curveShape, Shape.mk.injEq, List.cons.injEq, and_true, true_and] at h
  exact ⟨h.1, h.2.2⟩

theorem decomposeDir_surf_bezier (rat : Bool) (pu pv : ℕ) (Uu Uv : List K) (su sv : ℕ) (P : List (List K))
    (tol : K) (fuel : ℕ) (hlen : Uu.length = su + pu + 1) (hn : su = pu + 1) :
    decomposeDir 0 tol fuel (surfShape rat pu pv Uu Uv su sv P) = [surfShape rat pu pv Uu Uv su sv P] := by
  cases fuel with
  | zero => rfl
  | succ fuel =>
    have : ((Uu.drop (pu + 1)).take (Uu.length - 2 * (pu + 1))) = [] := by
      have : Uu.length - 2 * (pu + 1) = 0 := by omega
      rw [this]; rfl
    simp only [decomposeDir, surfShape, Shape.deg, Shape.kv, List.getD_cons_zero, this]

theorem decomposeDir_surf_step (rat : Bool) (pu pv : ℕ) (Uu Uv : List K) (su sv : ℕ) (P : List (List K))
    (tol : K) (fuel : ℕ) (hlen : Uu.length = su + pu + 1) (hn : pu + 1 < su) (A B : Shape K)
    (hs : splitDir (surfShape rat pu pv Uu Uv su sv P) 0 (fnOf Uu (pu + 1)) tol = some (A, B)) :
    decomposeDir 0 tol (fuel + 1) (surfShape rat pu pv Uu Uv su sv P) = A :: decomposeDir 0 tol fuel B := by
  have : ∃ rest, ((Uu.drop (pu + 1)).take (Uu.length - 2 * (pu + 1))) = fnOf Uu (pu + 1) :: rest := by
    have e1 : Uu.drop (pu + 1) = Uu[pu + 1]'(by omega) :: Uu.drop (pu + 2) := List.drop_eq_getElem_cons (by omega)
    have e2 : Uu.length - 2 * (pu + 1) = (Uu.length - 2 * (pu + 1) - 1) + 1 := by omega
    rw [e1, e2, List.take_succ_cons, fnOf_getElem Uu (pu + 1) (by omega)]
    exact ⟨_, rfl⟩
  obtain ⟨rest, hrest⟩ := this
  have hs' : splitDir { rat := rat, degs := [pu, pv], kvs := [Uu, Uv], sizes := [su, sv], net := P } 0
      (fnOf Uu (pu + 1)) tol = some (A, B) := hs
  simp only [decomposeDir, surfShape, Shape.deg, Shape.kv, List.getD_cons_zero, hrest, hs']

/-- **columns of the pieces are the pieces of the columns** (v knot vector normalised, so that the
    pieces keep it) -/
theorem decompose_surface_u_cols (rat : Bool) (pu pv d : ℕ) (tol : K) (Uv : List K) (sv : ℕ)
    (hVn : knotNormalize Uv = Uv) (hsv0 : 0 < sv) : ∀ (fuel : ℕ) (Uu : List K) (su : ℕ) (P : List (List K)),
    NetOk d P → P.length = su * sv → DecompWF pu d Uu (colOf su sv P 0) tol →
    ∃ pieces : List (List K × ℕ × List (List K)),
      decomposeDir 0 tol fuel (surfShape rat pu pv Uu Uv su sv P)
        = pieces.map (fun q => surfShape rat pu pv q.1 Uv q.2.1 sv q.2.2) ∧
      (∀ q ∈ pieces, q.2.2.length = q.2.1 * sv ∧ NetOk d q.2.2) ∧
      ∀ y, y < sv → decomposeDir 0 tol fuel (curveShape rat pu Uu (colOf su sv P y))
        = pieces.map (fun q => curveShape rat pu q.1 (colOf q.2.1 sv q.2.2 y)) := by
  intro fuel
  induction fuel with
  | zero =>
    intro Uu su P hP hlenP _
    exact ⟨[(Uu, su, P)], rfl, by intro q hq; simp only [List.mem_singleton] at hq; rw [hq]; exact ⟨hlenP, hP⟩,
      fun y _ => rfl⟩
  | succ fuel ih =>
    intro Uu su P hP hlenP h0
    have hUlen : Uu.length = su + pu + 1 := by have := h0.cl.wf.len; rw [colOf_length] at this; exact this
    have hpn : pu + 1 ≤ su := by have := h0.cl.wf.pn; rw [colOf_length] at this; exact this
    by_cases hn : pu + 1 < su
    · have hU : ClampedKv pu su Uu := by have := h0.cl.toKv; rw [colOf_length] at this; exact this
      obtain ⟨hlo, hhi, hmx, _, _⟩ := decomp_facts pu d Uu (colOf su sv P 0) tol h0 (by rw [colOf_length]; exact hn)
      rw [colOf_length] at hhi hmx
      obtain ⟨UA, nA, PA, UB, nB, PB, hsplit, hlenA, hlenB, hnetA, hnetB, hcols⟩ :=
        split_surface_u_cols rat pu pv d Uu Uv su sv P (fnOf Uu (pu + 1)) tol hP hlenP hsv0 hU hlo hhi hmx
      rw [hVn] at hsplit
      -- the remainder's column 0 is admissible
      have hB0 : DecompWF pu d UB (colOf nB sv PB 0) tol := by
        have hrem := remainder_wf pu d Uu (colOf su sv P 0) tol h0 (by rw [colOf_length]; exact hn)
        have heq := splitDir_curve_eq rat pu d Uu (colOf su sv P 0) (fnOf Uu (pu + 1)) tol h0.cl.wf h0.cl.hp
          h0.cl.c0 h0.cl.c1 hlo (by rw [colOf_length]; exact hhi) (by rw [colOf_length]; exact hmx)
        rw [hcols 0 hsv0] at heq
        have hinj := curveShape_inj (Prod.mk.inj (Option.some.inj heq)).2
        rw [hinj.1, hinj.2]
        exact hrem
      obtain ⟨piecesB, hdecB, hokB, hcolsB⟩ := ih UB nB PB hnetB hlenB hB0
      refine ⟨(UA, nA, PA) :: piecesB, ?_, ?_, ?_⟩
      · rw [decomposeDir_surf_step rat pu pv Uu Uv su sv P tol fuel hUlen hn _ _ hsplit, hdecB]; rfl
      · intro q hq
        rcases List.mem_cons.mp hq with e | hq'
        · rw [e]; exact ⟨hlenA, hnetA⟩
        · exact hokB q hq'
      · intro y hy
        rw [decomposeDir_step rat pu Uu (colOf su sv P y) tol fuel (by rw [colOf_length]; exact hUlen)
              (by rw [colOf_length]; exact hn) _ _ (hcols y hy), hcolsB y hy]
        rfl
    · have hsu : su = pu + 1 := by omega
      refine ⟨[(Uu, su, P)], ?_, ?_, ?_⟩
      · rw [decomposeDir_surf_bezier rat pu pv Uu Uv su sv P tol (fuel + 1) hUlen hsu]; rfl
      · intro q hq; simp only [List.mem_singleton] at hq; rw [hq]; exact ⟨hlenP, hP⟩
      · intro y _
        rw [decomposeDir_bezier rat pu Uu (colOf su sv P y) tol (fuel + 1) (by rw [colOf_length]; exact hUlen)
              (by rw [colOf_length]; exact hsu)]
        rfl

end Geomdl
