import NurbsVerif.Lemmas.KnotRowsVol
import NurbsVerif.Lemmas.Fitting

/-! List-of-rows branches, part 3: `knotInsertionRows` keeps the rows rectangular, is the transpose of
    the per-iso-curve insertions, and the volume model through rows equals the model through `mapVol`. -/
namespace Geomdl
namespace Rows
open RemInv
variable {K : Type} [Field K] [LinearOrder K] [IsStrictOrderedRing K]

theorem rowGet_append_left (A B : List (List (List K))) (i : ℕ) (h : i < A.length) :
    rowGet (A ++ B) i = rowGet A i := by
  unfold rowGet
  rw [List.getD_eq_getElem?_getD, List.getD_eq_getElem?_getD, List.getElem?_append_left h]

theorem rowGet_append_right (A B : List (List (List K))) (i : ℕ) (h : A.length ≤ i) :
    rowGet (A ++ B) i = rowGet B (i - A.length) := by
  unfold rowGet
  rw [List.getD_eq_getElem?_getD, List.getD_eq_getElem?_getD, List.getElem?_append_right h]

theorem rowGet_drop (A : List (List (List K))) (n i : ℕ) : rowGet (A.drop n) i = rowGet A (n + i) := by
  unfold rowGet
  rw [List.getD_eq_getElem?_getD, List.getD_eq_getElem?_getD, List.getElem?_drop]

theorem rowZip_length (f : K → K → K) (a b : List (List K)) : (rowZip f a b).length = a.length := by
  simp [rowZip]

/-- the rows of `temp` stay as wide as the rows they were copied from -/
theorem insTempAtRows_width (U : ℕ → K) (u : K) (R : List (List (List K))) (k p s m : ℕ)
    (hR : ∀ i, i ≤ p - s → (rowGet R (k - p + i)).length = m) :
    ∀ lv, (insTempAtRows U u R k p s lv).length = p - s + 1 ∧
      ∀ i, i ≤ p - s → (rowGet (insTempAtRows U u R k p s lv) i).length = m := by
  intro lv
  induction lv with
  | zero =>
    refine ⟨by simp [insTempAtRows, insTempInitRows], ?_⟩
    intro i hi
    show (rowGet (insTempInitRows R k p s) i).length = m
    unfold insTempInitRows
    rw [rowGet_map_range _ _ _ (by omega)]
    exact hR i hi
  | succ lv ih =>
    obtain ⟨hl, hw⟩ := ih
    have hlen : ((List.range (p - (lv + 1) - s + 1)).map (fun i =>
        rowZip (fun e1 e2 => insAlpha U u k i (k - p + (lv + 1)) * e2 + (1 - insAlpha U u k i (k - p + (lv + 1))) * e1)
          (rowGet (insTempAtRows U u R k p s lv) i) (rowGet (insTempAtRows U u R k p s lv) (i + 1)))).length
        = p - (lv + 1) - s + 1 := by simp
    constructor
    · show (insTempStepRows U u k p s (lv + 1) (insTempAtRows U u R k p s lv)).length = _
      unfold insTempStepRows
      simp only [List.length_append, List.length_map, List.length_range, List.length_drop, hl]
      omega
    · intro i hi
      show (rowGet (insTempStepRows U u k p s (lv + 1) (insTempAtRows U u R k p s lv)) i).length = m
      unfold insTempStepRows
      by_cases hc : i < p - (lv + 1) - s + 1
      · rw [rowGet_append_left _ _ _ (by rw [hlen]; exact hc), rowGet_map_range _ _ _ hc]
        simp only []
        rw [rowZip_length]
        exact hw i hi
      · rw [rowGet_append_right _ _ _ (by rw [hlen]; omega), hlen, rowGet_drop]
        rw [show p - (lv + 1) - s + 1 + (i - (p - (lv + 1) - s + 1)) = i by omega]
        exact hw i hi

/-- **the rows branch of A5.1 keeps the rows rectangular** -/
theorem knotInsertionRows_rect (p : ℕ) (U : ℕ → K) (R : List (List (List K))) (u : K) (r s k m : ℕ)
    (hR : RectW m R) (hpk : p ≤ k) (hk : k < R.length) (hrs : r + s ≤ p) :
    RectW m (knotInsertionRows p U R u r s k) := by
  have hRg : ∀ i, i < R.length → (rowGet R i).length = m := fun i hi => hR.rowGet i hi
  have T := insTempAtRows_width U u R k p s m (fun i hi => hRg _ (by omega))
  apply rectW_of_get
  intro i hi
  rw [knotInsertionRows_length] at hi
  unfold knotInsertionRows
  rw [rowGet_map_range _ _ _ hi]
  by_cases c1 : i + p ≤ k
  · simp only [c1, if_true]; exact hRg _ (by omega)
  · simp only [c1, if_false]
    by_cases c2 : i + p ≤ k + r
    · simp only [c2, if_true]; exact (T _).2 _ (by omega)
    · simp only [c2, if_false]
      by_cases c3 : i + s < k
      · simp only [c3, if_true]; exact (T _).2 _ (by omega)
      · simp only [c3, if_false]
        by_cases c4 : i + s < k + r
        · simp only [c4, if_true]; exact (T _).2 _ (by omega)
        · simp only [c4, if_false]; exact hRg _ (by omega)

/-- rows of width `m` are determined by their `m` columns -/
theorem rows_ext (m : ℕ) (A B : List (List (List K))) (hA : RectW m A) (hB : RectW m B) (hl : A.length = B.length)
    (h : ∀ c, c < m → isoCol c A = isoCol c B) : A = B := by
  apply List.ext_getElem hl
  intro i h1 h2
  have wa : (A[i]).length = m := hA _ (List.getElem_mem h1)
  have wb : (B[i]).length = m := hB _ (List.getElem_mem h2)
  apply net_ext _ _ (by rw [wa, wb])
  intro c hc
  rw [wa] at hc
  have e := congrArg (fun L => ptsGet L i) (h c hc)
  simp only [ptsGet_isoCol] at e
  unfold rowGet at e
  rw [List.getD_eq_getElem?_getD, List.getD_eq_getElem?_getD, List.getElem?_eq_getElem h1,
    List.getElem?_eq_getElem h2] at e
  exact e

/-- the transpose back: the list of rows whose `c`-th iso-curve is `cols c` (`n` rows of `m` points) -/
def ofCols (n m : ℕ) (cols : ℕ → List (List K)) : List (List (List K)) :=
  (List.range n).map (fun i => (List.range m).map (fun c => ptsGet (cols c) i))

theorem ofCols_rect (n m : ℕ) (cols : ℕ → List (List K)) : RectW m (ofCols n m cols) := by
  intro row hrow
  obtain ⟨i, _, rfl⟩ := List.mem_map.mp hrow
  simp

theorem isoCol_ofCols (n m : ℕ) (cols : ℕ → List (List K)) (c : ℕ) (hc : c < m) (hl : (cols c).length = n) :
    isoCol c (ofCols n m cols) = cols c := by
  unfold ofCols
  rw [isoCol_map_range]
  apply list_eq_of_ptsGet _ _ _ hl
  intro i hi
  rw [ptsGet_map_range_lt _ _ _ hc]

/-- **`knot_insertion` on a list of rows = transpose, A5.1 on every iso-curve, transpose back** -/
theorem knotInsertionRows_eq_ofCols (p : ℕ) (U : ℕ → K) (R : List (List (List K))) (u : K) (r s k m : ℕ)
    (hR : RectW m R) (hpk : p ≤ k) (hk : k < R.length) (hrs : r + s ≤ p) :
    knotInsertionRows p U R u r s k
      = ofCols (R.length + r) m (fun c => knotInsertion p U (isoCol c R) u r s k) := by
  apply rows_ext m _ _ (knotInsertionRows_rect p U R u r s k m hR hpk hk hrs) (ofCols_rect _ _ _)
  · rw [knotInsertionRows_length]; simp [ofCols]
  · intro c hc
    rw [isoCol_knotInsertionRows, isoCol_ofCols _ _ _ c hc]
    rw [knotInsertion_length, isoCol_length]

/-! ### volumes: the rows formulation of `operations.insert_knot` equals the `mapVol` formulation -/

theorem mapVolRows_insert (dir su sv sw p : ℕ) (U : ℕ → K) (P : List (List K)) (u : K) (r s k : ℕ)
    (hsu : 0 < su) (hsv : 0 < sv) (hsw : 0 < sw) (hdir : dir < 3)
    (hpk : p ≤ k) (hk : k < [su, sv, sw].getD dir 0) (hrs : r + s ≤ p) :
    mapVolRows dir su sv sw P (fun R => knotInsertionRows p U R u r s k)
      = mapVol dir su sv sw P (fun c => knotInsertion p U c u r s k) := by
  obtain rfl | rfl | rfl : dir = 0 ∨ dir = 1 ∨ dir = 2 := by omega
  · apply mapVolRows0_eq _ _ _ _ _ _ hsv hsw
    intro v w hv hw
    rw [isoCol_knotInsertionRows, isoCol_volRows0 _ _ _ _ _ _ hv hw]
  · apply mapVolRows1_eq _ _ _ _ _ _ hsu hsw
    intro a w ha hw
    rw [isoCol_knotInsertionRows, isoCol_volRows1 _ _ _ _ _ _ ha hw]
  · apply mapVolRows2_eq 2 _ _ _ (le_refl _) _ _ _ hsu hsv
    · apply knotInsertionRows_rect _ _ _ _ _ _ _ _ (volRows2_rect 2 su sv sw (le_refl _) P) hpk _ hrs
      rw [volRows2_length 2 su sv sw (le_refl _)]
      simpa using hk
    · intro a v ha hv
      rw [isoCol_knotInsertionRows, isoCol_volRows2 _ _ _ _ (le_refl _) _ _ _ ha hv]

/-- **one direction of `operations.insert_knot` on a volume, computed through the list of rows as the
    code does, is what the model `insertKnotDir` (per iso-curve, `mapVol`) returns** -/
theorem insertKnotVolRows_eq (S : Shape K) (dir : ℕ) (u : K) (r : ℕ) (tol : K) (check : Bool)
    (h3 : S.pdim = 3) (hdir : dir < 3) (hsu : 0 < S.size 0) (hsv : 0 < S.size 1) (hsw : 0 < S.size 2)
    (hpn : S.deg dir + 1 ≤ S.size dir)
    (hrs : check = false → r + findMultiplicity u (S.kv dir) tol ≤ S.deg dir) :
    insertKnotVolRows S dir u r tol check = insertKnotDir S dir u r tol check := by
  unfold insertKnotVolRows insertKnotDir
  simp only []
  by_cases hc : check = true ∧ r + findMultiplicity u (S.kv dir) tol > S.deg dir
  · rw [if_pos hc, if_pos hc]
  · rw [if_neg hc, if_neg hc]
    have hrs' : r + findMultiplicity u (S.kv dir) tol ≤ S.deg dir := by
      cases check with
      | false => exact hrs rfl
      | true => simp at hc; exact hc
    have hspan := findSpanLinear_range (S.deg dir) (fnOf (S.kv dir)) (S.size dir) u hpn
    have hsz : [S.size 0, S.size 1, S.size 2].getD dir 0 = S.size dir := by
      obtain rfl | rfl | rfl : dir = 0 ∨ dir = 1 ∨ dir = 2 := by omega
      all_goals rfl
    rw [mapVolRows_insert dir _ _ _ _ _ _ _ _ _ _ hsu hsv hsw hdir hspan.1 (by rw [hsz]; exact hspan.2) hrs']
    have hm : ∀ f : List (List K) → List (List K),
        S.mapDir dir f = mapVol dir (S.size 0) (S.size 1) (S.size 2) S.net f := by
      intro f
      unfold Shape.mapDir
      rw [if_neg (by omega), if_neg (by omega)]
    rw [hm]

end Rows
end Geomdl
