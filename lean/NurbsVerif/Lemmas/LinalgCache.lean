import NurbsVerif.Model.Linalg

/-!
The memoised `matrix_identity` of `geomdl/linalg.py` (an `lru_cache`), modelled as explicit state.

A. History independence of the repaired code: if every cache entry is the identity matrix of its
   key (`CacheOk`, true of the empty cache and preserved by every call), each call of each history
   returns exactly what it returns on its own (`pureOut`).  No algebra is used: the statements hold
   for every number type carrying the core operations of the model.
B. Refutations of the pinned behaviour at `K := Rat` (closed terms, kernel evaluation):
   F-16a (`matrix_pivot` mutates the memoised identity), F-16c (`lu_factor` forgets to permute the
   right-hand side), F-16b (`matrix_determinant` after a zero Doolittle pivot).
-/

namespace Lin
section
variable {K : Type} [Add K] [Sub K] [Mul K] [Div K] [Neg K] [Zero K] [One K] [NatCast K]
  [LT K] [LE K] [DecidableRel (α := K) (· < ·)] [DecidableRel (α := K) (· ≤ ·)] [DecidableEq K]

/-! ### A. history independence of the repaired model -/

/-- every memoised entry is the identity matrix of its key -/
def CacheOk (c : Cache K) : Prop := ∀ e ∈ c, e.2 = identity e.1

theorem cacheOk_nil : CacheOk ([] : Cache K) := by
  intro e he
  cases he

/-- a call `matrix_identity(n)` on a sound cache returns `identity n` and leaves the cache sound -/
theorem cacheGet_ok (c : Cache K) (n : Nat) (h : CacheOk c) :
    (cacheGet c n).1 = identity n ∧ CacheOk (cacheGet c n).2 := by
  unfold cacheGet
  cases hf : c.find? (fun e => e.1 == n) with
  | some e =>
    have hmem : e ∈ c := List.mem_of_find?_eq_some hf
    have hkey : e.1 = n := by
      have := List.find?_some hf
      simpa using this
    refine ⟨?_, ?_⟩
    · show e.2 = identity n
      rw [h e hmem, hkey]
    · intro e' he'
      rcases List.mem_cons.1 he' with rfl | he'
      · exact h _ hmem
      · exact h e' (List.mem_filter.1 he').1
  | none =>
    refine ⟨rfl, ?_⟩
    intro e' he'
    have he'' : e' ∈ (n, identity n) :: c := List.mem_of_mem_take he'
    rcases List.mem_cons.1 he'' with rfl | he''
    · rfl
    · exact h e' he''

/-- one call on the repaired code: the answer is the pure answer, the cache stays sound -/
theorem stepC_ok (c : Cache K) (op : Op K) (h : CacheOk c) :
    (stepC c op).2 = pureOut op ∧ CacheOk (stepC c op).1 := by
  cases op with
  | identity n =>
    simp only [stepC, pureOut]
    exact ⟨by rw [(cacheGet_ok c n h).1], (cacheGet_ok c n h).2⟩
  | pivot m =>
    simp only [stepC, pureOut, matrixPivot]
    exact ⟨by rw [(cacheGet_ok c m.length h).1], (cacheGet_ok c m.length h).2⟩
  | inverse m =>
    simp only [stepC, pureOut, matrixPivot, matrixInverse]
    exact ⟨by rw [(cacheGet_ok c m.length h).1], (cacheGet_ok c m.length h).2⟩
  | det m =>
    simp only [stepC, pureOut, matrixPivot, matrixDeterminant]
    exact ⟨by rw [(cacheGet_ok c m.length h).1], (cacheGet_ok c m.length h).2⟩
  | luSolve A b => exact ⟨rfl, h⟩
  | luFactor A b =>
    simp only [stepC, pureOut, matrixPivot, luFactor]
    exact ⟨by rw [(cacheGet_ok c A.length h).1], (cacheGet_ok c A.length h).2⟩

/-- every call in every history returns what it returns on its own -/
theorem runWith_stepC (c : Cache K) (ops : List (Op K)) (h : CacheOk c) :
    runWith stepC c ops = ops.map pureOut := by
  induction ops generalizing c with
  | nil => rfl
  | cons op ops ih =>
    have hs := stepC_ok c op h
    simp only [runWith, List.map_cons]
    rw [hs.1, ih _ hs.2]

/-- in particular from the empty cache (a fresh interpreter) -/
theorem runWith_stepC_nil (ops : List (Op K)) :
    runWith stepC ([] : Cache K) ops = ops.map pureOut :=
  runWith_stepC [] ops cacheOk_nil

/-- history independence: the answer of the last call does not depend on the calls before it -/
theorem runWith_stepC_last (c : Cache K) (pre : List (Op K)) (op : Op K) (h : CacheOk c) :
    (runWith stepC c (pre ++ [op])).getLast? = some (pureOut op) := by
  rw [runWith_stepC c _ h, List.map_append, List.map_singleton, List.getLast?_append]
  rfl

/-- two histories ending in the same call give the same last answer -/
theorem runWith_stepC_last_indep (c c' : Cache K) (pre pre' : List (Op K)) (op : Op K)
    (h : CacheOk c) (h' : CacheOk c') :
    (runWith stepC c (pre ++ [op])).getLast? = (runWith stepC c' (pre' ++ [op])).getLast? := by
  rw [runWith_stepC_last c pre op h, runWith_stepC_last c' pre' op h']

end

/-! ### B. refutations of the pinned behaviour, at `K := Rat` -/

/-- F-16a: after `matrix_pivot([[0,1],[1,0]])` the memoised `matrix_identity(2)` is the row exchange -/
theorem pinned_identity_second :
    (runWith stepPinned ([] : Cache Rat) [.pivot [[0,1],[1,0]], .identity 2]).getD 1 none
      = some [[[0,1],[1,0]]] := by
  decide +kernel

theorem pure_identity_two : pureOut (.identity 2 : Op Rat) = some [[[1,0],[0,1]]] := by
  decide +kernel

theorem pinned_identity_mutated :
    runWith stepPinned ([] : Cache Rat) [.pivot [[0,1],[1,0]], .identity 2]
      ≠ [pureOut (.pivot [[0,1],[1,0]]), pureOut (.identity 2)] := by
  decide +kernel

/-- F-16a: a later `matrix_inverse` of a diagonal matrix starts from the mutated "identity" -/
theorem pinned_inverse_wrong :
    (runWith stepPinned ([] : Cache Rat) [.pivot [[0,1],[1,0]], .inverse [[2,0],[0,4]]]).getD 1 none
      = some [[[0, 1/2],[1/4, 0]]] := by
  decide +kernel

theorem pure_inverse_diag :
    pureOut (.inverse [[2,0],[0,4]] : Op Rat) = some [[[1/2,0],[0,1/4]]] := by
  decide +kernel

theorem pinned_inverse_ne_pure :
    (runWith stepPinned ([] : Cache Rat) [.pivot [[0,1],[1,0]], .inverse [[2,0],[0,4]]]).getD 1 none
      ≠ pureOut (.inverse [[2,0],[0,4]]) := by
  decide +kernel

/-- the repaired code on the same history -/
theorem repaired_inverse_right :
    (runWith stepC ([] : Cache Rat) [.pivot [[0,1],[1,0]], .inverse [[2,0],[0,4]]]).getD 1 none
      = some [[[1/2,0],[0,1/4]]] := by
  decide +kernel

/-- F-16c: `lu_factor` on the pinned tree solves `mp · x = b` instead of `mp · x = p · b` -/
theorem luFactorPinned_wrong :
    luFactorPinned ([[0,1],[1,0]] : List (List Rat)) [[1],[2]] = some [[1],[2]] := by
  decide +kernel

theorem luFactor_witness :
    luFactor ([[0,1],[1,0]] : List (List Rat)) [[1],[2]] = some [[2],[1]] := by
  decide +kernel

theorem luFactorPinned_wrong2 :
    luFactorPinned ([[1,2],[3,4]] : List (List Rat)) [[5],[6]] = some [[-7],[13/2]] := by
  decide +kernel

theorem luFactor_witness2 :
    luFactor ([[1,2],[3,4]] : List (List Rat)) [[5],[6]] = some [[-4],[9/2]] := by
  decide +kernel

/-- F-16b: the product of the Doolittle diagonals after a zero pivot is not the determinant -/
theorem matrixDeterminant_wrong :
    matrixDeterminant ([[1,1,0],[1,1,1],[0,1,1]] : List (List Rat)) = 0 := by
  decide +kernel

theorem detLaplace_witness :
    detLaplace 3 ([[1,1,0],[1,1,1],[0,1,1]] : List (List Rat)) = -1 := by
  decide +kernel

end Lin
