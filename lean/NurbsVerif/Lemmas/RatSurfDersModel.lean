import NurbsVerif.Lemmas.RatSurfDers

/-! The list model `ratSurfaceDers` (A4.4 as coded) solves the bivariate Leibniz system. -/
namespace Geomdl
open Finset
variable {K : Type} [Field K] [LinearOrder K] [IsStrictOrderedRing K]

/-- `T[k][l]` ([] outside) -/
def tget (T : List (List (List K))) (k l : ℕ) : List K := (T.getD k []).getD l []

/-- `SKL[a][b]` while row `k` is under construction -/
def getS (SKL : List (List (List K))) (row : List (List K)) (k a b : ℕ) : List K :=
  if a = k then row.getD b [] else tget SKL a b

/-- the weight derivative `SKLw[i][j][-1]` -/
def wOf (SKLw : List (List (List K))) (i j : ℕ) : K := (tget SKLw i j).getLastD 0

/-- first loop of a cell: `for j in range(1, l+1)` -/
def ratV1 (SKLw SKL : List (List (List K))) (row : List (List K)) (k l : ℕ) : List K :=
  (List.range' 1 l).foldl (fun v j =>
    List.zipWith (fun tmp drv => tmp - (Nat.cast (binom l j) : K) * wOf SKLw 0 j * drv) v (getS SKL row k k (l - j)))
    (tget SKLw k l)

/-- the `v2` loop for one `i` -/
def ratInner (SKLw SKL : List (List (List K))) (row : List (List K)) (k l i : ℕ) : List K :=
  (List.range' 1 l).foldl (fun acc j =>
    List.zipWith (fun tmp drv => tmp + (Nat.cast (binom l j) : K) * wOf SKLw i j * drv) acc (getS SKL row k (k - i) (l - j)))
    (vzero ((tget SKLw k l).length - 1))

/-- second loop of a cell: `for i in range(1, k+1)` -/
def ratV2 (SKLw SKL : List (List (List K))) (row : List (List K)) (k l : ℕ) : List K :=
  (List.range' 1 k).foldl (fun v i =>
    List.zipWith (fun tmp tmp2 => tmp - (Nat.cast (binom k i) : K) * tmp2)
      (List.zipWith (fun tmp drv => tmp - (Nat.cast (binom k i) : K) * wOf SKLw i 0 * drv) v (getS SKL row k (k - i) l))
      (ratInner SKLw SKL row k l i))
    (ratV1 SKLw SKL row k l)

/-- one cell `SKL[k][l]` of A4.4 -/
def ratCell (SKLw SKL : List (List (List K))) (row : List (List K)) (k l : ℕ) : List K :=
  ((ratV2 SKLw SKL row k l).take ((tget SKLw k l).length - 1)).map (· / (tget SKLw 0 0).getLastD 1)

/-- the model is the nested build of its cells -/
theorem ratSurfaceDers_eq_build (SKLw : List (List (List K))) (order : ℕ) :
    ratSurfaceDers SKLw order
      = buildL (fun SKL k => buildL (fun row l => ratCell SKLw SKL row k l) (order+1)) (order+1) := rfl

section cell
variable (SKLw SKL : List (List (List K))) (row : List (List K)) (k l d : ℕ) (E : ℕ → ℕ → List K)

theorem ratV1_coord
    (hw : ∀ i j, i ≤ k → j ≤ l → (tget SKLw i j).length = d + 1)
    (hrow : ∀ b, b < l → row.getD b [] = E k b)
    (hlenE : ∀ a b, a ≤ k → b ≤ l → (a < k ∨ b < l) → (E a b).length = d) :
    d ≤ (ratV1 SKLw SKL row k l).length ∧ ∀ j, j < d → (ratV1 SKLw SKL row k l).getD j 0
      = (tget SKLw k l).getD j 0
        + ∑ b ∈ range l, -((Nat.choose l (b+1) : K) * (tget SKLw 0 (b+1)).getD d 0 * (E k (l - (b+1))).getD j 0) := by
  unfold ratV1
  obtain ⟨h1, h2⟩ := foldl_add_coord d
    (fun v j => List.zipWith (fun tmp drv => tmp - (Nat.cast (binom l j) : K) * wOf SKLw 0 j * drv) v (getS SKL row k k (l - j)))
    (fun b j => -((Nat.choose l b : K) * (tget SKLw 0 b).getD d 0 * (E k (l - b)).getD j 0))
    (List.range' 1 l) (by
      intro b hb v hv
      rw [List.mem_range'_1] at hb
      have hg : getS SKL row k k (l - b) = E k (l - b) := by
        unfold getS
        rw [if_pos rfl, hrow (l - b) (by omega)]
      have hl : (E k (l - b)).length = d := hlenE k (l - b) (le_refl _) (by omega) (Or.inr (by omega))
      rw [hg]
      refine ⟨by rw [List.length_zipWith, hl]; omega, ?_⟩
      intro j hj
      rw [zipWith_getD_lt _ _ _ j (by omega) (by omega), binom_eq_choose]
      unfold wOf
      rw [getLastD_eq_getD _ d 0 (hw 0 b (by omega) (by omega))]
      ring)
    (tget SKLw k l) (by rw [hw k l (le_refl _) (le_refl _)]; omega)
  refine ⟨h1, ?_⟩
  intro j hj
  rw [h2 j hj, list_sum_range'_one]

theorem ratInnerS_coord (i : ℕ) (hi1 : 1 ≤ i) (hik : i ≤ k)
    (hw : ∀ i j, i ≤ k → j ≤ l → (tget SKLw i j).length = d + 1)
    (hskl : ∀ a b, a < k → b ≤ l → tget SKL a b = E a b)
    (hlenE : ∀ a b, a ≤ k → b ≤ l → (a < k ∨ b < l) → (E a b).length = d) :
    d ≤ (ratInner SKLw SKL row k l i).length ∧ ∀ j, j < d → (ratInner SKLw SKL row k l i).getD j 0
      = ∑ b ∈ range l, (Nat.choose l (b+1) : K) * (tget SKLw i (b+1)).getD d 0 * (E (k - i) (l - (b+1))).getD j 0 := by
  unfold ratInner
  obtain ⟨h1, h2⟩ := foldl_add_coord d
    (fun acc j => List.zipWith (fun tmp drv => tmp + (Nat.cast (binom l j) : K) * wOf SKLw i j * drv) acc (getS SKL row k (k - i) (l - j)))
    (fun b j => (Nat.choose l b : K) * (tget SKLw i b).getD d 0 * (E (k - i) (l - b)).getD j 0)
    (List.range' 1 l) (by
      intro b hb v hv
      rw [List.mem_range'_1] at hb
      have hg : getS SKL row k (k - i) (l - b) = E (k - i) (l - b) := by
        unfold getS
        rw [if_neg (by omega), hskl (k - i) (l - b) (by omega) (by omega)]
      have hl : (E (k - i) (l - b)).length = d := hlenE (k - i) (l - b) (by omega) (by omega) (Or.inl (by omega))
      rw [hg]
      refine ⟨by rw [List.length_zipWith, hl]; omega, ?_⟩
      intro j hj
      rw [zipWith_getD_lt _ _ _ j (by omega) (by omega), binom_eq_choose]
      unfold wOf
      rw [getLastD_eq_getD _ d 0 (hw i b (by omega) (by omega))])
    (vzero ((tget SKLw k l).length - 1)) (by rw [hw k l (le_refl _) (le_refl _)]; simp [vzero])
  refine ⟨h1, ?_⟩
  intro j hj
  rw [h2 j hj, list_sum_range'_one]
  have hz : ∀ n, (vzero n : List K).getD j 0 = 0 := by
    intro n
    simp only [vzero, List.getD_eq_getElem?_getD, List.getElem?_replicate]
    split <;> simp
  rw [hz, zero_add]

theorem ratV2_coord
    (hw : ∀ i j, i ≤ k → j ≤ l → (tget SKLw i j).length = d + 1)
    (hrow : ∀ b, b < l → row.getD b [] = E k b)
    (hskl : ∀ a b, a < k → b ≤ l → tget SKL a b = E a b)
    (hlenE : ∀ a b, a ≤ k → b ≤ l → (a < k ∨ b < l) → (E a b).length = d) :
    d ≤ (ratV2 SKLw SKL row k l).length ∧ ∀ j, j < d → (ratV2 SKLw SKL row k l).getD j 0
      = (tget SKLw k l).getD j 0
        + ∑ b ∈ range l, -((Nat.choose l (b+1) : K) * (tget SKLw 0 (b+1)).getD d 0 * (E k (l - (b+1))).getD j 0)
        + ∑ a ∈ range k, -((Nat.choose k (a+1) : K) * ((tget SKLw (a+1) 0).getD d 0 * (E (k - (a+1)) l).getD j 0
            + ∑ b ∈ range l, (Nat.choose l (b+1) : K) * (tget SKLw (a+1) (b+1)).getD d 0
                * (E (k - (a+1)) (l - (b+1))).getD j 0)) := by
  unfold ratV2
  obtain ⟨hv1, hv1c⟩ := ratV1_coord SKLw SKL row k l d E hw hrow hlenE
  obtain ⟨h1, h2⟩ := foldl_add_coord d
    (fun v i => List.zipWith (fun tmp tmp2 => tmp - (Nat.cast (binom k i) : K) * tmp2)
      (List.zipWith (fun tmp drv => tmp - (Nat.cast (binom k i) : K) * wOf SKLw i 0 * drv) v (getS SKL row k (k - i) l))
      (ratInner SKLw SKL row k l i))
    (fun a j => -((Nat.choose k a : K) * ((tget SKLw a 0).getD d 0 * (E (k - a) l).getD j 0
            + ∑ b ∈ range l, (Nat.choose l (b+1) : K) * (tget SKLw a (b+1)).getD d 0
                * (E (k - a) (l - (b+1))).getD j 0)))
    (List.range' 1 k) (by
      intro a ha v hv
      rw [List.mem_range'_1] at ha
      have hg : getS SKL row k (k - a) l = E (k - a) l := by
        unfold getS
        rw [if_neg (by omega), hskl (k - a) l (by omega) (le_refl _)]
      have hl : (E (k - a) l).length = d := hlenE (k - a) l (by omega) (le_refl _) (Or.inl (by omega))
      obtain ⟨hin, hinc⟩ := ratInnerS_coord SKLw SKL row k l d E a (by omega) (by omega) hw hskl hlenE
      rw [hg]
      have hva : (List.zipWith (fun tmp drv => tmp - (Nat.cast (binom k a) : K) * wOf SKLw a 0 * drv) v (E (k - a) l)).length = d := by
        rw [List.length_zipWith, hl]; omega
      refine ⟨by rw [List.length_zipWith, hva]; omega, ?_⟩
      intro j hj
      rw [zipWith_getD_lt _ _ _ j (by omega) (by omega), zipWith_getD_lt _ _ _ j (by omega) (by omega),
        hinc j hj, binom_eq_choose]
      unfold wOf
      rw [getLastD_eq_getD _ d 0 (hw a 0 (by omega) (by omega))]
      ring)
    (ratV1 SKLw SKL row k l) hv1
  refine ⟨h1, ?_⟩
  intro j hj
  rw [h2 j hj, hv1c j hj, list_sum_range'_one]

/-- **one cell**: if the cells referred to are the entries `E a b` of some table (all of dimension
    `d`), the new cell has dimension `d` and its coordinates are given by the cell equation -/
theorem ratCell_coord
    (hw : ∀ i j, i ≤ k → j ≤ l → (tget SKLw i j).length = d + 1)
    (hrow : ∀ b, b < l → row.getD b [] = E k b)
    (hskl : ∀ a b, a < k → b ≤ l → tget SKL a b = E a b)
    (hlenE : ∀ a b, a ≤ k → b ≤ l → (a < k ∨ b < l) → (E a b).length = d) :
    (ratCell SKLw SKL row k l).length = d ∧ ∀ j, j < d → (ratCell SKLw SKL row k l).getD j 0
      = (((tget SKLw k l).getD j 0
        - ∑ b ∈ range l, (Nat.choose l (b+1) : K) * (tget SKLw 0 (b+1)).getD d 0 * (E k (l - (b+1))).getD j 0
        - ∑ a ∈ range k, (Nat.choose k (a+1) : K) * ((tget SKLw (a+1) 0).getD d 0 * (E (k - (a+1)) l).getD j 0
            + ∑ b ∈ range l, (Nat.choose l (b+1) : K) * (tget SKLw (a+1) (b+1)).getD d 0
                * (E (k - (a+1)) (l - (b+1))).getD j 0)) / (tget SKLw 0 0).getD d 0) := by
  obtain ⟨h1, h2⟩ := ratV2_coord SKLw SKL row k l d E hw hrow hskl hlenE
  unfold ratCell
  rw [hw k l (le_refl _) (le_refl _), Nat.add_sub_cancel]
  refine ⟨by rw [List.length_map, List.length_take]; omega, ?_⟩
  intro j hj
  have hmapd : ∀ (x : List K) (a : K), (x.map (fun y => y / a)).getD j 0 = x.getD j 0 / a := by
    intro x a
    simp only [List.getD_eq_getElem?_getD, List.getElem?_map]
    cases x[j]? <;> simp
  have htake : ((ratV2 SKLw SKL row k l).take d).getD j 0 = (ratV2 SKLw SKL row k l).getD j 0 := by
    simp only [List.getD_eq_getElem?_getD, List.getElem?_take, hj, if_true]
  rw [hmapd, htake, h2 j hj, getLastD_eq_getD _ d 1 (hw 0 0 (by omega) (by omega)),
    Finset.sum_neg_distrib, Finset.sum_neg_distrib]
  ring

end cell

section table
variable (SKLw : List (List (List K))) (order d : ℕ)

/-- the row builder of the outer loop -/
def ratRowF (SKLw : List (List (List K))) (order : ℕ) (SKL : List (List (List K))) (k : ℕ) : List (List K) :=
  buildL (fun row l => ratCell SKLw SKL row k l) (order+1)

theorem ratSurfaceDers_eq_build' : ratSurfaceDers SKLw order = buildL (ratRowF SKLw order) (order+1) := rfl

/-- row `k` of the result -/
theorem ratSurfaceDers_row (k : ℕ) (hk : k ≤ order) :
    (ratSurfaceDers SKLw order).getD k [] = ratRowF SKLw order (buildL (ratRowF SKLw order) k) k := by
  rw [ratSurfaceDers_eq_build', List.getD_eq_getElem?_getD, buildL_getElem? _ k (order+1) (by omega)]
  rfl

/-- rows above `k` are not visible while row `k` is built … -/
theorem ratSurfaceDers_prefix (k a b : ℕ) (hk : k ≤ order) (ha : a < k) :
    tget (buildL (ratRowF SKLw order) k) a b = tget (ratSurfaceDers SKLw order) a b := by
  unfold tget
  rw [ratSurfaceDers_eq_build']
  simp only [List.getD_eq_getElem?_getD]
  rw [buildL_getElem?_prefix _ a k ha (order+1) (by omega)]

/-- … and the cells of the row under construction are the final ones -/
theorem ratSurfaceDers_rowprefix (k l b : ℕ) (hk : k ≤ order) (hl : l ≤ order) (hb : b < l) :
    (buildL (fun row l => ratCell SKLw (buildL (ratRowF SKLw order) k) row k l) l).getD b []
      = tget (ratSurfaceDers SKLw order) k b := by
  unfold tget
  rw [ratSurfaceDers_row SKLw order k hk]
  unfold ratRowF
  simp only [List.getD_eq_getElem?_getD]
  rw [buildL_getElem?_prefix _ b l hb (order+1) (by omega)]

/-- cell `(k, l)` of the result -/
theorem ratSurfaceDers_cell (k l : ℕ) (hk : k ≤ order) (hl : l ≤ order) :
    tget (ratSurfaceDers SKLw order) k l
      = ratCell SKLw (buildL (ratRowF SKLw order) k)
          (buildL (fun row l => ratCell SKLw (buildL (ratRowF SKLw order) k) row k l) l) k l := by
  unfold tget
  rw [ratSurfaceDers_row SKLw order k hk]
  unfold ratRowF
  rw [List.getD_eq_getElem?_getD, buildL_getElem? _ l (order+1) (by omega)]
  rfl

/-- every cell `k, l ≤ order` of the result has `d` coordinates (the weight is dropped) -/
theorem ratSurfaceDers_entry_length
    (hw : ∀ i j, i ≤ order → j ≤ order → (tget SKLw i j).length = d + 1) :
    ∀ k l, k ≤ order → l ≤ order → (tget (ratSurfaceDers SKLw order) k l).length = d := by
  intro k
  induction k using Nat.strong_induction_on with
  | _ k ihk =>
    intro l
    induction l using Nat.strong_induction_on with
    | _ l ihl =>
      intro hk hl
      rw [ratSurfaceDers_cell SKLw order k l hk hl]
      refine (ratCell_coord SKLw _ _ k l d (fun a b => tget (ratSurfaceDers SKLw order) a b)
        (fun i j hi hj => hw i j (by omega) (by omega))
        (fun b hb => ratSurfaceDers_rowprefix SKLw order k l b hk hl hb)
        (fun a b ha _ => ratSurfaceDers_prefix SKLw order k a b hk ha)
        ?_).1
      intro a b ha hb hab
      by_cases hak : a < k
      · exact ihk a hak b (by omega) (by omega)
      · have : a = k := by omega
        subst this
        exact ihl b (by omega) hk (by omega)

/-- **A4.4 (list model)**: every cell satisfies the cell equation, coordinate by coordinate -/
theorem ratSurfaceDers_coord
    (hw : ∀ i j, i ≤ order → j ≤ order → (tget SKLw i j).length = d + 1)
    (k l j : ℕ) (hk : k ≤ order) (hl : l ≤ order) (hj : j < d) :
    (tget (ratSurfaceDers SKLw order) k l).getD j 0
      = cellSpec (fun a b => (tget SKLw a b).getD j 0) (fun a b => (tget SKLw a b).getD d 0)
          (fun a b => (tget (ratSurfaceDers SKLw order) a b).getD j 0) k l := by
  rw [ratSurfaceDers_cell SKLw order k l hk hl]
  exact (ratCell_coord SKLw _ _ k l d (fun a b => tget (ratSurfaceDers SKLw order) a b)
    (fun i j hi hj => hw i j (by omega) (by omega))
    (fun b hb => ratSurfaceDers_rowprefix SKLw order k l b hk hl hb)
    (fun a b ha _ => ratSurfaceDers_prefix SKLw order k a b hk ha)
    (fun a b ha hb _ => ratSurfaceDers_entry_length SKLw order d hw a b (by omega) (by omega))).2 j hj

/-- hence the rational mixed derivatives returned by the model satisfy the bivariate Leibniz system
    `Σ_{i≤k} Σ_{j≤l} C(k,i) C(l,j) · w⁽ⁱʲ⁾ · S⁽ᵏ⁻ⁱ,ˡ⁻ʲ⁾ = A⁽ᵏˡ⁾` for all `k, l ≤ order` -/
theorem ratSurfaceDers_leibniz
    (hw : ∀ i j, i ≤ order → j ≤ order → (tget SKLw i j).length = d + 1)
    (hw0 : (tget SKLw 0 0).getD d 0 ≠ 0)
    (k l c : ℕ) (hk : k ≤ order) (hl : l ≤ order) (hc : c < d) :
    ∑ i ∈ range (k+1), ∑ j ∈ range (l+1),
      (Nat.choose k i : K) * (Nat.choose l j : K) * (tget SKLw i j).getD d 0
        * (tget (ratSurfaceDers SKLw order) (k - i) (l - j)).getD c 0
      = (tget SKLw k l).getD c 0 :=
  leibniz2_of_cellSpec (fun a b => (tget SKLw a b).getD c 0) (fun a b => (tget SKLw a b).getD d 0)
    (fun a b => (tget (ratSurfaceDers SKLw order) a b).getD c 0) hw0 k l
    (ratSurfaceDers_coord SKLw order d hw k l c hk hl hc)

end table

end Geomdl
