import NurbsVerif.Lemmas.SpanBin
import NurbsVerif.Lemmas.KnotVec
import NurbsVerif.Lemmas.ConfigKnotOps

/-!
  C17, the span-search option: selecting `find_span_binsearch` never makes a valid call fail.

  `findSpanBin` returns `none` only when the fuel of its `while` loop is exhausted (the model of "does not
  return").  For every parameter of the domain `U p ≤ u ≤ U n` this never happens – for ANY knot function
  (sortedness is not needed for termination, and neither is the tolerance hypothesis that F-17b violates:
  that one is only needed for the VALUE to agree with the linear search).  The binary search is also
  invariant under an increasing affine map of knots, parameter and tolerance.
-/
set_option linter.unusedSectionVars false

namespace Geomdl
variable {K : Type} [Field K] [LinearOrder K] [IsStrictOrderedRing K]

/-- the binary search returns on the whole domain; outside the tolerance shortcut the returned index is a
    half-open knot interval containing the parameter -/
theorem findSpanBin_returns (p : ℕ) (U : ℕ → K) (n : ℕ) (u tol : K) (hpn : p + 1 ≤ n)
    (hlo : U p ≤ u) (hhi : u ≤ U n) (htol : 0 ≤ tol) :
    ∃ k, findSpanBin p U n u tol = some k ∧
      ((absK (U n - u) ≤ tol ∧ k = n - 1) ∨ (¬ absK (U n - u) ≤ tol ∧ U k ≤ u ∧ u < U (k+1))) := by
  unfold findSpanBin
  by_cases hc : absK (U n - u) ≤ tol
  · rw [if_pos hc]
    exact ⟨n - 1, rfl, Or.inl ⟨hc, rfl⟩⟩
  · rw [if_neg hc]
    have hlt : u < U n := by
      rcases lt_or_eq_of_le hhi with h | h
      · exact h
      · exfalso; apply hc
        rw [h]; simp [absK, htol]
    obtain ⟨k, hk, h1, h2⟩ := binLoop_first U u (n + p + 1) p n ((p + n + 1) / 2) hlo hlt (by omega) (by omega)
      (by omega) (by omega)
    exact ⟨k, hk, Or.inr ⟨hc, h1, h2⟩⟩

theorem findSpanBin_isSome (p : ℕ) (U : ℕ → K) (n : ℕ) (u tol : K) (hpn : p + 1 ≤ n)
    (hlo : U p ≤ u) (hhi : u ≤ U n) (htol : 0 ≤ tol) : (findSpanBin p U n u tol).isSome = true := by
  obtain ⟨k, hk, _⟩ := findSpanBin_returns p U n u tol hpn hlo hhi htol
  rw [hk]; rfl

/-- on a sorted knot vector the returned index is a legal span index `p ≤ k < n` -/
theorem findSpanBin_in_range (p : ℕ) (U : ℕ → K) (n : ℕ) (u tol : K) (hpn : p + 1 ≤ n) (hm : Monotone U)
    (hlo : U p ≤ u) (hhi : u ≤ U n) (htol : 0 ≤ tol) :
    ∃ k, findSpanBin p U n u tol = some k ∧ p ≤ k ∧ k < n := by
  obtain ⟨k, hk, h⟩ := findSpanBin_returns p U n u tol hpn hlo hhi htol
  refine ⟨k, hk, ?_⟩
  rcases h with ⟨_, rfl⟩ | ⟨hc, h1, h2⟩
  · omega
  · have hlt : u < U n := by
      rcases lt_or_eq_of_le hhi with h | h
      · exact h
      · exfalso; apply hc
        rw [h]; simp [absK, htol]
    constructor
    · by_contra hcon
      have : U (k+1) ≤ U p := hm (by omega)
      linarith
    · by_contra hcon
      have : U n ≤ U k := hm (by omega)
      linarith

/-! ### the binary search under an affine map -/

theorem cfg_affine_lt (a b x y : K) (ha : 0 < a) : a * x + b < a * y + b ↔ x < y := by
  constructor
  · intro h
    have : a * x < a * y := by linarith
    exact lt_of_mul_lt_mul_left this (le_of_lt ha)
  · intro h
    have := mul_lt_mul_of_pos_left h ha
    linarith

theorem cfg_affine_le' (a b x y : K) (ha : 0 < a) : a * x + b ≤ a * y + b ↔ x ≤ y := by
  rw [← not_lt, ← not_lt, cfg_affine_lt a b y x ha]

theorem findSpanBinLoop_affine (U : ℕ → K) (u a b : K) (ha : 0 < a) : ∀ (fuel low high mid : ℕ),
    findSpanBinLoop (fun i => a * U i + b) (a * u + b) fuel low high mid = findSpanBinLoop U u fuel low high mid
  | 0, _, _, _ => rfl
  | fuel+1, low, high, mid => by
      unfold findSpanBinLoop
      simp only [cfg_affine_lt a b _ _ ha, cfg_affine_le' a b _ _ ha, findSpanBinLoop_affine U u a b ha fuel]

/-- `find_span_binsearch` with knots `a•U + b`, parameter `a·u + b` and tolerance `a·tol` -/
theorem findSpanBin_affine (p : ℕ) (U : ℕ → K) (n : ℕ) (u tol a b : K) (ha : 0 < a) :
    findSpanBin p (fun i => a * U i + b) n (a * u + b) (a * tol) = findSpanBin p U n u tol := by
  unfold findSpanBin
  rw [cfg_absK_affine a b (U n) u ha, findSpanBinLoop_affine U u a b ha]
  have : a * absK (U n - u) ≤ a * tol ↔ absK (U n - u) ≤ tol := by
    constructor
    · intro h; exact le_of_mul_le_mul_left h ha
    · intro h; exact mul_le_mul_of_nonneg_left h (le_of_lt ha)
  simp only [this]

end Geomdl
