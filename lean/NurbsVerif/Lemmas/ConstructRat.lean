/-
  C13 / C09: the control-point / weight split-and-recombine that `construct_surface`, `construct_volume` and
  `sweep_vector` perform on rational shapes (`Model/LayoutRat.lean`, built from the views of `Model/Weights.lean`)
  is the identity on homogeneous points when every weight is non-zero: the explicit models equal the layout models
  `constructSurface` / `constructVolume` / `sweepCurve (pointTranslateW vec)` / `sweepSurface (pointTranslateW vec)`.
-/
import NurbsVerif.Model.LayoutRat
import NurbsVerif.Lemmas.Weights
import NurbsVerif.Lemmas.ConstructExtract
import NurbsVerif.Lemmas.LayoutSweep

namespace Geomdl
set_option linter.unusedSectionVars false
variable {K : Type} [Field K] [LinearOrder K] [IsStrictOrderedRing K] {κ : Type}

/-! ### the views of an input object, the two setters of the result object -/

theorem ratObj_coherent (Pw : List (List K)) : Coherent (ratObj Pw) := ⟨Or.inl rfl, Or.inl rfl⟩

/-- `arg.ctrlpts`, `arg.weights` are the two halves of `separate_ctrlpts_weights(arg.ctrlptsw)` -/
theorem ratViews_eq (Pw : List (List K)) : ratViews Pw = separate Pw := by
  obtain ⟨p1, p2, p3⟩ := nGetP_spec (ratObj Pw) (ratObj_coherent Pw)
  obtain ⟨w1, _, _⟩ := nGetW_spec _ p3
  unfold ratViews
  simp only []
  rw [p1, w1, p2]
  rfl

/-- `ns.ctrlpts = P; ns.weights = w` on a fresh rational object stores `combine_ctrlpts_weights(P, w)`
    (the intermediate unit weights divide out exactly) -/
theorem ratAssign_eq (P : List (List K)) (w : List K) (hne : P ≠ []) : ratAssign P w = some (combine P w) := by
  unfold ratAssign
  have hnet : (nSetP NState.init P).net = combine P (List.replicate P.length 1) := by
    rw [nSetP_net _ P ninv_init.2]; simp [NState.init, separate]
  have hc1 : Coherent (nSetP NState.init P) := (ninv_setP _ P ninv_init).2
  rw [nSetW_spec _ w hc1, hnet, separate_combine' P _ (by simp)
    (by intro x hx; rw [List.mem_replicate] at hx; rw [hx.2]; exact one_ne_zero)]
  simp [hne]

/-- **split, then recombine through the two setters = identity** (non-zero weights) -/
theorem ratAssign_separate (Pw : List (List K)) (h : HomOk Pw) (hne : Pw ≠ []) :
    ratAssign (separate Pw).1 (separate Pw).2 = some Pw := by
  rw [ratAssign_eq _ _ (by simpa [separate] using hne), combine_separate' Pw h]

theorem separate_flatMap {β : Type} (L : List β) (f : β → List (List K)) :
    (L.flatMap fun x => (separate (f x)).1) = (separate (L.flatMap f)).1 ∧
    (L.flatMap fun x => (separate (f x)).2) = (separate (L.flatMap f)).2 := by
  simp [separate, List.map_flatMap]

theorem homOk_flatMap {β : Type} (L : List β) (f : β → List (List K)) (h : ∀ x ∈ L, HomOk (f x)) :
    HomOk (L.flatMap f) := by
  intro pt hpt
  simp only [List.mem_flatMap] at hpt
  obtain ⟨x, hx, hp⟩ := hpt
  exact h x hx pt hp

theorem homOk_of_subset (P Q : List (List K)) (h : HomOk Q) (hs : ∀ p ∈ P, p ∈ Q) : HomOk P :=
  fun p hp => h p (hs p hp)

/-! ### `construct_surface` -/

theorem mem_flipCtrlptsU_of (l : List (List K)) (su sv : ℕ) (hl : l.length = sv * su) (p : List K)
    (hp : p ∈ flipCtrlptsU l su sv) : p ∈ l := by
  simp only [flipCtrlptsU, tab2, List.mem_flatMap, List.mem_map, List.mem_range] at hp
  obtain ⟨i, hi, j, hj, rfl⟩ := hp
  have hlt : i + j * su < l.length := by
    have := flatIdx2_lt (su := sv) (sv := su) hj hi
    unfold flatIdx2 at this
    rw [hl, Nat.mul_comm j]; exact this
  rw [List.getD_eq_getElem?_getD, List.getElem?_eq_getElem hlt]
  exact List.getElem_mem hlt

/-- **`construct_surface` on rational curves**: with the split-and-recombine written out the result is what the
    layout model (identity on homogeneous points) returns – every weight non-zero, no curve without points -/
theorem constructSurfaceRat_eq (dir : Dir) (degO : ℕ) (kvO : κ) (args : List (Crv (List K) κ))
    (hh : ∀ c ∈ args, HomOk c.pts ∧ c.pts ≠ []) :
    constructSurfaceRat dir degO kvO args = constructSurface dir degO kvO args := by
  cases args with
  | nil => rfl
  | cons c0 rest =>
    unfold constructSurfaceRat constructSurface
    simp only []
    by_cases h1 : (c0 :: rest).length < 2
    · rw [if_pos h1, if_pos h1]
    · rw [if_neg h1, if_neg h1]
      by_cases h2 : (!(c0 :: rest).all fun c => c.deg == c0.deg && c.pts.length == c0.pts.length) = true
      · rw [if_pos h2, if_pos h2]
      · rw [if_neg h2, if_neg h2]
        have hall : ∀ c ∈ c0 :: rest, c.pts.length = c0.pts.length := by
          simp only [Bool.not_eq_true', Bool.not_eq_false, List.all_eq_true, Bool.and_eq_true, beq_iff_eq] at h2
          exact fun c hc => (h2 c hc).2
        simp only [ratViews_eq]
        rw [(separate_flatMap (c0 :: rest) fun c => c.pts).1, (separate_flatMap (c0 :: rest) fun c => c.pts).2]
        have hHom : HomOk ((c0 :: rest).flatMap fun c => c.pts) := homOk_flatMap _ _ (fun c hc => (hh c hc).1)
        have hlen := length_flatMap_uniform (c0 :: rest) (fun c => c.pts) c0.pts.length hall
        have hpos : 0 < c0.pts.length := List.length_pos_iff.mpr (hh c0 List.mem_cons_self).2
        have hposlen : 0 < ((c0 :: rest).flatMap fun c => c.pts).length := by
          rw [hlen]; exact Nat.mul_pos hpos (by simp)
        have hne : ((c0 :: rest).flatMap fun c => c.pts) ≠ [] := List.ne_nil_of_length_pos hposlen
        cases dir with
        | u => simp only []; rw [ratAssign_separate _ hHom hne]; rfl
        | v =>
          simp only []
          rw [combine_separate' _ hHom]
          have hne' : flipCtrlptsU ((c0 :: rest).flatMap fun c => c.pts) c0.pts.length (c0 :: rest).length ≠ [] := by
            apply List.ne_nil_of_length_pos
            rw [length_flipCtrlptsU, ← hlen]; exact hposlen
          rw [ratAssign_separate _ (homOk_of_subset _ _ hHom
            (mem_flipCtrlptsU_of _ c0.pts.length (c0 :: rest).length (by rw [hlen, Nat.mul_comm]))) hne']
          rfl
        | w => rfl

/-! ### `construct_volume` -/

theorem volPerm_map {α β : Type} (iα : Inhabited α) (iβ : Inhabited β) (f : α → β)
    (hf : f iα.default = iβ.default) (dir : Dir) (n a b : ℕ) (l : List α) :
    @volPerm β iβ dir n a b (l.map f) = (@volPerm α iα dir n a b l).map f := by
  have key : ∀ i, (l.map f).getD i iβ.default = f (l.getD i iα.default) := by
    intro i
    rw [← hf, List.getD_eq_getElem?_getD, List.getD_eq_getElem?_getD, List.getElem?_map]
    cases l[i]? <;> rfl
  cases dir with
  | w => rfl
  | u => simp only [volPerm, tab3, tab2, List.map_flatMap, List.map_map, Function.comp_def, key]
  | v => simp only [volPerm, tab3, tab2, List.map_flatMap, List.map_map, Function.comp_def, key]

theorem volPerm_separate (dir : Dir) (n a b : ℕ) (l : List (List K)) :
    volPerm dir n a b (separate l).1 = (separate (volPerm dir n a b l)).1 ∧
    @volPerm K ⟨0⟩ dir n a b (separate l).2 = (separate (volPerm dir n a b l)).2 := by
  constructor
  · exact volPerm_map _ _ unweighPt (by simp [unweighPt, default]) dir n a b l
  · exact volPerm_map _ ⟨0⟩ (fun ptw : List K => ptw.getLastD 0) (by simp [default]) dir n a b l

theorem length_volPerm (dir : Dir) (n a b : ℕ) (l : List (List K)) (hl : l.length = a * b * n) :
    (volPerm dir n a b l).length = a * b * n := by
  cases dir with
  | w => exact hl
  | u => simp only [volPerm]; rw [length_tab3]; ring
  | v => simp only [volPerm]; rw [length_tab3]; ring

/-- **`construct_volume` (repaired) on rational surfaces**: split-and-recombine written out = the layout model –
    every weight non-zero, every net has `size_u*size_v > 0` points -/
theorem constructVolumeRat_eq (dir : Dir) (degO : ℕ) (kvO : κ) (args : List (Srf (List K) κ))
    (hh : ∀ s ∈ args, HomOk s.pts ∧ s.pts.length = s.su * s.sv ∧ 0 < s.su * s.sv) :
    constructVolumeRat dir degO kvO args = constructVolume dir degO kvO args := by
  cases args with
  | nil => rfl
  | cons s0 rest =>
    unfold constructVolumeRat constructVolume constructVolumeWith
    simp only []
    by_cases h1 : (s0 :: rest).length < 2
    · rw [if_pos h1, if_pos h1]
    · rw [if_neg h1, if_neg h1]
      by_cases h2 : (!(s0 :: rest).all fun s => s.du == s0.du && s.dv == s0.dv && s.su == s0.su && s.sv == s0.sv) = true
      · rw [if_pos h2, if_pos h2]
      · rw [if_neg h2, if_neg h2]
        have hall : SrfsOk (s0 :: rest) s0 := by
          simp only [Bool.not_eq_true', Bool.not_eq_false, List.all_eq_true, Bool.and_eq_true, beq_iff_eq] at h2
          intro s hs
          obtain ⟨⟨⟨e1, e2⟩, e3⟩, e4⟩ := h2 s hs
          exact ⟨e1, e2, e3, e4, by rw [← e3, ← e4]; exact (hh s hs).2.1⟩
        simp only [ratViews_eq]
        rw [(separate_flatMap (s0 :: rest) fun s => s.pts).1, (separate_flatMap (s0 :: rest) fun s => s.pts).2,
          (volPerm_separate dir _ _ _ _).1, (volPerm_separate dir _ _ _ _).2]
        have hHom : HomOk ((s0 :: rest).flatMap fun s => s.pts) := homOk_flatMap _ _ (fun s hs => (hh s hs).1)
        have hlen := length_flatMap_uniform (s0 :: rest) (fun s => s.pts) _ (srfsOk_len hall)
        have hlenP := length_volPerm dir (s0 :: rest).length s0.su s0.sv _ hlen
        have hpos : 0 < s0.su * s0.sv := (hh s0 List.mem_cons_self).2.2
        have hne : volPerm dir (s0 :: rest).length s0.su s0.sv ((s0 :: rest).flatMap fun s => s.pts) ≠ [] := by
          intro h0
          rw [h0] at hlenP
          simp only [List.length_nil, List.length_cons] at hlenP
          have : 0 < s0.su * s0.sv * (rest.length + 1) := Nat.mul_pos hpos (by omega)
          omega
        rw [ratAssign_separate _ (homOk_of_subset _ _ hHom (mem_volPerm_of dir hall)) hne]
        cases dir <;> rfl

/-! ### `sweep_vector` -/

theorem weighPt_translate_unweighPt (vec p : List K) :
    weighPt (pointTranslate vec (unweighPt p)) (p.getLastD 0) = pointTranslateW vec p := by
  unfold weighPt pointTranslate unweighPt pointTranslateW
  simp only [List.map_zipWith, List.zipWith_map_left]

/-- the swept copy: reading `ctrlpts`, translating, writing through the `ctrlpts` setter = the point map
    `pointTranslateW vec` on the stored homogeneous net (no hypothesis: the same divisions on both sides) -/
theorem sweptNet_eq (vec : List K) (Pw : List (List K)) : sweptNet vec Pw = Pw.map (pointTranslateW vec) := by
  unfold sweptNet
  rw [nSetP_net _ _ (ratObj_coherent Pw), (nGetP_spec _ (ratObj_coherent Pw)).1]
  show combine ((separate Pw).1.map (pointTranslate vec))
      (if (separate Pw).2.isEmpty then List.replicate ((separate Pw).1.map (pointTranslate vec)).length 1 else (separate Pw).2)
    = Pw.map (pointTranslateW vec)
  cases Pw with
  | nil => simp [separate, combine]
  | cons p Pw =>
    have e : (separate (p :: Pw)).2.isEmpty = false := by simp [separate]
    rw [e]
    simp only [Bool.false_eq_true, if_false, separate, combine, List.map_map, List.zipWith_map_left,
      List.zipWith_map_right, List.zipWith_self, Function.comp_def]
    apply List.map_congr_left
    intro q _
    exact weighPt_translate_unweighPt vec q

theorem homOk_map_pointTranslateW (vec : List K) (Pw : List (List K)) (h : HomOk Pw) :
    HomOk (Pw.map (pointTranslateW vec)) := by
  intro pt hpt
  simp only [List.mem_map] at hpt
  obtain ⟨q, hq, rfl⟩ := hpt
  refine ⟨by simp [pointTranslateW], ?_⟩
  have : (pointTranslateW vec q).getLastD 0 = q.getLastD 0 := by simp [pointTranslateW]
  rw [this]
  exact (h q hq).2

/-- **repaired `sweep_vector` on a rational curve**, split-and-recombine written out = `sweepCurve (pointTranslateW vec)` -/
theorem sweepCurveRat_eq (vec : List K) (kvGen : κ) (C : Crv (List K) κ) (h : HomOk C.pts) (hne : C.pts ≠ []) :
    sweepCurveRat vec kvGen C = sweepCurve (pointTranslateW vec) kvGen C := by
  unfold sweepCurveRat sweepCurve sweepCurveDeg
  rw [if_neg (by omega), sweptNet_eq]
  apply constructSurfaceRat_eq
  intro c hc
  simp only [List.mem_cons, List.not_mem_nil, or_false] at hc
  rcases hc with rfl | rfl
  · exact ⟨h, hne⟩
  · exact ⟨homOk_map_pointTranslateW vec _ h, by simpa using hne⟩

/-- **`sweep_vector` on a rational surface**, split-and-recombine written out = `sweepSurface (pointTranslateW vec)` -/
theorem sweepSurfaceRat_eq (vec : List K) (kvGen : κ) (S : Srf (List K) κ) (h : HomOk S.pts)
    (hl : S.pts.length = S.su * S.sv) (hpos : 0 < S.su * S.sv) :
    sweepSurfaceRat vec kvGen S = sweepSurface (pointTranslateW vec) kvGen S := by
  unfold sweepSurfaceRat sweepSurface
  rw [sweptNet_eq]
  apply constructVolumeRat_eq
  intro s hs
  simp only [List.mem_cons, List.not_mem_nil, or_false] at hs
  rcases hs with rfl | rfl
  · exact ⟨h, hl, hpos⟩
  · exact ⟨homOk_map_pointTranslateW vec _ h, by simpa using hl, hpos⟩

/-- positive weights on a net of `d+1`-coordinate points give `HomOk` -/
theorem homOk_of_pos (d : ℕ) (P : List (List K)) (hP : ∀ pt ∈ P, pt.length = d + 1)
    (hwt : ∀ i, i < P.length → 0 < (P.getD i []).getD d 0) : HomOk P := by
  intro pt hpt
  obtain ⟨i, hi, rfl⟩ := List.getElem_of_mem hpt
  have hl := hP _ (List.getElem_mem hi)
  refine ⟨by intro h0; rw [h0] at hl; simp at hl, ?_⟩
  have hw := hwt i hi
  rw [show P.getD i [] = P[i] from by rw [List.getD_eq_getElem?_getD, List.getElem?_eq_getElem hi]; rfl] at hw
  have e : P[i].getLastD 0 = P[i].getD d 0 := by
    rw [List.getLastD_eq_getLast?, List.getLast?_eq_getElem?, hl]
    simp [List.getD_eq_getElem?_getD]
  rw [e]
  exact ne_of_gt hw

end Geomdl
