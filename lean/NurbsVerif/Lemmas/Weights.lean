import Mathlib.Algebra.Order.Field.Basic
import Mathlib.Tactic.Ring
import Mathlib.Tactic.FieldSimp
import Mathlib.Tactic.Linarith
import NurbsVerif.Model.Weights
import NurbsVerif.Model.Eval
import NurbsVerif.Lemmas.BasisProps

/-! Lemmas about the weight handling model (C09). -/
namespace Geomdl
variable {K : Type} [Field K] [LinearOrder K] [IsStrictOrderedRing K]

/-! ### points -/

theorem unweighPt_weighPt (pt : List K) (w : K) (hw : w ≠ 0) : unweighPt (weighPt pt w) = pt := by
  unfold unweighPt weighPt
  rw [List.dropLast_concat, List.getLastD_concat, List.map_map]
  conv_rhs => rw [← List.map_id pt]
  apply List.map_congr_left
  intro a _
  simp only [Function.comp, id]
  exact mul_div_cancel_right₀ a hw

theorem last_weighPt (pt : List K) (w : K) : (weighPt pt w).getLastD 0 = w := by
  unfold weighPt; rw [List.getLastD_concat]

theorem weighPt_ne_nil (pt : List K) (w : K) : weighPt pt w ≠ [] := by
  unfold weighPt; simp

theorem eq_dropLast_concat (pt : List K) (h : pt ≠ []) : pt = pt.dropLast ++ [pt.getLastD 0] := by
  have := List.dropLast_append_getLast h
  rw [List.getLastD_eq_getLast?, List.getLast?_eq_getLast h]
  simpa using this.symm

theorem weighPt_unweighPt (ptw : List K) (h : ptw ≠ []) (hw : ptw.getLastD 0 ≠ 0) :
    weighPt (unweighPt ptw) (ptw.getLastD 0) = ptw := by
  conv_rhs => rw [eq_dropLast_concat ptw h]
  unfold unweighPt weighPt
  rw [List.map_map]
  congr 1
  conv_rhs => rw [← List.map_id ptw.dropLast]
  apply List.map_congr_left
  intro a _
  simp only [Function.comp, id]
  exact div_mul_cancel₀ a hw

theorem toUnweighted_toWeighted (cpt : List K) (h : cpt ≠ []) (hw : cpt.getLastD 0 ≠ 0) :
    toUnweighted (toWeighted cpt) = cpt := by
  conv_rhs => rw [eq_dropLast_concat cpt h]
  unfold toUnweighted toWeighted
  rw [List.dropLast_concat, List.getLastD_concat, List.map_map]
  congr 1
  conv_rhs => rw [← List.map_id cpt.dropLast]
  apply List.map_congr_left
  intro a _
  simp only [Function.comp, id]
  exact mul_div_cancel_right₀ a hw

theorem toWeighted_toUnweighted (cpt : List K) (h : cpt ≠ []) (hw : cpt.getLastD 0 ≠ 0) :
    toWeighted (toUnweighted cpt) = cpt := by
  conv_rhs => rw [eq_dropLast_concat cpt h]
  unfold toUnweighted toWeighted
  rw [List.dropLast_concat, List.getLastD_concat, List.map_map]
  congr 1
  conv_rhs => rw [← List.map_id cpt.dropLast]
  apply List.map_congr_left
  intro a _
  simp only [Function.comp, id]
  exact div_mul_cancel₀ a hw

/-! ### lists of points -/

/-- every homogeneous point has a last coordinate and it is not zero -/
def HomOk (Pw : List (List K)) : Prop := ∀ pt ∈ Pw, pt ≠ [] ∧ pt.getLastD 0 ≠ 0

theorem separate_combine' : ∀ (P : List (List K)) (w : List K), P.length = w.length →
    (∀ x ∈ w, x ≠ 0) → separate (combine P w) = (P, w)
  | [], [], _, _ => rfl
  | [], _ :: _, h, _ => by simp at h
  | _ :: _, [], h, _ => by simp at h
  | pt :: P, x :: w, h, hw => by
      have ih := separate_combine' P w (by simpa using h) (fun y hy => hw y (List.mem_cons_of_mem _ hy))
      have hx : x ≠ 0 := hw x List.mem_cons_self
      simp only [separate, combine, List.zipWith_cons_cons, List.map_cons, Prod.mk.injEq] at ih ⊢
      rw [unweighPt_weighPt pt x hx, last_weighPt, ih.1, ih.2]
      exact ⟨rfl, rfl⟩

theorem combine_separate' : ∀ (Pw : List (List K)), HomOk Pw →
    combine (separate Pw).1 (separate Pw).2 = Pw
  | [], _ => rfl
  | pt :: Pw, h => by
      have ih := combine_separate' Pw (fun q hq => h q (List.mem_cons_of_mem _ hq))
      obtain ⟨h1, h2⟩ := h pt List.mem_cons_self
      simp only [separate, combine, List.map_cons, List.zipWith_cons_cons] at ih ⊢
      rw [weighPt_unweighPt pt h1 h2, ih]

theorem netOk_combine (P : List (List K)) (w : List K) (hw : ∀ x ∈ w, x ≠ 0) : HomOk (combine P w) := by
  induction P generalizing w with
  | nil => intro pt h; simp [combine] at h
  | cons p P ih =>
    cases w with
    | nil => intro pt h; simp [combine] at h
    | cons x w =>
      intro pt h
      simp only [combine, List.zipWith_cons_cons, List.mem_cons] at h
      rcases h with h | h
      · subst h; exact ⟨weighPt_ne_nil _ _, by rw [last_weighPt]; exact hw x List.mem_cons_self⟩
      · exact ih w (fun y hy => hw y (List.mem_cons_of_mem _ hy)) pt h

theorem separate_weights_ne (Pw : List (List K)) (h : HomOk Pw) : ∀ x ∈ (separate Pw).2, x ≠ 0 := by
  intro x hx
  simp only [separate, List.mem_map] at hx
  obtain ⟨pt, hpt, rfl⟩ := hx
  exact (h pt hpt).2

theorem combine_length (P : List (List K)) (w : List K) : (combine P w).length = min P.length w.length := by
  simp [combine]

theorem separate_length (Pw : List (List K)) :
    (separate Pw).1.length = Pw.length ∧ (separate Pw).2.length = Pw.length := by
  simp [separate]

/-! ### the views state machine -/

/-- each cache is either empty or holds exactly what `separate` gives for the stored net -/
def Coherent (s : NState K) : Prop :=
  (s.cP = [] ∨ s.cP = (separate s.net).1) ∧ (s.cW = [] ∨ s.cW = (separate s.net).2)

/-- the invariant of every reachable state -/
def NInv (s : NState K) : Prop := HomOk s.net ∧ Coherent s

/-- admissible arguments: weights are non-zero, homogeneous points have a non-zero last coordinate -/
def NOpOk : NOp K → Prop
  | .setW w => ∀ x ∈ w, x ≠ 0
  | .setPw Pw => HomOk Pw
  | _ => True

theorem ninv_init : NInv (NState.init : NState K) :=
  ⟨fun pt h => by simp [NState.init] at h, Or.inl rfl, Or.inl rfl⟩

theorem nGetP_spec (s : NState K) (h : Coherent s) :
    (nGetP s).2 = (separate s.net).1 ∧ (nGetP s).1.net = s.net ∧ Coherent (nGetP s).1 := by
  unfold nGetP
  simp only []
  by_cases he : s.cP.isEmpty
  · have : (if s.cP.isEmpty = true then nFill s else s) = nFill s := by simp [he]
    rw [this]
    exact ⟨rfl, rfl, Or.inr rfl, Or.inr rfl⟩
  · have : (if s.cP.isEmpty = true then nFill s else s) = s := by simp [he]
    rw [this]
    have : s.cP ≠ [] := by simpa using he
    rcases h.1 with h1 | h1
    · exact absurd h1 this
    · exact ⟨h1, rfl, h⟩

theorem nGetW_spec (s : NState K) (h : Coherent s) :
    (nGetW s).2 = (separate s.net).2 ∧ (nGetW s).1.net = s.net ∧ Coherent (nGetW s).1 := by
  unfold nGetW
  simp only []
  by_cases he : s.cW.isEmpty
  · have : (if s.cW.isEmpty = true then nFill s else s) = nFill s := by simp [he]
    rw [this]
    exact ⟨rfl, rfl, Or.inr rfl, Or.inr rfl⟩
  · have : (if s.cW.isEmpty = true then nFill s else s) = s := by simp [he]
    rw [this]
    have : s.cW ≠ [] := by simpa using he
    rcases h.2 with h1 | h1
    · exact absurd h1 this
    · exact ⟨h1, rfl, h⟩

theorem ninv_setPw (s : NState K) (Pw : List (List K)) (h : HomOk Pw) : NInv (nSetPw s Pw) :=
  ⟨h, Or.inl rfl, Or.inl rfl⟩

theorem nSetP_net (s : NState K) (P : List (List K)) (h : Coherent s) :
    (nSetP s P).net = combine P (if (separate s.net).2.isEmpty then List.replicate P.length 1 else (separate s.net).2) := by
  unfold nSetP
  simp only [nSetPw, (nGetW_spec s h).1]

theorem ninv_setP (s : NState K) (P : List (List K)) (h : NInv s) : NInv (nSetP s P) := by
  refine ⟨?_, Or.inl rfl, Or.inl rfl⟩
  rw [nSetP_net s P h.2]
  apply netOk_combine
  split
  · intro x hx; rw [List.mem_replicate] at hx; rw [hx.2]; exact one_ne_zero
  · exact separate_weights_ne _ h.1

theorem nSetW_spec (s : NState K) (w : List K) (h : Coherent s) :
    nSetW s w = if (separate s.net).1.isEmpty then none
      else some ⟨combine (separate s.net).1 w, [], []⟩ := by
  unfold nSetW
  simp only [nSetPw, (nGetP_spec s h).1]

theorem ninv_step (s : NState K) (op : NOp K) (h : NInv s) (hop : NOpOk op) (s' : NState K) (o : NOut K)
    (hs : nStep s op = some (s', o)) : NInv s' := by
  cases op with
  | setP P => simp only [nStep, Option.some.injEq, Prod.mk.injEq] at hs; rw [← hs.1]; exact ninv_setP s P h
  | setW w =>
    simp only [nStep, nSetW_spec s w h.2] at hs
    split at hs
    · simp at hs
    · simp only [Option.map_some, Option.some.injEq, Prod.mk.injEq] at hs
      rw [← hs.1]
      exact ⟨netOk_combine _ _ hop, Or.inl rfl, Or.inl rfl⟩
  | setPw Pw => simp only [nStep, Option.some.injEq, Prod.mk.injEq] at hs; rw [← hs.1]; exact ninv_setPw s Pw hop
  | getP =>
    simp only [nStep, Option.some.injEq, Prod.mk.injEq] at hs
    rw [← hs.1]
    obtain ⟨_, h2, h3⟩ := nGetP_spec s h.2
    exact ⟨by rw [h2]; exact h.1, h3⟩
  | getW =>
    simp only [nStep, Option.some.injEq, Prod.mk.injEq] at hs
    rw [← hs.1]
    obtain ⟨_, h2, h3⟩ := nGetW_spec s h.2
    exact ⟨by rw [h2]; exact h.1, h3⟩
  | getPw => simp only [nStep, Option.some.injEq, Prod.mk.injEq] at hs; rw [← hs.1]; exact h
  | reverse =>
    simp only [nStep, Option.some.injEq, Prod.mk.injEq] at hs
    rw [← hs.1]
    exact ⟨fun pt hpt => h.1 pt (by simpa [nReverse, nSetPw] using hpt), Or.inl rfl, Or.inl rfl⟩

theorem ninv_run : ∀ (ops : List (NOp K)) (s : NState K), NInv s → (∀ op ∈ ops, NOpOk op) →
    ∀ s' outs, nRun s ops = some (s', outs) → NInv s'
  | [], s, h, _, s', outs, hr => by
      simp only [nRun, Option.some.injEq, Prod.mk.injEq] at hr; rw [← hr.1]; exact h
  | op :: ops, s, h, hok, s', outs, hr => by
      simp only [nRun] at hr
      cases hst : nStep s op with
      | none => simp [hst] at hr
      | some r =>
        obtain ⟨s1, o⟩ := r
        simp only [hst, Option.map_eq_some_iff] at hr
        obtain ⟨r2, hr2, hr3⟩ := hr
        have h1 := ninv_step s op h (hok op List.mem_cons_self) s1 o hst
        have := ninv_run ops s1 h1 (fun q hq => hok q (List.mem_cons_of_mem _ hq)) r2.1 r2.2 (by simpa using hr2)
        simp only [Prod.mk.injEq] at hr3
        rw [← hr3.1]; exact this

/-- the three views read off a state, in any order, fit together -/
theorem views_of_inv (s : NState K) (h : NInv s) :
    nGetPw s = combine (nGetP s).2 (nGetW s).2 ∧
    nGetPw (nGetW (nGetP s).1).1 = combine (nGetP s).2 (nGetW (nGetP s).1).2 ∧
    nGetPw (nGetP (nGetW s).1).1 = combine (nGetP (nGetW s).1).2 (nGetW s).2 := by
  obtain ⟨p1, p2, p3⟩ := nGetP_spec s h.2
  obtain ⟨w1, w2, w3⟩ := nGetW_spec s h.2
  obtain ⟨q1, q2, _⟩ := nGetW_spec _ p3
  obtain ⟨r1, r2, _⟩ := nGetP_spec _ w3
  have hc := combine_separate' s.net h.1
  refine ⟨?_, ?_, ?_⟩
  · rw [p1, w1]; exact hc.symm
  · rw [p1, q1, p2]; simp only [nGetPw, q2, p2]; exact hc.symm
  · rw [r1, w1, w2]; simp only [nGetPw, r2, w2]; exact hc.symm

/-! ### scaling all weights, unit weights -/

theorem weighPt_scale (pt : List K) (w c : K) : weighPt pt (c * w) = vsmul c (weighPt pt w) := by
  unfold weighPt vsmul
  simp only [List.map_append, List.map_map, List.map_cons, List.map_nil]
  congr 1
  apply List.map_congr_left
  intro a _
  simp only [Function.comp]; ring

theorem combine_scale : ∀ (P : List (List K)) (w : List K) (c : K),
    combine P (w.map (c * ·)) = (combine P w).map (vsmul c)
  | [], _, _ => by simp [combine]
  | _ :: _, [], _ => by simp [combine]
  | pt :: P, x :: w, c => by
      have ih := combine_scale P w c
      simp only [combine, List.map_cons, List.zipWith_cons_cons] at ih ⊢
      rw [weighPt_scale, ih]

theorem vadd_vsmul (c : K) (a b : List K) : vadd (vsmul c a) (vsmul c b) = vsmul c (vadd a b) := by
  unfold vadd vsmul
  induction a generalizing b with
  | nil => simp
  | cons x a ih => cases b with
    | nil => simp
    | cons y b => simp [ih b, mul_add]

theorem vsmul_vsmul_comm (c x : K) (a : List K) : vsmul x (vsmul c a) = vsmul c (vsmul x a) := by
  unfold vsmul; simp only [List.map_map]; apply List.map_congr_left; intro a _; simp only [Function.comp]; ring

theorem vsmul_vzero (c : K) (d : ℕ) : vsmul c (vzero d : List K) = vzero d := by
  unfold vsmul vzero; simp

theorem linComb_fold_smul (c : K) : ∀ (l : List (K × List K)) (acc : List K),
    (l.map (fun x => (x.1, vsmul c x.2))).foldl (fun acc x => vadd acc (vsmul x.1 x.2)) (vsmul c acc) =
    vsmul c (l.foldl (fun acc x => vadd acc (vsmul x.1 x.2)) acc)
  | [], _ => rfl
  | x :: l, acc => by
      simp only [List.map_cons, List.foldl_cons]
      rw [vsmul_vsmul_comm, vadd_vsmul]
      exact linComb_fold_smul c l _

/-- a linear combination of scaled points is the scaled linear combination -/
theorem linComb_smul (d : ℕ) (c : K) (N : List K) (pts : List (List K)) :
    linComb d N (pts.map (vsmul c)) = vsmul c (linComb d N pts) := by
  unfold linComb
  have : List.zip N (pts.map (vsmul c)) = (List.zip N pts).map (fun x => (x.1, vsmul c x.2)) := by
    rw [List.zip_map_right]; rfl
  rw [this, ← vsmul_vzero c d]
  rw [linComb_fold_smul]
  rw [vsmul_vzero]

/-- the projection to Cartesian coordinates ignores a common non-zero factor -/
theorem project_vsmul (c : K) (hc : c ≠ 0) (x : List K) : project (vsmul c x) = project x := by
  by_cases hx : x = []
  · subst hx; rfl
  · unfold project vsmul
    have hl : (x.map (c * ·)).getLastD 1 = c * x.getLastD 1 := by
      rw [List.getLastD_eq_getLast?, List.getLastD_eq_getLast?, List.getLast?_map]
      rw [List.getLast?_eq_some_getLast hx]; simp
    simp only [hl]
    rw [← List.map_dropLast, List.map_map]
    apply List.map_congr_left
    intro a _
    simp only [Function.comp]
    rw [mul_div_mul_left _ _ hc]

theorem ptsGet_map_vsmul (c : K) (P : List (List K)) (i : ℕ) :
    ptsGet (P.map (vsmul c)) i = vsmul c (ptsGet P i) := by
  unfold ptsGet
  by_cases h : i < P.length
  · simp [List.getD_eq_getElem?_getD, h]
  · simp [List.getD_eq_getElem?_getD, not_lt.mp h, vsmul]

theorem dimOf_map_vsmul (c : K) (P : List (List K)) : dimOf (P.map (vsmul c)) = dimOf P := by
  unfold dimOf
  cases P <;> simp [vsmul]

/-- curve evaluation is homogeneous in the net -/
theorem curvePoint_smul (p : ℕ) (U : ℕ → K) (P : List (List K)) (u c : K) :
    curvePoint p U (P.map (vsmul c)) u = vsmul c (curvePoint p U P u) := by
  unfold curvePoint curvePointAt
  rw [dimOf_map_vsmul, List.length_map, ← linComb_smul, List.map_map]
  congr 1
  apply List.map_congr_left
  intro i _
  simp only [Function.comp, ptsGet_map_vsmul]

/-- surface evaluation is homogeneous in the net -/
theorem surfacePoint_smul (pu pv : ℕ) (Uu Uv : ℕ → K) (su sv : ℕ) (P : List (List K)) (u v c : K) :
    surfacePoint pu pv Uu Uv su sv (P.map (vsmul c)) u v = vsmul c (surfacePoint pu pv Uu Uv su sv P u v) := by
  unfold surfacePoint surfacePointAt
  simp only [dimOf_map_vsmul]
  rw [← linComb_smul, List.map_map]
  congr 1
  apply List.map_congr_left
  intro k _
  simp only [Function.comp]
  rw [← linComb_smul, List.map_map]
  congr 1
  apply List.map_congr_left
  intro l _
  simp only [Function.comp, ptsGet_map_vsmul]

/-- volume evaluation is homogeneous in the net -/
theorem volumePoint_smul (pu pv pw : ℕ) (Uu Uv Uw : ℕ → K) (su sv sw : ℕ) (P : List (List K)) (u v w c : K) :
    volumePoint pu pv pw Uu Uv Uw su sv sw (P.map (vsmul c)) u v w =
      vsmul c (volumePoint pu pv pw Uu Uv Uw su sv sw P u v w) := by
  unfold volumePoint volumePointAt
  simp only [dimOf_map_vsmul]
  rw [← linComb_smul, List.map_map]
  congr 1
  apply List.map_congr_left
  intro a _
  simp only [Function.comp]
  rw [← linComb_smul, List.map_map]
  congr 1
  apply List.map_congr_left
  intro b _
  simp only [Function.comp]
  rw [← linComb_smul, List.map_map]
  congr 1
  apply List.map_congr_left
  intro c' _
  simp only [Function.comp, ptsGet_map_vsmul]

/-! ### round trips through the setters -/

theorem setP_roundtrip (s : NState K) (P : List (List K)) (h : NInv s)
    (hl : s.net = [] ∨ P.length = s.net.length) :
    (nGetP (nSetP s P)).2 = P ∧
    (nGetW (nSetP s P)).2 = (if s.net.isEmpty then List.replicate P.length 1 else (nGetW s).2) := by
  have hinv := ninv_setP s P h
  have hnet := nSetP_net s P h.2
  obtain ⟨p1, -, -⟩ := nGetP_spec _ hinv.2
  obtain ⟨w1, -, -⟩ := nGetW_spec _ hinv.2
  obtain ⟨w0, -, -⟩ := nGetW_spec s h.2
  rw [p1, w1, hnet, w0]
  have hlen := (separate_length s.net).2
  by_cases he : s.net = []
  · have e2 : (separate ([] : List (List K))).2 = [] := rfl
    simp only [he, e2, List.isEmpty_nil, if_true]
    have := separate_combine' P (List.replicate P.length 1) (by simp)
      (fun x hx => by rw [List.mem_replicate] at hx; rw [hx.2]; exact one_ne_zero)
    rw [this]; exact ⟨rfl, rfl⟩
  · have hl' : P.length = s.net.length := by rcases hl with hl | hl; exact absurd hl he; exact hl
    have e2 : (separate s.net).2.isEmpty = false := by
      cases hs : (separate s.net).2 with
      | nil => rw [hs] at hlen; simp at hlen; exact absurd (List.eq_nil_of_length_eq_zero hlen.symm) he
      | cons _ _ => rfl
    have e3 : s.net.isEmpty = false := by simpa using he
    simp only [e2, e3, Bool.false_eq_true, if_false]
    have := separate_combine' P (separate s.net).2 (by rw [hlen, hl']) (separate_weights_ne _ h.1)
    rw [this]; exact ⟨rfl, rfl⟩

theorem setW_roundtrip (s : NState K) (w : List K) (h : NInv s) (hne : s.net ≠ [])
    (hl : w.length = s.net.length) (hw : ∀ x ∈ w, x ≠ 0) :
    ∃ s', nSetW s w = some s' ∧ (nGetW s').2 = w ∧ (nGetP s').2 = (nGetP s).2 := by
  have hlen := (separate_length s.net).1
  have e1 : (separate s.net).1.isEmpty = false := by
    cases hs : (separate s.net).1 with
    | nil => rw [hs] at hlen; simp at hlen; exact absurd (List.eq_nil_of_length_eq_zero hlen.symm) hne
    | cons _ _ => rfl
  refine ⟨⟨combine (separate s.net).1 w, [], []⟩, ?_, ?_, ?_⟩
  · rw [nSetW_spec s w h.2]; simp [e1]
  · have hc : Coherent (⟨combine (separate s.net).1 w, [], []⟩ : NState K) := ⟨Or.inl rfl, Or.inl rfl⟩
    rw [(nGetW_spec _ hc).1]
    simp only []
    rw [separate_combine' _ w (by rw [hlen, hl]) hw]
  · have hc : Coherent (⟨combine (separate s.net).1 w, [], []⟩ : NState K) := ⟨Or.inl rfl, Or.inl rfl⟩
    rw [(nGetP_spec _ hc).1, (nGetP_spec s h.2).1]
    simp only []
    rw [separate_combine' _ w (by rw [hlen, hl]) hw]

/-! ### unit weights -/

theorem weighPt_one (pt : List K) : weighPt pt 1 = pt ++ [1] := by
  unfold weighPt; simp

theorem combineUnit_eq (P : List (List K)) : combineUnit P = P.map (· ++ [1]) := by
  unfold combineUnit combine
  induction P with
  | nil => rfl
  | cons pt P ih =>
    simp only [List.length_cons, List.replicate_succ, List.zipWith_cons_cons, List.map_cons, weighPt_one]
    rw [ih]

theorem bsplineToNurbs_eq (P : List (List K)) : bsplineToNurbs P = combineUnit P := by
  simp [bsplineToNurbs, nSetP, nGetW, NState.init, nFill, separate, nSetPw, combineUnit]

theorem vadd_len (a b : List K) : (vadd a b).length = min a.length b.length := by
  simp [vadd]

theorem linComb_fold_append1 (d : ℕ) : ∀ (N : List K) (pts : List (List K)) (acc : List K) (a : K),
    acc.length = d → (∀ pt ∈ pts, pt.length = d) → N.length = pts.length →
    (List.zip N (pts.map (· ++ [1]))).foldl (fun acc x => vadd acc (vsmul x.1 x.2)) (acc ++ [a]) =
    (List.zip N pts).foldl (fun acc x => vadd acc (vsmul x.1 x.2)) acc ++ [a + N.sum]
  | [], [], acc, a, _, _, _ => by simp
  | [], _ :: _, _, _, _, _, h => by simp at h
  | _ :: _, [], _, _, _, _, h => by simp at h
  | x :: N, pt :: pts, acc, a, hacc, hpts, hN => by
      have hpt : pt.length = d := hpts pt List.mem_cons_self
      simp only [List.map_cons, List.zip_cons_cons, List.foldl_cons, List.sum_cons]
      have e : vadd (acc ++ [a]) (vsmul x (pt ++ [1])) = vadd acc (vsmul x pt) ++ [a + x] := by
        unfold vadd vsmul
        rw [List.map_append, List.zipWith_append (by simp [hacc, hpt])]
        simp
      rw [e, linComb_fold_append1 d N pts _ _ (by rw [vadd_len]; simp [hacc, hpt, vsmul])
        (fun q hq => hpts q (List.mem_cons_of_mem _ hq)) (by simpa using hN)]
      rw [add_assoc]

/-- a linear combination of points extended by the coordinate 1 is the linear combination of the
    points, extended by the sum of the coefficients -/
theorem linComb_append1 (d : ℕ) (N : List K) (pts : List (List K)) (hpts : ∀ pt ∈ pts, pt.length = d)
    (hN : N.length = pts.length) :
    linComb (d+1) N (pts.map (· ++ [1])) = linComb d N pts ++ [N.sum] := by
  unfold linComb
  have : (vzero (d+1) : List K) = vzero d ++ [0] := by unfold vzero; rw [List.replicate_succ']
  rw [this, linComb_fold_append1 d N pts (vzero d) 0 (by simp [vzero]) hpts hN, zero_add]

theorem project_append_one (x : List K) : project (x ++ [1]) = x := by
  unfold project
  rw [List.getLastD_concat, List.dropLast_concat]
  simp

/-- A3.1 on the unit-weight net, projected, is A3.1 on the plain net -/
theorem curvePointAt_unit (p : ℕ) (U : ℕ → K) (P : List (List K)) (k : ℕ) (u : K) (d : ℕ)
    (hd : ∀ pt ∈ P, pt.length = d) (hk : k < P.length) (hpk : p ≤ k) (hs : SpanOk U k u) :
    project (curvePointAt p U (combineUnit P) k u) = curvePointAt p U P k u := by
  have hP : P ≠ [] := by intro h; rw [h] at hk; simp at hk
  unfold curvePointAt
  rw [combineUnit_eq]
  have hdim : dimOf P = d := by
    unfold dimOf
    cases P with
    | nil => exact absurd rfl hP
    | cons a P => simpa using hd a List.mem_cons_self
  have hdim1 : dimOf (P.map (· ++ [1])) = d + 1 := by
    unfold dimOf
    cases P with
    | nil => exact absurd rfl hP
    | cons a P => simpa using hd a List.mem_cons_self
  rw [hdim, hdim1]
  have hpts : (List.range (p+1)).map (fun i => ptsGet (P.map (· ++ [1])) (k - p + i)) =
      ((List.range (p+1)).map (fun i => ptsGet P (k - p + i))).map (· ++ [1]) := by
    rw [List.map_map]
    apply List.map_congr_left
    intro i hi
    have hi' : k - p + i < P.length := by rw [List.mem_range] at hi; omega
    simp [ptsGet, List.getD_eq_getElem?_getD, hi']
  rw [hpts, linComb_append1 d]
  · rw [Geomdl.basisFuns_sum p hs, project_append_one]
  · intro pt hpt
    simp only [List.mem_map, List.mem_range] at hpt
    obtain ⟨i, hi, rfl⟩ := hpt
    have hi' : k - p + i < P.length := by omega
    apply hd
    simp [ptsGet, List.getD_eq_getElem?_getD, hi']
  · simp [Blossom.basisFuns_length]

theorem linComb_fold_len (d : ℕ) : ∀ (l : List (K × List K)) (acc : List K), acc.length = d →
    (∀ x ∈ l, x.2.length = d) → (l.foldl (fun acc x => vadd acc (vsmul x.1 x.2)) acc).length = d
  | [], acc, h, _ => h
  | x :: l, acc, h, hl => by
      simp only [List.foldl_cons]
      apply linComb_fold_len d l
      · rw [vadd_len]; simp [vsmul, h, hl x List.mem_cons_self]
      · intro y hy; exact hl y (List.mem_cons_of_mem _ hy)

theorem linComb_len (d : ℕ) (N : List K) (pts : List (List K)) (hpts : ∀ pt ∈ pts, pt.length = d) :
    (linComb d N pts).length = d := by
  unfold linComb
  apply linComb_fold_len
  · simp [vzero]
  · intro x hx
    exact hpts _ (List.of_mem_zip hx).2

theorem ptsGet_append1 (P : List (List K)) (i : ℕ) (hi : i < P.length) :
    ptsGet (P.map (· ++ [1])) i = ptsGet P i ++ [1] := by
  simp [ptsGet, List.getD_eq_getElem?_getD, hi]

theorem ptsGet_len (P : List (List K)) (d i : ℕ) (hd : ∀ pt ∈ P, pt.length = d) (hi : i < P.length) :
    (ptsGet P i).length = d := by
  apply hd
  simp [ptsGet, List.getD_eq_getElem?_getD, hi]

theorem dimOf_eq_of (P : List (List K)) (d : ℕ) (hd : ∀ pt ∈ P, pt.length = d) (hP : 0 < P.length) :
    dimOf P = d ∧ dimOf (P.map (· ++ [1])) = d + 1 := by
  unfold dimOf
  cases P with
  | nil => simp at hP
  | cons a P => simpa using hd a List.mem_cons_self

theorem grid_index_lt (a b sv su : ℕ) (ha : a < sv) (hb : b < su) : a + sv * b < su * sv := by
  have h1 : sv * (b + 1) ≤ sv * su := Nat.mul_le_mul_left sv hb
  rw [Nat.mul_comm su sv]
  have : sv * (b + 1) = sv * b + sv := by ring
  omega

/-- A3.5 on the unit-weight net, projected, is A3.5 on the plain net -/
theorem surfacePointAt_unit (pu pv : ℕ) (Uu Uv : ℕ → K) (su sv : ℕ) (P : List (List K)) (ku kv : ℕ) (u v : K)
    (d : ℕ) (hd : ∀ pt ∈ P, pt.length = d) (hlen : P.length = su * sv)
    (hku : ku < su) (hkv : kv < sv) (hpu : pu ≤ ku) (hpv : pv ≤ kv) (hsu : SpanOk Uu ku u) (hsv : SpanOk Uv kv v) :
    project (surfacePointAt pu pv Uu Uv sv (combineUnit P) ku kv u v) = surfacePointAt pu pv Uu Uv sv P ku kv u v := by
  have hP : 0 < P.length := by rw [hlen]; exact Nat.mul_pos (by omega) (by omega)
  obtain ⟨hdim, hdim1⟩ := dimOf_eq_of P d hd hP
  unfold surfacePointAt
  rw [combineUnit_eq]
  simp only [hdim, hdim1]
  have hidx : ∀ k ∈ List.range (pu+1), ∀ l ∈ List.range (pv+1), kv - pv + l + sv * (ku - pu + k) < P.length := by
    intro k hk l hl
    rw [List.mem_range] at hk hl
    rw [hlen]
    exact grid_index_lt _ _ sv su (by omega) (by omega)
  have hinner : (List.range (pu+1)).map (fun k => linComb (d+1) (basisFuns pv Uv kv v)
        ((List.range (pv+1)).map (fun l => ptsGet (P.map (· ++ [1])) (kv - pv + l + sv * (ku - pu + k))))) =
      ((List.range (pu+1)).map (fun k => linComb d (basisFuns pv Uv kv v)
        ((List.range (pv+1)).map (fun l => ptsGet P (kv - pv + l + sv * (ku - pu + k)))))).map (· ++ [1]) := by
    rw [List.map_map]
    apply List.map_congr_left
    intro k hk
    have : (List.range (pv+1)).map (fun l => ptsGet (P.map (· ++ [1])) (kv - pv + l + sv * (ku - pu + k))) =
        ((List.range (pv+1)).map (fun l => ptsGet P (kv - pv + l + sv * (ku - pu + k)))).map (· ++ [1]) := by
      rw [List.map_map]
      apply List.map_congr_left
      intro l hl
      simp only [Function.comp, ptsGet_append1 P _ (hidx k hk l hl)]
    simp only [Function.comp]
    rw [this, linComb_append1 d, Geomdl.basisFuns_sum pv hsv]
    · intro pt hpt
      simp only [List.mem_map] at hpt
      obtain ⟨l, hl, rfl⟩ := hpt
      exact ptsGet_len P d _ hd (hidx k hk l hl)
    · simp [Blossom.basisFuns_length]
  rw [hinner, linComb_append1 d, Geomdl.basisFuns_sum pu hsu, project_append_one]
  · intro pt hpt
    simp only [List.mem_map] at hpt
    obtain ⟨k, hk, rfl⟩ := hpt
    apply linComb_len
    intro q hq
    simp only [List.mem_map] at hq
    obtain ⟨l, hl, rfl⟩ := hq
    exact ptsGet_len P d _ hd (hidx k hk l hl)
  · simp [Blossom.basisFuns_length]

/-- volume evaluation on the unit-weight net, projected, is volume evaluation on the plain net -/
theorem volumePointAt_unit (pu pv pw : ℕ) (Uu Uv Uw : ℕ → K) (su sv sw : ℕ) (P : List (List K))
    (ku kv kw : ℕ) (u v w : K) (d : ℕ) (hd : ∀ pt ∈ P, pt.length = d) (hlen : P.length = su * sv * sw)
    (hku : ku < su) (hkv : kv < sv) (hkw : kw < sw) (hpu : pu ≤ ku) (hpv : pv ≤ kv) (hpw : pw ≤ kw)
    (hsu : SpanOk Uu ku u) (hsv : SpanOk Uv kv v) (hsw : SpanOk Uw kw w) :
    project (volumePointAt pu pv pw Uu Uv Uw su sv (combineUnit P) ku kv kw u v w) =
      volumePointAt pu pv pw Uu Uv Uw su sv P ku kv kw u v w := by
  have hP : 0 < P.length := by
    rw [hlen]; exact Nat.mul_pos (Nat.mul_pos (by omega) (by omega)) (by omega)
  obtain ⟨hdim, hdim1⟩ := dimOf_eq_of P d hd hP
  unfold volumePointAt
  rw [combineUnit_eq]
  simp only [hdim, hdim1]
  have hidx : ∀ a ∈ List.range (pu+1), ∀ b ∈ List.range (pv+1), ∀ c ∈ List.range (pw+1),
      kv - pv + b + sv * (ku - pu + a + su * (kw - pw + c)) < P.length := by
    intro a ha b hb c hc
    rw [List.mem_range] at ha hb hc
    have h1 := grid_index_lt (ku - pu + a) (kw - pw + c) su sw (by omega) (by omega)
    have h2 := grid_index_lt (kv - pv + b) _ sv (sw * su) (by omega) h1
    have : sw * su * sv = su * sv * sw := by ring
    rw [hlen, ← this]; exact h2
  have hl3 : ∀ a ∈ List.range (pu+1), ∀ b ∈ List.range (pv+1),
      linComb (d+1) (basisFuns pw Uw kw w) ((List.range (pw+1)).map (fun c =>
        ptsGet (P.map (· ++ [1])) (kv - pv + b + sv * (ku - pu + a + su * (kw - pw + c))))) =
      linComb d (basisFuns pw Uw kw w) ((List.range (pw+1)).map (fun c =>
        ptsGet P (kv - pv + b + sv * (ku - pu + a + su * (kw - pw + c))))) ++ [1] := by
    intro a ha b hb
    have : (List.range (pw+1)).map (fun c => ptsGet (P.map (· ++ [1])) (kv - pv + b + sv * (ku - pu + a + su * (kw - pw + c)))) =
        ((List.range (pw+1)).map (fun c => ptsGet P (kv - pv + b + sv * (ku - pu + a + su * (kw - pw + c))))).map (· ++ [1]) := by
      rw [List.map_map]
      apply List.map_congr_left
      intro c hc
      simp only [Function.comp, ptsGet_append1 P _ (hidx a ha b hb c hc)]
    rw [this, linComb_append1 d, Geomdl.basisFuns_sum pw hsw]
    · intro pt hpt
      simp only [List.mem_map] at hpt
      obtain ⟨c, hc, rfl⟩ := hpt
      exact ptsGet_len P d _ hd (hidx a ha b hb c hc)
    · simp [Blossom.basisFuns_length]
  have hlen3 : ∀ a ∈ List.range (pu+1), ∀ b ∈ List.range (pv+1),
      (linComb d (basisFuns pw Uw kw w) ((List.range (pw+1)).map (fun c =>
        ptsGet P (kv - pv + b + sv * (ku - pu + a + su * (kw - pw + c)))))).length = d := by
    intro a ha b hb
    apply linComb_len
    intro q hq
    simp only [List.mem_map] at hq
    obtain ⟨c, hc, rfl⟩ := hq
    exact ptsGet_len P d _ hd (hidx a ha b hb c hc)
  have hl2 : ∀ a ∈ List.range (pu+1),
      linComb (d+1) (basisFuns pv Uv kv v) ((List.range (pv+1)).map (fun b =>
        linComb (d+1) (basisFuns pw Uw kw w) ((List.range (pw+1)).map (fun c =>
          ptsGet (P.map (· ++ [1])) (kv - pv + b + sv * (ku - pu + a + su * (kw - pw + c))))))) =
      linComb d (basisFuns pv Uv kv v) ((List.range (pv+1)).map (fun b =>
        linComb d (basisFuns pw Uw kw w) ((List.range (pw+1)).map (fun c =>
          ptsGet P (kv - pv + b + sv * (ku - pu + a + su * (kw - pw + c))))))) ++ [1] := by
    intro a ha
    have : (List.range (pv+1)).map (fun b =>
        linComb (d+1) (basisFuns pw Uw kw w) ((List.range (pw+1)).map (fun c =>
          ptsGet (P.map (· ++ [1])) (kv - pv + b + sv * (ku - pu + a + su * (kw - pw + c)))))) =
        ((List.range (pv+1)).map (fun b =>
        linComb d (basisFuns pw Uw kw w) ((List.range (pw+1)).map (fun c =>
          ptsGet P (kv - pv + b + sv * (ku - pu + a + su * (kw - pw + c))))))).map (· ++ [1]) := by
      rw [List.map_map]
      apply List.map_congr_left
      intro b hb
      simp only [Function.comp, hl3 a ha b hb]
    rw [this, linComb_append1 d, Geomdl.basisFuns_sum pv hsv]
    · intro pt hpt
      simp only [List.mem_map] at hpt
      obtain ⟨b, hb, rfl⟩ := hpt
      exact hlen3 a ha b hb
    · simp [Blossom.basisFuns_length]
  have houter : (List.range (pu+1)).map (fun a =>
        linComb (d+1) (basisFuns pv Uv kv v) ((List.range (pv+1)).map (fun b =>
          linComb (d+1) (basisFuns pw Uw kw w) ((List.range (pw+1)).map (fun c =>
            ptsGet (P.map (· ++ [1])) (kv - pv + b + sv * (ku - pu + a + su * (kw - pw + c)))))))) =
      ((List.range (pu+1)).map (fun a =>
        linComb d (basisFuns pv Uv kv v) ((List.range (pv+1)).map (fun b =>
          linComb d (basisFuns pw Uw kw w) ((List.range (pw+1)).map (fun c =>
            ptsGet P (kv - pv + b + sv * (ku - pu + a + su * (kw - pw + c))))))))).map (· ++ [1]) := by
    rw [List.map_map]
    apply List.map_congr_left
    intro a ha
    simp only [Function.comp, hl2 a ha]
  rw [houter, linComb_append1 d, Geomdl.basisFuns_sum pu hsu, project_append_one]
  · intro pt hpt
    simp only [List.mem_map] at hpt
    obtain ⟨a, ha, rfl⟩ := hpt
    apply linComb_len
    intro q hq
    simp only [List.mem_map] at hq
    obtain ⟨b, hb, rfl⟩ := hq
    exact hlen3 a ha b hb
  · simp [Blossom.basisFuns_length]

/-! ### the weighted grid -/

theorem gridWeighted_getD (G : List (List (List K))) (w : List K) (i j : ℕ) (hi : i < G.length)
    (hj : j < (G.getD i []).length) :
    ((gridWeighted G w).getD i []).getD j [] =
      weighPt ((G.getD i []).getD j []) (w.getD (j + i * (G.headD []).length) 0) := by
  simp only [List.getD_eq_getElem?_getD, hi, List.getElem?_eq_getElem, Option.getD_some] at hj ⊢
  simp [gridWeighted, List.getElem?_zipIdx, hi, hj]

theorem gridWeighted_length (G : List (List (List K))) (w : List K) :
    (gridWeighted G w).length = G.length := by simp [gridWeighted]

/-- the weights `grid` works with: ones if none were set -/
def gEff (s : GState K) : List K := if s.w.isEmpty then List.replicate s.count 1 else s.w

/-- the cache is empty or holds the weighted grid for the current weights -/
def GInv (s : GState K) : Prop := s.cache = [] ∨ s.cache = gridWeighted s.grid (gEff s)

theorem gwSet_spec (s s' : GState K) (w : List K) (h : gwSet s w = some s') :
    s' = { s with w := w, cache := [] } ∧ w.length = s.count ∧ (∀ x ∈ w, 0 < x) := by
  unfold gwSet at h
  split at h
  · simp at h
  · rename_i hc
    simp only [not_or, ne_eq, not_not, List.any_eq_true, decide_eq_true_eq, not_exists, not_and, not_le] at hc
    simp only [Option.some.injEq] at h
    exact ⟨h.symm, hc.2.1, hc.2.2⟩

theorem gwGet_spec (s : GState K) (h : GInv s) :
    (gwGet s).2 = gridWeighted s.grid (gEff s) ∧ GInv (gwGet s).1 ∧ (gwGet s).1.grid = s.grid ∧
    gEff (gwGet s).1 = gEff s := by
  have hidem : gEff (gwGet s).1 = gEff s := by
    unfold gwGet gEff GState.count
    by_cases hw : s.w.isEmpty
    · simp only [hw, if_true]
      split
      · rfl
      · rfl
    · simp [hw]
  have hval : (gwGet s).2 = gridWeighted s.grid (gEff s) := by
    unfold gwGet gEff
    by_cases hc : s.cache.isEmpty
    · simp [hc]
    · have : s.cache ≠ [] := by simpa using hc
      rcases h with h | h
      · exact absurd h this
      · simp only [hc]; exact h
  refine ⟨hval, ?_, rfl, hidem⟩
  right
  rw [hidem]
  exact hval

end Geomdl

/-! concrete inputs used by the refutations and non-vacuity examples of `Props/C09.lean` -/
namespace Geomdl.WWitness
/-- a 2 × 3 grid (rows `u = 0, 1`, columns `v = 0, 1, 2`) -/
def g23 : List (List (List Int)) := [[[0, 0, 0], [0, 1, 0], [0, 2, 0]], [[1, 0, 0], [1, 1, 0], [1, 2, 0]]]
/-- one weight per grid point, `v` varying first -/
def w6 : List Int := [1, 2, 3, 4, 5, 6]
def gs0 : GState Int := ⟨g23, [], []⟩
/-- a rational curve net with weights 1, 2, 4 -/
def net3 : List (List Int) := [[0, 0, 1], [2, 2, 2], [8, 4, 4]]
def ns0 : NState Int := ⟨net3, [], []⟩
/-- rational data over ℚ for the non-vacuity examples -/
def netQ : List (List ℚ) := [[0, 0, 1], [1, 3, 2], [2, 0, 1/2]]
end Geomdl.WWitness
