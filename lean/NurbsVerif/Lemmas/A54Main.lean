import NurbsVerif.Lemmas.A54Loop

/-! Initial work arrays of A5.4 represent the input curve; the final arrays ARE the refined curve:
    `refineA54 = fold of insertOne over X in descending order`. -/
namespace Geomdl
open Blossom
variable {K : Type} [Field K] [LinearOrder K] [IsStrictOrderedRing K]

theorem fill_right1 {α : Type} (f : ℕ → α) (d : α) (s n r : ℕ) (c0 : List α) (t : ℕ) (hlen : t < c0.length) :
    ((List.range' s n).foldl (fun c j => c.set (j + r + 1) (f j)) c0).getD t d
      = if s + (r + 1) ≤ t ∧ t < s + n + (r + 1) then f (t - (r + 1)) else c0.getD t d :=
  fill_right f d s n (r + 1) c0 t hlen

theorem fill_right1_pts (f : ℕ → List K) (s n r : ℕ) (c0 : List (List K)) (t : ℕ) (hlen : t < c0.length) :
    ptsGet ((List.range' s n).foldl (fun c j => c.set (j + r + 1) (f j)) c0) t
      = if s + (r + 1) ≤ t ∧ t < s + n + (r + 1) then f (t - (r + 1)) else ptsGet c0 t :=
  fill_right f [] s n (r + 1) c0 t hlen

theorem fill_left_pts (f : ℕ → List K) (n : ℕ) (c0 : List (List K)) (t : ℕ) (hlen : t < c0.length) :
    ptsGet ((List.range n).foldl (fun c j => c.set j (f j)) c0) t = if t < n then f t else ptsGet c0 t :=
  fill_left f [] n c0 t hlen

theorem getD_replicate_lt {α : Type} (n : ℕ) (v d : α) (t : ℕ) (h : t < n) : (List.replicate n v).getD t d = v := by
  simp [List.getD_eq_getElem?_getD, List.getElem?_replicate, h]

/-- the arrays after "Fill unchanged control points / knots" represent the input curve with all of
    `X` still to be inserted -/
theorem a54Init_rep (p d : ℕ) (U : List K) (P : List (List K)) (X : List K) (hwf : CurveWF p d U P) (hX : X ≠ [])
    (hsort : X.Pairwise (· ≤ ·)) (hdom : ∀ x ∈ X, fnOf U p ≤ x ∧ x < fnOf U P.length) :
    Rep p U P X.length (a54Init p U P X).2 (a54Init p U P X).1 U P X.length ∧
    (a54Init p U P X).2 < P.length ∧ fnOf U (a54Init p U P X).2 ≤ X.getD 0 0 ∧
    X.getD 0 0 < fnOf U ((a54Init p U P X).2 + 1) ∧
    ∀ y ∈ X, y ≤ fnOf U ((a54Init p U P X).1.i + 1) := by
  have hXl : 0 < X.length := List.length_pos_iff.mpr hX
  have hpn := hwf.pn
  have hlen := hwf.len
  have hn : P.length - 1 + 1 = P.length := by omega
  have hx0 : X.getD 0 0 ∈ X := by
    rw [List.getD_eq_getElem?_getD, List.getElem?_eq_getElem hXl]; exact List.getElem_mem _
  have hxr : X.getD (X.length - 1) 0 ∈ X := by
    rw [List.getD_eq_getElem?_getD, List.getElem?_eq_getElem (by omega)]; exact List.getElem_mem _
  have hmax : ∀ y ∈ X, y ≤ X.getD (X.length - 1) 0 := by
    intro y hy
    obtain ⟨n, hn, e⟩ := List.mem_iff_getElem.mp hy
    rw [← e, List.getD_eq_getElem?_getD, List.getElem?_eq_getElem (by omega)]
    rcases Nat.lt_or_ge n (X.length - 1) with h | h
    · exact (List.pairwise_iff_getElem.mp hsort) n (X.length - 1) hn (by omega) h
    · have : n = X.length - 1 := by omega
      subst this; exact le_refl _
  have hA := findSpanLinear_spec p (fnOf U) P.length (X.getD 0 0) hpn hwf.mono (hdom _ hx0).1
  have hB := findSpanLinear_spec p (fnOf U) P.length (X.getD (X.length - 1) 0) hpn hwf.mono (hdom _ hxr).1
  have a1 : p ≤ findSpanLinear p (fnOf U) P.length (X.getD 0 0) := hA.1
  have a2 : findSpanLinear p (fnOf U) P.length (X.getD 0 0) < P.length := hA.2.1
  have a3 : fnOf U (findSpanLinear p (fnOf U) P.length (X.getD 0 0)) ≤ X.getD 0 0 := hA.2.2.1
  have a4 : X.getD 0 0 < fnOf U (findSpanLinear p (fnOf U) P.length (X.getD 0 0) + 1) ∨
      findSpanLinear p (fnOf U) P.length (X.getD 0 0) + 1 = P.length := hA.2.2.2
  have b1 : p ≤ findSpanLinear p (fnOf U) P.length (X.getD (X.length - 1) 0) := hB.1
  have b2 : findSpanLinear p (fnOf U) P.length (X.getD (X.length - 1) 0) < P.length := hB.2.1
  have b3 : fnOf U (findSpanLinear p (fnOf U) P.length (X.getD (X.length - 1) 0)) ≤ X.getD (X.length - 1) 0 := hB.2.2.1
  have b4 : X.getD (X.length - 1) 0 < fnOf U (findSpanLinear p (fnOf U) P.length (X.getD (X.length - 1) 0) + 1) ∨
      findSpanLinear p (fnOf U) P.length (X.getD (X.length - 1) 0) + 1 = P.length := hB.2.2.2
  clear hA hB
  have a4' : X.getD 0 0 < fnOf U (findSpanLinear p (fnOf U) P.length (X.getD 0 0) + 1) := by
    rcases a4 with h | h
    · exact h
    · rw [h]; exact (hdom _ hx0).2
  have b4' : X.getD (X.length - 1) 0 < fnOf U (findSpanLinear p (fnOf U) P.length (X.getD (X.length - 1) 0) + 1) := by
    rcases b4 with h | h
    · exact h
    · rw [h]; exact (hdom _ hxr).2
  have hab : findSpanLinear p (fnOf U) P.length (X.getD 0 0) ≤ findSpanLinear p (fnOf U) P.length (X.getD (X.length - 1) 0) := by
    by_contra hc
    have h1 : fnOf U (findSpanLinear p (fnOf U) P.length (X.getD (X.length - 1) 0) + 1)
        ≤ fnOf U (findSpanLinear p (fnOf U) P.length (X.getD 0 0)) := hwf.mono (by omega)
    have h2 := hmax _ hx0
    exact absurd (lt_of_lt_of_le b4' (le_trans h1 (le_trans a3 h2))) (lt_irrefl _)
  simp only [a54Init, hn]
  set a := findSpanLinear p (fnOf U) P.length (X.getD 0 0) with ha
  set b0 := findSpanLinear p (fnOf U) P.length (X.getD (X.length - 1) 0) with hb0
  have hkv1len : ((List.range (a + 1)).foldl (fun c j => c.set j (fnOf U j))
      (List.replicate (P.length - 1 + p + 1 + (X.length - 1) + 2) (0:K))).length = U.length + X.length := by
    rw [foldl_set_length (fun j => j) (fun _ j => fnOf U j)]; simp; omega
  have hcp1len : ((List.range (a - p + 1)).foldl (fun c j => c.set j (ptsGet P j))
      (List.replicate (P.length - 1 + (X.length - 1) + 2) ([] : List K))).length = P.length + X.length := by
    rw [foldl_set_length (fun j => j) (fun _ j => ptsGet P j)]; simp; omega
  refine ⟨⟨by simp only; omega, le_refl _, ?_, ?_, rfl, rfl, ?_, ?_, ?_, ?_, fun _ _ => rfl, fun _ _ => rfl,
    by simp only; omega, by simp only; omega, a1, hlen⟩, a2, a3, a4', ?_⟩
  · rw [foldl_set_length (fun j => j + (X.length - 1) + 1) (fun _ j => fnOf U j), hkv1len]
  · rw [foldl_set_length (fun j => j + (X.length - 1) + 1) (fun _ j => ptsGet P j), hcp1len]
  · intro t ht1 ht2
    simp only at ht1 ⊢
    rw [fill_right1 _ _ _ _ _ _ _ (by rw [hkv1len]; exact ht2), if_pos (by omega)]
    congr 1; omega
  · intro t ht
    simp only
    rw [fill_right1 _ _ _ _ _ _ _ (by rw [hkv1len]; omega), if_neg (by omega),
      fill_left _ _ _ _ _ (by simp; omega), if_pos (by omega)]
  · intro t ht1 ht2
    simp only at ht1 ⊢
    rw [fill_right1_pts _ _ _ _ _ _ (by rw [hcp1len]; exact ht2), if_pos (by omega)]
    congr 1; omega
  · intro t ht
    simp only
    rw [fill_right1_pts _ _ _ _ _ _ (by rw [hcp1len]; omega), if_neg (by omega),
      fill_left_pts _ _ _ _ (by simp; omega), if_pos (by omega)]
  · intro y hy
    have : b0 + 1 + p - 1 + 1 = b0 + 1 + p := by omega
    rw [this]
    exact le_trans (hmax y hy) (le_trans (le_of_lt b4') (hwf.mono (by omega)))

/-- with no knot left and the gap closed (`i = a`) the work arrays are the represented curve -/
theorem rep_final (p : ℕ) (U : List K) (P : List (List K)) (nX a : ℕ) (st : A54St K) (V : List K) (Q : List (List K))
    (h : Rep p U P nX a st V Q 0) (hi : st.i = a) : st.kv = V ∧ st.cp = Q := by
  have hk := h.hk; have hVl := h.Vlen; have hQl := h.Qlen
  constructor
  · apply list_ext_getD _ _ (0:K) (by rw [h.kvlen]; omega)
    intro t ht
    rw [h.kvlen] at ht
    have e : V.getD t 0 = fnOf V t := by
      rw [fnOf_lt_length V t (by omega), List.getD_eq_getElem?_getD, List.getElem?_eq_getElem (by omega)]; rfl
    rw [e]
    by_cases c : t ≤ a
    · rw [h.kvL t c, h.VU t (by omega)]
    · rw [h.kvR t (by omega) ht]; rfl
  · apply list_ext_getD _ _ ([] : List K) (by rw [h.cplen]; omega)
    intro t ht
    rw [h.cplen] at ht
    by_cases c : t + p < a
    · exact (h.cpL t c).trans (h.QP t (by omega)).symm
    · exact h.cpR t (by omega) ht

/-- **A5.4 as coded is the fold of single library insertions over `X` in DESCENDING order**
    (knot vector and control points), for a well-formed curve, a sorted list `X` inside `[U_p, U_n)`,
    tolerance-separated knots and final multiplicities `≤ p`. -/
theorem refineA54_eq_desc_fold (p d : ℕ) (U : List K) (P : List (List K)) (X : List K) (tol : K)
    (hwf : CurveWF p d U P) (hX : X ≠ []) (hsort : X.Pairwise (· ≤ ·))
    (hdom : ∀ x ∈ X, fnOf U p ≤ x ∧ x < fnOf U P.length) (h0 : 0 ≤ tol) (hsep : SepBy tol (U ++ X))
    (hcnt : ∀ x ∈ X, U.count x + X.count x ≤ p) :
    refineA54 p U P X tol = X.reverse.foldl (insertOne p tol) (U, P) := by
  obtain ⟨i1, i2, i3, i4, i5⟩ := a54Init_rep p d U P X hwf hX hsort hdom
  have hok : RefineOk p tol (U, P) X.reverse :=
    refineOk_of_counts p d tol h0 (U ++ X) hsep X.reverse (U, P) hwf (fun a ha => by simp [ha])
      (fun a ha => by simp [List.mem_reverse.mp ha]) (fun x hx => hdom x (List.mem_reverse.mp hx))
      (fun x hx => by rw [List.count_reverse]; exact hcnt x (List.mem_reverse.mp hx))
  have hXl : 0 < X.length := List.length_pos_iff.mpr hX
  obtain ⟨r1, r2⟩ := a54Loop_rep p d U P X (a54Init p U P X).2 tol (U.length + 1) hwf.mono i2 h0 (U ++ X) hsep
    (fun y hy => by simp [hy]) hsort
    (fun x hx => ⟨le_trans i3 (mem_take_le_first X hsort x hx), (hdom x hx).2⟩) i4 (by omega)
    X.length (a54Init p U P X).1 U P (le_refl _) i1 hwf (by rw [List.take_length]; exact hok)
    (fun y hy => by simp [hy]) (fun y hy => by rw [List.take_length] at hy; exact i5 y hy)
  rw [List.take_length] at r1
  obtain ⟨e1, e2⟩ := rep_final p U P X.length _ _ _ _ r1 (r2 (by omega))
  unfold refineA54
  simp only
  rw [e1, e2]
where
  mem_take_le_first (X : List K) (hsort : X.Pairwise (· ≤ ·)) (x : K) (hx : x ∈ X) : X.getD 0 0 ≤ x := by
    obtain ⟨n, hn, e⟩ := List.mem_iff_getElem.mp hx
    rw [← e, List.getD_eq_getElem?_getD, List.getElem?_eq_getElem (by omega)]
    rcases Nat.eq_zero_or_pos n with h | h
    · subst h; exact le_refl _
    · exact (List.pairwise_iff_getElem.mp hsort) 0 n (by omega) hn h

end Geomdl
