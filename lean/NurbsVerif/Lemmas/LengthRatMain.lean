import NurbsVerif.Lemmas.LengthRatCut
import NurbsVerif.Lemmas.LengthSamples
import NurbsVerif.Lemmas.AssembleHull

/-!
  C18, length bounds for RATIONAL curves, part 2: the polyline through the PROJECTED points of a NURBS
  curve (positive weights) at increasing parameters is not longer than the PROJECTED control polygon
  (the polygon of the Cartesian control points `P_i = Pw_i / w_i`), and the statements for the sampled
  points `curveGrid true …` (`evalpts` of a rational curve), i.e. for `operations.length_curve`.

  Route, as in the non-rational case: insert every sample parameter up to multiplicity `p` into the
  homogeneous curve (`refine_all` at dimension `d+1`).  The homogeneous curve is unchanged
  (`insert_sequence_preserves_curve`), hence so is its projection; the projected refined polygon is
  not longer and its weights stay positive (`insert_sequence_polygon_le_rat`); every homogeneous sample is
  a vertex of the refined homogeneous polygon (`curvePoint_of_block`), so every projected sample is a
  vertex of the projected refined polygon, in order; sub-polygon `≤` polygon (`polyline_sublist_le`).
-/
namespace Geomdl
open Blossom Finset
variable {K : Type} [Field K] [LinearOrder K] [IsStrictOrderedRing K]

/-- **The polyline through the projected points of a rational curve at increasing parameters is not
    longer than the projected control polygon** (degree `≥ 1`, all weights positive, parameters in the
    closed domain; the right end of the domain may be among them if the curve is clamped there). -/
theorem curve_polyline_le_polygon_rat {N : List K → K} {d : ℕ} (hN : IsSeminorm d N) (p : ℕ) (hp : 1 ≤ p)
    (Ul : List K) (Pw : List (List K)) (hC : CurveWF p (d + 1) Ul Pw) (hw : WtPos d Pw)
    (us : List K) (hsorted : us.Pairwise (· < ·))
    (hdom : ∀ u ∈ us, fnOf Ul p ≤ u ∧ u ≤ fnOf Ul Pw.length)
    (hend : fnOf Ul Pw.length ∈ us → ∀ i, Pw.length ≤ i → i < Pw.length + p → fnOf Ul i = fnOf Ul Pw.length) :
    polylineLength (distN N) (us.map (fun u => project (curvePoint p (fnOf Ul) Pw u)))
      ≤ polylineLength (distN N) (Pw.map project) := by
  obtain ⟨st', hr, hb⟩ := refine_all p (d + 1) us (Ul, Pw) hC (by
    intro u hu
    refine ⟨(hdom u hu).1, (hdom u hu).2, ?_⟩
    intro he
    simp only [] at he
    refine ⟨Pw.length, fun a ha => ?_⟩
    rw [he]
    exact hend (he ▸ hu) _ (by omega) (by omega))
  obtain ⟨hwf, e1, e2, _⟩ := hr.inherit hC
  simp only [] at e1 e2
  have hlen : polylineLength (distN N) (st'.2.map project) ≤ polylineLength (distN N) (Pw.map project) := by
    obtain ⟨reqs, hok, rfl⟩ := hr
    exact (insert_sequence_polygon_le_rat hN p reqs (Ul, Pw) hC hw hok).2
  -- the projected samples are vertices of the projected refined polygon
  have hpts : us.map (fun u => project (curvePoint p (fnOf Ul) Pw u))
      = (us.map (sampleIdx p (fnOf st'.1) st'.2.length)).map (fun i => ptsGet (st'.2.map project) (i - 0)) := by
    rw [List.map_map]
    apply List.map_congr_left
    intro u hu
    obtain ⟨d1, d2⟩ := hdom u hu
    have hsame : curvePoint p (fnOf Ul) Pw u = curvePoint p (fnOf st'.1) st'.2 u := by
      apply vec_ext_getD
      · rw [curvePoint_length p _ Pw u (d + 1) hC.pn hC.net, curvePoint_length p _ st'.2 u (d + 1) hwf.pn hwf.net]
      · intro j _
        obtain ⟨reqs, hok, rfl⟩ := hr
        exact (insert_sequence_preserves_curve p (d + 1) reqs (Ul, Pw) hC hok u d1 d2 j).symm
    obtain ⟨c1, c2⟩ := curvePoint_of_block p (d + 1) st'.1 st'.2 hwf u (by rw [e1]; exact d1) (by rw [e2]; exact d2)
      (hb u hu)
    simp only [Function.comp, Nat.sub_zero]
    rw [hsame, ptsGet_map_project _ _ c2, c1]
  rw [hpts]
  refine le_trans (polyline_sublist_le hN (map_ptsGet_sublist (st'.2.map project) 0 _ ?_ ?_)
    (netOk_map_project d st'.2 hwf.net)) hlen
  · rw [List.pairwise_map]
    refine hsorted.imp_of_mem ?_
    intro a b ha hb' hab
    exact sampleIdx_lt p hp _ _ hwf.mono hwf.pn a b (by rw [e1]; exact (hdom a ha).1) hab
      (by rw [e2]; exact (hdom b hb').2) (hb b hb')
  · intro i hi
    obtain ⟨u, hu, rfl⟩ := List.mem_map.mp hi
    obtain ⟨d1, d2⟩ := hdom u hu
    have := (curvePoint_of_block p (d + 1) st'.1 st'.2 hwf u (by rw [e1]; exact d1) (by rw [e2]; exact d2) (hb u hu)).2
    rw [List.length_map]
    omega

/-- the weight of every evaluated homogeneous point is positive (what `project` divides by), every
    parameter of the closed domain -/
theorem curvePoint_weight_pos_wf (p d : ℕ) (Ul : List K) (Pw : List (List K)) (hC : CurveWF p (d + 1) Ul Pw)
    (hw : WtPos d Pw) (u : K) (h1 : fnOf Ul p ≤ u) (h2 : u ≤ fnOf Ul Pw.length) :
    0 < (curvePoint p (fnOf Ul) Pw u).getD d 0 := by
  obtain ⟨_, hpk, hk⟩ := findSpanLinear_dom hC.knotsOk u h1 h2
  exact (curvePoint_rational_in_hull p (fnOf Ul) Pw u d hC.knotsOk hC.net h1 h2
    (fun r hr => hw _ (by omega)) (fun _ => 0) 0 0 (by intro r _; simp) (by intro r _; simp)).1

/-! ### the sampled points of a rational curve -/

omit [IsStrictOrderedRing K] in
theorem curveGrid_true (p : ℕ) (U : ℕ → K) (P : List (List K)) (ks : List K) :
    curveGrid true p U P ks = ks.map (fun u => project (curvePoint p U P u)) := by
  simp [curveGrid, projIf]

/-- the sampled (projected) points of a well-formed rational curve all have `d` coordinates -/
theorem curveGrid_true_netOk (p d : ℕ) (Ul : List K) (Pw : List (List K)) (hC : CurveWF p (d + 1) Ul Pw) (ks : List K) :
    NetOk d (curveGrid true p (fnOf Ul) Pw ks) := by
  rw [curveGrid_true]
  intro pt hpt
  obtain ⟨u, _, rfl⟩ := List.mem_map.mp hpt
  exact project_length _ d (curvePoint_length p _ Pw u (d + 1) hC.pn hC.net)

/-- **`length_curve` of a rational curve is at least the chord between the first and the last sampled
    (projected) point** (any non-empty parameter list) -/
theorem curveLength_ge_sample_chord_rat {N : List K → K} {d : ℕ} (hN : IsSeminorm d N) (p : ℕ) (Ul : List K)
    (Pw : List (List K)) (hC : CurveWF p (d + 1) Ul Pw) (ks : List K) (hne : ks ≠ []) :
    N (vsub (project (curvePoint p (fnOf Ul) Pw (ks.getD (ks.length - 1) 0)))
        (project (curvePoint p (fnOf Ul) Pw (ks.getD 0 0))))
      ≤ curveLength (distN N) true p (fnOf Ul) Pw ks := by
  have hpos : 0 < ks.length := List.length_pos_iff.mpr hne
  have h := polyline_ge_chord hN (curveGrid true p (fnOf Ul) Pw ks)
    (by rw [curveGrid_true]; simpa using hne) (curveGrid_true_netOk p d Ul Pw hC ks)
  rw [curveGrid_true, List.length_map, ptsGet_map_params _ _ _ (by omega), ptsGet_map_params _ _ _ hpos,
    ← curveGrid_true] at h
  exact h

/-- **the approximate length of a clamped rational curve is at least its end-to-end chord** (between the
    first and the last Cartesian control point), when the first sample parameter is `U_p` and the last
    one `U_n` -/
theorem curveLength_ge_chord_rat {N : List K → K} {d : ℕ} (hN : IsSeminorm d N) (p : ℕ) (Ul : List K)
    (Pw : List (List K)) (hC : CurveWF p (d + 1) Ul Pw) (hcl : ClampedOk p (fnOf Ul) Pw.length) (ks : List K)
    (hne : ks ≠ []) (hfirst : ks.getD 0 0 = fnOf Ul p) (hlast : ks.getD (ks.length - 1) 0 = fnOf Ul Pw.length) :
    N (vsub (project (ptsGet Pw (Pw.length - 1))) (project (ptsGet Pw 0)))
      ≤ curveLength (distN N) true p (fnOf Ul) Pw ks := by
  have h := curveLength_ge_sample_chord_rat hN p Ul Pw hC ks hne
  have hpn := hC.pn
  have e0 : curvePoint p (fnOf Ul) Pw (fnOf Ul p) = ptsGet Pw 0 := by
    apply vec_ext_getD
    · rw [curvePoint_length p _ Pw _ (d + 1) hC.pn hC.net, ptsGet_length hC.net _ (by omega)]
    · intro j _
      exact curvePoint_start p (fnOf Ul) Pw (d + 1) j hC.mono hC.pn hC.net hcl.first hcl.start
  have e1 : curvePoint p (fnOf Ul) Pw (fnOf Ul Pw.length) = ptsGet Pw (Pw.length - 1) := by
    apply vec_ext_getD
    · rw [curvePoint_length p _ Pw _ (d + 1) hC.pn hC.net, ptsGet_length hC.net _ (by omega)]
    · intro j _
      exact curvePoint_end p (fnOf Ul) Pw (d + 1) j hC.knotsOk hC.net hcl.stop
  rw [hfirst, hlast, e0, e1] at h
  exact h

/-- **`length_curve` of a rational curve is at most the length of the projected control polygon**, for
    every strictly increasing list of sample parameters of the closed domain -/
theorem curveLength_le_polygon_rat {N : List K → K} {d : ℕ} (hN : IsSeminorm d N) (p : ℕ) (hp : 1 ≤ p)
    (Ul : List K) (Pw : List (List K)) (hC : CurveWF p (d + 1) Ul Pw) (hw : WtPos d Pw)
    (ks : List K) (hsorted : ks.Pairwise (· < ·))
    (hdom : ∀ u ∈ ks, fnOf Ul p ≤ u ∧ u ≤ fnOf Ul Pw.length)
    (hend : fnOf Ul Pw.length ∈ ks → ∀ i, Pw.length ≤ i → i < Pw.length + p → fnOf Ul i = fnOf Ul Pw.length) :
    curveLength (distN N) true p (fnOf Ul) Pw ks ≤ polylineLength (distN N) (Pw.map project) := by
  unfold curveLength
  rw [curveGrid_true]
  exact curve_polyline_le_polygon_rat hN p hp Ul Pw hC hw ks hsorted hdom hend

/-! ### the library's sample parameters: `linspace(U_p, U_n, sample_size)` -/

/-- all values of `linspace(a, b, num)` lie in `[a, b]` (`a < b`; every sample size, every tolerance) -/
theorem linspace_mem_bounds (a b : K) (num : ℕ) (tol : K) (hab : a < b) (u : K) (hu : u ∈ linspace a b num tol) :
    a ≤ u ∧ u ≤ b := by
  by_cases hcore : tol < |a - b| ∧ 2 ≤ num
  · rw [linspace_eq_core _ _ _ _ hcore.1 hcore.2] at hu
    exact linspaceCore_mem_bounds a b num hab hcore.2 u hu
  · rw [linspace_degenerate _ _ _ _ (by
      by_cases h1 : tol < |a - b|
      · right; have : ¬ 2 ≤ num := fun h => hcore ⟨h1, h⟩
        omega
      · left; exact not_lt.mp h1)] at hu
    rw [List.mem_singleton] at hu
    subst hu
    exact ⟨le_refl _, le_of_lt hab⟩

/-- every homogeneous point that `evaluate` of a rational curve with positive weights projects has a
    positive weight: the division in `project` is never by zero at the `linspace` samples -/
theorem length_curve_samples_weight_pos (p d : ℕ) (Ul : List K) (Pw : List (List K)) (hC : CurveWF p (d + 1) Ul Pw)
    (hw : WtPos d Pw) (num : ℕ) (tol : K) (u : K) (hu : u ∈ linspace (fnOf Ul p) (fnOf Ul Pw.length) num tol) :
    0 < (curvePoint p (fnOf Ul) Pw u).getD d 0 := by
  have hpn := hC.pn
  have hab : fnOf Ul p < fnOf Ul Pw.length := lt_of_le_of_lt (hC.mono (by omega)) hC.last
  obtain ⟨h1, h2⟩ := linspace_mem_bounds _ _ num tol hab u hu
  exact curvePoint_weight_pos_wf p d Ul Pw hC hw u h1 h2

/-- **`operations.length_curve` of a rational curve never exceeds the length of the projected control
    polygon**: samples at `linspace(U_p, U_n, num)` (any sample size, any tolerance constant), degree
    `≥ 1`, all weights positive, clamped at the end -/
theorem length_curve_le_polygon_rat {N : List K → K} {d : ℕ} (hN : IsSeminorm d N) (p : ℕ) (hp : 1 ≤ p)
    (Ul : List K) (Pw : List (List K)) (hC : CurveWF p (d + 1) Ul Pw) (hw : WtPos d Pw)
    (hend : ∀ i, Pw.length ≤ i → i < Pw.length + p → fnOf Ul i = fnOf Ul Pw.length) (num : ℕ) (tol : K) :
    curveLength (distN N) true p (fnOf Ul) Pw (linspace (fnOf Ul p) (fnOf Ul Pw.length) num tol)
      ≤ polylineLength (distN N) (Pw.map project) := by
  have hpn := hC.pn
  have hab : fnOf Ul p < fnOf Ul Pw.length := lt_of_le_of_lt (hC.mono (by omega)) hC.last
  by_cases hcore : tol < |fnOf Ul p - fnOf Ul Pw.length| ∧ 2 ≤ num
  · rw [linspace_eq_core _ _ _ _ hcore.1 hcore.2]
    exact curveLength_le_polygon_rat hN p hp Ul Pw hC hw _ (linspaceCore_sorted _ _ _ hab)
      (linspaceCore_mem_bounds _ _ _ hab hcore.2) (fun _ => hend)
  · rw [linspace_degenerate _ _ _ _ (by
      by_cases h1 : tol < |fnOf Ul p - fnOf Ul Pw.length|
      · right; have : ¬ 2 ≤ num := fun h => hcore ⟨h1, h⟩
        omega
      · left; exact not_lt.mp h1)]
    unfold curveLength
    rw [curveGrid_true, List.map_singleton, polylineLength_single]
    exact polylineLength_nonneg hN _ (netOk_map_project d Pw hC.net)

/-- **`operations.length_curve` of a rational curve is never less than the end-to-end chord** (between the
    first and the last Cartesian control point) of a curve clamped at both ends, when at least two
    samples are taken -/
theorem length_curve_ge_chord_rat {N : List K → K} {d : ℕ} (hN : IsSeminorm d N) (p : ℕ)
    (Ul : List K) (Pw : List (List K)) (hC : CurveWF p (d + 1) Ul Pw) (hcl : ClampedOk p (fnOf Ul) Pw.length)
    (num : ℕ) (hnum : 2 ≤ num) (tol : K) (htol : tol < |fnOf Ul p - fnOf Ul Pw.length|) :
    N (vsub (project (ptsGet Pw (Pw.length - 1))) (project (ptsGet Pw 0)))
      ≤ curveLength (distN N) true p (fnOf Ul) Pw (linspace (fnOf Ul p) (fnOf Ul Pw.length) num tol) := by
  rw [linspace_eq_core _ _ _ _ htol hnum]
  apply curveLength_ge_chord_rat hN p Ul Pw hC hcl
  · intro h
    have := congrArg List.length h
    rw [linspaceCore_length] at this
    simp at this; omega
  · exact linspaceCore_first _ _ _ (by omega)
  · rw [linspaceCore_length]; exact linspaceCore_last _ _ _ hnum

end Geomdl
