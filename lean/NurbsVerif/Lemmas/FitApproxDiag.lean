import NurbsVerif.Lemmas.FitKnots2Span
import NurbsVerif.Lemmas.FitDiag
import NurbsVerif.Lemmas.FitASurfLsqEval

/-! Schoenberg–Whitney direction for the least-squares approximation: with the knot vector of `compute_knot_vector2`
    and parameters that run strictly increasing from 0 to 1, every interior basis function is positive at some
    interior parameter – the matrix `N` of `approximate_curve` / of a pass of `approximate_surface` has no zero
    column, and `NᵀN` has a positive diagonal (necessary for `lu_solve` to succeed; positive definiteness is not
    proved). -/
namespace Geomdl
open Blossom Finset Lin
variable {K : Type} [Field K] [LinearOrder K] [IsStrictOrderedRing K]

/-- the knots `U_p < … < U_n` of a `ClampedKnots` list are strictly increasing -/
theorem ClampedKnots.strictMono {p n : ℕ} {kv : List K} (h : ClampedKnots p n kv) :
    ∀ a b, p ≤ a → a < b → b ≤ n → fnOf kv a < fnOf kv b := by
  intro a b ha hab hb
  induction b with
  | zero => omega
  | succ b ih =>
    rcases Nat.eq_or_lt_of_le (Nat.lt_succ_iff.mp hab) with e | e
    · subst e; exact h.strict a ha (by omega)
    · exact lt_trans (ih e (by omega)) (h.strict b (by omega) (by omega))

/-- **every interior basis function is positive at an interior parameter** (`compute_knot_vector2`, parameters that
    run strictly increasing from 0 to 1, at least three control points) -/
theorem kv2_column_pos (p nd nc : ℕ) (uk : List K) (fl : K → ℕ) (hfl : IsFloor fl)
    (hp : 1 ≤ p) (hpn : p + 1 ≤ nc) (hnc3 : 3 ≤ nc) (hnd : nc ≤ nd) (hlen : uk.length = nd)
    (hfirst : uk.getD 0 0 = 0) (hlast : uk.getD (nd - 1) 0 = 1)
    (hstrict : ∀ i j, i < j → j < nd → uk.getD i 0 < uk.getD j 0) (j : ℕ) (hj1 : 1 ≤ j) (hj2 : j + 1 < nc) :
    ∃ k, 1 ≤ k ∧ k + 1 < nd ∧
      0 < basisFunOne p (fnOf (computeKnotVector2 p nd nc uk fl)) (computeKnotVector2 p nd nc uk fl).length j
            (uk.getD k 0) := by
  have hC := computeKnotVector2_clampedKnots hfl uk nd hstrict p nc hp hpn hnd hlen hfirst hlast
  obtain ⟨_, _, hB⟩ := kv2_line_ok p nd nc uk fl hfl hp hpn hnd hlen hfirst hlast hstrict
  set U := fnOf (computeKnotVector2 p nd nc uk fl) with hU
  have hmU : Monotone U := hC.mono
  have hz : ∀ a, a ≤ p → U a = 0 := hC.zeros
  have ho : ∀ a, nc ≤ a → U a = 1 := hC.ones
  -- a parameter strictly between 0 and 1 is an interior parameter
  have hinterior : ∀ k, k < nd → 0 < uk.getD k 0 → uk.getD k 0 < 1 → 1 ≤ k ∧ k + 1 < nd := by
    intro k hk h0 h1
    constructor
    · rcases Nat.eq_zero_or_pos k with e | e
      · rw [e, hfirst] at h0; exact absurd h0 (lt_irrefl _)
      · exact e
    · by_contra hc
      have : k = nd - 1 := by omega
      rw [this, hlast] at h1
      exact absurd h1 (lt_irrefl _)
  have hUle1 : ∀ a, U a ≤ 1 := by
    intro a
    have := hmU (Nat.le_max_left a nc)
    rwa [ho _ (Nat.le_max_right a nc)] at this
  have hU0 : ∀ a, 0 ≤ U a := by
    intro a
    have := hmU (Nat.zero_le a)
    rwa [hz 0 (by omega)] at this
  by_cases c1 : j + p + 1 ≤ nc
  · -- the span `[U_{j+p}, U_{j+p+1})` lies in the support and contains a parameter
    obtain ⟨k, hk, g1, g2⟩ := computeKnotVector2_span_has_param p nd nc uk fl hfl hp hpn hnd hlen hfirst hlast hstrict
      (j + p) (by omega) (by omega)
    have hpos : 0 < uk.getD k 0 := by
      have h1 : U (p + 1) ≤ U (j + p) := hmU (by omega)
      have := (hC.ends hpn).1
      exact lt_of_lt_of_le this (le_trans h1 g1)
    have hlt1 : uk.getD k 0 < 1 := lt_of_lt_of_le g2 (hUle1 _)
    obtain ⟨k1, k2⟩ := hinterior k hk hpos hlt1
    refine ⟨k, k1, k2, ?_⟩
    rw [hB k k1 k2 j]
    exact cdb_pos U hmU _ p j (le_trans (hmU (by omega)) g1) g2 (Or.inr g1)
  · by_cases c2 : p + 2 ≤ nc
    · -- the last span `[U_{nc−1}, 1)` lies in the support and contains a parameter
      obtain ⟨k, hk, g1, g2⟩ := computeKnotVector2_span_has_param p nd nc uk fl hfl hp hpn hnd hlen hfirst hlast hstrict
        (nc - 1) (by omega) (by omega)
      replace g1 : U (nc - 1) ≤ uk.getD k 0 := g1
      replace g2 : uk.getD k 0 < U (nc - 1 + 1) := g2
      rw [show nc - 1 + 1 = nc by omega, ho nc le_rfl] at g2
      have hUlast : 0 < U (nc - 1) := (hC.interior (nc - 1) (by omega) (by omega)).1
      have hpos : 0 < uk.getD k 0 := lt_of_lt_of_le hUlast g1
      obtain ⟨k1, k2⟩ := hinterior k hk hpos g2
      refine ⟨k, k1, k2, ?_⟩
      rw [hB k k1 k2 j]
      have hjlt : U j < U (nc - 1) := by
        by_cases cj : p ≤ j
        · exact hC.strictMono j (nc - 1) cj (by omega) (by omega)
        · rw [hz j (by omega)]; exact hUlast
      apply cdb_pos U hmU _ p j (le_trans (le_of_lt hjlt) g1) _ (Or.inl (lt_of_lt_of_le hjlt g1))
      rw [ho (j + p + 1) (by omega)]; exact g2
    · -- a single span (`nc = p + 1`): every interior parameter will do
      have h0 : 0 < uk.getD 1 0 := by
        have := hstrict 0 1 (by omega) (by omega); rwa [hfirst] at this
      have h1 : uk.getD 1 0 < 1 := by
        have := hstrict 1 (nd - 1) (by omega) (by omega); rwa [hlast] at this
      refine ⟨1, le_rfl, by omega, ?_⟩
      rw [hB 1 le_rfl (by omega) j]
      apply cdb_pos U hmU _ p j
      · rw [hz j (by omega)]; exact le_of_lt h0
      · rw [ho (j + p + 1) (by omega)]; exact h1
      · left; rw [hz j (by omega)]; exact h0

/-- **`NᵀN` of a least-squares pass has a positive diagonal** (matrix `N` as built by `approximate_curve` /
    `approximate_surface`: rows = interior data points, columns = interior basis functions, entries by
    `basis_function_one`) -/
theorem kv2_normal_diag_pos (p nd nc : ℕ) (uk : List K) (fl : K → ℕ) (hfl : IsFloor fl)
    (hp : 1 ≤ p) (hpn : p + 1 ≤ nc) (hnc3 : 3 ≤ nc) (hnd : nc ≤ nd) (hlen : uk.length = nd)
    (hfirst : uk.getD 0 0 = 0) (hlast : uk.getD (nd - 1) 0 = 1)
    (hstrict : ∀ i j, i < j → j < nd → uk.getD i 0 < uk.getD j 0) (i : ℕ) (hi : i < nc - 2) :
    0 < ent (matrixMultiply
          (matrixTranspose (apxN p (fnOf (computeKnotVector2 p nd nc uk fl)) (computeKnotVector2 p nd nc uk fl).length uk nd nc))
          (apxN p (fnOf (computeKnotVector2 p nd nc uk fl)) (computeKnotVector2 p nd nc uk fl).length uk nd nc)) i i := by
  obtain ⟨k, k1, k2, hpos⟩ := kv2_column_pos p nd nc uk fl hfl hp hpn hnc3 hnd hlen hfirst hlast hstrict (1 + i)
    (by omega) (by omega)
  rw [apxNTN_ent _ _ _ _ _ nd i i (by omega) hi hi]
  have hterm : ∀ r ∈ range (nd - 2), 0 ≤
      ent (apxN p (fnOf (computeKnotVector2 p nd nc uk fl)) (computeKnotVector2 p nd nc uk fl).length uk nd nc) r i *
      ent (apxN p (fnOf (computeKnotVector2 p nd nc uk fl)) (computeKnotVector2 p nd nc uk fl).length uk nd nc) r i :=
    fun r _ => mul_self_nonneg _
  have hmem : k - 1 ∈ range (nd - 2) := mem_range.mpr (by omega)
  apply lt_of_lt_of_le _ (single_le_sum hterm hmem)
  rw [apxN_ent _ _ _ _ _ nd (k - 1) i (by omega) hi, show 1 + (k - 1) = k by omega]
  exact mul_pos hpos hpos

end Geomdl
