import NurbsVerif.Lemmas.AffineShapes

/-! The maps of `Model/Transform.lean` (`translatePt`, `scalePt`, `rotatePt`) are affine maps of the
    coordinates (`AffOn`), affine maps compose, and the three-step net transformation of the model's
    `rotate` is a single `onCartesian` of the composed map. -/
namespace Geomdl
open Blossom Finset
variable {K : Type} [Field K] [LinearOrder K] [IsStrictOrderedRing K]

theorem sum_indicator_c (d j : ℕ) (hj : j < d) (m : K) (y : ℕ → K) :
    ∑ l ∈ range d, (if l = j then m else 0) * y l = m * y j := by
  simp [ite_mul, Finset.sum_ite_eq', hj]

/-- translation by `vec`: identity matrix, offset `vec` -/
theorem translatePt_affOn (d : ℕ) (vec : List K) (hv : vec.length = d) :
    AffOn d (translatePt vec) (fun j l => if l = j then 1 else 0) (fun j => vec.getD j 0) where
  len := by intro pt hpt; simp [translatePt, hpt, hv]
  coord := by
    intro pt hpt j hj
    unfold translatePt
    rw [zipWith_getD (· + ·) pt vec j (by omega) (by omega), sum_indicator d j hj]

/-- uniform scaling by `m`: matrix `m·I`, no offset -/
theorem scalePt_affOn (d : ℕ) (m : K) :
    AffOn d (scalePt m) (fun j l => if l = j then m else 0) (fun _ => 0) where
  len := by intro pt hpt; simp [scalePt, hpt]
  coord := by
    intro pt hpt j hj
    rw [sum_indicator_c d j hj, add_zero]
    unfold scalePt
    simp only [List.getD_eq_getElem?_getD, List.getElem?_map, List.getElem?_eq_getElem (show j < pt.length by omega)]
    simp [mul_comm]

/-- the rotation matrices of `operations.rotate` (any numbers `c`, `s`) -/
def rotMat (axis : ℕ) (c s : K) : ℕ → ℕ → K := fun j l =>
  if axis = 2 then (([[c, -s, 0], [s, c, 0], [0, 0, 1]] : List (List K)).getD j []).getD l 0
  else if axis = 0 then (([[1, 0, 0], [0, c, -s], [0, s, c]] : List (List K)).getD j []).getD l 0
  else (([[c, 0, -s], [0, 1, 0], [s, 0, c]] : List (List K)).getD j []).getD l 0

/-- rotation of 3-D points about the coordinate axis `axis` -/
theorem rotatePt_affOn3 (axis : ℕ) (c s : K) :
    AffOn 3 (rotatePt axis c s) (rotMat axis c s) (fun _ => 0) where
  len := by
    intro pt hpt
    match pt, hpt with
    | [x, y, z], _ =>
      unfold rotatePt
      by_cases h2 : axis = 2
      · simp [h2]
      · by_cases h0 : axis = 0
        · simp [h0]
        · simp [h2, h0]
  coord := by
    intro pt hpt j hj
    match pt, hpt with
    | [x, y, z], _ =>
      unfold rotatePt rotMat
      by_cases h2 : axis = 2
      · rcases j with _ | _ | _ | j
        · simp [h2, Finset.sum_range_succ]; ring
        · simp [h2, Finset.sum_range_succ]; ring
        · simp [h2, Finset.sum_range_succ]
        · omega
      · by_cases h0 : axis = 0
        · rcases j with _ | _ | _ | j
          · simp [h0, Finset.sum_range_succ]
          · simp [h0, Finset.sum_range_succ]; ring
          · simp [h0, Finset.sum_range_succ]; ring
          · omega
        · rcases j with _ | _ | _ | j
          · simp [h2, h0, Finset.sum_range_succ]; ring
          · simp [h2, h0, Finset.sum_range_succ]
          · simp [h2, h0, Finset.sum_range_succ]; ring
          · omega

/-- rotation of 2-D points (always about the z axis, whatever `axis` says) -/
theorem rotatePt_affOn2 (axis : ℕ) (c s : K) :
    AffOn 2 (rotatePt axis c s) (rotMat 2 c s) (fun _ => 0) where
  len := by
    intro pt hpt
    match pt, hpt with
    | [x, y], _ => simp [rotatePt]
  coord := by
    intro pt hpt j hj
    match pt, hpt with
    | [x, y], _ =>
      unfold rotatePt rotMat
      rcases j with _ | _ | j
      · simp [Finset.sum_range_succ]; ring
      · simp [Finset.sum_range_succ]; ring
      · omega

/-- affine maps compose (matrix product, transported offset) -/
theorem AffOn.comp {d : ℕ} {f g : List K → List K} {A A' : ℕ → ℕ → K} {b b' : ℕ → K}
    (hf : AffOn d f A b) (hg : AffOn d g A' b') :
    AffOn d (g ∘ f) (fun j l => ∑ m ∈ range d, A' j m * A m l) (fun j => ∑ m ∈ range d, A' j m * b m + b' j) where
  len := fun pt hpt => hg.len _ (hf.len pt hpt)
  coord := by
    intro pt hpt j hj
    show (g (f pt)).getD j 0 = _
    rw [hg.coord _ (hf.len pt hpt) j hj]
    rw [Finset.sum_congr rfl (fun m hm => by rw [hf.coord pt hpt m (Finset.mem_range.mp hm)])]
    simp only [mul_add, Finset.sum_add_distrib, Finset.mul_sum, Finset.sum_mul]
    rw [Finset.sum_comm, add_assoc]
    congr 1
    apply Finset.sum_congr rfl; intro l _
    apply Finset.sum_congr rfl; intro m _
    ring

/-! ### successive `onCartesian`s are one `onCartesian` of the composition -/

theorem onCartesian_lastD (d : ℕ) (f : List K → List K) (x : List K) (hx : x.length = d + 1)
    (hf : ∀ pt : List K, pt.length = d → (f pt).length = d) :
    (onCartesian true f x).getLastD 1 = x.getLastD 1 := by
  rw [getLastD_eq_getD_of_length _ d (onCartesian_length d f x hx hf), onCartesian_weight d f x hx hf, getLastD_eq_getD_of_length x d hx]

theorem map_mul_append_getD (l : List K) (w : K) (j : ℕ) (hj : j < l.length) :
    ((l.map (· * w)) ++ [w]).getD j 0 = l.getD j 0 * w := by
  rw [List.getD_eq_getElem?_getD, List.getElem?_append_left (by simpa using hj), List.getElem?_map,
    List.getElem?_eq_getElem hj, List.getD_eq_getElem?_getD, List.getElem?_eq_getElem hj]
  simp

theorem project_onCartesian (d : ℕ) (f : List K → List K) (x : List K) (hx : x.length = d + 1) (hw : x.getD d 0 ≠ 0)
    (hf : ∀ pt : List K, pt.length = d → (f pt).length = d) :
    project (onCartesian true f x) = f (project x) := by
  have hfl : (f (project x)).length = d := hf _ (project_length x d hx)
  apply list_eq_of_getD_lt d (project_length _ d (onCartesian_length d f x hx hf)) hfl
  intro j hj
  rw [project_getD _ d j (onCartesian_length d f x hx hf) hj, onCartesian_weight d f x hx hf]
  show ((f (project x)).map (· * x.getLastD 1) ++ [x.getLastD 1]).getD j 0 / x.getD d 0 = _
  rw [getLastD_eq_getD_of_length x d hx, map_mul_append_getD _ _ j (by omega), mul_div_assoc, div_self hw, mul_one]

theorem onCartesian_comp (d : ℕ) (f g : List K → List K) (x : List K) (hx : x.length = d + 1) (hw : x.getD d 0 ≠ 0)
    (hf : ∀ pt : List K, pt.length = d → (f pt).length = d) :
    onCartesian true g (onCartesian true f x) = onCartesian true (g ∘ f) x := by
  show (g (project (onCartesian true f x))).map (· * (onCartesian true f x).getLastD 1) ++ [(onCartesian true f x).getLastD 1]
    = (g (f (project x))).map (· * x.getLastD 1) ++ [x.getLastD 1]
  rw [project_onCartesian d f x hx hw hf, onCartesian_lastD d f x hx hf]

/-- two successive net transformations of a rational net (non-zero weights) are one -/
theorem map_onCartesian_comp (d : ℕ) (f g : List K → List K) (P : List (List K)) (hP : NetOk (d+1) P)
    (hwt : ∀ pt ∈ P, pt.getD d 0 ≠ 0) (hf : ∀ pt : List K, pt.length = d → (f pt).length = d) :
    (P.map (onCartesian true f)).map (onCartesian true g) = P.map (onCartesian true (g ∘ f)) := by
  rw [List.map_map]
  apply List.map_congr_left
  intro x hx
  exact onCartesian_comp d f g x (hP x hx) (hwt x hx) hf

/-- the net of the model's `rotate` on a rational shape: one `onCartesian` of
    `translate back ∘ rotate ∘ translate to the origin` -/
theorem rotate_net_rat (S : Shape K) (axis : ℕ) (c s : K) (d : ℕ) (hrat : S.rat = true)
    (hP : NetOk (d+1) S.net) (hwt : ∀ pt ∈ S.net, pt.getD d 0 ≠ 0) (ho : (startPoint S).length = d)
    (hrot : ∀ pt : List K, pt.length = d → (rotatePt axis c s pt).length = d) :
    (rotate S axis c s).net = S.net.map (onCartesian true
      (translatePt ((startPoint S).map (fun x => 0 - (0 - x))) ∘ rotatePt axis c s ∘
        translatePt ((startPoint S).map (fun x => 0 - x)))) := by
  have ht1 : ∀ pt : List K, pt.length = d → (translatePt ((startPoint S).map (fun x => 0 - x)) pt).length = d := by
    intro pt hpt; simp [translatePt, hpt, ho]
  show ((S.net.map (onCartesian S.rat _)).map (onCartesian S.rat _)).map (onCartesian S.rat _) = _
  rw [hrat]
  rw [map_onCartesian_comp d _ _ S.net hP hwt ht1]
  rw [map_onCartesian_comp d (rotatePt axis c s ∘ translatePt ((startPoint S).map (fun x => 0 - x))) _ S.net hP hwt
    (fun pt hpt => hrot _ (ht1 pt hpt))]

/-- the net of the model's `rotate` on a non-rational shape -/
theorem rotate_net_nonrat (S : Shape K) (axis : ℕ) (c s : K) (hrat : S.rat = false) :
    (rotate S axis c s).net = S.net.map
      (translatePt ((startPoint S).map (fun x => 0 - (0 - x))) ∘ rotatePt axis c s ∘
        translatePt ((startPoint S).map (fun x => 0 - x))) := by
  show ((S.net.map (onCartesian S.rat _)).map (onCartesian S.rat _)).map (onCartesian S.rat _) = _
  rw [hrat, List.map_map, List.map_map]
  rfl

/-! ### the model's `rotate` on volumes, assembled -/

theorem ptsGet_mem (P : List (List K)) (i : ℕ) (hi : i < P.length) : ptsGet P i ∈ P := by
  unfold ptsGet
  rw [List.getD_eq_getElem?_getD, List.getElem?_eq_getElem hi]
  exact List.getElem_mem hi

/-- the rotation about the start point `o` (3-D) is one affine map -/
theorem rotateAbout_affOn3 (axis : ℕ) (c s : K) (o : List K) (ho : o.length = 3) :
    ∃ A b, AffOn 3 (translatePt (o.map (fun x => 0 - (0 - x))) ∘ rotatePt axis c s ∘ translatePt (o.map (fun x => 0 - x))) A b :=
  ⟨_, _, AffOn.comp (AffOn.comp (translatePt_affOn 3 _ (by simp [ho])) (rotatePt_affOn3 axis c s))
    (translatePt_affOn 3 _ (by simp [ho]))⟩

/-- the rotation about the start point `o` (2-D) is one affine map -/
theorem rotateAbout_affOn2 (axis : ℕ) (c s : K) (o : List K) (ho : o.length = 2) :
    ∃ A b, AffOn 2 (translatePt (o.map (fun x => 0 - (0 - x))) ∘ rotatePt axis c s ∘ translatePt (o.map (fun x => 0 - x))) A b :=
  ⟨_, _, AffOn.comp (AffOn.comp (translatePt_affOn 2 _ (by simp [ho])) (rotatePt_affOn2 axis c s))
    (translatePt_affOn 2 _ (by simp [ho]))⟩

/-- **`rotate` on a rational volume** (3-D points, positive weights): every evaluated point of the
    rotated shape is the original point translated by minus the start point, rotated, translated back -/
theorem rotate_rational_volume_point (S : Shape K) (axis : ℕ) (c s : K)
    (pu pv pw : ℕ) (Uu Uv Uw : ℕ → K) (su sv sw ku kv kw : ℕ) (u v w : K)
    (hrat : S.rat = true) (hP : NetOk 4 S.net) (hlen : S.net.length = su * sv * sw)
    (hwt : ∀ pt ∈ S.net, 0 < pt.getD 3 0) (ho : (startPoint S).length = 3)
    (hu : SpanOk Uu ku u) (hv : SpanOk Uv kv v) (hw : SpanOk Uw kw w)
    (hpu : pu ≤ ku) (hpv : pv ≤ kv) (hpw : pw ≤ kw) (hku : ku < su) (hkv : kv < sv) (hkw : kw < sw) :
    project (volumePointAt pu pv pw Uu Uv Uw su sv (rotate S axis c s).net ku kv kw u v w)
      = translatePt ((startPoint S).map (fun x => 0 - (0 - x))) (rotatePt axis c s
          (translatePt ((startPoint S).map (fun x => 0 - x))
            (project (volumePointAt pu pv pw Uu Uv Uw su sv S.net ku kv kw u v w)))) := by
  rw [rotate_net_rat S axis c s 3 hrat hP (fun pt hpt => ne_of_gt (hwt pt hpt)) ho (rotatePt_affOn3 axis c s).len]
  obtain ⟨A, b, hf⟩ := rotateAbout_affOn3 axis c s (startPoint S) ho
  exact (volumePointAt_map_affine_rat pu pv pw Uu Uv Uw su sv sw S.net ku kv kw u v w 3 hu hv hw hpu hpv hpw hku hkv hkw
    hlen hP (fun i hi => hwt _ (ptsGet_mem S.net i hi)) _ A b hf).2.2

/-- **`rotate` on a non-rational volume** (3-D points) -/
theorem rotate_volume_point (S : Shape K) (axis : ℕ) (c s : K)
    (pu pv pw : ℕ) (Uu Uv Uw : ℕ → K) (su sv sw ku kv kw : ℕ) (u v w : K)
    (hrat : S.rat = false) (hP : NetOk 3 S.net) (hlen : S.net.length = su * sv * sw)
    (ho : (startPoint S).length = 3)
    (hu : SpanOk Uu ku u) (hv : SpanOk Uv kv v) (hw : SpanOk Uw kw w)
    (hpu : pu ≤ ku) (hpv : pv ≤ kv) (hpw : pw ≤ kw) (hku : ku < su) (hkv : kv < sv) (hkw : kw < sw) :
    volumePointAt pu pv pw Uu Uv Uw su sv (rotate S axis c s).net ku kv kw u v w
      = translatePt ((startPoint S).map (fun x => 0 - (0 - x))) (rotatePt axis c s
          (translatePt ((startPoint S).map (fun x => 0 - x))
            (volumePointAt pu pv pw Uu Uv Uw su sv S.net ku kv kw u v w))) := by
  rw [rotate_net_nonrat S axis c s hrat]
  obtain ⟨A, b, hf⟩ := rotateAbout_affOn3 axis c s (startPoint S) ho
  exact volumePointAt_map_affine pu pv pw Uu Uv Uw su sv sw S.net ku kv kw u v w 3 hu hv hw hpu hpv hpw hku hkv hkw
    hlen hP _ A b hf

end Geomdl
