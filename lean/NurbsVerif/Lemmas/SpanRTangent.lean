import NurbsVerif.Lemmas.SpanRDers
import NurbsVerif.Lemmas.HodographTangent
import NurbsVerif.Lemmas.RatTangent

/-!
  `operations.tangent` / `operations.normal` (non-rational, `normalize=False`) through the REPAIRED linear search: the
  tuple models `tangentCurve`, `tangentSurface`, `normalSurface` applied to the tables of the default evaluators as coded on
  the span(s) `findSpanLinearR` finds (`curveDersA32R`, `surfaceDersA36R`).  On the whole closed domain of every sorted
  knot function with `U p < U n` (`DomOk`; the last domain span may be empty) they are (point, TRUE first derivative(s)) /
  (point, cross product of the TRUE first partials) of the span polynomial of the span found – at the domain end the
  left-hand derivatives.  Compositions of the per-span theorems with `findSpanLinearR_ok`.
-/
set_option linter.unusedSectionVars false

namespace Geomdl
open Blossom Polynomial Finset
open scoped Polynomial.Bivariate
variable {K : Type} [Field K] [LinearOrder K] [IsStrictOrderedRing K]

theorem tangentCurveR_true (p d : ℕ) (U : ℕ → K) (P : List (List K)) (hU : DomOk p U P.length) (hP : NetOk d P) (u : K)
    (h1 : U p ≤ u) (h2 : u ≤ U P.length) (j : ℕ) :
    (tangentCurve (curveDersA32R p U P u 1)).1.getD j 0
      = eval u (spanPoly p U P (findSpanLinearR p U P.length u) j) ∧
    (tangentCurve (curveDersA32R p U P u 1)).2.getD j 0
      = eval u (derivative (spanPoly p U P (findSpanLinearR p U P.length u) j)) := by
  obtain ⟨hs, hp, hκ⟩ := findSpanLinearR_ok hU u h1 h2
  exact tangentCurve_true p U P _ u d j hp hκ hP hU.mono hs.nonempty

theorem tangentSurfaceR_true (pu pv d : ℕ) (Uu Uv : ℕ → K) (su sv : ℕ) (P : List (List K))
    (hUu : DomOk pu Uu su) (hUv : DomOk pv Uv sv) (hlen : P.length = su * sv) (hP : NetOk d P) (u v : K)
    (hu1 : Uu pu ≤ u) (hu2 : u ≤ Uu su) (hv1 : Uv pv ≤ v) (hv2 : v ≤ Uv sv) (j : ℕ) :
    (tangentSurface (surfaceDersA36R pu pv Uu Uv su sv P u v 1)).1.getD j 0
      = (surfSpanPoly pu pv Uu Uv sv P (findSpanLinearR pu Uu su u) (findSpanLinearR pv Uv sv v) j).evalEval u v ∧
    (tangentSurface (surfaceDersA36R pu pv Uu Uv su sv P u v 1)).2.1.getD j 0
      = (pderivU (surfSpanPoly pu pv Uu Uv sv P (findSpanLinearR pu Uu su u)
          (findSpanLinearR pv Uv sv v) j)).evalEval u v ∧
    (tangentSurface (surfaceDersA36R pu pv Uu Uv su sv P u v 1)).2.2.getD j 0
      = (pderivV (surfSpanPoly pu pv Uu Uv sv P (findSpanLinearR pu Uu su u)
          (findSpanLinearR pv Uv sv v) j)).evalEval u v := by
  obtain ⟨hsu, hpu, hku⟩ := findSpanLinearR_ok hUu u hu1 hu2
  obtain ⟨hsv, hpv, hkv⟩ := findSpanLinearR_ok hUv v hv1 hv2
  exact tangentSurface_true pu pv Uu Uv su sv P _ _ u v d j hpu hpv hku hkv hlen hP hUu.mono hUv.mono
    hsu.nonempty hsv.nonempty

theorem normalSurfaceR_true (pu pv : ℕ) (Uu Uv : ℕ → K) (su sv : ℕ) (P : List (List K))
    (hUu : DomOk pu Uu su) (hUv : DomOk pv Uv sv) (hlen : P.length = su * sv) (hP : NetOk 3 P) (u v : K)
    (hu1 : Uu pu ≤ u) (hu2 : u ≤ Uu su) (hv1 : Uv pv ≤ v) (hv2 : v ≤ Uv sv)
    (Su Sv : ℕ → K)
    (hSu : ∀ c, Su c = (pderivU (surfSpanPoly pu pv Uu Uv sv P (findSpanLinearR pu Uu su u)
      (findSpanLinearR pv Uv sv v) c)).evalEval u v)
    (hSv : ∀ c, Sv c = (pderivV (surfSpanPoly pu pv Uu Uv sv P (findSpanLinearR pu Uu su u)
      (findSpanLinearR pv Uv sv v) c)).evalEval u v) :
    ∃ pt n, normalSurface (surfaceDersA36R pu pv Uu Uv su sv P u v 1) = some (pt, n) ∧
      (∀ c, pt.getD c 0 = (surfSpanPoly pu pv Uu Uv sv P (findSpanLinearR pu Uu su u)
        (findSpanLinearR pv Uv sv v) c).evalEval u v) ∧
      n = [Su 1 * Sv 2 - Su 2 * Sv 1, Su 2 * Sv 0 - Su 0 * Sv 2, Su 0 * Sv 1 - Su 1 * Sv 0] ∧
      n.getD 0 0 * Su 0 + n.getD 1 0 * Su 1 + n.getD 2 0 * Su 2 = 0 ∧
      n.getD 0 0 * Sv 0 + n.getD 1 0 * Sv 1 + n.getD 2 0 * Sv 2 = 0 := by
  obtain ⟨hsu, hpu, hku⟩ := findSpanLinearR_ok hUu u hu1 hu2
  obtain ⟨hsv, hpv, hkv⟩ := findSpanLinearR_ok hUv v hv1 hv2
  exact normalSurface_true pu pv Uu Uv su sv P _ _ u v hpu hpv hku hkv hlen hP hUu.mono hUv.mono
    hsu.nonempty hsv.nonempty Su Sv hSu hSv

/-- `operations.tangent` of a RATIONAL curve through the repaired search (op `tancr 1 …`): positive weight polynomial,
    `C = A / w` and the quotient rule `T = (A'·w − A·w') / w²` for the span polynomials of the span found -/
theorem tangentCurveR_rational_quotient (p d : ℕ) (U : ℕ → K) (Pw : List (List K)) (hU : DomOk p U Pw.length)
    (hP : NetOk (d+1) Pw) (hwt : ∀ i, i < Pw.length → 0 < (ptsGet Pw i).getD d 0) (u : K)
    (h1 : U p ≤ u) (h2 : u ≤ U Pw.length) (j : ℕ) (hj : j < d)
    (w A : K[X]) (hw : w = spanPoly p U Pw (findSpanLinearR p U Pw.length u) d)
    (hA : A = spanPoly p U Pw (findSpanLinearR p U Pw.length u) j) :
    0 < eval u w ∧
    (tangentCurve (ratCurveDers (curveDersA32R p U Pw u 1))).1.getD j 0 = eval u A / eval u w ∧
    (tangentCurve (ratCurveDers (curveDersA32R p U Pw u 1))).2.getD j 0
      = (eval u (derivative A) * eval u w - eval u A * eval u (derivative w)) / eval u w ^ 2 := by
  subst hw hA
  obtain ⟨hpos, k0⟩ := ratCurveDersA32R_true p d U Pw hU hP hwt u h1 h2 1 0 j (by omega) hj
  obtain ⟨_, k1⟩ := ratCurveDersA32R_true p d U Pw hU hP hwt u h1 h2 1 1 j (by omega) hj
  simp only [Finset.sum_range_succ, Finset.sum_range_zero, zero_add, Nat.choose_self, Nat.choose_zero_right,
    Nat.cast_one, one_mul, Function.iterate_zero, id_eq, Function.iterate_one, Nat.sub_zero, Nat.sub_self] at k0 k1
  exact ⟨hpos, quotient_rule_of_leibniz _ _ _ _ _ _ (ne_of_gt hpos) k0 k1⟩

/-- `operations.tangent` of a RATIONAL surface through the repaired search (op `tansr 1 …`): positive weight polynomial,
    `S = A / W`, `S_u = (A_u·W − A·W_u) / W²`, `S_v = (A_v·W − A·W_v) / W²` for the span pair found -/
theorem tangentSurfaceR_rational_quotient (pu pv d : ℕ) (Uu Uv : ℕ → K) (su sv : ℕ) (Pw : List (List K))
    (hUu : DomOk pu Uu su) (hUv : DomOk pv Uv sv) (hlen : Pw.length = su * sv) (hP : NetOk (d+1) Pw)
    (hwt : ∀ i, i < Pw.length → 0 < (ptsGet Pw i).getD d 0) (u v : K)
    (hu1 : Uu pu ≤ u) (hu2 : u ≤ Uu su) (hv1 : Uv pv ≤ v) (hv2 : v ≤ Uv sv) (c : ℕ) (hc : c < d) (W A : K[X][Y])
    (hW : W = surfSpanPoly pu pv Uu Uv sv Pw (findSpanLinearR pu Uu su u) (findSpanLinearR pv Uv sv v) d)
    (hA : A = surfSpanPoly pu pv Uu Uv sv Pw (findSpanLinearR pu Uu su u) (findSpanLinearR pv Uv sv v) c) :
    0 < W.evalEval u v ∧
    (tangentSurface (ratSurfaceDers (surfaceDersA36R pu pv Uu Uv su sv Pw u v 1) 1)).1.getD c 0
      = A.evalEval u v / W.evalEval u v ∧
    (tangentSurface (ratSurfaceDers (surfaceDersA36R pu pv Uu Uv su sv Pw u v 1) 1)).2.1.getD c 0
      = ((pderivU A).evalEval u v * W.evalEval u v - A.evalEval u v * (pderivU W).evalEval u v) / W.evalEval u v ^ 2 ∧
    (tangentSurface (ratSurfaceDers (surfaceDersA36R pu pv Uu Uv su sv Pw u v 1) 1)).2.2.getD c 0
      = ((pderivV A).evalEval u v * W.evalEval u v - A.evalEval u v * (pderivV W).evalEval u v) / W.evalEval u v ^ 2 := by
  subst hW hA
  obtain ⟨hpos, k00⟩ := ratSurfaceDersA36R_true pu pv d Uu Uv su sv Pw hUu hUv hlen hP hwt u v hu1 hu2 hv1 hv2 1 0 0 c
    (by omega) (by omega) hc
  obtain ⟨_, k10⟩ := ratSurfaceDersA36R_true pu pv d Uu Uv su sv Pw hUu hUv hlen hP hwt u v hu1 hu2 hv1 hv2 1 1 0 c
    (by omega) (by omega) hc
  obtain ⟨_, k01⟩ := ratSurfaceDersA36R_true pu pv d Uu Uv su sv Pw hUu hUv hlen hP hwt u v hu1 hu2 hv1 hv2 1 0 1 c
    (by omega) (by omega) hc
  simp only [Finset.sum_range_succ, Finset.sum_range_zero, zero_add, Nat.choose_self, Nat.choose_zero_right,
    Nat.cast_one, one_mul, Function.iterate_zero, id_eq, Function.iterate_one, Nat.sub_zero, Nat.sub_self] at k00 k10 k01
  have hu := quotient_rule_of_leibniz _ _ _ _ _ _ (ne_of_gt hpos) k00 k10
  have hv := quotient_rule_of_leibniz _ _ _ _ _ _ (ne_of_gt hpos) k00 k01
  unfold tangentSurface
  exact ⟨hpos, hu.1, hu.2, hv.2⟩

/-- `operations.normal` of a RATIONAL 3-D surface through the repaired search (op `nrmsr 1 …`): the point entry of the
    tangent triple and the cross product of its two tangent vectors (`Su c`, `Sv c` name their coordinates – the quotient-rule
    values of `tangentSurfaceR_rational_quotient`), orthogonal to both -/
theorem normalSurfaceR_rational (pu pv : ℕ) (Uu Uv : ℕ → K) (su sv : ℕ) (Pw : List (List K)) (u v : K)
    (hUu : DomOk pu Uu su) (hUv : DomOk pv Uv sv) (hlen : Pw.length = su * sv) (hP : NetOk (3+1) Pw)
    (hu1 : Uu pu ≤ u) (hu2 : u ≤ Uu su) (hv1 : Uv pv ≤ v) (hv2 : v ≤ Uv sv)
    (Su Sv : ℕ → K)
    (hSu : ∀ c, Su c = (tangentSurface (ratSurfaceDers (surfaceDersA36R pu pv Uu Uv su sv Pw u v 1) 1)).2.1.getD c 0)
    (hSv : ∀ c, Sv c = (tangentSurface (ratSurfaceDers (surfaceDersA36R pu pv Uu Uv su sv Pw u v 1) 1)).2.2.getD c 0) :
    ∃ n, normalSurface (ratSurfaceDers (surfaceDersA36R pu pv Uu Uv su sv Pw u v 1) 1)
        = some ((tangentSurface (ratSurfaceDers (surfaceDersA36R pu pv Uu Uv su sv Pw u v 1) 1)).1, n) ∧
      n = [Su 1 * Sv 2 - Su 2 * Sv 1, Su 2 * Sv 0 - Su 0 * Sv 2, Su 0 * Sv 1 - Su 1 * Sv 0] ∧
      n.getD 0 0 * Su 0 + n.getD 1 0 * Su 1 + n.getD 2 0 * Su 2 = 0 ∧
      n.getD 0 0 * Sv 0 + n.getD 1 0 * Sv 1 + n.getD 2 0 * Sv 2 = 0 := by
  unfold surfaceDersA36R at hSu hSv ⊢
  obtain ⟨_, hpu, hku⟩ := findSpanLinearR_ok hUu u hu1 hu2
  obtain ⟨_, hpv, hkv⟩ := findSpanLinearR_ok hUv v hv1 hv2
  obtain ⟨_, h10, h01⟩ := tangentSurface_rational_length pu pv Uu Uv su sv Pw _ _ u v 3 hpu hpv hku hkv hlen hP
  obtain ⟨a0, a1, a2, ha⟩ := List.length_eq_three.mp h10
  obtain ⟨b0, b1, b2, hb⟩ := List.length_eq_three.mp h01
  rw [ha] at hSu
  rw [hb] at hSv
  have ea0 : Su 0 = a0 := hSu 0
  have ea1 : Su 1 = a1 := hSu 1
  have ea2 : Su 2 = a2 := hSu 2
  have eb0 : Sv 0 = b0 := hSv 0
  have eb1 : Sv 1 = b1 := hSv 1
  have eb2 : Sv 2 = b2 := hSv 2
  refine ⟨[a1 * b2 - a2 * b1, a2 * b0 - a0 * b2, a0 * b1 - a1 * b0], ?_, ?_, ?_, ?_⟩
  · unfold tangentSurface at ha hb ⊢
    unfold normalSurface
    simp only [] at ha hb
    rw [ha, hb]
    rfl
  · rw [ea0, ea1, ea2, eb0, eb1, eb2]
  · rw [ea0, ea1, ea2]
    simp only [List.getD_cons_zero, List.getD_cons_succ]
    ring
  · rw [eb0, eb1, eb2]
    simp only [List.getD_cons_zero, List.getD_cons_succ]
    ring

end Geomdl
