import NurbsVerif.Model.Predicates
import NurbsVerif.Lemmas.CoxDeBoor
import NurbsVerif.Lemmas.Span

/-! C20, `operations.find_ctrlpts`: the returned control points are those with index
    `span - p … span`, and every basis function with another index vanishes at the parameter -/
namespace Geomdl
open Blossom
variable {K : Type} [Field K] [LinearOrder K] [IsStrictOrderedRing K]

theorem findCtrlptsIdx_eq (p : ℕ) (U : ℕ → K) (n : ℕ) (u : K) :
    findCtrlptsIdx p U n u = List.range' (findSpanLinear p U n u - p) (p + 1) := by
  unfold findCtrlptsIdx
  simp only
  rw [List.range'_eq_map_range]

theorem mem_findCtrlptsIdx (p : ℕ) (U : ℕ → K) (n : ℕ) (u : K) (i : ℕ) :
    i ∈ findCtrlptsIdx p U n u ↔ findSpanLinear p U n u - p ≤ i ∧ i < findSpanLinear p U n u - p + (p + 1) := by
  rw [findCtrlptsIdx_eq, List.mem_range'_1]

/-- a Cox–de Boor function that does not vanish at `u` has its index in the returned range -/
theorem mem_findCtrlptsIdx_of_cdb_ne_zero (p : ℕ) (U : ℕ → K) (n : ℕ) (u : K) (hpn : p + 1 ≤ n)
    (hm : Monotone U) (hlo : U p ≤ u) (hhi : u < U n) (i : ℕ) (hne : cdb U p i u ≠ 0) :
    i ∈ findCtrlptsIdx p U n u := by
  obtain ⟨hk1, hk2, hk3, hk4⟩ := findSpanLinear_spec p U n u hpn hm hlo
  have h2 : u < U (findSpanLinear p U n u + 1) := by
    rcases hk4 with h | h
    · exact h
    · rw [h]; exact hhi
  rw [cdb_eq_basisFuns U _ u hm hk3 h2 p hk1 i] at hne
  rw [mem_findCtrlptsIdx]
  by_cases hc : findSpanLinear p U n u ≤ i + p ∧ i ≤ findSpanLinear p U n u
  · omega
  · rw [if_neg hc] at hne; exact absurd rfl hne

theorem findCtrlptsCurve_length {α : Type} (d : α) (p : ℕ) (U : ℕ → K) (P : List α) (u : K) :
    (findCtrlptsCurve d p U P u).length = p + 1 := by
  unfold findCtrlptsCurve
  rw [List.length_map, findCtrlptsIdx_eq, List.length_range']

theorem findCtrlptsCurve_getD {α : Type} (d : α) (p : ℕ) (U : ℕ → K) (P : List α) (u : K) (j : ℕ) (hj : j ≤ p) :
    (findCtrlptsCurve d p U P u).getD j d = P.getD (findSpanLinear p U P.length u - p + j) d := by
  unfold findCtrlptsCurve
  rw [findCtrlptsIdx_eq]
  simp [List.getD_eq_getElem?_getD, List.getElem?_map, List.getElem?_range', Nat.lt_succ_of_le hj]

theorem findCtrlptsSurface_getD {α : Type} (d : α) (pu pv : ℕ) (Uu Uv : ℕ → K) (su sv : ℕ)
    (P2 : List (List α)) (u v : K) (a b : ℕ) (ha : a ≤ pu) (hb : b ≤ pv) :
    ((findCtrlptsSurface d pu pv Uu Uv su sv P2 u v).getD a []).getD b d
      = (P2.getD (findSpanLinear pu Uu su u - pu + a) []).getD (findSpanLinear pv Uv sv v - pv + b) d := by
  unfold findCtrlptsSurface
  rw [findCtrlptsIdx_eq, findCtrlptsIdx_eq]
  simp [List.getD_eq_getElem?_getD, List.getElem?_map, List.getElem?_range', Nat.lt_succ_of_le ha,
    Nat.lt_succ_of_le hb]

end Geomdl
