import NurbsVerif.Lemmas.MeshGeom

/-!
# The triangles of `makeTriangleMesh` tile the parametric rectangle exactly once (C15)

Point-set statement for the whole rectangle, assembled from the per-cell facts of `Lemmas/MeshGeom.lean`
(`cell_cover`, `cell_tri_sub`), the exact face list (`mem_meshTriangles`) and the vertex parameters the model
assigns (`meshUV_gridVid`): with the parametric coordinates `uv` of the mesh vertices,

* every point of `[0, x_last] × [0, y_last]` (the rectangle spanned by the grid lines; `[0,1]²` when the vertex
  spacing divides `size − 1` in both directions) lies in the closed parametric triangle of at least one face;
* a point in the open interior of a face lies in no other (closed) face - in particular the open interiors of
  two different faces are disjoint.
-/
namespace Geomdl.Mesh
variable {K : Type} [Field K] [LinearOrder K] [IsStrictOrderedRing K]

/-- the closed parametric triangle of a face `[a, b, c]` (vertex ids) for a vertex → parameter table -/
def inFace (uv : ℕ → K × K) : List ℕ → K × K → Prop
  | [a, b, c], p => inTriangle (uv a) (uv b) (uv c) p
  | _, _ => False

/-- strictly inside all three (positively oriented) edges -/
def inTriangleInterior (a b c p : K × K) : Prop :=
  0 < cellCross2 a b p ∧ 0 < cellCross2 b c p ∧ 0 < cellCross2 c a p

/-- the open interior of the parametric triangle of a face -/
def inFaceInterior (uv : ℕ → K × K) : List ℕ → K × K → Prop
  | [a, b, c], p => inTriangleInterior (uv a) (uv b) (uv c) p
  | _, _ => False

omit [IsStrictOrderedRing K] in
theorem inTriangleInterior.closed {a b c p : K × K} (h : inTriangleInterior a b c p) : inTriangle a b c p :=
  ⟨h.1.le, h.2.1.le, h.2.2.le⟩

omit [IsStrictOrderedRing K] in
theorem inFaceInterior.closed {uv : ℕ → K × K} {t : List ℕ} {p : K × K} (h : inFaceInterior uv t p) :
    inFace uv t p := by
  match t, h with
  | [a, b, c], h => exact inTriangleInterior.closed h

/-! ### one direction: which cell a coordinate falls into -/

/-- a coordinate between the first and the last of `m + 1` equidistant grid lines lies between two consecutive ones -/
theorem exists_cell (jump : K) (hj : 0 < jump) (x : K) (hx0 : 0 ≤ x) :
    ∀ m : ℕ, 1 ≤ m → x ≤ (m : K) * jump → ∃ i, i < m ∧ (i : K) * jump ≤ x ∧ x ≤ ((i + 1 : ℕ) : K) * jump := by
  intro m
  induction m with
  | zero => intro h; omega
  | succ m ih =>
    intro _ hx
    by_cases hle : x ≤ (m : K) * jump
    · rcases Nat.eq_zero_or_pos m with rfl | hm
      · refine ⟨0, by omega, by simpa using hx0, ?_⟩
        simp only [Nat.cast_zero, zero_mul] at hle
        have : x = 0 := le_antisymm hle hx0
        rw [this]; push_cast; linarith
      · obtain ⟨i, hi, h1, h2⟩ := ih hm hle
        exact ⟨i, by omega, h1, h2⟩
    · exact ⟨m, by omega, (not_le.1 hle).le, hx⟩

/-- open cell against closed cell of equidistant grid lines: the cell indices agree -/
theorem cell_index_unique (jump : K) (hj : 0 < jump) (x : K) (i i' : ℕ)
    (h1 : (i : K) * jump < x) (h2 : x < ((i + 1 : ℕ) : K) * jump)
    (h1' : (i' : K) * jump ≤ x) (h2' : x ≤ ((i' + 1 : ℕ) : K) * jump) : i = i' := by
  by_contra hne
  rcases Nat.lt_or_gt_of_ne hne with h | h
  · have : ((i + 1 : ℕ) : K) ≤ (i' : K) := by exact_mod_cast h
    have := mul_le_mul_of_nonneg_right this hj.le
    linarith
  · have : ((i' + 1 : ℕ) : K) ≤ (i : K) := by exact_mod_cast h
    have := mul_le_mul_of_nonneg_right this hj.le
    linarith

/-! ### one cell: interiors -/

/-- the open interior of the first triangle `(v1, v2, v3)` of a cell lies in the open cell, strictly on the side
    of the diagonal `v1 v3` where `v2` is -/
theorem cell_triA_interior (x0 x1 y0 y1 x y : K) (hX : x0 < x1) (hY : y0 < y1)
    (h : inTriangleInterior (x0, y0) (x1, y0) (x1, y1) (x, y)) :
    x0 < x ∧ x < x1 ∧ y0 < y ∧ y < y1 ∧ cellCross2 (x0, y0) (x1, y1) (x, y) < 0 := by
  have hX' : 0 < x1 - x0 := sub_pos.2 hX
  have hY' : 0 < y1 - y0 := sub_pos.2 hY
  obtain ⟨a, b, c⟩ := h
  simp only [cellCross2] at a b c ⊢
  have hy : y0 < y := by
    by_contra hc; rw [not_lt] at hc
    have := mul_nonneg hX'.le (sub_nonneg.2 hc); nlinarith
  have hx : x < x1 := by
    by_contra hc; rw [not_lt] at hc
    have := mul_nonneg (sub_nonneg.2 hc) hY'.le; nlinarith
  refine ⟨?_, hx, hy, ?_, by nlinarith⟩
  · by_contra hc; rw [not_lt] at hc
    have := mul_nonneg (sub_nonneg.2 hc) hY'.le
    have := mul_pos (sub_pos.2 hy) hX'
    nlinarith
  · by_contra hc; rw [not_lt] at hc
    have := mul_nonneg (sub_nonneg.2 hc) hX'.le
    have := mul_pos (sub_pos.2 hx) hY'
    nlinarith

/-- the open interior of the second triangle `(v1, v3, v4)`: open cell, strictly on the other side of the diagonal -/
theorem cell_triB_interior (x0 x1 y0 y1 x y : K) (hX : x0 < x1) (hY : y0 < y1)
    (h : inTriangleInterior (x0, y0) (x1, y1) (x0, y1) (x, y)) :
    x0 < x ∧ x < x1 ∧ y0 < y ∧ y < y1 ∧ 0 < cellCross2 (x0, y0) (x1, y1) (x, y) := by
  have hX' : 0 < x1 - x0 := sub_pos.2 hX
  have hY' : 0 < y1 - y0 := sub_pos.2 hY
  obtain ⟨a, b, c⟩ := h
  simp only [cellCross2] at a b c ⊢
  have hy : y < y1 := by
    by_contra hc; rw [not_lt] at hc
    have := mul_nonneg hX'.le (sub_nonneg.2 hc); nlinarith
  have hx : x0 < x := by
    by_contra hc; rw [not_lt] at hc
    have := mul_nonneg (sub_nonneg.2 hc) hY'.le; nlinarith
  refine ⟨hx, ?_, ?_, hy, a⟩
  · by_contra hc; rw [not_lt] at hc
    have := mul_nonneg (sub_nonneg.2 hc) hY'.le
    have := mul_pos (sub_pos.2 hy) hX'
    nlinarith
  · by_contra hc; rw [not_lt] at hc
    have := mul_nonneg (sub_nonneg.2 hc) hX'.le
    have := mul_pos (sub_pos.2 hx) hY'
    nlinarith

/-! ### the faces of the mesh as parametric triangles of grid cells -/

/-- the two triangles of cell `(i, j)` in coordinates -/
def cellTriA (ju jv : K) (i j : ℕ) (p : K × K) : Prop :=
  inTriangle ((i : K) * ju, (j : K) * jv) (((i + 1 : ℕ) : K) * ju, (j : K) * jv)
    (((i + 1 : ℕ) : K) * ju, ((j + 1 : ℕ) : K) * jv) p

def cellTriB (ju jv : K) (i j : ℕ) (p : K × K) : Prop :=
  inTriangle ((i : K) * ju, (j : K) * jv) (((i + 1 : ℕ) : K) * ju, ((j + 1 : ℕ) : K) * jv)
    ((i : K) * ju, ((j + 1 : ℕ) : K) * jv) p

section
variable (su sv s : ℕ) (hu : 2 ≤ gridCount su s) (hv : 2 ≤ gridCount sv s)
include hu hv

theorem inFace_A (i j : ℕ) (hi : i < gridCount su s - 1) (hj : j < gridCount sv s - 1) (p : K × K) :
    inFace (meshUV (K := K) su sv s)
        [gridVid (gridCount sv s) i j, gridVid (gridCount sv s) (i + 1) j, gridVid (gridCount sv s) (i + 1) (j + 1)] p
      ↔ cellTriA (meshJump su s) (meshJump sv s) i j p := by
  simp only [inFace, cellTriA,
    meshUV_gridVid (K := K) su sv s i j hu hv (by omega) (by omega),
    meshUV_gridVid (K := K) su sv s (i + 1) j hu hv (by omega) (by omega),
    meshUV_gridVid (K := K) su sv s (i + 1) (j + 1) hu hv (by omega) (by omega)]

theorem inFace_B (i j : ℕ) (hi : i < gridCount su s - 1) (hj : j < gridCount sv s - 1) (p : K × K) :
    inFace (meshUV (K := K) su sv s)
        [gridVid (gridCount sv s) i j, gridVid (gridCount sv s) (i + 1) (j + 1), gridVid (gridCount sv s) i (j + 1)] p
      ↔ cellTriB (meshJump su s) (meshJump sv s) i j p := by
  simp only [inFace, cellTriB,
    meshUV_gridVid (K := K) su sv s i j hu hv (by omega) (by omega),
    meshUV_gridVid (K := K) su sv s (i + 1) (j + 1) hu hv (by omega) (by omega),
    meshUV_gridVid (K := K) su sv s i (j + 1) hu hv (by omega) (by omega)]

theorem inFaceInterior_A (i j : ℕ) (hi : i < gridCount su s - 1) (hj : j < gridCount sv s - 1) (p : K × K) :
    inFaceInterior (meshUV (K := K) su sv s)
        [gridVid (gridCount sv s) i j, gridVid (gridCount sv s) (i + 1) j, gridVid (gridCount sv s) (i + 1) (j + 1)] p
      ↔ inTriangleInterior ((i : K) * meshJump su s, (j : K) * meshJump sv s)
          (((i + 1 : ℕ) : K) * meshJump su s, (j : K) * meshJump sv s)
          (((i + 1 : ℕ) : K) * meshJump su s, ((j + 1 : ℕ) : K) * meshJump sv s) p := by
  simp only [inFaceInterior,
    meshUV_gridVid (K := K) su sv s i j hu hv (by omega) (by omega),
    meshUV_gridVid (K := K) su sv s (i + 1) j hu hv (by omega) (by omega),
    meshUV_gridVid (K := K) su sv s (i + 1) (j + 1) hu hv (by omega) (by omega)]

theorem inFaceInterior_B (i j : ℕ) (hi : i < gridCount su s - 1) (hj : j < gridCount sv s - 1) (p : K × K) :
    inFaceInterior (meshUV (K := K) su sv s)
        [gridVid (gridCount sv s) i j, gridVid (gridCount sv s) (i + 1) (j + 1), gridVid (gridCount sv s) i (j + 1)] p
      ↔ inTriangleInterior ((i : K) * meshJump su s, (j : K) * meshJump sv s)
          (((i + 1 : ℕ) : K) * meshJump su s, ((j + 1 : ℕ) : K) * meshJump sv s)
          ((i : K) * meshJump su s, ((j + 1 : ℕ) : K) * meshJump sv s) p := by
  simp only [inFaceInterior,
    meshUV_gridVid (K := K) su sv s i j hu hv (by omega) (by omega),
    meshUV_gridVid (K := K) su sv s (i + 1) (j + 1) hu hv (by omega) (by omega),
    meshUV_gridVid (K := K) su sv s i (j + 1) hu hv (by omega) (by omega)]

end

theorem cast_succ_mul_lt (jump : K) (hj : 0 < jump) (i : ℕ) : (i : K) * jump < ((i + 1 : ℕ) : K) * jump := by
  push_cast; linarith

/-! ### covering -/

/-- **every point of the rectangle spanned by the grid lines lies in (the closed parametric triangle of) a face** -/
theorem mesh_cover (su sv s : ℕ) (hs : 0 < s) (hsu : 2 ≤ su) (hsv : 2 ≤ sv)
    (hu : 2 ≤ gridCount su s) (hv : 2 ≤ gridCount sv s) (x y : K)
    (hx0 : 0 ≤ x) (hx1 : x ≤ ((gridCount su s - 1 : ℕ) : K) * meshJump su s)
    (hy0 : 0 ≤ y) (hy1 : y ≤ ((gridCount sv s - 1 : ℕ) : K) * meshJump sv s) :
    ∃ t ∈ (makeTriangleMesh (K := K) su sv s).faces, inFace (meshUV (K := K) su sv s) t (x, y) := by
  have hju : (0 : K) < meshJump su s := meshJump_pos hsu hs
  have hjv : (0 : K) < meshJump sv s := meshJump_pos hsv hs
  obtain ⟨i, hi, hi1, hi2⟩ := exists_cell (meshJump su s) hju x hx0 (gridCount su s - 1) (by omega) hx1
  obtain ⟨j, hj, hj1, hj2⟩ := exists_cell (meshJump sv s) hjv y hy0 (gridCount sv s - 1) (by omega) hy1
  rw [makeTriangleMesh_eq su sv s hu hv]
  rcases cell_cover _ _ _ _ x y hi1 hi2 hj1 hj2 with h | h
  · exact ⟨_, mem_meshTriangles.2 ⟨i, hi, j, hj, Or.inl rfl⟩, (inFace_A su sv s hu hv i j hi hj _).2 h⟩
  · exact ⟨_, mem_meshTriangles.2 ⟨i, hi, j, hj, Or.inr rfl⟩, (inFace_B su sv s hu hv i j hi hj _).2 h⟩

/-- every face lies inside the rectangle spanned by the grid lines (nothing sticks out) -/
theorem mesh_faces_inside (su sv s : ℕ) (hs : 0 < s) (hsu : 2 ≤ su) (hsv : 2 ≤ sv)
    (hu : 2 ≤ gridCount su s) (hv : 2 ≤ gridCount sv s) (x y : K) (t : List ℕ)
    (ht : t ∈ (makeTriangleMesh (K := K) su sv s).faces) (h : inFace (meshUV (K := K) su sv s) t (x, y)) :
    0 ≤ x ∧ x ≤ ((gridCount su s - 1 : ℕ) : K) * meshJump su s ∧
    0 ≤ y ∧ y ≤ ((gridCount sv s - 1 : ℕ) : K) * meshJump sv s := by
  have hju : (0 : K) < meshJump su s := meshJump_pos hsu hs
  have hjv : (0 : K) < meshJump sv s := meshJump_pos hsv hs
  rw [makeTriangleMesh_eq su sv s hu hv] at ht
  obtain ⟨i, hi, j, hj, htt⟩ := mem_meshTriangles.1 ht
  have hcell : (i : K) * meshJump su s ≤ x ∧ x ≤ ((i + 1 : ℕ) : K) * meshJump su s ∧
      (j : K) * meshJump sv s ≤ y ∧ y ≤ ((j + 1 : ℕ) : K) * meshJump sv s := by
    rcases htt with rfl | rfl
    · exact cell_tri_sub _ _ _ _ x y (cast_succ_mul_lt _ hju i) (cast_succ_mul_lt _ hjv j)
        (Or.inl ((inFace_A su sv s hu hv i j hi hj _).1 h))
    · exact cell_tri_sub _ _ _ _ x y (cast_succ_mul_lt _ hju i) (cast_succ_mul_lt _ hjv j)
        (Or.inr ((inFace_B su sv s hu hv i j hi hj _).1 h))
  have hi' : ((i + 1 : ℕ) : K) ≤ ((gridCount su s - 1 : ℕ) : K) := by exact_mod_cast hi
  have hj' : ((j + 1 : ℕ) : K) ≤ ((gridCount sv s - 1 : ℕ) : K) := by exact_mod_cast hj
  have h1 := mul_le_mul_of_nonneg_right hi' hju.le
  have h2 := mul_le_mul_of_nonneg_right hj' hjv.le
  have h3 : (0 : K) ≤ (i : K) * meshJump su s := mul_nonneg (Nat.cast_nonneg i) hju.le
  have h4 : (0 : K) ≤ (j : K) * meshJump sv s := mul_nonneg (Nat.cast_nonneg j) hjv.le
  exact ⟨by linarith [hcell.1], by linarith [hcell.2.1], by linarith [hcell.2.2.1], by linarith [hcell.2.2.2]⟩

/-! ### exactly once -/

/-- **a point in the open interior of a face lies in no other face** (closed triangles) -/
theorem mesh_interior_unique (su sv s : ℕ) (hs : 0 < s) (hsu : 2 ≤ su) (hsv : 2 ≤ sv)
    (hu : 2 ≤ gridCount su s) (hv : 2 ≤ gridCount sv s) (p : K × K) (t t' : List ℕ)
    (ht : t ∈ (makeTriangleMesh (K := K) su sv s).faces) (ht' : t' ∈ (makeTriangleMesh (K := K) su sv s).faces)
    (h : inFaceInterior (meshUV (K := K) su sv s) t p) (h' : inFace (meshUV (K := K) su sv s) t' p) : t = t' := by
  have hju : (0 : K) < meshJump su s := meshJump_pos hsu hs
  have hjv : (0 : K) < meshJump sv s := meshJump_pos hsv hs
  obtain ⟨x, y⟩ := p
  rw [makeTriangleMesh_eq su sv s hu hv] at ht ht'
  obtain ⟨i, hi, j, hj, htt⟩ := mem_meshTriangles.1 ht
  obtain ⟨i', hi', j', hj', htt'⟩ := mem_meshTriangles.1 ht'
  -- the open cell of `t` and on which side of the diagonal
  have hopen : (i : K) * meshJump su s < x ∧ x < ((i + 1 : ℕ) : K) * meshJump su s ∧
      (j : K) * meshJump sv s < y ∧ y < ((j + 1 : ℕ) : K) * meshJump sv s := by
    rcases htt with rfl | rfl
    · obtain ⟨a, b, c, d, _⟩ := cell_triA_interior _ _ _ _ x y (cast_succ_mul_lt _ hju i) (cast_succ_mul_lt _ hjv j)
        ((inFaceInterior_A su sv s hu hv i j hi hj _).1 h)
      exact ⟨a, b, c, d⟩
    · obtain ⟨a, b, c, d, _⟩ := cell_triB_interior _ _ _ _ x y (cast_succ_mul_lt _ hju i) (cast_succ_mul_lt _ hjv j)
        ((inFaceInterior_B su sv s hu hv i j hi hj _).1 h)
      exact ⟨a, b, c, d⟩
  have hclosed : (i' : K) * meshJump su s ≤ x ∧ x ≤ ((i' + 1 : ℕ) : K) * meshJump su s ∧
      (j' : K) * meshJump sv s ≤ y ∧ y ≤ ((j' + 1 : ℕ) : K) * meshJump sv s := by
    rcases htt' with rfl | rfl
    · exact cell_tri_sub _ _ _ _ x y (cast_succ_mul_lt _ hju i') (cast_succ_mul_lt _ hjv j')
        (Or.inl ((inFace_A su sv s hu hv i' j' hi' hj' _).1 h'))
    · exact cell_tri_sub _ _ _ _ x y (cast_succ_mul_lt _ hju i') (cast_succ_mul_lt _ hjv j')
        (Or.inr ((inFace_B su sv s hu hv i' j' hi' hj' _).1 h'))
  have ei : i = i' := cell_index_unique _ hju x i i' hopen.1 hopen.2.1 hclosed.1 hclosed.2.1
  have ej : j = j' := cell_index_unique _ hjv y j j' hopen.2.2.1 hopen.2.2.2 hclosed.2.2.1 hclosed.2.2.2
  subst ei ej
  rcases htt with rfl | rfl <;> rcases htt' with rfl | rfl
  · rfl
  · exfalso
    obtain ⟨_, _, _, _, e⟩ := cell_triA_interior _ _ _ _ x y (cast_succ_mul_lt _ hju i) (cast_succ_mul_lt _ hjv j)
      ((inFaceInterior_A su sv s hu hv i j hi hj _).1 h)
    have := ((inFace_B su sv s hu hv i j hi hj _).1 h').1
    exact absurd e (not_lt.2 this)
  · exfalso
    obtain ⟨_, _, _, _, e⟩ := cell_triB_interior _ _ _ _ x y (cast_succ_mul_lt _ hju i) (cast_succ_mul_lt _ hjv j)
      ((inFaceInterior_B su sv s hu hv i j hi hj _).1 h)
    have := ((inFace_A su sv s hu hv i j hi hj _).1 h').2.2
    simp only [cellCross2] at e this
    nlinarith
  · rfl

/-- the open interiors of two different faces are disjoint -/
theorem mesh_interiors_disjoint (su sv s : ℕ) (hs : 0 < s) (hsu : 2 ≤ su) (hsv : 2 ≤ sv)
    (hu : 2 ≤ gridCount su s) (hv : 2 ≤ gridCount sv s) (p : K × K) (t t' : List ℕ)
    (ht : t ∈ (makeTriangleMesh (K := K) su sv s).faces) (ht' : t' ∈ (makeTriangleMesh (K := K) su sv s).faces)
    (hne : t ≠ t') :
    ¬ (inFaceInterior (meshUV (K := K) su sv s) t p ∧ inFaceInterior (meshUV (K := K) su sv s) t' p) :=
  fun ⟨h, h'⟩ => hne (mesh_interior_unique su sv s hs hsu hsv hu hv p t t' ht ht' h h'.closed)

/-- when the spacing divides `size - 1` the last grid line is at parameter 1 -/
theorem last_line_one (k s : ℕ) (hk : 0 < k) (hs : 0 < s) :
    ((gridCount (k * s + 1) s - 1 : ℕ) : K) * meshJump (k * s + 1) s = 1 := by
  rw [gridCount_of_dvd k s hs, Nat.add_sub_cancel, ← accParam_eq]
  exact accParam_last k s hk hs

end Geomdl.Mesh
