import NurbsVerif.Lemmas.RefineX
import NurbsVerif.Lemmas.RefineObj

/-! `operations.refine_knotvector` on a CURVE object (a shape with one parametric direction): the object after the
    call is again a well-formed curve object and every curve point is unchanged. -/
namespace Geomdl
set_option linter.unusedSectionVars false
variable {K : Type} [Field K] [LinearOrder K] [IsStrictOrderedRing K]

/-- a well-formed curve object: one direction, `size = len(ctrlpts)`, well-formed knot vector and polygon -/
structure CurveObjWF (d : ℕ) (S : Shape K) : Prop where
  degs : S.degs.length = 1
  kvs : S.kvs.length = 1
  sizes : S.sizes.length = 1
  size : S.size 0 = S.net.length
  wf : CurveWF (S.deg 0) d (S.kv 0) S.net

/-- the curve point of a 1-direction shape (span by the library's linear search) -/
abbrev curveEval (S : Shape K) (u : K) : List K := curvePoint (S.deg 0) (fnOf (S.kv 0)) S.net u

/-- **`refine_knotvector` on a curve object keeps every curve point** (and returns a well-formed curve object over
    the same domain) – whether or not the call completed -/
theorem refineKnotvector_curve' (d : ℕ) (S : Shape K) (hS : CurveObjWF d S) (dens : List ℕ) (tol : K) (h0 : 0 ≤ tol)
    (hd : dens.getD 0 0 ≠ 0 → DirHyp S 0 (dens.getD 0 0) tol) :
    CurveObjWF d (refineKnotvector S dens tol).1 ∧
    fnOf ((refineKnotvector S dens tol).1.kv 0) ((refineKnotvector S dens tol).1.deg 0) = fnOf (S.kv 0) (S.deg 0) ∧
    fnOf ((refineKnotvector S dens tol).1.kv 0) ((refineKnotvector S dens tol).1.size 0) = fnOf (S.kv 0) (S.size 0) ∧
    ∀ (u : K), fnOf (S.kv 0) (S.deg 0) ≤ u → u ≤ fnOf (S.kv 0) (S.size 0) → ∀ j,
      (curveEval (refineKnotvector S dens tol).1 u).getD j 0 = (curveEval S u).getD j 0 := by
  rw [refineKnotvector_eq]
  unfold Shape.pdim
  rw [hS.degs, show List.range 1 = [0] from rfl]
  simp only [List.foldl_cons, List.foldl_nil]
  unfold refStep
  rw [if_neg (by simp)]
  split_ifs with h2
  · exact ⟨hS, rfl, rfl, fun _ _ _ _ => rfl⟩
  · rw [refineDir_curve S hS.degs hS.size]
    cases hr : knotRefinement (S.deg 0) (S.kv 0) S.net (dens.getD 0 0) tol with
    | none => exact ⟨hS, rfl, rfl, fun _ _ _ _ => rfl⟩
    | some r =>
      obtain ⟨U', P'⟩ := r
      obtain ⟨hend, hsep⟩ := hd h2
      have hend' : ∀ i, S.net.length ≤ i → fnOf (S.kv 0) i = fnOf (S.kv 0) S.net.length := by
        rw [← hS.size]; exact hend
      obtain ⟨w1, w2, w3⟩ := knotRefinement_wf (S.deg 0) d (S.kv 0) S.net (dens.getD 0 0) tol hS.wf hend' h0 hsep U' P' hr
      simp only [Option.map_some]
      have e_kv : ({ S with kvs := S.kvs.set 0 U', sizes := S.sizes.set 0 P'.length, net := P' } : Shape K).kv 0 = U' :=
        getD_set_self _ 0 _ _ (by rw [hS.kvs]; omega)
      have e_sz : ({ S with kvs := S.kvs.set 0 U', sizes := S.sizes.set 0 P'.length, net := P' } : Shape K).size 0
          = P'.length := getD_set_self _ 0 _ _ (by rw [hS.sizes]; omega)
      refine ⟨⟨hS.degs, by simp [hS.kvs], by simp [hS.sizes], e_sz, ?_⟩, ?_, ?_, ?_⟩
      · rw [e_kv]; exact w1
      · rw [e_kv]; exact w2
      · rw [e_kv, e_sz, hS.size]; exact w3
      · intro u hlo hhi j
        unfold curveEval
        rw [e_kv]
        exact knotRefinement_preserves_curve' (S.deg 0) d (S.kv 0) S.net (dens.getD 0 0) tol hS.wf hend' h0 hsep U' P' hr u hlo
          (by rw [← hS.size]; exact hhi) j

end Geomdl
