import NurbsVerif.Lemmas.RefineCount
import Mathlib.Data.List.Count
import Mathlib.Data.List.Sublists

/-! ONE knot insertion (`insertOne`: span by the library's linear search, multiplicity by
    `find_multiplicity`, A5.1 with `r = 1`) in POSITIONAL form: the new knot may be put at any
    position `i` with `V_i ≤ x ≤ V_{i+1}` of the run of equal knots – this is how A5.4 places it
    (in front of its equal copies), whereas A5.1 places it behind them. -/
namespace Geomdl
open Blossom
variable {K : Type} [Field K] [LinearOrder K] [IsStrictOrderedRing K]

/-- explicit positional form of one knot insertion at position `i`, one coordinate -/
def insPos (V : ℕ → K) (p i : ℕ) (x : K) (c : ℕ → K) (m : ℕ) : K :=
  if m + p ≤ i then c m else if m ≤ i then dbStep V p x c m else c (m - 1)

theorem Qpos_one (V : ℕ → K) (p k : ℕ) (x : K) (c : ℕ → K) (m : ℕ) (hp : 1 ≤ p) :
    Qpos V p k 1 x c m = insPos V p k x c m := by
  unfold Qpos jcount mold insPos cj
  by_cases h1 : m + p ≤ k
  · rw [if_pos h1, if_pos (by omega)]
    have : min (m + p) (k + 1) - max m k = 0 := by omega
    rw [this]; simp [polar]
  · rw [if_neg h1]
    by_cases h2 : m ≤ k
    · rw [if_pos h2]
      have : min (m + p) (k + 1) - max m k = 1 := by omega
      rw [this]
      have hm : (if m < k then m else if m < k + 1 then k else m - 1) = m := by
        split_ifs <;> omega
      rw [hm]; simp [polar]
    · rw [if_neg h2]
      have : min (m + p) (k + 1) - max m k = 0 := by omega
      rw [this]
      have hm : (if m < k then m else if m < k + 1 then k else m - 1) = m - 1 := by
        split_ifs <;> omega
      rw [hm]; simp [polar]

/-- a run of equal entries is counted -/
theorem run_le_count (V : List K) (x : K) (lo hi : ℕ) (hhi : hi < V.length)
    (hrun : ∀ t, lo ≤ t → t ≤ hi → fnOf V t = x) : hi + 1 - lo ≤ V.count x := by
  rcases Nat.lt_or_ge hi lo with h | h
  · omega
  have hsub : ((V.drop lo).take (hi + 1 - lo)).Sublist V :=
    (List.take_sublist _ _).trans (List.drop_sublist _ _)
  have hrep : (V.drop lo).take (hi + 1 - lo) = List.replicate (hi + 1 - lo) x := by
    apply List.ext_getElem
    · simp; omega
    · intro n h1 h2
      rw [List.getElem_take, List.getElem_drop, List.getElem_replicate]
      simp at h2
      rw [← fnOf_lt_length V (lo + n) (by omega)]
      exact hrun _ (by omega) (by omega)
  have := hsub.count_le x
  rw [hrep, List.count_replicate_self] at this
  exact this

/-- in a sorted knot vector with at most `p` copies of `x` there are no `p + 1` consecutive copies -/
theorem no_long_run (V : List K) (hm : Monotone (fnOf V)) (x : K) (p : ℕ) (hc : V.count x ≤ p)
    (t : ℕ) (ht : t + p < V.length) (h1 : fnOf V t = x) (h2 : fnOf V (t + p) = x) : False := by
  have := run_le_count V x t (t + p) ht (fun s hs1 hs2 =>
    le_antisymm (by rw [← h2]; exact hm hs2) (by rw [← h1]; exact hm hs1))
  omega

/-- the refined knot function does not depend on where in the run of copies the new knot is put -/
theorem Uh_shift (V : ℕ → K) (hm : Monotone V) (x : K) (i κ : ℕ)
    (hi1 : V i ≤ x) (hi2 : x ≤ V (i+1)) (hκ1 : V κ ≤ x) (hκ2 : x < V (κ+1)) :
    Uh κ 1 x V = Uh i 1 x V := by
  have hiκ : i ≤ κ := by
    by_contra hc
    have : V (κ+1) ≤ V i := hm (by omega)
    exact absurd (lt_of_lt_of_le hκ2 (le_trans this hi1)) (lt_irrefl _)
  have hrun : ∀ t, i < t → t ≤ κ → V t = x := fun t h1 h2 =>
    le_antisymm (le_trans (hm h2) hκ1) (le_trans hi2 (hm (by omega)))
  funext t
  unfold Uh
  by_cases c1 : t ≤ i
  · rw [if_pos (by omega), if_pos c1]
  · rw [if_neg c1]
    by_cases c2 : t ≤ κ
    · rw [if_pos c2, hrun t (by omega) c2]
      by_cases c3 : t ≤ i + 1
      · rw [if_pos c3]
      · rw [if_neg c3, hrun (t - 1) (by omega) (by omega)]
    · rw [if_neg c2]
      by_cases c3 : t ≤ κ + 1
      · rw [if_pos c3]
        by_cases c4 : t ≤ i + 1
        · rw [if_pos c4]
        · rw [if_neg c4, hrun (t - 1) (by omega) (by omega)]
      · rw [if_neg c3, if_neg (by omega)]

/-- … and neither do the new control points -/
theorem insPos_shift (V : ℕ → K) (hm : Monotone V) (x : K) (p i κ : ℕ) (hp : 1 ≤ p)
    (hi1 : V i ≤ x) (hi2 : x ≤ V (i+1)) (hκ1 : V κ ≤ x) (hκ2 : x < V (κ+1))
    (hrun : ∀ t, t + p ≤ κ → V t = x → V (t + p) = x → False) (c : ℕ → K) (m : ℕ) :
    insPos V p κ x c m = insPos V p i x c m := by
  have hiκ : i ≤ κ := by
    by_contra hc
    have : V (κ+1) ≤ V i := hm (by omega)
    exact absurd (lt_of_lt_of_le hκ2 (le_trans this hi1)) (lt_irrefl _)
  have hr : ∀ t, i < t → t ≤ κ → V t = x := fun t h1 h2 =>
    le_antisymm (le_trans (hm h2) hκ1) (le_trans hi2 (hm (by omega)))
  unfold insPos
  by_cases c1 : m + p ≤ i
  · rw [if_pos c1, if_pos (by omega)]
  · rw [if_neg c1]
    by_cases c2 : m ≤ i
    · rw [if_pos c2]
      by_cases c3 : m + p ≤ κ
      · -- A5.1 copies, A5.4 blends with weight 0 on the left neighbour
        rw [if_pos c3]
        have e : V (m + p) = x := hr _ (by omega) c3
        have hne : V m ≠ x := fun h => hrun m c3 h e
        unfold dbStep
        rw [e, sub_self, zero_mul, zero_add, mul_div_assoc, mul_comm, div_mul_cancel₀]
        · exact sub_ne_zero.mpr (Ne.symm hne)
      · rw [if_neg c3, if_pos (by omega)]
    · rw [if_neg c2]
      by_cases c3 : m + p ≤ κ
      · exact absurd (hr (m + p) (by omega) c3) (fun e => hrun m c3 (hr m (by omega) (by omega)) e)
      · rw [if_neg c3]
        by_cases c4 : m ≤ κ
        · -- A5.1 blends with weight 0 on the right neighbour, A5.4 copies
          rw [if_pos c4]
          have e : V m = x := hr m (by omega) c4
          have hgt : x < V (m + p) := lt_of_lt_of_le hκ2 (hm (by omega))
          unfold dbStep
          rw [e, sub_self, zero_mul, add_zero, mul_comm, mul_div_assoc, div_self, mul_one]
          exact sub_ne_zero.mpr (ne_of_gt hgt)
        · rw [if_neg c4]

/-- **`insertOne` in positional form**: for any position `i` with `V_i ≤ x ≤ V_{i+1}` the state after
    one library insertion (A5.1, `r = 1`) has the knots `Uh i 1 x V` and, coordinate by coordinate, the
    control points `insPos V p i x` -/
theorem insertOne_pos (p d : ℕ) (tol : K) (V : List K) (Q : List (List K)) (x : K) (i : ℕ)
    (hwf : CurveWF p d V Q) (hreq : ReqOk p (V, Q) (x, 1, findMultiplicity x V tol))
    (hcnt : V.count x ≤ p) (hi1 : fnOf V i ≤ x) (hi2 : x ≤ fnOf V (i+1)) :
    fnOf (insertOne p tol (V, Q) x).1 = Uh i 1 x (fnOf V) ∧
    (insertOne p tol (V, Q) x).1.length = V.length + 1 ∧
    (insertOne p tol (V, Q) x).2.length = Q.length + 1 ∧
    NetOk d (insertOne p tol (V, Q) x).2 ∧
    ∀ m, m < Q.length + 1 → ∀ jc, (ptsGet (insertOne p tol (V, Q) x).2 m).getD jc 0
        = insPos (fnOf V) p i x (fun t => (ptsGet Q t).getD jc 0) m := by
  obtain ⟨hub1, hub2, hmult, _, hrs⟩ := hreq
  simp only at hub1 hub2 hmult hrs
  set s := findMultiplicity x V tol with hs
  set κ := findSpanLinear p (fnOf V) Q.length x with hκ
  obtain ⟨k1, k2, k3, k4⟩ := findSpanLinear_spec p (fnOf V) Q.length x hwf.pn hwf.mono hub1
  change p ≤ κ at k1; change κ < Q.length at k2; change fnOf V κ ≤ x at k3
  have hk2 : x < fnOf V (κ+1) := by
    rcases k4 with h | h
    · exact h
    · change κ + 1 = Q.length at h; rw [h]; exact hub2
  have hlen := hwf.len
  have e1 : (insertOne p tol (V, Q) x).1 = knotInsertionKv V x κ 1 := rfl
  have e2 : (insertOne p tol (V, Q) x).2 = knotInsertion p (fnOf V) Q x 1 s κ := rfl
  have hp : 1 ≤ p := by omega
  refine ⟨?_, ?_, ?_, ?_, ?_⟩
  · rw [e1, fnOf_knotInsertionKv V x κ 1 (by omega)]
    exact Uh_shift (fnOf V) hwf.mono x i κ hi1 hi2 k3 hk2
  · rw [e1]
    simp only [knotInsertionKv, List.length_append, List.length_take, List.length_replicate, List.length_drop]
    omega
  · rw [e2, knotInsertion_length]
  · rw [e2]; exact knotInsertion_netOk p (fnOf V) Q x 1 s κ d hwf.net k1 k2 hrs (by omega)
  · intro m hm jc
    rw [e2, knotInsertion_coord p (fnOf V) Q x 1 s κ d jc hwf.net k1 k2 hrs m hm]
    rw [Qcode_eq_Qpos (fnOf V) x _ κ p s 1 (sep_of_mono (fnOf V) κ hwf.mono (lt_of_le_of_lt k3 hk2)) k1 (le_refl _) hrs
          hmult m]
    rw [Qpos_one _ _ _ _ _ _ hp]
    exact insPos_shift (fnOf V) hwf.mono x p i κ hp hi1 hi2 k3 hk2
      (fun t ht h1 h2 => no_long_run V hwf.mono x p hcnt t (by omega) h1 h2) _ m

end Geomdl
