import NurbsVerif.Lemmas.FitParams
import NurbsVerif.Lemmas.EvalSpec
import NurbsVerif.Model.Knots2

/-! Concrete data for the non-vacuity examples of `Props/C17.lean`. -/
namespace Geomdl

/-- the knot vector of the examples -/
def cfgKv : List ℚ := [0,0,0,1,2,2,4,5,5,5]
/-- the control net of the examples -/
def cfgNet : List (List ℚ) := [[0,0,1],[1,2,2],[3,1,1],[4,4,3],[5,0,1],[6,2,2],[7,7,1]]
/-- the curve of the examples as a shape -/
def cfgShape : Shape ℚ := { rat := false, degs := [2], kvs := [cfgKv], sizes := [7], net := cfgNet }

theorem cfgNet_ok : NetOk 3 cfgNet := by unfold NetOk; decide

theorem cfgKv_mono : Monotone (fnOf cfgKv) := fnOf_monotone_of_isSortedB cfgKv (by decide +kernel)

end Geomdl
