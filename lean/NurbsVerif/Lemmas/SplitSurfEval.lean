import NurbsVerif.Lemmas.SplitSurfV

/-! A surface whose iso-curves (rows, resp. columns) coincide with those of another surface under a
    re-parametrisation coincides with it; the other direction may be normalised. -/
set_option linter.unusedSectionVars false
namespace Geomdl
open Blossom Finset
variable {K : Type} [Field K] [LinearOrder K] [IsStrictOrderedRing K]

/-- A2.2 on a normalised knot vector at the normalised parameter -/
theorem basisFuns_normalize (p : ℕ) (V : List K) (κ : ℕ) (u : K) (hne : V ≠ [])
    (hrange : V.getLastD 0 - V.headD 0 ≠ 0) :
    basisFuns p (fnOf (knotNormalize V)) κ ((u - V.headD 0) / (V.getLastD 0 - V.headD 0))
      = basisFuns p (fnOf V) κ u := by
  have hfun : fnOf (knotNormalize V) = fun i => (1 / (V.getLastD 0 - V.headD 0)) * fnOf V i + (-(V.headD 0) / (V.getLastD 0 - V.headD 0)) :=
    funext (fun i => fnOf_knotNormalize V i hne)
  have hu : (u - V.headD 0) / (V.getLastD 0 - V.headD 0)
      = (1 / (V.getLastD 0 - V.headD 0)) * u + (-(V.headD 0) / (V.getLastD 0 - V.headD 0)) := by ring
  rw [hfun, hu, basisFuns_affine (fnOf V) κ u _ _ (one_div_ne_zero hrange) p]

/-- **rows**: if every row of `PA` (v size `nA`, v knots `UA`) at `t` is the corresponding row of `P` at
    `v`, the surface `PA` with normalised u knots at `(normalised u, t)` is the surface `P` at `(u, v)` -/
theorem surface_rows_eval (pu pv d : ℕ) (Uu UA Uv : List K) (su nA sv : ℕ) (PA P : List (List K)) (u t v : K) (j : ℕ)
    (hUm : Monotone (fnOf Uu)) (hUne : Uu ≠ []) (hUr : Uu.headD 0 < Uu.getLastD 0) (hsu : pu + 1 ≤ su)
    (hu : fnOf Uu pu ≤ u)
    (hPA : NetOk d PA) (hlenA : PA.length = su * nA) (hP : NetOk d P) (hlenP : P.length = su * sv)
    (hA : pv ≤ findSpanLinear pv (fnOf UA) nA t ∧ findSpanLinear pv (fnOf UA) nA t < nA)
    (hV : pv ≤ findSpanLinear pv (fnOf Uv) sv v ∧ findSpanLinear pv (fnOf Uv) sv v < sv)
    (hrows : ∀ x, x < su → (curvePoint pv (fnOf UA) (rowOf nA PA x) t).getD j 0
        = (curvePoint pv (fnOf Uv) (rowOf sv P x) v).getD j 0) :
    (surfacePoint pu pv (fnOf (knotNormalize Uu)) (fnOf UA) su nA PA
        ((u - Uu.headD 0) / (Uu.getLastD 0 - Uu.headD 0)) t).getD j 0
      = (surfacePoint pu pv (fnOf Uu) (fnOf Uv) su sv P u v).getD j 0 := by
  obtain ⟨a1, a2, _, _⟩ := findSpanLinear_spec pu (fnOf Uu) su u hsu hUm hu
  unfold surfacePoint
  rw [findSpanLinear_normalize pu Uu su u hUne hUr]
  rw [surfacePointAt_rows pu pv _ _ su nA PA _ _ _ t d j a1 hA.1 a2 hA.2 hlenA hPA]
  rw [surfacePointAt_rows pu pv _ _ su sv P _ _ u v d j a1 hV.1 a2 hV.2 hlenP hP]
  rw [basisFuns_normalize pu Uu _ u hUne (ne_of_gt (sub_pos.mpr hUr))]
  apply Finset.sum_congr rfl
  intro a ha
  rw [Finset.mem_range] at ha
  congr 1
  have := hrows (findSpanLinear pu (fnOf Uu) su u - pu + a) (by omega)
  unfold curvePoint at this
  rw [rowOf_length, rowOf_length] at this
  exact this

end Geomdl
