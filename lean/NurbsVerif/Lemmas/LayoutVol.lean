/-
  Lemmas for C13 (control-net layout), part 3: `extract_surfaces` / `construct_volume` round trips
  (repaired code in all three directions, pinned code in direction `w`), sweeps, and the in-place
  form of the `ctrlpts2d` setter.
-/
import NurbsVerif.Lemmas.LayoutOps

namespace Geomdl
variable {α κ : Type} [Inhabited α]

/-! ### the three extracted families as tables -/

theorem extractSurfacesUV_eq (V : Vol α κ) (hsu : 0 < V.su) :
    extractSurfacesUV V = (List.range V.sw).map fun w =>
      ({ du := V.du, dv := V.dv, ku := V.ku, kv := V.kv, su := V.su, sv := V.sv,
         pts := tab2 V.su V.sv fun u v => V.pts.getD (v + V.sv * (u + V.su * w)) default } : Srf α κ) := by
  unfold extractSurfacesUV
  apply List.map_congr_left
  intro w _
  exact srfOf2d_grid2 _ _ _ _ _ hsu

theorem extractSurfacesUW_eq (V : Vol α κ) (hsu : 0 < V.su) :
    extractSurfacesUW V = (List.range V.sv).map fun v =>
      ({ du := V.du, dv := V.dw, ku := V.ku, kv := V.kw, su := V.su, sv := V.sw,
         pts := tab2 V.su V.sw fun u w => V.pts.getD (v + V.sv * (u + V.su * w)) default } : Srf α κ) := by
  unfold extractSurfacesUW
  apply List.map_congr_left
  intro w _
  exact srfOf2d_grid2 _ _ _ _ _ hsu

theorem extractSurfacesVW_eq (V : Vol α κ) (hsv : 0 < V.sv) :
    extractSurfacesVW V = (List.range V.su).map fun u =>
      ({ du := V.dv, dv := V.dw, ku := V.kv, kv := V.kw, su := V.sv, sv := V.sw,
         pts := tab2 V.sv V.sw fun v w => V.pts.getD (v + V.sv * (u + V.su * w)) default } : Srf α κ) := by
  unfold extractSurfacesVW
  apply List.map_congr_left
  intro w _
  exact srfOf2d_grid2 _ _ _ _ _ hsv

theorem head?_map_range {β : Type} (f : ℕ → β) {n : ℕ} (hn : 0 < n) :
    ((List.range n).map f).head? = some (f 0) := by
  obtain ⟨m, rfl⟩ : ∃ m, n = m + 1 := ⟨n - 1, by omega⟩
  simp [List.range_succ_eq_map]

/-! ### round trips -/

/-- direction `w` – the same statement holds for the pinned code (`volPermPinned Dir.w = id` too) -/
theorem constructWith_extract_w (perm : Dir → ℕ → ℕ → ℕ → List α → List α)
    (hperm : ∀ n a b l, perm Dir.w n a b l = l) (V : Vol α κ) (h : V.WF) :
    constructVolumeWith perm Dir.w V.dw V.kw (extractSurfacesUV V) = some V := by
  obtain ⟨hl, hsu, hsv, hsw⟩ := h
  rw [extractSurfacesUV_eq V (by omega)]
  rw [constructVolumeWith_of_head perm Dir.w V.dw V.kw (head?_map_range _ (by omega)) (by simp; omega)
    (by intro s hs; simp at hs; obtain ⟨a, _, rfl⟩ := hs; simp)]
  simp only [hperm, List.flatMap_map, List.length_map, List.length_range]
  have e : ((List.range V.sw).flatMap fun w =>
      tab2 V.su V.sv fun u v => V.pts.getD (v + V.sv * (u + V.su * w)) default)
      = tab3 V.sw V.su V.sv (fun w u v => V.pts.getD (v + V.sv * (u + V.su * w)) default) := rfl
  rw [e, tab3_getD_self hl]

theorem construct_extract_vol_w (V : Vol α κ) (h : V.WF) :
    constructVolume Dir.w V.dw V.kw (extractSurfacesUV V) = some V :=
  constructWith_extract_w volPerm (fun _ _ _ _ => rfl) V h

theorem constructPinned_extract_vol_w (V : Vol α κ) (h : V.WF) :
    constructVolumePinned Dir.w V.dw V.kw (extractSurfacesUV V) = some V :=
  constructWith_extract_w volPermPinned (fun _ _ _ _ => rfl) V h

theorem construct_extract_vol_u (V : Vol α κ) (h : V.WF) :
    constructVolume Dir.u V.du V.ku (extractSurfacesVW V) = some V := by
  obtain ⟨hl, hsu, hsv, hsw⟩ := h
  unfold constructVolume
  rw [extractSurfacesVW_eq V (by omega)]
  rw [constructVolumeWith_of_head volPerm Dir.u V.du V.ku (head?_map_range _ (by omega)) (by simp; omega)
    (by intro s hs; simp at hs; obtain ⟨a, _, rfl⟩ := hs; simp)]
  simp only [List.flatMap_map, List.length_map, List.length_range]
  have e : ((List.range V.su).flatMap fun u =>
      tab2 V.sv V.sw fun v w => V.pts.getD (v + V.sv * (u + V.su * w)) default)
      = tab3 V.su V.sv V.sw (fun u v w => V.pts.getD (v + V.sv * (u + V.su * w)) default) := rfl
  rw [e]
  have e2 : volPerm Dir.u V.su V.sv V.sw
        (tab3 V.su V.sv V.sw (fun u v w => V.pts.getD (v + V.sv * (u + V.su * w)) default))
      = tab3 V.sw V.su V.sv (fun w u v => V.pts.getD (v + V.sv * (u + V.su * w)) default) := by
    unfold volPerm
    apply tab3_congr
    intro w hw u hu v hv
    have e3 : w + v * V.sw + u * V.sv * V.sw = w + V.sw * (v + V.sv * u) := by ring
    rw [e3, getD_tab3 _ hu hv hw]
  rw [e2, tab3_getD_self hl]

theorem construct_extract_vol_v (V : Vol α κ) (h : V.WF) :
    constructVolume Dir.v V.dv V.kv (extractSurfacesUW V) = some V := by
  obtain ⟨hl, hsu, hsv, hsw⟩ := h
  unfold constructVolume
  rw [extractSurfacesUW_eq V (by omega)]
  rw [constructVolumeWith_of_head volPerm Dir.v V.dv V.kv (head?_map_range _ (by omega)) (by simp; omega)
    (by intro s hs; simp at hs; obtain ⟨a, _, rfl⟩ := hs; simp)]
  simp only [List.flatMap_map, List.length_map, List.length_range]
  have e : ((List.range V.sv).flatMap fun v =>
      tab2 V.su V.sw fun u w => V.pts.getD (v + V.sv * (u + V.su * w)) default)
      = tab3 V.sv V.su V.sw (fun v u w => V.pts.getD (v + V.sv * (u + V.su * w)) default) := rfl
  rw [e]
  have e2 : volPerm Dir.v V.sv V.su V.sw
        (tab3 V.sv V.su V.sw (fun v u w => V.pts.getD (v + V.sv * (u + V.su * w)) default))
      = tab3 V.sw V.su V.sv (fun w u v => V.pts.getD (v + V.sv * (u + V.su * w)) default) := by
    unfold volPerm
    apply tab3_congr
    intro w hw u hu v hv
    have e3 : w + u * V.sw + v * V.su * V.sw = w + V.sw * (u + V.su * v) := by ring
    rw [e3, getD_tab3 _ hv hu hw]
  rw [e2, tab3_getD_self hl]

/-! ### the accessor statements for the extracted families -/

theorem extractSurfacesUV_at (V : Vol α κ) {u v w : ℕ} (hu : u < V.su) (hv : v < V.sv) (hw : w < V.sw) :
    ((extractSurfacesUV V)[w]?.map fun S => S.at u v) = some (V.at u v w) := by
  rw [extractSurfacesUV_eq V (by omega)]
  simp only [List.getElem?_map, List.getElem?_range hw, Option.map_some]
  unfold Srf.at Vol.at flatIdx2 flatIdx3
  simp only [getD_tab2 _ hu hv]

theorem extractSurfacesUW_at (V : Vol α κ) {u v w : ℕ} (hu : u < V.su) (hv : v < V.sv) (hw : w < V.sw) :
    ((extractSurfacesUW V)[v]?.map fun S => S.at u w) = some (V.at u v w) := by
  rw [extractSurfacesUW_eq V (by omega)]
  simp only [List.getElem?_map, List.getElem?_range hv, Option.map_some]
  unfold Srf.at Vol.at flatIdx2 flatIdx3
  simp only [getD_tab2 _ hu hw]

theorem extractSurfacesVW_at (V : Vol α κ) {u v w : ℕ} (hu : u < V.su) (hv : v < V.sv) (hw : w < V.sw) :
    ((extractSurfacesVW V)[u]?.map fun S => S.at v w) = some (V.at u v w) := by
  rw [extractSurfacesVW_eq V (by omega)]
  simp only [List.getElem?_map, List.getElem?_range hu, Option.map_some]
  unfold Srf.at Vol.at flatIdx2 flatIdx3
  simp only [getD_tab2 _ hv hw]

theorem extractCurvesV_at (S : Srf α κ) {u v : ℕ} (hu : u < S.su) (hv : v < S.sv) :
    ((extractCurvesV S)[u]?.map fun C => C.pts.getD v default) = some (S.at u v) := by
  unfold extractCurvesV Srf.at flatIdx2
  simp [List.getElem?_range hu, List.getD_eq_getElem?_getD, hv]

theorem extractCurvesU_at (S : Srf α κ) {u v : ℕ} (hu : u < S.su) (hv : v < S.sv) :
    ((extractCurvesU S)[v]?.map fun C => C.pts.getD u default) = some (S.at u v) := by
  unfold extractCurvesU Srf.at flatIdx2
  simp [List.getElem?_range hv, List.getD_eq_getElem?_getD, hu]

/-! ### sweeps -/

theorem sweepCurve_eq (tr : α → α) (kvGen : κ) (C : Crv α κ) :
    sweepCurve tr kvGen C = some { du := 1, dv := C.deg, ku := kvGen, kv := C.kv, su := 2,
                                   sv := C.pts.length, pts := C.pts ++ C.pts.map tr } := by
  unfold sweepCurve sweepCurveDeg
  rw [if_neg (by omega)]
  rw [constructSurface_of_head (c0 := C) Dir.u 1 kvGen rfl (by simp)
    (by intro c hc; simp at hc; rcases hc with rfl | rfl <;> simp)]
  simp

theorem sweepCurvePinned_eq_none (tr : α → α) (kvGen : κ) (C : Crv α κ) :
    sweepCurvePinned tr kvGen C = none := by
  unfold sweepCurvePinned sweepCurveDeg
  rw [if_pos (by omega)]

theorem getD_append_flat {P Q : List α} {n : ℕ} (hP : P.length = n) (b : ℕ) (hb : b < n) (a : ℕ) (ha : a < 2) :
    (P ++ Q).getD (b + n * a) default = if a = 0 then P.getD b default else Q.getD b default := by
  rw [List.getD_eq_getElem?_getD, List.getD_eq_getElem?_getD, List.getD_eq_getElem?_getD]
  rcases Nat.lt_succ_iff_lt_or_eq.1 ha with h | h
  · have : a = 0 := by omega
    subst this
    simp only [Nat.mul_zero, Nat.add_zero, if_true]
    rw [List.getElem?_append_left (by rw [hP]; exact hb)]
  · subst h
    simp only [Nat.mul_one, one_ne_zero, if_false]
    rw [List.getElem?_append_right (by rw [hP]; omega), hP]
    congr 2; omega

/-- the two `u`-sections of the swept surface are the input curve and its translate -/
theorem extractCurvesV_sweep (tr : α → α) (kvGen : κ) (C : Crv α κ) :
    extractCurvesV ({ du := 1, dv := C.deg, ku := kvGen, kv := C.kv, su := 2,
                      sv := C.pts.length, pts := C.pts ++ C.pts.map tr } : Srf α κ)
      = [C, { C with pts := C.pts.map tr }] := by
  unfold extractCurvesV
  simp only [List.range_succ, List.range_zero, List.nil_append, List.map_cons, List.map_nil,
    List.cons_append]
  have e0 : ((List.range C.pts.length).map fun v => (C.pts ++ C.pts.map tr).getD (v + C.pts.length * 0) default)
      = C.pts := by
    apply List.ext_getElem?
    intro i
    by_cases hi : i < C.pts.length
    · simp only [List.getElem?_map, List.getElem?_range hi, Option.map_some]
      rw [getD_append_flat rfl i hi 0 (by omega), if_pos rfl]
      exact (getElem?_of_getD hi).symm
    · rw [List.getElem?_eq_none (by simp; omega), List.getElem?_eq_none (by omega)]
  have e1 : ((List.range C.pts.length).map fun v => (C.pts ++ C.pts.map tr).getD (v + C.pts.length * 1) default)
      = C.pts.map tr := by
    apply List.ext_getElem?
    intro i
    by_cases hi : i < C.pts.length
    · simp only [List.getElem?_map (l := List.range _), List.getElem?_range hi, Option.map_some]
      rw [getD_append_flat rfl i hi 1 (by omega), if_neg (by omega)]
      exact (getElem?_of_getD (by simp; exact hi)).symm
    · rw [List.getElem?_eq_none (by simp; omega), List.getElem?_eq_none (by simp; omega)]
  rw [e0, e1]

theorem sweepSurface_eq (tr : α → α) (kvGen : κ) (S : Srf α κ) :
    sweepSurface tr kvGen S = some { du := S.du, dv := S.dv, dw := 1, ku := S.ku, kv := S.kv, kw := kvGen,
                                     su := S.su, sv := S.sv, sw := 2, pts := S.pts ++ S.pts.map tr } := by
  unfold sweepSurface constructVolume
  rw [constructVolumeWith_of_head (s0 := S) volPerm Dir.w 1 kvGen rfl (by simp)
    (by intro c hc; simp at hc; rcases hc with rfl | rfl <;> simp)]
  simp [volPerm]

/-- the two `w`-sections of the swept volume are the input surface and its translate -/
theorem extractSurfacesUV_sweep (tr : α → α) (kvGen : κ) (S : Srf α κ) (h : S.WF) :
    extractSurfacesUV ({ du := S.du, dv := S.dv, dw := 1, ku := S.ku, kv := S.kv, kw := kvGen,
                         su := S.su, sv := S.sv, sw := 2, pts := S.pts ++ S.pts.map tr } : Vol α κ)
      = [S, { S with pts := S.pts.map tr }] := by
  obtain ⟨hl, hsu, hsv⟩ := h
  rw [extractSurfacesUV_eq _ (by show 0 < S.su; omega)]
  simp only [List.range_succ, List.range_zero, List.nil_append, List.map_cons, List.map_nil,
    List.cons_append]
  have hidx : ∀ u v w, v + S.sv * (u + S.su * w) = (v + S.sv * u) + (S.su * S.sv) * w := by intros; ring
  have e0 : tab2 S.su S.sv (fun u v => (S.pts ++ S.pts.map tr).getD (v + S.sv * (u + S.su * 0)) default) = S.pts := by
    symm; apply eq_tab2 hl
    intro a ha b hb
    rw [hidx, getD_append_flat hl (b + S.sv * a) (flatIdx2_lt ha hb) 0 (by omega), if_pos rfl]
    exact getElem?_of_getD (by rw [hl]; exact flatIdx2_lt ha hb)
  have e1 : tab2 S.su S.sv (fun u v => (S.pts ++ S.pts.map tr).getD (v + S.sv * (u + S.su * 1)) default)
      = S.pts.map tr := by
    symm; apply eq_tab2 (by simp [hl])
    intro a ha b hb
    rw [hidx, getD_append_flat hl (b + S.sv * a) (flatIdx2_lt ha hb) 1 (by omega), if_neg (by omega)]
    exact getElem?_of_getD (by simp [hl]; exact flatIdx2_lt ha hb)
  rw [e0, e1]

/-! ### the `ctrlpts2d` setter as written (in-place assignment) -/

/-- a fold of in-place assignments at pairwise different positions: position `idx x` holds `val x` -/
theorem foldl_set_getElem? {β : Type} (idx : β → ℕ) (val : β → α) :
    ∀ (xs : List β) (init : List α), (xs.map idx).Nodup → ∀ x ∈ xs, idx x < init.length →
      (xs.foldl (fun acc y => acc.set (idx y) (val y)) init)[idx x]? = some (val x)
  | [], _, _, x, hx, _ => by simp at hx
  | y :: ys, init, hnd, x, hx, hlt => by
      simp only [List.map_cons, List.nodup_cons] at hnd
      simp only [List.foldl_cons]
      rcases List.mem_cons.1 hx with rfl | hx'
      · -- later assignments do not touch `idx x`
        have key : ∀ (zs : List β) (l : List α), idx x ∉ zs.map idx →
            (zs.foldl (fun acc y => acc.set (idx y) (val y)) l)[idx x]? = l[idx x]? := by
          intro zs
          induction zs with
          | nil => intro l _; rfl
          | cons z zs ih =>
            intro l hz
            simp only [List.map_cons, List.mem_cons, not_or] at hz
            simp only [List.foldl_cons]
            rw [ih _ hz.2, List.getElem?_set, if_neg (fun e => hz.1 e.symm)]
        rw [key ys _ hnd.1, List.getElem?_set]; simp [hlt]
      · exact foldl_set_getElem? idx val ys _ hnd.2 x hx' (by simp; exact hlt)

theorem length_foldl_set {β : Type} (idx : β → ℕ) (val : β → α) :
    ∀ (xs : List β) (init : List α), (xs.foldl (fun acc y => acc.set (idx y) (val y)) init).length = init.length
  | [], _ => rfl
  | y :: ys, init => by simp only [List.foldl_cons]; rw [length_foldl_set idx val ys]; simp

theorem setCtrlpts2dLoop_eq (G : List (List α)) : setCtrlpts2dLoop G = setCtrlpts2d G := by
  unfold setCtrlpts2dLoop setCtrlpts2d
  simp only
  congr 2
  set su := G.length
  set sv := (G.headD []).length
  -- the nested loops are one fold over the list of index pairs in loop order
  have flat : ∀ init : List α,
      (List.range su).foldl (fun acc u => (List.range sv).foldl (fun acc v => acc.set (v + sv * u) (get2 G u v)) acc) init
      = (tab2 su sv (fun u v => (u, v))).foldl (fun acc (p : ℕ × ℕ) => acc.set (p.2 + sv * p.1) (get2 G p.1 p.2)) init := by
    intro init
    unfold tab2
    rw [List.foldl_flatMap]
    congr 1
    funext acc u
    rw [List.foldl_map]
  rw [flat]
  apply eq_tab2
  · rw [length_foldl_set (fun p : ℕ × ℕ => p.2 + sv * p.1) (fun p => get2 G p.1 p.2)]; simp
  · intro a ha b hb
    have hnd : ((tab2 su sv (fun u v => (u, v))).map (fun p : ℕ × ℕ => p.2 + sv * p.1)).Nodup := by
      have e : (tab2 su sv (fun u v => (u, v))).map (fun p : ℕ × ℕ => p.2 + sv * p.1) = List.range (su * sv) := by
        apply List.ext_getElem?
        intro i
        by_cases hi : i < su * sv
        · obtain ⟨h1, h2, h3⟩ := flatIdx2_divmod hi
          unfold flatIdx2 at h3
          rw [List.getElem?_range hi, List.getElem?_map]
          conv_lhs => rw [← h3]
          rw [getElem?_tab2 _ h1 h2]; simp [h3]
        · rw [List.getElem?_eq_none (by simp [length_tab2]; omega), List.getElem?_eq_none (by simp; omega)]
      rw [e]; exact List.nodup_range
    have hmem : (a, b) ∈ tab2 su sv (fun u v => (u, v)) :=
      List.mem_of_getElem? (getElem?_tab2 (fun u v => (u, v)) ha hb)
    exact foldl_set_getElem? (fun p : ℕ × ℕ => p.2 + sv * p.1) (fun p => get2 G p.1 p.2) _ _ hnd (a, b) hmem
      (by simp; exact flatIdx2_lt ha hb)

end Geomdl

namespace Geomdl

/-- the recorded witness of F-13a: a 2×3×4 net with 24 different entries, degrees 1, 2, 3 -/
def c13WitnessVol : Vol ℕ Unit :=
  { du := 1, dv := 2, dw := 3, ku := (), kv := (), kw := (), su := 2, sv := 3, sw := 4, pts := List.range 24 }

/-- a 2×3 net with 6 different entries, degrees 1, 2 -/
def c13WitnessSrf : Srf ℕ Unit :=
  { du := 1, dv := 2, ku := (), kv := (), su := 2, sv := 3, pts := List.range 6 }

end Geomdl
