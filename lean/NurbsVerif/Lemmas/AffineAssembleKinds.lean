import NurbsVerif.Lemmas.AffineAssembleXform
import NurbsVerif.Lemmas.AssembleWF
import NurbsVerif.Lemmas.FitParams

/-!
  C10, assembly part 5: the statements of `AffineAssembleXform` spelled out per kind of shape, directly
  in terms of `curvePoint` / `surfacePoint` / `volumePoint` (`crvEval`, `surfEval`, `volEval` of the shape),
  non-rational and rational (`project`), for the three transformations at once.
-/
namespace Geomdl
open Blossom Finset
variable {K : Type} [Field K] [LinearOrder K] [IsStrictOrderedRing K]

/-- parameter tuple -/
def tup3 (u v w : K) : ℕ → K
  | 0 => u
  | 1 => v
  | _ => w

theorem pointAt_curve_nonrat (T : Shape K) (t : ℕ → K) (h1 : T.pdim = 1) (hr : T.rat = false) :
    T.pointAt t = crvEval T (t 0) := by
  rw [pointAt_curve T t h1, hr]; rfl

theorem pointAt_curve_rat (T : Shape K) (t : ℕ → K) (h1 : T.pdim = 1) (hr : T.rat = true) :
    T.pointAt t = project (crvEval T (t 0)) := by
  rw [pointAt_curve T t h1, hr]; rfl

theorem pointAt_surface_nonrat (T : Shape K) (t : ℕ → K) (h2 : T.pdim = 2) (hr : T.rat = false) :
    T.pointAt t = surfEval T (t 0) (t 1) := by
  rw [pointAt_surface T t h2, hr]; rfl

theorem pointAt_surface_rat (T : Shape K) (t : ℕ → K) (h2 : T.pdim = 2) (hr : T.rat = true) :
    T.pointAt t = project (surfEval T (t 0) (t 1)) := by
  rw [pointAt_surface T t h2, hr]; rfl

theorem pointAt_volume_nonrat (T : Shape K) (t : ℕ → K) (h3 : T.pdim = 3) (hr : T.rat = false) :
    T.pointAt t = volEval T (t 0) (t 1) (t 2) := by
  rw [pointAt_volume T t h3, hr]; rfl

theorem pointAt_volume_rat (T : Shape K) (t : ℕ → K) (h3 : T.pdim = 3) (hr : T.rat = true) :
    T.pointAt t = project (volEval T (t 0) (t 1) (t 2)) := by
  rw [pointAt_volume T t h3, hr]; rfl

theorem inDom_curve (S : Shape K) (h1 : S.pdim = 1) (u : K)
    (hu1 : fnOf (S.kv 0) (S.deg 0) ≤ u) (hu2 : u ≤ fnOf (S.kv 0) (S.size 0)) : S.InDom (tup3 u u u) := by
  intro i hi
  have : i = 0 := by omega
  subst this
  exact ⟨hu1, hu2⟩

theorem inDom_surface (S : Shape K) (h2 : S.pdim = 2) (u v : K)
    (hu1 : fnOf (S.kv 0) (S.deg 0) ≤ u) (hu2 : u ≤ fnOf (S.kv 0) (S.size 0))
    (hv1 : fnOf (S.kv 1) (S.deg 1) ≤ v) (hv2 : v ≤ fnOf (S.kv 1) (S.size 1)) : S.InDom (tup3 u v v) := by
  intro i hi
  rcases i with _ | _ | i
  · exact ⟨hu1, hu2⟩
  · exact ⟨hv1, hv2⟩
  · omega

theorem inDom_volume (S : Shape K) (h3 : S.pdim = 3) (u v w : K)
    (hu1 : fnOf (S.kv 0) (S.deg 0) ≤ u) (hu2 : u ≤ fnOf (S.kv 0) (S.size 0))
    (hv1 : fnOf (S.kv 1) (S.deg 1) ≤ v) (hv2 : v ≤ fnOf (S.kv 1) (S.size 1))
    (hw1 : fnOf (S.kv 2) (S.deg 2) ≤ w) (hw2 : w ≤ fnOf (S.kv 2) (S.size 2)) : S.InDom (tup3 u v w) := by
  intro i hi
  rcases i with _ | _ | _ | i
  · exact ⟨hu1, hu2⟩
  · exact ⟨hv1, hv2⟩
  · exact ⟨hw1, hw2⟩
  · omega

/-! ### curves -/

theorem curve_transforms {d : ℕ} {S : Shape K} (h : ShapeWF d S) (h1 : S.pdim = 1) (hr : S.rat = false) (u : K)
    (hu1 : fnOf (S.kv 0) (S.deg 0) ≤ u) (hu2 : u ≤ fnOf (S.kv 0) (S.size 0)) :
    (∀ v : List K, v.length = d → crvEval (translate S v) u = translatePt v (crvEval S u)) ∧
    (∀ m : K, crvEval (scale S m) u = scalePt m (crvEval S u)) ∧
    (∀ (axis : ℕ) (c s : K), d = 2 ∨ d = 3 →
      crvEval (rotate S axis c s) u = rotateAbout axis c s (startPoint S) (crvEval S u)) := by
  have ht := inDom_curve S h1 u hu1 hu2
  have e := pointAt_curve_nonrat S (tup3 u u u) h1 hr
  refine ⟨fun v hv => ?_, fun m => ?_, fun axis c s hd => ?_⟩
  · have := translate_pointAt h v hv _ ht
    rwa [pointAt_curve_nonrat (translate S v) _ h1 hr, e] at this
  · have := scale_pointAt h m _ ht
    rwa [pointAt_curve_nonrat (scale S m) _ h1 hr, e] at this
  · have := rotate_pointAt h hd axis c s _ ht
    rwa [pointAt_curve_nonrat (rotate S axis c s) _ h1 hr, e] at this

theorem rational_curve_transforms {d : ℕ} {S : Shape K} (h : ShapeWF d S) (h1 : S.pdim = 1) (hr : S.rat = true) (u : K)
    (hu1 : fnOf (S.kv 0) (S.deg 0) ≤ u) (hu2 : u ≤ fnOf (S.kv 0) (S.size 0)) :
    (∀ v : List K, v.length = d → project (crvEval (translate S v) u) = translatePt v (project (crvEval S u))) ∧
    (∀ m : K, project (crvEval (scale S m) u) = scalePt m (project (crvEval S u))) ∧
    (∀ (axis : ℕ) (c s : K), d = 2 ∨ d = 3 →
      project (crvEval (rotate S axis c s) u) = rotateAbout axis c s (startPoint S) (project (crvEval S u))) := by
  have ht := inDom_curve S h1 u hu1 hu2
  have e := pointAt_curve_rat S (tup3 u u u) h1 hr
  refine ⟨fun v hv => ?_, fun m => ?_, fun axis c s hd => ?_⟩
  · have := translate_pointAt h v hv _ ht
    rwa [pointAt_curve_rat (translate S v) _ h1 hr, e] at this
  · have := scale_pointAt h m _ ht
    rwa [pointAt_curve_rat (scale S m) _ h1 hr, e] at this
  · have := rotate_pointAt h hd axis c s _ ht
    rwa [pointAt_curve_rat (rotate S axis c s) _ h1 hr, e] at this

/-! ### surfaces -/

theorem surface_transforms {d : ℕ} {S : Shape K} (h : ShapeWF d S) (h2 : S.pdim = 2) (hr : S.rat = false) (u v : K)
    (hu1 : fnOf (S.kv 0) (S.deg 0) ≤ u) (hu2 : u ≤ fnOf (S.kv 0) (S.size 0))
    (hv1 : fnOf (S.kv 1) (S.deg 1) ≤ v) (hv2 : v ≤ fnOf (S.kv 1) (S.size 1)) :
    (∀ vec : List K, vec.length = d → surfEval (translate S vec) u v = translatePt vec (surfEval S u v)) ∧
    (∀ m : K, surfEval (scale S m) u v = scalePt m (surfEval S u v)) ∧
    (∀ (axis : ℕ) (c s : K), d = 2 ∨ d = 3 →
      surfEval (rotate S axis c s) u v = rotateAbout axis c s (startPoint S) (surfEval S u v)) := by
  have ht := inDom_surface S h2 u v hu1 hu2 hv1 hv2
  have e := pointAt_surface_nonrat S (tup3 u v v) h2 hr
  refine ⟨fun vec hv => ?_, fun m => ?_, fun axis c s hd => ?_⟩
  · have := translate_pointAt h vec hv _ ht
    rwa [pointAt_surface_nonrat (translate S vec) _ h2 hr, e] at this
  · have := scale_pointAt h m _ ht
    rwa [pointAt_surface_nonrat (scale S m) _ h2 hr, e] at this
  · have := rotate_pointAt h hd axis c s _ ht
    rwa [pointAt_surface_nonrat (rotate S axis c s) _ h2 hr, e] at this

theorem rational_surface_transforms {d : ℕ} {S : Shape K} (h : ShapeWF d S) (h2 : S.pdim = 2) (hr : S.rat = true) (u v : K)
    (hu1 : fnOf (S.kv 0) (S.deg 0) ≤ u) (hu2 : u ≤ fnOf (S.kv 0) (S.size 0))
    (hv1 : fnOf (S.kv 1) (S.deg 1) ≤ v) (hv2 : v ≤ fnOf (S.kv 1) (S.size 1)) :
    (∀ vec : List K, vec.length = d →
      project (surfEval (translate S vec) u v) = translatePt vec (project (surfEval S u v))) ∧
    (∀ m : K, project (surfEval (scale S m) u v) = scalePt m (project (surfEval S u v))) ∧
    (∀ (axis : ℕ) (c s : K), d = 2 ∨ d = 3 →
      project (surfEval (rotate S axis c s) u v) = rotateAbout axis c s (startPoint S) (project (surfEval S u v))) := by
  have ht := inDom_surface S h2 u v hu1 hu2 hv1 hv2
  have e := pointAt_surface_rat S (tup3 u v v) h2 hr
  refine ⟨fun vec hv => ?_, fun m => ?_, fun axis c s hd => ?_⟩
  · have := translate_pointAt h vec hv _ ht
    rwa [pointAt_surface_rat (translate S vec) _ h2 hr, e] at this
  · have := scale_pointAt h m _ ht
    rwa [pointAt_surface_rat (scale S m) _ h2 hr, e] at this
  · have := rotate_pointAt h hd axis c s _ ht
    rwa [pointAt_surface_rat (rotate S axis c s) _ h2 hr, e] at this

/-! ### volumes -/

theorem volume_transforms {d : ℕ} {S : Shape K} (h : ShapeWF d S) (h3 : S.pdim = 3) (hr : S.rat = false) (u v w : K)
    (hu1 : fnOf (S.kv 0) (S.deg 0) ≤ u) (hu2 : u ≤ fnOf (S.kv 0) (S.size 0))
    (hv1 : fnOf (S.kv 1) (S.deg 1) ≤ v) (hv2 : v ≤ fnOf (S.kv 1) (S.size 1))
    (hw1 : fnOf (S.kv 2) (S.deg 2) ≤ w) (hw2 : w ≤ fnOf (S.kv 2) (S.size 2)) :
    (∀ vec : List K, vec.length = d → volEval (translate S vec) u v w = translatePt vec (volEval S u v w)) ∧
    (∀ m : K, volEval (scale S m) u v w = scalePt m (volEval S u v w)) ∧
    (∀ (axis : ℕ) (c s : K), d = 2 ∨ d = 3 →
      volEval (rotate S axis c s) u v w = rotateAbout axis c s (startPoint S) (volEval S u v w)) := by
  have ht := inDom_volume S h3 u v w hu1 hu2 hv1 hv2 hw1 hw2
  have e := pointAt_volume_nonrat S (tup3 u v w) h3 hr
  refine ⟨fun vec hv => ?_, fun m => ?_, fun axis c s hd => ?_⟩
  · have := translate_pointAt h vec hv _ ht
    rwa [pointAt_volume_nonrat (translate S vec) _ h3 hr, e] at this
  · have := scale_pointAt h m _ ht
    rwa [pointAt_volume_nonrat (scale S m) _ h3 hr, e] at this
  · have := rotate_pointAt h hd axis c s _ ht
    rwa [pointAt_volume_nonrat (rotate S axis c s) _ h3 hr, e] at this

theorem rational_volume_transforms {d : ℕ} {S : Shape K} (h : ShapeWF d S) (h3 : S.pdim = 3) (hr : S.rat = true) (u v w : K)
    (hu1 : fnOf (S.kv 0) (S.deg 0) ≤ u) (hu2 : u ≤ fnOf (S.kv 0) (S.size 0))
    (hv1 : fnOf (S.kv 1) (S.deg 1) ≤ v) (hv2 : v ≤ fnOf (S.kv 1) (S.size 1))
    (hw1 : fnOf (S.kv 2) (S.deg 2) ≤ w) (hw2 : w ≤ fnOf (S.kv 2) (S.size 2)) :
    (∀ vec : List K, vec.length = d →
      project (volEval (translate S vec) u v w) = translatePt vec (project (volEval S u v w))) ∧
    (∀ m : K, project (volEval (scale S m) u v w) = scalePt m (project (volEval S u v w))) ∧
    (∀ (axis : ℕ) (c s : K), d = 2 ∨ d = 3 →
      project (volEval (rotate S axis c s) u v w)
        = rotateAbout axis c s (startPoint S) (project (volEval S u v w))) := by
  have ht := inDom_volume S h3 u v w hu1 hu2 hv1 hv2 hw1 hw2
  have e := pointAt_volume_rat S (tup3 u v w) h3 hr
  refine ⟨fun vec hv => ?_, fun m => ?_, fun axis c s hd => ?_⟩
  · have := translate_pointAt h vec hv _ ht
    rwa [pointAt_volume_rat (translate S vec) _ h3 hr, e] at this
  · have := scale_pointAt h m _ ht
    rwa [pointAt_volume_rat (scale S m) _ h3 hr, e] at this
  · have := rotate_pointAt h hd axis c s _ ht
    rwa [pointAt_volume_rat (rotate S axis c s) _ h3 hr, e] at this

/-! ### bridges from the object-level well-formedness records -/

theorem ShapeWF.of_surfWF {e : ℕ} {S : Shape K} (h : SurfWF e S) (d : ℕ) (he : e = if S.rat then d + 1 else d)
    (hw : S.rat = true → ∀ pt ∈ S.net, 0 < pt.getD d 0) (hdeg : 1 ≤ S.deg 0 ∧ 1 ≤ S.deg 1) : ShapeWF d S := by
  have hp : S.pdim = 2 := h.degs
  refine ⟨Or.inr (Or.inl hp), ?_, ?_, by rw [← he]; exact h.net, hw, ?_, ?_⟩
  rotate_left 2
  · intro i hi
    rw [hp] at hi
    rcases i with _ | _ | i
    · exact h.dir0.len
    · exact h.dir1.len
    · omega
  · intro i hi
    rw [hp] at hi
    rcases i with _ | _ | i
    · exact hdeg.1
    · exact hdeg.2
    · omega
  · intro i hi
    rw [hp] at hi
    rcases i with _ | _ | i
    · exact h.dir0.knotsOk
    · exact h.dir1.knotsOk
    · omega
  · unfold Shape.netSize
    simp only [hp, show ¬ ((2 : ℕ) = 1) by omega, if_false, if_true]
    exact h.netlen

theorem ShapeWF.of_volWF {e : ℕ} {S : Shape K} (h : VolWF e S) (d : ℕ) (he : e = if S.rat then d + 1 else d)
    (hw : S.rat = true → ∀ pt ∈ S.net, 0 < pt.getD d 0) (hdeg : 1 ≤ S.deg 0 ∧ 1 ≤ S.deg 1 ∧ 1 ≤ S.deg 2) :
    ShapeWF d S := by
  have hp : S.pdim = 3 := h.degs
  refine ⟨Or.inr (Or.inr hp), ?_, ?_, by rw [← he]; exact h.net, hw, ?_, ?_⟩
  rotate_left 2
  · intro i hi
    rw [hp] at hi
    rcases i with _ | _ | _ | i
    · exact h.dir0.len
    · exact h.dir1.len
    · exact h.dir2.len
    · omega
  · intro i hi
    rw [hp] at hi
    rcases i with _ | _ | _ | i
    · exact hdeg.1
    · exact hdeg.2.1
    · exact hdeg.2.2
    · omega
  · intro i hi
    rw [hp] at hi
    rcases i with _ | _ | _ | i
    · exact h.dir0.knotsOk
    · exact h.dir1.knotsOk
    · exact h.dir2.knotsOk
    · omega
  · unfold Shape.netSize
    simp only [hp, show ¬ ((3 : ℕ) = 1) by omega, show ¬ ((3 : ℕ) = 2) by omega, if_false]
    exact h.netlen

/-- a decidable sufficient condition for a well-formed direction: the knot list is sorted (the check of
    `knotvector.check`), there are at least degree + 1 control points and the last span is non-empty -/
theorem knotsOk_of_sorted (p : ℕ) (U : List K) (n : ℕ) (hs : isSortedB U = true) (hpn : p + 1 ≤ n)
    (hlast : fnOf U (n - 1) < fnOf U n) : KnotsOk p (fnOf U) n :=
  ⟨fnOf_monotone_of_isSortedB U hs, hpn, hlast⟩

end Geomdl
