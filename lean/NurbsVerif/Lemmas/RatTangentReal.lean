import NurbsVerif.Lemmas.RatTangent
import Mathlib.Analysis.Calculus.Deriv.Polynomial
import Mathlib.Analysis.Calculus.Deriv.Inv

/-!
# C02: the rational tangent vectors are derivatives of the quotient in the sense of analysis (over `ℝ`)

Over an arbitrary ordered field the derivative of a quotient of polynomials is stated as the quotient-rule identity
(`Lemmas/RatTangent.lean`).  Over `ℝ` Mathlib's `HasDerivAt` is available: the function `x ↦ A(x) / w(x)` built from the
span polynomials has the derivative `operations.tangent` returns, and for surfaces the two partial functions
`x ↦ A(x, v) / W(x, v)`, `y ↦ A(u, y) / W(u, y)` have the derivatives returned as `S_u`, `S_v`.
(The span polynomials coincide with the numerator / weight functions of the shape on the half-open span: at a knot the
statement is about the piece to the right, at the right end of the domain about the piece to the left.)
-/
namespace Geomdl
open Blossom Polynomial Finset
open scoped Polynomial.Bivariate

section slices
variable {F : Type} [Field F]

/-- the univariate polynomial `x ↦ S(x, v)` -/
noncomputable def sliceU (S : F[X][Y]) (v : F) : F[X] := eval (C v) S
/-- the univariate polynomial `y ↦ S(u, y)` -/
noncomputable def sliceV (S : F[X][Y]) (u : F) : F[X] := S.map (evalRingHom u)

theorem eval_sliceU (S : F[X][Y]) (x v : F) : eval x (sliceU S v) = S.evalEval x v := rfl
theorem eval_sliceV (S : F[X][Y]) (u y : F) : eval y (sliceV S u) = S.evalEval u y := map_evalRingHom_eval u y S

/-- `∂/∂v` is the derivative of the slice `y ↦ S(u, y)` -/
theorem derivative_sliceV (S : F[X][Y]) (u : F) : derivative (sliceV S u) = sliceV (pderivV S) u := by
  unfold sliceV pderivV
  rw [derivative_map]

/-- `∂/∂u` is the derivative of the slice `x ↦ S(x, v)` -/
theorem derivative_sliceU (S : F[X][Y]) (v : F) : derivative (sliceU S v) = sliceU (pderivU S) v := by
  unfold sliceU
  induction S using Polynomial.induction_on' with
  | add p q hp hq => rw [pderivU_add, eval_add, eval_add, derivative_add, hp, hq]
  | monomial m a =>
    have h : ∀ b : F[X], (monomial m b : F[X][Y]) = tens b (X ^ m) := by
      intro b
      unfold tens
      rw [Polynomial.map_pow, map_X, C_mul_X_pow_eq_monomial]
    rw [h a, pderivU_tens, ← h a, ← h (derivative a), eval_monomial, eval_monomial, ← C_pow, derivative_mul,
      derivative_C, mul_zero, add_zero]

end slices

/-- quotient of two real polynomials: Mathlib's derivative is the quotient-rule expression -/
theorem hasDerivAt_polynomial_quotient (A w : ℝ[X]) (u : ℝ) (hw : eval u w ≠ 0) :
    HasDerivAt (fun x => eval x A / eval x w)
      ((eval u (derivative A) * eval u w - eval u A * eval u (derivative w)) / eval u w ^ 2) u :=
  (A.hasDerivAt u).div (w.hasDerivAt u) hw

/-- **real rational curves**: the second entry of `operations.tangent` (op `tanc 1 …`) is the derivative at `u` of
    `x ↦ A_j(x) / w(x)` (span polynomials of the span found), and the first entry is its value -/
theorem tangentCurve_rational_hasDerivAt (p d : ℕ) (Ul : List ℝ) (Pw : List (List ℝ))
    (hC : CurveWF p (d+1) Ul Pw) (hwt : ∀ i, i < Pw.length → 0 < (ptsGet Pw i).getD d 0) (u : ℝ)
    (h1 : fnOf Ul p ≤ u) (h2 : u ≤ fnOf Ul Pw.length) (j : ℕ) (hj : j < d)
    (κ : ℕ) (hκ : κ = findSpanLinear p (fnOf Ul) Pw.length u) (w A : ℝ[X])
    (hw : w = spanPoly p (fnOf Ul) Pw κ d) (hA : A = spanPoly p (fnOf Ul) Pw κ j) :
    (tangentCurve (ratCurveDers (curveDersA32 p (fnOf Ul) Pw κ u 1))).1.getD j 0 = eval u A / eval u w ∧
    HasDerivAt (fun x => eval x A / eval x w)
      ((tangentCurve (ratCurveDers (curveDersA32 p (fnOf Ul) Pw κ u 1))).2.getD j 0) u := by
  obtain ⟨hpos, h0, h1'⟩ := tangentCurve_rational_quotient p d Ul Pw hC hwt u h1 h2 j hj κ hκ w A hw hA
  refine ⟨h0, ?_⟩
  rw [h1']
  exact hasDerivAt_polynomial_quotient A w u (ne_of_gt hpos)

/-- **real rational surfaces**: the entries `S_u`, `S_v` of `operations.tangent` (op `tans 1 …`) are the derivatives of
    the partial functions `x ↦ A(x, v) / W(x, v)` at `u` and `y ↦ A(u, y) / W(u, y)` at `v` -/
theorem tangentSurface_rational_hasDerivAt (pu pv : ℕ) (Uu Uv : ℕ → ℝ) (su sv : ℕ) (Pw : List (List ℝ)) (u v : ℝ)
    (d c : ℕ) (hUu : KnotsOk pu Uu su) (hUv : KnotsOk pv Uv sv) (hlen : Pw.length = su * sv) (hP : NetOk (d+1) Pw)
    (hwt : ∀ i, i < Pw.length → 0 < (ptsGet Pw i).getD d 0)
    (hu1 : Uu pu ≤ u) (hu2 : u ≤ Uu su) (hv1 : Uv pv ≤ v) (hv2 : v ≤ Uv sv) (hc : c < d)
    (κu κv : ℕ) (hκu : κu = findSpanLinear pu Uu su u) (hκv : κv = findSpanLinear pv Uv sv v) (W A : ℝ[X][Y])
    (hW : W = surfSpanPoly pu pv Uu Uv sv Pw κu κv d) (hA : A = surfSpanPoly pu pv Uu Uv sv Pw κu κv c) :
    (tangentSurface (ratSurfaceDers (surfaceDersA36 pu pv Uu Uv sv Pw κu κv u v 1) 1)).1.getD c 0
      = A.evalEval u v / W.evalEval u v ∧
    HasDerivAt (fun x => A.evalEval x v / W.evalEval x v)
      ((tangentSurface (ratSurfaceDers (surfaceDersA36 pu pv Uu Uv sv Pw κu κv u v 1) 1)).2.1.getD c 0) u ∧
    HasDerivAt (fun y => A.evalEval u y / W.evalEval u y)
      ((tangentSurface (ratSurfaceDers (surfaceDersA36 pu pv Uu Uv sv Pw κu κv u v 1) 1)).2.2.getD c 0) v := by
  obtain ⟨hpos, h0, hu, hv⟩ := tangentSurface_rational_quotient pu pv Uu Uv su sv Pw u v d c hUu hUv hlen hP hwt
    hu1 hu2 hv1 hv2 hc κu κv hκu hκv W A hW hA
  refine ⟨h0, ?_, ?_⟩
  · rw [hu]
    have := hasDerivAt_polynomial_quotient (sliceU A v) (sliceU W v) u (by rw [eval_sliceU]; exact ne_of_gt hpos)
    simpa only [eval_sliceU, derivative_sliceU] using this
  · rw [hv]
    have := hasDerivAt_polynomial_quotient (sliceV A u) (sliceV W u) v (by rw [eval_sliceV]; exact ne_of_gt hpos)
    simpa only [eval_sliceV, derivative_sliceV] using this

end Geomdl
