import NurbsVerif.Lemmas.InsertObjDir

/-! Concrete objects over ℚ used by the non-vacuity examples of Props/C04, C05, C06: a bilinear ×
    quadratic surface and a trilinear-ish volume (degrees 1, 1, 2; sizes 2 × 2 × 4), with proofs that
    they are well formed. -/
namespace Geomdl
open Blossom

/-- degrees (1, 2), sizes 2 × 4, points in 3-space, layout `v + sv·u` -/
def exSurfQ : Shape ℚ where
  rat := false
  degs := [1, 2]
  kvs := [[0,0,1,1], [0,0,0,1/2,1,1,1]]
  sizes := [2, 4]
  net := [[0,0,0],[0,1,1],[0,2,0],[0,3,1],[1,0,0],[1,1,2],[1,2,0],[1,3,1]]

/-- degrees (1, 1, 2), sizes 2 × 2 × 4, points in 3-space, layout `v + sv·(u + su·w)` -/
def exVolQ : Shape ℚ where
  rat := false
  degs := [1, 1, 2]
  kvs := [[0,0,1,1], [0,0,1,1], [0,0,0,1/2,1,1,1]]
  sizes := [2, 2, 4]
  net := [[0,0,0],[0,1,1],[1,0,0],[1,1,2],
          [0,0,1],[0,1,3],[1,0,2],[1,2,2],
          [0,1,2],[0,1,4],[1,0,3],[1,3,3],
          [0,0,5],[0,2,5],[2,0,4],[1,1,6]]

theorem exSurfQ_wf : SurfWF 3 exSurfQ where
  degs := rfl
  kvs := rfl
  sizes := rfl
  netlen := rfl
  net := by intro pt hpt; simp [exSurfQ] at hpt; rcases hpt with h | h | h | h | h | h | h | h <;> simp [h]
  dir0 := ⟨mono_of_pairwise _ (by decide +kernel), rfl, by decide, by decide +kernel⟩
  dir1 := ⟨mono_of_pairwise _ (by decide +kernel), rfl, by decide, by decide +kernel⟩

theorem exVolQ_wf : VolWF 3 exVolQ where
  degs := rfl
  kvs := rfl
  sizes := rfl
  netlen := rfl
  net := by
    intro pt hpt
    simp [exVolQ] at hpt
    rcases hpt with h | h | h | h | h | h | h | h | h | h | h | h | h | h | h | h <;> simp [h]
  dir0 := ⟨mono_of_pairwise _ (by decide +kernel), rfl, by decide, by decide +kernel⟩
  dir1 := ⟨mono_of_pairwise _ (by decide +kernel), rfl, by decide, by decide +kernel⟩
  dir2 := ⟨mono_of_pairwise _ (by decide +kernel), rfl, by decide, by decide +kernel⟩

end Geomdl
