import NurbsVerif.Lemmas.Affine
import NurbsVerif.Lemmas.Small

/-! Convex-hull / bounding-box / clamped end-point facts about the evaluation model. -/
namespace Geomdl
open Blossom Finset
variable {K : Type} [Field K] [LinearOrder K] [IsStrictOrderedRing K]

/-- a linear functional of the evaluated point is the same combination of the functional's values
    on the active control points -/
theorem curvePointAt_functional (p : ℕ) (U : ℕ → K) (P : List (List K)) (k : ℕ) (u : K) (d : ℕ)
    (hp : p ≤ k) (hk : k < P.length) (hP : NetOk d P) (A : ℕ → K) :
    ∑ l ∈ range d, A l * (curvePointAt p U P k u).getD l 0
      = ∑ r ∈ range (p+1), (basisFuns p U k u).getD r 0 * (∑ l ∈ range d, A l * (ptsGet P (k - p + r)).getD l 0) := by
  rw [linear_comb_coord (p+1) d (fun r => (basisFuns p U k u).getD r 0)
        (fun r l => (ptsGet P (k - p + r)).getD l 0)
        (fun r => ∑ l ∈ range d, A l * (ptsGet P (k - p + r)).getD l 0) A (fun r _ => rfl)]
  apply Finset.sum_congr rfl
  intro l _
  rw [curvePointAt_sum p U P k u d l hp hk hP]

theorem basisFuns_getD_nonneg (p : ℕ) {U : ℕ → K} {k : ℕ} {u : K} (h : SpanOk U k u) (r : ℕ) (hr : r < p + 1) :
    0 ≤ (basisFuns p U k u).getD r 0 := by
  have hmem : (basisFuns p U k u).getD r 0 ∈ basisFuns p U k u := by
    rw [List.getD_eq_getElem?_getD, List.getElem?_eq_getElem (by rw [Blossom.basisFuns_length]; exact hr)]
    exact List.getElem_mem _
  exact basisFuns_nonneg p h _ hmem

theorem basisFuns_sum_range (p : ℕ) {U : ℕ → K} {k : ℕ} {u : K} (h : SpanOk U k u) :
    ∑ r ∈ range (p+1), (basisFuns p U k u).getD r 0 = 1 := by
  have := basisFuns_sum p h
  rw [list_sum_eq_range, Blossom.basisFuns_length] at this
  exact this

/-- **Convex hull (every separating direction)**: for every linear functional `ℓ = Σ A_l x_l`, the
    value at the evaluated point lies between any bounds of `ℓ` on the `p+1` active control points. -/
theorem curvePointAt_in_hull (p : ℕ) (U : ℕ → K) (P : List (List K)) (k : ℕ) (u : K) (d : ℕ)
    (h : SpanOk U k u) (hp : p ≤ k) (hk : k < P.length) (hP : NetOk d P) (A : ℕ → K) (lo hi : K)
    (hlo : ∀ r, r ≤ p → lo ≤ ∑ l ∈ range d, A l * (ptsGet P (k - p + r)).getD l 0)
    (hhi : ∀ r, r ≤ p → ∑ l ∈ range d, A l * (ptsGet P (k - p + r)).getD l 0 ≤ hi) :
    lo ≤ ∑ l ∈ range d, A l * (curvePointAt p U P k u).getD l 0 ∧
      ∑ l ∈ range d, A l * (curvePointAt p U P k u).getD l 0 ≤ hi := by
  rw [curvePointAt_functional p U P k u d hp hk hP A]
  exact _root_.convex_bounds (p+1) _ _ lo hi (basisFuns_sum_range p h)
    (fun r hr => basisFuns_getD_nonneg p h r hr) (fun r hr => hlo r (by omega)) (fun r hr => hhi r (by omega))

/-- in particular every coordinate lies between the bounds of that coordinate (bounding box) -/
theorem curvePointAt_in_box (p : ℕ) (U : ℕ → K) (P : List (List K)) (k : ℕ) (u : K) (d j : ℕ)
    (h : SpanOk U k u) (hp : p ≤ k) (hk : k < P.length) (hP : NetOk d P) (lo hi : K)
    (hlo : ∀ i, i < P.length → lo ≤ (ptsGet P i).getD j 0) (hhi : ∀ i, i < P.length → (ptsGet P i).getD j 0 ≤ hi) :
    lo ≤ (curvePointAt p U P k u).getD j 0 ∧ (curvePointAt p U P k u).getD j 0 ≤ hi := by
  rw [curvePointAt_sum p U P k u d j hp hk hP]
  exact _root_.convex_bounds (p+1) _ _ lo hi (basisFuns_sum_range p h)
    (fun r hr => basisFuns_getD_nonneg p h r hr) (fun r hr => hlo _ (by omega)) (fun r hr => hhi _ (by omega))

/-! ### clamped ends -/

/-- inner loop when all `left` values in use vanish: the values are reproduced, `saved` ends as 0 -/
theorem bfInner_left_zero (L R : ℕ → K) (j : ℕ) (N : List K) : ∀ (r : ℕ) (s : K),
    (∀ a, r ≤ a → a < r + N.length → L (j - a) = 0) → (∀ a, r ≤ a → a < r + N.length → R (a + 1) ≠ 0) →
    bfInner L R j r N s = (match N with | [] => [s] | n :: ns => (s + n) :: (ns ++ [0])) := by
  induction N with
  | nil => intro r s _ _; simp [bfInner]
  | cons n ns ih =>
    intro r s hL hR
    have hl : L (j - r) = 0 := hL r (le_refl _) (by simp)
    have hr : R (r + 1) ≠ 0 := hR r (le_refl _) (by simp)
    simp only [bfInner, hl, add_zero, zero_mul]
    rw [mul_div_cancel₀ _ hr]
    rw [ih (r+1) 0 (fun a h1 h2 => hL a (by omega) (by simp only [List.length_cons]; omega))
          (fun a h1 h2 => hR a (by omega) (by simp only [List.length_cons]; omega))]
    cases ns with
    | nil => simp
    | cons m ms => simp

/-- **start of a clamped span**: if `U (k-p+1) = … = U k = u < U (k+1)` then A2.2 returns `1, 0, …, 0` -/
theorem basisFuns_at_clamped_start (U : ℕ → K) (k : ℕ) (u : K) (hm : Monotone U) (hlt : U k < U (k+1)) :
    ∀ p, p ≤ k → (∀ i, k + 1 ≤ i + p → i ≤ k → U i = u) → basisFuns p U k u = 1 :: List.replicate p 0 := by
  intro p
  induction p with
  | zero => intro _ _; simp [basisFuns]
  | succ p ih =>
    intro hp hU
    rw [basisFuns_succ, ih (by omega) (fun i h1 h2 => hU i (by omega) h2)]
    unfold bfStep
    rw [bfInner_left_zero]
    · simp [List.replicate_succ']
    · intro a _ ha
      simp only [List.length_cons, List.length_replicate] at ha
      unfold left
      rw [hU (k + 1 - (p + 1 - a)) (by omega) (by omega)]; ring
    · intro a _ ha
      unfold right
      have h1 : U (k + 1) ≤ U (k + (a + 1)) := hm (by omega)
      have h2 : U k = u := hU k (by omega) (le_refl _)
      have : u < U (k + (a + 1)) := by rw [← h2]; exact lt_of_lt_of_le hlt h1
      exact ne_of_gt (by linarith)

/-- a clamped curve starts at its first control point (coordinatewise) -/
theorem curvePointAt_clamped_start (p : ℕ) (U : ℕ → K) (P : List (List K)) (k : ℕ) (u : K) (d j : ℕ)
    (hm : Monotone U) (hlt : U k < U (k+1)) (hp : p ≤ k) (hk : k < P.length) (hP : NetOk d P)
    (hU : ∀ i, k + 1 ≤ i + p → i ≤ k → U i = u) :
    (curvePointAt p U P k u).getD j 0 = (ptsGet P (k - p)).getD j 0 := by
  rw [curvePointAt_sum p U P k u d j hp hk hP, basisFuns_at_clamped_start U k u hm hlt p hp hU]
  rw [Finset.sum_range_succ']
  simp only [List.getD_cons_zero, List.getD_cons_succ, one_mul, Nat.add_zero]
  have : ∑ r ∈ range p, (List.replicate p (0:K)).getD r 0 * (ptsGet P (k - p + (r + 1))).getD j 0 = 0 := by
    apply Finset.sum_eq_zero
    intro r hr
    have hz : (List.replicate p (0:K)).getD r 0 = 0 := by
      simp only [List.getD_eq_getElem?_getD, List.getElem?_replicate]
      split <;> simp
    rw [hz, zero_mul]
  rw [this, zero_add]


/-- inner loop when all `right` values in use vanish: the values are shifted by one -/
theorem bfInner_right_zero (L R : ℕ → K) (j : ℕ) (N : List K) : ∀ (r : ℕ) (s : K),
    (∀ a, r ≤ a → a < r + N.length → R (a + 1) = 0) → (∀ a, r ≤ a → a < r + N.length → L (j - a) ≠ 0) →
    bfInner L R j r N s = s :: N := by
  induction N with
  | nil => intro r s _ _; simp [bfInner]
  | cons n ns ih =>
    intro r s hR hL
    have hr : R (r + 1) = 0 := hR r (le_refl _) (by simp)
    have hl : L (j - r) ≠ 0 := hL r (le_refl _) (by simp)
    simp only [bfInner, hr, zero_add, zero_mul, add_zero]
    rw [mul_div_cancel₀ _ hl]
    rw [ih (r+1) n (fun a h1 h2 => hR a (by omega) (by simp only [List.length_cons]; omega))
          (fun a h1 h2 => hL a (by omega) (by simp only [List.length_cons]; omega))]

/-- **end of a clamped span**: if `U k < u = U (k+1) = … = U (k+p)` then A2.2 returns `0, …, 0, 1` -/
theorem basisFuns_at_clamped_end (U : ℕ → K) (k : ℕ) (u : K) (hm : Monotone U) (hlt : U k < U (k+1)) :
    ∀ p, p ≤ k → (∀ i, k + 1 ≤ i → i ≤ k + p → U i = u) → u = U (k+1) →
      basisFuns p U k u = List.replicate p 0 ++ [1] := by
  intro p
  induction p with
  | zero => intro _ _ _; simp [basisFuns]
  | succ p ih =>
    intro hp hU hu
    rw [basisFuns_succ, ih (by omega) (fun i h1 h2 => hU i h1 (by omega)) hu]
    unfold bfStep
    rw [bfInner_right_zero]
    · simp [List.replicate_succ]
    · intro a _ ha
      simp only [List.length_append, List.length_replicate, List.length_cons, List.length_nil] at ha
      unfold right
      rw [hU (k + (a + 1)) (by omega) (by omega)]; ring
    · intro a _ ha
      simp only [List.length_append, List.length_replicate, List.length_cons, List.length_nil] at ha
      unfold left
      have h1 : U (k + 1 - (p + 1 - a)) ≤ U k := hm (by omega)
      have : U k < u := by rw [hu]; exact hlt
      exact ne_of_gt (by linarith)

/-- a clamped curve ends at its last control point (coordinatewise; `k` is the last span) -/
theorem curvePointAt_clamped_end (p : ℕ) (U : ℕ → K) (P : List (List K)) (k : ℕ) (u : K) (d j : ℕ)
    (hm : Monotone U) (hlt : U k < U (k+1)) (hp : p ≤ k) (hk : k < P.length) (hP : NetOk d P)
    (hU : ∀ i, k + 1 ≤ i → i ≤ k + p → U i = u) (hu : u = U (k+1)) :
    (curvePointAt p U P k u).getD j 0 = (ptsGet P k).getD j 0 := by
  rw [curvePointAt_sum p U P k u d j hp hk hP, basisFuns_at_clamped_end U k u hm hlt p hp hU hu]
  rw [Finset.sum_range_succ]
  have : ∑ r ∈ range p, (List.replicate p (0:K) ++ [1]).getD r 0 * (ptsGet P (k - p + r)).getD j 0 = 0 := by
    apply Finset.sum_eq_zero
    intro r hr
    rw [Finset.mem_range] at hr
    have hz : (List.replicate p (0:K) ++ [1]).getD r 0 = 0 := by
      rw [List.getD_eq_getElem?_getD, List.getElem?_append_left (by simp; exact hr)]
      simp [List.getElem?_replicate, hr]
    rw [hz, zero_mul]
  rw [this, zero_add]
  have h1 : (List.replicate p (0:K) ++ [1]).getD p 0 = 1 := by
    rw [List.getD_eq_getElem?_getD, List.getElem?_append_right (by simp)]
    simp
  rw [h1, one_mul]
  congr 2
  omega

end Geomdl
