import NurbsVerif.Lemmas.RatDers

/-! The list model of A4.4 (`SurfaceEvaluatorRational.derivatives`), cell by cell.
    This file: the generic "append one computed element per step" fold, the three inner loops of one
    cell coordinatewise, and the algebraic step from the cell equation to the bivariate Leibniz system. -/
namespace Geomdl
open Finset
variable {K : Type} [Field K] [LinearOrder K] [IsStrictOrderedRing K]

/-! ### lists built by appending one element computed from the prefix -/

/-- `acc = []; for k in range(n): acc.append(f(acc, k))` -/
def buildL {α : Type} (f : List α → ℕ → α) (n : ℕ) : List α :=
  (List.range n).foldl (fun acc k => acc ++ [f acc k]) []

theorem buildL_succ {α : Type} (f : List α → ℕ → α) (n : ℕ) :
    buildL f (n+1) = buildL f n ++ [f (buildL f n) n] := by
  unfold buildL
  rw [List.range_succ, List.foldl_append]
  rfl

theorem buildL_length {α : Type} (f : List α → ℕ → α) : ∀ n, (buildL f n).length = n
  | 0 => rfl
  | n+1 => by rw [buildL_succ, List.length_append, buildL_length f n]; rfl

/-- the prefix of length `k` of a longer build is the build of length `k` -/
theorem buildL_getElem?_prefix {α : Type} (f : List α → ℕ → α) (m k : ℕ) (hm : m < k) : ∀ n, k ≤ n →
    (buildL f n)[m]? = (buildL f k)[m]? := by
  intro n hn
  induction n with
  | zero => omega
  | succ n ih =>
    by_cases hk : k = n + 1
    · rw [hk]
    · rw [buildL_succ, List.getElem?_append_left (by rw [buildL_length]; omega)]
      exact ih (by omega)

/-- element `k` is `f` applied to the prefix of length `k` -/
theorem buildL_getElem? {α : Type} (f : List α → ℕ → α) (k n : ℕ) (hk : k < n) :
    (buildL f n)[k]? = some (f (buildL f k) k) := by
  rw [buildL_getElem?_prefix f k (k+1) (by omega) n (by omega), buildL_succ,
    List.getElem?_append_right (by rw [buildL_length]), buildL_length]
  simp

/-! ### coordinates through `zipWith` folds -/

theorem zipWith_getD_lt (F : K → K → K) (x y : List K) (j : ℕ) (hx : j < x.length) (hy : j < y.length) :
    (List.zipWith F x y).getD j 0 = F (x.getD j 0) (y.getD j 0) := by
  simp only [List.getD_eq_getElem?_getD, List.getElem?_zipWith]
  simp [List.getElem?_eq_getElem hx, List.getElem?_eq_getElem hy]

/-- a fold whose steps add `g i j` to coordinate `j < d` and keep at least `d` coordinates -/
theorem foldl_add_coord (d : ℕ) (step : List K → ℕ → List K) (g : ℕ → ℕ → K) : ∀ (I : List ℕ),
    (∀ i ∈ I, ∀ v : List K, d ≤ v.length →
        d ≤ (step v i).length ∧ ∀ j, j < d → (step v i).getD j 0 = v.getD j 0 + g i j) →
    ∀ v : List K, d ≤ v.length →
      d ≤ (I.foldl step v).length ∧
      ∀ j, j < d → (I.foldl step v).getD j 0 = v.getD j 0 + (I.map (fun i => g i j)).sum := by
  intro I
  induction I with
  | nil => intro _ v hv; exact ⟨hv, fun j _ => by simp⟩
  | cons i is ih =>
    intro hstep v hv
    simp only [List.foldl_cons, List.map_cons, List.sum_cons]
    obtain ⟨h1, h2⟩ := hstep i (by simp) v hv
    obtain ⟨h3, h4⟩ := ih (fun x hx => hstep x (by simp [hx])) (step v i) h1
    refine ⟨h3, ?_⟩
    intro j hj
    rw [h4 j hj, h2 j hj, add_assoc]

/-! ### from the cell equation to the Leibniz system -/

/-- the value A4.4 assigns to cell `(k, l)` given the other cells -/
def cellSpec (A w E : ℕ → ℕ → K) (k l : ℕ) : K :=
  (A k l - ∑ b ∈ range l, (Nat.choose l (b+1) : K) * w 0 (b+1) * E k (l - (b+1))
    - ∑ a ∈ range k, (Nat.choose k (a+1) : K) * (w (a+1) 0 * E (k - (a+1)) l
        + ∑ b ∈ range l, (Nat.choose l (b+1) : K) * w (a+1) (b+1) * E (k - (a+1)) (l - (b+1)))) / w 0 0

/-- a table that satisfies the cell equation at `(k, l)` satisfies the bivariate Leibniz equation
    `Σ_{i≤k} Σ_{j≤l} C(k,i) C(l,j) w⁽ⁱʲ⁾ E⁽ᵏ⁻ⁱ,ˡ⁻ʲ⁾ = A⁽ᵏˡ⁾` there -/
theorem leibniz2_of_cellSpec (A w E : ℕ → ℕ → K) (hw : w 0 0 ≠ 0) (k l : ℕ)
    (h : E k l = cellSpec A w E k l) :
    ∑ i ∈ range (k+1), ∑ j ∈ range (l+1),
      (Nat.choose k i : K) * (Nat.choose l j : K) * w i j * E (k - i) (l - j) = A k l := by
  rw [Finset.sum_range_succ']
  simp only [Finset.sum_range_succ' _ l, Nat.choose_zero_right, Nat.cast_one, one_mul, mul_one, Nat.sub_zero]
  rw [h]
  unfold cellSpec
  rw [mul_div_cancel₀ _ hw]
  have key : ∑ a ∈ range k, (Nat.choose k (a+1) : K) * (w (a+1) 0 * E (k - (a+1)) l
        + ∑ b ∈ range l, (Nat.choose l (b+1) : K) * w (a+1) (b+1) * E (k - (a+1)) (l - (b+1)))
      = ∑ x ∈ range k, (∑ x_1 ∈ range l, (Nat.choose k (x+1) : K) * (Nat.choose l (x_1+1) : K) * w (x+1) (x_1+1)
            * E (k - (x+1)) (l - (x_1+1)) + (Nat.choose k (x+1) : K) * w (x+1) 0 * E (k - (x+1)) l) := by
    apply Finset.sum_congr rfl
    intro a _
    rw [mul_add, Finset.mul_sum, add_comm]
    congr 1
    · apply Finset.sum_congr rfl
      intro b _
      ring
    · ring
  rw [key]
  ring

/-- the solution of the Leibniz system is unique: two tables that satisfy it for all `k ≤ m`, `l ≤ n`
    (same `A`, `w`, `w⁽⁰⁰⁾ ≠ 0`) agree there -/
theorem leibniz2_unique (A w E E' : ℕ → ℕ → K) (hw : w 0 0 ≠ 0) (m n : ℕ)
    (h : ∀ k l, k ≤ m → l ≤ n → ∑ i ∈ range (k+1), ∑ j ∈ range (l+1),
      (Nat.choose k i : K) * (Nat.choose l j : K) * w i j * E (k - i) (l - j) = A k l)
    (h' : ∀ k l, k ≤ m → l ≤ n → ∑ i ∈ range (k+1), ∑ j ∈ range (l+1),
      (Nat.choose k i : K) * (Nat.choose l j : K) * w i j * E' (k - i) (l - j) = A k l) :
    ∀ k l, k ≤ m → l ≤ n → E k l = E' k l := by
  intro k
  induction k using Nat.strong_induction_on with
  | _ k ihk =>
    intro l
    induction l using Nat.strong_induction_on with
    | _ l ihl =>
      intro hk hl
      have e := (h k l hk hl).trans (h' k l hk hl).symm
      rw [Finset.sum_range_succ', Finset.sum_range_succ' (fun i => ∑ j ∈ range (l+1),
        (Nat.choose k i : K) * (Nat.choose l j : K) * w i j * E' (k - i) (l - j))] at e
      simp only [Finset.sum_range_succ' _ l, Nat.choose_zero_right, Nat.cast_one, one_mul, mul_one, Nat.sub_zero] at e
      have e1 : ∑ x ∈ range k, (∑ x_1 ∈ range l, (Nat.choose k (x+1) : K) * (Nat.choose l (x_1+1) : K) * w (x+1) (x_1+1)
            * E (k - (x+1)) (l - (x_1+1)) + (Nat.choose k (x+1) : K) * w (x+1) 0 * E (k - (x+1)) l)
          = ∑ x ∈ range k, (∑ x_1 ∈ range l, (Nat.choose k (x+1) : K) * (Nat.choose l (x_1+1) : K) * w (x+1) (x_1+1)
            * E' (k - (x+1)) (l - (x_1+1)) + (Nat.choose k (x+1) : K) * w (x+1) 0 * E' (k - (x+1)) l) := by
        apply Finset.sum_congr rfl
        intro a ha
        rw [Finset.mem_range] at ha
        rw [ihk (k - (a+1)) (by omega) l (by omega) hl]
        congr 1
        apply Finset.sum_congr rfl
        intro b hb
        rw [Finset.mem_range] at hb
        rw [ihk (k - (a+1)) (by omega) (l - (b+1)) (by omega) (by omega)]
      have e2 : ∑ x ∈ range l, (Nat.choose l (x+1) : K) * w 0 (x+1) * E k (l - (x+1))
          = ∑ x ∈ range l, (Nat.choose l (x+1) : K) * w 0 (x+1) * E' k (l - (x+1)) := by
        apply Finset.sum_congr rfl
        intro b hb
        rw [Finset.mem_range] at hb
        rw [ihl (l - (b+1)) (by omega) hk (by omega)]
      rw [e1, e2] at e
      have e3 : w 0 0 * E k l = w 0 0 * E' k l := by linear_combination e
      exact mul_left_cancel₀ hw e3

end Geomdl
