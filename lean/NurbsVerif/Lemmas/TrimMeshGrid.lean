import NurbsVerif.Lemmas.TrimMeshCell
import NurbsVerif.Lemmas.Mesh

/-!
# Trimmed tessellation, the cell loop (C15): lemmas about `Geomdl.trimCells`

The trace of the loop (one `trimCell` result per grid cell, in loop order), the bookkeeping (`tris`, `extra`, `vidx`,
`tidx`), and - for trims that are all non-reversed - the invariant of the flags the shared corner vertices carry from
cell to cell: a grid vertex is marked inside only if one of its four offset points lies in a trim.
-/
set_option linter.unusedSectionVars false
namespace Geomdl.Trim
open Geomdl Geomdl.Mesh
variable {K : Type} [Field K] [LinearOrder K] [IsStrictOrderedRing K]

/-- the grid vertex with id `k` as the cell loop hands it to the trimming function -/
def gridCorner (uvs : List (K × K)) (flags : List TrimFlags) (k : ℕ) : TVertex K :=
  { id := k, uv := uvs.getD k (0, 0), fl := flags.getD k {} }

/-- the call made for cell `ij` in loop state `st` -/
def loopCell (tt : TrimTol K) (sq : K → K) (trims : List (Trim K)) (uvs : List (K × K)) (nv : ℕ) (st : TrimLoop K)
    (ij : ℕ × ℕ) : TrimCellResult K :=
  trimCell tt sq trims (gridCorner uvs st.flags (ij.2 + ij.1 * nv)) (gridCorner uvs st.flags (ij.2 + (ij.1 + 1) * nv))
    (gridCorner uvs st.flags (ij.2 + 1 + (ij.1 + 1) * nv)) (gridCorner uvs st.flags (ij.2 + 1 + ij.1 * nv)) st.vidx st.tidx

theorem trimLoopStep_trace (tt : TrimTol K) (sq : K → K) (trims : List (Trim K)) (uvs : List (K × K)) (nv : ℕ)
    (st : TrimLoop K) (ij : ℕ × ℕ) :
    (trimLoopStep tt sq trims uvs nv st ij).trace = st.trace ++ [loopCell tt sq trims uvs nv st ij] := rfl

theorem trimLoopStep_tris (tt : TrimTol K) (sq : K → K) (trims : List (Trim K)) (uvs : List (K × K)) (nv : ℕ)
    (st : TrimLoop K) (ij : ℕ × ℕ) :
    (trimLoopStep tt sq trims uvs nv st ij).tris = st.tris ++ (loopCell tt sq trims uvs nv st ij).tris := rfl

theorem trimLoopStep_extra (tt : TrimTol K) (sq : K → K) (trims : List (Trim K)) (uvs : List (K × K)) (nv : ℕ)
    (st : TrimLoop K) (ij : ℕ × ℕ) :
    (trimLoopStep tt sq trims uvs nv st ij).extra = st.extra ++ (loopCell tt sq trims uvs nv st ij).verts := rfl

theorem trimLoopStep_vidx (tt : TrimTol K) (sq : K → K) (trims : List (Trim K)) (uvs : List (K × K)) (nv : ℕ)
    (st : TrimLoop K) (ij : ℕ × ℕ) :
    (trimLoopStep tt sq trims uvs nv st ij).vidx = st.vidx + (loopCell tt sq trims uvs nv st ij).verts.length := rfl

theorem trimLoopStep_tidx (tt : TrimTol K) (sq : K → K) (trims : List (Trim K)) (uvs : List (K × K)) (nv : ℕ)
    (st : TrimLoop K) (ij : ℕ × ℕ) :
    (trimLoopStep tt sq trims uvs nv st ij).tidx = st.tidx + (loopCell tt sq trims uvs nv st ij).tris.length := rfl

theorem trimLoopStep_flags (tt : TrimTol K) (sq : K → K) (trims : List (Trim K)) (uvs : List (K × K)) (nv : ℕ)
    (st : TrimLoop K) (ij : ℕ × ℕ) :
    (trimLoopStep tt sq trims uvs nv st ij).flags =
      (((st.flags.set (ij.2 + ij.1 * nv) (cornerFlags tt trims 0 (gridCorner uvs st.flags (ij.2 + ij.1 * nv)))).set
          (ij.2 + (ij.1 + 1) * nv) (cornerFlags tt trims 1 (gridCorner uvs st.flags (ij.2 + (ij.1 + 1) * nv)))).set
          (ij.2 + 1 + (ij.1 + 1) * nv) (cornerFlags tt trims 2 (gridCorner uvs st.flags (ij.2 + 1 + (ij.1 + 1) * nv)))).set
          (ij.2 + 1 + ij.1 * nv) (cornerFlags tt trims 3 (gridCorner uvs st.flags (ij.2 + 1 + ij.1 * nv))) := by
  unfold trimLoopStep
  show (((st.flags.set _ ((loopCell tt sq trims uvs nv st ij).flags.getD 0 {})).set _
    ((loopCell tt sq trims uvs nv st ij).flags.getD 1 {})).set _ ((loopCell tt sq trims uvs nv st ij).flags.getD 2 {})).set _
    ((loopCell tt sq trims uvs nv st ij).flags.getD 3 {}) = _
  rw [loopCell, trimCell_flags]
  rfl

/-! ### the trace -/

/-- the loop state before the `n`-th cell of the list `L` -/
def stateAt (step : TrimLoop K → ℕ × ℕ → TrimLoop K) (st : TrimLoop K) (L : List (ℕ × ℕ)) (n : ℕ) : TrimLoop K :=
  (L.take n).foldl step st

theorem foldl_trace (tt : TrimTol K) (sq : K → K) (trims : List (Trim K)) (uvs : List (K × K)) (nv : ℕ) :
    ∀ (L : List (ℕ × ℕ)) (st : TrimLoop K),
      (L.foldl (trimLoopStep tt sq trims uvs nv) st).trace
        = st.trace ++ (List.range L.length).map fun n =>
            loopCell tt sq trims uvs nv (stateAt (trimLoopStep tt sq trims uvs nv) st L n) (L.getD n (0, 0))
  | [], st => by simp
  | x :: L, st => by
    rw [List.foldl_cons, foldl_trace tt sq trims uvs nv L, trimLoopStep_trace, List.length_cons, List.range_succ_eq_map,
      List.map_cons, List.map_map, List.append_assoc]
    rfl

/-- a property of the loop state that every step preserves holds before every cell -/
theorem stateAt_inv (step : TrimLoop K → ℕ × ℕ → TrimLoop K) (P : TrimLoop K → Prop)
    (hstep : ∀ st ij, P st → P (step st ij)) : ∀ (L : List (ℕ × ℕ)) (st : TrimLoop K), P st → ∀ n, P (stateAt step st L n)
  | [], st, h, n => by simpa [stateAt] using h
  | x :: L, st, h, 0 => by simpa [stateAt] using h
  | x :: L, st, h, n + 1 => by
    have := stateAt_inv step P hstep L (step st x) (hstep st x h) n
    simpa [stateAt] using this

/-- bookkeeping invariant of the loop -/
def Booked (n0 : ℕ) (st : TrimLoop K) : Prop :=
  st.tris = st.trace.flatMap (·.tris) ∧ st.extra = st.trace.flatMap (·.verts) ∧
    st.vidx = n0 + st.extra.length ∧ st.tidx = st.tris.length

theorem booked_step (tt : TrimTol K) (sq : K → K) (trims : List (Trim K)) (uvs : List (K × K)) (nv n0 : ℕ)
    (st : TrimLoop K) (ij : ℕ × ℕ) (h : Booked n0 st) : Booked n0 (trimLoopStep tt sq trims uvs nv st ij) := by
  obtain ⟨h1, h2, h3, h4⟩ := h
  refine ⟨?_, ?_, ?_, ?_⟩
  · rw [trimLoopStep_tris, trimLoopStep_trace, h1]; simp
  · rw [trimLoopStep_extra, trimLoopStep_trace, h2]; simp
  · rw [trimLoopStep_vidx, trimLoopStep_extra, h3, List.length_append]; omega
  · rw [trimLoopStep_tidx, trimLoopStep_tris, h4, List.length_append]

/-- initial state of `trimCells` -/
def loopInit (uvs : List (K × K)) : TrimLoop K :=
  { flags := List.replicate uvs.length {}, extra := [], tris := [], vidx := uvs.length, tidx := 0, trace := [] }

theorem trimCells_eq (tt : TrimTol K) (sq : K → K) (trims : List (Trim K)) (uvs : List (K × K)) (nu nv : ℕ) :
    trimCells tt sq trims uvs nu nv
      = (meshGrid2 (nu - 1) (nv - 1) fun i j => (i, j)).foldl (trimLoopStep tt sq trims uvs nv) (loopInit uvs) := rfl

theorem foldl_inv (step : TrimLoop K → ℕ × ℕ → TrimLoop K) (P : TrimLoop K → Prop)
    (hstep : ∀ st ij, P st → P (step st ij)) : ∀ (L : List (ℕ × ℕ)) (st : TrimLoop K), P st → P (L.foldl step st)
  | [], _, h => h
  | x :: L, st, h => foldl_inv step P hstep L (step st x) (hstep st x h)

/-- the triangles / appended vertices of the whole loop are the concatenation of the per-cell results; the numbering
    handed to the next call continues -/
theorem trimCells_booked (tt : TrimTol K) (sq : K → K) (trims : List (Trim K)) (uvs : List (K × K)) (nu nv : ℕ) :
    Booked uvs.length (trimCells tt sq trims uvs nu nv) := by
  rw [trimCells_eq]
  exact foldl_inv _ _ (fun st ij h => booked_step tt sq trims uvs nv uvs.length st ij h) _ _
    ⟨rfl, rfl, rfl, rfl⟩

/-- the trace has one entry per cell; the entry of cell `(i, j)` is the call made in the state reached after the
    cells before it -/
theorem trimCells_trace (tt : TrimTol K) (sq : K → K) (trims : List (Trim K)) (uvs : List (K × K)) (nu nv i j : ℕ)
    (hi : i < nu - 1) (hj : j < nv - 1) :
    (trimCells tt sq trims uvs nu nv).trace[j + i * (nv - 1)]? =
      some (loopCell tt sq trims uvs nv
        (stateAt (trimLoopStep tt sq trims uvs nv) (loopInit uvs) (meshGrid2 (nu - 1) (nv - 1) fun i j => (i, j))
          (j + i * (nv - 1))) (i, j)) := by
  rw [trimCells_eq, foldl_trace]
  have hlen : j + i * (nv - 1) < (meshGrid2 (nu - 1) (nv - 1) fun i j => (i, j)).length := by
    rw [grid2_length]
    calc j + i * (nv - 1) < (nv - 1) + i * (nv - 1) := by omega
      _ = (i + 1) * (nv - 1) := by ring
      _ ≤ (nu - 1) * (nv - 1) := Nat.mul_le_mul_right _ (by omega)
  have hget : (meshGrid2 (nu - 1) (nv - 1) fun i j => (i, j)).getD (j + i * (nv - 1)) (0, 0) = (i, j) := by
    rw [List.getD_eq_getElem?_getD, grid2_getElem? _ _ _ i j hi hj]; rfl
  simp only [loopInit, List.nil_append]
  rw [List.getElem?_map, List.getElem?_range hlen]
  simp only [Option.map_some]
  rw [hget]

theorem trimCells_trace_length (tt : TrimTol K) (sq : K → K) (trims : List (Trim K)) (uvs : List (K × K)) (nu nv : ℕ) :
    (trimCells tt sq trims uvs nu nv).trace.length = (nu - 1) * (nv - 1) := by
  rw [trimCells_eq, foldl_trace]
  simp [loopInit, grid2_length]

/-! ### the flags of the shared corner vertices (non-reversed trims) -/

/-- one of the four offset points `uv ± (tols, tols)` of a grid vertex lies in some trim -/
def NearInside (tols : K) (trims : List (Trim K)) (uv : K × K) : Prop :=
  ∃ idx, idx < 4 ∧ ∃ tr ∈ trims, wnPoly (cornerPoint tols idx uv false) tr.pts = true

/-- invariant: a grid vertex is flagged inside only if one of its offset points is in a trim -/
def FlagsOK (tols : K) (trims : List (Trim K)) (uvs : List (K × K)) (flags : List TrimFlags) : Prop :=
  ∀ k, (flags.getD k {}).inside = true → NearInside tols trims (uvs.getD k (0, 0))

theorem any_congr' {α : Type} : ∀ {l : List α} {f g : α → Bool}, (∀ x ∈ l, f x = g x) → l.any f = l.any g
  | [], _, _, _ => rfl
  | a :: l, f, g, h => by
    rw [List.any_cons, List.any_cons, h a (by simp), any_congr' fun x hx => h x (List.mem_cons_of_mem _ hx)]

theorem cornerFlags_nonreversed (tt : TrimTol K) (trims : List (Trim K)) (hnr : ∀ tr ∈ trims, tr.reversed = false)
    (idx : ℕ) (v : TVertex K) :
    (cornerFlags tt trims idx v).inside
      = (v.fl.inside || trims.any fun tr => wnPoly (cornerPoint tt.tols idx v.uv false) tr.pts) := by
  unfold cornerFlags
  rw [classifyCorner_eq, (flagFold_nonreversed _ trims v.fl hnr).1]
  congr 1
  exact any_congr' fun tr htr => by rw [hnr tr htr]

theorem getD_set (l : List TrimFlags) (i k : ℕ) (a d : TrimFlags) :
    (l.set i a).getD k d = if i = k ∧ i < l.length then a else l.getD k d := by
  rw [List.getD_eq_getElem?_getD, List.getElem?_set, List.getD_eq_getElem?_getD]
  by_cases h : i = k
  · subst h
    by_cases h2 : i < l.length
    · simp [h2]
    · simp [h2]
  · simp [h]

theorem flagsOK_set (tols : K) (trims : List (Trim K)) (uvs : List (K × K)) (flags : List TrimFlags) (i : ℕ) (a : TrimFlags)
    (h : FlagsOK tols trims uvs flags) (ha : a.inside = true → NearInside tols trims (uvs.getD i (0, 0))) :
    FlagsOK tols trims uvs (flags.set i a) := by
  intro k hk
  rw [getD_set] at hk
  by_cases hc : i = k ∧ i < flags.length
  · rw [if_pos hc] at hk; rw [← hc.1]; exact ha hk
  · rw [if_neg hc] at hk; exact h k hk

theorem flagsOK_step (tt : TrimTol K) (sq : K → K) (trims : List (Trim K)) (hnr : ∀ tr ∈ trims, tr.reversed = false)
    (uvs : List (K × K)) (nv : ℕ) (st : TrimLoop K) (ij : ℕ × ℕ) (h : FlagsOK tt.tols trims uvs st.flags) :
    FlagsOK tt.tols trims uvs (trimLoopStep tt sq trims uvs nv st ij).flags := by
  rw [trimLoopStep_flags]
  have key : ∀ (idx k : ℕ), idx < 4 → (cornerFlags tt trims idx (gridCorner uvs st.flags k)).inside = true →
      NearInside tt.tols trims (uvs.getD k (0, 0)) := by
    intro idx k hidx hin
    rw [cornerFlags_nonreversed tt trims hnr] at hin
    rcases Bool.or_eq_true_iff.mp hin with h1 | h1
    · exact h k h1
    · obtain ⟨tr, htr, hh⟩ := List.any_eq_true.mp h1
      exact ⟨idx, hidx, tr, htr, hh⟩
  exact flagsOK_set _ _ _ _ _ _ (flagsOK_set _ _ _ _ _ _ (flagsOK_set _ _ _ _ _ _ (flagsOK_set _ _ _ _ _ _ h
    (key 0 _ (by omega))) (key 1 _ (by omega))) (key 2 _ (by omega))) (key 3 _ (by omega))

theorem flagsOK_init (tols : K) (trims : List (Trim K)) (uvs : List (K × K)) :
    FlagsOK tols trims uvs (loopInit uvs).flags := by
  intro k hk
  simp only [loopInit] at hk
  rw [List.getD_eq_getElem?_getD, List.getElem?_replicate] at hk
  split at hk <;> simp at hk

/-- before every cell of the loop the flags satisfy the invariant -/
theorem flagsOK_stateAt (tt : TrimTol K) (sq : K → K) (trims : List (Trim K)) (hnr : ∀ tr ∈ trims, tr.reversed = false)
    (uvs : List (K × K)) (nv : ℕ) (L : List (ℕ × ℕ)) (n : ℕ) :
    FlagsOK tt.tols trims uvs (stateAt (trimLoopStep tt sq trims uvs nv) (loopInit uvs) L n).flags :=
  stateAt_inv _ (fun st => FlagsOK tt.tols trims uvs st.flags)
    (fun st ij h => flagsOK_step tt sq trims hnr uvs nv st ij h) L _ (flagsOK_init tt.tols trims uvs) n

/-! ### cells away from the trims / inside the trims (non-reversed trims) -/

/-- some trim contains the point -/
def InSomeTrim (trims : List (Trim K)) (p : K × K) : Prop := ∃ tr ∈ trims, wnPoly p tr.pts = true

theorem any_wn_false (trims : List (Trim K)) (p : K × K) (h : ¬ InSomeTrim trims p) :
    (trims.any fun tr => wnPoly p tr.pts) = false := by
  by_contra hc
  obtain ⟨tr, htr, hh⟩ := List.any_eq_true.mp (by simpa using hc)
  exact h ⟨tr, htr, hh⟩

theorem classifyTri_nonreversed (trims : List (Trim K)) (hnr : ∀ tr ∈ trims, tr.reversed = false) (p : K × K) :
    (classifyTri trims p).inside = trims.any fun tr => wnPoly p tr.pts := by
  rw [classifyTri_eq, (flagFold_nonreversed _ trims {} hnr).1]; rfl

/-- the cell `(i, j)` of the loop, all trims non-reversed, each of its four corners has its OWN offset point (the one
    this cell tests) inside some trim: the cell returns nothing -/
theorem loopCell_omitted (tt : TrimTol K) (sq : K → K) (trims : List (Trim K)) (hnr : ∀ tr ∈ trims, tr.reversed = false)
    (uvs : List (K × K)) (nv : ℕ) (st : TrimLoop K) (i j : ℕ)
    (h1 : InSomeTrim trims (cornerPoint tt.tols 0 (uvs.getD (j + i * nv) (0, 0)) false))
    (h2 : InSomeTrim trims (cornerPoint tt.tols 1 (uvs.getD (j + (i + 1) * nv) (0, 0)) false))
    (h3 : InSomeTrim trims (cornerPoint tt.tols 2 (uvs.getD (j + 1 + (i + 1) * nv) (0, 0)) false))
    (h4 : InSomeTrim trims (cornerPoint tt.tols 3 (uvs.getD (j + 1 + i * nv) (0, 0)) false)) :
    (loopCell tt sq trims uvs nv st (i, j)).verts = [] ∧ (loopCell tt sq trims uvs nv st (i, j)).tris = [] := by
  unfold loopCell
  apply trimCell_of_allInside
  have key : ∀ (idx k : ℕ), InSomeTrim trims (cornerPoint tt.tols idx (uvs.getD k (0, 0)) false) →
      (cornerFlags tt trims idx (gridCorner uvs st.flags k)).inside = true := by
    intro idx k ⟨tr, htr, hh⟩
    rw [cornerFlags_nonreversed tt trims hnr]
    apply Bool.or_eq_true_iff.mpr; right
    exact List.any_eq_true.mpr ⟨tr, htr, hh⟩
  simp only [allInside, key 0 _ h1, key 1 _ h2, key 2 _ h3, key 3 _ h4, Bool.and_self]

/-- the cell `(i, j)` of the loop, all trims non-reversed, none of the offset points of its four corners in a trim,
    the centres of the two candidate triangles in no trim: the cell returns its four corners and exactly the two
    triangles of the untrimmed tessellation (`polygon_triangulate` of the four corner ids) -/
theorem loopCell_untrimmed (tt : TrimTol K) (sq : K → K) (trims : List (Trim K)) (hnr : ∀ tr ∈ trims, tr.reversed = false)
    (uvs : List (K × K)) (nv : ℕ) (st : TrimLoop K) (hst : FlagsOK tt.tols trims uvs st.flags) (i j : ℕ)
    (h1 : ¬ NearInside tt.tols trims (uvs.getD (j + i * nv) (0, 0)))
    (h2 : ¬ NearInside tt.tols trims (uvs.getD (j + (i + 1) * nv) (0, 0)))
    (h3 : ¬ NearInside tt.tols trims (uvs.getD (j + 1 + (i + 1) * nv) (0, 0)))
    (h4 : ¬ NearInside tt.tols trims (uvs.getD (j + 1 + i * nv) (0, 0)))
    (hc1 : ¬ InSomeTrim trims (triCenterUV (uvs.getD (j + i * nv) (0, 0)) (uvs.getD (j + (i + 1) * nv) (0, 0))
      (uvs.getD (j + 1 + (i + 1) * nv) (0, 0))))
    (hc2 : ¬ InSomeTrim trims (triCenterUV (uvs.getD (j + i * nv) (0, 0)) (uvs.getD (j + 1 + (i + 1) * nv) (0, 0))
      (uvs.getD (j + 1 + i * nv) (0, 0)))) :
    (loopCell tt sq trims uvs nv st (i, j)).verts
      = [(j + i * nv, uvs.getD (j + i * nv) (0, 0)), (j + (i + 1) * nv, uvs.getD (j + (i + 1) * nv) (0, 0)),
         (j + 1 + (i + 1) * nv, uvs.getD (j + 1 + (i + 1) * nv) (0, 0)), (j + 1 + i * nv, uvs.getD (j + 1 + i * nv) (0, 0))] ∧
    (loopCell tt sq trims uvs nv st (i, j)).tris
      = [(st.tidx, [j + i * nv, j + (i + 1) * nv, j + 1 + (i + 1) * nv]),
         (st.tidx + 1, [j + i * nv, j + 1 + (i + 1) * nv, j + 1 + i * nv])] ∧
    (loopCell tt sq trims uvs nv st (i, j)).tris.map (·.2) = polygonTriangulate (quadCell nv i j) := by
  have key : ∀ (idx k : ℕ), idx < 4 → ¬ NearInside tt.tols trims (uvs.getD k (0, 0)) →
      (cornerFlags tt trims idx (gridCorner uvs st.flags k)).inside = false := by
    intro idx k hidx hn
    rw [cornerFlags_nonreversed tt trims hnr]
    have a : (gridCorner uvs st.flags k).fl.inside = false := by
      by_contra hc
      exact hn (hst k (by simpa [gridCorner] using hc))
    have b : (trims.any fun tr => wnPoly (cornerPoint tt.tols idx (gridCorner uvs st.flags k).uv false) tr.pts) = false := by
      apply any_wn_false
      rintro ⟨tr, htr, hh⟩
      exact hn ⟨idx, hidx, tr, htr, hh⟩
    rw [a, b]; rfl
  have c1 := classifyTri_nonreversed trims hnr (triCenterUV (uvs.getD (j + i * nv) (0, 0))
    (uvs.getD (j + (i + 1) * nv) (0, 0)) (uvs.getD (j + 1 + (i + 1) * nv) (0, 0)))
  rw [any_wn_false trims _ hc1] at c1
  have c2 := classifyTri_nonreversed trims hnr (triCenterUV (uvs.getD (j + i * nv) (0, 0))
    (uvs.getD (j + 1 + (i + 1) * nv) (0, 0)) (uvs.getD (j + 1 + i * nv) (0, 0)))
  rw [any_wn_false trims _ hc2] at c2
  have := trimCell_outside tt sq trims (gridCorner uvs st.flags (j + i * nv)) (gridCorner uvs st.flags (j + (i + 1) * nv))
    (gridCorner uvs st.flags (j + 1 + (i + 1) * nv)) (gridCorner uvs st.flags (j + 1 + i * nv)) st.vidx st.tidx
    (key 0 _ (by omega) h1) (key 1 _ (by omega) h2) (key 2 _ (by omega) h3) (key 3 _ (by omega) h4) c1 c2
  unfold loopCell
  refine ⟨this.1, this.2, ?_⟩
  rw [this.2]
  rfl

end Geomdl.Trim
