import NurbsVerif.Lemmas.RemoveMultiObj
import NurbsVerif.Lemmas.RemoveMultiVol
import NurbsVerif.Lemmas.UniqueVolObj
import NurbsVerif.Lemmas.UniqueVolObjRows

/-!
  C06, several directions in one call, part 5 (volumes): two direction steps of `operations.insert_knot` along
  different directions of a volume commute as objects; `insert_knot` requesting any subset of the three directions
  followed by `remove_knot` with the same parameters and counts `t_d ≤ r_d`.
-/
namespace Geomdl
namespace Multi
open Blossom Finset
set_option linter.unusedSectionVars false
variable {K : Type} [Field K] [LinearOrder K] [IsStrictOrderedRing K]

/-- **two direction steps of `operations.insert_knot` on a volume commute** (`da < db`, both requests admissible on
    `S`) -/
theorem volume_insDir_comm (d : ℕ) (S : Shape K) (hS : VolWF d S) (da db : ℕ) (hlt : da < db) (hdb : db < 3)
    (a b : K) (r0 r1 : ℕ) (tol : K) (h0 : DirReqOk S da a r0 tol) (h1 : DirReqOk S db b r1 tol) :
    insDirOf (insDirOf S da a r0 tol) db b r1 tol = insDirOf (insDirOf S db b r1 tol) da a r0 tol := by
  have hs0 : 0 < S.size 0 := by have := hS.dir0.pn; omega
  have hs1 : 0 < S.size 1 := by have := hS.dir1.pn; omega
  have hs2 : 0 < S.size 2 := by have := hS.dir2.pn; omega
  have hsa : 0 < S.size da := by have := (hS.dir da (by omega)).pn; omega
  have hsb : 0 < S.size db := by have := (hS.dir db hdb).pn; omega
  have hf := insFnOf_coordLin d S da a r0 tol (hS.dir da (by omega)) h0
  have hg := insFnOf_coordLin d S db b r1 tol (hS.dir db hdb) h1
  obtain ⟨m1, m2, N, m3, m4⟩ := mapVol_comm d da db hlt hdb S.size (S.size da + r0) (S.size db + r1) S.net _ _ hf hg
    hS.net hS.netlen hs0 hs1 hs2 (by omega) (by omega)
  have o0 := (withDir_other S da (insKvOf S da a r0) (insFnOf S da a r0 tol)).2.2 db (by omega)
  have o1 := (withDir_other S db (insKvOf S db b r1) (insFnOf S db b r1 tol)).2.2 da (by omega)
  rw [insDirOf_congr S (insDirOf S da a r0 tol) db b r1 tol rfl o0.1 o0.2,
    insDirOf_congr S (insDirOf S db b r1 tol) da a r0 tol rfl o1.1 o1.2]
  apply withDir_comm_of_maps S da db (by omega) _ _ _ _ N (S.size da + r0) (S.size db + r1)
  · rw [mapDir_vol (insDirOf S da a r0 tol) db _ hS.degs]
    have esz : ∀ x, (insDirOf S da a r0 tol).size x = Function.update S.size da (S.size da + r0) x := by
      intro x
      by_cases hx : x = da
      · subst hx
        rw [Function.update_self]
        show (S.sizes.set x _).getD x 0 = _
        rw [getD_set_self _ x _ _ (by rw [hS.sizes]; omega), mapDir_vol S x _ hS.degs, m1]
      · rw [Function.update_of_ne hx]
        exact ((withDir_other S da _ _).2.2 x hx).2
    have en : (insDirOf S da a r0 tol).net = (mapVol da (S.size 0) (S.size 1) (S.size 2) S.net (insFnOf S da a r0 tol)).1 := by
      show (S.mapDir da _).1 = _; rw [mapDir_vol S da _ hS.degs]
    rw [esz 0, esz 1, esz 2, en]
    exact m3
  · rw [mapDir_vol (insDirOf S db b r1 tol) da _ hS.degs]
    have esz : ∀ x, (insDirOf S db b r1 tol).size x = Function.update S.size db (S.size db + r1) x := by
      intro x
      by_cases hx : x = db
      · subst hx
        rw [Function.update_self]
        show (S.sizes.set x _).getD x 0 = _
        rw [getD_set_self _ x _ _ (by rw [hS.sizes]; omega), mapDir_vol S x _ hS.degs, m2]
      · rw [Function.update_of_ne hx]
        exact ((withDir_other S db _ _).2.2 x hx).2
    have en : (insDirOf S db b r1 tol).net = (mapVol db (S.size 0) (S.size 1) (S.size 2) S.net (insFnOf S db b r1 tol)).1 := by
      show (S.mapDir db _).1 = _; rw [mapDir_vol S db _ hS.degs]
    rw [esz 0, esz 1, esz 2, en]
    exact m4
  · rw [mapDir_vol S da _ hS.degs]; exact m1
  · rw [mapDir_vol S db _ hS.degs]; exact m2

/-- the facts about single direction steps, volumes -/
theorem volFacts (d : ℕ) (tol tol2 : K) (h2 : 0 ≤ tol2) : DirFacts (VolWF (K := K) d) 3 removeKnotDir tol tol2 where
  wf := fun T dir u r hT hd hR => (insDirOf_volume d T hT dir hd u r tol hR.r1 hR.req).1.wf
  comm := fun T dir e u v r q hT hd he hde hRd hRe => by
    rcases Nat.lt_or_gt_of_ne hde with hlt | hlt
    · exact volume_insDir_comm d T hT dir e hlt he u v r q tol hRd.req hRe.req
    · exact (volume_insDir_comm d T hT e dir hlt hd v u q r tol hRe.req hRd.req).symm
  round := fun T dir u r t c hT hd hR ht1 htr => volume_insertDir_removeDir_t d T hT dir hd u r t tol tol2 c hR h2 ht1 htr
  zero := fun T dir u r hT hd hR => by
    have a := volume_insertDir_removeDir_t d T hT dir hd u r r tol tol2 true hR h2 hR.r1 (le_refl _)
    rw [volume_insertDir_removeDir d T hT dir hd u r tol tol2 true hR h2, Nat.sub_self] at a
    exact (Option.some.inj a).symm
  pdim := fun T hT => hT.degs

/-- **volumes, several directions in one call each**: `insert_knot` (any subset of the three directions) followed by
    `remove_knot` with the same parameters and counts `nums' ≤ nums` returns what `insert_knot` with the counts
    `nums - nums'` returns -/
theorem volume_insertKnot_removeKnot_multi (d : ℕ) (S : Shape K) (hS : VolWF d S) (params : List (Option K))
    (nums nums' : List ℕ) (tol tol2 : K) (c1 c2 : Bool) (h : RoundCallOk 3 S params nums tol) (h2 : 0 ≤ tol2)
    (hle : ∀ e, e < 3 → nums'.getD e 0 ≤ nums.getD e 0) :
    removeKnot (insertKnot S params nums tol c1).1 params nums' tol tol2 c2
      = insertKnot S params (subNums nums nums') tol c1 :=
  insertKnot_removeKnot (volFacts d tol tol2 h2) params nums nums' c1 c2 S hS h.admL hle

/-- … with the same counts: the original object -/
theorem volume_insertKnot_removeKnot_multi_same (d : ℕ) (S : Shape K) (hS : VolWF d S) (params : List (Option K))
    (nums : List ℕ) (tol tol2 : K) (c1 c2 : Bool) (h : RoundCallOk 3 S params nums tol) (h2 : 0 ≤ tol2) :
    removeKnot (insertKnot S params nums tol c1).1 params nums tol tol2 c2 = (S, true) := by
  rw [volume_insertKnot_removeKnot_multi d S hS params nums nums tol tol2 c1 c2 h h2 (fun _ _ => le_refl _)]
  exact insertKnot_zero S params _ tol c1 (fun e _ => subNums_self nums e)

/-- … and every evaluated point is that of the refined volume and of the original one -/
theorem volume_insertKnot_removeKnot_multi_points (d : ℕ) (S : Shape K) (hS : VolWF d S) (params : List (Option K))
    (nums nums' : List ℕ) (tol tol2 : K) (c1 c2 : Bool) (h : RoundCallOk 3 S params nums tol) (h2 : 0 ≤ tol2)
    (hle : ∀ e, e < 3 → nums'.getD e 0 ≤ nums.getD e 0)
    (u v w : K) (hu1 : fnOf (S.kv 0) (S.deg 0) ≤ u) (hu2 : u ≤ fnOf (S.kv 0) (S.size 0))
    (hv1 : fnOf (S.kv 1) (S.deg 1) ≤ v) (hv2 : v ≤ fnOf (S.kv 1) (S.size 1))
    (hw1 : fnOf (S.kv 2) (S.deg 2) ≤ w) (hw2 : w ≤ fnOf (S.kv 2) (S.size 2)) (j : ℕ) :
    (volEval (removeKnot (insertKnot S params nums tol c1).1 params nums' tol tol2 c2).1 u v w).getD j 0
      = (volEval (insertKnot S params nums tol c1).1 u v w).getD j 0 ∧
    (volEval (insertKnot S params nums tol c1).1 u v w).getD j 0 = (volEval S u v w).getD j 0 := by
  rw [volume_insertKnot_removeKnot_multi d S hS params nums nums' tol tol2 c1 c2 h h2 hle]
  have a := (insertKnot_volume' d S hS params nums tol c1 h.callOk).1.eval u v w hu1 hu2 hv1 hv2 hw1 hw2 j
  have b := (insertKnot_volume' d S hS params _ tol c1 (h.sub nums').callOk).1.eval u v w hu1 hu2 hv1 hv2 hw1 hw2 j
  exact ⟨b.trans a.symm, a⟩

/-- … with the list-of-rows direction step the code runs on volumes (`removeKnotVolRows`: one removability flag per
    step from the first iso-curve): on a knot that was inserted it returns what the per-iso-curve step returns -/
theorem volFactsRows (d : ℕ) (tol tol2 : K) (h2 : 0 ≤ tol2) : DirFacts (VolWF (K := K) d) 3 removeKnotVolRows tol tol2 where
  wf := (volFacts d tol tol2 h2).wf
  comm := (volFacts d tol tol2 h2).comm
  round := fun T dir u r t c hT hd hR ht1 htr => by
    rw [removeKnotVolRows_insDirOf d T hT dir hd u r t tol tol2 c hR h2 htr]
    exact volume_insertDir_removeDir_t d T hT dir hd u r t tol tol2 c hR h2 ht1 htr
  zero := (volFacts d tol tol2 h2).zero
  pdim := (volFacts d tol tol2 h2).pdim

/-- **volumes, several directions in one call each, the removal computed the way the code does it**: the loop of
    `operations.remove_knot` over the three directions with the rows-branch direction step `removeKnotVolRows` -/
theorem volume_insertKnot_removeKnot_multi_rows (d : ℕ) (S : Shape K) (hS : VolWF d S) (params : List (Option K))
    (nums nums' : List ℕ) (tol tol2 : K) (c1 c2 : Bool) (h : RoundCallOk 3 S params nums tol) (h2 : 0 ≤ tol2)
    (hle : ∀ e, e < 3 → nums'.getD e 0 ≤ nums.getD e 0) :
    (List.range 3).foldl (remStepWith removeKnotVolRows params nums' tol tol2 c2) ((insertKnot S params nums tol c1).1, true)
      = insertKnot S params (subNums nums nums') tol c1 :=
  (insertKnot_remFold (volFactsRows d tol tol2 h2) params nums nums' c1 c2 S hS h.admL hle).1

end Multi
end Geomdl
