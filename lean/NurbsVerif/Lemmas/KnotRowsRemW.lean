import NurbsVerif.Lemmas.KnotRowsRem2

/-! List-of-rows branches, part 8: the rows branch of A5.8 keeps the rows rectangular (every row of the
    result has as many points as the rows of the input) – whatever the removability flags are. -/
namespace Geomdl
namespace Rows
open RemInv
variable {K : Type} [Field K] [LinearOrder K] [IsStrictOrderedRing K]

theorem RectW.set' {m : ℕ} {R : List (List (List K))} (h : RectW m R) (i : ℕ) (row : List (List K))
    (hr : row.length = m) : RectW m (R.set i row) := by
  intro x hx
  rcases List.mem_or_eq_of_mem_set hx with h1 | h1
  · exact h x h1
  · rw [h1]; exact hr

/-- the part of the state that matters for the widths -/
structure WInv (m n p : ℕ) (st : RemRowsSt K) : Prop where
  cp : RectW m st.cp
  temp : RectW m st.temp
  tlen : st.temp.length = 2 * p + 1
  clen : st.cp.length = n

theorem writeTemp_winv {m n p : ℕ} {st : RemRowsSt K} (h : WInv m n p st) (y : ℕ) (row : List (List K))
    (hrow : row.length = m) : WInv m n p (st.writeTemp y row) := by
  refine ⟨?_, ?_, ?_, ?_⟩
  · exact writeFold_rect m y row hrow _ _ h.cp
  · exact h.temp.set' _ _ hrow
  · show (st.temp.set y row).length = _
    rw [List.length_set]; exact h.tlen
  · show (st.al.foldl _ st.cp).length = n
    rw [writeFold_length]; exact h.clen

theorem sweep_winv (U : ℕ → K) (u : K) (p t m n : ℕ) : ∀ (fuel : ℕ) (st : RemRowsSt K), WInv m n p st →
    WInv m n p (remSweepRows U u p t m fuel st) := by
  intro fuel
  induction fuel with
  | zero => intro st h; exact h
  | succ fuel ih =>
    intro st h
    unfold remSweepRows
    split
    · apply ih
      have h1 := writeTemp_winv h st.ii ((List.range m).map (fun idx => List.zipWith
        (fun cpt x => (cpt - (1 - alphaI U u p t st.i) * x) / alphaI U u p t st.i)
        (ptsGet (rowGet st.cp st.i) idx) (ptsGet (rowGet st.temp (st.ii - 1)) idx))) (by simp)
      have h2 := writeTemp_winv h1 st.jj ((List.range m).map (fun idx => List.zipWith
        (fun cpt x => (cpt - alphaJ U u p t st.j * x) / (1 - alphaJ U u p t st.j))
        (ptsGet (rowGet (st.writeTemp st.ii ((List.range m).map (fun idx => List.zipWith
          (fun cpt x => (cpt - (1 - alphaI U u p t st.i) * x) / alphaI U u p t st.i)
          (ptsGet (rowGet st.cp st.i) idx) (ptsGet (rowGet st.temp (st.ii - 1)) idx)))).cp st.j) idx)
        (ptsGet (rowGet (st.writeTemp st.ii ((List.range m).map (fun idx => List.zipWith
          (fun cpt x => (cpt - (1 - alphaI U u p t st.i) * x) / alphaI U u p t st.i)
          (ptsGet (rowGet st.cp st.i) idx) (ptsGet (rowGet st.temp (st.ii - 1)) idx)))).temp (st.jj + 1)) idx)))
        (by simp)
      exact ⟨h2.cp, h2.temp, h2.tlen, h2.clen⟩
    · exact h

theorem bindTemp_winv {m n p : ℕ} {st : RemRowsSt K} (h : WInv m n p st) (y x : ℕ) (hx : x < n) :
    WInv m n p (st.bindTemp y x) := by
  refine ⟨h.cp, ?_, ?_, h.clen⟩
  · exact h.temp.set' _ _ (h.cp.rowGet x (by rw [h.clen]; exact hx))
  · show (st.temp.set y _).length = _
    rw [List.length_set]; exact h.tlen

theorem copy_winv {m n p : ℕ} (first last t : ℕ) (st : RemRowsSt K) (h : WInv m n p st)
    (hfuel : last ≤ first + t + 2 * (p + 2)) (hl : last < n) (hW : last - first + 1 ≤ 2 * p) :
    WInv m n p (remCopyRows first t (p + 2) first last st) := by
  refine ⟨?_, ?_, ?_, ?_⟩
  · apply rectW_of_get
    intro y hy
    rw [remCopyRows_length, h.clen] at hy
    rw [remCopyRows_get first t (p + 2) first last st y hfuel (by rw [h.clen]; exact hl)]
    split
    · rename_i hc
      exact h.temp.rowGet _ (by rw [h.tlen]; omega)
    · exact h.cp.rowGet _ (by rw [h.clen]; exact hy)
  · rw [remCopyRows_temp]; exact h.temp
  · rw [remCopyRows_temp]; exact h.tlen
  · rw [remCopyRows_length]; exact h.clen

theorem step_winv (U : ℕ → K) (u : K) (p m n t first last : ℕ) (tol2 : K) (st : RemRowsSt K) (h : WInv m n p st)
    (hf : first ≤ last) (hfuel : last ≤ first + t + 2 * (p + 2)) (hl : last + 1 < n) (hW : last - first + 1 ≤ 2 * p) :
    WInv m n p (remStepRows U u p m tol2 (st, first, last) t).1 ∧
    (remStepRows U u p m tol2 (st, first, last) t).2 = (first - 1, last + 1) := by
  refine ⟨?_, rfl⟩
  unfold remStepRows
  simp only []
  have h0 : WInv m n p ((st.bindTemp 0 (first - 1)).bindTemp (last - first + 2) (last + 1)) :=
    bindTemp_winv (bindTemp_winv h 0 (first - 1) (by omega)) _ _ hl
  have h1 := sweep_winv U u p t m n (p + 2)
    { ((st.bindTemp 0 (first - 1)).bindTemp (last - first + 2) (last + 1)) with
        i := first, j := last, ii := 1, jj := last - first + 1 } ⟨h0.cp, h0.temp, h0.tlen, h0.clen⟩
  split
  · exact copy_winv first last t _ h1 hfuel (by omega) hW
  · exact h1

theorem shift_rect (m i j : ℕ) : ∀ (l : List ℕ) (cp : List (List (List K))), RectW m cp →
    (∀ k ∈ l, i + 1 + k < cp.length) →
    RectW m (l.foldl (fun (q : List (List (List K))) k => q.set (j + k) (rowGet q (i + 1 + k))) cp) := by
  intro l
  induction l with
  | nil => intro cp h _; exact h
  | cons a l ih =>
    intro cp h hk
    rw [List.foldl_cons]
    apply ih
    · exact h.set' _ _ (h.rowGet _ (hk a (List.mem_cons_self)))
    · intro k hk'
      rw [List.length_set]
      exact hk k (List.mem_cons_of_mem _ hk')

/-- **the rows branch of A5.8 keeps the rows rectangular** (any flags) -/
theorem knotRemovalRows_rect (p : ℕ) (U : ℕ → K) (R : List (List (List K))) (u : K) (num s r : ℕ) (tol2 : K)
    (hR : RectW (R.headD []).length R) (hsp : s ≤ p) (hns : num ≤ s) (hps : p + num ≤ r) (hr : r < R.length) :
    RectW (R.headD []).length (knotRemovalRows p U R u num s r tol2) := by
  unfold knotRemovalRows
  by_cases h0 : num = 0
  · rw [if_pos h0]; exact hR
  · rw [if_neg h0]
    simp only []
    have key : ∀ t, t ≤ num →
        WInv (R.headD []).length R.length p (rowsState p U R u s r tol2 t).1 ∧
        (rowsState p U R u s r tol2 t).2 = (r - p - t, r - s + t) := by
      intro t
      induction t with
      | zero =>
        intro _
        refine ⟨⟨hR, ?_, by simp [rowsState], rfl⟩, rfl⟩
        intro row hrow
        have : row ∈ List.replicate (2 * p + 1) (List.replicate (R.headD []).length ([] : List K)) := hrow
        rw [List.eq_of_mem_replicate this]; simp
      | succ t ih =>
        intro ht
        obtain ⟨hw, hfl⟩ := ih (by omega)
        have hst : rowsState p U R u s r tol2 t = ((rowsState p U R u s r tol2 t).1, r - p - t, r - s + t) :=
          Prod.ext rfl hfl
        rw [rowsState_succ, hst]
        obtain ⟨g1, g2⟩ := step_winv U u p (R.headD []).length R.length t (r - p - t) (r - s + t) tol2 _ hw
          (by omega) (by omega) (by omega) (by omega)
        refine ⟨g1, ?_⟩
        rw [g2]
        exact Prod.ext (by show r - p - t - 1 = _; omega) (by show r - s + t + 1 = _; omega)
    obtain ⟨hw, _⟩ := key num (le_refl _)
    have hcp : RectW (R.headD []).length (rowsState p U R u s r tol2 num).1.cp := hw.cp
    have hlen : (rowsState p U R u s r tol2 num).1.cp.length = R.length := hw.clen
    unfold rowsState at hcp hlen
    intro row hrow
    have hrow' := List.mem_of_mem_take hrow
    exact shift_rect _ _ _ _ _ hcp (by
      intro k hk
      rw [hlen]
      have := List.mem_range.mp hk
      omega) row hrow'

/-- **`knot_removal` on a list of rows whose iso-curves all pass the removability test at every step =
    transpose, A5.8 on every iso-curve, transpose back** -/
theorem knotRemovalRows_eq_ofCols (p : ℕ) (U : ℕ → K) (R : List (List (List K))) (u : K) (num s r : ℕ) (tol2 : K)
    (hR : RectW (R.headD []).length R) (hm : 0 < (R.headD []).length)
    (hsp : s ≤ p) (hns : num ≤ s) (hps : p + num ≤ r) (hr : r < R.length)
    (hall : ∀ c, c < (R.headD []).length → AllRemovable p U (isoCol c R) u num s r tol2) :
    knotRemovalRows p U R u num s r tol2
      = ofCols (R.length - num) (R.headD []).length (fun c => knotRemoval p U (isoCol c R) u num s r tol2) := by
  have hcol := isoCol_knotRemovalRows p U R u num s r tol2 hm hsp hns hps hr hall
  have hlen : (knotRemovalRows p U R u num s r tol2).length = R.length - num := by
    rw [← isoCol_length 0, hcol 0 hm, knotRemoval_length, isoCol_length]
  apply rows_ext _ _ _ (knotRemovalRows_rect p U R u num s r tol2 hR hsp hns hps hr) (ofCols_rect _ _ _)
  · rw [hlen]; simp [ofCols]
  · intro c hc
    rw [hcol c hc, isoCol_ofCols _ _ _ c hc]
    rw [knotRemoval_length, isoCol_length]

end Rows
end Geomdl
