import NurbsVerif.Lemmas.InsertSurf

/-! Volumes: the point computed by `volumePointAt` as a triple sum over the active control points,
    its decomposition into iso-curves of each of the three directions, and the index theorems of
    the flat layout `v + sv·(u + su·w)`. -/
namespace Geomdl
open Blossom Finset
variable {K : Type} [Field K] [LinearOrder K] [IsStrictOrderedRing K]

/-- the flat index of a volume net stays inside the net -/
theorem vol_idx_lt (su sv sw a b c : ℕ) (ha : a < su) (hb : b < sv) (hc : c < sw) :
    b + sv * (a + su * c) < su * sv * sw := by
  have h1 : a + su * c < su * sw := by
    calc a + su * c < su + su * c := by omega
      _ = su * (c + 1) := by ring
      _ ≤ su * sw := Nat.mul_le_mul_left _ (by omega)
  calc b + sv * (a + su * c) < sv + sv * (a + su * c) := by omega
    _ = sv * (a + su * c + 1) := by ring
    _ ≤ sv * (su * sw) := Nat.mul_le_mul_left _ (by omega)
    _ = su * sv * sw := by ring

/-! ### nested `flatMap`s over ranges are flat arrays -/

theorem flat2_length {α : Type} (g : ℕ → ℕ → α) (A B : ℕ) :
    ((List.range A).flatMap (fun a => (List.range B).map (fun b => g a b))).length = B * A := by
  rw [List.flatMap_def, flatten_uniform_length B]
  · simp
  · intro r hr
    simp only [List.mem_map, List.mem_range] at hr
    obtain ⟨a, _, rfl⟩ := hr
    simp

theorem flat2_getD {α : Type} (dflt : α) (g : ℕ → ℕ → α) (A B a b : ℕ) (ha : a < A) (hb : b < B) :
    ((List.range A).flatMap (fun a => (List.range B).map (fun b => g a b))).getD (b + B * a) dflt = g a b := by
  rw [List.flatMap_def, flatten_uniform_getD dflt B _ _ a b (by simpa using ha) hb]
  · simp [List.getD_eq_getElem?_getD, ha, hb]
  · intro r hr
    simp only [List.mem_map, List.mem_range] at hr
    obtain ⟨a, _, rfl⟩ := hr
    simp

theorem flat3_length {α : Type} (g : ℕ → ℕ → ℕ → α) (A B C : ℕ) :
    ((List.range C).flatMap (fun c => (List.range A).flatMap (fun a => (List.range B).map (fun b => g a b c)))).length
      = A * B * C := by
  rw [List.flatMap_def, flatten_uniform_length (B * A)]
  · simp only [List.length_map, List.length_range]; ring
  · intro r hr
    simp only [List.mem_map, List.mem_range] at hr
    obtain ⟨c, _, rfl⟩ := hr
    exact flat2_length _ A B

theorem flat3_getD {α : Type} (dflt : α) (g : ℕ → ℕ → ℕ → α) (A B C a b c : ℕ) (ha : a < A) (hb : b < B) (hc : c < C) :
    ((List.range C).flatMap (fun c => (List.range A).flatMap (fun a => (List.range B).map (fun b => g a b c)))).getD
      (b + B * (a + A * c)) dflt = g a b c := by
  have hidx : b + B * (a + A * c) = (b + B * a) + (B * A) * c := by ring
  have hlt : b + B * a < B * A := by
    calc b + B * a < B + B * a := by omega
      _ = B * (a + 1) := by ring
      _ ≤ B * A := Nat.mul_le_mul_left _ (by omega)
  rw [hidx, List.flatMap_def, flatten_uniform_getD dflt (B * A) _ _ c (b + B * a) (by simpa using hc) hlt]
  · have : ((List.range C).map (fun c => (List.range A).flatMap (fun a => (List.range B).map (fun b => g a b c)))).getD c []
        = (List.range A).flatMap (fun a => (List.range B).map (fun b => g a b c)) := by
      simp [List.getD_eq_getElem?_getD, hc]
    rw [this]
    exact flat2_getD dflt (fun a b => g a b c) A B a b ha hb
  · intro r hr
    simp only [List.mem_map, List.mem_range] at hr
    obtain ⟨c, _, rfl⟩ := hr
    exact flat2_length _ A B

theorem flat3_mem {α : Type} (g : ℕ → ℕ → ℕ → α) (A B C : ℕ) (x : α)
    (hx : x ∈ (List.range C).flatMap (fun c => (List.range A).flatMap (fun a => (List.range B).map (fun b => g a b c)))) :
    ∃ a b c, a < A ∧ b < B ∧ c < C ∧ x = g a b c := by
  simp only [List.mem_flatMap, List.mem_map, List.mem_range] at hx
  obtain ⟨c, hc, a, ha, b, hb, rfl⟩ := hx
  exact ⟨a, b, c, ha, hb, hc, rfl⟩

/-! ### the volume point as a triple sum -/

/-- coordinates of the volume point as a triple sum over the active control points -/
theorem volumePointAt_sum (pu pv pw : ℕ) (Uu Uv Uw : ℕ → K) (su sv sw : ℕ) (P : List (List K))
    (ku kv kw : ℕ) (u v w : K) (d j : ℕ)
    (hpu : pu ≤ ku) (hpv : pv ≤ kv) (hpw : pw ≤ kw) (hku : ku < su) (hkv : kv < sv) (hkw : kw < sw)
    (hlen : P.length = su * sv * sw) (hP : NetOk d P) :
    (volumePointAt pu pv pw Uu Uv Uw su sv P ku kv kw u v w).getD j 0
      = ∑ a ∈ range (pu+1), (basisFuns pu Uu ku u).getD a 0 *
          ∑ b ∈ range (pv+1), (basisFuns pv Uv kv v).getD b 0 *
            ∑ c ∈ range (pw+1), (basisFuns pw Uw kw w).getD c 0 *
              (ptsGet P (kv - pv + b + sv * (ku - pu + a + su * (kw - pw + c)))).getD j 0 := by
  have hpos : 0 < P.length := by
    rw [hlen]; exact Nat.mul_pos (Nat.mul_pos (by omega) (by omega)) (by omega)
  have hidx : ∀ a b c, a < su → b < sv → c < sw → b + sv * (a + su * c) < P.length := by
    intro a b c ha hb hc
    rw [hlen]; exact vol_idx_lt su sv sw a b c ha hb hc
  have lenW : ∀ a b, a ≤ pu → b ≤ pv →
      (linComb d (basisFuns pw Uw kw w)
        ((List.range (pw+1)).map (fun c => ptsGet P (kv - pv + b + sv * (ku - pu + a + su * (kw - pw + c)))))).length = d := by
    intro a b ha hb
    apply linComb_length
    intro pt hpt
    simp only [List.mem_map, List.mem_range] at hpt
    obtain ⟨c, hc, rfl⟩ := hpt
    exact ptsGet_length hP _ (hidx (ku - pu + a) (kv - pv + b) (kw - pw + c) (by omega) (by omega) (by omega))
  have lenV : ∀ a, a ≤ pu →
      (linComb d (basisFuns pv Uv kv v) ((List.range (pv+1)).map (fun b =>
        linComb d (basisFuns pw Uw kw w)
          ((List.range (pw+1)).map (fun c => ptsGet P (kv - pv + b + sv * (ku - pu + a + su * (kw - pw + c)))))))).length = d := by
    intro a ha
    apply linComb_length
    intro pt hpt
    simp only [List.mem_map, List.mem_range] at hpt
    obtain ⟨b, hb, rfl⟩ := hpt
    exact lenW a b ha (by omega)
  unfold volumePointAt
  simp only []
  rw [dimOf_eq hP hpos]
  rw [linComb_range d j pu _ (Blossom.basisFuns_length pu Uu ku u) _ (fun a ha => lenV a ha)]
  apply Finset.sum_congr rfl
  intro a ha
  rw [Finset.mem_range] at ha
  congr 1
  rw [linComb_range d j pv _ (Blossom.basisFuns_length pv Uv kv v) _ (fun b hb => lenW a b (by omega) hb)]
  apply Finset.sum_congr rfl
  intro b hb
  rw [Finset.mem_range] at hb
  congr 1
  rw [linComb_range d j pw _ (Blossom.basisFuns_length pw Uw kw w) _ (fun c hc =>
    ptsGet_length hP _ (hidx (ku - pu + a) (kv - pv + b) (kw - pw + c) (by omega) (by omega) (by omega)))]

/-- the volume point has as many coordinates as the control points -/
theorem volumePointAt_length (pu pv pw : ℕ) (Uu Uv Uw : ℕ → K) (su sv sw : ℕ) (P : List (List K))
    (ku kv kw : ℕ) (u v w : K) (d : ℕ)
    (hpu : pu ≤ ku) (hpv : pv ≤ kv) (hpw : pw ≤ kw) (hku : ku < su) (hkv : kv < sv) (hkw : kw < sw)
    (hlen : P.length = su * sv * sw) (hP : NetOk d P) :
    (volumePointAt pu pv pw Uu Uv Uw su sv P ku kv kw u v w).length = d := by
  have hpos : 0 < P.length := by
    rw [hlen]; exact Nat.mul_pos (Nat.mul_pos (by omega) (by omega)) (by omega)
  unfold volumePointAt
  simp only []
  rw [dimOf_eq hP hpos]
  apply linComb_length
  intro pt hpt
  simp only [List.mem_map, List.mem_range] at hpt
  obtain ⟨a, ha, rfl⟩ := hpt
  apply linComb_length
  intro pt hpt
  simp only [List.mem_map, List.mem_range] at hpt
  obtain ⟨b, hb, rfl⟩ := hpt
  apply linComb_length
  intro pt hpt
  simp only [List.mem_map, List.mem_range] at hpt
  obtain ⟨c, hc, rfl⟩ := hpt
  apply ptsGet_length hP
  rw [hlen]
  exact vol_idx_lt su sv sw _ _ _ (by omega) (by omega) (by omega)

/-! ### re-association of triple sums -/

theorem sum3_first_inner (n m q : ℕ) (x y z : ℕ → K) (F : ℕ → ℕ → ℕ → K) :
    ∑ a ∈ range n, x a * ∑ b ∈ range m, y b * ∑ c ∈ range q, z c * F a b c
      = ∑ b ∈ range m, y b * ∑ c ∈ range q, z c * ∑ a ∈ range n, x a * F a b c := by
  have h1 : ∀ a ∈ range n, x a * ∑ b ∈ range m, y b * ∑ c ∈ range q, z c * F a b c
      = ∑ b ∈ range m, y b * (x a * ∑ c ∈ range q, z c * F a b c) := by
    intro a _
    rw [Finset.mul_sum]
    apply Finset.sum_congr rfl; intro b _; ring
  rw [Finset.sum_congr rfl h1, Finset.sum_comm]
  apply Finset.sum_congr rfl
  intro b _
  rw [← Finset.mul_sum]
  congr 1
  have h2 : ∀ a ∈ range n, x a * ∑ c ∈ range q, z c * F a b c = ∑ c ∈ range q, z c * (x a * F a b c) := by
    intro a _
    rw [Finset.mul_sum]
    apply Finset.sum_congr rfl; intro c _; ring
  rw [Finset.sum_congr rfl h2, Finset.sum_comm]
  apply Finset.sum_congr rfl
  intro c _
  rw [← Finset.mul_sum]

theorem sum3_second_inner (n m q : ℕ) (x y z : ℕ → K) (F : ℕ → ℕ → ℕ → K) :
    ∑ a ∈ range n, x a * ∑ b ∈ range m, y b * ∑ c ∈ range q, z c * F a b c
      = ∑ a ∈ range n, x a * ∑ c ∈ range q, z c * ∑ b ∈ range m, y b * F a b c := by
  apply Finset.sum_congr rfl
  intro a _
  congr 1
  have h2 : ∀ b ∈ range m, y b * ∑ c ∈ range q, z c * F a b c = ∑ c ∈ range q, z c * (y b * F a b c) := by
    intro b _
    rw [Finset.mul_sum]
    apply Finset.sum_congr rfl; intro c _; ring
  rw [Finset.sum_congr rfl h2, Finset.sum_comm]
  apply Finset.sum_congr rfl
  intro c _
  rw [← Finset.mul_sum]

/-! ### iso-curves of a volume net -/

/-- control polygon of the iso-curve `v = y, w = z` (runs in the u direction) -/
def lineU (su sv : ℕ) (P : List (List K)) (y z : ℕ) : List (List K) :=
  (List.range su).map (fun u => ptsGet P (y + sv * (u + su * z)))
/-- control polygon of the iso-curve `u = x, w = z` (runs in the v direction) -/
def lineV (su sv : ℕ) (P : List (List K)) (x z : ℕ) : List (List K) :=
  (List.range sv).map (fun v => ptsGet P (v + sv * (x + su * z)))
/-- control polygon of the iso-curve `u = x, v = y` (runs in the w direction) -/
def lineW (su sv sw : ℕ) (P : List (List K)) (x y : ℕ) : List (List K) :=
  (List.range sw).map (fun w => ptsGet P (y + sv * (x + su * w)))

theorem lineU_length (su sv : ℕ) (P : List (List K)) (y z : ℕ) : (lineU su sv P y z).length = su := by simp [lineU]
theorem lineV_length (su sv : ℕ) (P : List (List K)) (x z : ℕ) : (lineV su sv P x z).length = sv := by simp [lineV]
theorem lineW_length (su sv sw : ℕ) (P : List (List K)) (x y : ℕ) : (lineW su sv sw P x y).length = sw := by simp [lineW]

theorem lineU_get (su sv : ℕ) (P : List (List K)) (y z i : ℕ) (hi : i < su) :
    ptsGet (lineU su sv P y z) i = ptsGet P (y + sv * (i + su * z)) := by
  simp [lineU, ptsGet, List.getD_eq_getElem?_getD, hi]
theorem lineV_get (su sv : ℕ) (P : List (List K)) (x z i : ℕ) (hi : i < sv) :
    ptsGet (lineV su sv P x z) i = ptsGet P (i + sv * (x + su * z)) := by
  simp [lineV, ptsGet, List.getD_eq_getElem?_getD, hi]
theorem lineW_get (su sv sw : ℕ) (P : List (List K)) (x y i : ℕ) (hi : i < sw) :
    ptsGet (lineW su sv sw P x y) i = ptsGet P (y + sv * (x + su * i)) := by
  simp [lineW, ptsGet, List.getD_eq_getElem?_getD, hi]

theorem lineU_netOk (su sv sw d : ℕ) (P : List (List K)) (hP : NetOk d P) (hlen : P.length = su * sv * sw)
    (y z : ℕ) (hy : y < sv) (hz : z < sw) : NetOk d (lineU su sv P y z) := by
  intro pt hpt
  simp only [lineU, List.mem_map, List.mem_range] at hpt
  obtain ⟨x, hx, rfl⟩ := hpt
  apply ptsGet_length hP
  rw [hlen]; exact vol_idx_lt su sv sw x y z hx hy hz
theorem lineV_netOk (su sv sw d : ℕ) (P : List (List K)) (hP : NetOk d P) (hlen : P.length = su * sv * sw)
    (x z : ℕ) (hx : x < su) (hz : z < sw) : NetOk d (lineV su sv P x z) := by
  intro pt hpt
  simp only [lineV, List.mem_map, List.mem_range] at hpt
  obtain ⟨y, hy, rfl⟩ := hpt
  apply ptsGet_length hP
  rw [hlen]; exact vol_idx_lt su sv sw x y z hx hy hz
theorem lineW_netOk (su sv sw d : ℕ) (P : List (List K)) (hP : NetOk d P) (hlen : P.length = su * sv * sw)
    (x y : ℕ) (hx : x < su) (hy : y < sv) : NetOk d (lineW su sv sw P x y) := by
  intro pt hpt
  simp only [lineW, List.mem_map, List.mem_range] at hpt
  obtain ⟨z, hz, rfl⟩ := hpt
  apply ptsGet_length hP
  rw [hlen]; exact vol_idx_lt su sv sw x y z hx hy hz

section Decomp
variable (pu pv pw : ℕ) (Uu Uv Uw : ℕ → K) (su sv sw : ℕ) (P : List (List K))
    (ku kv kw : ℕ) (u v w : K) (d j : ℕ)

/-- the volume point is the `Nv ⊗ Nw`-combination of the points of its u-directional iso-curves -/
theorem volumePointAt_linesU
    (hpu : pu ≤ ku) (hpv : pv ≤ kv) (hpw : pw ≤ kw) (hku : ku < su) (hkv : kv < sv) (hkw : kw < sw)
    (hlen : P.length = su * sv * sw) (hP : NetOk d P) :
    (volumePointAt pu pv pw Uu Uv Uw su sv P ku kv kw u v w).getD j 0
      = ∑ b ∈ range (pv+1), (basisFuns pv Uv kv v).getD b 0 *
          ∑ c ∈ range (pw+1), (basisFuns pw Uw kw w).getD c 0 *
            (curvePointAt pu Uu (lineU su sv P (kv - pv + b) (kw - pw + c)) ku u).getD j 0 := by
  rw [volumePointAt_sum pu pv pw Uu Uv Uw su sv sw P ku kv kw u v w d j hpu hpv hpw hku hkv hkw hlen hP]
  rw [sum3_first_inner]
  apply Finset.sum_congr rfl
  intro b hb
  rw [Finset.mem_range] at hb
  congr 1
  apply Finset.sum_congr rfl
  intro c hc
  rw [Finset.mem_range] at hc
  congr 1
  rw [curvePointAt_sum pu Uu _ ku u d j hpu (by rw [lineU_length]; exact hku)
        (lineU_netOk su sv sw d P hP hlen _ _ (by omega) (by omega))]
  apply Finset.sum_congr rfl
  intro a ha
  rw [Finset.mem_range] at ha
  rw [lineU_get su sv P _ _ _ (by omega)]

/-- the volume point is the `Nu ⊗ Nw`-combination of the points of its v-directional iso-curves -/
theorem volumePointAt_linesV
    (hpu : pu ≤ ku) (hpv : pv ≤ kv) (hpw : pw ≤ kw) (hku : ku < su) (hkv : kv < sv) (hkw : kw < sw)
    (hlen : P.length = su * sv * sw) (hP : NetOk d P) :
    (volumePointAt pu pv pw Uu Uv Uw su sv P ku kv kw u v w).getD j 0
      = ∑ a ∈ range (pu+1), (basisFuns pu Uu ku u).getD a 0 *
          ∑ c ∈ range (pw+1), (basisFuns pw Uw kw w).getD c 0 *
            (curvePointAt pv Uv (lineV su sv P (ku - pu + a) (kw - pw + c)) kv v).getD j 0 := by
  rw [volumePointAt_sum pu pv pw Uu Uv Uw su sv sw P ku kv kw u v w d j hpu hpv hpw hku hkv hkw hlen hP]
  rw [sum3_second_inner]
  apply Finset.sum_congr rfl
  intro a ha
  rw [Finset.mem_range] at ha
  congr 1
  apply Finset.sum_congr rfl
  intro c hc
  rw [Finset.mem_range] at hc
  congr 1
  rw [curvePointAt_sum pv Uv _ kv v d j hpv (by rw [lineV_length]; exact hkv)
        (lineV_netOk su sv sw d P hP hlen _ _ (by omega) (by omega))]
  apply Finset.sum_congr rfl
  intro b hb
  rw [Finset.mem_range] at hb
  rw [lineV_get su sv P _ _ _ (by omega)]

/-- the volume point is the `Nu ⊗ Nv`-combination of the points of its w-directional iso-curves -/
theorem volumePointAt_linesW
    (hpu : pu ≤ ku) (hpv : pv ≤ kv) (hpw : pw ≤ kw) (hku : ku < su) (hkv : kv < sv) (hkw : kw < sw)
    (hlen : P.length = su * sv * sw) (hP : NetOk d P) :
    (volumePointAt pu pv pw Uu Uv Uw su sv P ku kv kw u v w).getD j 0
      = ∑ a ∈ range (pu+1), (basisFuns pu Uu ku u).getD a 0 *
          ∑ b ∈ range (pv+1), (basisFuns pv Uv kv v).getD b 0 *
            (curvePointAt pw Uw (lineW su sv sw P (ku - pu + a) (kv - pv + b)) kw w).getD j 0 := by
  rw [volumePointAt_sum pu pv pw Uu Uv Uw su sv sw P ku kv kw u v w d j hpu hpv hpw hku hkv hkw hlen hP]
  apply Finset.sum_congr rfl
  intro a ha
  rw [Finset.mem_range] at ha
  congr 1
  apply Finset.sum_congr rfl
  intro b hb
  rw [Finset.mem_range] at hb
  congr 1
  rw [curvePointAt_sum pw Uw _ kw w d j hpw (by rw [lineW_length]; exact hkw)
        (lineW_netOk su sv sw d P hP hlen _ _ (by omega) (by omega))]
  apply Finset.sum_congr rfl
  intro c hc
  rw [Finset.mem_range] at hc
  rw [lineW_get su sv sw P _ _ _ (by omega)]

end Decomp

end Geomdl
