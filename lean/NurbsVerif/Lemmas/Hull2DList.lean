import NurbsVerif.Lemmas.Hull2DScan

/-!
C20, convex hull: list plumbing (consecutive pairs of a vertex list, gluing of left-turning chains,
the sort of the model is sorted).
-/
namespace Geomdl
variable {K : Type} [Field K] [LinearOrder K] [IsStrictOrderedRing K]

/-- consecutive pairs `(l[i], l[i+1])` of a vertex list: the edges of an open polygonal chain; the
    edges of the closed polygon with vertex list `H` are `pairs (H ++ H.take 1)` -/
def pairs {α : Type} : List α → List (α × α)
  | a :: b :: rest => (a, b) :: pairs (b :: rest)
  | _ => []

theorem mem_pairs_append_cons {α : Type} (x : α) (l2 : List α) : ∀ (l1 : List α) (e : α × α),
    e ∈ pairs (l1 ++ x :: l2) ↔ e ∈ pairs (l1 ++ [x]) ∨ e ∈ pairs (x :: l2)
  | [], e => by simp [pairs]
  | [a], e => by
    cases l2 <;> simp [pairs]
  | a :: b :: l1, e => by
    have ih := mem_pairs_append_cons x l2 (b :: l1) e
    simp only [List.cons_append, pairs, List.mem_cons] at ih ⊢
    rw [ih, or_assoc]

theorem mem_pairs_mid {α : Type} (a b : α) (B : List α) : ∀ (A : List α), (a, b) ∈ pairs (A ++ a :: b :: B)
  | [] => by simp [pairs]
  | [x] => by simp [pairs]
  | x :: y :: A => by
    have ih := mem_pairs_mid a b B (y :: A)
    simp only [List.cons_append, pairs, List.mem_cons] at ih ⊢
    exact Or.inr ih

theorem mem_pairs_mem {α : Type} : ∀ (l : List α) (e : α × α), e ∈ pairs l → e.1 ∈ l ∧ e.2 ∈ l
  | [], e, h => by simp [pairs] at h
  | [_], e, h => by simp [pairs] at h
  | a :: b :: rest, e, h => by
    simp only [pairs, List.mem_cons] at h
    rcases h with rfl | h
    · simp
    · have := mem_pairs_mem (b :: rest) e h
      exact ⟨List.mem_cons_of_mem _ this.1, List.mem_cons_of_mem _ this.2⟩

/-- the edges of a stack are the consecutive pairs of the stack read bottom first -/
theorem mem_pairs_reverse {α : Type} : ∀ (st : List α) (e : α × α), e ∈ pairs st.reverse ↔ e ∈ stackEdges st
  | [], e => by simp [pairs, stackEdges]
  | [_], e => by simp [pairs, stackEdges]
  | b :: a :: rest, e => by
    have ih := mem_pairs_reverse (a :: rest) e
    have h : (b :: a :: rest).reverse = rest.reverse ++ a :: [b] := by simp
    rw [h, mem_pairs_append_cons, stackEdges, List.mem_cons]
    have h' : rest.reverse ++ [a] = (a :: rest).reverse := by simp
    rw [h', ih]
    simp only [pairs, List.mem_singleton]
    tauto

theorem exists_snoc2 {α : Type} (l : List α) (h : 2 ≤ l.length) : ∃ A x y, l = A ++ [x, y] := by
  match hr : l.reverse with
  | [] => simp at hr; subst hr; simp at h
  | [_] =>
    have := congrArg List.length hr
    simp at this; omega
  | y :: x :: r =>
    refine ⟨r.reverse, x, y, ?_⟩
    have := congrArg List.reverse hr
    simpa using this

/-! ### left-turning chains in Python order -/

theorem LeftChain_reverse (st : List (K × K)) (h : LeftChain st) : LeftChainFwd st.reverse := by
  have := LeftChainFwd_append_of [] st h trivial (by simp) (by simp)
  simpa using this

theorem LeftChainFwd_glue (x y : K × K) (B : List (K × K)) : ∀ (A : List (K × K)),
    LeftChainFwd (A ++ [x, y]) → LeftChainFwd (x :: y :: B) → LeftChainFwd (A ++ x :: y :: B)
  | [], _, h2 => h2
  | [a], h1, h2 => by
    simp only [List.cons_append, List.nil_append, LeftChainFwd] at h1 ⊢
    exact ⟨h1.1, h2⟩
  | a :: b :: A, h1, h2 => by
    have ih := LeftChainFwd_glue x y B (b :: A)
    cases A with
    | nil =>
      simp only [List.cons_append, List.nil_append, LeftChainFwd] at h1 ih ⊢
      exact ⟨h1.1, ih ⟨h1.2.1, trivial⟩ h2⟩
    | cons c A =>
      simp only [List.cons_append, LeftChainFwd] at h1 ih ⊢
      exact ⟨h1.1, ih h1.2 h2⟩

theorem LeftChainFwd_snoc (x y z : K × K) (A : List (K × K)) (h1 : LeftChainFwd (A ++ [x, y]))
    (h2 : turn x y z = 1) : LeftChainFwd (A ++ [x, y, z]) :=
  LeftChainFwd_glue x y [z] A h1 ⟨h2, trivial⟩

theorem LeftChainFwd_mid (a b c : K × K) (B : List (K × K)) : ∀ (A : List (K × K)),
    LeftChainFwd (A ++ a :: b :: c :: B) → turn a b c = 1
  | [], h => h.1
  | [x], h => by
    simp only [List.cons_append, List.nil_append, LeftChainFwd] at h
    exact h.2.1
  | [x, y], h => by
    simp only [List.cons_append, List.nil_append, LeftChainFwd] at h
    exact h.2.2.1
  | x :: y :: z :: A, h => by
    apply LeftChainFwd_mid a b c B (y :: z :: A)
    simp only [List.cons_append, LeftChainFwd] at h ⊢
    exact h.2

/-! ### `sorted(points)` is sorted -/

theorem insertLex_mem (x z : K × K) (l : List (K × K)) : z ∈ insertLex x l ↔ z = x ∨ z ∈ l := by
  rw [(insertLex_perm x l).mem_iff, List.mem_cons]

theorem insertLex_sorted (x : K × K) : ∀ (l : List (K × K)), l.Pairwise (cle lexPos) →
    (insertLex x l).Pairwise (cle lexPos)
  | [], _ => by simp [insertLex]
  | y :: ys, h => by
    have h' := List.pairwise_cons.mp h
    rw [insertLex]
    split_ifs with hxy
    · refine List.pairwise_cons.mpr ⟨?_, h⟩
      have hxy' : cle lexPos x y := (lexLe_iff x y).mp hxy
      intro z hz
      rcases List.mem_cons.mp hz with rfl | hz
      · exact hxy'
      · exact cle_trans lexPos_isCone hxy' (h'.1 z hz)
    · refine List.pairwise_cons.mpr ⟨?_, insertLex_sorted x ys h'.2⟩
      intro z hz
      rcases (insertLex_mem x z ys).mp hz with rfl | hz
      · rcases cle_or_clt lexPos_isCone z y with h1 | h1
        · exact absurd ((lexLe_iff z y).mpr h1) hxy
        · exact Or.inr h1
      · exact h'.1 z hz

theorem sortLex_sorted : ∀ (l : List (K × K)), (sortLex l).Pairwise (cle lexPos)
  | [] => by simp [sortLex]
  | x :: l => by
    have ih := sortLex_sorted l
    unfold sortLex at ih ⊢
    rw [List.foldr_cons]
    exact insertLex_sorted x _ ih

/-- the order of the negated cone is the reversed order -/
theorem clt_neg_iff (pos : K → K → Prop) (a b : K × K) :
    clt (fun x y => pos (-x) (-y)) a b ↔ clt pos b a := by
  unfold clt; simp only [neg_sub]

theorem cle_neg_iff (pos : K → K → Prop) (a b : K × K) :
    cle (fun x y => pos (-x) (-y)) a b ↔ cle pos b a := by
  unfold cle; rw [clt_neg_iff]
  constructor <;> (rintro (h | h); exact Or.inl h.symm; exact Or.inr h)

theorem sortLex_reverse_sorted (l : List (K × K)) :
    (sortLex l).reverse.Pairwise (cle (fun x y => lexPos (-x) (-y))) := by
  rw [List.pairwise_reverse]
  exact (sortLex_sorted l).imp (fun h => (cle_neg_iff lexPos _ _).mpr h)

end Geomdl
