import NurbsVerif.Lemmas.DecompUnclampedAll
import NurbsVerif.Lemmas.SplitSurfSep

/-! `operations.decompose_curve`, unclamped knot vectors allowed: the result of the induction in the form
    the property theorems state it. -/
set_option linter.unusedSectionVars false
namespace Geomdl
open Blossom
variable {K : Type} [Field K] [LinearOrder K] [IsStrictOrderedRing K]

/-- **`decompose_curve` end to end, knot vector clamped or not.**  Not rejected; one single-span segment
    per non-empty interval, in order, each coinciding with the input on its interval under the affine map
    of its own domain; a piece is a Bézier piece (clamped at both ends; knot vector `0^{p+1} 1^{p+1}` once a
    split happened) whenever it is not the first piece or the input is clamped at its start, AND it is not
    the last piece or the input is clamped at its end; shape of the first and last piece; every piece's knot
    range is `[0,1]` once a split happened (or the input's is). -/
theorem decompose_curve_unclamped_final (rat : Bool) (p d : ℕ) (tol : K) (fuel : ℕ) (U : List K) (P : List (List K))
    (h : DecompWFU p d U P tol) (hfuel : (spanStarts p (fnOf U) P.length).length ≤ fuel + 1) :
    ∃ pieces : List (List K × List (List K)),
      decomposeDirE 0 tol fuel (curveShape rat p U P) = some (pieces.map (fun q => curveShape rat p q.1 q.2)) ∧
      decomposeDir 0 tol fuel (curveShape rat p U P) = pieces.map (fun q => curveShape rat p q.1 q.2) ∧
      pieces.length = (spanStarts p (fnOf U) P.length).length ∧
      (∀ i, i < pieces.length →
        SegPiece p d (curveFn p U P) ((breaks p (fnOf U) P.length).getD i 0)
          ((breaks p (fnOf U) P.length).getD (i + 1) 0) (pieces.getD i ([], []))) ∧
      (∀ i, i < pieces.length → (1 ≤ i ∨ fnOf U 0 = fnOf U p) →
        (i + 1 < pieces.length ∨ fnOf U (P.length + p) = fnOf U P.length) →
        BezPiece p d (curveFn p U P) ((breaks p (fnOf U) P.length).getD i 0)
          ((breaks p (fnOf U) P.length).getD (i + 1) 0) (pieces.getD i ([], [])) ∧
        ((p + 1 < P.length ∨ (fnOf U 0 = 0 ∧ fnOf U (P.length + p) = 1)) → (pieces.getD i ([], [])).1 = bezKv p)) ∧
      (p + 1 < P.length →
        fnOf (pieces.getD 0 ([], [])).1 0 = 0 ∧
        fnOf (pieces.getD 0 ([], [])).1 p = (fnOf U p - fnOf U 0) / (fnOf U (p + 1) - fnOf U 0) ∧
        fnOf (pieces.getD 0 ([], [])).1 (p + 1) = 1 ∧ fnOf (pieces.getD 0 ([], [])).1 (p + 1 + p) = 1 ∧
        fnOf (pieces.getD (pieces.length - 1) ([], [])).1 0 = 0 ∧
        fnOf (pieces.getD (pieces.length - 1) ([], [])).1 p = 0 ∧
        fnOf (pieces.getD (pieces.length - 1) ([], [])).1 (p + 1)
          = (fnOf U P.length - (breaks p (fnOf U) P.length).getD (pieces.length - 1) 0)
            / (fnOf U (P.length + p) - (breaks p (fnOf U) P.length).getD (pieces.length - 1) 0) ∧
        fnOf (pieces.getD (pieces.length - 1) ([], [])).1 (p + 1 + p) = 1) ∧
      ((p + 1 < P.length ∨ (fnOf U 0 = 0 ∧ fnOf U (P.length + p) = 1)) → ∀ i, i < pieces.length →
        fnOf (pieces.getD i ([], [])).1 0 = 0 ∧ fnOf (pieces.getD i ([], [])).1 (p + 1 + p) = 1) := by
  obtain ⟨pieces, hdec, hlen, hseg, hc0, hc1, hnorm, hfirst, hlast⟩ := decompose_curve_allU rat p d tol fuel U P h hfuel
  refine ⟨pieces, hdec, decomposeDirE_some 0 tol fuel _ _ hdec, hlen, hseg, ?_, ?_, ?_⟩
  rotate_left 2
  · intro hc i hi
    obtain ⟨n0, n1⟩ := hnorm hc i hi
    rw [(hseg i hi).2.1] at n1
    exact ⟨n0, n1⟩
  · intro i hi hs he
    have c0 := hc0 i hi hs
    have c1 := hc1 i hi he
    have hb := (hseg i hi).toBez h.hp c0 c1
    refine ⟨hb, ?_⟩
    intro hn
    obtain ⟨n0, n1⟩ := hnorm hn i hi
    exact bezier_kv hb.1 hb.2.1 (by rw [← c0]; exact n0) (by rw [← c1]; exact n1)
  · intro hn
    have hstarts := (step_startsU p d U P tol h hn).1
    have hwfB := remainder_wfU p d U P tol h hn
    have hposB := spanStarts_pos p _ _ hwfB.wf.pn hwfB.wf.last
    have hlen2 : 2 ≤ pieces.length := by
      rw [hlen, hstarts]
      simp only [List.length_cons, List.length_map]
      omega
    have hl : pieces.length - 1 < pieces.length := by omega
    obtain ⟨f0, f1⟩ := hnorm (Or.inl hn) 0 (by omega)
    obtain ⟨l0, l1⟩ := hnorm (Or.inl hn) (pieces.length - 1) hl
    have fc := hc1 0 (by omega) (Or.inl (by omega))
    have lc := hc0 (pieces.length - 1) hl (Or.inl (by omega))
    have hf2 := (hseg 0 (by omega)).2.1
    have hl2 := (hseg (pieces.length - 1) hl).2.1
    rw [hf2] at f1 fc
    rw [hl2] at l1
    refine ⟨f0, hfirst hn, ?_, f1, l0, ?_, hlast hn, l1⟩
    · rw [← fc]; exact f1
    · rw [← lc]; exact l0

/-- the number of pieces, fuel as the driver passes it (the length of the knot vector) -/
theorem decompose_curve_unclamped_count (rat : Bool) (p d : ℕ) (tol : K) (fuel : ℕ) (U : List K) (P : List (List K))
    (h : DecompWFU p d U P tol) (hfuel : U.length ≤ fuel) :
    (decomposeDirE 0 tol fuel (curveShape rat p U P)).map List.length
        = some (spanStarts p (fnOf U) P.length).length ∧
    (decomposeDir 0 tol fuel (curveShape rat p U P)).length = (spanStarts p (fnOf U) P.length).length := by
  have hl := h.wf.len
  have := spanStarts_length_le p (fnOf U) P.length
  obtain ⟨pieces, h1, h2, h3, _⟩ := decompose_curve_unclamped_final rat p d tol fuel U P h (by omega)
  constructor
  · rw [h1, Option.map_some, List.length_map, h3]
  · rw [h2, List.length_map, h3]

/-- clamped inputs admissible for the old decomposition theorems are not rejected by the model with
    exceptions: it returns what `decomposeDir` returns -/
theorem decompose_curve_not_rejected (rat : Bool) (p d : ℕ) (tol : K) (fuel : ℕ) (U : List K) (P : List (List K))
    (h : DecompWF p d U P tol) (hfuel : (spanStarts p (fnOf U) P.length).length ≤ fuel + 1) :
    decomposeDirE 0 tol fuel (curveShape rat p U P) = some (decomposeDir 0 tol fuel (curveShape rat p U P)) := by
  obtain ⟨pieces, h1, h2, _⟩ := decompose_curve_unclamped_final rat p d tol fuel U P h.toU hfuel
  rw [h1, h2]

end Geomdl
