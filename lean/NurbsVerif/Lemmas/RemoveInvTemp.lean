import NurbsVerif.Lemmas.RemoveInvVec

/-! C06 helper lemmas, part 2: the rows `T m x` of the `temp` triangle of A5.1 (`insTempAt`) as
    vectors, and the positional description of the output of `knotInsertion` with `m` copies
    (`Q m i`) in terms of that triangle. -/
namespace Geomdl
namespace RemInv
variable {K : Type} [Field K] [LinearOrder K] [IsStrictOrderedRing K]

/-- entry `x` of the `temp` array of A5.1 after insertion level `m` -/
def T (U : ℕ → K) (u : K) (P : List (List K)) (k p s m x : ℕ) : List K :=
  ptsGet (insTempAt U u P k p s m) x

/-- control point `i` after inserting `m` copies -/
def Q (U : ℕ → K) (u : K) (P : List (List K)) (k p s m i : ℕ) : List K :=
  ptsGet (knotInsertion p U P u m s k) i

variable (U : ℕ → K) (u : K) (P : List (List K)) (k p s d : ℕ)

theorem T_len (hP : NetOk d P) (hpk : p ≤ k) (hk : k < P.length) (m x : ℕ) (hm : m + s ≤ p) (hx : x ≤ p - s) :
    (T U u P k p s m x).length = d := by
  obtain ⟨h1, h2, _⟩ := insTempAt_ok U u P k p s d 0 hP hpk hk m hm
  exact ptsGet_length h1 x (by omega)

theorem T_zero (x : ℕ) (hx : x ≤ p - s) : T U u P k p s 0 x = ptsGet P (k - p + x) := by
  unfold T
  simp only [insTempAt, insTempInit]
  rw [ptsGet_map_range _ _ _ (by omega)]

theorem T_succ (m x : ℕ) (hx : x + (m + 1) + s ≤ p) :
    T U u P k p s (m + 1) x
      = List.zipWith (fun e1 e2 => Geomdl.insAlpha U u k x (k - p + (m + 1)) * e2
            + (1 - Geomdl.insAlpha U u k x (k - p + (m + 1))) * e1)
          (T U u P k p s m x) (T U u P k p s m (x + 1)) := by
  unfold T
  simp only [insTempAt, insTempStep]
  unfold ptsGet
  rw [List.getD_append _ _ _ _ (by simp; omega)]
  rw [List.getD_eq_getElem?_getD, List.getElem?_map, List.getElem?_range (by omega)]
  rfl

theorem Q_zero (hpk : p ≤ k) (i : ℕ) (hi : i < P.length) : Q U u P k p s 0 i = ptsGet P i := by
  unfold Q knotInsertion
  rw [ptsGet_map_range _ _ _ (by omega)]
  by_cases c1 : i + p ≤ k
  · rw [if_pos c1]
  · rw [if_neg c1, if_neg (by omega)]
    by_cases c3 : i + s < k
    · rw [if_pos c3]
      have := T_zero U u P k p s (i + p - k - 0) (by omega)
      unfold T at this
      rw [this]; congr 1; omega
    · rw [if_neg c3, if_neg (by omega)]; rfl

/-- the left part of the output does not depend on the number of copies -/
theorem Q_left (m i : ℕ) (h : i + p ≤ k + m) (hi : i < P.length + m) :
    Q U u P k p s (m + 1) i = Q U u P k p s m i := by
  unfold Q knotInsertion
  rw [ptsGet_map_range _ _ _ (by omega), ptsGet_map_range _ _ _ (by omega)]
  by_cases c1 : i + p ≤ k
  · rw [if_pos c1, if_pos c1]
  · rw [if_neg c1, if_neg c1, if_pos (by omega), if_pos h]

/-- the right part of the output is shifted by one per copy -/
theorem Q_right (m x : ℕ) (hms : m + 1 + s ≤ p) (hx : k ≤ x + s) (hxl : x < P.length + m) :
    Q U u P k p s (m + 1) (x + 1) = Q U u P k p s m x := by
  unfold Q knotInsertion
  rw [ptsGet_map_range _ _ _ (by omega), ptsGet_map_range _ _ _ (by omega)]
  have a1 : ¬ (x + 1 + p ≤ k) := by omega
  have a2 : ¬ (x + 1 + p ≤ k + (m + 1)) := by omega
  have a3 : ¬ (x + 1 + s < k) := by omega
  have b1 : ¬ (x + p ≤ k) := by omega
  have b2 : ¬ (x + p ≤ k + m) := by omega
  have b3 : ¬ (x + s < k) := by omega
  rw [if_neg a1, if_neg a2, if_neg a3, if_neg b1, if_neg b2, if_neg b3]
  by_cases c4 : x + s < k + m
  · rw [if_pos (by omega), if_pos c4]
    have e1 : k + (m + 1) - s - (x + 1) = k + m - s - x := by omega
    rw [e1]
  · rw [if_neg (by omega), if_neg c4]
    congr 1; omega

/-- the middle part of the output is the last computed row of the triangle -/
theorem Q_mid (hpk : p ≤ k) (hk : k < P.length) (m x : ℕ) (hx : x + m + s ≤ p) :
    Q U u P k p s m (k - p + m + x) = T U u P k p s m x := by
  unfold Q knotInsertion
  rw [ptsGet_map_range _ _ _ (by omega)]
  by_cases c1 : k - p + m + x + p ≤ k
  · rw [if_pos c1]
    have hm : m = 0 := by omega
    have hx0 : x = 0 := by omega
    subst hm; subst hx0
    rw [T_zero U u P k p s 0 (by omega)]
  · rw [if_neg c1]
    by_cases c2 : k - p + m + x + p ≤ k + m
    · rw [if_pos c2]
      have hx0 : x = 0 := by omega
      subst hx0
      unfold T
      congr 2; omega
    · rw [if_neg c2]
      by_cases c3 : k - p + m + x + s < k
      · rw [if_pos c3]
        unfold T
        congr 1; omega
      · rw [if_neg c3]
        by_cases c4 : k - p + m + x + s < k + m
        · rw [if_pos c4]
          unfold T
          have e1 : k + m - s - (k - p + m + x) = m := by omega
          rw [e1]
          congr 1; omega
        · rw [if_neg c4]
          have hm : m = 0 := by omega
          subst hm
          rw [T_zero U u P k p s x (by omega)]
          congr 1

end RemInv
end Geomdl
