import NurbsVerif.Lemmas.A51LoopsPts
import NurbsVerif.Lemmas.A51LoopsRows
import NurbsVerif.Lemmas.InsertAll

/-! Consequences of `A51L.knotInsertionA51_eq`: the theorems proved about the index-by-index model
    `knotInsertion` hold for the literal transcription of the loops of `helpers.knot_insertion`. -/
namespace Geomdl
open Blossom
variable {K : Type} [Field K]

theorem knotInsertionA51_eq_model (p : ℕ) (U : ℕ → K) (P : List (List K)) (u : K) (r s k : ℕ)
    (hpk : p ≤ k) (hrs : r + s ≤ p) : knotInsertionA51 p U P u r s k = knotInsertion p U P u r s k :=
  A51L.knotInsertionA51_eq p U P u r s k hpk hrs

/-- the guard does not mention the control points: the two models are the same function of the polygon -/
theorem knotInsertionA51_fun_eq (p : ℕ) (U : ℕ → K) (u : K) (r s k : ℕ) (hpk : p ≤ k) (hrs : r + s ≤ p) :
    (fun c : List (List K) => knotInsertionA51 p U c u r s k) = (fun c => knotInsertion p U c u r s k) :=
  funext (fun c => knotInsertionA51_eq_model p U c u r s k hpk hrs)

/-- the list-of-rows branch as coded = its index-by-index model -/
theorem knotInsertionRowsA51_eq_model (p : ℕ) (U : ℕ → K) (R : List (List (List K))) (u : K) (r s k : ℕ)
    (hpk : p ≤ k) (hrs : r + s ≤ p) : knotInsertionRowsA51 p U R u r s k = knotInsertionRows p U R u r s k :=
  A51L.knotInsertionRowsA51_eq p U R u r s k hpk hrs

theorem knotInsertionRowsA51_fun_eq (p : ℕ) (U : ℕ → K) (u : K) (r s k : ℕ) (hpk : p ≤ k) (hrs : r + s ≤ p) :
    (fun R : List (List (List K)) => knotInsertionRowsA51 p U R u r s k) = (fun R => knotInsertionRows p U R u r s k) :=
  funext (fun R => knotInsertionRowsA51_eq_model p U R u r s k hpk hrs)

variable [LinearOrder K] [IsStrictOrderedRing K]

theorem knotInsertionA51_preserves_point (p : ℕ) (Ul : List K) (P : List (List K)) (ub u : K)
    (r s k κ κ' d j : ℕ) (hP : NetOk d P)
    (hm : Monotone (fnOf Ul)) (hlen : k + 1 < Ul.length)
    (hk1 : fnOf Ul k ≤ ub) (hk2 : ub < fnOf Ul (k+1))
    (hmult : ∀ x, k - s < x → x ≤ k → fnOf Ul x = ub)
    (hκ : fnOf Ul κ < fnOf Ul (κ+1))
    (hκ' : fnOf (knotInsertionKv Ul ub k r) κ' < fnOf (knotInsertionKv Ul ub k r) (κ'+1))
    (hr1 : 1 ≤ r) (hrs : r + s ≤ p) (hpk : p ≤ k) (hkP : k < P.length) (hpκ : p ≤ κ) (hκP : κ < P.length)
    (hcase : (κ' = κ ∧ κ ≤ k) ∨ (κ' = κ + r ∧ k ≤ κ)) :
    (curvePointAt p (fnOf (knotInsertionKv Ul ub k r)) (knotInsertionA51 p (fnOf Ul) P ub r s k) κ' u).getD j 0
      = (curvePointAt p (fnOf Ul) P κ u).getD j 0 := by
  rw [knotInsertionA51_eq_model p (fnOf Ul) P ub r s k hpk hrs]
  exact knotInsertion_preserves_point p Ul P ub u r s k κ κ' d j hP hm hlen hk1 hk2 hmult hκ hκ' hr1 hrs hpk hkP hpκ hκP hcase

theorem knotInsertionA51_preserves_curve (p : ℕ) (Ul : List K) (P : List (List K)) (ub u : K)
    (r s d j : ℕ) (hP : NetOk d P)
    (hm : Monotone (fnOf Ul)) (hlen : Ul.length = P.length + p + 1) (hpn : p + 1 ≤ P.length)
    (hub1 : fnOf Ul p ≤ ub) (hub2 : ub < fnOf Ul P.length)
    (hmult : ∀ x, findSpanLinear p (fnOf Ul) P.length ub - s < x → x ≤ findSpanLinear p (fnOf Ul) P.length ub → fnOf Ul x = ub)
    (hr1 : 1 ≤ r) (hrs : r + s ≤ p)
    (hlo : fnOf Ul p ≤ u) (hhi : u ≤ fnOf Ul P.length) (hlast : fnOf Ul (P.length - 1) < fnOf Ul P.length) :
    (curvePoint p (fnOf (knotInsertionKv Ul ub (findSpanLinear p (fnOf Ul) P.length ub) r))
        (knotInsertionA51 p (fnOf Ul) P ub r s (findSpanLinear p (fnOf Ul) P.length ub)) u).getD j 0
      = (curvePoint p (fnOf Ul) P u).getD j 0 := by
  rw [knotInsertionA51_eq_model p (fnOf Ul) P ub r s _ (findSpanLinear_spec p (fnOf Ul) P.length ub hpn hm hub1).1 hrs]
  exact knotInsertion_preserves_curve p Ul P ub u r s d j hP hm hlen hpn hub1 hub2 hmult hr1 hrs hlo hhi hlast

end Geomdl
