import NurbsVerif.Lemmas.Length
import NurbsVerif.Lemmas.RemoveInvLib

/-!
  C18, length bounds, part 2: **knot insertion is corner cutting** – it never lengthens the control
  polygon.

  `corner_cut_sum` is the abstract statement: if every new vertex is a convex combination
  `Q_i = α_i P_i + (1-α_i) P_{i-1}` (`0 ≤ α_i ≤ 1`) of two consecutive old vertices, the new polygon is
  not longer than the old one.  `insert_level_le` instantiates it with the passage from `m` to `m+1`
  copies in the model of `helpers.knot_insertion` (`Q_left`, `Q_mid` + `T_succ`, `Q_right` of the C06
  development give exactly this structure, with `α = knot_insertion_alpha ∈ [0, 1)` on the affected
  indices); `knotInsertion_polygon_le` is the statement for `r` copies, `insert_sequence_polygon_le`
  for every admissible sequence of insertions.
-/
namespace Geomdl
open Finset Blossom
variable {K : Type} [Field K] [LinearOrder K] [IsStrictOrderedRing K]

section abstract
variable {d : ℕ} {N : List K → K}

/-- the edge `Q_{i+1} - Q_i` of the cut polygon in terms of two consecutive old edges -/
theorem corner_cut_edge (hN : IsSeminorm d N) (P0 P1 P2 Q1 Q2 : List K) (a1 a2 : K)
    (h0 : P0.length = d) (h1 : P1.length = d) (h2 : P2.length = d) (hq1 : Q1.length = d) (hq2 : Q2.length = d)
    (ha1 : a1 ≤ 1) (ha2 : 0 ≤ a2)
    (e1 : ∀ j, Q1.getD j 0 = a1 * P1.getD j 0 + (1 - a1) * P0.getD j 0)
    (e2 : ∀ j, Q2.getD j 0 = a2 * P2.getD j 0 + (1 - a2) * P1.getD j 0) :
    N (vsub Q2 Q1) ≤ a2 * N (vsub P2 P1) + (1 - a1) * N (vsub P1 P0) := by
  have e : vsub Q2 Q1 = vadd (vsmul a2 (vsub P2 P1)) (vsmul (1 - a1) (vsub P1 P0)) := by
    apply vec_ext_getD
    · simp [vsub_length, vadd_length, vsmul_length, h0, h1, h2, hq1, hq2]
    · intro j _
      rw [vsub_getD _ _ _ (by omega), vadd_getD _ _ _ (by simp [vsub_length, vsmul_length, h0, h1, h2]),
        vsmul_getD, vsmul_getD, vsub_getD _ _ _ (by omega), vsub_getD _ _ _ (by omega), e1, e2]
      ring
  rw [e]
  have l1 : (vsub P2 P1).length = d := by simp [vsub_length, h1, h2]
  have l0 : (vsub P1 P0).length = d := by simp [vsub_length, h0, h1]
  have := hN.add_le (vsmul a2 (vsub P2 P1)) (vsmul (1 - a1) (vsub P1 P0))
    (by rw [vsmul_length, l1]) (by rw [vsmul_length, l0])
  rw [hN.smul a2 _ ha2 l1, hN.smul (1 - a1) _ (by linarith) l0] at this
  exact this

/-- **Corner cutting does not lengthen a polygon** (vertex sequences as functions of the index; the
    term `P (0 - 1) = P 0` of the first edge has length zero). -/
theorem corner_cut_sum (hN : IsSeminorm d N) (Pf Qf : ℕ → List K) (α : ℕ → K)
    (hP : ∀ i, (Pf i).length = d) (hQ : ∀ i, (Qf i).length = d)
    (h0 : ∀ i, 0 ≤ α i) (h1 : ∀ i, α i ≤ 1)
    (hcomb : ∀ i j, (Qf i).getD j 0 = α i * (Pf i).getD j 0 + (1 - α i) * (Pf (i - 1)).getD j 0) (m : ℕ) :
    ∑ i ∈ range m, N (vsub (Qf (i + 1)) (Qf i)) ≤ ∑ i ∈ range m, N (vsub (Pf (i + 1)) (Pf i)) := by
  have key : ∀ m, ∑ i ∈ range m, N (vsub (Qf (i + 1)) (Qf i)) + (1 - α m) * N (vsub (Pf m) (Pf (m - 1)))
      ≤ ∑ i ∈ range m, N (vsub (Pf (i + 1)) (Pf i)) := by
    intro m
    induction m with
    | zero =>
      simp only [Finset.range_zero, Finset.sum_empty, zero_add, Nat.zero_sub]
      rw [hN.vsub_self _ (hP 0), mul_zero]
    | succ m ih =>
      rw [Finset.sum_range_succ, Finset.sum_range_succ]
      have hedge := corner_cut_edge hN (Pf (m - 1)) (Pf m) (Pf (m + 1)) (Qf m) (Qf (m + 1)) (α m) (α (m + 1))
        (hP _) (hP _) (hP _) (hQ _) (hQ _) (h1 m) (h0 (m + 1)) (hcomb m) (by
          intro j; have := hcomb (m + 1) j; rw [Nat.add_sub_cancel] at this; exact this)
      rw [Nat.add_sub_cancel]
      have : α (m + 1) * N (vsub (Pf (m + 1)) (Pf m)) + (1 - α (m + 1)) * N (vsub (Pf (m + 1)) (Pf m))
          = N (vsub (Pf (m + 1)) (Pf m)) := by ring
      linarith
  have hnn : 0 ≤ (1 - α m) * N (vsub (Pf m) (Pf (m - 1))) :=
    mul_nonneg (by linarith [h1 m]) (hN.nonneg _ (by simp [vsub_length, hP]))
  linarith [key m]

end abstract

/-! ### the passage from `m` to `m + 1` copies in the model of A5.1 -/

/-- `knot_insertion_alpha` lies in `[0, 1]` on the affected indices: `U (L+x) ≤ u < U (x+k+1)` -/
theorem insAlpha_mem (U : ℕ → K) (u : K) (k x L : ℕ) (hm : Monotone U) (h1 : U k ≤ u) (h2 : u < U (k + 1))
    (hL : L + x ≤ k) : 0 ≤ Geomdl.insAlpha U u k x L ∧ Geomdl.insAlpha U u k x L ≤ 1 := by
  unfold Geomdl.insAlpha
  have a1 : U (L + x) ≤ u := le_trans (hm hL) h1
  have a2 : u < U (x + k + 1) := lt_of_lt_of_le h2 (hm (by omega))
  have hden : 0 < U (x + k + 1) - U (L + x) := by linarith
  refine ⟨div_nonneg (by linarith) (le_of_lt hden), ?_⟩
  rw [div_le_one hden]
  linarith

section level
open RemInv
variable (U : ℕ → K) (u : K) (P : List (List K)) (k p s d : ℕ)

/-- the coefficient of the old vertex `i` in the new vertex `i` when passing from `m` to `m+1` copies -/
noncomputable def cutAlpha (m i : ℕ) : K :=
  if i + p ≤ k + m then 1 else if i + s ≤ k then Geomdl.insAlpha U u k (i - (k - p + m + 1)) (k - p + (m + 1)) else 0

theorem cutAlpha_mem (m i : ℕ) (hm : Monotone U) (h1 : U k ≤ u) (h2 : u < U (k + 1)) (hpk : p ≤ k) :
    0 ≤ cutAlpha U u k p s m i ∧ cutAlpha U u k p s m i ≤ 1 := by
  unfold cutAlpha
  by_cases c1 : i + p ≤ k + m
  · rw [if_pos c1]; exact ⟨zero_le_one, le_refl _⟩
  · rw [if_neg c1]
    by_cases c2 : i + s ≤ k
    · rw [if_pos c2]
      exact insAlpha_mem U u k _ _ hm h1 h2 (by omega)
    · rw [if_neg c2]; exact ⟨le_refl _, zero_le_one⟩

variable (hP : NetOk d P) (hpk : p ≤ k) (hk : k < P.length)
include hP hpk hk

theorem Q_len (m i : ℕ) (hms : m + s ≤ p) (hi : i < P.length + m) : (Q U u P k p s m i).length = d := by
  unfold Q
  exact ptsGet_length (knotInsertion_netOk p U P u m s k d hP hpk hk hms (by omega)) i
    (by rw [knotInsertion_length]; exact hi)

/-- every vertex after `m+1` insertions is the combination `α Q^m_i + (1-α) Q^m_{i-1}` of two
    consecutive vertices after `m` insertions (vertex sequences continued constantly beyond the end) -/
theorem insert_level_comb (m : ℕ) (hms : m + 1 + s ≤ p) (i j : ℕ) :
    (Q U u P k p s (m + 1) (min i (P.length + m))).getD j 0
      = cutAlpha U u k p s m i * (Q U u P k p s m (min i (P.length + m - 1))).getD j 0
        + (1 - cutAlpha U u k p s m i) * (Q U u P k p s m (min (i - 1) (P.length + m - 1))).getD j 0 := by
  unfold cutAlpha
  by_cases c1 : i + p ≤ k + m
  · rw [if_pos c1, Nat.min_eq_left (by omega), Nat.min_eq_left (by omega), Q_left U u P k p s m i c1 (by omega)]
    ring
  · rw [if_neg c1]
    by_cases c2 : i + s ≤ k
    · rw [if_pos c2, Nat.min_eq_left (by omega), Nat.min_eq_left (by omega), Nat.min_eq_left (by omega)]
      obtain ⟨x, hx⟩ : ∃ x, i = k - p + m + 1 + x := ⟨i - (k - p + m + 1), by omega⟩
      have e0 : i - (k - p + m + 1) = x := by omega
      have e1 : i = k - p + (m + 1) + x := by omega
      have e2 : i = k - p + m + (x + 1) := by omega
      have e3 : i - 1 = k - p + m + x := by omega
      rw [e0]
      conv_lhs => rw [e1, Q_mid U u P k p s hpk hk (m + 1) x (by omega), T_succ U u P k p s m x (by omega)]
      rw [zipWith_getD_lin _ _ _ _ (by
        rw [T_len U u P k p s d hP hpk hk m x (by omega) (by omega),
          T_len U u P k p s d hP hpk hk m (x + 1) (by omega) (by omega)])]
      rw [← Q_mid U u P k p s hpk hk m (x + 1) (by omega), ← Q_mid U u P k p s hpk hk m x (by omega), ← e2, ← e3]
    · rw [if_neg c2]
      have hi1 : 1 ≤ i := by omega
      have e : min i (P.length + m) = min (i - 1) (P.length + m - 1) + 1 := by omega
      rw [e, Q_right U u P k p s m _ hms (by omega) (by omega)]
      ring

/-- **one more copy of the knot does not lengthen the control polygon** -/
theorem insert_level_le {N : List K → K} (hN : IsSeminorm d N) (hm : Monotone U) (h1 : U k ≤ u) (h2 : u < U (k + 1))
    (m : ℕ) (hms : m + 1 + s ≤ p) :
    polylineLength (distN N) (knotInsertion p U P u (m + 1) s k)
      ≤ polylineLength (distN N) (knotInsertion p U P u m s k) := by
  rw [polylineLength_eq_sum, polylineLength_eq_sum, knotInsertion_length, knotInsertion_length]
  have hn : 1 ≤ P.length := by omega
  have hcut := corner_cut_sum hN
    (fun i => Q U u P k p s m (min i (P.length + m - 1)))
    (fun i => Q U u P k p s (m + 1) (min i (P.length + m)))
    (cutAlpha U u k p s m)
    (fun i => Q_len U u P k p s d hP hpk hk m _ (by omega) (by omega))
    (fun i => Q_len U u P k p s d hP hpk hk (m + 1) _ (by omega) (by omega))
    (fun i => (cutAlpha_mem U u k p s m i hm h1 h2 hpk).1)
    (fun i => (cutAlpha_mem U u k p s m i hm h1 h2 hpk).2)
    (fun i j => insert_level_comb U u P k p s d hP hpk hk m hms i j)
    (P.length + m)
  have e1 : P.length + (m + 1) - 1 = P.length + m := by omega
  rw [e1]
  have lhs : ∑ i ∈ range (P.length + m), distN N (ptsGet (knotInsertion p U P u (m + 1) s k) i)
        (ptsGet (knotInsertion p U P u (m + 1) s k) (i + 1))
      = ∑ i ∈ range (P.length + m), N (vsub (Q U u P k p s (m + 1) (min (i + 1) (P.length + m)))
          (Q U u P k p s (m + 1) (min i (P.length + m)))) := by
    apply Finset.sum_congr rfl
    intro i hi
    rw [Finset.mem_range] at hi
    rw [Nat.min_eq_left (by omega), Nat.min_eq_left (by omega)]
    rfl
  have rhs : ∑ i ∈ range (P.length + m), N (vsub (Q U u P k p s m (min (i + 1) (P.length + m - 1)))
          (Q U u P k p s m (min i (P.length + m - 1))))
      = ∑ i ∈ range (P.length + m - 1), distN N (ptsGet (knotInsertion p U P u m s k) i)
        (ptsGet (knotInsertion p U P u m s k) (i + 1)) := by
    obtain ⟨t, ht⟩ : ∃ t, P.length + m = t + 1 := ⟨P.length + m - 1, by omega⟩
    rw [ht, Finset.sum_range_succ, Nat.add_sub_cancel]
    have z : N (vsub (Q U u P k p s m (min (t + 1) t)) (Q U u P k p s m (min t t))) = 0 := by
      rw [Nat.min_eq_right (by omega), Nat.min_self]
      exact hN.vsub_self _ (Q_len U u P k p s d hP hpk hk m t (by omega) (by omega))
    rw [z, add_zero]
    apply Finset.sum_congr rfl
    intro i hi
    rw [Finset.mem_range] at hi
    rw [Nat.min_eq_left (by omega), Nat.min_eq_left (by omega)]
    rfl
  rw [lhs, ← rhs]
  exact hcut

/-- **Knot insertion does not lengthen the control polygon**: `r` copies of `u` inserted into the span
    `k` (`U k ≤ u < U (k+1)`, `r + s ≤ p`) by the model of `helpers.knot_insertion` -/
theorem knotInsertion_polygon_le {N : List K → K} (hN : IsSeminorm d N) (hm : Monotone U) (h1 : U k ≤ u)
    (h2 : u < U (k + 1)) : ∀ r, r + s ≤ p →
    polylineLength (distN N) (knotInsertion p U P u r s k) ≤ polylineLength (distN N) P := by
  intro r
  induction r with
  | zero => intro _; rw [knotInsertion_zero p U P u s k hpk]
  | succ r ih =>
    intro hrs
    exact le_trans (insert_level_le U u P k p s d hP hpk hk hN hm h1 h2 r (by omega)) (ih (by omega))

end level

/-! ### object level: the span the library finds; sequences of insertions -/

/-- one admissible insertion request (span found by the library's search) does not lengthen the
    control polygon -/
theorem insStep_polygon_le {N : List K → K} {d : ℕ} (hN : IsSeminorm d N) (p : ℕ) (st : List K × List (List K))
    (req : K × ℕ × ℕ) (h : CurveWF p d st.1 st.2) (hr : ReqOk p st req) :
    polylineLength (distN N) (insStep p st req).2 ≤ polylineLength (distN N) st.2 := by
  obtain ⟨hub1, hub2, _, _, hrs⟩ := hr
  obtain ⟨k1, k2, k3, k4⟩ := findSpanLinear_spec p (fnOf st.1) st.2.length req.1 h.pn h.mono hub1
  have hk2 : req.1 < fnOf st.1 (findSpanLinear p (fnOf st.1) st.2.length req.1 + 1) := by
    rcases k4 with h' | h'
    · exact h'
    · rw [h']; exact hub2
  exact knotInsertion_polygon_le (fnOf st.1) req.1 st.2 _ p req.2.2 d h.net k1 k2 hN h.mono k3 hk2 req.2.1 hrs

/-- **no admissible sequence of knot insertions lengthens the control polygon** -/
theorem insert_sequence_polygon_le {N : List K → K} {d : ℕ} (hN : IsSeminorm d N) (p : ℕ) (reqs : List (K × ℕ × ℕ)) :
    ∀ (st : List K × List (List K)), CurveWF p d st.1 st.2 → ReqsOk p st reqs →
      polylineLength (distN N) (reqs.foldl (insStep p) st).2 ≤ polylineLength (distN N) st.2 := by
  induction reqs with
  | nil => intro st _ _; exact le_refl _
  | cons q qs ih =>
    intro st hwf hok
    obtain ⟨hq, hqs⟩ := hok
    simp only [List.foldl_cons]
    exact le_trans (ih _ (insStep_wf p d st q hwf hq).1 hqs) (insStep_polygon_le hN p st q hwf hq)

end Geomdl
