import NurbsVerif.Lemmas.SplitSpan
import NurbsVerif.Lemmas.InsertAll
import NurbsVerif.Lemmas.Hull

/-! The two pieces cut from a curve whose knot `ub` has multiplicity exactly `p` (last copy at index
    `m`): knot vectors, well-formedness, and coincidence with the uncut curve as FUNCTIONS of the
    parameter (span found by the library's search, closed right end included). -/
set_option linter.unusedSectionVars false
namespace Geomdl
open Blossom
variable {K : Type} [Field K] [LinearOrder K] [IsStrictOrderedRing K]

/-- knot vector of the left piece, before normalisation: `U'[0 : m+1] ++ [ub]` -/
def leftKv (Wl : List K) (ub : K) (m : ℕ) : List K := Wl.take (m + 1) ++ [ub]
/-- knot vector of the right piece, before normalisation: `[ub]*(p+1) ++ U'[m+1:]` -/
def rightKv (p : ℕ) (Wl : List K) (ub : K) (m : ℕ) : List K := List.replicate (p + 1) ub ++ Wl.drop (m + 1)

/-- the situation after the insertion step of `split_curve`: a well-formed clamped curve in which the
    split parameter has multiplicity exactly `p`, its last copy at index `m` -/
structure CutOk (p d : ℕ) (Wl : List K) (Q : List (List K)) (ub : K) (m : ℕ) : Prop where
  wf : CurveWF p d Wl Q
  hp : 1 ≤ p
  hm : m < Q.length
  hpm : 2 * p ≤ m
  mult : ∀ x, m - p < x → x ≤ m → fnOf Wl x = ub
  below : fnOf Wl (m - p) < ub
  above : ub < fnOf Wl (m + 1)
  c0 : fnOf Wl 0 = fnOf Wl p
  c1 : fnOf Wl (Q.length + p) = fnOf Wl Q.length

theorem fnOf_leftKv_le (Wl : List K) (ub : K) (m i : ℕ) (hm : m < Wl.length) (hi : i ≤ m) :
    fnOf (leftKv Wl ub m) i = fnOf Wl i := fnOf_left_kv Wl ub m i hm hi

theorem fnOf_rightKv_gt (p : ℕ) (Wl : List K) (ub : K) (m i : ℕ) (hpm : p ≤ m) (hm : m + 1 < Wl.length)
    (hi : p + 1 ≤ i) : fnOf (rightKv p Wl ub m) i = fnOf Wl (i + (m - p)) := fnOf_right_kv Wl ub p m i hpm hm hi

theorem fnOf_leftKv_gt (Wl : List K) (ub : K) (m i : ℕ) (hm : m < Wl.length) (hi : m < i) :
    fnOf (leftKv Wl ub m) i = ub := by
  unfold fnOf leftKv
  have hlast : (Wl.take (m + 1) ++ [ub]).getLastD 0 = ub := by simp
  rw [hlast]
  simp only [List.getD_eq_getElem?_getD]
  rw [List.getElem?_append_right (by simp; omega)]
  simp only [List.length_take]
  have : min (m + 1) Wl.length = m + 1 := by omega
  rw [this]
  rcases Nat.eq_or_lt_of_le (show m + 1 ≤ i by omega) with h | h
  · rw [← h]; simp
  · have : i - (m + 1) ≠ 0 := by omega
    cases hx : i - (m + 1) with
    | zero => exact absurd hx this
    | succ q => simp

theorem fnOf_rightKv_le (p : ℕ) (Wl : List K) (ub : K) (m i : ℕ) (hi : i ≤ p) :
    fnOf (rightKv p Wl ub m) i = ub := by
  unfold fnOf rightKv
  simp only [List.getD_eq_getElem?_getD]
  rw [List.getElem?_append_left (by simp; omega)]
  simp [show i < p + 1 by omega]

theorem leftKv_ne (Wl : List K) (ub : K) (m : ℕ) : leftKv Wl ub m ≠ [] := by simp [leftKv]
theorem rightKv_ne (p : ℕ) (Wl : List K) (ub : K) (m : ℕ) : rightKv p Wl ub m ≠ [] := by simp [rightKv]

theorem leftKv_last (Wl : List K) (ub : K) (m : ℕ) : (leftKv Wl ub m).getLastD 0 = ub := by simp [leftKv]

theorem leftKv_head (Wl : List K) (ub : K) (m : ℕ) (hne : Wl ≠ []) : (leftKv Wl ub m).headD 0 = fnOf Wl 0 := by
  cases Wl with
  | nil => exact absurd rfl hne
  | cons a as => simp [leftKv, fnOf]

theorem rightKv_head (p : ℕ) (Wl : List K) (ub : K) (m : ℕ) : (rightKv p Wl ub m).headD 0 = ub := by
  simp [rightKv, List.replicate_succ]

theorem rightKv_last (p : ℕ) (Wl : List K) (ub : K) (m : ℕ) (hm : m + 1 < Wl.length) :
    (rightKv p Wl ub m).getLastD 0 = fnOf Wl (Wl.length - 1) := by
  have hne : Wl.drop (m + 1) ≠ [] := by
    intro h
    have := congrArg List.length h
    simp at this; omega
  unfold rightKv fnOf
  rw [List.getLastD_eq_getLast?, List.getLast?_append_of_ne_nil _ hne, List.getLast?_drop]
  simp only [show ¬ (Wl.length ≤ m + 1) by omega, if_false]
  rw [List.getLast?_eq_getElem?, List.getD_eq_getElem?_getD]
  rw [List.getElem?_eq_getElem (by omega)]
  simp

/-! ### facts about a cut -/
section
variable {p d : ℕ} {Wl : List K} {Q : List (List K)} {ub : K} {m : ℕ}

theorem CutOk.len (h : CutOk p d Wl Q ub m) : Wl.length = Q.length + p + 1 := h.wf.len
theorem CutOk.ne (h : CutOk p d Wl Q ub m) : Wl ≠ [] := by
  intro e; have := h.len; rw [e] at this; simp at this

theorem CutOk.lo (h : CutOk p d Wl Q ub m) : fnOf Wl p < ub :=
  lt_of_le_of_lt (h.wf.mono (by have := h.hpm; omega)) h.below

theorem CutOk.hi (h : CutOk p d Wl Q ub m) : ub < fnOf Wl Q.length :=
  lt_of_lt_of_le h.above (h.wf.mono (by have := h.hm; omega))

theorem CutOk.atm (h : CutOk p d Wl Q ub m) : fnOf Wl m = ub :=
  h.mult m (by have := h.hp; have := h.hpm; omega) (le_refl _)

theorem CutOk.start (h : CutOk p d Wl Q ub m) (i : ℕ) (hi : i ≤ p) : fnOf Wl i = fnOf Wl 0 :=
  le_antisymm (by rw [h.c0]; exact h.wf.mono hi) (h.wf.mono (by omega))

theorem CutOk.fin (h : CutOk p d Wl Q ub m) (i : ℕ) (h1 : Q.length ≤ i) :
    fnOf Wl i = fnOf Wl Q.length := by
  apply le_antisymm _ (h.wf.mono h1)
  by_cases h2 : i ≤ Q.length + p
  · rw [← h.c1]; exact h.wf.mono h2
  · rw [← h.c1]
    unfold fnOf
    have e : Wl.getLastD 0 = Wl.getD (Wl.length - 1) (Wl.getLastD 0) := by
      rw [List.getLastD_eq_getLast?, List.getLast?_eq_getElem?, List.getD_eq_getElem?_getD]
      have := h.len
      rw [List.getElem?_eq_getElem (by omega)]; simp
    have e1 : Wl.getD i (Wl.getLastD 0) = Wl.getLastD 0 := by
      rw [List.getD_eq_getElem?_getD, List.getElem?_eq_none (by have := h.len; omega)]; rfl
    have e2 : Wl.length - 1 = Q.length + p := by have := h.len; omega
    rw [e1, ← e2, ← e]

/-- the un-normalised left knot function is non-decreasing -/
theorem CutOk.leftMono (h : CutOk p d Wl Q ub m) : Monotone (fnOf (leftKv Wl ub m)) := by
  have hlen := h.len
  have hm := h.hm
  apply monotone_nat_of_le_succ
  intro i
  by_cases h1 : i + 1 ≤ m
  · rw [fnOf_leftKv_le Wl ub m i (by omega) (by omega), fnOf_leftKv_le Wl ub m (i+1) (by omega) h1]
    exact h.wf.mono (by omega)
  · rw [fnOf_leftKv_gt Wl ub m (i+1) (by omega) (by omega)]
    by_cases h2 : i ≤ m
    · have : i = m := by omega
      rw [fnOf_leftKv_le Wl ub m i (by omega) h2, this, h.atm]
    · rw [fnOf_leftKv_gt Wl ub m i (by omega) (by omega)]

/-- the un-normalised right knot function is non-decreasing -/
theorem CutOk.rightMono (h : CutOk p d Wl Q ub m) : Monotone (fnOf (rightKv p Wl ub m)) := by
  have hlen := h.len
  have hm := h.hm
  have hpm := h.hpm
  apply monotone_nat_of_le_succ
  intro i
  by_cases h1 : i + 1 ≤ p
  · rw [fnOf_rightKv_le p Wl ub m i (by omega), fnOf_rightKv_le p Wl ub m (i+1) h1]
  · rw [fnOf_rightKv_gt p Wl ub m (i+1) (by omega) (by omega) (by omega)]
    by_cases h2 : i ≤ p
    · rw [fnOf_rightKv_le p Wl ub m i h2]
      have : i + 1 + (m - p) = m + 1 := by omega
      rw [this]; exact le_of_lt h.above
    · rw [fnOf_rightKv_gt p Wl ub m i (by omega) (by omega) (by omega)]
      exact h.wf.mono (by omega)

end

end Geomdl
