import NurbsVerif.Lemmas.LinalgMatrix

/-! Doolittle pivots and leading principal minors: the leading `k × k` block of `A` factorises with the leading blocks
    of `L` and `U` as soon as the first `k - 1` pivots do not vanish, hence `det A_k = U₀₀ ⋯ U_{k-1,k-1}`; so Doolittle
    meets no zero pivot iff every leading principal minor is non-zero. -/
namespace Lin
open Finset
variable {K : Type} [Field K] [DecidableEq K]

/-- the leading `k × k` block of an entry function -/
def leadBlock (A : ℕ → ℕ → K) (k : ℕ) : Matrix (Fin k) (Fin k) K := Matrix.of fun i j => A i j

omit [DecidableEq K] in
/-- one entry of `L·U = A` needs only the pivot of its column, and only below the diagonal -/
theorem doolittle_LU_entry (A : ℕ → ℕ → K) (n i k : ℕ) (hi : i < n) (hk : k < n)
    (hp : k < i → (doolittle A n).U k k ≠ 0) :
    ∑ j ∈ range n, (doolittle A n).L i j * (doolittle A n).U j k = A i k := by
  set st := doolittle A n with hst
  rcases Nat.lt_or_ge k i with hki | hki
  · rw [sum_cut n k hk _ (fun j h1 h2 => by
      have := (lu_rec A n j k h2 hk).1
      simp only [← hst] at this
      rw [this, if_pos h1, mul_zero])]
    rw [sum_range_succ]
    have hL := (lu_rec A n k i hk hi).2
    simp only [← hst] at hL
    rw [hL, if_neg (by omega), if_neg (by omega)]
    have hp' := hp hki
    field_simp
    ring
  · rw [sum_cut n i hi _ (fun j h1 h2 => by
      have := (lu_rec A n j i h2 hi).2
      simp only [← hst] at this
      rw [this, if_pos h1, zero_mul])]
    rw [sum_range_succ]
    have hU := (lu_rec A n i k hi hk).1
    have hL := (lu_rec A n i i hi hi).2
    simp only [← hst] at hU hL
    rw [hL, if_neg (by omega), if_pos trivial, one_mul, hU, if_neg (by omega)]
    ring

/-- the same with the sum cut at the size `m` of a leading block -/
theorem doolittle_LU_block (A : ℕ → ℕ → K) (n m i k : ℕ) (hm : m ≤ n) (hi : i < m) (hk : k < m)
    (hp : k < i → (doolittle A n).U k k ≠ 0) :
    ∑ j ∈ range m, (doolittle A n).L i j * (doolittle A n).U j k = A i k := by
  rw [← doolittle_LU_entry A n i k (by omega) (by omega) hp]
  apply sum_subset (range_subset_range.mpr hm)
  intro j hj hj'
  rw [doolittle_L_upper_zero A n i j (by omega) (mem_range.mp hj) (by simp at hj'; omega), zero_mul]

/-- **the leading principal minor of size `m` is the product of the first `m` Doolittle pivots**, provided the first
    `m - 1` pivots do not vanish -/
theorem leadMinor_eq_prod (A : ℕ → ℕ → K) (n m : ℕ) (hm : m ≤ n)
    (hp : ∀ t, t + 1 < m → (doolittle A n).U t t ≠ 0) :
    (leadBlock A m).det = ∏ t ∈ range m, (doolittle A n).U t t := by
  have hfac : leadBlock A m = (Matrix.of fun (i j : Fin m) => (doolittle A n).L i j)
      * (Matrix.of fun (i j : Fin m) => (doolittle A n).U i j) := by
    ext i k
    simp only [Matrix.mul_apply, leadBlock, Matrix.of_apply]
    rw [← doolittle_LU_block A n m i k hm i.2 k.2 (fun h => hp k (by omega)), Finset.sum_range]
  rw [hfac, Matrix.det_mul, Matrix.det_of_isLowerTriangular, Matrix.det_of_isUpperTriangular]
  · simp only [Matrix.of_apply]
    rw [← Finset.prod_mul_distrib,
      ← Finset.prod_range (fun i => (doolittle A n).L i i * (doolittle A n).U i i)]
    apply prod_congr rfl
    intro t ht
    rw [doolittle_L_diag A n t (by have := mem_range.mp ht; omega), one_mul]
  · intro i j hij
    simp only [id] at hij
    exact doolittle_U_lower_zero _ _ _ _ (by omega) (by omega) hij
  · intro i j hij
    have : (i : ℕ) < j := by simpa using hij
    exact doolittle_L_upper_zero _ _ _ _ (by omega) (by omega) this

/-- **all leading principal minors non-zero ⇒ Doolittle meets no zero pivot** -/
theorem pivots_ne_zero_of_minors (A : ℕ → ℕ → K) (n : ℕ)
    (h : ∀ k, 1 ≤ k → k ≤ n → (leadBlock A k).det ≠ 0) :
    ∀ j, j < n → (doolittle A n).U j j ≠ 0 := by
  intro j
  induction j using Nat.strong_induction_on with
  | _ j ih =>
    intro hj
    have hm := h (j + 1) (by omega) (by omega)
    rw [leadMinor_eq_prod A n (j + 1) (by omega) (fun t ht => ih t (by omega) (by omega)), prod_range_succ] at hm
    exact right_ne_zero_of_mul hm

/-- **no zero pivot ⇒ all leading principal minors non-zero** -/
theorem minors_ne_zero_of_pivots (A : ℕ → ℕ → K) (n : ℕ) (h : ∀ j, j < n → (doolittle A n).U j j ≠ 0) :
    ∀ k, k ≤ n → (leadBlock A k).det ≠ 0 := by
  intro k hk
  rw [leadMinor_eq_prod A n k hk (fun t ht => h t (by omega))]
  exact prod_ne_zero_iff.mpr (fun t ht => h t (by have := mem_range.mp ht; omega))

/-- **Doolittle (without pivoting) meets no zero pivot iff every leading principal minor is non-zero** -/
theorem pivots_ne_zero_iff_minors (A : ℕ → ℕ → K) (n : ℕ) :
    (∀ j, j < n → (doolittle A n).U j j ≠ 0) ↔ ∀ k, 1 ≤ k → k ≤ n → (leadBlock A k).det ≠ 0 :=
  ⟨fun h k _ hk => minors_ne_zero_of_pivots A n h k hk, pivots_ne_zero_of_minors A n⟩

/-- each pivot is the quotient of two consecutive leading principal minors: `det A_{j+1} = det A_j · U_jj` -/
theorem leadMinor_succ (A : ℕ → ℕ → K) (n j : ℕ) (hj : j < n)
    (hp : ∀ t, t < j → (doolittle A n).U t t ≠ 0) :
    (leadBlock A (j + 1)).det = (leadBlock A j).det * (doolittle A n).U j j := by
  rw [leadMinor_eq_prod A n (j + 1) (by omega) (fun t ht => hp t (by omega)),
    leadMinor_eq_prod A n j (by omega) (fun t ht => hp t (by omega)), prod_range_succ]

omit [DecidableEq K] in
/-- the pivots of the transposed matrix vanish nowhere iff those of the matrix do (same leading minors) -/
theorem leadBlock_transpose (A : ℕ → ℕ → K) (k : ℕ) :
    (leadBlock (fun i j => A j i) k).det = (leadBlock A k).det := by
  rw [← Matrix.det_transpose (leadBlock A k)]
  rfl

theorem pivots_ne_zero_transpose (A : ℕ → ℕ → K) (n : ℕ)
    (h : ∀ j, j < n → (doolittle (fun i j => A j i) n).U j j ≠ 0) :
    ∀ j, j < n → (doolittle A n).U j j ≠ 0 := by
  apply pivots_ne_zero_of_minors
  intro k _ hk
  rw [← leadBlock_transpose]
  exact minors_ne_zero_of_pivots _ n h k hk

omit [DecidableEq K] in
/-- for a list of rows the leading block is `toMat k k` -/
theorem leadBlock_ent (A : List (List K)) (k : ℕ) : leadBlock (ent A) k = toMat k k A := rfl

end Lin
