import NurbsVerif.Lemmas.InsertObjDir
import NurbsVerif.Lemmas.RemoveInvLib
import NurbsVerif.Lemmas.RemoveInvSurf
import NurbsVerif.Lemmas.RemoveInvVol

/-! `operations.remove_knot` after `operations.insert_knot` at object level, one direction of a
    surface or a volume: `removeKnotDir` (span and multiplicity found by the library on the refined
    object) applied to the result of `insertKnotDir` returns the object with `r - t` copies inserted;
    for `t = r` the original object. -/
namespace Geomdl
open Blossom Finset
set_option linter.unusedSectionVars false
variable {K : Type} [Field K] [LinearOrder K] [IsStrictOrderedRing K]

theorem set_getD_self {α : Type} (l : List α) (i : ℕ) (dflt : α) (h : i < l.length) : l.set i (l.getD i dflt) = l := by
  apply List.ext_getElem (by simp)
  intro j h1 h2
  by_cases hij : i = j
  · subst hij; simp [List.getD_eq_getElem?_getD, h]
  · simp [hij]

/-- what `removeKnotDir` returns, with the values of the library's searches given -/
theorem removeKnotDir_eq (S1 : Shape K) (dir : ℕ) (u : K) (num : ℕ) (tol tol2 : K) (check : Bool)
    (p : ℕ) (U1 : List K) (n1 s1 k1 : ℕ)
    (hp : S1.deg dir = p) (hU : S1.kv dir = U1) (hn : S1.size dir = n1)
    (hs : findMultiplicity u U1 tol = s1) (hk : findSpanLinear p (fnOf U1) n1 u = k1) (hle : num ≤ s1) :
    removeKnotDir S1 dir u num tol tol2 check
      = some (S1.withDir dir (knotRemovalKv U1 k1 num) (fun c => knotRemoval p (fnOf U1) c u num s1 k1 tol2)) := by
  unfold removeKnotDir
  simp only []
  rw [hp, hU, hn, hs, hk, if_neg (fun h => absurd h.2 (by omega))]

theorem Shape.ext' {A B : Shape K} (h1 : A.rat = B.rat) (h2 : A.degs = B.degs) (h3 : A.kvs = B.kvs)
    (h4 : A.sizes = B.sizes) (h5 : A.net = B.net) : A = B := by
  cases A; cases B; simp_all

/-- two direction steps along the same direction -/
theorem withDir_withDir (S : Shape K) (dir : ℕ) (U1 U2 : List K) (f1 g : List (List K) → List (List K))
    (R : List (List K) × ℕ) (hmap : (S.withDir dir U1 f1).mapDir dir g = R) :
    (S.withDir dir U1 f1).withDir dir U2 g
      = { S with kvs := S.kvs.set dir U2, sizes := S.sizes.set dir R.2, net := R.1 } := by
  refine Shape.ext' ?_ ?_ ?_ ?_ ?_
  · rfl
  · rfl
  · show (S.kvs.set dir U1).set dir U2 = _
    rw [List.set_set]
  · show (S.sizes.set dir (S.mapDir dir f1).2).set dir ((S.withDir dir U1 f1).mapDir dir g).2 = S.sizes.set dir R.2
    rw [hmap, List.set_set]
  · show ((S.withDir dir U1 f1).mapDir dir g).1 = R.1
    rw [hmap]

theorem withDir_back (S : Shape K) (dir : ℕ) (U1 : List K) (f1 g : List (List K) → List (List K))
    (hk : dir < S.kvs.length) (hs : dir < S.sizes.length)
    (hmap : (S.withDir dir U1 f1).mapDir dir g = (S.net, S.size dir)) :
    (S.withDir dir U1 f1).withDir dir (S.kv dir) g = S := by
  rw [withDir_withDir S dir U1 (S.kv dir) f1 g _ hmap]
  refine Shape.ext' ?_ ?_ ?_ ?_ ?_
  · rfl
  · rfl
  · show S.kvs.set dir (S.kvs.getD dir []) = S.kvs
    exact set_getD_self _ _ _ hk
  · show S.sizes.set dir (S.sizes.getD dir 0) = S.sizes
    exact set_getD_self _ _ _ hs
  · rfl

/-! ### the net of the second step in terms of the original net -/

theorem mapDir_withDir_surf0 (S : Shape K) (h2 : S.degs.length = 2) (hs : S.sizes.length = 2) (U1 : List K)
    (f1 g : List (List K) → List (List K)) :
    (S.withDir 0 U1 f1).mapDir 0 g
      = mapSurfU (mapSurfU (S.size 0) (S.size 1) S.net f1).2 (S.size 1) (mapSurfU (S.size 0) (S.size 1) S.net f1).1 g := by
  have hmap : S.mapDir 0 f1 = mapSurfU (S.size 0) (S.size 1) S.net f1 := by
    unfold Shape.mapDir Shape.pdim; rw [h2]; simp
  have e0 : (S.withDir 0 U1 f1).size 0 = (mapSurfU (S.size 0) (S.size 1) S.net f1).2 := by
    show (S.sizes.set 0 _).getD 0 0 = _
    rw [getD_set_self _ 0 _ _ (by omega), hmap]
  have e1 : (S.withDir 0 U1 f1).size 1 = S.size 1 := getD_set_ne _ 0 1 _ _ (by omega)
  have en : (S.withDir 0 U1 f1).net = (mapSurfU (S.size 0) (S.size 1) S.net f1).1 := by
    show (S.mapDir 0 f1).1 = _; rw [hmap]
  have : (S.withDir 0 U1 f1).mapDir 0 g
      = mapSurfU ((S.withDir 0 U1 f1).size 0) ((S.withDir 0 U1 f1).size 1) (S.withDir 0 U1 f1).net g := by
    unfold Shape.mapDir Shape.pdim
    rw [show (S.withDir 0 U1 f1).degs.length = 2 from h2]; simp
  rw [this, e0, e1, en]

theorem mapDir_withDir_surf1 (S : Shape K) (h2 : S.degs.length = 2) (hs : S.sizes.length = 2) (U1 : List K)
    (f1 g : List (List K) → List (List K)) :
    (S.withDir 1 U1 f1).mapDir 1 g
      = mapSurfV (S.size 0) (mapSurfV (S.size 0) (S.size 1) S.net f1).2 (mapSurfV (S.size 0) (S.size 1) S.net f1).1 g := by
  have hmap : S.mapDir 1 f1 = mapSurfV (S.size 0) (S.size 1) S.net f1 := by
    unfold Shape.mapDir Shape.pdim; rw [h2]; simp
  have e1 : (S.withDir 1 U1 f1).size 1 = (mapSurfV (S.size 0) (S.size 1) S.net f1).2 := by
    show (S.sizes.set 1 _).getD 1 0 = _
    rw [getD_set_self _ 1 _ _ (by omega), hmap]
  have e0 : (S.withDir 1 U1 f1).size 0 = S.size 0 := getD_set_ne _ 1 0 _ _ (by omega)
  have en : (S.withDir 1 U1 f1).net = (mapSurfV (S.size 0) (S.size 1) S.net f1).1 := by
    show (S.mapDir 1 f1).1 = _; rw [hmap]
  have : (S.withDir 1 U1 f1).mapDir 1 g
      = mapSurfV ((S.withDir 1 U1 f1).size 0) ((S.withDir 1 U1 f1).size 1) (S.withDir 1 U1 f1).net g := by
    unfold Shape.mapDir Shape.pdim
    rw [show (S.withDir 1 U1 f1).degs.length = 2 from h2]; simp
  rw [this, e0, e1, en]

theorem mapDir_withDir_vol0 (S : Shape K) (h3 : S.degs.length = 3) (hs : S.sizes.length = 3) (U1 : List K)
    (f1 g : List (List K) → List (List K)) :
    (S.withDir 0 U1 f1).mapDir 0 g
      = mapVol 0 (mapVol 0 (S.size 0) (S.size 1) (S.size 2) S.net f1).2 (S.size 1) (S.size 2)
          (mapVol 0 (S.size 0) (S.size 1) (S.size 2) S.net f1).1 g := by
  have hmap := mapDir_vol S 0 f1 h3
  have e0 : (S.withDir 0 U1 f1).size 0 = (mapVol 0 (S.size 0) (S.size 1) (S.size 2) S.net f1).2 := by
    show (S.sizes.set 0 _).getD 0 0 = _
    rw [getD_set_self _ 0 _ _ (by omega), hmap]
  have e1 : (S.withDir 0 U1 f1).size 1 = S.size 1 := getD_set_ne _ 0 1 _ _ (by omega)
  have e2 : (S.withDir 0 U1 f1).size 2 = S.size 2 := getD_set_ne _ 0 2 _ _ (by omega)
  have en : (S.withDir 0 U1 f1).net = (mapVol 0 (S.size 0) (S.size 1) (S.size 2) S.net f1).1 := by
    show (S.mapDir 0 f1).1 = _; rw [hmap]
  rw [mapDir_vol (S.withDir 0 U1 f1) 0 g h3, e0, e1, e2, en]

theorem mapDir_withDir_vol1 (S : Shape K) (h3 : S.degs.length = 3) (hs : S.sizes.length = 3) (U1 : List K)
    (f1 g : List (List K) → List (List K)) :
    (S.withDir 1 U1 f1).mapDir 1 g
      = mapVol 1 (S.size 0) (mapVol 1 (S.size 0) (S.size 1) (S.size 2) S.net f1).2 (S.size 2)
          (mapVol 1 (S.size 0) (S.size 1) (S.size 2) S.net f1).1 g := by
  have hmap := mapDir_vol S 1 f1 h3
  have e1 : (S.withDir 1 U1 f1).size 1 = (mapVol 1 (S.size 0) (S.size 1) (S.size 2) S.net f1).2 := by
    show (S.sizes.set 1 _).getD 1 0 = _
    rw [getD_set_self _ 1 _ _ (by omega), hmap]
  have e0 : (S.withDir 1 U1 f1).size 0 = S.size 0 := getD_set_ne _ 1 0 _ _ (by omega)
  have e2 : (S.withDir 1 U1 f1).size 2 = S.size 2 := getD_set_ne _ 1 2 _ _ (by omega)
  have en : (S.withDir 1 U1 f1).net = (mapVol 1 (S.size 0) (S.size 1) (S.size 2) S.net f1).1 := by
    show (S.mapDir 1 f1).1 = _; rw [hmap]
  rw [mapDir_vol (S.withDir 1 U1 f1) 1 g h3, e0, e1, e2, en]

theorem mapDir_withDir_vol2 (S : Shape K) (h3 : S.degs.length = 3) (hs : S.sizes.length = 3) (U1 : List K)
    (f1 g : List (List K) → List (List K)) :
    (S.withDir 2 U1 f1).mapDir 2 g
      = mapVol 2 (S.size 0) (S.size 1) (mapVol 2 (S.size 0) (S.size 1) (S.size 2) S.net f1).2
          (mapVol 2 (S.size 0) (S.size 1) (S.size 2) S.net f1).1 g := by
  have hmap := mapDir_vol S 2 f1 h3
  have e2 : (S.withDir 2 U1 f1).size 2 = (mapVol 2 (S.size 0) (S.size 1) (S.size 2) S.net f1).2 := by
    show (S.sizes.set 2 _).getD 2 0 = _
    rw [getD_set_self _ 2 _ _ (by omega), hmap]
  have e0 : (S.withDir 2 U1 f1).size 0 = S.size 0 := getD_set_ne _ 2 0 _ _ (by omega)
  have e1 : (S.withDir 2 U1 f1).size 1 = S.size 1 := getD_set_ne _ 2 1 _ _ (by omega)
  have en : (S.withDir 2 U1 f1).net = (mapVol 2 (S.size 0) (S.size 1) (S.size 2) S.net f1).1 := by
    show (S.mapDir 2 f1).1 = _; rw [hmap]
  rw [mapDir_vol (S.withDir 2 U1 f1) 2 g h3, e0, e1, e2, en]

/-! ### the hypotheses of the round trip and what they give at curve level -/

/-- admissible insertion request whose computed multiplicity is the true one (the knot before the
    run of `s` copies is strictly smaller) -/
structure RoundOk (S : Shape K) (dir : ℕ) (ub : K) (r : ℕ) (tol : K) : Prop where
  req : DirReqOk S dir ub r tol
  r1 : 1 ≤ r
  tol0 : 0 ≤ tol
  below : fnOf (S.kv dir) (findSpanLinear (S.deg dir) (fnOf (S.kv dir)) (S.size dir) ub
      - findMultiplicity ub (S.kv dir) tol) < ub

/-- the numbers the library computes on the refined object, and the side conditions of the
    curve-level round-trip theorems -/
theorem roundOk_facts (S : Shape K) (dir : ℕ) (ub : K) (r : ℕ) (tol : K)
    (hkv : KvWF (S.deg dir) (S.kv dir) (S.size dir)) (h : RoundOk S dir ub r tol) :
    let p := S.deg dir
    let U := S.kv dir
    let n := S.size dir
    let k := findSpanLinear p (fnOf U) n ub
    let s := findMultiplicity ub U tol
    p ≤ k ∧ k < n ∧ k + 1 < U.length ∧ ub < fnOf U (k + 1) ∧
    findMultiplicity ub (knotInsertionKv U ub k r) tol = s + r ∧
    findSpanLinear p (fnOf (knotInsertionKv U ub k r)) (n + r) ub = k + r := by
  intro p U n k s
  obtain ⟨k1, k2, k3, k4⟩ := findSpanLinear_spec p (fnOf U) n ub hkv.pn hkv.mono h.req.lo
  have hk4 : ub < fnOf U (k + 1) := by
    rcases k4 with h' | h'
    · exact h'
    · rw [h']; exact h.req.hi
  refine ⟨k1, k2, by have := hkv.len; show k + 1 < (S.kv dir).length; omega, hk4, RemInv.mult_after_insert U ub tol k r h.tol0,
    RemInv.span_after_insert_self p U n r ub hkv.mono hkv.len hkv.pn h.req.lo h.req.hi h.r1⟩

/-- decidable route to `RoundOk` / `DirReqOk` on concrete data -/
theorem roundOk_of_sep (S : Shape K) (dir : ℕ) (ub : K) (r : ℕ) (tol : K)
    (hkv : KvWF (S.deg dir) (S.kv dir) (S.size dir)) (h0 : 0 ≤ tol)
    (hsep : ∀ y ∈ S.kv dir, ub = y ∨ tol < |ub - y|)
    (hlo : fnOf (S.kv dir) (S.deg dir) ≤ ub) (hhi : ub < fnOf (S.kv dir) (S.size dir))
    (hrs : r + (S.kv dir).count ub ≤ S.deg dir) (hr1 : 1 ≤ r)
    (hbelow : fnOf (S.kv dir) (findSpanLinear (S.deg dir) (fnOf (S.kv dir)) (S.size dir) ub
      - findMultiplicity ub (S.kv dir) tol) < ub) : RoundOk S dir ub r tol :=
  ⟨dirReqOk_of_sep S dir ub r tol hkv h0 hsep hlo hhi hrs, hr1, h0, hbelow⟩

end Geomdl
