import NurbsVerif.Lemmas.SurfDeriv
import NurbsVerif.Lemmas.RatSurfDersModel
import NurbsVerif.Lemmas.LinalgHelpers

/-! Rational surfaces: A4.4 applied to the homogeneous derivative table solves the Leibniz system
    whose data are the true mixed partial derivatives.  Normal vector (cross product of the two first
    derivatives) and normalisation. -/
namespace Geomdl
open Blossom Polynomial Finset
open scoped Polynomial.Bivariate
variable {K : Type} [Field K] [LinearOrder K] [IsStrictOrderedRing K]

/-- **Rational surfaces, end to end**: `P` is the homogeneous net (`d+1` coordinates, the last one the
    weight); `ratSurfaceDers` applied to the model's derivative table of the homogeneous surface returns
    vectors `S⁽ᵃᵇ⁾` with `Σ_{i≤k} Σ_{j≤l} C(k,i) C(l,j) · ∂ⁱᵤ∂ʲᵥ w · S⁽ᵏ⁻ⁱ,ˡ⁻ʲ⁾ = ∂ᵏᵤ∂ˡᵥ A_c` for all `k, l ≤ order`,
    where `w`, `A_c` are the bivariate span polynomials of the weight and of coordinate `c` -/
theorem ratSurfaceDers_true (pu pv : ℕ) (Uu Uv : ℕ → K) (su sv : ℕ) (P : List (List K)) (κu κv : ℕ) (u v : K)
    (d c order k l : ℕ)
    (hpu : pu ≤ κu) (hpv : pv ≤ κv) (hκu : κu < su) (hκv : κv < sv) (hlen : P.length = su * sv) (hP : NetOk (d+1) P)
    (hmu : Monotone Uu) (hmv : Monotone Uv) (hspu : Uu κu < Uu (κu+1)) (hspv : Uv κv < Uv (κv+1))
    (hw0 : (surfSpanPoly pu pv Uu Uv sv P κu κv d).evalEval u v ≠ 0)
    (hk : k ≤ order) (hl : l ≤ order) (hc : c < d) :
    ∑ i ∈ range (k+1), ∑ j ∈ range (l+1),
      (Nat.choose k i : K) * (Nat.choose l j : K)
        * (pderivU^[i] (pderivV^[j] (surfSpanPoly pu pv Uu Uv sv P κu κv d))).evalEval u v
        * (tget (ratSurfaceDers (surfaceDersAt pu pv Uu Uv sv P κu κv u v order false) order) (k - i) (l - j)).getD c 0
      = (pderivU^[k] (pderivV^[l] (surfSpanPoly pu pv Uu Uv sv P κu κv c))).evalEval u v := by
  have hall : ∀ a b e, a ≤ order → b ≤ order →
      (tget (surfaceDersAt pu pv Uu Uv sv P κu κv u v order false) a b).getD e 0
        = (pderivU^[a] (pderivV^[b] (surfSpanPoly pu pv Uu Uv sv P κu κv e))).evalEval u v := by
    intro a b e ha hb
    exact surfaceDersAt_all pu pv Uu Uv su sv P κu κv u v (d+1) e order a b false hpu hpv hκu hκv hlen hP
      hmu hmv hspu hspv ha hb (Or.inl rfl)
  have hlenw : ∀ i j, i ≤ order → j ≤ order →
      (tget (surfaceDersAt pu pv Uu Uv sv P κu κv u v order false) i j).length = d + 1 := by
    intro i j hi hj
    exact surfaceDersAt_entry_length pu pv Uu Uv su sv P κu κv u v (d+1) order false i j hpu hpv hκu hκv hlen hP hi hj
  have h00 : (tget (surfaceDersAt pu pv Uu Uv sv P κu κv u v order false) 0 0).getD d 0 ≠ 0 := by
    rw [hall 0 0 d (by omega) (by omega)]
    exact hw0
  have := ratSurfaceDers_leibniz (surfaceDersAt pu pv Uu Uv sv P κu κv u v order false) order d hlenw h00 k l c hk hl hc
  rw [hall k l c hk hl] at this
  rw [← this]
  apply Finset.sum_congr rfl
  intro i hi
  rw [Finset.mem_range] at hi
  apply Finset.sum_congr rfl
  intro j hj
  rw [Finset.mem_range] at hj
  rw [hall i j d (by omega) (by omega)]

end Geomdl

namespace Lin
variable {K : Type} [Field K]

theorem normSq_map_div (m : K) (hm : m ≠ 0) (v : List K) :
    normSq (v.map (fun x => x / m)) = normSq v / (m * m) := by
  unfold normSq
  have : ∀ (v : List K) (acc : K),
      (v.map (fun x => x / m)).foldl (fun acc x => acc + x * x) (acc / (m * m))
        = (v.foldl (fun acc x => acc + x * x) acc) / (m * m) := by
    intro v
    induction v with
    | nil => intro acc; rfl
    | cons x xs ih =>
      intro acc
      simp only [List.map_cons, List.foldl_cons]
      rw [← ih (acc + x * x)]
      congr 1
      rw [div_mul_div_comm, add_div]
  have h0 := this v 0
  rw [zero_div] at h0
  exact h0

/-- `vector_normalize` returns a vector of squared length 1 whenever the magnitude supplied is a
    square root of the squared length (exact arithmetic; the 18-decimals rounding is not modelled) -/
theorem vectorNormalize_unit [LinearOrder K] [IsStrictOrderedRing K] (v n : List K) (mag : K)
    (hmag : mag * mag = normSq v) (h : vectorNormalize v mag = some n) : normSq n = 1 := by
  unfold vectorNormalize at h
  split at h
  · rename_i hpos
    injection h with h
    subst h
    have hm : mag ≠ 0 := ne_of_gt hpos
    rw [normSq_map_div mag hm, ← hmag, div_self (mul_ne_zero hm hm)]
  · exact absurd h (by simp)

/-- … and it is parallel to the input: `n = v / mag` -/
theorem vectorNormalize_parallel [LinearOrder K] [IsStrictOrderedRing K] (v n : List K) (mag : K)
    (h : vectorNormalize v mag = some n) : 0 < mag ∧ n = v.map (fun x => x / mag) := by
  unfold vectorNormalize at h
  split at h
  · rename_i hpos
    injection h with h
    exact ⟨hpos, h.symm⟩
  · exact absurd h (by simp)

end Lin

namespace Geomdl
variable {K : Type} [Field K] [LinearOrder K] [IsStrictOrderedRing K]

/-- the cross product of the two first derivative vectors of a 3-D surface exists and is orthogonal
    to both -/
theorem surfaceNormal_orthogonal (pu pv : ℕ) (Uu Uv : ℕ → K) (su sv : ℕ) (P : List (List K))
    (κu κv : ℕ) (u v : K) (order : ℕ) (tri : Bool)
    (hpu : pu ≤ κu) (hpv : pv ≤ κv) (hκu : κu < su) (hκv : κv < sv) (hlen : P.length = su * sv) (hP : NetOk 3 P)
    (ho : 1 ≤ order) :
    ∃ n, Lin.vectorCross (((surfaceDersAt pu pv Uu Uv sv P κu κv u v order tri).getD 1 []).getD 0 [])
                        (((surfaceDersAt pu pv Uu Uv sv P κu κv u v order tri).getD 0 []).getD 1 []) = some n ∧
      Lin.vectorDot n (((surfaceDersAt pu pv Uu Uv sv P κu κv u v order tri).getD 1 []).getD 0 []) = 0 ∧
      Lin.vectorDot n (((surfaceDersAt pu pv Uu Uv sv P κu κv u v order tri).getD 0 []).getD 1 []) = 0 := by
  have h10 := surfaceDersAt_entry_length pu pv Uu Uv su sv P κu κv u v 3 order tri 1 0 hpu hpv hκu hκv hlen hP
    ho (by omega)
  have h01 := surfaceDersAt_entry_length pu pv Uu Uv su sv P κu κv u v 3 order tri 0 1 hpu hpv hκu hκv hlen hP
    (by omega) ho
  obtain ⟨a0, a1, a2, ha⟩ := List.length_eq_three.mp h10
  obtain ⟨b0, b1, b2, hb⟩ := List.length_eq_three.mp h01
  refine ⟨[a1 * b2 - a2 * b1, a2 * b0 - a0 * b2, a0 * b1 - a1 * b0], ?_⟩
  have hc : Lin.vectorCross (((surfaceDersAt pu pv Uu Uv sv P κu κv u v order tri).getD 1 []).getD 0 [])
      (((surfaceDersAt pu pv Uu Uv sv P κu κv u v order tri).getD 0 []).getD 1 [])
      = some [a1 * b2 - a2 * b1, a2 * b0 - a0 * b2, a0 * b1 - a1 * b0] := by
    rw [ha, hb]; rfl
  exact ⟨hc, Lin.vectorCross_orthogonal _ _ _ h10 h01 hc⟩

end Geomdl
