import NurbsVerif.Lemmas.RefineSurf

/-! Refinement at object level: `refineDir` on surfaces (both directions) preserves every surface
    point; `refineKnotvector` leaves unselected directions untouched. -/
namespace Geomdl
open Blossom Finset
variable {K : Type} [Field K] [LinearOrder K] [IsStrictOrderedRing K]

theorem getD_set_self {α : Type} (l : List α) (i : ℕ) (v dflt : α) (h : i < l.length) :
    (l.set i v).getD i dflt = v := by
  simp [List.getD_eq_getElem?_getD, h]

theorem getD_set_ne {α : Type} (l : List α) (i j : ℕ) (v dflt : α) (h : i ≠ j) :
    (l.set i v).getD j dflt = l.getD j dflt := by
  simp [List.getD_eq_getElem?_getD, h]

/-! ### function level -/

/-- **Refining the v direction of a surface leaves every surface point unchanged** -/
theorem refineV_preserves_surface (pu pv : ℕ) (Uu : ℕ → K) (Uvl : List K) (su sv : ℕ) (P : List (List K))
    (density d : ℕ) (tol : K) (hP : NetOk d P) (hlenP : P.length = su * sv) (hkv : KvWF pv Uvl sv)
    (hend : ∀ i, sv ≤ i → fnOf Uvl i = fnOf Uvl sv) (h0 : 0 ≤ tol)
    (hsep : SepBy tol (Uvl ++ refineKnots pv Uvl density)) (hsu : 0 < su) :
    let X := refineX pv Uvl density tol
    let Q := mapSurfV su sv P (refNet pv tol Uvl X)
    Q.2 = sv + X.length ∧ Q.1.length = su * (sv + X.length) ∧ NetOk d Q.1 ∧
    ∀ (ku : ℕ), pu ≤ ku → ku < su → ∀ (u v : K), fnOf Uvl pv ≤ v → v ≤ fnOf Uvl sv → ∀ j,
      (surfacePointAt pu pv Uu (fnOf (refKv pv tol Uvl X sv)) (sv + X.length) Q.1 ku
          (findSpanLinear pv (fnOf (refKv pv tol Uvl X sv)) (sv + X.length) v) u v).getD j 0
        = (surfacePointAt pu pv Uu (fnOf Uvl) sv P ku (findSpanLinear pv (fnOf Uvl) sv v) u v).getD j 0 := by
  intro X Q
  have hrowlen : ∀ x, (rowOf sv P x).length = sv := by intro x; simp [rowOf]
  have hiso := fun x (hx : x < su) => refine_isocurve pv d Uvl sv density tol hkv hend h0 hsep (rowOf sv P x) (hrowlen x)
    (rowOf_netOk su sv d P hP hlenP x hx)
  obtain ⟨q1, q2, q3, q4⟩ := mapSurfV_gen su sv d (sv + X.length) P (refNet pv tol Uvl X) hsu
    (fun x hx => ⟨(hiso x hx).1, (hiso x hx).2.1⟩)
  refine ⟨q1, q2, q3, ?_⟩
  intro ku hpu hku u v hlo hhi j
  obtain ⟨_, _, hkv', hp', hn', _⟩ := hiso 0 hsu
  obtain ⟨a1, a2, _, _⟩ := findSpanLinear_spec pv (fnOf Uvl) sv v hkv.pn hkv.mono hlo
  obtain ⟨b1, b2, _, _⟩ := findSpanLinear_spec pv (fnOf (refKv pv tol Uvl X sv)) (sv + X.length) v hkv'.pn hkv'.mono
    (by rw [hp']; exact hlo)
  apply surf_lift_rows pu pv Uu (fnOf Uvl) _ su sv (sv + X.length) P Q.1 ku _ _ u v d j hpu hku a1 a2 b1 b2 hlenP hP q2 q3
  intro x hx
  rw [q4 x hx]
  exact (hiso x hx).2.2.2.2.2 v hlo hhi j

/-- **Refining the u direction of a surface leaves every surface point unchanged** -/
theorem refineU_preserves_surface (pu pv : ℕ) (Uul : List K) (Uv : ℕ → K) (su sv : ℕ) (P : List (List K))
    (density d : ℕ) (tol : K) (hP : NetOk d P) (hlenP : P.length = su * sv) (hku : KvWF pu Uul su)
    (hend : ∀ i, su ≤ i → fnOf Uul i = fnOf Uul su) (h0 : 0 ≤ tol)
    (hsep : SepBy tol (Uul ++ refineKnots pu Uul density)) (hsv : 0 < sv) :
    let X := refineX pu Uul density tol
    let Q := mapSurfU su sv P (refNet pu tol Uul X)
    Q.2 = su + X.length ∧ Q.1.length = (su + X.length) * sv ∧ NetOk d Q.1 ∧
    ∀ (kv : ℕ), pv ≤ kv → kv < sv → ∀ (u v : K), fnOf Uul pu ≤ u → u ≤ fnOf Uul su → ∀ j,
      (surfacePointAt pu pv (fnOf (refKv pu tol Uul X su)) Uv sv Q.1
          (findSpanLinear pu (fnOf (refKv pu tol Uul X su)) (su + X.length) u) kv u v).getD j 0
        = (surfacePointAt pu pv (fnOf Uul) Uv sv P (findSpanLinear pu (fnOf Uul) su u) kv u v).getD j 0 := by
  intro X Q
  have hcollen : ∀ y, (colOf su sv P y).length = su := by intro y; simp [colOf]
  have hiso := fun y (hy : y < sv) => refine_isocurve pu d Uul su density tol hku hend h0 hsep (colOf su sv P y) (hcollen y)
    (colOf_netOk su sv d P hP hlenP y hy)
  obtain ⟨q1, q2, q3, q4⟩ := mapSurfU_gen su sv d (su + X.length) P (refNet pu tol Uul X) hsv
    (fun y hy => ⟨(hiso y hy).1, (hiso y hy).2.1⟩)
  refine ⟨q1, q2, q3, ?_⟩
  intro kv hpv hkv u v hlo hhi j
  obtain ⟨_, _, hku', hp', hn', _⟩ := hiso 0 hsv
  obtain ⟨a1, a2, _, _⟩ := findSpanLinear_spec pu (fnOf Uul) su u hku.pn hku.mono hlo
  obtain ⟨b1, b2, _, _⟩ := findSpanLinear_spec pu (fnOf (refKv pu tol Uul X su)) (su + X.length) u hku'.pn hku'.mono
    (by rw [hp']; exact hlo)
  apply surf_lift_cols pu pv (fnOf Uul) _ Uv su sv (su + X.length) P Q.1 kv _ _ u v d j hpv hkv a1 a2 b1 b2 hlenP hP q2 q3
  intro y hy
  rw [q4 y hy]
  exact (hiso y hy).2.2.2.2.2 u hlo hhi j

/-! ### object level: surfaces -/

/-- a well-formed surface object: two directions, each with a well-formed knot vector, net of the
    right size with points of one dimension -/
structure SurfWF (d : ℕ) (S : Shape K) : Prop where
  degs : S.degs.length = 2
  kvs : S.kvs.length = 2
  sizes : S.sizes.length = 2
  netlen : S.net.length = S.size 0 * S.size 1
  net : NetOk d S.net
  dir0 : KvWF (S.deg 0) (S.kv 0) (S.size 0)
  dir1 : KvWF (S.deg 1) (S.kv 1) (S.size 1)

/-- the surface point of a 2-direction shape (spans by the library's linear search) -/
abbrev surfEval (S : Shape K) (u v : K) : List K :=
  surfacePoint (S.deg 0) (S.deg 1) (fnOf (S.kv 0)) (fnOf (S.kv 1)) (S.size 0) (S.size 1) S.net u v

theorem refineDir_some (S : Shape K) (dir density : ℕ) (tol : K) (S' : Shape K)
    (h : refineDir S dir density tol = some S') :
    (refineX (S.deg dir) (S.kv dir) density tol).isEmpty = false ∧
    S' = { S with
      kvs := S.kvs.set dir (refKv (S.deg dir) tol (S.kv dir) (refineX (S.deg dir) (S.kv dir) density tol) (S.size dir)),
      sizes := S.sizes.set dir (S.mapDir dir (refNet (S.deg dir) tol (S.kv dir) (refineX (S.deg dir) (S.kv dir) density tol))).2,
      net := (S.mapDir dir (refNet (S.deg dir) tol (S.kv dir) (refineX (S.deg dir) (S.kv dir) density tol))).1 } := by
  unfold refineDir at h
  simp only [] at h
  split_ifs at h with hX
  exact ⟨by simpa using hX, (Option.some.inj h).symm⟩

/-- **`refineDir` in the v direction (direction 1) of a surface**: the result is again a well-formed
    surface, direction 0 is untouched, and every surface point is unchanged. -/
theorem refineDir_v_surface (d : ℕ) (S : Shape K) (hS : SurfWF d S) (density : ℕ) (tol : K)
    (hend : ∀ i, S.size 1 ≤ i → fnOf (S.kv 1) i = fnOf (S.kv 1) (S.size 1)) (h0 : 0 ≤ tol)
    (hsep : SepBy tol (S.kv 1 ++ refineKnots (S.deg 1) (S.kv 1) density))
    (S' : Shape K) (h : refineDir S 1 density tol = some S') :
    SurfWF d S' ∧ S'.degs = S.degs ∧ S'.kv 0 = S.kv 0 ∧ S'.size 0 = S.size 0 ∧
    S'.size 1 = S.size 1 + (refineX (S.deg 1) (S.kv 1) density tol).length ∧
    fnOf (S'.kv 1) (S'.deg 1) = fnOf (S.kv 1) (S.deg 1) ∧ fnOf (S'.kv 1) (S'.size 1) = fnOf (S.kv 1) (S.size 1) ∧
    ∀ (u v : K), fnOf (S.kv 0) (S.deg 0) ≤ u → fnOf (S.kv 1) (S.deg 1) ≤ v → v ≤ fnOf (S.kv 1) (S.size 1) → ∀ j,
      (surfEval S' u v).getD j 0 = (surfEval S u v).getD j 0 := by
  obtain ⟨hX, hS'⟩ := refineDir_some S 1 density tol S' h
  set X := refineX (S.deg 1) (S.kv 1) density tol with hXdef
  have hsu : 0 < S.size 0 := by have := hS.dir0.pn; omega
  have hmap : S.mapDir 1 (refNet (S.deg 1) tol (S.kv 1) X) = mapSurfV (S.size 0) (S.size 1) S.net (refNet (S.deg 1) tol (S.kv 1) X) := by
    unfold Shape.mapDir Shape.pdim
    rw [hS.degs]; simp
  rw [hmap] at hS'
  obtain ⟨q1, q2, q3, q4⟩ := refineV_preserves_surface (S.deg 0) (S.deg 1) (fnOf (S.kv 0)) (S.kv 1) (S.size 0) (S.size 1) S.net
    density d tol hS.net hS.netlen hS.dir1 hend h0 hsep hsu
  obtain ⟨_, _, hkv', hp', hn', _⟩ := refine_isocurve (S.deg 1) 0 (S.kv 1) (S.size 1) density tol hS.dir1 hend h0 hsep
    (List.replicate (S.size 1) []) (by simp) (by intro pt hpt; rw [List.eq_of_mem_replicate hpt]; rfl)
  have e_degs : S'.degs = S.degs := by rw [hS']
  have e_kv0 : S'.kv 0 = S.kv 0 := by
    rw [hS']; exact getD_set_ne _ 1 0 _ _ (by omega)
  have e_kv1 : S'.kv 1 = refKv (S.deg 1) tol (S.kv 1) X (S.size 1) := by
    rw [hS']; exact getD_set_self _ 1 _ _ (by rw [hS.kvs]; omega)
  have e_s0 : S'.size 0 = S.size 0 := by
    rw [hS']; exact getD_set_ne _ 1 0 _ _ (by omega)
  have e_s1 : S'.size 1 = S.size 1 + X.length := by
    rw [hS']
    show (S.sizes.set 1 _).getD 1 0 = _
    rw [getD_set_self _ 1 _ _ (by rw [hS.sizes]; omega)]; exact q1
  have e_net : S'.net = (mapSurfV (S.size 0) (S.size 1) S.net (refNet (S.deg 1) tol (S.kv 1) X)).1 := by rw [hS']
  have e_deg : ∀ i, S'.deg i = S.deg i := by intro i; unfold Shape.deg; rw [e_degs]
  refine ⟨⟨by rw [e_degs]; exact hS.degs, by rw [hS']; simp [hS.kvs], by rw [hS']; simp [hS.sizes], ?_, ?_, ?_, ?_⟩,
    e_degs, e_kv0, e_s0, e_s1, ?_, ?_, ?_⟩
  · rw [e_net, e_s0, e_s1]; exact q2
  · rw [e_net]; exact q3
  · rw [e_deg, e_kv0, e_s0]; exact hS.dir0
  · rw [e_deg, e_kv1, e_s1]; exact hkv'
  · rw [e_deg, e_kv1]; exact hp'
  · rw [e_kv1, e_s1]; exact hn'
  · intro u v hu hlo hhi j
    obtain ⟨a1, a2, _, _⟩ := findSpanLinear_spec (S.deg 0) (fnOf (S.kv 0)) (S.size 0) u hS.dir0.pn hS.dir0.mono hu
    have := q4 (findSpanLinear (S.deg 0) (fnOf (S.kv 0)) (S.size 0) u) a1 a2 u v hlo hhi j
    unfold surfEval surfacePoint
    rw [e_deg, e_deg, e_kv0, e_kv1, e_s0, e_s1, e_net]
    exact this

/-- **`refineDir` in the u direction (direction 0) of a surface** -/
theorem refineDir_u_surface (d : ℕ) (S : Shape K) (hS : SurfWF d S) (density : ℕ) (tol : K)
    (hend : ∀ i, S.size 0 ≤ i → fnOf (S.kv 0) i = fnOf (S.kv 0) (S.size 0)) (h0 : 0 ≤ tol)
    (hsep : SepBy tol (S.kv 0 ++ refineKnots (S.deg 0) (S.kv 0) density))
    (S' : Shape K) (h : refineDir S 0 density tol = some S') :
    SurfWF d S' ∧ S'.degs = S.degs ∧ S'.kv 1 = S.kv 1 ∧ S'.size 1 = S.size 1 ∧
    S'.size 0 = S.size 0 + (refineX (S.deg 0) (S.kv 0) density tol).length ∧
    fnOf (S'.kv 0) (S'.deg 0) = fnOf (S.kv 0) (S.deg 0) ∧ fnOf (S'.kv 0) (S'.size 0) = fnOf (S.kv 0) (S.size 0) ∧
    ∀ (u v : K), fnOf (S.kv 0) (S.deg 0) ≤ u → u ≤ fnOf (S.kv 0) (S.size 0) → fnOf (S.kv 1) (S.deg 1) ≤ v → ∀ j,
      (surfEval S' u v).getD j 0 = (surfEval S u v).getD j 0 := by
  obtain ⟨hX, hS'⟩ := refineDir_some S 0 density tol S' h
  set X := refineX (S.deg 0) (S.kv 0) density tol with hXdef
  have hsv : 0 < S.size 1 := by have := hS.dir1.pn; omega
  have hmap : S.mapDir 0 (refNet (S.deg 0) tol (S.kv 0) X) = mapSurfU (S.size 0) (S.size 1) S.net (refNet (S.deg 0) tol (S.kv 0) X) := by
    unfold Shape.mapDir Shape.pdim
    rw [hS.degs]; simp
  rw [hmap] at hS'
  obtain ⟨q1, q2, q3, q4⟩ := refineU_preserves_surface (S.deg 0) (S.deg 1) (S.kv 0) (fnOf (S.kv 1)) (S.size 0) (S.size 1) S.net
    density d tol hS.net hS.netlen hS.dir0 hend h0 hsep hsv
  obtain ⟨_, _, hkv', hp', hn', _⟩ := refine_isocurve (S.deg 0) 0 (S.kv 0) (S.size 0) density tol hS.dir0 hend h0 hsep
    (List.replicate (S.size 0) []) (by simp) (by intro pt hpt; rw [List.eq_of_mem_replicate hpt]; rfl)
  have e_degs : S'.degs = S.degs := by rw [hS']
  have e_kv1 : S'.kv 1 = S.kv 1 := by
    rw [hS']; exact getD_set_ne _ 0 1 _ _ (by omega)
  have e_kv0 : S'.kv 0 = refKv (S.deg 0) tol (S.kv 0) X (S.size 0) := by
    rw [hS']; exact getD_set_self _ 0 _ _ (by rw [hS.kvs]; omega)
  have e_s1 : S'.size 1 = S.size 1 := by
    rw [hS']; exact getD_set_ne _ 0 1 _ _ (by omega)
  have e_s0 : S'.size 0 = S.size 0 + X.length := by
    rw [hS']
    show (S.sizes.set 0 _).getD 0 0 = _
    rw [getD_set_self _ 0 _ _ (by rw [hS.sizes]; omega)]; exact q1
  have e_net : S'.net = (mapSurfU (S.size 0) (S.size 1) S.net (refNet (S.deg 0) tol (S.kv 0) X)).1 := by rw [hS']
  have e_deg : ∀ i, S'.deg i = S.deg i := by intro i; unfold Shape.deg; rw [e_degs]
  refine ⟨⟨by rw [e_degs]; exact hS.degs, by rw [hS']; simp [hS.kvs], by rw [hS']; simp [hS.sizes], ?_, ?_, ?_, ?_⟩,
    e_degs, e_kv1, e_s1, e_s0, ?_, ?_, ?_⟩
  · rw [e_net, e_s0, e_s1]; exact q2
  · rw [e_net]; exact q3
  · rw [e_deg, e_kv0, e_s0]; exact hkv'
  · rw [e_deg, e_kv1, e_s1]; exact hS.dir1
  · rw [e_deg, e_kv0]; exact hp'
  · rw [e_kv0, e_s0]; exact hn'
  · intro u v hlo hhi hv j
    obtain ⟨a1, a2, _, _⟩ := findSpanLinear_spec (S.deg 1) (fnOf (S.kv 1)) (S.size 1) v hS.dir1.pn hS.dir1.mono hv
    have := q4 (findSpanLinear (S.deg 1) (fnOf (S.kv 1)) (S.size 1) v) a1 a2 u v hlo hhi j
    unfold surfEval surfacePoint
    rw [e_deg, e_deg, e_kv0, e_kv1, e_s0, e_s1, e_net]
    exact this

end Geomdl
