import NurbsVerif.Lemmas.A51Loops2
import NurbsVerif.Model.InsertRowsA51

/-!
  A5.1 as coded against the index-by-index model, part 4: the LIST-OF-ROWS branch.

  The rows branch is the point branch over "points" that are rows: element = row `List (List K)`, blend =
  `for idx in range(len(temp[i])): temp[i][idx][:] = [alpha * e2 + (1 - alpha) * e1 …]`.  The inner loop over
  the points of a row is itself an in-place sweep whose pass `idx` reads slot `idx` of the current row only, so
  it is the parallel `rowZip` of the index model (`rowLoop_eq`, by `foldl_set_range_dep` again).  With that
  the literal transcription `knotInsertionRowsA51` is the generic loops `gA51` and `knotInsertionRows` is the
  generic index form `gModel` (by unfolding; `rowGet` is `ptsGet` at element type "point"), and the generic
  theorem `gA51_eq` gives `knotInsertionRowsA51 = knotInsertionRows` under the guard of the point branch.
  No algebra is used, nothing is assumed about the rows (ragged rows: both sides pad alike).
-/
namespace Geomdl
namespace A51L
section
variable {K : Type} [Add K] [Sub K] [Mul K] [Div K] [One K]

/-- the blend of the rows branch, in the parallel form of the index model -/
def rowBlend (U : Nat → K) (u : K) (k : Nat) (i L : Nat) (a b : List (List K)) : List (List K) :=
  rowZip (fun e1 e2 => insAlpha U u k i L * e2 + (1 - insAlpha U u k i L) * e1) a b

omit [Div K] in
/-- `for idx in range(len(a)): a[idx][:] = […zip(a[idx], b[idx])]`, run sequentially on the row `a`, is `rowZip` -/
theorem rowLoop_eq (alpha : K) (a b : List (List K)) :
    (List.range a.length).foldl (a51RowPoint alpha b) a
      = rowZip (fun e1 e2 => alpha * e2 + (1 - alpha) * e1) a b := by
  have h := foldl_set_range_dep
    (fun (row : List (List K)) idx =>
      List.zipWith (fun e1 e2 => alpha * e2 + (1 - alpha) * e1) (ptsGet row idx) (ptsGet b idx)) a
    (by
      intro m t' h
      simp only [ptsGet, List.getD_eq_getElem?_getD]
      rw [h m (Nat.le_refl m)]) a.length (Nat.le_refl _)
  unfold rowZip
  rw [List.drop_length, List.append_nil] at h
  exact h

theorem a51InnerRows_eq (U : Nat → K) (u : K) (k L : Nat) :
    a51InnerRows U u k L = gInner (rowBlend U u k) L := by
  funext temp i
  unfold a51InnerRows gInner rowBlend
  simp only []
  rw [rowLoop_eq]
  rfl

theorem a51OuterRows_eq (p : Nat) (U : Nat → K) (u : K) (num s k : Nat) :
    a51OuterRows p U u num s k = gOuter (rowBlend U u k) p num s k := by
  funext st j
  unfold a51OuterRows gOuter
  simp only [a51InnerRows_eq]
  rfl

theorem knotInsertionRowsA51_eq_gA51 (p : Nat) (U : Nat → K) (R : List (List (List K))) (u : K) (r s k : Nat) :
    knotInsertionRowsA51 p U R u r s k = gA51 (rowBlend U u k) p R r s k := by
  unfold knotInsertionRowsA51 gA51
  simp only [a51OuterRows_eq]
  rfl

theorem insTempStepRows_eq (U : Nat → K) (u : K) (k p s j : Nat) (t : List (List (List K))) :
    insTempStepRows U u k p s j t = gStep (rowBlend U u k) k p s j t := rfl

theorem insTempAtRows_eq (U : Nat → K) (u : K) (R : List (List (List K))) (k p s : Nat) :
    ∀ j, insTempAtRows U u R k p s j = gTempAt (rowBlend U u k) R k p s j
  | 0 => rfl
  | j+1 => by
    show insTempStepRows U u k p s (j+1) (insTempAtRows U u R k p s j)
      = gStep (rowBlend U u k) k p s (j+1) (gTempAt _ R k p s j)
    rw [insTempAtRows_eq U u R k p s j, insTempStepRows_eq]

theorem knotInsertionRows_eq_gModel (p : Nat) (U : Nat → K) (R : List (List (List K))) (u : K) (r s k : Nat) :
    knotInsertionRows p U R u r s k = gModel (rowBlend U u k) p R r s k := by
  unfold knotInsertionRows gModel
  apply List.map_congr_left
  intro i _
  unfold insIdx
  simp only [insTempAtRows_eq]
  rfl

/-- **A5.1 as coded on a list of rows = the index-by-index model of the rows branch** under the guard `p ≤ k`,
    `num + s ≤ p` (no negative index) -/
theorem knotInsertionRowsA51_eq (p : Nat) (U : Nat → K) (R : List (List (List K))) (u : K) (r s k : Nat)
    (hpk : p ≤ k) (hrs : r + s ≤ p) :
    knotInsertionRowsA51 p U R u r s k = knotInsertionRows p U R u r s k := by
  rw [knotInsertionRowsA51_eq_gA51, knotInsertionRows_eq_gModel]
  exact gA51_eq _ p R r s k hpk hrs

end
end A51L
end Geomdl
