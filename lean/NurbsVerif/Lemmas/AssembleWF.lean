import NurbsVerif.Lemmas.AssembleSpan
import NurbsVerif.Lemmas.RefineShape

/-!
  Assembly: the well-formedness records used at object level (`CurveWF`, `KvWF`, `SurfWF`) give the
  knot-function hypotheses (`KnotsOk`) of the assembled theorems.
-/
namespace Geomdl
set_option linter.unusedSectionVars false
variable {K : Type} [Field K] [LinearOrder K] [IsStrictOrderedRing K]

theorem KvWF.knotsOk {p : ℕ} {U : List K} {n : ℕ} (h : KvWF p U n) : KnotsOk p (fnOf U) n :=
  ⟨h.mono, h.pn, h.last⟩

theorem CurveWF.knotsOk {p d : ℕ} {Ul : List K} {P : List (List K)} (h : CurveWF p d Ul P) :
    KnotsOk p (fnOf Ul) P.length :=
  ⟨h.mono, h.pn, h.last⟩

end Geomdl
