import NurbsVerif.Lemmas.AffineMaps
import NurbsVerif.Lemmas.AssemblePoint
import NurbsVerif.Lemmas.AssembleEnds

/-!
  C10, assembly part 1: the affine-invariance theorems of `AffineShapes` (given span) lifted through
  the library's span search.  The knot functions are not touched by a transformation of the control
  net and `(P.map g).length = P.length`, so `curvePoint` / `surfacePoint` / `volumePoint` find the same
  spans for the mapped net; on the closed domain of a well-formed knot function (`KnotsOk`) these spans
  satisfy the hypotheses of the span-level theorems (`findSpanLinear_dom`).
-/
namespace Geomdl
open Blossom Finset
variable {K : Type} [Field K] [LinearOrder K] [IsStrictOrderedRing K]

/-! ### curves -/

theorem curvePoint_map_affine (p : ℕ) (U : ℕ → K) (P : List (List K)) (u : K) (d : ℕ)
    (hU : KnotsOk p U P.length) (hP : NetOk d P) (h1 : U p ≤ u) (h2 : u ≤ U P.length)
    (f : List K → List K) (A : ℕ → ℕ → K) (b : ℕ → K) (hf : AffOn d f A b) :
    curvePoint p U (P.map f) u = f (curvePoint p U P u) := by
  obtain ⟨hs, hp, hk⟩ := findSpanLinear_dom hU u h1 h2
  unfold curvePoint
  rw [List.length_map]
  exact curvePointAt_map_affine p U P _ u d hs hp hk hP f A b hf

theorem curvePoint_map_affine_rat (p : ℕ) (U : ℕ → K) (P : List (List K)) (u : K) (d : ℕ)
    (hU : KnotsOk p U P.length) (hP : NetOk (d+1) P) (h1 : U p ≤ u) (h2 : u ≤ U P.length)
    (hwt : ∀ pt ∈ P, 0 < pt.getD d 0)
    (f : List K → List K) (A : ℕ → ℕ → K) (b : ℕ → K) (hf : AffOn d f A b) :
    (curvePoint p U (P.map (onCartesian true f)) u).getD d 0 = (curvePoint p U P u).getD d 0 ∧
    0 < (curvePoint p U P u).getD d 0 ∧
    project (curvePoint p U (P.map (onCartesian true f)) u) = f (project (curvePoint p U P u)) := by
  obtain ⟨hs, hp, hk⟩ := findSpanLinear_dom hU u h1 h2
  unfold curvePoint
  rw [List.length_map]
  exact curvePointAt_map_affine_rat p U P _ u d hs hp hk hP (fun i hi => hwt _ (ptsGet_mem P i hi)) f A b hf

/-! ### surfaces -/

theorem surfacePoint_map_affine (pu pv : ℕ) (Uu Uv : ℕ → K) (su sv : ℕ) (P : List (List K)) (u v : K) (d : ℕ)
    (hUu : KnotsOk pu Uu su) (hUv : KnotsOk pv Uv sv) (hlen : P.length = su * sv) (hP : NetOk d P)
    (hu1 : Uu pu ≤ u) (hu2 : u ≤ Uu su) (hv1 : Uv pv ≤ v) (hv2 : v ≤ Uv sv)
    (f : List K → List K) (A : ℕ → ℕ → K) (b : ℕ → K) (hf : AffOn d f A b) :
    surfacePoint pu pv Uu Uv su sv (P.map f) u v = f (surfacePoint pu pv Uu Uv su sv P u v) := by
  obtain ⟨a1, a2, a3⟩ := findSpanLinear_dom hUu u hu1 hu2
  obtain ⟨b1, b2, b3⟩ := findSpanLinear_dom hUv v hv1 hv2
  exact surfacePointAt_map_affine pu pv Uu Uv su sv P _ _ u v d a1 b1 a2 b2 a3 b3 hlen hP f A b hf

theorem surfacePoint_map_affine_rat (pu pv : ℕ) (Uu Uv : ℕ → K) (su sv : ℕ) (P : List (List K)) (u v : K) (d : ℕ)
    (hUu : KnotsOk pu Uu su) (hUv : KnotsOk pv Uv sv) (hlen : P.length = su * sv) (hP : NetOk (d+1) P)
    (hu1 : Uu pu ≤ u) (hu2 : u ≤ Uu su) (hv1 : Uv pv ≤ v) (hv2 : v ≤ Uv sv)
    (hwt : ∀ pt ∈ P, 0 < pt.getD d 0)
    (f : List K → List K) (A : ℕ → ℕ → K) (b : ℕ → K) (hf : AffOn d f A b) :
    (surfacePoint pu pv Uu Uv su sv (P.map (onCartesian true f)) u v).getD d 0
      = (surfacePoint pu pv Uu Uv su sv P u v).getD d 0 ∧
    0 < (surfacePoint pu pv Uu Uv su sv P u v).getD d 0 ∧
    project (surfacePoint pu pv Uu Uv su sv (P.map (onCartesian true f)) u v)
      = f (project (surfacePoint pu pv Uu Uv su sv P u v)) := by
  obtain ⟨a1, a2, a3⟩ := findSpanLinear_dom hUu u hu1 hu2
  obtain ⟨b1, b2, b3⟩ := findSpanLinear_dom hUv v hv1 hv2
  exact surfacePointAt_map_affine_rat pu pv Uu Uv su sv P _ _ u v d a1 b1 a2 b2 a3 b3 hlen hP
    (fun i hi => hwt _ (ptsGet_mem P i hi)) f A b hf

/-! ### volumes -/

theorem volumePoint_map_affine (pu pv pw : ℕ) (Uu Uv Uw : ℕ → K) (su sv sw : ℕ) (P : List (List K)) (u v w : K) (d : ℕ)
    (hUu : KnotsOk pu Uu su) (hUv : KnotsOk pv Uv sv) (hUw : KnotsOk pw Uw sw)
    (hlen : P.length = su * sv * sw) (hP : NetOk d P)
    (hu1 : Uu pu ≤ u) (hu2 : u ≤ Uu su) (hv1 : Uv pv ≤ v) (hv2 : v ≤ Uv sv) (hw1 : Uw pw ≤ w) (hw2 : w ≤ Uw sw)
    (f : List K → List K) (A : ℕ → ℕ → K) (b : ℕ → K) (hf : AffOn d f A b) :
    volumePoint pu pv pw Uu Uv Uw su sv sw (P.map f) u v w = f (volumePoint pu pv pw Uu Uv Uw su sv sw P u v w) := by
  obtain ⟨a1, a2, a3⟩ := findSpanLinear_dom hUu u hu1 hu2
  obtain ⟨b1, b2, b3⟩ := findSpanLinear_dom hUv v hv1 hv2
  obtain ⟨c1, c2, c3⟩ := findSpanLinear_dom hUw w hw1 hw2
  exact volumePointAt_map_affine pu pv pw Uu Uv Uw su sv sw P _ _ _ u v w d a1 b1 c1 a2 b2 c2 a3 b3 c3 hlen hP f A b hf

theorem volumePoint_map_affine_rat (pu pv pw : ℕ) (Uu Uv Uw : ℕ → K) (su sv sw : ℕ) (P : List (List K)) (u v w : K) (d : ℕ)
    (hUu : KnotsOk pu Uu su) (hUv : KnotsOk pv Uv sv) (hUw : KnotsOk pw Uw sw)
    (hlen : P.length = su * sv * sw) (hP : NetOk (d+1) P)
    (hu1 : Uu pu ≤ u) (hu2 : u ≤ Uu su) (hv1 : Uv pv ≤ v) (hv2 : v ≤ Uv sv) (hw1 : Uw pw ≤ w) (hw2 : w ≤ Uw sw)
    (hwt : ∀ pt ∈ P, 0 < pt.getD d 0)
    (f : List K → List K) (A : ℕ → ℕ → K) (b : ℕ → K) (hf : AffOn d f A b) :
    (volumePoint pu pv pw Uu Uv Uw su sv sw (P.map (onCartesian true f)) u v w).getD d 0
      = (volumePoint pu pv pw Uu Uv Uw su sv sw P u v w).getD d 0 ∧
    0 < (volumePoint pu pv pw Uu Uv Uw su sv sw P u v w).getD d 0 ∧
    project (volumePoint pu pv pw Uu Uv Uw su sv sw (P.map (onCartesian true f)) u v w)
      = f (project (volumePoint pu pv pw Uu Uv Uw su sv sw P u v w)) := by
  obtain ⟨a1, a2, a3⟩ := findSpanLinear_dom hUu u hu1 hu2
  obtain ⟨b1, b2, b3⟩ := findSpanLinear_dom hUv v hv1 hv2
  obtain ⟨c1, c2, c3⟩ := findSpanLinear_dom hUw w hw1 hw2
  exact volumePointAt_map_affine_rat pu pv pw Uu Uv Uw su sv sw P _ _ _ u v w d a1 b1 c1 a2 b2 c2 a3 b3 c3 hlen hP
    (fun i hi => hwt _ (ptsGet_mem P i hi)) f A b hf

end Geomdl
