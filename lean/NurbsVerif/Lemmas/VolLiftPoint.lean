import NurbsVerif.Lemmas.VolLiftInsert

/-! Knot insertion on volumes as a statement about `volumePoint` (spans found by the library's own
    linear search before and after the insertion), for each of the three directions. -/
namespace Geomdl
open Blossom Finset
variable {K : Type} [Field K] [LinearOrder K] [IsStrictOrderedRing K]

/-- u direction, for EVERY parameter triple of the domain (both ends included) -/
theorem insertU_preserves_volume (pu pv pw : ℕ) (Uul : List K) (Uv Uw : ℕ → K) (su sv sw : ℕ) (P : List (List K))
    (ub u v w : K) (r s d j : ℕ) (hP : NetOk d P) (hlenP : P.length = su * sv * sw)
    (hm : Monotone (fnOf Uul)) (hlen : Uul.length = su + pu + 1) (hpn : pu + 1 ≤ su)
    (hub1 : fnOf Uul pu ≤ ub) (hub2 : ub < fnOf Uul su)
    (hmult : ∀ x, findSpanLinear pu (fnOf Uul) su ub - s < x → x ≤ findSpanLinear pu (fnOf Uul) su ub → fnOf Uul x = ub)
    (hr1 : 1 ≤ r) (hrs : r + s ≤ pu)
    (hlo : fnOf Uul pu ≤ u) (hhi : u ≤ fnOf Uul su) (hlast : fnOf Uul (su - 1) < fnOf Uul su)
    (hmv : Monotone Uv) (hpnv : pv + 1 ≤ sv) (hlov : Uv pv ≤ v)
    (hmw : Monotone Uw) (hpnw : pw + 1 ≤ sw) (hlow : Uw pw ≤ w) :
    (volumePoint pu pv pw (fnOf (knotInsertionKv Uul ub (findSpanLinear pu (fnOf Uul) su ub) r)) Uv Uw (su + r) sv sw
        (mapVol 0 su sv sw P (fun c => knotInsertion pu (fnOf Uul) c ub r s (findSpanLinear pu (fnOf Uul) su ub))).1 u v w).getD j 0
      = (volumePoint pu pv pw (fnOf Uul) Uv Uw su sv sw P u v w).getD j 0 := by
  set k := findSpanLinear pu (fnOf Uul) su ub with hk
  obtain ⟨k1, k2, k3, k4⟩ := findSpanLinear_spec pu (fnOf Uul) su ub hpn hm hub1
  change pu ≤ k at k1; change k < su at k2; change fnOf Uul k ≤ ub at k3
  have hk2 : ub < fnOf Uul (k+1) := by
    rcases k4 with h | h
    · exact h
    · change k + 1 = su at h; rw [h]; exact hub2
  have hkv := fnOf_knotInsertionKv Uul ub k r (by omega)
  obtain ⟨c1, c2, c3, c4, c5⟩ := span_after_insertion pu (fnOf Uul) su k r ub u hm hpn k1 k2 hr1 k3 hk2 hlo hhi hlast
  obtain ⟨v1, v2, _, _⟩ := findSpanLinear_spec pv Uv sv v hpnv hmv hlov
  obtain ⟨w1, w2, _, _⟩ := findSpanLinear_spec pw Uw sw w hpnw hmw hlow
  unfold volumePoint
  rw [hkv]
  have := insertU_preserves_volume_point pu pv pw Uul Uv Uw su sv sw P ub u v w r s k
    (findSpanLinear pv Uv sv v) (findSpanLinear pw Uw sw w)
    (findSpanLinear pu (fnOf Uul) su u) (findSpanLinear pu (Uh k r ub (fnOf Uul)) (su + r) u)
    d j hP hlenP hm (by omega) k3 hk2 hmult c1 (by rw [hkv]; exact c2) hr1 hrs k1 k2 c3 c4 v1 v2 w1 w2 c5
  rw [hkv] at this
  exact this

/-- v direction -/
theorem insertV_preserves_volume (pu pv pw : ℕ) (Uu : ℕ → K) (Uvl : List K) (Uw : ℕ → K) (su sv sw : ℕ) (P : List (List K))
    (ub u v w : K) (r s d j : ℕ) (hP : NetOk d P) (hlenP : P.length = su * sv * sw)
    (hm : Monotone (fnOf Uvl)) (hlen : Uvl.length = sv + pv + 1) (hpn : pv + 1 ≤ sv)
    (hub1 : fnOf Uvl pv ≤ ub) (hub2 : ub < fnOf Uvl sv)
    (hmult : ∀ x, findSpanLinear pv (fnOf Uvl) sv ub - s < x → x ≤ findSpanLinear pv (fnOf Uvl) sv ub → fnOf Uvl x = ub)
    (hr1 : 1 ≤ r) (hrs : r + s ≤ pv)
    (hlo : fnOf Uvl pv ≤ v) (hhi : v ≤ fnOf Uvl sv) (hlast : fnOf Uvl (sv - 1) < fnOf Uvl sv)
    (hmu : Monotone Uu) (hpnu : pu + 1 ≤ su) (hlou : Uu pu ≤ u)
    (hmw : Monotone Uw) (hpnw : pw + 1 ≤ sw) (hlow : Uw pw ≤ w) :
    (volumePoint pu pv pw Uu (fnOf (knotInsertionKv Uvl ub (findSpanLinear pv (fnOf Uvl) sv ub) r)) Uw su (sv + r) sw
        (mapVol 1 su sv sw P (fun c => knotInsertion pv (fnOf Uvl) c ub r s (findSpanLinear pv (fnOf Uvl) sv ub))).1 u v w).getD j 0
      = (volumePoint pu pv pw Uu (fnOf Uvl) Uw su sv sw P u v w).getD j 0 := by
  set k := findSpanLinear pv (fnOf Uvl) sv ub with hk
  obtain ⟨k1, k2, k3, k4⟩ := findSpanLinear_spec pv (fnOf Uvl) sv ub hpn hm hub1
  change pv ≤ k at k1; change k < sv at k2; change fnOf Uvl k ≤ ub at k3
  have hk2 : ub < fnOf Uvl (k+1) := by
    rcases k4 with h | h
    · exact h
    · change k + 1 = sv at h; rw [h]; exact hub2
  have hkv := fnOf_knotInsertionKv Uvl ub k r (by omega)
  obtain ⟨c1, c2, c3, c4, c5⟩ := span_after_insertion pv (fnOf Uvl) sv k r ub v hm hpn k1 k2 hr1 k3 hk2 hlo hhi hlast
  obtain ⟨u1, u2, _, _⟩ := findSpanLinear_spec pu Uu su u hpnu hmu hlou
  obtain ⟨w1, w2, _, _⟩ := findSpanLinear_spec pw Uw sw w hpnw hmw hlow
  unfold volumePoint
  rw [hkv]
  have := insertV_preserves_volume_point pu pv pw Uu Uvl Uw su sv sw P ub u v w r s k
    (findSpanLinear pu Uu su u) (findSpanLinear pw Uw sw w)
    (findSpanLinear pv (fnOf Uvl) sv v) (findSpanLinear pv (Uh k r ub (fnOf Uvl)) (sv + r) v)
    d j hP hlenP hm (by omega) k3 hk2 hmult c1 (by rw [hkv]; exact c2) hr1 hrs k1 k2 c3 c4 u1 u2 w1 w2 c5
  rw [hkv] at this
  exact this

/-- w direction -/
theorem insertW_preserves_volume (pu pv pw : ℕ) (Uu Uv : ℕ → K) (Uwl : List K) (su sv sw : ℕ) (P : List (List K))
    (ub u v w : K) (r s d j : ℕ) (hP : NetOk d P) (hlenP : P.length = su * sv * sw)
    (hm : Monotone (fnOf Uwl)) (hlen : Uwl.length = sw + pw + 1) (hpn : pw + 1 ≤ sw)
    (hub1 : fnOf Uwl pw ≤ ub) (hub2 : ub < fnOf Uwl sw)
    (hmult : ∀ x, findSpanLinear pw (fnOf Uwl) sw ub - s < x → x ≤ findSpanLinear pw (fnOf Uwl) sw ub → fnOf Uwl x = ub)
    (hr1 : 1 ≤ r) (hrs : r + s ≤ pw)
    (hlo : fnOf Uwl pw ≤ w) (hhi : w ≤ fnOf Uwl sw) (hlast : fnOf Uwl (sw - 1) < fnOf Uwl sw)
    (hmu : Monotone Uu) (hpnu : pu + 1 ≤ su) (hlou : Uu pu ≤ u)
    (hmv : Monotone Uv) (hpnv : pv + 1 ≤ sv) (hlov : Uv pv ≤ v) :
    (volumePoint pu pv pw Uu Uv (fnOf (knotInsertionKv Uwl ub (findSpanLinear pw (fnOf Uwl) sw ub) r)) su sv (sw + r)
        (mapVol 2 su sv sw P (fun c => knotInsertion pw (fnOf Uwl) c ub r s (findSpanLinear pw (fnOf Uwl) sw ub))).1 u v w).getD j 0
      = (volumePoint pu pv pw Uu Uv (fnOf Uwl) su sv sw P u v w).getD j 0 := by
  set k := findSpanLinear pw (fnOf Uwl) sw ub with hk
  obtain ⟨k1, k2, k3, k4⟩ := findSpanLinear_spec pw (fnOf Uwl) sw ub hpn hm hub1
  change pw ≤ k at k1; change k < sw at k2; change fnOf Uwl k ≤ ub at k3
  have hk2 : ub < fnOf Uwl (k+1) := by
    rcases k4 with h | h
    · exact h
    · change k + 1 = sw at h; rw [h]; exact hub2
  have hkv := fnOf_knotInsertionKv Uwl ub k r (by omega)
  obtain ⟨c1, c2, c3, c4, c5⟩ := span_after_insertion pw (fnOf Uwl) sw k r ub w hm hpn k1 k2 hr1 k3 hk2 hlo hhi hlast
  obtain ⟨u1, u2, _, _⟩ := findSpanLinear_spec pu Uu su u hpnu hmu hlou
  obtain ⟨v1, v2, _, _⟩ := findSpanLinear_spec pv Uv sv v hpnv hmv hlov
  unfold volumePoint
  rw [hkv]
  have := insertW_preserves_volume_point pu pv pw Uu Uv Uwl su sv sw P ub u v w r s k
    (findSpanLinear pu Uu su u) (findSpanLinear pv Uv sv v)
    (findSpanLinear pw (fnOf Uwl) sw w) (findSpanLinear pw (Uh k r ub (fnOf Uwl)) (sw + r) w)
    d j hP hlenP hm (by omega) k3 hk2 hmult c1 (by rw [hkv]; exact c2) hr1 hrs k1 k2 c3 c4 u1 u2 v1 v2 c5
  rw [hkv] at this
  exact this

end Geomdl
