import NurbsVerif.Lemmas.RemoveMultiLin
import NurbsVerif.Lemmas.RemoveObjFold

/-!
  C06 / C04, several directions in one call, part 2 (surfaces): the gather / scatter of `operations.insert_knot`
  along u and the one along v commute (`mapSurf_comm`: columns through `f`, then rows through `g` = rows through `g`,
  then columns through `f`, for coordinatewise linear `f`, `g`), hence the two direction steps of `insert_knot`
  commute as objects (`surface_insDir_comm`).
-/
namespace Geomdl
namespace Multi
open Blossom Finset
set_option linter.unusedSectionVars false
variable {K : Type} [Field K] [LinearOrder K] [IsStrictOrderedRing K]

/-- **u-step then v-step = v-step then u-step on a surface net** -/
theorem mapSurf_comm (d su su' sv sv' : ℕ) (P : List (List K)) (f g : List (List K) → List (List K))
    (hf : CoordLin d su su' f) (hg : CoordLin d sv sv' g) (hP : NetOk d P) (hlen : P.length = su * sv)
    (hsu : 0 < su) (hsv : 0 < sv) (hsu' : 0 < su') (hsv' : 0 < sv') :
    (mapSurfU su sv P f).2 = su' ∧ (mapSurfV su sv P g).2 = sv' ∧
    mapSurfV su' sv (mapSurfU su sv P f).1 g = ((mapSurfU su sv' (mapSurfV su sv P g).1 f).1, sv') ∧
    mapSurfU su sv' (mapSurfV su sv P g).1 f = ((mapSurfU su sv' (mapSurfV su sv P g).1 f).1, su') := by
  have hcl : ∀ (N : List (List K)) (a b : ℕ), (colOf a b N 0).length = a := fun N a b => by simp [colOf]
  obtain ⟨a1, a2, a3, a4⟩ := mapSurfU_gen su sv d su' P f hsv (fun y hy =>
    ⟨hf.len _ (by simp [colOf]) (colOf_netOk su sv d P hP hlen y hy), hf.net _ (by simp [colOf]) (colOf_netOk su sv d P hP hlen y hy)⟩)
  have a2' : (mapSurfU su sv P f).1.length = su' * sv := a2
  obtain ⟨b1, b2, b3, b4⟩ := mapSurfV_gen su' sv d sv' (mapSurfU su sv P f).1 g hsu' (fun x hx =>
    ⟨hg.len _ (by simp [rowOf]) (rowOf_netOk su' sv d _ a3 a2' x hx), hg.net _ (by simp [rowOf]) (rowOf_netOk su' sv d _ a3 a2' x hx)⟩)
  obtain ⟨c1, c2, c3, c4⟩ := mapSurfV_gen su sv d sv' P g hsu (fun x hx =>
    ⟨hg.len _ (by simp [rowOf]) (rowOf_netOk su sv d P hP hlen x hx), hg.net _ (by simp [rowOf]) (rowOf_netOk su sv d P hP hlen x hx)⟩)
  obtain ⟨e1, e2, e3, e4⟩ := mapSurfU_gen su sv' d su' (mapSurfV su sv P g).1 f hsv' (fun y hy =>
    ⟨hf.len _ (by simp [colOf]) (colOf_netOk su sv' d _ c3 c2 y hy), hf.net _ (by simp [colOf]) (colOf_netOk su sv' d _ c3 c2 y hy)⟩)
  refine ⟨a1, c1, ?_, Prod.ext rfl e1⟩
  refine Prod.ext ?_ b1
  apply RemInv.net_ext _ _ (by rw [b2, e2])
  intro i hi
  rw [b2] at hi
  have hx : i / sv' < su' := RemInv.div_lt_of_lt_mul' su' sv' i hi
  have hy : i % sv' < sv' := Nat.mod_lt _ hsv'
  rw [RemInv.idx_split sv' i hsv']
  rw [← rowOf_get sv' _ (i / sv') (i % sv') hy, b4 _ hx, ← colOf_get su' sv' _ (i % sv') (i / sv') hx, e4 _ hy]
  have hX : ∀ a b, a < su → b < sv → (ptsGet P (b + sv * a)).length = d := fun a b ha hb =>
    ptsGet_length hP _ (by rw [hlen]; exact flatIdx2_lt ha hb)
  have := lin_comm d su su' sv sv' f g hf hg (fun a b => ptsGet P (b + sv * a)) hX (i / sv') (i % sv') hx hy
  have r1 : rowOf sv (mapSurfU su sv P f).1 (i / sv')
      = (List.range sv).map (fun j => ptsGet (f ((List.range su).map (fun a => ptsGet P (j + sv * a)))) (i / sv')) := by
    unfold rowOf
    apply List.map_congr_left
    intro j hj
    rw [List.mem_range] at hj
    rw [← colOf_get su' sv _ j (i / sv') hx, a4 j hj]
    rfl
  have r2 : colOf su sv' (mapSurfV su sv P g).1 (i % sv')
      = (List.range su).map (fun a => ptsGet (g ((List.range sv).map (fun j => ptsGet P (j + sv * a)))) (i % sv')) := by
    unfold colOf
    apply List.map_congr_left
    intro a ha
    rw [List.mem_range] at ha
    rw [← rowOf_get sv' _ a (i % sv') hy, c4 a ha]
    rfl
  rw [r1, r2]
  exact this

/-! ### two direction steps of a surface object -/

theorem mapDir_surf0 (S : Shape K) (h2 : S.degs.length = 2) (f : List (List K) → List (List K)) :
    S.mapDir 0 f = mapSurfU (S.size 0) (S.size 1) S.net f := by
  unfold Shape.mapDir Shape.pdim; rw [h2]; simp

theorem mapDir_surf1 (S : Shape K) (h2 : S.degs.length = 2) (f : List (List K) → List (List K)) :
    S.mapDir 1 f = mapSurfV (S.size 0) (S.size 1) S.net f := by
  unfold Shape.mapDir Shape.pdim; rw [h2]; simp

/-- two direction steps along different directions commute as objects when their nets and sizes do -/
theorem withDir_comm_of_maps (S : Shape K) (d e : ℕ) (hde : d ≠ e) (Ud Ue : List K) (f g : List (List K) → List (List K))
    (N : List (List K)) (nd ne : ℕ)
    (h1 : (S.withDir d Ud f).mapDir e g = (N, ne)) (h2 : (S.withDir e Ue g).mapDir d f = (N, nd))
    (h3 : (S.mapDir d f).2 = nd) (h4 : (S.mapDir e g).2 = ne) :
    (S.withDir d Ud f).withDir e Ue g = (S.withDir e Ue g).withDir d Ud f := by
  refine Shape.ext' rfl rfl ?_ ?_ ?_
  · show (S.kvs.set d Ud).set e Ue = (S.kvs.set e Ue).set d Ud
    exact List.set_comm _ _ hde
  · show (S.sizes.set d (S.mapDir d f).2).set e ((S.withDir d Ud f).mapDir e g).2
      = (S.sizes.set e (S.mapDir e g).2).set d ((S.withDir e Ue g).mapDir d f).2
    rw [h1, h2, h3, h4]
    exact List.set_comm _ _ hde
  · show ((S.withDir d Ud f).mapDir e g).1 = ((S.withDir e Ue g).mapDir d f).1
    rw [h1, h2]

/-- the insertion step of direction `dir` computed on an object that agrees with `S` in that direction -/
theorem insDirOf_congr (S T : Shape K) (dir : ℕ) (ub : K) (r : ℕ) (tol : K) (hdeg : T.deg dir = S.deg dir)
    (hkv : T.kv dir = S.kv dir) (hsz : T.size dir = S.size dir) :
    insDirOf T dir ub r tol = T.withDir dir (insKvOf S dir ub r) (insFnOf S dir ub r tol) := by
  show T.withDir dir (knotInsertionKv (T.kv dir) ub (findSpanLinear (T.deg dir) (fnOf (T.kv dir)) (T.size dir) ub) r)
    (fun c => knotInsertion (T.deg dir) (fnOf (T.kv dir)) c ub r (findMultiplicity ub (T.kv dir) tol)
      (findSpanLinear (T.deg dir) (fnOf (T.kv dir)) (T.size dir) ub)) = _
  rw [hdeg, hkv, hsz]

/-- the curve map of an admissible insertion request is coordinatewise linear -/
theorem insFnOf_coordLin (d : ℕ) (S : Shape K) (dir : ℕ) (ub : K) (r : ℕ) (tol : K)
    (hkv : KvWF (S.deg dir) (S.kv dir) (S.size dir)) (h : DirReqOk S dir ub r tol) :
    CoordLin d (S.size dir) (S.size dir + r) (insFnOf S dir ub r tol) := by
  obtain ⟨k1, k2, _, _⟩ := findSpanLinear_spec (S.deg dir) (fnOf (S.kv dir)) (S.size dir) ub hkv.pn hkv.mono h.lo
  exact knotInsertion_coordLin (S.deg dir) d (S.size dir) (fnOf (S.kv dir)) ub r _ _ k1 k2 h.rs

/-- **the u step and the v step of `operations.insert_knot` on a surface commute** (both requests admissible on `S`) -/
theorem surface_insDir_comm (d : ℕ) (S : Shape K) (hS : SurfWF d S) (a b : K) (r0 r1 : ℕ) (tol : K)
    (h0 : DirReqOk S 0 a r0 tol) (h1 : DirReqOk S 1 b r1 tol) :
    insDirOf (insDirOf S 0 a r0 tol) 1 b r1 tol = insDirOf (insDirOf S 1 b r1 tol) 0 a r0 tol := by
  have hsu : 0 < S.size 0 := by have := hS.dir0.pn; omega
  have hsv : 0 < S.size 1 := by have := hS.dir1.pn; omega
  have hf := insFnOf_coordLin d S 0 a r0 tol hS.dir0 h0
  have hg := insFnOf_coordLin d S 1 b r1 tol hS.dir1 h1
  obtain ⟨m1, m2, m3, m4⟩ := mapSurf_comm d (S.size 0) (S.size 0 + r0) (S.size 1) (S.size 1 + r1) S.net _ _ hf hg
    hS.net hS.netlen hsu hsv (by omega) (by omega)
  have o0 := (withDir_other S 0 (insKvOf S 0 a r0) (insFnOf S 0 a r0 tol)).2.2 1 (by omega)
  have o1 := (withDir_other S 1 (insKvOf S 1 b r1) (insFnOf S 1 b r1 tol)).2.2 0 (by omega)
  rw [insDirOf_congr S (insDirOf S 0 a r0 tol) 1 b r1 tol rfl o0.1 o0.2,
    insDirOf_congr S (insDirOf S 1 b r1 tol) 0 a r0 tol rfl o1.1 o1.2]
  have hmap0 := mapDir_surf0 S hS.degs (insFnOf S 0 a r0 tol)
  have hmap1 := mapDir_surf1 S hS.degs (insFnOf S 1 b r1 tol)
  apply withDir_comm_of_maps S 0 1 (by omega) _ _ _ _
    (mapSurfU (S.size 0) (S.size 1 + r1) (mapSurfV (S.size 0) (S.size 1) S.net (insFnOf S 1 b r1 tol)).1 (insFnOf S 0 a r0 tol)).1
    (S.size 0 + r0) (S.size 1 + r1)
  · rw [mapDir_surf1 (insDirOf S 0 a r0 tol) hS.degs]
    have e0 : (insDirOf S 0 a r0 tol).size 0 = S.size 0 + r0 := by
      show (S.sizes.set 0 _).getD 0 0 = _
      rw [getD_set_self _ 0 _ _ (by rw [hS.sizes]; omega), hmap0, m1]
    have en : (insDirOf S 0 a r0 tol).net = (mapSurfU (S.size 0) (S.size 1) S.net (insFnOf S 0 a r0 tol)).1 := by
      show (S.mapDir 0 _).1 = _; rw [hmap0]
    rw [e0, o0.2, en]
    exact m3
  · rw [mapDir_surf0 (insDirOf S 1 b r1 tol) hS.degs]
    have e1 : (insDirOf S 1 b r1 tol).size 1 = S.size 1 + r1 := by
      show (S.sizes.set 1 _).getD 1 0 = _
      rw [getD_set_self _ 1 _ _ (by rw [hS.sizes]; omega), hmap1, m2]
    have en : (insDirOf S 1 b r1 tol).net = (mapSurfV (S.size 0) (S.size 1) S.net (insFnOf S 1 b r1 tol)).1 := by
      show (S.mapDir 1 _).1 = _; rw [hmap1]
    rw [e1, o1.2, en]
    exact m4
  · rw [hmap0]; exact m1
  · rw [hmap1]; exact m2

end Multi
end Geomdl
