import NurbsVerif.Lemmas.SpanRDers
import NurbsVerif.Lemmas.SurfLoopsA38
import NurbsVerif.Lemmas.SurfLoopsTrue

/-!
  A3.7 + A3.8 as coded (`SurfaceEvaluator2.derivatives`, model `surfaceDersA38`) on the span pair the REPAIRED linear
  search finds (`surfaceDersA38R`, `Model/SpanRGrid.lean`): on the whole closed domain of every sorted knot functions with
  `U p < U n` per direction (`DomOk`: the last domain span may be empty) the table is the triangular tensor-formula table
  `surfaceDersR … true`, its entries `k + l ≤ order` are the true mixed partial derivatives of the span polynomial of the
  span pair found, and the other entries are zero vectors; under `KnotsOk` it is the table of the search without step back.
-/
set_option linter.unusedSectionVars false

namespace Geomdl
open Blossom Polynomial Finset
open scoped Polynomial.Bivariate
variable {K : Type} [Field K] [LinearOrder K] [IsStrictOrderedRing K]

theorem surfaceDersA38R_eq_surfaceDersR (pu pv d : ℕ) (Uu Uv : ℕ → K) (su sv : ℕ) (P : List (List K))
    (hUu : DomOk pu Uu su) (hUv : DomOk pv Uv sv) (hlen : P.length = su * sv) (hP : NetOk d P) (u v : K)
    (hu1 : Uu pu ≤ u) (hu2 : u ≤ Uu su) (hv1 : Uv pv ≤ v) (hv2 : v ≤ Uv sv) (order : ℕ) :
    surfaceDersA38R pu pv Uu Uv su sv P u v order = surfaceDersR pu pv Uu Uv su sv P u v order true := by
  obtain ⟨hsu, hpu, hku⟩ := findSpanLinearR_ok hUu u hu1 hu2
  obtain ⟨hsv, hpv, hkv⟩ := findSpanLinearR_ok hUv v hv1 hv2
  exact surfaceDersA38_eq pu pv Uu Uv su sv P _ _ u v d order hpu hpv hku hkv hlen hP hUu.mono hUv.mono
    hsu.nonempty hsv.nonempty

theorem surfaceDersA38R_true (pu pv d : ℕ) (Uu Uv : ℕ → K) (su sv : ℕ) (P : List (List K))
    (hUu : DomOk pu Uu su) (hUv : DomOk pv Uv sv) (hlen : P.length = su * sv) (hP : NetOk d P) (u v : K)
    (hu1 : Uu pu ≤ u) (hu2 : u ≤ Uu su) (hv1 : Uv pv ≤ v) (hv2 : v ≤ Uv sv) (order k l j : ℕ)
    (hkl : k + l ≤ order) :
    (((surfaceDersA38R pu pv Uu Uv su sv P u v order).getD k []).getD l []).getD j 0
      = (pderivU^[k] (pderivV^[l] (surfSpanPoly pu pv Uu Uv sv P (findSpanLinearR pu Uu su u)
          (findSpanLinearR pv Uv sv v) j))).evalEval u v := by
  obtain ⟨hsu, hpu, hku⟩ := findSpanLinearR_ok hUu u hu1 hu2
  obtain ⟨hsv, hpv, hkv⟩ := findSpanLinearR_ok hUv v hv1 hv2
  exact surfaceDersA38_true pu pv Uu Uv su sv P _ _ u v d j order k l hpu hpv hku hkv hlen hP hUu.mono hUv.mono
    hsu.nonempty hsv.nonempty hkl

theorem surfaceDersA38R_rest_zero (pu pv d : ℕ) (Uu Uv : ℕ → K) (su sv : ℕ) (P : List (List K))
    (hUu : DomOk pu Uu su) (hUv : DomOk pv Uv sv) (hlen : P.length = su * sv) (hP : NetOk d P) (u v : K)
    (hu1 : Uu pu ≤ u) (hu2 : u ≤ Uu su) (hv1 : Uv pv ≤ v) (hv2 : v ≤ Uv sv) (order k l : ℕ)
    (hk : k ≤ order) (hl : l ≤ order) (hkl : order < k + l) :
    ((surfaceDersA38R pu pv Uu Uv su sv P u v order).getD k []).getD l [] = vzero (dimOf P) := by
  obtain ⟨hsu, hpu, hku⟩ := findSpanLinearR_ok hUu u hu1 hu2
  obtain ⟨hsv, hpv, hkv⟩ := findSpanLinearR_ok hUv v hv1 hv2
  exact surfaceDersA38_rest_zero pu pv Uu Uv su sv P _ _ u v d order k l hpu hpv hku hkv hlen hP hUu.mono hUv.mono
    hsu.nonempty hsv.nonempty hk hl hkl

theorem surfaceDersA38R_eq (pu pv : ℕ) (Uu Uv : ℕ → K) (su sv : ℕ) (P : List (List K)) (u v : K) (order : ℕ)
    (hUu : KnotsOk pu Uu su) (hUv : KnotsOk pv Uv sv)
    (hu1 : Uu pu ≤ u) (hu2 : u ≤ Uu su) (hv1 : Uv pv ≤ v) (hv2 : v ≤ Uv sv) :
    surfaceDersA38R pu pv Uu Uv su sv P u v order
      = surfaceDersA38 pu pv Uu Uv su sv P (findSpanLinear pu Uu su u) (findSpanLinear pv Uv sv v) u v order := by
  unfold surfaceDersA38R
  rw [findSpanLinearR_eq_of_knotsOk hUu u hu1 hu2, findSpanLinearR_eq_of_knotsOk hUv v hv1 hv2]

end Geomdl
