import NurbsVerif.Lemmas.SurfLoopsA37
import NurbsVerif.Lemmas.SurfLoopsMath
import NurbsVerif.Lemmas.SurfDeriv

/-! A3.7 as coded: the value of every entry of `PKL` that is assigned – its length and its coordinates as
    iterated scaled differences of the net, first in `u`, then in `v`. -/
namespace Geomdl
open Blossom Finset
variable {K : Type} [Field K] [LinearOrder K] [IsStrictOrderedRing K]

/-- the length of a difference vector needs the lengths of the points on its window only -/
theorem vIter_length_loc (p : ℕ) (U : ℕ → K) (P : List (List K)) (d : ℕ) : ∀ (k m : ℕ),
    (∀ x, m - k ≤ x → x ≤ m → (ptsGet P x).length = d) → (vIter p U P k m).length = d := by
  intro k
  induction k with
  | zero => intro m h; exact h m (by omega) (le_refl _)
  | succ k ih =>
    intro m h
    simp only [vIter, List.length_zipWith]
    rw [ih m (fun x h1 h2 => h x (by omega) h2), ih (m-1) (fun x h1 h2 => h x (by omega) (by omega))]
    simp

theorem vIter_coord_loc (p : ℕ) (U : ℕ → K) (P : List (List K)) (d c : ℕ) : ∀ (k m : ℕ),
    (∀ x, m - k ≤ x → x ≤ m → (ptsGet P x).length = d) →
    (vIter p U P k m).getD c 0 = dIter U p k (fun i => (ptsGet P i).getD c 0) m := by
  intro k
  induction k with
  | zero => intro m _; rfl
  | succ k ih =>
    intro m h
    have h1 : ∀ x, m - k ≤ x → x ≤ m → (ptsGet P x).length = d := fun x a b => h x (by omega) b
    have h2 : ∀ x, m - 1 - k ≤ x → x ≤ m - 1 → (ptsGet P x).length = d := fun x a b => h x (by omega) (by omega)
    simp only [vIter, dIter, dscal]
    rw [zipWith_getD_gen _ (by simp) _ _ c (by
      rw [vIter_length_loc p U P d k m h1, vIter_length_loc p U P d k (m-1) h2])]
    rw [ih m h1, ih (m-1) h2]
    ring

/-- entry `i` of level `k` of `helpers.curve_deriv_cpts` on the window `[r1, r1 + n]` -/
theorem curveDerivCpts_level (p : ℕ) (U : ℕ → K) (P : List (List K)) (r1 n dd k i : ℕ)
    (hk : k ≤ dd) (hkn : k ≤ n) (hkp : k ≤ p) (hi : i ≤ n - k) :
    ((curveDerivCpts p U P r1 (r1 + n) dd).getD k []).getD i [] = vIter p U P k (r1 + i + k) := by
  rw [curveDerivCpts_eq]
  simp only [List.getD_eq_getElem?_getD, List.getElem?_map]
  rw [List.getElem?_range (by omega)]
  simp only [Option.map_some, Option.getD_some]
  rw [pkLevel_eq p U P r1 n k hkn hkp]
  simp only [List.getElem?_map]
  rw [List.getElem?_range' (by omega)]
  simp

/-- coordinate `c` of the net point `(x, y)` (layout `y + sv * x`) -/
def netCoord (sv : ℕ) (P : List (List K)) (c x y : ℕ) : K := (ptsGet P (y + sv * x)).getD c 0

theorem colNet_netOk (su sv : ℕ) (P : List (List K)) (d y : ℕ) (hy : y < sv) (hlen : P.length = su * sv)
    (hP : NetOk d P) : NetOk d (colNet su sv P y) := by
  intro pt hpt
  simp only [colNet, List.mem_map, List.mem_range] at hpt
  obtain ⟨x, hx, rfl⟩ := hpt
  apply ptsGet_length hP
  rw [hlen]
  exact flat_index_lt x y su sv hx hy

theorem colNet_get (su sv : ℕ) (P : List (List K)) (y x : ℕ) (hx : x < su) :
    ptsGet (colNet su sv P y) x = ptsGet P (y + sv * x) := by
  unfold colNet
  conv_lhs => unfold ptsGet
  simp only [List.getD_eq_getElem?_getD, List.getElem?_map]
  rw [List.getElem?_range hx]
  simp [ptsGet]

theorem rowNet_get (sv : ℕ) (T : Arr4 (Option (List K))) (k i y : ℕ) (hy : y < sv) :
    ptsGet (rowNet sv T k i) y = (T.get k 0 i y).getD [] := by
  unfold rowNet ptsGet
  simp only [List.getD_eq_getElem?_getD, List.getElem?_map]
  rw [List.getElem?_range hy]
  simp

/-- what the first loop wrote: `PKL[k][0][i][y]` is the `k`-th `u`-difference vector of column `s1 + y` -/
theorem pklU_val (pu : ℕ) (Uu : ℕ → K) (su sv : ℕ) (P : List (List K)) (r1 n s1 du d k i y : ℕ)
    (hr : r1 + n < su) (hy : s1 + y < sv) (hlen : P.length = su * sv) (hP : NetOk d P)
    (hk : k ≤ du) (hkn : k ≤ n) (hkp : k ≤ pu) (hi : i ≤ n - k) :
    (pklU pu Uu su sv P r1 (r1 + n) s1 du k i y).length = d ∧
    ∀ c, (pklU pu Uu su sv P r1 (r1 + n) s1 du k i y).getD c 0
      = dIter Uu pu k (fun x => netCoord sv P c x (s1 + y)) (r1 + i + k) := by
  have hnet := colNet_netOk su sv P d (s1 + y) hy hlen hP
  have hcl : (colNet su sv P (s1 + y)).length = su := by simp [colNet]
  unfold pklU
  rw [curveDerivCpts_level pu Uu _ r1 n du k i hk hkn hkp hi]
  refine ⟨vIter_length pu Uu _ d hnet k _ (by rw [hcl]; omega), fun c => ?_⟩
  rw [vIter_coord pu Uu _ d c hnet k _ (by rw [hcl]; omega)]
  apply dIter_congr
  intro x _ hx
  simp only [netCoord]
  rw [colNet_get su sv P (s1 + y) x (by omega)]

/-- **the entries of `PKL` that A3.7 assigns**, for a window `[r1, r1+n] × [s1, s1+m]` inside the net:
    for `k ≤ du`, `l ≤ min(order - k, dv)`, `i ≤ n - k`, `j ≤ m - l` the entry `[k][l][i][j]` is assigned (not `None`),
    has the dimension of the control points, and its coordinates are the `l`-fold `v`-differences of the
    `k`-fold `u`-differences of the net -/
theorem a37_entry (pu pv : ℕ) (Uu Uv : ℕ → K) (su sv : ℕ) (P : List (List K)) (r1 n s1 m order d : ℕ)
    (hr : r1 + n < su) (hs : s1 + m < sv) (hlen : P.length = su * sv) (hP : NetOk d P)
    (hdu : min pu order ≤ n) (hdv : min pv order ≤ m)
    (k l i j : ℕ) (hk : k ≤ min pu order) (hl : l ≤ min (order - k) (min pv order)) (hi : i ≤ n - k) (hj : j ≤ m - l) :
    ∃ X, (surfaceDerivCptsA37 pu pv Uu Uv su sv P r1 (r1 + n) s1 (s1 + m) order).get k l i j = some X ∧
      X.length = d ∧
      ∀ c, X.getD c 0
        = dIter Uv pv l (fun y => dIter Uu pu k (fun x => netCoord sv P c x y) (r1 + i + k)) (s1 + j + l) := by
  have hF1 := a37First_fill pu Uu su sv P r1 (r1 + n) s1 (s1 + m) (min pu order)
  have hF2 := a37Second_fill pv Uv sv r1 (r1 + n) s1 (s1 + m) order (min pu order) (min pv order)
    (a37First pu Uu su sv P r1 (r1 + n) s1 (s1 + m) (min pu order))
  have hfin : surfaceDerivCptsA37 pu pv Uu Uv su sv P r1 (r1 + n) s1 (s1 + m) order
      = (List.range (min pu order + 1)).foldl (fun PKL k =>
          (List.range (r1 + n - r1 - k + 1)).foldl (a37V pv Uv sv s1 (s1 + m) order (min pv order) k) PKL)
          (a37First pu Uu su sv P r1 (r1 + n) s1 (s1 + m) (min pu order)) := rfl
  rw [hfin]
  set T1 := a37First pu Uu su sv P r1 (r1 + n) s1 (s1 + m) (min pu order) with hT1
  -- the rows written by the first loop
  have hrow : ∀ y, y ≤ m → T1.get k 0 i y = some (pklU pu Uu su sv P r1 (r1 + n) s1 (min pu order) k i y) := by
    intro y hy
    have := hF1.1 (k, 0, i, y) ⟨rfl, by simp only []; omega, hk, by simp only []; omega⟩
    simpa [view4] using this
  have hval : ∀ y, y ≤ m →
      (pklU pu Uu su sv P r1 (r1 + n) s1 (min pu order) k i y).length = d ∧
      ∀ c, (pklU pu Uu su sv P r1 (r1 + n) s1 (min pu order) k i y).getD c 0
        = dIter Uu pu k (fun x => netCoord sv P c x (s1 + y)) (r1 + i + k) :=
    fun y hy => pklU_val pu Uu su sv P r1 n s1 _ d k i y hr (by omega) hlen hP hk (by omega) (by omega) hi
  by_cases hl0 : l = 0
  · subst hl0
    have h2 := hF2.2 (k, 0, i, j) (by rintro ⟨_, _, h, _⟩; simp at h)
    simp only [view4] at h2
    refine ⟨_, by rw [h2, hrow j (by omega)], (hval j (by omega)).1, fun c => ?_⟩
    rw [(hval j (by omega)).2 c]
    rfl
  · have h2 := hF2.1 (k, l, i, j) ⟨hk, by simp only []; omega, by simp only []; omega, hl, by simp only []; omega⟩
    simp only [view4] at h2
    refine ⟨_, h2, ?_, fun c => ?_⟩
    all_goals
      unfold pklV
      rw [show s1 + m - s1 = m by omega]
      have hlev := curveDerivCpts_level pv (fun x => Uv (s1 + x)) (rowNet sv T1 k i) 0 m
        (min (order - k) (min pv order)) l j hl (by omega) (by omega) hj
      rw [Nat.zero_add] at hlev
      rw [hlev]
      have hwin : ∀ x, 0 + j + l - l ≤ x → x ≤ 0 + j + l → (ptsGet (rowNet sv T1 k i) x).length = d := by
        intro x _ hx
        rw [rowNet_get sv T1 k i x (by omega), hrow x (by omega)]
        exact (hval x (by omega)).1
    · exact vIter_length_loc pv _ _ d l _ hwin
    · rw [vIter_coord_loc pv _ _ d c l _ hwin]
      rw [dIter_knotShift Uv (fun x => Uv (s1 + x)) s1 pv (fun _ => rfl) l
        (fun y => dIter Uu pu k (fun x => netCoord sv P c x y) (r1 + i + k)) _ (0 + j + l) (by omega) (by
          intro x _ hx
          rw [rowNet_get sv T1 k i x (by omega), hrow x (by omega)]
          exact (hval x (by omega)).2 c)]
      congr 1
      omega

end Geomdl
