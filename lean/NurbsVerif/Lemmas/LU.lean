import NurbsVerif.Model.LU
import Mathlib.Algebra.BigOperators.Intervals
import Mathlib.Algebra.Field.Basic
import Mathlib.Tactic.Ring
import Mathlib.Tactic.FieldSimp
import Mathlib.Data.List.GetD

namespace Lin
open Finset
variable {K : Type} [Field K]

theorem sumTo_eq (n : ℕ) (f : ℕ → K) : sumTo n f = ∑ j ∈ range n, f j := by
  unfold sumTo
  induction n with
  | zero => simp
  | succ n ih => rw [List.range_succ, List.foldl_append, ih, sum_range_succ]; simp

theorem luSteps_len (A : ℕ → ℕ → K) (n m : ℕ) :
    (luSteps A n m).urows.length = m ∧ (luSteps A n m).lcols.length = m := by
  induction m with
  | zero => simp [luSteps]
  | succ m ih => simp [luSteps, luStep, ih.1, ih.2]

/-- entries of earlier rows/columns never change -/
theorem luSteps_stable (A : ℕ → ℕ → K) (n : ℕ) : ∀ (M m : ℕ), m ≤ M → ∀ j, j < m → ∀ k,
    (luSteps A n M).U j k = (luSteps A n m).U j k ∧ (luSteps A n M).L k j = (luSteps A n m).L k j := by
  intro M
  induction M with
  | zero => intro m hm j hj; omega
  | succ M ih =>
    intro m hm j hj k
    rcases Nat.eq_or_lt_of_le hm with h | h
    · subst h; exact ⟨rfl, rfl⟩
    · have := ih m (by omega) j hj k
      have hl := luSteps_len A n M
      constructor
      · rw [← this.1]
        simp only [luSteps, luStep, LU.U]
        rw [List.getD_append _ _ _ _ (by omega)]
      · rw [← this.2]
        simp only [luSteps, luStep, LU.L]
        rw [List.getD_append _ _ _ _ (by omega)]

/-- the freshly computed row and column -/
theorem luSteps_new (A : ℕ → ℕ → K) (n m k : ℕ) (hk : k < n) :
    (luSteps A n (m+1)).U m k
        = (if k < m then 0 else A m k - ∑ j ∈ range m, (luSteps A n m).L m j * (luSteps A n m).U j k)
    ∧ (luSteps A n (m+1)).L k m
        = (if k < m then 0 else if k = m then 1 else
            (A k m - ∑ j ∈ range m, (luSteps A n m).L k j * (luSteps A n m).U j m)
              / (luSteps A n (m+1)).U m m) := by
  have hl := luSteps_len A n m
  constructor
  · simp only [luSteps, luStep, LU.U]
    rw [List.getD_append_right _ _ _ _ (by omega)]
    simp [hl.1, hk, sumTo_eq, LU.U, LU.L]
  · simp only [luSteps, luStep, LU.L, LU.U]
    rw [List.getD_append_right _ _ _ _ (by omega)]
    rw [List.getD_append_right _ _ _ _ (by omega)]
    simp [hl.1, hl.2, hk, sumTo_eq, LU.U, LU.L]

end Lin

namespace Lin
open Finset
variable {K : Type} [Field K]

/-- recurrences in terms of the final factorisation -/
theorem lu_rec (A : ℕ → ℕ → K) (n : ℕ) (j k : ℕ) (hj : j < n) (hk : k < n) :
    let st := doolittle A n
    st.U j k = (if k < j then 0 else A j k - ∑ t ∈ range j, st.L j t * st.U t k)
    ∧ st.L k j = (if k < j then 0 else if k = j then 1 else
                  (A k j - ∑ t ∈ range j, st.L k t * st.U t j) / st.U j j) := by
  intro st
  have hs := luSteps_stable A n n (j+1) (by omega) j (by omega)
  have hn := luSteps_new A n j k hk
  have hsum1 : ∑ t ∈ range j, (luSteps A n j).L j t * (luSteps A n j).U t k
      = ∑ t ∈ range j, st.L j t * st.U t k := by
    apply sum_congr rfl
    intro t ht
    have ht' := mem_range.mp ht
    have := luSteps_stable A n n j (by omega) t ht'
    show _ = (luSteps A n n).L j t * (luSteps A n n).U t k
    rw [(this k).1, (this j).2]
  have hsum2 : ∑ t ∈ range j, (luSteps A n j).L k t * (luSteps A n j).U t j
      = ∑ t ∈ range j, st.L k t * st.U t j := by
    apply sum_congr rfl
    intro t ht
    have ht' := mem_range.mp ht
    have := luSteps_stable A n n j (by omega) t ht'
    show _ = (luSteps A n n).L k t * (luSteps A n n).U t j
    rw [(this j).1, (this k).2]
  constructor
  · show (luSteps A n n).U j k = _
    rw [(hs k).1, hn.1, hsum1]
  · show (luSteps A n n).L k j = _
    rw [(hs k).2, hn.2, hsum2]
    have : (luSteps A n (j+1)).U j j = st.U j j := ((hs j).1).symm
    rw [this]

theorem sum_cut (n c : ℕ) (hc : c < n) (f : ℕ → K) (h : ∀ j, c < j → j < n → f j = 0) :
    ∑ j ∈ range n, f j = ∑ j ∈ range (c+1), f j := by
  symm
  apply sum_subset (range_subset_range.mpr (by omega))
  intro j hj hj'
  exact h j (by simp at hj'; omega) (mem_range.mp hj)

/-- Doolittle is an LU factorisation whenever no pivot vanishes -/
theorem doolittle_LU (A : ℕ → ℕ → K) (n : ℕ) (hpiv : ∀ j, j < n → (doolittle A n).U j j ≠ 0)
    (i k : ℕ) (hi : i < n) (hk : k < n) :
    ∑ j ∈ range n, (doolittle A n).L i j * (doolittle A n).U j k = A i k := by
  set st := doolittle A n with hst
  rcases Nat.lt_or_ge k i with hki | hki
  · -- below the diagonal: uses the column recurrence and the pivot
    rw [sum_cut n k hk _ (fun j h1 h2 => by
      have := (lu_rec A n j k h2 hk).1
      simp only [← hst] at this
      rw [this, if_pos h1, mul_zero])]
    rw [sum_range_succ]
    have hL := (lu_rec A n k i hk hi).2
    simp only [← hst] at hL
    rw [hL, if_neg (by omega), if_neg (by omega)]
    have hp := hpiv k hk
    field_simp
    ring
  · -- on or above the diagonal: uses the row recurrence
    rw [sum_cut n i hi _ (fun j h1 h2 => by
      have := (lu_rec A n j i h2 hi).2
      simp only [← hst] at this
      rw [this, if_pos h1, zero_mul])]
    rw [sum_range_succ]
    have hU := (lu_rec A n i k hi hk).1
    have hL := (lu_rec A n i i hi hi).2
    simp only [← hst] at hU hL
    rw [hL, if_neg (by omega), if_pos trivial, one_mul, hU, if_neg (by omega)]
    ring
end Lin
