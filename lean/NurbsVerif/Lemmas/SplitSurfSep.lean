import NurbsVerif.Lemmas.SplitSurfUMain
import NurbsVerif.Lemmas.SplitDecompMain

/-! Input-only hypotheses for the surface splits; fuel bound for the decomposition. -/
set_option linter.unusedSectionVars false
namespace Geomdl
open Blossom
variable {K : Type} [Field K] [LinearOrder K] [IsStrictOrderedRing K]

/-- `find_multiplicity` is exact for a clamped knot vector under separation (no net involved) -/
theorem multExact_of_sep_kv (p n : ℕ) (U : List K) (ub tol : K)
    (hU : ClampedKv p n U) (hlo : fnOf U p < ub) (hhi : ub < fnOf U n)
    (htol : 0 ≤ tol) (hsep : ∀ x ∈ U, |ub - x| ≤ tol → x = ub)
    (hmul : ∀ i, 1 ≤ i → i < n → fnOf U i < fnOf U (i + p)) :
    MultExact p (fnOf U) (findSpanLinear p (fnOf U) n ub) (findMultiplicity ub U tol) ub := by
  have hnet : NetOk 0 (List.replicate n ([] : List K)) := by
    intro pt hpt
    rw [List.mem_replicate] at hpt
    rw [hpt.2]; rfl
  have hwf := hU.toWF (List.replicate n ([] : List K)) (by simp) hnet
  have := multExact_of_sep p 0 U (List.replicate n ([] : List K)) ub tol hwf.wf hU.hp hlo
    (by rw [List.length_replicate]; exact hhi) htol hsep (by rw [List.length_replicate]; exact hmul)
  rw [List.length_replicate] at this
  exact this

/-- there are at most `n - p` non-empty intervals: the knot-vector length is always enough fuel -/
theorem spanStarts_length_le (p : ℕ) (U : ℕ → K) (n : ℕ) : (spanStarts p U n).length ≤ n - p := by
  unfold spanStarts
  calc _ ≤ (List.range' p (n - p)).length := List.length_filter_le _ _
    _ = n - p := List.length_range'

end Geomdl
