import NurbsVerif.Model.DecomposeE
import NurbsVerif.Lemmas.KnotRangeFoldDecomp

/-!
  C17, knot range, for the split / decomposition WITH the exceptions of the code (`splitDirE`, `decomposeDirE`,
  `decomposeUVE` – what the driver ops `split` / `decomp` run): on a shape whose knot vectors are all mapped affinely
  both sides raise in the same cases (`none`), and otherwise return the identical pieces – or, when nothing is split
  (no fuel, no interior knot), each side returns its own object.
-/
set_option linter.unusedSectionVars false

namespace Geomdl
open Blossom
variable {K : Type} [Field K] [LinearOrder K] [IsStrictOrderedRing K]

/-- split with all the exceptions of the code, general form -/
theorem splitDirE_affineKvs_gen (S : Shape K) (a b : ℕ → K) (dir : ℕ) (u tol tol' : K) (ha : ∀ d, 0 < a d)
    (hp : S.deg dir < (S.kv dir).length) (hn : S.size dir < (S.kv dir).length)
    (hmult : findMultiplicity (a dir * u + b dir) ((S.kv dir).map (fun x => a dir * x + b dir)) tol'
      = findMultiplicity u (S.kv dir) tol) :
    splitDirE (S.affineKvs a b) dir (a dir * u + b dir) tol' = splitDirE S dir u tol := by
  unfold splitDirE
  have hdeg : (S.affineKvs a b).deg dir = S.deg dir := rfl
  rw [affineKvs_kv, hdeg, hmult, splitDir_affineKvs_gen S a b dir u tol tol' ha hp hn hmult]

theorem splitDirE_affineKvs (S : Shape K) (a b : ℕ → K) (dir : ℕ) (u tol : K) (ha : ∀ d, 0 < a d)
    (hp : S.deg dir < (S.kv dir).length) (hn : S.size dir < (S.kv dir).length) :
    splitDirE (S.affineKvs a b) dir (a dir * u + b dir) (a dir * tol) = splitDirE S dir u tol :=
  splitDirE_affineKvs_gen S a b dir u tol (a dir * tol) ha hp hn
    (findMultiplicity_affine u (S.kv dir) tol (a dir) (b dir) (ha dir))

theorem splitDirE_affineKvs_fixed_tol (S : Shape K) (a b : ℕ → K) (dir : ℕ) (u tol : K) (ha : ∀ d, 0 < a d)
    (htol : 0 ≤ tol) (hp : S.deg dir < (S.kv dir).length) (hn : S.size dir < (S.kv dir).length)
    (hsep : ∀ y ∈ S.kv dir, u = y ∨ (tol < |u - y| ∧ tol < a dir * |u - y|)) :
    splitDirE (S.affineKvs a b) dir (a dir * u + b dir) tol = splitDirE S dir u tol :=
  splitDirE_affineKvs_gen S a b dir u tol tol ha hp hn
    (findMultiplicity_affine_sep u (S.kv dir) tol (a dir) (b dir) (ha dir) htol hsep)

theorem decomposeDirE_succ (dir : ℕ) (tol : K) (fuel : ℕ) (S : Shape K) :
    decomposeDirE dir tol (fuel + 1) S =
      match decompInterior S dir with
      | [] => some [S]
      | knot :: _ =>
        match splitDirE S dir knot tol with
        | some (A, B) => (decomposeDirE dir tol fuel B).map (fun l => A :: l)
        | none => none := rfl

/-- **decomposition with the exceptions of the code, general form**: both sides answer the same (both raise, or both
    return the identical list of pieces), or nothing is split on either side (no fuel, no interior knot) and each
    returns its own object -/
theorem decomposeDirE_affineKvs_gen (a b : ℕ → K) (ha : ∀ d, 0 < a d) (dir : ℕ) (tol : K) (fuel : ℕ) (S : Shape K)
    (hp : S.deg dir < (S.kv dir).length) (hn : S.size dir < (S.kv dir).length)
    (hmult : ∀ knot, (decompInterior S dir).head? = some knot →
      findMultiplicity (a dir * knot + b dir) ((S.kv dir).map (fun x => a dir * x + b dir)) tol
        = findMultiplicity knot (S.kv dir) tol) :
    decomposeDirE dir tol fuel (S.affineKvs a b) = decomposeDirE dir tol fuel S
      ∨ (decomposeDirE dir tol fuel (S.affineKvs a b) = some [S.affineKvs a b]
          ∧ decomposeDirE dir tol fuel S = some [S]
          ∧ (fuel = 0 ∨ decompInterior S dir = [])) := by
  cases fuel with
  | zero => exact Or.inr ⟨rfl, rfl, Or.inl rfl⟩
  | succ fuel =>
    rw [decomposeDirE_succ, decomposeDirE_succ, decompInterior_affineKvs]
    cases hI : decompInterior S dir with
    | nil => exact Or.inr ⟨rfl, rfl, Or.inr rfl⟩
    | cons knot rest =>
      simp only [List.map_cons]
      rw [splitDirE_affineKvs_gen S a b dir knot tol tol ha hp hn (hmult knot (by rw [hI]; rfl))]
      exact Or.inl rfl

/-- … when there is fuel and an interior knot, both sides answer the same: both raise or both return the identical
    pieces -/
theorem decomposeDirE_affineKvs_of_interior (a b : ℕ → K) (ha : ∀ d, 0 < a d) (dir : ℕ) (tol : K) (fuel : ℕ)
    (S : Shape K) (hp : S.deg dir < (S.kv dir).length) (hn : S.size dir < (S.kv dir).length)
    (knot : K) (rest : List K) (hI : decompInterior S dir = knot :: rest)
    (hmult : findMultiplicity (a dir * knot + b dir) ((S.kv dir).map (fun x => a dir * x + b dir)) tol
        = findMultiplicity knot (S.kv dir) tol) :
    decomposeDirE dir tol (fuel + 1) (S.affineKvs a b) = decomposeDirE dir tol (fuel + 1) S := by
  rw [decomposeDirE_succ, decomposeDirE_succ, decompInterior_affineKvs, hI]
  simp only [List.map_cons]
  rw [splitDirE_affineKvs_gen S a b dir knot tol tol ha hp hn hmult]

theorem decomposeDirE_affineKvs_fixed_tol (a b : ℕ → K) (ha : ∀ d, 0 < a d) (dir : ℕ) (tol : K) (htol : 0 ≤ tol)
    (fuel : ℕ) (S : Shape K)
    (hp : S.deg dir < (S.kv dir).length) (hn : S.size dir < (S.kv dir).length)
    (hsep : ∀ knot, (decompInterior S dir).head? = some knot →
      ∀ y ∈ S.kv dir, knot = y ∨ (tol < |knot - y| ∧ tol < a dir * |knot - y|)) :
    decomposeDirE dir tol fuel (S.affineKvs a b) = decomposeDirE dir tol fuel S
      ∨ (decomposeDirE dir tol fuel (S.affineKvs a b) = some [S.affineKvs a b]
          ∧ decomposeDirE dir tol fuel S = some [S]
          ∧ (fuel = 0 ∨ decompInterior S dir = [])) :=
  decomposeDirE_affineKvs_gen a b ha dir tol fuel S hp hn (fun knot hk =>
    findMultiplicity_affine_sep knot (S.kv dir) tol (a dir) (b dir) (ha dir) htol (hsep knot hk))

/-! ### `decompose_surface(…, decompose_dir='uv')` with the exceptions -/

theorem allSome_singleton_flatten {α : Type} (o : Option (List α)) :
    (allSome [o]).map List.flatten = o := by
  cases o with
  | none => rfl
  | some l => simp [allSome]

theorem decomposeUVE_affineKvs_gen (a b : ℕ → K) (ha : ∀ d, 0 < a d) (tol : K) (S : Shape K)
    (hp0 : S.deg 0 < (S.kv 0).length) (hn0 : S.size 0 < (S.kv 0).length)
    (hp1 : S.deg 1 < (S.kv 1).length) (hn1 : S.size 1 < (S.kv 1).length)
    (hmult0 : ∀ knot, (decompInterior S 0).head? = some knot →
      findMultiplicity (a 0 * knot + b 0) ((S.kv 0).map (fun x => a 0 * x + b 0)) tol
        = findMultiplicity knot (S.kv 0) tol)
    (hmult1 : ∀ knot, (decompInterior S 1).head? = some knot →
      findMultiplicity (a 1 * knot + b 1) ((S.kv 1).map (fun x => a 1 * x + b 1)) tol
        = findMultiplicity knot (S.kv 1) tol) :
    decomposeUVE tol (S.affineKvs a b) = decomposeUVE tol S
      ∨ (decomposeUVE tol (S.affineKvs a b) = some [S.affineKvs a b] ∧ decomposeUVE tol S = some [S]
          ∧ decompInterior S 0 = [] ∧ decompInterior S 1 = []) := by
  unfold decomposeUVE
  have hl0 : ((S.affineKvs a b).kv 0).length = (S.kv 0).length := by rw [affineKvs_kv, List.length_map]
  have hl1 : ((S.affineKvs a b).kv 1).length = (S.kv 1).length := by rw [affineKvs_kv, List.length_map]
  have hpos0 : (S.kv 0).length ≠ 0 := by omega
  have hpos1 : (S.kv 1).length ≠ 0 := by omega
  rw [hl0]
  rcases decomposeDirE_affineKvs_gen a b ha 0 tol (S.kv 0).length S hp0 hn0 hmult0 with h | ⟨h1, h2, h3⟩
  · left; rw [h]
  · rw [h1, h2]
    simp only [List.map_cons, List.map_nil]
    rw [allSome_singleton_flatten, allSome_singleton_flatten, hl1]
    rcases decomposeDirE_affineKvs_gen a b ha 1 tol (S.kv 1).length S hp1 hn1 hmult1 with h | ⟨k1, k2, k3⟩
    · left; exact h
    · right
      refine ⟨k1, k2, ?_, ?_⟩
      · rcases h3 with h3 | h3
        · exact absurd h3 hpos0
        · exact h3
      · rcases k3 with k3 | k3
        · exact absurd k3 hpos1
        · exact k3

theorem decomposeUVE_affineKvs_fixed_tol (a b : ℕ → K) (ha : ∀ d, 0 < a d) (tol : K) (htol : 0 ≤ tol) (S : Shape K)
    (hp0 : S.deg 0 < (S.kv 0).length) (hn0 : S.size 0 < (S.kv 0).length)
    (hp1 : S.deg 1 < (S.kv 1).length) (hn1 : S.size 1 < (S.kv 1).length)
    (hsep0 : ∀ knot, (decompInterior S 0).head? = some knot →
      ∀ y ∈ S.kv 0, knot = y ∨ (tol < |knot - y| ∧ tol < a 0 * |knot - y|))
    (hsep1 : ∀ knot, (decompInterior S 1).head? = some knot →
      ∀ y ∈ S.kv 1, knot = y ∨ (tol < |knot - y| ∧ tol < a 1 * |knot - y|)) :
    decomposeUVE tol (S.affineKvs a b) = decomposeUVE tol S
      ∨ (decomposeUVE tol (S.affineKvs a b) = some [S.affineKvs a b] ∧ decomposeUVE tol S = some [S]
          ∧ decompInterior S 0 = [] ∧ decompInterior S 1 = []) :=
  decomposeUVE_affineKvs_gen a b ha tol S hp0 hn0 hp1 hn1
    (fun knot hk => findMultiplicity_affine_sep knot (S.kv 0) tol (a 0) (b 0) (ha 0) htol (hsep0 knot hk))
    (fun knot hk => findMultiplicity_affine_sep knot (S.kv 1) tol (a 1) (b 1) (ha 1) htol (hsep1 knot hk))

/-- … when the u direction has an interior knot, both sides answer the same (both raise, or identical patches) and
    the range of the v direction plays no role -/
theorem decomposeUVE_affineKvs_of_interior (a b : ℕ → K) (ha : ∀ d, 0 < a d) (tol : K) (S : Shape K)
    (hp0 : S.deg 0 < (S.kv 0).length) (hn0 : S.size 0 < (S.kv 0).length)
    (knot : K) (rest : List K) (hI : decompInterior S 0 = knot :: rest)
    (hmult : findMultiplicity (a 0 * knot + b 0) ((S.kv 0).map (fun x => a 0 * x + b 0)) tol
        = findMultiplicity knot (S.kv 0) tol) :
    decomposeUVE tol (S.affineKvs a b) = decomposeUVE tol S := by
  unfold decomposeUVE
  have hl0 : ((S.affineKvs a b).kv 0).length = (S.kv 0).length := by rw [affineKvs_kv, List.length_map]
  rw [hl0]
  have hpos : (S.kv 0).length = ((S.kv 0).length - 1) + 1 := by omega
  rw [hpos, decomposeDirE_affineKvs_of_interior a b ha 0 tol _ S hp0 hn0 knot rest hI hmult]

end Geomdl
