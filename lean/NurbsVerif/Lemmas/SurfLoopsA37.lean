import NurbsVerif.Lemmas.SurfLoopsFill

/-! A3.7 as coded (`helpers.surface_deriv_cpts`, model `surfaceDerivCptsA37`): which entries of `PKL`
    are assigned, and with what. -/
namespace Geomdl
variable {K : Type} [Field K]

/-- the control points of the `u`-curve through column `y` of the net:
    `[cpts[j + (cpsize[1] * i)] for i in range(cpsize[0])]` -/
def colNet (su sv : ℕ) (P : List (List K)) (y : ℕ) : List (List K) :=
  (List.range su).map (fun i => ptsGet P (y + sv * i))

/-- what the first loop of A3.7 assigns to `PKL[k][0][i][jj]` -/
def pklU (pu : ℕ) (Uu : ℕ → K) (su sv : ℕ) (P : List (List K)) (r1 r2 s1 du k i jj : ℕ) : List K :=
  ((curveDerivCpts pu Uu (colNet su sv P (s1 + jj)) r1 r2 du).getD k []).getD i []

/-- the state of `PKL` after the first loop -/
def a37First (pu : ℕ) (Uu : ℕ → K) (su sv : ℕ) (P : List (List K)) (r1 r2 s1 s2 du : ℕ) : Arr4 (Option (List K)) :=
  (List.range (s2 - s1 + 1)).foldl (a37U pu Uu su sv P r1 r2 s1 du) ⟨fun _ _ _ _ => none⟩

/-- **first loop of A3.7**: exactly the entries `[k][0][i][jj]` with `k ≤ du`, `i ≤ r - k`, `jj ≤ s` are
    assigned, with the `u`-derivative control points of the column curves -/
theorem a37First_fill (pu : ℕ) (Uu : ℕ → K) (su sv : ℕ) (P : List (List K)) (r1 r2 s1 s2 du : ℕ) :
    Fill view4 (fun x => x.2.1 = 0 ∧ x.2.2.2 ≤ s2 - s1 ∧ x.1 ≤ du ∧ x.2.2.1 ≤ r2 - r1 - x.1)
      (fun x => some (pklU pu Uu su sv P r1 r2 s1 du x.1 x.2.2.1 x.2.2.2))
      ⟨fun _ _ _ _ => none⟩ (a37First pu Uu su sv P r1 r2 s1 s2 du) := by
  unfold a37First
  refine (Fill.loop view4 _ _ (fun jj x => x.2.1 = 0 ∧ x.2.2.2 = jj ∧ x.1 ≤ du ∧ x.2.2.1 ≤ r2 - r1 - x.1) _ _ ?_).congr_set ?_
  · intro T jj _ _
    unfold a37U
    simp only []
    refine (Fill.loop view4 _ _ (fun k x => x.2.1 = 0 ∧ x.2.2.2 = jj ∧ x.1 = k ∧ x.2.2.1 ≤ r2 - r1 - k) _ _ ?_).congr_set ?_
    · intro T' k _ _
      refine (Fill.loop view4 _ _ (fun i x => x = (k, 0, i, jj)) _ _ ?_).congr_set ?_
      · intro T'' i _ _
        exact Fill.upd4 _ T'' k 0 i jj _ rfl
      · rintro ⟨a, b, c, e⟩
        simp only [Prod.mk.injEq]
        constructor
        · rintro ⟨i, hi, rfl, rfl, rfl, rfl⟩; exact ⟨rfl, rfl, rfl, by omega⟩
        · rintro ⟨rfl, rfl, rfl, h⟩; exact ⟨c, by omega, rfl, rfl, rfl, rfl⟩
    · rintro ⟨a, b, c, e⟩
      simp only []
      constructor
      · rintro ⟨k, hk, rfl, rfl, rfl, h⟩; exact ⟨rfl, rfl, by omega, h⟩
      · rintro ⟨rfl, rfl, h1, h2⟩; exact ⟨a, by omega, rfl, rfl, rfl, h2⟩
  · rintro ⟨a, b, c, e⟩
    simp only []
    constructor
    · rintro ⟨jj, hjj, rfl, rfl, h1, h2⟩; exact ⟨rfl, by omega, h1, h2⟩
    · rintro ⟨rfl, h0, h1, h2⟩; exact ⟨e, by omega, rfl, rfl, h1, h2⟩

/-- the row `PKL[k][0][i]` (`cpsize[1]` entries) that the second loop passes to `curve_deriv_cpts` -/
def rowNet (sv : ℕ) (T : Arr4 (Option (List K))) (k i : ℕ) : List (List K) :=
  (List.range sv).map (fun j => (T.get k 0 i j).getD [])

/-- what the second loop of A3.7 assigns to `PKL[k][l][i][j]` (`l ≥ 1`), in terms of the state `T1` after
    the first loop -/
def pklV (pv : ℕ) (Uv : ℕ → K) (sv s1 s2 order dv : ℕ) (T1 : Arr4 (Option (List K))) (k l i j : ℕ) : List K :=
  ((curveDerivCpts pv (fun x => Uv (s1 + x)) (rowNet sv T1 k i) 0 (s2 - s1) (min (order - k) dv)).getD l []).getD j []

/-- **second loop of A3.7**: exactly the entries `[k][l][i][j]` with `k ≤ du`, `i ≤ r - k`,
    `1 ≤ l ≤ min(order - k, dv)`, `j ≤ s - l` are assigned, with the `v`-derivative control points of the rows
    written by the first loop (which it leaves unchanged) -/
theorem a37Second_fill (pv : ℕ) (Uv : ℕ → K) (sv r1 r2 s1 s2 order du dv : ℕ) (T1 : Arr4 (Option (List K))) :
    Fill view4 (fun x => x.1 ≤ du ∧ x.2.2.1 ≤ r2 - r1 - x.1 ∧ 1 ≤ x.2.1 ∧ x.2.1 ≤ min (order - x.1) dv
        ∧ x.2.2.2 ≤ s2 - s1 - x.2.1)
      (fun x => some (pklV pv Uv sv s1 s2 order dv T1 x.1 x.2.1 x.2.2.1 x.2.2.2))
      T1 ((List.range (du + 1)).foldl (fun PKL k =>
        (List.range (r2 - r1 - k + 1)).foldl (a37V pv Uv sv s1 s2 order dv k) PKL) T1) := by
  refine (Fill.loop view4 _ _ (fun k x => x.1 = k ∧ x.2.2.1 ≤ r2 - r1 - k ∧ 1 ≤ x.2.1 ∧ x.2.1 ≤ min (order - k) dv
        ∧ x.2.2.2 ≤ s2 - s1 - x.2.1) _ _ ?_).congr_set ?_
  · intro T k _ hT
    refine (Fill.loop view4 _ _ (fun i x => x.1 = k ∧ x.2.2.1 = i ∧ 1 ≤ x.2.1 ∧ x.2.1 ≤ min (order - k) dv
        ∧ x.2.2.2 ≤ s2 - s1 - x.2.1) _ _ ?_).congr_set ?_
    · intro Ta i _ hTa
      -- the row read from the current state is the row written by the first loop
      have hrow : rowNet sv Ta k i = rowNet sv T1 k i := by
        unfold rowNet
        apply List.map_congr_left
        intro j _
        have e1 := hTa.2 (k, 0, i, j) (by rintro ⟨y, _, _, _, h, _⟩; simp at h)
        have e2 := hT.2 (k, 0, i, j) (by rintro ⟨y, _, _, _, h, _⟩; simp at h)
        simp only [view4] at e1 e2
        rw [e1, e2]
      unfold a37V
      simp only []
      rw [show (List.map (fun j => (Ta.get k 0 i j).getD []) (List.range sv)) = rowNet sv Ta k i from rfl, hrow]
      refine (Fill.loop' view4 _ _ (fun l x => x.1 = k ∧ x.2.2.1 = i ∧ x.2.1 = l ∧ x.2.2.2 ≤ s2 - s1 - l) _ 1 _ ?_).congr_set ?_
      · intro Tb l _ _ _
        refine (Fill.loop view4 _ _ (fun j x => x = (k, l, i, j)) _ _ ?_).congr_set ?_
        · intro Tc j _ _
          exact Fill.upd4 _ Tc k l i j _ rfl
        · rintro ⟨a, b, c, e⟩
          simp only [Prod.mk.injEq]
          constructor
          · rintro ⟨j, hj, rfl, rfl, rfl, rfl⟩; exact ⟨rfl, rfl, rfl, by omega⟩
          · rintro ⟨rfl, rfl, rfl, h⟩; exact ⟨e, by omega, rfl, rfl, rfl, rfl⟩
      · rintro ⟨a, b, c, e⟩
        simp only []
        constructor
        · rintro ⟨l, hl1, hl2, rfl, rfl, rfl, h⟩; exact ⟨rfl, rfl, hl1, by omega, h⟩
        · rintro ⟨rfl, rfl, h1, h2, h3⟩; exact ⟨b, h1, by omega, rfl, rfl, rfl, h3⟩
    · rintro ⟨a, b, c, e⟩
      simp only []
      constructor
      · rintro ⟨i, hi, rfl, rfl, h⟩; exact ⟨rfl, by omega, h⟩
      · rintro ⟨rfl, h0, h⟩; exact ⟨c, by omega, rfl, rfl, h⟩
  · rintro ⟨a, b, c, e⟩
    simp only []
    constructor
    · rintro ⟨k, hk, rfl, h⟩; exact ⟨by omega, h⟩
    · rintro ⟨h0, h⟩; exact ⟨a, by omega, rfl, h⟩

end Geomdl
