import NurbsVerif.Lemmas.RemoveMultiLin
import NurbsVerif.Lemmas.VolLiftMap
import NurbsVerif.Lemmas.Layout

/-!
  C06 / C04, several directions in one call, part 2b (volumes, layout `v + sv·(u + su·w)`): the gather / scatter of
  iso-curves along two DIFFERENT directions of a volume net commute for coordinatewise linear curve maps
  (`mapVol01_comm`, `mapVol02_comm`, `mapVol12_comm`; one statement for all pairs: `mapVol_comm`).
-/
namespace Geomdl
namespace Multi
open Blossom Finset
set_option linter.unusedSectionVars false
variable {K : Type} [Field K] [LinearOrder K] [IsStrictOrderedRing K]

theorem vol_net_ext (su sv sw : ℕ) (A B : List (List K)) (hA : A.length = su * sv * sw) (hB : B.length = su * sv * sw)
    (h : ∀ x y z, x < su → y < sv → z < sw → ptsGet A (y + sv * (x + su * z)) = ptsGet B (y + sv * (x + su * z))) :
    A = B := by
  apply RemInv.net_ext A B (by rw [hA, hB])
  intro i hi
  rw [hA] at hi
  obtain ⟨h1, h2, h3, h4⟩ := flatIdx3_divmod hi
  have := h _ _ _ h1 h2 h3
  have e : i / sv % su * 0 + (i % sv + sv * (i / sv % su + su * (i / sv / su))) = i := by
    simpa [flatIdx3] using h4
  simp only [Nat.mul_zero, Nat.zero_add] at e
  rw [e] at this
  exact this

section
variable (d su su' sv sv' sw sw' : ℕ) (P : List (List K)) (f g h : List (List K) → List (List K))
  (hP : NetOk d P) (hlen : P.length = su * sv * sw)
  (hsu : 0 < su) (hsv : 0 < sv) (hsw : 0 < sw)

include hP hlen hsu hsv hsw in
/-- u-step then v-step = v-step then u-step -/
theorem mapVol01_comm (hf : CoordLin d su su' f) (hg : CoordLin d sv sv' g) (hsu' : 0 < su') (hsv' : 0 < sv') :
    (mapVol 0 su sv sw P f).2 = su' ∧ (mapVol 1 su sv sw P g).2 = sv' ∧
    mapVol 1 su' sv sw (mapVol 0 su sv sw P f).1 g = ((mapVol 0 su sv' sw (mapVol 1 su sv sw P g).1 f).1, sv') ∧
    mapVol 0 su sv' sw (mapVol 1 su sv sw P g).1 f = ((mapVol 0 su sv' sw (mapVol 1 su sv sw P g).1 f).1, su') := by
  obtain ⟨a1, a2, a3, a4⟩ := mapVol0_spec su sv sw d su' P f hsv hsw
    (fun y z hy hz => hf.len _ (lineU_length ..) (lineU_netOk su sv sw d P hP hlen y z hy hz))
    (fun y z hy hz => hf.net _ (lineU_length ..) (lineU_netOk su sv sw d P hP hlen y z hy hz))
  obtain ⟨b1, b2, b3, b4⟩ := mapVol1_spec su' sv sw d sv' _ g hsu' hsw
    (fun x z hx hz => hg.len _ (lineV_length ..) (lineV_netOk su' sv sw d _ a3 a2 x z hx hz))
    (fun x z hx hz => hg.net _ (lineV_length ..) (lineV_netOk su' sv sw d _ a3 a2 x z hx hz))
  obtain ⟨c1, c2, c3, c4⟩ := mapVol1_spec su sv sw d sv' P g hsu hsw
    (fun x z hx hz => hg.len _ (lineV_length ..) (lineV_netOk su sv sw d P hP hlen x z hx hz))
    (fun x z hx hz => hg.net _ (lineV_length ..) (lineV_netOk su sv sw d P hP hlen x z hx hz))
  obtain ⟨e1, e2, e3, e4⟩ := mapVol0_spec su sv' sw d su' _ f hsv' hsw
    (fun y z hy hz => hf.len _ (lineU_length ..) (lineU_netOk su sv' sw d _ c3 c2 y z hy hz))
    (fun y z hy hz => hf.net _ (lineU_length ..) (lineU_netOk su sv' sw d _ c3 c2 y z hy hz))
  refine ⟨a1, c1, Prod.ext ?_ b1, Prod.ext rfl e1⟩
  apply vol_net_ext su' sv' sw _ _ b2 e2
  intro x y z hx hy hz
  rw [← lineV_get su' sv' _ x z y hy, b4 x z hx hz, ← lineU_get su' sv' _ y z x hx, e4 y z hy hz]
  have hX : ∀ i j, i < su → j < sv → (ptsGet P (j + sv * (i + su * z))).length = d := fun i j hi hj =>
    ptsGet_length hP _ (by rw [hlen]; exact vol_idx_lt su sv sw i j z hi hj hz)
  have := lin_comm d su su' sv sv' f g hf hg (fun i j => ptsGet P (j + sv * (i + su * z))) hX x y hx hy
  have r1 : lineV su' sv (mapVol 0 su sv sw P f).1 x z
      = (List.range sv).map (fun j => ptsGet (f ((List.range su).map (fun i => ptsGet P (j + sv * (i + su * z))))) x) := by
    unfold lineV
    apply List.map_congr_left
    intro j hj
    rw [List.mem_range] at hj
    rw [← lineU_get su' sv _ j z x hx, a4 j z hj hz]
    rfl
  have r2 : lineU su sv' (mapVol 1 su sv sw P g).1 y z
      = (List.range su).map (fun i => ptsGet (g ((List.range sv).map (fun j => ptsGet P (j + sv * (i + su * z))))) y) := by
    unfold lineU
    apply List.map_congr_left
    intro i hi
    rw [List.mem_range] at hi
    rw [← lineV_get su sv' _ i z y hy, c4 i z hi hz]
    rfl
  rw [r1, r2]
  exact this

include hP hlen hsu hsv hsw in
/-- u-step then w-step = w-step then u-step -/
theorem mapVol02_comm (hf : CoordLin d su su' f) (hh : CoordLin d sw sw' h) (hsu' : 0 < su') (hsw' : 0 < sw') :
    (mapVol 0 su sv sw P f).2 = su' ∧ (mapVol 2 su sv sw P h).2 = sw' ∧
    mapVol 2 su' sv sw (mapVol 0 su sv sw P f).1 h = ((mapVol 0 su sv sw' (mapVol 2 su sv sw P h).1 f).1, sw') ∧
    mapVol 0 su sv sw' (mapVol 2 su sv sw P h).1 f = ((mapVol 0 su sv sw' (mapVol 2 su sv sw P h).1 f).1, su') := by
  obtain ⟨a1, a2, a3, a4⟩ := mapVol0_spec su sv sw d su' P f hsv hsw
    (fun y z hy hz => hf.len _ (lineU_length ..) (lineU_netOk su sv sw d P hP hlen y z hy hz))
    (fun y z hy hz => hf.net _ (lineU_length ..) (lineU_netOk su sv sw d P hP hlen y z hy hz))
  obtain ⟨b1, b2, b3, b4⟩ := mapVol2_spec su' sv sw d sw' _ h hsu' hsv
    (fun x y hx hy => hh.len _ (lineW_length ..) (lineW_netOk su' sv sw d _ a3 a2 x y hx hy))
    (fun x y hx hy => hh.net _ (lineW_length ..) (lineW_netOk su' sv sw d _ a3 a2 x y hx hy))
  obtain ⟨c1, c2, c3, c4⟩ := mapVol2_spec su sv sw d sw' P h hsu hsv
    (fun x y hx hy => hh.len _ (lineW_length ..) (lineW_netOk su sv sw d P hP hlen x y hx hy))
    (fun x y hx hy => hh.net _ (lineW_length ..) (lineW_netOk su sv sw d P hP hlen x y hx hy))
  obtain ⟨e1, e2, e3, e4⟩ := mapVol0_spec su sv sw' d su' _ f hsv hsw'
    (fun y z hy hz => hf.len _ (lineU_length ..) (lineU_netOk su sv sw' d _ c3 c2 y z hy hz))
    (fun y z hy hz => hf.net _ (lineU_length ..) (lineU_netOk su sv sw' d _ c3 c2 y z hy hz))
  refine ⟨a1, c1, Prod.ext ?_ b1, Prod.ext rfl e1⟩
  apply vol_net_ext su' sv sw' _ _ b2 e2
  intro x y z hx hy hz
  rw [← lineW_get su' sv sw' _ x y z hz, b4 x y hx hy, ← lineU_get su' sv _ y z x hx, e4 y z hy hz]
  have hX : ∀ i k, i < su → k < sw → (ptsGet P (y + sv * (i + su * k))).length = d := fun i k hi hk =>
    ptsGet_length hP _ (by rw [hlen]; exact vol_idx_lt su sv sw i y k hi hy hk)
  have := lin_comm d su su' sw sw' f h hf hh (fun i k => ptsGet P (y + sv * (i + su * k))) hX x z hx hz
  have r1 : lineW su' sv sw (mapVol 0 su sv sw P f).1 x y
      = (List.range sw).map (fun k => ptsGet (f ((List.range su).map (fun i => ptsGet P (y + sv * (i + su * k))))) x) := by
    unfold lineW
    apply List.map_congr_left
    intro k hk
    rw [List.mem_range] at hk
    rw [← lineU_get su' sv _ y k x hx, a4 y k hy hk]
    rfl
  have r2 : lineU su sv (mapVol 2 su sv sw P h).1 y z
      = (List.range su).map (fun i => ptsGet (h ((List.range sw).map (fun k => ptsGet P (y + sv * (i + su * k))))) z) := by
    unfold lineU
    apply List.map_congr_left
    intro i hi
    rw [List.mem_range] at hi
    rw [← lineW_get su sv sw' _ i y z hz, c4 i y hi hy]
    rfl
  rw [r1, r2]
  exact this

include hP hlen hsu hsv hsw in
/-- v-step then w-step = w-step then v-step -/
theorem mapVol12_comm (hg : CoordLin d sv sv' g) (hh : CoordLin d sw sw' h) (hsv' : 0 < sv') (hsw' : 0 < sw') :
    (mapVol 1 su sv sw P g).2 = sv' ∧ (mapVol 2 su sv sw P h).2 = sw' ∧
    mapVol 2 su sv' sw (mapVol 1 su sv sw P g).1 h = ((mapVol 1 su sv sw' (mapVol 2 su sv sw P h).1 g).1, sw') ∧
    mapVol 1 su sv sw' (mapVol 2 su sv sw P h).1 g = ((mapVol 1 su sv sw' (mapVol 2 su sv sw P h).1 g).1, sv') := by
  obtain ⟨a1, a2, a3, a4⟩ := mapVol1_spec su sv sw d sv' P g hsu hsw
    (fun x z hx hz => hg.len _ (lineV_length ..) (lineV_netOk su sv sw d P hP hlen x z hx hz))
    (fun x z hx hz => hg.net _ (lineV_length ..) (lineV_netOk su sv sw d P hP hlen x z hx hz))
  obtain ⟨b1, b2, b3, b4⟩ := mapVol2_spec su sv' sw d sw' _ h hsu hsv'
    (fun x y hx hy => hh.len _ (lineW_length ..) (lineW_netOk su sv' sw d _ a3 a2 x y hx hy))
    (fun x y hx hy => hh.net _ (lineW_length ..) (lineW_netOk su sv' sw d _ a3 a2 x y hx hy))
  obtain ⟨c1, c2, c3, c4⟩ := mapVol2_spec su sv sw d sw' P h hsu hsv
    (fun x y hx hy => hh.len _ (lineW_length ..) (lineW_netOk su sv sw d P hP hlen x y hx hy))
    (fun x y hx hy => hh.net _ (lineW_length ..) (lineW_netOk su sv sw d P hP hlen x y hx hy))
  obtain ⟨e1, e2, e3, e4⟩ := mapVol1_spec su sv sw' d sv' _ g hsu hsw'
    (fun x z hx hz => hg.len _ (lineV_length ..) (lineV_netOk su sv sw' d _ c3 c2 x z hx hz))
    (fun x z hx hz => hg.net _ (lineV_length ..) (lineV_netOk su sv sw' d _ c3 c2 x z hx hz))
  refine ⟨a1, c1, Prod.ext ?_ b1, Prod.ext rfl e1⟩
  apply vol_net_ext su sv' sw' _ _ b2 e2
  intro x y z hx hy hz
  rw [← lineW_get su sv' sw' _ x y z hz, b4 x y hx hy, ← lineV_get su sv' _ x z y hy, e4 x z hx hz]
  have hX : ∀ j k, j < sv → k < sw → (ptsGet P (j + sv * (x + su * k))).length = d := fun j k hj hk =>
    ptsGet_length hP _ (by rw [hlen]; exact vol_idx_lt su sv sw x j k hx hj hk)
  have := lin_comm d sv sv' sw sw' g h hg hh (fun j k => ptsGet P (j + sv * (x + su * k))) hX y z hy hz
  have r1 : lineW su sv' sw (mapVol 1 su sv sw P g).1 x y
      = (List.range sw).map (fun k => ptsGet (g ((List.range sv).map (fun j => ptsGet P (j + sv * (x + su * k))))) y) := by
    unfold lineW
    apply List.map_congr_left
    intro k hk
    rw [List.mem_range] at hk
    rw [← lineV_get su sv' _ x k y hy, a4 x k hx hk]
    rfl
  have r2 : lineV su sv (mapVol 2 su sv sw P h).1 x z
      = (List.range sv).map (fun j => ptsGet (h ((List.range sw).map (fun k => ptsGet P (j + sv * (x + su * k))))) z) := by
    unfold lineV
    apply List.map_congr_left
    intro j hj
    rw [List.mem_range] at hj
    rw [← lineW_get su sv sw' _ x j z hz, c4 x j hx hj]
    rfl
  rw [r1, r2]
  exact this

end

/-- **all pairs of directions in one statement**: `sz` the three sizes, `da < db` the two directions, `f` along `da`
    (`sz da → na` points), `g` along `db` (`sz db → nb` points) -/
theorem mapVol_comm (d da db : ℕ) (hlt : da < db) (hdb : db < 3) (sz : ℕ → ℕ) (na nb : ℕ) (P : List (List K))
    (f g : List (List K) → List (List K)) (hf : CoordLin d (sz da) na f) (hg : CoordLin d (sz db) nb g)
    (hP : NetOk d P) (hlen : P.length = sz 0 * sz 1 * sz 2) (h0 : 0 < sz 0) (h1 : 0 < sz 1) (h2 : 0 < sz 2)
    (hna : 0 < na) (hnb : 0 < nb) :
    (mapVol da (sz 0) (sz 1) (sz 2) P f).2 = na ∧ (mapVol db (sz 0) (sz 1) (sz 2) P g).2 = nb ∧
    ∃ N : List (List K),
      mapVol db (Function.update sz da na 0) (Function.update sz da na 1) (Function.update sz da na 2)
        (mapVol da (sz 0) (sz 1) (sz 2) P f).1 g = (N, nb) ∧
      mapVol da (Function.update sz db nb 0) (Function.update sz db nb 1) (Function.update sz db nb 2)
        (mapVol db (sz 0) (sz 1) (sz 2) P g).1 f = (N, na) := by
  rcases (by omega : (da = 0 ∧ db = 1) ∨ (da = 0 ∧ db = 2) ∨ (da = 1 ∧ db = 2)) with ⟨rfl, rfl⟩ | ⟨rfl, rfl⟩ | ⟨rfl, rfl⟩
  · obtain ⟨m1, m2, m3, m4⟩ := mapVol01_comm d (sz 0) na (sz 1) nb (sz 2) P f g hP hlen h0 h1 h2 hf hg hna hnb
    refine ⟨m1, m2, (mapVol 0 (sz 0) nb (sz 2) (mapVol 1 (sz 0) (sz 1) (sz 2) P g).1 f).1, ?_, ?_⟩
    · simpa [Function.update] using m3
    · simpa [Function.update] using m4
  · obtain ⟨m1, m2, m3, m4⟩ := mapVol02_comm d (sz 0) na (sz 1) (sz 2) nb P f g hP hlen h0 h1 h2 hf hg hna hnb
    refine ⟨m1, m2, (mapVol 0 (sz 0) (sz 1) nb (mapVol 2 (sz 0) (sz 1) (sz 2) P g).1 f).1, ?_, ?_⟩
    · simpa [Function.update] using m3
    · simpa [Function.update] using m4
  · obtain ⟨m1, m2, m3, m4⟩ := mapVol12_comm d (sz 0) (sz 1) na (sz 2) nb P f g hP hlen h0 h1 h2 hf hg hna hnb
    refine ⟨m1, m2, (mapVol 1 (sz 0) (sz 1) nb (mapVol 2 (sz 0) (sz 1) (sz 2) P g).1 f).1, ?_, ?_⟩
    · simpa [Function.update] using m3
    · simpa [Function.update] using m4

end Multi
end Geomdl
