import NurbsVerif.Lemmas.DersOnDomain

/-!
# C02: `operations.tangent` / `operations.normal` of RATIONAL curves and surfaces (`normalize=False`)

What the driver ops `tanc 1 …`, `tans 1 …`, `nrms 1 …` run: the default evaluator as coded on the homogeneous net
(A3.2 / A3.6), then A4.2 / A4.4, then the entries `[0]`, `[1]` / `[0][0]`, `[1][0]`, `[0][1]` – through the span
search(es), on the closed domain, positive weights.  With `w` the weight polynomial and `A` a numerator polynomial of the
span found:  `w·C = A`,  `w·T + w'·C = A'`  (for surfaces with the two partial derivatives), hence `C = A / w` and
`T = (A'·w − A·w') / w²`, the quotient rule as a field identity.  The normal is the cross product of the two rational
tangent vectors and is orthogonal to both.
-/
namespace Geomdl
open Blossom Polynomial Finset
open scoped Polynomial.Bivariate
variable {K : Type} [Field K] [LinearOrder K] [IsStrictOrderedRing K]

/-- the field identity behind the quotient rule: the first two Leibniz equations with `w ≠ 0` determine the value and
    the first derivative of the quotient -/
theorem quotient_rule_of_leibniz (w w' a a' c t : K) (hw : w ≠ 0) (h0 : w * c = a) (h1 : w * t + w' * c = a') :
    c = a / w ∧ t = (a' * w - a * w') / w ^ 2 := by
  refine ⟨?_, ?_⟩
  · rw [eq_div_iff hw, mul_comm]; exact h0
  · rw [eq_div_iff (pow_ne_zero 2 hw), ← h1, ← h0]; ring

/-- … and conversely the quotient-rule values solve the two Leibniz equations (so the two forms are equivalent) -/
theorem leibniz_of_quotient_rule (w w' a a' : K) (hw : w ≠ 0) :
    w * (a / w) = a ∧ w * ((a' * w - a * w') / w ^ 2) + w' * (a / w) = a' := by
  refine ⟨by field_simp, ?_⟩
  field_simp
  ring

/-- when the quotient IS a polynomial (`A = Q · w`) the quotient-rule expression is the derivative of that
    polynomial: the formula is the derivative of the quotient, not merely a solution of a linear system -/
theorem quotient_rule_polynomial (A Q w : K[X]) (u : K) (hA : A = Q * w) (hw : eval u w ≠ 0) :
    (eval u (derivative A) * eval u w - eval u A * eval u (derivative w)) / eval u w ^ 2 = eval u (derivative Q) := by
  subst hA
  rw [div_eq_iff (pow_ne_zero 2 hw), derivative_mul, eval_add, eval_mul, eval_mul, eval_mul]
  ring

/-- `tangent` of a rational curve, quotient-rule form (through the span search, closed domain, positive weights) -/
theorem tangentCurve_rational_quotient (p d : ℕ) (Ul : List K) (Pw : List (List K))
    (hC : CurveWF p (d+1) Ul Pw) (hwt : ∀ i, i < Pw.length → 0 < (ptsGet Pw i).getD d 0) (u : K)
    (h1 : fnOf Ul p ≤ u) (h2 : u ≤ fnOf Ul Pw.length) (j : ℕ) (hj : j < d)
    (κ : ℕ) (hκ : κ = findSpanLinear p (fnOf Ul) Pw.length u) (w A : K[X])
    (hw : w = spanPoly p (fnOf Ul) Pw κ d) (hA : A = spanPoly p (fnOf Ul) Pw κ j) :
    0 < eval u w ∧
    (tangentCurve (ratCurveDers (curveDersA32 p (fnOf Ul) Pw κ u 1))).1.getD j 0 = eval u A / eval u w ∧
    (tangentCurve (ratCurveDers (curveDersA32 p (fnOf Ul) Pw κ u 1))).2.getD j 0
      = (eval u (derivative A) * eval u w - eval u A * eval u (derivative w)) / eval u w ^ 2 := by
  subst hκ hw hA
  obtain ⟨hpos, k0, k1⟩ := tangentCurve_rational_domain p d Ul Pw hC hwt u h1 h2 j hj
  exact ⟨hpos, quotient_rule_of_leibniz _ _ _ _ _ _ (ne_of_gt hpos) k0 k1⟩

/-! ### surfaces -/

/-- `tangent_surface_single` of a RATIONAL surface (A3.6 as coded on the span pair found, A4.4, the entries
    `[0][0]`, `[1][0]`, `[0][1]`): with `W`, `A` the weight / numerator polynomials of the span pair,
    `W > 0`, `W·S = A`, `W·S_u + W_u·S = A_u`, `W·S_v + W_v·S = A_v` -/
theorem tangentSurface_rational_domain (pu pv : ℕ) (Uu Uv : ℕ → K) (su sv : ℕ) (Pw : List (List K)) (u v : K)
    (d c : ℕ) (hUu : KnotsOk pu Uu su) (hUv : KnotsOk pv Uv sv) (hlen : Pw.length = su * sv) (hP : NetOk (d+1) Pw)
    (hwt : ∀ i, i < Pw.length → 0 < (ptsGet Pw i).getD d 0)
    (hu1 : Uu pu ≤ u) (hu2 : u ≤ Uu su) (hv1 : Uv pv ≤ v) (hv2 : v ≤ Uv sv) (hc : c < d)
    (κu κv : ℕ) (hκu : κu = findSpanLinear pu Uu su u) (hκv : κv = findSpanLinear pv Uv sv v) (W A : K[X][Y])
    (hW : W = surfSpanPoly pu pv Uu Uv sv Pw κu κv d) (hA : A = surfSpanPoly pu pv Uu Uv sv Pw κu κv c) :
    0 < W.evalEval u v ∧
    W.evalEval u v * (tangentSurface (ratSurfaceDers (surfaceDersA36 pu pv Uu Uv sv Pw κu κv u v 1) 1)).1.getD c 0
      = A.evalEval u v ∧
    W.evalEval u v * (tangentSurface (ratSurfaceDers (surfaceDersA36 pu pv Uu Uv sv Pw κu κv u v 1) 1)).2.1.getD c 0
      + (pderivU W).evalEval u v
        * (tangentSurface (ratSurfaceDers (surfaceDersA36 pu pv Uu Uv sv Pw κu κv u v 1) 1)).1.getD c 0
      = (pderivU A).evalEval u v ∧
    W.evalEval u v * (tangentSurface (ratSurfaceDers (surfaceDersA36 pu pv Uu Uv sv Pw κu κv u v 1) 1)).2.2.getD c 0
      + (pderivV W).evalEval u v
        * (tangentSurface (ratSurfaceDers (surfaceDersA36 pu pv Uu Uv sv Pw κu κv u v 1) 1)).1.getD c 0
      = (pderivV A).evalEval u v := by
  subst hκu hκv hW hA
  obtain ⟨hpos, k00⟩ := ratSurfaceDersA36_domain pu pv Uu Uv su sv Pw u v d c 1 0 0 hUu hUv hlen hP hwt hu1 hu2 hv1 hv2
    (by omega) (by omega) hc
  obtain ⟨_, k10⟩ := ratSurfaceDersA36_domain pu pv Uu Uv su sv Pw u v d c 1 1 0 hUu hUv hlen hP hwt hu1 hu2 hv1 hv2
    (by omega) (by omega) hc
  obtain ⟨_, k01⟩ := ratSurfaceDersA36_domain pu pv Uu Uv su sv Pw u v d c 1 0 1 hUu hUv hlen hP hwt hu1 hu2 hv1 hv2
    (by omega) (by omega) hc
  simp only [Finset.sum_range_succ, Finset.sum_range_zero, zero_add, Nat.choose_self, Nat.choose_zero_right,
    Nat.cast_one, one_mul, Function.iterate_zero, id_eq, Function.iterate_one, Nat.sub_zero, Nat.sub_self] at k00 k10 k01
  unfold tangentSurface
  exact ⟨hpos, k00, k10, k01⟩

/-- … quotient-rule form: `S = A / W`, `S_u = (A_u·W − A·W_u) / W²`, `S_v = (A_v·W − A·W_v) / W²` -/
theorem tangentSurface_rational_quotient (pu pv : ℕ) (Uu Uv : ℕ → K) (su sv : ℕ) (Pw : List (List K)) (u v : K)
    (d c : ℕ) (hUu : KnotsOk pu Uu su) (hUv : KnotsOk pv Uv sv) (hlen : Pw.length = su * sv) (hP : NetOk (d+1) Pw)
    (hwt : ∀ i, i < Pw.length → 0 < (ptsGet Pw i).getD d 0)
    (hu1 : Uu pu ≤ u) (hu2 : u ≤ Uu su) (hv1 : Uv pv ≤ v) (hv2 : v ≤ Uv sv) (hc : c < d)
    (κu κv : ℕ) (hκu : κu = findSpanLinear pu Uu su u) (hκv : κv = findSpanLinear pv Uv sv v) (W A : K[X][Y])
    (hW : W = surfSpanPoly pu pv Uu Uv sv Pw κu κv d) (hA : A = surfSpanPoly pu pv Uu Uv sv Pw κu κv c) :
    0 < W.evalEval u v ∧
    (tangentSurface (ratSurfaceDers (surfaceDersA36 pu pv Uu Uv sv Pw κu κv u v 1) 1)).1.getD c 0
      = A.evalEval u v / W.evalEval u v ∧
    (tangentSurface (ratSurfaceDers (surfaceDersA36 pu pv Uu Uv sv Pw κu κv u v 1) 1)).2.1.getD c 0
      = ((pderivU A).evalEval u v * W.evalEval u v - A.evalEval u v * (pderivU W).evalEval u v) / W.evalEval u v ^ 2 ∧
    (tangentSurface (ratSurfaceDers (surfaceDersA36 pu pv Uu Uv sv Pw κu κv u v 1) 1)).2.2.getD c 0
      = ((pderivV A).evalEval u v * W.evalEval u v - A.evalEval u v * (pderivV W).evalEval u v) / W.evalEval u v ^ 2 := by
  obtain ⟨hpos, k00, k10, k01⟩ := tangentSurface_rational_domain pu pv Uu Uv su sv Pw u v d c hUu hUv hlen hP hwt
    hu1 hu2 hv1 hv2 hc κu κv hκu hκv W A hW hA
  have hu := quotient_rule_of_leibniz _ _ _ _ _ _ (ne_of_gt hpos) k00 k10
  have hv := quotient_rule_of_leibniz _ _ _ _ _ _ (ne_of_gt hpos) k00 k01
  exact ⟨hpos, hu.1, hu.2, hv.2⟩

/-- the three vectors `tangent_surface_single` returns for a rational surface of dimension `d` have `d` coordinates
    (the weight coordinate is dropped by A4.4) -/
theorem tangentSurface_rational_length (pu pv : ℕ) (Uu Uv : ℕ → K) (su sv : ℕ) (Pw : List (List K)) (κu κv : ℕ)
    (u v : K) (d : ℕ) (hpu : pu ≤ κu) (hpv : pv ≤ κv) (hκu : κu < su) (hκv : κv < sv) (hlen : Pw.length = su * sv)
    (hP : NetOk (d+1) Pw) :
    (tangentSurface (ratSurfaceDers (surfaceDersA36 pu pv Uu Uv sv Pw κu κv u v 1) 1)).1.length = d ∧
    (tangentSurface (ratSurfaceDers (surfaceDersA36 pu pv Uu Uv sv Pw κu κv u v 1) 1)).2.1.length = d ∧
    (tangentSurface (ratSurfaceDers (surfaceDersA36 pu pv Uu Uv sv Pw κu κv u v 1) 1)).2.2.length = d := by
  rw [surfaceDersA36_eq pu pv Uu Uv su sv Pw κu κv u v (d+1) 1 hpu hpv hκu hκv hlen hP]
  have hw : ∀ i j, i ≤ 1 → j ≤ 1 → (tget (surfaceDersAt pu pv Uu Uv sv Pw κu κv u v 1 false) i j).length = d + 1 :=
    fun i j hi hj =>
      surfaceDersAt_entry_length pu pv Uu Uv su sv Pw κu κv u v (d+1) 1 false i j hpu hpv hκu hκv hlen hP hi hj
  have h := ratSurfaceDers_entry_length (surfaceDersAt pu pv Uu Uv sv Pw κu κv u v 1 false) 1 d hw
  exact ⟨h 0 0 (by omega) (by omega), h 1 0 (by omega) (by omega), h 0 1 (by omega) (by omega)⟩

/-- `normal_surface_single` of a RATIONAL 3-D surface: the point entry of the tangent triple and the cross product of
    its two tangent vectors (`Su c`, `Sv c` name their coordinates), orthogonal to both -/
theorem normalSurface_rational_domain (pu pv : ℕ) (Uu Uv : ℕ → K) (su sv : ℕ) (Pw : List (List K)) (u v : K)
    (hUu : KnotsOk pu Uu su) (hUv : KnotsOk pv Uv sv) (hlen : Pw.length = su * sv) (hP : NetOk (3+1) Pw)
    (hu1 : Uu pu ≤ u) (hu2 : u ≤ Uu su) (hv1 : Uv pv ≤ v) (hv2 : v ≤ Uv sv)
    (κu κv : ℕ) (hκu : κu = findSpanLinear pu Uu su u) (hκv : κv = findSpanLinear pv Uv sv v)
    (Su Sv : ℕ → K)
    (hSu : ∀ c, Su c = (tangentSurface (ratSurfaceDers (surfaceDersA36 pu pv Uu Uv sv Pw κu κv u v 1) 1)).2.1.getD c 0)
    (hSv : ∀ c, Sv c = (tangentSurface (ratSurfaceDers (surfaceDersA36 pu pv Uu Uv sv Pw κu κv u v 1) 1)).2.2.getD c 0) :
    ∃ n, normalSurface (ratSurfaceDers (surfaceDersA36 pu pv Uu Uv sv Pw κu κv u v 1) 1)
        = some ((tangentSurface (ratSurfaceDers (surfaceDersA36 pu pv Uu Uv sv Pw κu κv u v 1) 1)).1, n) ∧
      n = [Su 1 * Sv 2 - Su 2 * Sv 1, Su 2 * Sv 0 - Su 0 * Sv 2, Su 0 * Sv 1 - Su 1 * Sv 0] ∧
      n.getD 0 0 * Su 0 + n.getD 1 0 * Su 1 + n.getD 2 0 * Su 2 = 0 ∧
      n.getD 0 0 * Sv 0 + n.getD 1 0 * Sv 1 + n.getD 2 0 * Sv 2 = 0 := by
  subst hκu hκv
  obtain ⟨_, hpu, hku⟩ := findSpanLinear_dom hUu u hu1 hu2
  obtain ⟨_, hpv, hkv⟩ := findSpanLinear_dom hUv v hv1 hv2
  obtain ⟨_, h10, h01⟩ := tangentSurface_rational_length pu pv Uu Uv su sv Pw _ _ u v 3 hpu hpv hku hkv hlen hP
  obtain ⟨a0, a1, a2, ha⟩ := List.length_eq_three.mp h10
  obtain ⟨b0, b1, b2, hb⟩ := List.length_eq_three.mp h01
  rw [ha] at hSu
  rw [hb] at hSv
  have ea0 : Su 0 = a0 := hSu 0
  have ea1 : Su 1 = a1 := hSu 1
  have ea2 : Su 2 = a2 := hSu 2
  have eb0 : Sv 0 = b0 := hSv 0
  have eb1 : Sv 1 = b1 := hSv 1
  have eb2 : Sv 2 = b2 := hSv 2
  refine ⟨[a1 * b2 - a2 * b1, a2 * b0 - a0 * b2, a0 * b1 - a1 * b0], ?_, ?_, ?_, ?_⟩
  · unfold tangentSurface at ha hb ⊢
    unfold normalSurface
    simp only [] at ha hb
    rw [ha, hb]
    rfl
  · rw [ea0, ea1, ea2, eb0, eb1, eb2]
  · rw [ea0, ea1, ea2]
    simp only [List.getD_cons_zero, List.getD_cons_succ]
    ring
  · rw [eb0, eb1, eb2]
    simp only [List.getD_cons_zero, List.getD_cons_succ]
    ring

end Geomdl
