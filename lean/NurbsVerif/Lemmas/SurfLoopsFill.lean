import NurbsVerif.Lemmas.SurfLoopsArr

/-! Loops that assign array entries with values that do not depend on the loop state: the result is
    described by the set of assigned index tuples (`Fill`). -/
namespace Geomdl

/-- `T'` is `T` with the entries in `S` replaced by `g` (seen through `view`) -/
def Fill {σ I α : Type} (view : σ → I → α) (S : I → Prop) (g : I → α) (T T' : σ) : Prop :=
  (∀ x, S x → view T' x = g x) ∧ (∀ x, ¬ S x → view T' x = view T x)

theorem Fill.refl_empty {σ I α : Type} (view : σ → I → α) (g : I → α) (T : σ) :
    Fill view (fun _ => False) g T T :=
  ⟨fun _ h => h.elim, fun _ _ => rfl⟩

theorem Fill.comp {σ I α : Type} {view : σ → I → α} {A B : I → Prop} {g : I → α} {T0 T T' : σ}
    (h1 : Fill view A g T0 T) (h2 : Fill view B g T T') : Fill view (fun x => A x ∨ B x) g T0 T' := by
  refine ⟨fun x hx => ?_, fun x hx => ?_⟩
  · by_cases hb : B x
    · exact h2.1 x hb
    · rw [h2.2 x hb]
      rcases hx with ha | hb'
      · exact h1.1 x ha
      · exact absurd hb' hb
  · rw [h2.2 x (fun hb => hx (Or.inr hb)), h1.2 x (fun ha => hx (Or.inl ha))]

theorem Fill.congr_set {σ I α : Type} {view : σ → I → α} {A B : I → Prop} {g : I → α} {T T' : σ}
    (h : Fill view A g T T') (hAB : ∀ x, A x ↔ B x) : Fill view B g T T' :=
  ⟨fun x hx => h.1 x ((hAB x).mpr hx), fun x hx => h.2 x (fun ha => hx ((hAB x).mp ha))⟩

/-- `for x in range(n)`: if the body, started in a state reached by the earlier passes, fills `S x`,
    the loop fills the union -/
theorem Fill.loop {σ I α : Type} (view : σ → I → α) (g : I → α) (F : σ → ℕ → σ) (S : ℕ → I → Prop) (T0 : σ) :
    ∀ n, (∀ T x, x < n → Fill view (fun i => ∃ y, y < x ∧ S y i) g T0 T → Fill view (S x) g T (F T x)) →
      Fill view (fun i => ∃ x, x < n ∧ S x i) g T0 ((List.range n).foldl F T0) := by
  intro n
  induction n with
  | zero =>
    intro _
    exact (Fill.refl_empty view g T0).congr_set (fun x => ⟨fun h => h.elim, fun ⟨_, h, _⟩ => by omega⟩)
  | succ n ih =>
    intro hF
    rw [List.range_succ, List.foldl_append]
    simp only [List.foldl_cons, List.foldl_nil]
    have h1 := ih (fun T x hx => hF T x (by omega))
    have h2 := hF _ n (by omega) h1
    refine (h1.comp h2).congr_set (fun i => ⟨?_, ?_⟩)
    · rintro (⟨x, hx, hs⟩ | hs)
      · exact ⟨x, by omega, hs⟩
      · exact ⟨n, by omega, hs⟩
    · rintro ⟨x, hx, hs⟩
      by_cases hxn : x = n
      · subst hxn; exact Or.inr hs
      · exact Or.inl ⟨x, by omega, hs⟩

/-- the same for `for x in range(a, a + n)` (`List.range' a n`) -/
theorem Fill.loop' {σ I α : Type} (view : σ → I → α) (g : I → α) (F : σ → ℕ → σ) (S : ℕ → I → Prop) (T0 : σ)
    (a : ℕ) : ∀ n, (∀ T x, a ≤ x → x < a + n → Fill view (fun i => ∃ y, a ≤ y ∧ y < x ∧ S y i) g T0 T →
        Fill view (S x) g T (F T x)) →
      Fill view (fun i => ∃ x, a ≤ x ∧ x < a + n ∧ S x i) g T0 ((List.range' a n).foldl F T0) := by
  intro n hF
  have hr : List.range' a n = (List.range n).map (fun x => a + x) := by
    rw [List.range_eq_range', List.map_add_range']
    simp
  rw [hr, List.foldl_map]
  have := Fill.loop view g (fun T x => F T (a + x)) (fun x => S (a + x)) T0 n (by
    intro T x hx hT
    apply hF T (a + x) (by omega) (by omega)
    refine hT.congr_set (fun i => ⟨?_, ?_⟩)
    · rintro ⟨y, hy, hs⟩; exact ⟨a + y, by omega, by omega, hs⟩
    · rintro ⟨y, hy1, hy2, hs⟩
      refine ⟨y - a, by omega, ?_⟩
      rw [show a + (y - a) = y by omega]; exact hs)
  refine this.congr_set (fun i => ⟨?_, ?_⟩)
  · rintro ⟨x, hx, hs⟩; exact ⟨a + x, by omega, by omega, hs⟩
  · rintro ⟨x, hx1, hx2, hs⟩
    refine ⟨x - a, by omega, ?_⟩
    rw [show a + (x - a) = x by omega]; exact hs

/-- the view of a 4-D array on index tuples -/
def view4 {α : Type} (T : Arr4 α) (x : ℕ × ℕ × ℕ × ℕ) : α := T.get x.1 x.2.1 x.2.2.1 x.2.2.2

/-- one assignment fills one entry -/
theorem Fill.upd4 {α : Type} (g : ℕ × ℕ × ℕ × ℕ → α) (T : Arr4 α) (k l i j : ℕ) (v : α) (hv : v = g (k, l, i, j)) :
    Fill view4 (fun x => x = (k, l, i, j)) g T (Geomdl.upd4 T k l i j v) := by
  refine ⟨fun x hx => ?_, fun x hx => ?_⟩
  · subst hx
    simp [view4, upd4_get, hv]
  · obtain ⟨a, b, c, e⟩ := x
    simp only [view4, upd4_get]
    rw [if_neg]
    intro h
    apply hx
    obtain ⟨rfl, rfl, rfl, rfl⟩ := h
    rfl

end Geomdl
