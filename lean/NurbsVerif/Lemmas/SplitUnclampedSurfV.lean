import NurbsVerif.Lemmas.SplitUnclampedSurfU

/-! `operations.split_surface_v` end to end through the model `splitDir … 1`, for v knot vectors that
    need NOT be clamped. -/
set_option linter.unusedSectionVars false
namespace Geomdl
open Blossom
variable {K : Type} [Field K] [LinearOrder K] [IsStrictOrderedRing K]

/-- **`split_surface_v` end to end, v knot vector clamped or not** (multiplicity hypotheses in the
    `MultExact` form): the mirror image of `split_surface_u_unclamped_main` (rows instead of columns). -/
theorem split_surface_v_unclamped_main (rat : Bool) (pu pv d : ℕ) (Uu Uv : List K) (su sv : ℕ)
    (P : List (List K)) (vb tol : K)
    (hP : NetOk d P) (hlenP : P.length = su * sv)
    (hUm : Monotone (fnOf Uu)) (hUne : Uu ≠ []) (hUr : Uu.headD 0 < Uu.getLastD 0) (hsu : pu + 1 ≤ su)
    (hV : SplitKvWF pv sv Uv) (hlo : fnOf Uv pv < vb) (hhi : vb < fnOf Uv sv)
    (hmx : MultExact pv (fnOf Uv) (findSpanLinear pv (fnOf Uv) sv vb) (findMultiplicity vb Uv tol) vb) :
    ∃ UA nA PA UB nB PB,
      splitDir (surfShape rat pu pv Uu Uv su sv P) 1 vb tol
        = some (surfShape rat pu pv (knotNormalize Uu) UA su nA PA, surfShape rat pu pv (knotNormalize Uu) UB su nB PB) ∧
      SplitKvWF pv nA UA ∧ SplitKvWF pv nB UB ∧
      fnOf UA 0 = 0 ∧ fnOf UA pv = (fnOf Uv pv - fnOf Uv 0) / (vb - fnOf Uv 0) ∧
      (∀ i, nA ≤ i → fnOf UA i = 1) ∧
      (∀ i, i ≤ pv → fnOf UB i = 0) ∧
      fnOf UB nB = (fnOf Uv sv - vb) / (fnOf Uv (sv + pv) - vb) ∧ fnOf UB (nB + pv) = 1 ∧
      PA.length = su * nA ∧ PB.length = su * nB ∧ NetOk d PA ∧ NetOk d PB ∧
      nA + nB = sv + (pv - findMultiplicity vb Uv tol) + 1 ∧
      (∀ u, fnOf Uu pu ≤ u → ∀ t, 0 ≤ t → t ≤ 1 → ∀ j,
        (surfacePoint pu pv (fnOf (knotNormalize Uu)) (fnOf UA) su nA PA
            ((u - Uu.headD 0) / (Uu.getLastD 0 - Uu.headD 0))
            (fnOf UA pv + t * (fnOf UA nA - fnOf UA pv))).getD j 0
          = (surfacePoint pu pv (fnOf Uu) (fnOf Uv) su sv P u (fnOf Uv pv + t * (vb - fnOf Uv pv))).getD j 0) ∧
      (∀ u, fnOf Uu pu ≤ u → ∀ t, 0 ≤ t → t ≤ 1 → ∀ j,
        (surfacePoint pu pv (fnOf (knotNormalize Uu)) (fnOf UB) su nB PB
            ((u - Uu.headD 0) / (Uu.getLastD 0 - Uu.headD 0))
            (fnOf UB pv + t * (fnOf UB nB - fnOf UB pv))).getD j 0
          = (surfacePoint pu pv (fnOf Uu) (fnOf Uv) su sv P u (vb + t * (fnOf Uv sv - vb))).getD j 0) := by
  have hsu0 : 0 < su := by omega
  have hrowWF : ∀ x, x < su → CurveWF pv d Uv (rowOf sv P x) := fun x hx =>
    hV.toWF (rowOf sv P x) (rowOf_length sv P x) (rowOf_netOk su sv d P hP hlenP x hx)
  obtain ⟨k1, k2, _, _⟩ := findSpanLinear_spec pv (fnOf Uv) sv vb hV.pn hV.mono (le_of_lt hlo)
  obtain ⟨hsz, hlenR, hnetR, hrowsR⟩ := refinedV_rows su sv pv d Uv P vb tol hsu0 hP hlenP k1 k2 hmx.le
  have hrow : ∀ x, x < su →
      CutOkU pv d (refinedV su sv pv Uv P vb tol).1
        (rowOf (sv + (pv - findMultiplicity vb Uv tol)) (refinedV su sv pv Uv P vb tol).2.1 x) vb
        (findSpanLinear pv (fnOf Uv) sv vb + (pv - findMultiplicity vb Uv tol)) := by
    intro x hx
    have := splitRefined_cutU pv d Uv (rowOf sv P x) vb tol (hrowWF x hx) hV.hp
      (by exact hlo) (by rw [rowOf_length]; exact hhi) (by rw [rowOf_length]; exact hmx)
    rw [rowOf_length, (hrowsR x hx).1, ← (hrowsR x hx).2] at this
    exact this
  have hexp : ∀ x, x < su → _ := fun x hx =>
    split_pieces_explicitU pv d Uv (rowOf sv P x) vb tol (hrowWF x hx) hV.hp
      (by exact hlo) (by rw [rowOf_length]; exact hhi) (by rw [rowOf_length]; exact hmx)
  have hends := splitRefined_ends pv d Uv (rowOf sv P 0) vb tol (hrowWF 0 hsu0)
      (by exact hlo) (by rw [rowOf_length]; exact hhi) (by rw [rowOf_length]; exact hmx)
  rw [(hrowsR 0 hsu0).1, ← (hrowsR 0 hsu0).2, rowOf_length, rowOf_length] at hends
  obtain ⟨hW0, hWp, hWN, hWL⟩ := hends
  have hnot : ¬ (vb = Uv.getD pv 0 ∨ vb = Uv.getD sv 0) := by
    have hl := hV.len
    rw [fnOf_getD Uv pv (by omega), fnOf_getD Uv sv (by omega)]
    intro h
    rcases h with h | h
    · rw [h] at hlo; exact lt_irrefl _ hlo
    · rw [h] at hhi; exact lt_irrefl _ hhi
  have hcut0 := hrow 0 hsu0
  have hspan : findSpanLinear pv (fnOf (refinedV su sv pv Uv P vb tol).1) (refinedV su sv pv Uv P vb tol).2.2 vb
      = findSpanLinear pv (fnOf Uv) sv vb + (pv - findMultiplicity vb Uv tol) := by
    have := hcut0.span
    rw [rowOf_length] at this
    rw [hsz]; exact this
  have heq := splitDir_surfShape_v rat pu pv Uu Uv su sv P vb tol hnot
  rw [hspan, hsz] at heq
  set k := findSpanLinear pv (fnOf Uv) sv vb with hk
  set s := findMultiplicity vb Uv tol with hs
  set W := (refinedV su sv pv Uv P vb tol).1 with hW
  set Q := (refinedV su sv pv Uv P vb tol).2.1 with hQ
  have hm := hcut0.hm
  have hpm := hcut0.hpm
  rw [rowOf_length] at hm
  have e1 : k - pv + 1 + (pv - s) = k + (pv - s) - pv + 1 := by omega
  have e2 : k + (pv - s) - pv + 1 - 1 = k + (pv - s) - pv := by omega
  rw [e1, e2] at heq
  set fA : List (List K) → List (List K) := fun c => (c.take (k + (pv - s) - pv + 1)).drop 0 with hfA
  set fB : List (List K) → List (List K) := fun c => (c.take (sv + (pv - s))).drop (k + (pv - s) - pv) with hfB
  have hfAlen : ∀ x, x < su → (fA (rowOf (sv + (pv - s)) Q x)).length = k + (pv - s) - pv + 1 := by
    intro x _; simp only [hfA, List.drop_zero, List.length_take, rowOf_length]; omega
  have hfBlen : ∀ x, x < su → (fB (rowOf (sv + (pv - s)) Q x)).length = sv + (pv - s) - (k + (pv - s) - pv) := by
    intro x _; simp only [hfB, List.length_drop, List.length_take, rowOf_length]; omega
  have hrowQ : ∀ x, x < su → NetOk d (rowOf (sv + (pv - s)) Q x) := fun x hx => (hrow x hx).wf.net
  have hfAnet : ∀ x, x < su → NetOk d (fA (rowOf (sv + (pv - s)) Q x)) := by
    intro x hx pt hpt
    exact hrowQ x hx pt (List.mem_of_mem_take (List.mem_of_mem_drop hpt))
  have hfBnet : ∀ x, x < su → NetOk d (fB (rowOf (sv + (pv - s)) Q x)) := by
    intro x hx pt hpt
    exact hrowQ x hx pt (List.mem_of_mem_take (List.mem_of_mem_drop hpt))
  have hszA := mapSurfV_size su (sv + (pv - s)) _ Q fA hsu0 (hfAlen 0 hsu0)
  have hszB := mapSurfV_size su (sv + (pv - s)) _ Q fB hsu0 (hfBlen 0 hsu0)
  obtain ⟨hlenA, hnetA⟩ := mapSurfV_net su (sv + (pv - s)) _ d Q fA hfAlen hfAnet
  obtain ⟨hlenB, hnetB⟩ := mapSurfV_net su (sv + (pv - s)) _ d Q fB hfBlen hfBnet
  have hrowsA := mapSurfV_rows su (sv + (pv - s)) _ Q fA hfAlen
  have hrowsB := mapSurfV_rows su (sv + (pv - s)) _ Q fB hfBlen
  rw [hszA, hszB] at heq
  obtain ⟨wA, a0, ap, a1⟩ := hcut0.leftNorm
  obtain ⟨wB, b0, bn, bl⟩ := hcut0.rightNorm
  have kA := wA.toSplitKvWF hV.hp
  have kB := wB.toSplitKvWF hV.hp
  rw [List.length_take, rowOf_length, show min (k + (pv - s) - pv + 1) (sv + (pv - s)) = k + (pv - s) - pv + 1 by omega] at kA
  rw [List.length_drop, rowOf_length] at kB
  rw [rowOf_length] at bn bl
  rw [hWp, hW0] at ap
  rw [hWN, hWL] at bn
  have hAdom : fnOf (knotNormalize (leftKv W vb (k + (pv - s)))) pv
      ≤ fnOf (knotNormalize (leftKv W vb (k + (pv - s)))) (k + (pv - s) - pv + 1) := kA.mono (by omega)
  have hBdom : fnOf (knotNormalize (rightKv pv W vb (k + (pv - s)))) pv
      ≤ fnOf (knotNormalize (rightKv pv W vb (k + (pv - s)))) (sv + (pv - s) - (k + (pv - s) - pv)) :=
    kB.mono (by omega)
  refine ⟨_, _, _, _, _, _, heq, kA, kB, a0, ap, a1, b0, bn, bl, hlenA, hlenB, hnetA, hnetB, by omega, ?_, ?_⟩
  · intro u hu t ht0 ht1 j
    apply surface_rows_eval pu pv d Uu _ Uv su _ sv _ P u _ _ j hUm hUne hUr hsu hu hnetA hlenA hP hlenP
    · obtain ⟨b1, b2, _, _⟩ := findSpanLinear_spec pv _ (k + (pv - s) - pv + 1)
        (fnOf (knotNormalize (leftKv W vb (k + (pv - s)))) pv
          + t * (fnOf (knotNormalize (leftKv W vb (k + (pv - s)))) (k + (pv - s) - pv + 1)
            - fnOf (knotNormalize (leftKv W vb (k + (pv - s)))) pv)) kA.pn kA.mono (by nlinarith)
      exact ⟨b1, b2⟩
    · have hpos : 0 < vb - fnOf Uv pv := sub_pos.mpr hlo
      obtain ⟨b1, b2, _, _⟩ := findSpanLinear_spec pv (fnOf Uv) sv (fnOf Uv pv + t * (vb - fnOf Uv pv)) hV.pn hV.mono
        (by nlinarith)
      exact ⟨b1, b2⟩
    · intro x hx
      rw [hrowsA x hx]
      have := (hexp x hx).1 t ht0 ht1 j
      rw [rowOf_length, (hrowsR x hx).1, ← (hrowsR x hx).2] at this
      simp only [hfA, List.drop_zero]
      exact this
  · intro u hu t ht0 ht1 j
    apply surface_rows_eval pu pv d Uu _ Uv su _ sv _ P u _ _ j hUm hUne hUr hsu hu hnetB hlenB hP hlenP
    · obtain ⟨b1, b2, _, _⟩ := findSpanLinear_spec pv _ (sv + (pv - s) - (k + (pv - s) - pv))
        (fnOf (knotNormalize (rightKv pv W vb (k + (pv - s)))) pv
          + t * (fnOf (knotNormalize (rightKv pv W vb (k + (pv - s)))) (sv + (pv - s) - (k + (pv - s) - pv))
            - fnOf (knotNormalize (rightKv pv W vb (k + (pv - s)))) pv)) kB.pn kB.mono (by nlinarith)
      exact ⟨b1, b2⟩
    · have hpos : 0 < fnOf Uv sv - vb := sub_pos.mpr hhi
      have : fnOf Uv pv ≤ vb := le_of_lt hlo
      obtain ⟨b1, b2, _, _⟩ := findSpanLinear_spec pv (fnOf Uv) sv (vb + t * (fnOf Uv sv - vb)) hV.pn hV.mono
        (by nlinarith)
      exact ⟨b1, b2⟩
    · intro x hx
      rw [hrowsB x hx]
      have := (hexp x hx).2 t ht0 ht1 j
      rw [rowOf_length, (hrowsR x hx).1, ← (hrowsR x hx).2, rowOf_length] at this
      have e : fB (rowOf (sv + (pv - s)) Q x) = (rowOf (sv + (pv - s)) Q x).drop (k + (pv - s) - pv) := by
        simp only [hfB]
        rw [List.take_of_length_le (by rw [rowOf_length])]
      rw [e]
      exact this

end Geomdl
