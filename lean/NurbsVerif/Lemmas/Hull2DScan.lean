import NurbsVerif.Lemmas.Hull2DCone

/-!
C20, convex hull: the invariant of one scan `reduce(keep_left, pts, [])` of the monotone chain over a
list sorted with respect to a half-plane cone (Andrew's invariant: after a sorted prefix has been
processed the stack is the strictly convex chain below which no processed point lies).
-/
namespace Geomdl
variable {K : Type} [Field K] [LinearOrder K] [IsStrictOrderedRing K]

/-- the edges `(a, b)` (in push order) of a top-first stack `… b a …` -/
def stackEdges {α : Type} : List α → List (α × α)
  | b :: a :: rest => (a, b) :: stackEdges (a :: rest)
  | _ => []

theorem stackEdges_cons_subset {α : Type} (x : α) : ∀ (l : List α), ∀ e ∈ stackEdges l, e ∈ stackEdges (x :: l)
  | [], e, he => by simp [stackEdges] at he
  | _ :: _, e, he => by simp only [stackEdges]; exact List.mem_cons_of_mem _ he

theorem stackEdges_suffix {α : Type} : ∀ (l2 l1 : List α), l1 <:+ l2 → ∀ e ∈ stackEdges l1, e ∈ stackEdges l2
  | [], l1, h, e, he => by
    rw [List.suffix_nil] at h; subst h; exact he
  | x :: l2, l1, h, e, he => by
    rcases List.suffix_cons_iff.mp h with h | h
    · subst h; exact he
    · exact stackEdges_cons_subset x l2 e (stackEdges_suffix l2 l1 h e he)

theorem turn_eq_one_iff (a b c : K × K) : turn a b c = 1 ↔ 0 < isLeft a b c := by
  have : turn a b c = cmpK (isLeft a b c) 0 := rfl
  rw [this]; unfold cmpK
  split_ifs with h1 h2 h2
  · exact absurd (lt_trans h1 h2) (lt_irrefl _)
  · simp [h1]
  · simp [h1]
  · simp [h1]

theorem popWhile_suffix (r : K × K) : ∀ (st : List (K × K)), popWhile r st <:+ st
  | [] => by simp [popWhile]
  | [_] => by simp [popWhile]
  | b :: a :: rest => by
    rw [popWhile]
    split_ifs
    · exact (popWhile_suffix r (a :: rest)).trans (List.suffix_cons b _)
    · exact List.suffix_refl _

theorem popWhile_ne_nil (r : K × K) : ∀ (st : List (K × K)), st ≠ [] → popWhile r st ≠ []
  | [], h => absurd rfl h
  | [_], _ => by simp [popWhile]
  | b :: a :: rest, _ => by
    rw [popWhile]
    split_ifs
    · exact popWhile_ne_nil r (a :: rest) (by simp)
    · simp

theorem popWhile_getLast? (r : K × K) : ∀ (st : List (K × K)), (popWhile r st).getLast? = st.getLast?
  | [] => by simp [popWhile]
  | [_] => by simp [popWhile]
  | b :: a :: rest => by
    rw [popWhile]
    split_ifs
    · rw [popWhile_getLast? r (a :: rest), List.getLast?_cons_cons]
    · rfl

theorem keepLeft_eq (st : List (K × K)) (r t : K × K) (rest : List (K × K)) (h : popWhile r st = t :: rest) :
    keepLeft st r = if t ≠ r then r :: t :: rest else t :: rest := by
  unfold keepLeft
  simp only [h]

section scan
variable {pos : K → K → Prop} (hc : IsCone pos)
include hc

/-- after the pops for the new point `r`, every processed point that is not before the new top `t`
    is left-or-on the segment `t r` -/
theorem popWhile_front (S : List (K × K)) (r : K × K) : ∀ (st : List (K × K)),
    st.Pairwise (fun x y => clt pos y x) → (∀ x ∈ st, cle pos x r) →
    (∀ q ∈ S, ∀ e ∈ stackEdges st, 0 ≤ isLeft e.1 e.2 q) →
    (∀ t rest, st = t :: rest → ∀ q ∈ S, cle pos t q → 0 ≤ isLeft t r q) →
    ∀ t rest, popWhile r st = t :: rest → ∀ q ∈ S, cle pos t q → 0 ≤ isLeft t r q
  | [], _, _, _, _, t, rest, h => by simp [popWhile] at h
  | [b], _, _, _, h0, t, rest, h => by
    simp only [popWhile] at h
    exact h0 t rest h
  | b :: a :: tl, hs, hr, hcont, h0, t, rest, h => by
    rw [popWhile] at h
    split_ifs at h with hturn
    · have hs' : (a :: tl).Pairwise (fun x y => clt pos y x) := (List.pairwise_cons.mp hs).2
      have hab : clt pos a b := (List.pairwise_cons.mp hs).1 a List.mem_cons_self
      have har : clt pos a r := clt_of_clt_of_cle hc hab (hr b List.mem_cons_self)
      refine popWhile_front S r (a :: tl) hs' (fun x hx => hr x (List.mem_cons_of_mem _ hx))
        (fun q hq e he => hcont q hq e (stackEdges_cons_subset b _ e he)) ?_ t rest h
      intro t' rest' heq q hq hle
      simp only [List.cons.injEq] at heq
      obtain ⟨rfl, _⟩ := heq
      have h1 : 0 ≤ isLeft a b q := hcont q hq (a, b) (by simp [stackEdges])
      have h2 : isLeft a b r ≤ 0 := by
        by_contra hn
        exact hturn ((turn_eq_one_iff a b r).mpr (not_le.mp hn))
      exact pop_step hc hab hle har h1 h2
    · exact h0 t rest h

/-- a point `r` behind the top that is strictly left of the top edge of a strictly convex sorted chain
    is strictly left of every edge of the chain -/
theorem chain_left_all (r : K × K) : ∀ (st : List (K × K)), LeftChain st →
    st.Pairwise (fun x y => clt pos y x) →
    (∀ b a rest, st = b :: a :: rest → clt pos b r ∧ 0 < isLeft a b r) →
    ∀ e ∈ stackEdges st, 0 < isLeft e.1 e.2 r
  | [], _, _, _, e, he => by simp [stackEdges] at he
  | [_], _, _, _, e, he => by simp [stackEdges] at he
  | [b, a], _, _, h, e, he => by
    simp only [stackEdges, List.mem_singleton] at he
    subst he
    exact (h b a [] rfl).2
  | c :: b :: a :: rest, hch, hs, h, e, he => by
    simp only [stackEdges, List.mem_cons] at he
    obtain ⟨hcr, hbcr⟩ := h c b (a :: rest) rfl
    rcases he with he | he
    · subst he; exact hbcr
    · have hs' := (List.pairwise_cons.mp hs).2
      have hbc : clt pos b c := (List.pairwise_cons.mp hs).1 b List.mem_cons_self
      have hab : clt pos a b := (List.pairwise_cons.mp hs').1 a List.mem_cons_self
      have hbr : clt pos b r := clt_trans hc hbc hcr
      have habc : 0 < isLeft a b c := (turn_eq_one_iff a b c).mp hch.1
      refine chain_left_all r (b :: a :: rest) hch.2 hs' ?_ e (by simpa [stackEdges] using he)
      intro b' a' rest' heq
      simp only [List.cons.injEq] at heq
      obtain ⟨rfl, rfl, _⟩ := heq
      exact ⟨hbr, left_chain_step hc hab hbc hbr habc hbcr⟩

/-- **Invariant of the scan**: `m` is the first point, `S` the points processed so far, `st` the
    stack (top first). -/
structure ScanInv (pos : K → K → Prop) (m : K × K) (S st : List (K × K)) : Prop where
  sub : ∀ x ∈ st, x ∈ S
  sorted : st.Pairwise (fun x y => clt pos y x)
  chain : LeftChain st
  contain : ∀ q ∈ S, ∀ e ∈ stackEdges st, 0 ≤ isLeft e.1 e.2 q
  bottom : st.getLast? = some m
  minS : ∀ q ∈ S, cle pos m q
  top : ∃ t rest, st = t :: rest ∧ ∀ q ∈ S, cle pos q t

omit hc in
theorem ScanInv.congr {m : K × K} {S S' st : List (K × K)} (h : ∀ q, q ∈ S ↔ q ∈ S')
    (inv : ScanInv pos m S st) : ScanInv pos m S' st where
  sub := fun x hx => (h x).mp (inv.sub x hx)
  sorted := inv.sorted
  chain := inv.chain
  contain := fun q hq => inv.contain q ((h q).mpr hq)
  bottom := inv.bottom
  minS := fun q hq => inv.minS q ((h q).mpr hq)
  top := by
    obtain ⟨t, rest, e, ht⟩ := inv.top
    exact ⟨t, rest, e, fun q hq => ht q ((h q).mpr hq)⟩

omit hc in
theorem ScanInv.init (m : K × K) : ScanInv pos m [m] [m] where
  sub := fun x hx => hx
  sorted := List.pairwise_singleton _ _
  chain := trivial
  contain := by intro q _ e he; simp [stackEdges] at he
  bottom := rfl
  minS := by intro q hq; rw [List.mem_singleton] at hq; exact Or.inl hq.symm
  top := ⟨m, [], rfl, by intro q hq; rw [List.mem_singleton] at hq; exact Or.inl hq⟩

/-- one `keep_left(hull, r)` with `r` not before any processed point keeps the invariant -/
theorem ScanInv.step {m r : K × K} {S st : List (K × K)} (inv : ScanInv pos m S st)
    (hr : ∀ q ∈ S, cle pos q r) : ScanInv pos m (r :: S) (keepLeft st r) := by
  obtain ⟨t0, rest0, hst0, htop0⟩ := inv.top
  have hne : st ≠ [] := by rw [hst0]; simp
  have hsuf := popWhile_suffix r st
  have hbot : (popWhile r st).getLast? = some m := by rw [popWhile_getLast?]; exact inv.bottom
  have hmS : m ∈ S := inv.sub m (List.mem_of_getLast? inv.bottom)
  have hmr : cle pos m r := hr m hmS
  -- the processed points not before the new top are left-or-on `t r`
  have hfront := popWhile_front hc S r st inv.sorted (fun x hx => hr x (inv.sub x hx)) inv.contain
    (by
      intro t rest heq q hq hle
      rw [hst0] at heq
      simp only [List.cons.injEq] at heq
      obtain ⟨rfl, _⟩ := heq
      have : q = t0 := cle_antisymm hc (htop0 q hq) hle
      subst this
      unfold isLeft; apply le_of_eq; ring)
  have hsorted' : (popWhile r st).Pairwise (fun x y => clt pos y x) := inv.sorted.sublist hsuf.sublist
  have hchain' : LeftChain (popWhile r st) := popWhile_chain r st inv.chain
  have hsub' : ∀ x ∈ popWhile r st, x ∈ S := fun x hx => inv.sub x (hsuf.subset hx)
  have hcont' : ∀ q ∈ S, ∀ e ∈ stackEdges (popWhile r st), 0 ≤ isLeft e.1 e.2 q :=
    fun q hq e he => inv.contain q hq e (stackEdges_suffix st _ hsuf e he)
  have htopturn := popWhile_top r st
  match hpw : popWhile r st with
  | [] => exact absurd hpw (popWhile_ne_nil r st hne)
  | t :: rest =>
    rw [hpw] at hsorted' hchain' hsub' hcont' hbot
    have htS : t ∈ S := hsub' t List.mem_cons_self
    rw [keepLeft_eq st r t rest hpw]
    by_cases htr : t = r
    · -- duplicate of the top: nothing is pushed
      rw [if_neg (not_not.mpr htr)]
      subst htr
      refine ⟨fun x hx => List.mem_cons_of_mem _ (hsub' x hx), hsorted', hchain', ?_, hbot, ?_, ?_⟩
      · intro q hq e he
        rcases List.mem_cons.mp hq with rfl | hq
        · exact hcont' _ htS e he
        · exact hcont' q hq e he
      · intro q hq
        rcases List.mem_cons.mp hq with rfl | hq
        · exact hmr
        · exact inv.minS q hq
      · refine ⟨t, rest, rfl, ?_⟩
        intro q hq
        rcases List.mem_cons.mp hq with rfl | hq
        · exact Or.inl rfl
        · exact hr q hq
    · rw [if_pos htr]
      have htr' : clt pos t r := by
        rcases hr t htS with h | h
        · exact absurd h htr
        · exact h
      have hallt : ∀ x ∈ t :: rest, cle pos x t := by
        intro x hx
        rcases List.mem_cons.mp hx with rfl | hx
        · exact Or.inl rfl
        · exact Or.inr ((List.pairwise_cons.mp hsorted').1 x hx)
      refine ⟨?_, ?_, ?_, ?_, ?_, ?_, ?_⟩
      · intro x hx
        rcases List.mem_cons.mp hx with rfl | hx
        · exact List.mem_cons_self
        · exact List.mem_cons_of_mem _ (hsub' x hx)
      · exact List.pairwise_cons.mpr ⟨fun x hx => clt_of_cle_of_clt hc (hallt x hx) htr', hsorted'⟩
      · cases rest with
        | nil => trivial
        | cons a rest' => exact ⟨htopturn t a rest' hpw, hchain'⟩
      · intro q hq e he
        have he' : e = (t, r) ∨ e ∈ stackEdges (t :: rest) := by
          cases rest with
          | nil => left; simpa [stackEdges] using he
          | cons a rest' => simpa [stackEdges] using he
        rcases he' with rfl | he'
        · -- the new edge
          rcases List.mem_cons.mp hq with rfl | hq
          · show 0 ≤ isLeft t q q
            unfold isLeft; apply le_of_eq; ring
          · rcases cle_or_clt hc t q with hle | hlt
            · exact hfront t rest hpw q hq hle
            · cases rest with
              | nil =>
                simp only [List.getLast?_singleton, Option.some.injEq] at hbot
                subst hbot
                exact absurd (clt_of_cle_of_clt hc (inv.minS q hq) hlt) (clt_irrefl hc t)
              | cons a rest' =>
                have hat : clt pos a t := (List.pairwise_cons.mp hsorted').1 a List.mem_cons_self
                have h1 : 0 ≤ isLeft a t q := hcont' q hq (a, t) (by simp [stackEdges])
                have h2 : 0 < isLeft a t r := (turn_eq_one_iff a t r).mp (htopturn t a rest' hpw)
                exact push_step hc hat (Or.inr hlt) htr' h1 h2
        · -- an old edge
          rcases List.mem_cons.mp hq with rfl | hq
          · refine le_of_lt (chain_left_all hc q (t :: rest) hchain' hsorted' ?_ e he')
            intro b a rest' heq
            simp only [List.cons.injEq] at heq
            obtain ⟨hb, hrest⟩ := heq
            subst hb
            exact ⟨htr', (turn_eq_one_iff a t q).mp (htopturn t a rest' (by rw [hpw, hrest]))⟩
          · exact hcont' q hq e he'
      · rw [List.getLast?_cons_cons]; exact hbot
      · intro q hq
        rcases List.mem_cons.mp hq with rfl | hq
        · exact hmr
        · exact inv.minS q hq
      · refine ⟨r, t :: rest, rfl, ?_⟩
        intro q hq
        rcases List.mem_cons.mp hq with rfl | hq
        · exact Or.inl rfl
        · exact hr q hq

/-- the invariant holds after the whole scan of a sorted list -/
theorem ScanInv.foldl {m : K × K} : ∀ (pts S st : List (K × K)), ScanInv pos m S st →
    (∀ q ∈ S, ∀ r ∈ pts, cle pos q r) → pts.Pairwise (cle pos) →
    ScanInv pos m (pts.reverse ++ S) (pts.foldl keepLeft st)
  | [], S, st, inv, _, _ => by simpa using inv
  | r :: pts, S, st, inv, hS, hp => by
    rw [List.foldl_cons]
    have hp' := List.pairwise_cons.mp hp
    have h1 := ScanInv.step hc inv (fun q hq => hS q hq r List.mem_cons_self)
    have h2 := ScanInv.foldl pts (r :: S) (keepLeft st r) h1 ?_ hp'.2
    · have e : (r :: pts).reverse ++ S = pts.reverse ++ r :: S := by simp
      rw [e]; exact h2
    · intro q hq r' hr'
      rcases List.mem_cons.mp hq with rfl | hq
      · exact hp'.1 r' hr'
      · exact hS q hq r' (List.mem_cons_of_mem _ hr')

/-- the scan of a non-empty sorted list `m :: pts` -/
theorem scanInv_sorted (m : K × K) (pts : List (K × K)) (hp : (m :: pts).Pairwise (cle pos)) :
    ScanInv pos m (m :: pts) ((m :: pts).foldl keepLeft []) := by
  have e : (m :: pts).foldl keepLeft [] = pts.foldl keepLeft [m] := by
    simp [keepLeft, popWhile]
  rw [e]
  have hp' := List.pairwise_cons.mp hp
  have h := ScanInv.foldl hc pts [m] [m] (ScanInv.init m)
    (by intro q hq r hr; rw [List.mem_singleton] at hq; subst hq; exact hp'.1 r hr) hp'.2
  refine ScanInv.congr ?_ h
  intro q
  simp only [List.mem_append, List.mem_reverse, List.mem_singleton, List.mem_cons]
  tauto

end scan
end Geomdl
