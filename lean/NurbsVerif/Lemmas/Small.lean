import Mathlib.Algebra.BigOperators.Intervals
import Mathlib.Algebra.Order.BigOperators.Ring.Finset
import Mathlib.Algebra.Order.Field.Basic
import Mathlib.Data.Nat.Choose.Sum
import Mathlib.Tactic.Ring
import Mathlib.Tactic.FieldSimp
import Mathlib.Tactic.Linarith
import Mathlib.Tactic.LinearCombination
import Mathlib.Algebra.BigOperators.Field

open Finset

/-! ### C10 / C18: affine invariance and bounds of convex combinations -/
section Convex
variable {K : Type} [Field K] [LinearOrder K] [IsStrictOrderedRing K]

/-- a combination with coefficients summing to one commutes with `x ↦ a * x + b` -/
theorem affine_comb (n : ℕ) (c x : ℕ → K) (a b : K) (hc : ∑ i ∈ range n, c i = 1) :
    ∑ i ∈ range n, c i * (a * x i + b) = a * (∑ i ∈ range n, c i * x i) + b := by
  have : ∑ i ∈ range n, c i * (a * x i + b)
      = a * ∑ i ∈ range n, c i * x i + b * ∑ i ∈ range n, c i := by
    rw [mul_sum, mul_sum, ← sum_add_distrib]
    apply sum_congr rfl; intro i _; ring
  rw [this, hc, mul_one]

/-- a convex combination lies between any lower and upper bound of the combined values -/
theorem convex_bounds (n : ℕ) (c x : ℕ → K) (lo hi : K) (hc : ∑ i ∈ range n, c i = 1)
    (hpos : ∀ i, i < n → 0 ≤ c i) (hlo : ∀ i, i < n → lo ≤ x i) (hhi : ∀ i, i < n → x i ≤ hi) :
    lo ≤ ∑ i ∈ range n, c i * x i ∧ ∑ i ∈ range n, c i * x i ≤ hi := by
  constructor
  · have h1 : ∑ i ∈ range n, c i * lo ≤ ∑ i ∈ range n, c i * x i := by
      apply sum_le_sum
      intro i hi'
      exact mul_le_mul_of_nonneg_left (hlo i (mem_range.mp hi')) (hpos i (mem_range.mp hi'))
    have h2 : ∑ i ∈ range n, c i * lo = lo := by rw [← sum_mul, hc, one_mul]
    linarith
  · have h1 : ∑ i ∈ range n, c i * x i ≤ ∑ i ∈ range n, c i * hi := by
      apply sum_le_sum
      intro i hi'
      exact mul_le_mul_of_nonneg_left (hhi i (mem_range.mp hi')) (hpos i (mem_range.mp hi'))
    have h2 : ∑ i ∈ range n, c i * hi = hi := by rw [← sum_mul, hc, one_mul]
    linarith

/-- rational coefficients `N_i w_i / Σ N_j w_j` are again non-negative and sum to one -/
theorem rational_coeffs (n : ℕ) (N w : ℕ → K) (hN : ∀ i, i < n → 0 ≤ N i) (hw : ∀ i, i < n → 0 < w i)
    (hsum : ∑ i ∈ range n, N i = 1) :
    0 < ∑ j ∈ range n, N j * w j ∧
    (∑ i ∈ range n, N i * w i / (∑ j ∈ range n, N j * w j) = 1) ∧
    ∀ i, i < n → 0 ≤ N i * w i / (∑ j ∈ range n, N j * w j) := by
  have hnn : ∀ j ∈ range n, 0 ≤ N j * w j := fun j hj =>
    mul_nonneg (hN j (mem_range.mp hj)) (le_of_lt (hw j (mem_range.mp hj)))
  have hpos : 0 < ∑ j ∈ range n, N j * w j := by
    by_contra h
    have hz : ∑ j ∈ range n, N j * w j = 0 := le_antisymm (not_lt.mp h) (sum_nonneg hnn)
    have hall := (sum_eq_zero_iff_of_nonneg hnn).mp hz
    have : ∑ i ∈ range n, N i = 0 := by
      apply sum_eq_zero; intro i hi
      have := hall i hi
      rcases mul_eq_zero.mp this with h0 | h0
      · exact h0
      · exact absurd h0 (ne_of_gt (hw i (mem_range.mp hi)))
    rw [hsum] at this; exact one_ne_zero this
  refine ⟨hpos, ?_, ?_⟩
  · rw [← Finset.sum_div, div_self (ne_of_gt hpos)]
  · intro i hi; exact div_nonneg (hnn i (mem_range.mpr hi)) (le_of_lt hpos)
end Convex

/-! ### C02: the rational quotient rule A4.2 solves the Leibniz system -/
section Leibniz
variable {K : Type} [Field K]

/-- A4.2: `CK k = (A k - Σ_{i=1}^{k} C(k,i) * w i * CK (k-i)) / w 0`, by strong recursion -/
def ratDers (A w : ℕ → K) : ℕ → K
  | k => (A k - ∑ i : Fin k, (Nat.choose k (i+1) : K) * w (i+1) * ratDers A w (k - (i+1))) / w 0
decreasing_by omega

theorem ratDers_leibniz (A w : ℕ → K) (hw : w 0 ≠ 0) (k : ℕ) :
    ∑ i ∈ range (k+1), (Nat.choose k i : K) * w i * ratDers A w (k - i) = A k := by
  rw [sum_range_succ']
  simp only [Nat.choose_zero_right, Nat.cast_one, one_mul, Nat.sub_zero]
  conv_lhs => rw [ratDers]
  rw [Fin.sum_univ_eq_sum_range (fun i => (Nat.choose k (i+1) : K) * w (i+1) * ratDers A w (k - (i+1))) k]
  field_simp
  ring
end Leibniz

/-! ### C20: ray intersection identity -/
section Ray
variable {K : Type} [Field K]

/-- with `c = d₁ × d₂`, `m2 = |c|²  ≠ 0` and coplanarity `(p₂ - p₁) · c = 0`,
    the parameters computed by `ray._intersect3d` give the same point on both rays (x-coordinate;
    the other two coordinates are the same statement with the axes rotated) -/
theorem ray_x (p1x p1y p1z d1x d1y d1z p2x p2y p2z d2x d2y d2z : K)
    (hm : (d1y*d2z - d1z*d2y)^2 + (d1z*d2x - d1x*d2z)^2 + (d1x*d2y - d1y*d2x)^2 ≠ 0)
    (hcop : (p2x-p1x)*(d1y*d2z - d1z*d2y) + (p2y-p1y)*(d1z*d2x - d1x*d2z) + (p2z-p1z)*(d1x*d2y - d1y*d2x) = 0) :
    let cx := d1y*d2z - d1z*d2y; let cy := d1z*d2x - d1x*d2z; let cz := d1x*d2y - d1y*d2x
    let m2 := cx^2 + cy^2 + cz^2
    let qx := p2x - p1x; let qy := p2y - p1y; let qz := p2z - p1z
    let t1 := ((qy*d2z - qz*d2y)*cx + (qz*d2x - qx*d2z)*cy + (qx*d2y - qy*d2x)*cz) / m2
    let t2 := ((qy*d1z - qz*d1y)*cx + (qz*d1x - qx*d1z)*cy + (qx*d1y - qy*d1x)*cz) / m2
    p1x + t1 * d1x = p2x + t2 * d2x := by
  intro cx cy cz m2 qx qy qz t1 t2
  have hm' : m2 ≠ 0 := hm
  simp only [t1, t2]
  field_simp
  simp only [m2, cx, cy, cz, qx, qy, qz] at *
  linear_combination (-(d1y*d2z - d1z*d2y)) * hcop
end Ray
