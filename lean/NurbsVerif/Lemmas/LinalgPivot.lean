import NurbsVerif.Lemmas.LinalgSolve
import Mathlib.Data.List.Perm.Basic
import Mathlib.Algebra.Order.Field.Basic

/-! `matrix_pivot` returns a permutation of the rows, consistently for `P` and `P·A`;
    `lu_factor` and `matrix_inverse` are correct whenever they return. -/
namespace Lin
open Finset

section swap
variable {α β : Type}

theorem swapAt_map (f : α → β) (l : List α) (a b : ℕ) : swapAt (l.map f) a b = (swapAt l a b).map f := by
  unfold swapAt
  simp only [List.getElem?_map]
  cases l[a]? <;> cases l[b]? <;> simp [List.map_set]

theorem swapAt_perm (l : List α) (a b : ℕ) : (swapAt l a b).Perm l := by
  unfold swapAt
  cases ha : l[a]? with
  | none => simp
  | some x =>
    cases hb : l[b]? with
    | none => simp
    | some y =>
      obtain ⟨ha', rfl⟩ := List.getElem?_eq_some_iff.mp ha
      obtain ⟨hb', rfl⟩ := List.getElem?_eq_some_iff.mp hb
      exact List.set_set_perm ha' hb'

theorem map_getD_range (l : List α) (d : α) : (List.range l.length).map (fun i => l.getD i d) = l := by
  apply List.ext_getElem (by simp)
  intro i h1 h2
  simp [List.getD_eq_getElem?_getD, h2]

theorem map_getD_range' (l : List α) (d : α) (n : ℕ) (h : l.length = n) :
    (List.range n).map (fun i => l.getD i d) = l := by
  subst h; exact map_getD_range l d
end swap

variable {K : Type} [Field K] [LinearOrder K]

/-- the loop invariant of `matrix_pivot`: both lists are the row lists of the input and of the
    start matrix `p0`, rearranged by one and the same permutation `σ` of `0..n-1` -/
structure PivInv (m p0 : List (List K)) (σ : List ℕ) (st : PivotState K) : Prop where
  perm : σ.Perm (List.range m.length)
  mp : st.mp = σ.map (fun i => m.getD i [])
  p : st.p = σ.map (fun i => p0.getD i [])

theorem pivotStep_inv (m p0 : List (List K)) (σ : List ℕ) (st : PivotState K) (j : ℕ)
    (h : PivInv m p0 σ st) : ∃ σ', PivInv m p0 σ' (pivotStep st j) := by
  unfold pivotStep
  by_cases hj : j = argMaxAbs st.mp j st.mp.length
  · exact ⟨σ, by simpa [← hj] using h⟩
  · refine ⟨swapAt σ j (argMaxAbs st.mp j st.mp.length), ?_⟩
    simp only [hj, if_false]
    exact ⟨(swapAt_perm _ _ _).trans h.perm, by rw [h.mp, swapAt_map], by rw [h.p, swapAt_map]⟩

theorem pivotFold_inv (m p0 : List (List K)) : ∀ (js : List ℕ) (σ : List ℕ) (st : PivotState K),
    PivInv m p0 σ st → ∃ σ', PivInv m p0 σ' (js.foldl pivotStep st)
  | [], σ, st, h => ⟨σ, h⟩
  | j :: js, σ, st, h => by
    obtain ⟨σ1, h1⟩ := pivotStep_inv m p0 σ st j h
    exact pivotFold_inv m p0 js σ1 _ h1

/-- **`matrix_pivot` returns a genuine permutation**: there is one permutation `σ` of `0..n-1` such
    that the returned matrix is the input with rows `σ 0, σ 1, …` and `P` is the identity with the
    same rows (i.e. the permutation matrix of `σ`). -/
theorem matrixPivot_spec (m : List (List K)) :
    ∃ σ : List ℕ, σ.Perm (List.range m.length) ∧
      (matrixPivot m).mp = σ.map (fun i => m.getD i []) ∧
      (matrixPivot m).p = σ.map (fun i => (identity m.length : List (List K)).getD i []) := by
  have h0 : PivInv m (identity m.length) (List.range m.length) ⟨m, identity m.length, 0⟩ :=
    ⟨List.Perm.refl _, (map_getD_range m []).symm, by
      have : (identity m.length : List (List K)).length = m.length := by simp [identity, tabulate]
      conv_lhs => rw [← map_getD_range (identity m.length : List (List K)) []]
      rw [this]⟩
  obtain ⟨σ, h⟩ := pivotFold_inv m (identity m.length) (List.range m.length) _ _ h0
  exact ⟨σ, h.perm, h.mp, h.p⟩

/-- the returned matrix is a permutation of the rows of the input -/
theorem matrixPivot_rows_perm (m : List (List K)) : (matrixPivot m).mp.Perm m := by
  obtain ⟨σ, hp, hm, _⟩ := matrixPivot_spec m
  rw [hm]
  have := hp.map (fun i => m.getD i [])
  rwa [map_getD_range] at this

/-- `P` is a permutation of the rows of the identity, by the *same* rearrangement:
    the pairs (row of `P·A`, row of `P`) are a permutation of the pairs (row of `A`, row of `1`) -/
theorem matrixPivot_zip_perm (m : List (List K)) :
    ((matrixPivot m).mp.zip (matrixPivot m).p).Perm (m.zip (identity m.length)) := by
  obtain ⟨σ, hp, hm, hq⟩ := matrixPivot_spec m
  rw [hm, hq, List.zip_map']
  have := hp.map (fun i => (m.getD i [], (identity m.length : List (List K)).getD i []))
  refine this.trans (List.Perm.of_eq ?_)
  have hl : (identity m.length : List (List K)).length = m.length := by simp [identity, tabulate]
  have e : List.map (fun i => (m.getD i [], (identity m.length : List (List K)).getD i [])) (List.range m.length)
      = ((List.range m.length).map (fun i => m.getD i [])).zip
          ((List.range m.length).map (fun i => (identity m.length : List (List K)).getD i [])) :=
    List.zip_map'.symm
  rw [e, map_getD_range]
  rw [map_getD_range' _ _ _ hl]

theorem ent_map_rows (σ : List ℕ) (m : List (List K)) (k j : ℕ) (hk : k < σ.length) :
    ent (σ.map (fun i => m.getD i [])) k j = ent m (σ.getD k 0) j := by
  unfold ent
  simp [List.getD_eq_getElem?_getD, hk]

theorem ent_identity' (n i j : ℕ) (hi : i < n) (hj : j < n) :
    ent (identity n : List (List K)) i j = if i = j then 1 else 0 := by
  unfold identity
  rw [ent_tab _ _ _ _ _ hi hj]

theorem perm_range_getD_lt {σ : List ℕ} {n : ℕ} (h : σ.Perm (List.range n)) (k : ℕ) (hk : k < n) :
    σ.getD k 0 < n := by
  have hl : σ.length = n := by simpa using h.length_eq
  have : σ.getD k 0 ∈ σ := by
    rw [List.getD_eq_getElem?_getD, List.getElem?_eq_getElem (by omega)]
    simp
  simpa using (h.mem_iff.mp this)

theorem perm_range_surj {σ : List ℕ} {n : ℕ} (h : σ.Perm (List.range n)) (i : ℕ) (hi : i < n) :
    ∃ k, k < n ∧ σ.getD k 0 = i := by
  have hl : σ.length = n := by simpa using h.length_eq
  have : i ∈ σ := h.mem_iff.mpr (by simpa using hi)
  obtain ⟨k, hk, rfl⟩ := List.getElem_of_mem this
  exact ⟨k, by omega, by simp [List.getD_eq_getElem?_getD, hk]⟩

/-- `P·A` really is the matrix product of the returned `P` with the input -/
theorem matrixPivot_mul (m : List (List K)) (k j : ℕ) (hk : k < m.length) :
    ent (matrixPivot m).mp k j = ∑ i ∈ range m.length, ent (matrixPivot m).p k i * ent m i j := by
  obtain ⟨σ, hp, hm, hq⟩ := matrixPivot_spec m
  have hl : σ.length = m.length := by simpa using hp.length_eq
  have hs := perm_range_getD_lt hp k hk
  rw [hm, hq, ent_map_rows _ _ _ _ (by omega)]
  have : ∀ i ∈ range m.length,
      ent (σ.map (fun i => (identity m.length : List (List K)).getD i [])) k i * ent m i j
        = if σ.getD k 0 = i then ent m i j else 0 := by
    intro i hi
    rw [ent_map_rows _ _ _ _ (by omega), ent_identity' _ _ _ hs (mem_range.mp hi)]
    split_ifs <;> simp
  rw [sum_congr rfl this, sum_ite_eq, if_pos (mem_range.mpr hs)]

/-- a solution of the pivoted system `(P·A)·X = P·B` solves `A·X = B` -/
theorem pivot_transfer (m B X : List (List K)) (d : ℕ)
    (h : ∀ k, k < m.length → ∀ c, c < d →
      ∑ j ∈ range m.length, ent (matrixPivot m).mp k j * ent X j c
        = ∑ t ∈ range m.length, ent (matrixPivot m).p k t * ent B t c) :
    ∀ i, i < m.length → ∀ c, c < d → ∑ j ∈ range m.length, ent m i j * ent X j c = ent B i c := by
  obtain ⟨σ, hp, hm, hq⟩ := matrixPivot_spec m
  have hl : σ.length = m.length := by simpa using hp.length_eq
  intro i hi c hc
  obtain ⟨k, hk, hki⟩ := perm_range_surj hp i hi
  have := h k hk c hc
  rw [hm, hq] at this
  have e1 : ∀ j, ent (σ.map (fun i => m.getD i [])) k j = ent m i j := fun j => by
    rw [ent_map_rows _ _ _ _ (by omega), hki]
  have e2 : ∀ t ∈ range m.length,
      ent (σ.map (fun i => (identity m.length : List (List K)).getD i [])) k t * ent B t c
        = if i = t then ent B t c else 0 := by
    intro t ht
    rw [ent_map_rows _ _ _ _ (by omega), hki, ent_identity' _ _ _ hi (mem_range.mp ht)]
    split_ifs <;> simp
  rw [sum_congr rfl e2, sum_ite_eq, if_pos (mem_range.mpr hi)] at this
  rw [← this]
  apply sum_congr rfl
  intro j _
  rw [e1]

theorem matrixPivot_lengths (m : List (List K)) :
    (matrixPivot m).mp.length = m.length ∧ (matrixPivot m).p.length = m.length := by
  obtain ⟨σ, hp, hm, hq⟩ := matrixPivot_spec m
  have hl : σ.length = m.length := by simpa using hp.length_eq
  rw [hm, hq]
  simp [hl]

theorem matrixPivot_p_head (m : List (List K)) (hn : 0 < m.length) :
    ((matrixPivot m).p.headD []).length = m.length := by
  obtain ⟨σ, hp, hm, hq⟩ := matrixPivot_spec m
  have hl : σ.length = m.length := by simpa using hp.length_eq
  rw [hq]
  have hs := perm_range_getD_lt hp 0 hn
  match σ, hl with
  | s :: σ', _ =>
    simp only [List.getD_cons_zero] at hs
    simp [identity, tabulate, List.getD_eq_getElem?_getD, hs]
  | [], hl' => simp at hl'; omega

/-! ### local facts about `matrixMultiply` -/

theorem mm_length (a b : List (List K)) : (matrixMultiply a b).length = a.length := by
  simp [matrixMultiply]

theorem mm_head (a b : List (List K)) (ha : 0 < a.length) :
    ((matrixMultiply a b).headD []).length = (b.headD []).length := by
  cases a with
  | nil => simp at ha
  | cons r a => simp [matrixMultiply]

theorem mm_ent (a b : List (List K)) (i j : ℕ) (hi : i < a.length) (hj : j < (b.headD []).length) :
    ent (matrixMultiply a b) i j = ∑ k ∈ range b.length, ent a i k * ent b k j := by
  unfold matrixMultiply
  simp only [ent, List.getD_eq_getElem?_getD, List.getElem?_map, List.getElem?_eq_getElem hi,
    Option.map_some, Option.getD_some, List.getElem?_range hj]
  rw [sumTo_eq]

/-- **`lu_factor` (with the right-hand side permuted, F-16c repaired) is correct whenever it
    returns**: `A·x = b`. -/
theorem luFactor_correct (A b x : List (List K)) (hb : b.length = A.length) (h : luFactor A b = some x) :
    x.length = A.length ∧
    ∀ i, i < A.length → ∀ c, c < (b.headD []).length →
      ∑ j ∈ range A.length, ent A i j * ent x j c = ent b i c := by
  unfold luFactor at h
  simp only at h
  obtain ⟨hl1, hl2⟩ := matrixPivot_lengths A
  have hb' : (matrixMultiply (matrixPivot A).p b).length = (matrixPivot A).mp.length := by
    rw [mm_length, hl1, hl2]
  obtain ⟨hx, _, he⟩ := luSolve_correct _ _ _ hb' h
  rw [hl1] at hx he
  refine ⟨hx, ?_⟩
  by_cases hn : 0 < A.length
  · have hd : ((matrixMultiply (matrixPivot A).p b).headD []).length = (b.headD []).length :=
      mm_head _ _ (by omega)
    rw [hd] at he
    apply pivot_transfer A b x (b.headD []).length
    intro k hk c hc
    rw [he k hk c hc, mm_ent _ _ _ _ (by omega) hc, hb]
  · intro i hi; omega

/-- **`matrix_inverse` is correct whenever it returns**: `A·X = 1`. -/
theorem matrixInverse_correct (m X : List (List K)) (h : matrixInverse m = some X) :
    X.length = m.length ∧
    ∀ i, i < m.length → ∀ c, c < m.length →
      ∑ j ∈ range m.length, ent m i j * ent X j c = if i = c then 1 else 0 := by
  unfold matrixInverse at h
  simp only at h
  obtain ⟨hl1, hl2⟩ := matrixPivot_lengths m
  obtain ⟨hx, _, he⟩ := luSolve_correct _ _ _ (by rw [hl1, hl2]) h
  rw [hl1] at hx he
  refine ⟨hx, ?_⟩
  by_cases hn : 0 < m.length
  · rw [matrixPivot_p_head m hn] at he
    intro i hi c hc
    rw [← ent_identity' (K := K) m.length i c hi hc]
    revert i c
    apply pivot_transfer m (identity m.length) X m.length
    intro k hk c hc
    rw [he k hk c hc]
    have : ∀ t ∈ range m.length, ent (matrixPivot m).p k t * ent (identity m.length : List (List K)) t c
        = if t = c then ent (matrixPivot m).p k t else 0 := by
      intro t ht
      rw [ent_identity' _ _ _ (mem_range.mp ht) hc]
      split_ifs <;> simp
    rw [sum_congr rfl this, sum_ite_eq', if_pos (mem_range.mpr hc)]
  · intro i hi; omega

end Lin
