import NurbsVerif.Lemmas.ExchangeAssembleFile2d

/-!
  C14, finding F-14b, second half: the PINNED `_save_ctrlpts2d_file` (the line is ended after point `size_u - 1`
  instead of `size_v - 1`) on EVERY rectangular array – which lines it writes.  Used by
  `generate_ctrlptsw2d_file` / `generate_ctrlpts2d_weights_file` (no flip involved).

  * `size_u ≤ size_v`: a line end follows point `size_u - 1` of every row, so the text has a first line of `size_u`
    points, then `size_u - 1` lines of `size_v` points (the rest of a row and the beginning of the next one), then – if
    `size_u < size_v` – a last line of `size_v - size_u` points;
  * `size_u > size_v`: no point is followed by a line end: the whole array is ONE line of `size_u * size_v` points;
  * in both cases the points are all there, in the order of the array (`flatten`).
-/
namespace Geomdl
namespace Exch

section saved
variable {K : Type}

/-- a row of the saved structure with exactly one line end: points, the point followed by the line end, points -/
def markRow (r : List (List K) × List K × List (List K)) : List (List K × Bool) :=
  r.1.map (fun pt => (pt, false)) ++ [(r.2.1, true)] ++ r.2.2.map (fun pt => (pt, false))

/-- the lines such rows denote when `cur` is the unfinished line in front of them: the finished lines and the
    unfinished rest -/
def regroup : List (List K) → List (List (List K) × List K × List (List K)) → List (List (List K)) × List (List K)
  | cur, [] => ([], cur)
  | cur, r :: rest => ((cur ++ r.1 ++ [r.2.1]) :: (regroup r.2.2 rest).1, (regroup r.2.2 rest).2)

theorem foldl_svStep_rows (R : List (List (List K) × List K × List (List K))) :
    ∀ (acc : List (List (List K))) (cur : List (List K)),
      ((R.map markRow).flatten).foldl svStep (acc, cur) = (acc ++ (regroup cur R).1, (regroup cur R).2) := by
  induction R with
  | nil => intro acc cur; simp [regroup]
  | cons r R ih =>
    intro acc cur
    simp only [List.map_cons, List.flatten_cons, List.foldl_append, markRow, foldl_svStep_false,
      List.foldl_cons, List.foldl_nil, svStep, if_true]
    rw [ih]
    simp [regroup]

theorem regroup_flatten (R : List (List (List K) × List K × List (List K))) : ∀ cur : List (List K),
    (regroup cur R).1.flatten ++ (regroup cur R).2 = cur ++ (R.map (fun r => r.1 ++ [r.2.1] ++ r.2.2)).flatten := by
  induction R with
  | nil => intro cur; simp [regroup]
  | cons r R ih =>
    intro cur
    show ((cur ++ r.1 ++ [r.2.1]) :: (regroup r.2.2 R).1).flatten ++ (regroup r.2.2 R).2
      = cur ++ ((r.1 ++ [r.2.1] ++ r.2.2) :: R.map (fun r => r.1 ++ [r.2.1] ++ r.2.2)).flatten
    rw [List.flatten_cons, List.flatten_cons, List.append_assoc, ih]
    simp only [List.append_assoc]

theorem regroup_lengths (a b : Nat) (R : List (List (List K) × List K × List (List K)))
    (hR : ∀ r ∈ R, r.1.length = a ∧ r.2.2.length = b) (hne : R ≠ []) : ∀ cur : List (List K),
    (regroup cur R).1.map List.length = (cur.length + a + 1) :: List.replicate (R.length - 1) (b + a + 1) ∧
    (regroup cur R).2.length = b := by
  induction R with
  | nil => exact absurd rfl hne
  | cons r R ih =>
    intro cur
    obtain ⟨ha, hb⟩ := hR r List.mem_cons_self
    cases R with
    | nil => simp [regroup, ha, hb, Nat.add_assoc]
    | cons r' R' =>
      obtain ⟨i1, i2⟩ := ih (fun q hq => hR q (List.mem_cons_of_mem _ hq)) (by simp) r.2.2
      have e : regroup cur (r :: r' :: R')
          = ((cur ++ r.1 ++ [r.2.1]) :: (regroup r.2.2 (r' :: R')).1, (regroup r.2.2 (r' :: R')).2) := rfl
      rw [e]
      refine ⟨?_, i2⟩
      show (cur ++ r.1 ++ [r.2.1]).length :: List.map List.length (regroup r.2.2 (r' :: R')).1 = _
      rw [i1, hb]
      simp [ha, List.replicate_succ, Nat.add_assoc]

/-- the text of a saved structure made of such rows -/
theorem savedLines_rows (R : List (List (List K) × List K × List (List K))) :
    savedLines (R.map markRow)
      = if (regroup [] R).2.isEmpty then (regroup [] R).1 else (regroup [] R).1 ++ [(regroup [] R).2] := by
  rw [savedLines_eq, foldl_svStep_rows]
  simp

/-- a saved structure without any line end is one line (nothing at all if there are no points) -/
theorem savedLines_noBreak (rows : List (List (List K))) :
    savedLines (rows.map (·.map (fun pt => (pt, false)))) = if rows.flatten.isEmpty then [] else [rows.flatten] := by
  have : (rows.map (·.map (fun pt => ((pt, false) : List K × Bool)))).flatten
      = rows.flatten.map (fun pt => (pt, false)) := by
    induction rows with
    | nil => rfl
    | cons r rows ih => simp only [List.map_cons, List.flatten_cons, List.map_append, ih]
  rw [savedLines_eq, this, foldl_svStep_false]
  simp

/-- `m` rows of `n` points, line end after point `e < n` of every row (`m ≥ 1`): the first line has `e + 1` points,
    the next `m - 1` lines `n` points, the rest (`n - e - 1` points, if any) is the last line; all points, in order -/
theorem savedLines_grid_at (m n e : Nat) (hm : 0 < m) (he : e < n) (P : Nat → Nat → List K) :
    ∃ L, savedLines ((List.range m).map fun i => (List.range n).map fun j => (P i j, decide (j = e))) = L ∧
      L.flatten = ((List.range m).map fun i => (List.range n).map (P i)).flatten ∧
      L.map List.length = (e + 1) :: List.replicate (m - 1) n ++ (if n = e + 1 then [] else [n - e - 1]) := by
  let R : List (List (List K) × List K × List (List K)) :=
    (List.range m).map fun i => ((List.range e).map (P i), P i e, (List.range' (e+1) (n - e - 1)).map (P i))
  have hsplit : List.range n = List.range e ++ [e] ++ List.range' (e+1) (n - e - 1) := by
    rw [List.range_eq_range', List.range_eq_range']
    have a1 : List.range' 0 e ++ [e] = List.range' 0 (e + 1) := by
      have := @List.range'_append_1 0 e 1
      rw [Nat.zero_add] at this
      exact this
    rw [a1]
    have a2 := @List.range'_append_1 0 (e + 1) (n - e - 1)
    rw [Nat.zero_add] at a2
    rw [a2]
    congr 1; omega
  have h1 : ((List.range m).map fun i => (List.range n).map fun j => (P i j, decide (j = e))) = R.map markRow := by
    simp only [R, List.map_map]
    apply List.map_congr_left
    intro i _
    simp only [Function.comp, markRow, hsplit, List.map_append, List.map_cons, List.map_nil, List.map_map, decide_true]
    congr 1
    · congr 1
      apply List.map_congr_left
      intro j hj
      have : j ≠ e := by have := List.mem_range.1 hj; omega
      simp [this]
    · apply List.map_congr_left
      intro j hj
      have : j ≠ e := by have := (List.mem_range'_1.1 hj).1; omega
      simp [this]
  have hrows : R.map (fun r => r.1 ++ [r.2.1] ++ r.2.2) = (List.range m).map fun i => (List.range n).map (P i) := by
    simp only [R, List.map_map]
    apply List.map_congr_left
    intro i _
    simp [Function.comp, hsplit]
  have hRne : R ≠ [] := by
    intro e0
    have : R.length = m := by simp [R]
    rw [e0] at this; simp at this; omega
  have hRlen : R.length = m := by simp [R]
  obtain ⟨l1, l2⟩ := regroup_lengths e (n - e - 1) R (by
    intro r hr
    simp only [R, List.mem_map, List.mem_range] at hr
    obtain ⟨i, _, rfl⟩ := hr
    simp) hRne []
  have hfl := regroup_flatten R []
  rw [hrows, List.nil_append] at hfl
  refine ⟨_, rfl, ?_, ?_⟩
  · rw [h1, savedLines_rows]
    split
    · rename_i hemp
      rw [List.isEmpty_iff] at hemp
      rw [hemp, List.append_nil] at hfl
      exact hfl
    · rw [List.flatten_append]; simpa using hfl
  · rw [h1, savedLines_rows]
    have hb : (e + 1 + (n - e - 1)) = n := by omega
    by_cases hn : n = e + 1
    · have : (regroup [] R).2 = [] := List.eq_nil_of_length_eq_zero (by rw [l2]; omega)
      rw [this, if_pos hn]
      simp only [List.isEmpty_nil, if_true, List.append_nil]
      rw [l1, hRlen]
      simp only [List.length_nil, Nat.zero_add]
      congr 2; omega
    · have hne : (regroup [] R).2.isEmpty = false := by
        cases h : (regroup [] R).2 with
        | nil => rw [h] at l2; simp at l2; omega
        | cons a t => rfl
      rw [hne, if_neg hn]
      simp only [Bool.false_eq_true, if_false, List.map_append, List.map_cons, List.map_nil]
      rw [l1, l2, hRlen]
      simp only [List.length_nil, Nat.zero_add]
      congr 3; omega

end saved

section helpers
variable {K : Type} [Field K]

omit [Field K] in
/-- **pinned `_save_ctrlpts2d_file`** (line end after point `size_u - 1`) on every rectangular array: all points, in
    the order of the array, in lines of the lengths described in the header of this file -/
theorem save2dPinned_lines (g : List (List (List K))) (su sv : Nat) (h : Rect2d g su sv) (hu : 0 < su) (hv : 0 < sv) :
    ∃ L, (save2dPinned g su sv).map savedLines = some L ∧ L.flatten = g.flatten ∧
      L.map List.length = if su ≤ sv then su :: List.replicate (su - 1) sv ++ (if su = sv then [] else [sv - su])
        else [su * sv] := by
  unfold save2dPinned
  rw [save2dWith_rect _ g su sv h, Option.map_some]
  have htab := h.eq_tab (d := ([] : List K))
  by_cases hle : su ≤ sv
  · obtain ⟨L, hL, hfl, hlen⟩ := savedLines_grid_at su sv (su - 1) hu (by omega) (fun i j => (g.getD i []).getD j [])
    refine ⟨L, by rw [hL], by rw [hfl, htab], ?_⟩
    rw [hlen, if_pos hle]
    have e1 : su - 1 + 1 = su := by omega
    rw [e1]
    by_cases hs : su = sv
    · rw [if_pos hs.symm, if_pos hs]
    · rw [if_neg (fun e => hs e.symm), if_neg hs]
      have : sv - (su - 1) - 1 = sv - su := by omega
      rw [this]
  · rw [if_neg hle]
    have hflags : ((List.range su).map fun i => (List.range sv).map fun j => ((g.getD i []).getD j [], decide (j = su - 1)))
        = (((List.range su).map fun i => (List.range sv).map fun j => (g.getD i []).getD j []).map
            (·.map (fun pt => ((pt, false) : List K × Bool)))) := by
      rw [List.map_map]
      apply List.map_congr_left
      intro i _
      simp only [Function.comp, List.map_map]
      apply List.map_congr_left
      intro j hj
      have : j ≠ su - 1 := by have := List.mem_range.1 hj; omega
      simp [this]
    rw [hflags, savedLines_noBreak, htab]
    have hlenfl : g.flatten.length = su * sv := by
      rw [List.length_flatten]
      have : g.map List.length = List.replicate su sv := by
        apply List.eq_replicate_iff.2
        refine ⟨by simp [h.1], ?_⟩
        intro b hb
        obtain ⟨r, hr, rfl⟩ := List.mem_map.1 hb
        exact h.2 r hr
      rw [this]; simp
    have hne : g.flatten.isEmpty = false := by
      cases hg : g.flatten with
      | nil => rw [hg] at hlenfl; simp at hlenfl; rcases hlenfl.symm with h0 | h0 <;> omega
      | cons a t => rfl
    rw [hne]
    exact ⟨_, rfl, by simp, by simp [hlenfl]⟩

/-- **`generate_ctrlptsw2d_file` with the pinned saver, every rectangular file** -/
theorem weight2dFilePinned_rect (g : List (List (List K))) (su sv : Nat) (h : Rect2d g su sv) (hu : 0 < su) (hv : 0 < sv) :
    ∃ L, weight2dFilePinned (file2Of g) = some L ∧ L.flatten = (g.map (·.map weightPt)).flatten ∧
      L.map List.length = if su ≤ sv then su :: List.replicate (su - 1) sv ++ (if su = sv then [] else [sv - su])
        else [su * sv] := by
  unfold weight2dFilePinned
  rw [read2d_file g su sv h hu]
  exact save2dPinned_lines _ su sv (map_rect weightPt g su sv h) hu hv

/-- hence on every NON-SQUARE rectangular file the pinned helper does not write the `size_u` lines of `size_v` points
    the repaired one writes (same points, other lines) -/
theorem weight2dFilePinned_nonsquare (g : List (List (List K))) (su sv : Nat) (h : Rect2d g su sv) (hu : 0 < su) (hv : 0 < sv)
    (hne : su ≠ sv) : weight2dFilePinned (file2Of g) ≠ weight2dFile (file2Of g) := by
  obtain ⟨L, hL, _, hlen⟩ := weight2dFilePinned_rect g su sv h hu hv
  rw [hL, weight2dFile_rect g su sv h hu hv]
  intro e
  have e' := congrArg (List.map List.length) (Option.some.inj e)
  rw [hlen] at e'
  have hR := map_rect weightPt g su sv h
  have hlens : (g.map (·.map weightPt)).map List.length = List.replicate su sv := by
    apply List.eq_replicate_iff.2
    refine ⟨by simp [h.1], ?_⟩
    intro b hb
    obtain ⟨r, hr, rfl⟩ := List.mem_map.1 hb
    exact hR.2 r hr
  rw [hlens] at e'
  by_cases hle : su ≤ sv
  · rw [if_pos hle] at e'
    obtain ⟨k, rfl⟩ : ∃ k, su = k + 1 := ⟨su - 1, by omega⟩
    rw [List.replicate_succ] at e'
    have := (List.cons.inj e').1
    omega
  · rw [if_neg hle] at e'
    have := congrArg List.length e'
    simp at this
    omega

end helpers
end Exch
end Geomdl
