import NurbsVerif.Lemmas.FitDiag
import NurbsVerif.Lemmas.BasisOne

/-!
  The exact support of a Cox–de Boor function (`Blossom.cdb`, Eq. 2.5 with `0/0 := 0`) of a
  non-decreasing knot function, stated WITHOUT a span index: for every degree `p`, index `i` and EVERY
  number `u` (inside or outside the domain)

  `N_{i,p}(u) ≠ 0  ↔  U_i ≤ u < U_{i+p+1}  ∧  (U_i < u  ∨  U_{i+p} ≤ u)`.

  The last clause only matters for `u = U_i`: there the function is non-zero exactly when `U_i` is a knot of
  multiplicity `p + 1` inside the support (`U_i = … = U_{i+p}`), e.g. the first function of a clamped vector.
  (⇐) is `cdb_pos` (Lemmas/FitDiag.lean); (⇒) is `cdb_support` plus `cdb_zero_left_knot` below.
-/
namespace Geomdl
open Blossom
variable {K : Type} [Field K] [LinearOrder K] [IsStrictOrderedRing K]

/-- **zero at the left end of the support** unless the left knot has multiplicity `p + 1`:
    `u ≤ U_i` and `u < U_{i+p}` give `N_{i,p}(u) = 0` -/
theorem cdb_zero_left_knot (U : ℕ → K) (hm : Monotone U) (u : K) : ∀ (p i : ℕ),
    u ≤ U i → u < U (i + p) → cdb U p i u = 0 := by
  intro p
  induction p with
  | zero =>
    intro i _ h2
    exact cdb_eq_zero_of_outside U hm u 0 i (Or.inl h2)
  | succ p ih =>
    intro i h1 h2
    simp only [cdb]
    have e : i + 1 + p = i + (p + 1) := by omega
    have hb : cdb U p (i + 1) u = 0 :=
      ih (i + 1) (le_trans h1 (hm (Nat.le_succ i))) (by rw [e]; exact h2)
    rw [hb, mul_zero, add_zero]
    rcases lt_or_eq_of_le h1 with h | h
    · rw [cdb_eq_zero_of_outside U hm u p i (Or.inl h), mul_zero]
    · rw [h, sub_self, zero_div, zero_mul]

/-- **exact support, positivity form** (no span index, every `u`) -/
theorem cdb_pos_iff_support (U : ℕ → K) (hm : Monotone U) (p i : ℕ) (u : K) :
    0 < cdb U p i u ↔ U i ≤ u ∧ u < U (i + p + 1) ∧ (U i < u ∨ U (i + p) ≤ u) := by
  constructor
  · intro h
    obtain ⟨a, b⟩ := cdb_support U hm u p i (ne_of_gt h)
    refine ⟨a, b, ?_⟩
    by_contra hc
    rw [not_or, not_lt, not_le] at hc
    rw [cdb_zero_left_knot U hm u p i hc.1 hc.2] at h
    exact lt_irrefl _ h
  · rintro ⟨a, b, c⟩
    exact cdb_pos U hm u p i a b c

/-- **exact support** (no span index, every `u`) -/
theorem cdb_ne_zero_iff_support (U : ℕ → K) (hm : Monotone U) (p i : ℕ) (u : K) :
    cdb U p i u ≠ 0 ↔ U i ≤ u ∧ u < U (i + p + 1) ∧ (U i < u ∨ U (i + p) ≤ u) := by
  rw [← cdb_pos_iff_support U hm p i u]
  have := cdb_nonneg_all U hm u p i
  exact ⟨fun a => lt_of_le_of_ne this (Ne.symm a), fun a => ne_of_gt a⟩

/-- the zero set: complement of the support -/
theorem cdb_eq_zero_iff_support (U : ℕ → K) (hm : Monotone U) (p i : ℕ) (u : K) :
    cdb U p i u = 0 ↔ u < U i ∨ U (i + p + 1) ≤ u ∨ (u = U i ∧ u < U (i + p)) := by
  rw [← not_iff_not, ← ne_eq, cdb_ne_zero_iff_support U hm p i u]
  constructor
  · rintro ⟨a, b, c⟩ h
    rcases h with h | h | ⟨h1, h2⟩
    · exact absurd a (not_le.mpr h)
    · exact absurd b (not_lt.mpr h)
    · rcases c with c | c
      · rw [h1] at c; exact lt_irrefl _ c
      · exact absurd c (not_le.mpr h2)
  · intro h
    rw [not_or, not_or, not_lt, not_le, not_and_or, not_lt] at h
    obtain ⟨a, b, c⟩ := h
    refine ⟨a, b, ?_⟩
    rcases c with c | c
    · exact Or.inl (lt_of_le_of_ne a (Ne.symm c))
    · exact Or.inr c

/-- left knot of multiplicity at most `p` in the support (`U_i < U_{i+p}`): the function is non-zero exactly on
    the OPEN interval `(U_i, U_{i+p+1})` -/
theorem cdb_ne_zero_iff_open (U : ℕ → K) (hm : Monotone U) (p i : ℕ) (u : K) (hmult : U i < U (i + p)) :
    cdb U p i u ≠ 0 ↔ U i < u ∧ u < U (i + p + 1) := by
  rw [cdb_ne_zero_iff_support U hm p i u]
  constructor
  · rintro ⟨_, b, c⟩
    exact ⟨c.elim id (fun c => lt_of_lt_of_le hmult c), b⟩
  · rintro ⟨a, b⟩
    exact ⟨le_of_lt a, b, Or.inl a⟩

/-- left knot of multiplicity `p + 1` (`U_i = U_{i+p}`): the function is non-zero exactly on the HALF-OPEN
    interval `[U_i, U_{i+p+1})` -/
theorem cdb_ne_zero_iff_halfopen (U : ℕ → K) (hm : Monotone U) (p i : ℕ) (u : K) (hmult : U (i + p) = U i) :
    cdb U p i u ≠ 0 ↔ U i ≤ u ∧ u < U (i + p + 1) := by
  rw [cdb_ne_zero_iff_support U hm p i u]
  constructor
  · rintro ⟨a, b, _⟩
    exact ⟨a, b⟩
  · rintro ⟨a, b⟩
    exact ⟨a, b, Or.inr (by rw [hmult]; exact a)⟩

/-- an empty support (`U_i = U_{i+p+1}`, a knot of multiplicity `p + 2` or more): the function is identically zero -/
theorem cdb_eq_zero_of_empty_support (U : ℕ → K) (hm : Monotone U) (p i : ℕ) (u : K) (he : U (i + p + 1) = U i) :
    cdb U p i u = 0 := by
  by_contra h
  obtain ⟨a, b⟩ := cdb_support U hm u p i h
  rw [he] at b
  exact absurd a (not_le.mpr b)

end Geomdl
