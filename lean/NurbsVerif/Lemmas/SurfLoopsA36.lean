import NurbsVerif.Lemmas.SurfLoopsArr
import NurbsVerif.Lemmas.SurfDeriv
import NurbsVerif.Lemmas.A23Final

/-! A3.6 as coded (`SurfaceEvaluator.derivatives`, model `surfaceDersA36`) returns the table of the
    tensor formula `surfaceDersAt … false`; A3.2 as coded (`CurveEvaluator.derivatives`, model
    `curveDersA32`) returns the true derivatives. -/
namespace Geomdl
open Blossom Polynomial Finset
variable {K : Type} [Field K] [LinearOrder K] [IsStrictOrderedRing K]

/-! ### the array `temp` -/

omit [LinearOrder K] [IsStrictOrderedRing K] in
/-- `temp[s]` after the two inner loops: the accumulation over `r` from the zero vector -/
theorem a36Temp_get (pu pv sv : ℕ) (P : List (List K)) (κu κv : ℕ) (bu : List (List K)) (d k s : ℕ) :
    (a36Temp pu pv sv P κu κv bu d k).get s
      = if s < pv + 1 then
          (List.range (pu + 1)).foldl (fun acc r =>
            axpy ((bu.getD k []).getD r 0) acc (ptsGet P (κv - pv + s + sv * (κu - pu + r)))) (vzero d)
        else vzero d := by
  unfold a36Temp
  rw [foldl_rows1 (fun temp s => (List.range (pu + 1)).foldl (a36TempStep pu pv sv P κu κv bu k s) temp)
    (fun s x => (List.range (pu + 1)).foldl (fun acc r =>
      axpy ((bu.getD k []).getD r 0) acc (ptsGet P (κv - pv + s + sv * (κu - pu + r)))) x)]
  intro t s a
  exact foldl_upd1 s (fun acc r =>
      axpy ((bu.getD k []).getD r 0) acc (ptsGet P (κv - pv + s + sv * (κu - pu + r)))) (List.range (pu + 1)) t a

/-! ### the table `SKL` -/

omit [LinearOrder K] [IsStrictOrderedRing K] in
theorem a36K_get (pu pv sv : ℕ) (P : List (List K)) (κu κv : ℕ) (bu bv : List (List K)) (d order dv : ℕ)
    (SKL : Arr2 (List K)) (k a b : ℕ) :
    (a36K pu pv sv P κu κv bu bv d order dv SKL k).get a b
      = if a = k ∧ b < min order dv + 1 then
          (List.range (pv + 1)).foldl (fun acc s =>
            axpy ((bv.getD b []).getD s 0) acc ((a36Temp pu pv sv P κu κv bu d k).get s)) (SKL.get k b)
        else SKL.get a b := by
  unfold a36K
  simp only []
  rw [foldl_cols2 k (fun SKL l => (List.range (pv + 1)).foldl
      (a36SklStep bv (a36Temp pu pv sv P κu κv bu d k) k l) SKL)
    (fun l x => (List.range (pv + 1)).foldl (fun acc s =>
      axpy ((bv.getD l []).getD s 0) acc ((a36Temp pu pv sv P κu κv bu d k).get s)) x)]
  intro T l a b
  exact foldl_upd2 k l (fun acc s =>
      axpy ((bv.getD l []).getD s 0) acc ((a36Temp pu pv sv P κu κv bu d k).get s)) (List.range (pv + 1)) T a b

omit [LinearOrder K] [IsStrictOrderedRing K] in
/-- entry `[k][l]` of the table A3.6 builds: assigned for `k ≤ du`, `l ≤ min(order, dv)`, zero elsewhere -/
theorem a36Table_get (pu pv : ℕ) (Uu Uv : ℕ → K) (sv : ℕ) (P : List (List K)) (κu κv : ℕ) (u v : K)
    (order k l : ℕ) :
    (a36Table pu pv Uu Uv sv P κu κv u v order).get k l
      = if k < min pu order + 1 ∧ l < min order (min pv order) + 1 then
          (List.range (pv + 1)).foldl (fun acc s =>
            axpy (((basisFunsDersA23 pv Uv κv v (min pv order)).getD l []).getD s 0) acc
              ((a36Temp pu pv sv P κu κv (basisFunsDersA23 pu Uu κu u (min pu order)) (dimOf P) k).get s))
            (vzero (dimOf P))
        else vzero (dimOf P) := by
  unfold a36Table
  simp only []
  rw [foldl_rows2 _ (fun _ => min order (min pv order) + 1)
    (fun k b x => (List.range (pv + 1)).foldl (fun acc s =>
      axpy (((basisFunsDersA23 pv Uv κv v (min pv order)).getD b []).getD s 0) acc
        ((a36Temp pu pv sv P κu κv (basisFunsDersA23 pu Uu κu u (min pu order)) (dimOf P) k).get s)) x)]
  intro T k a b
  exact a36K_get pu pv sv P κu κv _ _ (dimOf P) order (min pv order) T k a b

/-- **A3.6 as coded = the tensor formula.**  The literal transcription of `SurfaceEvaluator.derivatives`
    returns exactly the table `surfaceDersAt … false` (all `k ≤ min(pu, order)`, `l ≤ min(pv, order)` are
    filled – the code's `dd = min(deriv_order, d[1])` – the rest is zero), on every span pair inside a
    well-formed net. -/
theorem surfaceDersA36_eq (pu pv : ℕ) (Uu Uv : ℕ → K) (su sv : ℕ) (P : List (List K)) (κu κv : ℕ) (u v : K)
    (d order : ℕ) (hpu : pu ≤ κu) (hpv : pv ≤ κv) (hκu : κu < su) (hκv : κv < sv)
    (hlen : P.length = su * sv) (hP : NetOk d P) :
    surfaceDersA36 pu pv Uu Uv sv P κu κv u v order = surfaceDersAt pu pv Uu Uv sv P κu κv u v order false := by
  have hpos : 0 < P.length := by
    have := flat_index_lt κu κv su sv hκu hκv
    omega
  have hd : dimOf P = d := dimOf_eq hP hpos
  have hidx : ∀ r s, r ≤ pu → s ≤ pv → (ptsGet P (κv - pv + s + sv * (κu - pu + r))).length = d := by
    intro r s hr hs
    apply ptsGet_length hP
    rw [hlen]
    exact flat_index_lt _ _ su sv (by omega) (by omega)
  unfold surfaceDersA36 surfaceDersAt
  simp only []
  apply List.map_congr_left
  intro k hk
  apply List.map_congr_left
  intro l hl
  rw [List.mem_range] at hk hl
  rw [a36Table_get, hd, basisFunsDersA23_eq_basisDers pu Uu κu u _ (by omega) hpu,
    basisFunsDersA23_eq_basisDers pv Uv κv v _ (by omega) hpv]
  by_cases hc : k ≤ min pu order ∧ l ≤ min pv order
  · rw [if_pos ⟨by omega, by omega⟩, if_pos ⟨hc.1, hc.2, by simp⟩]
    -- the array `temp`
    have htemp : ∀ s, s < pv + 1 →
        ((a36Temp pu pv sv P κu κv (basisDers pu Uu κu u (min pu order)) d k).get s).length = d ∧
        ∀ j, ((a36Temp pu pv sv P κu κv (basisDers pu Uu κu u (min pu order)) d k).get s).getD j 0
          = ∑ r ∈ range (pu + 1), ((basisDers pu Uu κu u (min pu order)).getD k []).getD r 0
              * (ptsGet P (κv - pv + s + sv * (κu - pu + r))).getD j 0 := by
      intro s hs
      rw [a36Temp_get, if_pos hs]
      exact foldl_axpy_range _ _ d (pu + 1) (fun r hr => hidx r s (by omega) (by omega))
    obtain ⟨hL, hC⟩ := foldl_axpy_range
      (fun s => ((basisDers pv Uv κv v (min pv order)).getD l []).getD s 0)
      (fun s => (a36Temp pu pv sv P κu κv (basisDers pu Uu κu u (min pu order)) d k).get s) d (pv + 1)
      (fun s hs => (htemp s hs).1)
    apply coordList_ext _ _ d hL
    · apply linComb_length
      intro pt hpt
      simp only [List.mem_map, List.mem_range] at hpt
      obtain ⟨r, hr, rfl⟩ := hpt
      apply linComb_length
      intro pt hpt
      simp only [List.mem_map, List.mem_range] at hpt
      obtain ⟨s, hs, rfl⟩ := hpt
      exact hidx r s (by omega) (by omega)
    · intro j _
      rw [hC j]
      rw [linComb_range d j pu _ (basisDers_row_length pu Uu κu u _ k hc.1) _ (by
        intro r hr
        apply linComb_length
        intro pt hpt
        simp only [List.mem_map, List.mem_range] at hpt
        obtain ⟨s, hs, rfl⟩ := hpt
        exact hidx r s hr (by omega))]
      have : ∀ r ∈ range (pu + 1),
          ((basisDers pu Uu κu u (min pu order)).getD k []).getD r 0
            * (linComb d ((basisDers pv Uv κv v (min pv order)).getD l [])
                ((List.range (pv+1)).map (fun s => ptsGet P (κv - pv + s + sv * (κu - pu + r))))).getD j 0
          = ∑ s ∈ range (pv + 1), ((basisDers pu Uu κu u (min pu order)).getD k []).getD r 0
              * (((basisDers pv Uv κv v (min pv order)).getD l []).getD s 0
                * (ptsGet P (κv - pv + s + sv * (κu - pu + r))).getD j 0) := by
        intro r hr
        rw [Finset.mem_range] at hr
        rw [linComb_range d j pv _ (basisDers_row_length pv Uv κv v _ l hc.2) _ (by
          intro s hs
          exact hidx r s (by omega) hs), Finset.mul_sum]
      rw [Finset.sum_congr rfl this, Finset.sum_comm]
      apply Finset.sum_congr rfl
      intro s hs
      rw [Finset.mem_range] at hs
      rw [(htemp s hs).2 j, Finset.mul_sum]
      apply Finset.sum_congr rfl
      intro r _
      ring
  · rw [if_neg (by omega), if_neg (by tauto)]

/-! ### A3.2 as coded -/

omit [LinearOrder K] [IsStrictOrderedRing K] in
/-- row `k` of the table `CK` that A3.2 builds: assigned for `k ≤ du`, zero elsewhere -/
theorem a32Table_get (p : ℕ) (P : List (List K)) (κ : ℕ) (bfd : List (List K)) (d n k : ℕ) :
    ((List.range n).foldl (fun CK k =>
        (List.range (p + 1)).foldl (a32Step p P κ bfd k) CK) (⟨fun _ => vzero d⟩ : Arr1 (List K))).get k
      = if k < n then
          (List.range (p + 1)).foldl (fun acc j =>
            axpy ((bfd.getD k []).getD j 0) acc (ptsGet P (κ - p + j))) (vzero d)
        else vzero d := by
  rw [foldl_rows1 (fun CK k => (List.range (p + 1)).foldl (a32Step p P κ bfd k) CK)
    (fun k x => (List.range (p + 1)).foldl (fun acc j =>
      axpy ((bfd.getD k []).getD j 0) acc (ptsGet P (κ - p + j))) x)]
  intro t s a
  exact foldl_upd1 s (fun acc j => axpy ((bfd.getD s []).getD j 0) acc (ptsGet P (κ - p + j)))
    (List.range (p + 1)) t a

omit [LinearOrder K] [IsStrictOrderedRing K] in
/-- the rows of A3.2's result -/
theorem curveDersA32_row (p : ℕ) (U : ℕ → K) (P : List (List K)) (κ : ℕ) (u : K) (order k : ℕ) (hk : k ≤ order) :
    (curveDersA32 p U P κ u order).getD k []
      = if k < min p order + 1 then
          (List.range (p + 1)).foldl (fun acc j =>
            axpy (((basisFunsDersA23 p U κ u (min p order)).getD k []).getD j 0) acc (ptsGet P (κ - p + j)))
            (vzero (dimOf P))
        else vzero (dimOf P) := by
  unfold curveDersA32
  simp only [List.getD_eq_getElem?_getD, List.getElem?_map]
  rw [List.getElem?_range (by omega)]
  simp only [Option.map_some, Option.getD_some]
  exact a32Table_get p P κ _ (dimOf P) (min p order + 1) k

/-- **A3.2 as coded returns the true derivatives**: entry `k`, coordinate `j` of the literal transcription
    of `CurveEvaluator.derivatives` (the loop over the rows of A2.3 as coded, zero rows above the degree) is
    the `k`-th derivative of the span polynomial at `u`, for every `k ≤ order`. -/
theorem curveDersA32_true (p : ℕ) (U : ℕ → K) (P : List (List K)) (κ : ℕ) (u : K) (d j order k : ℕ)
    (hp : p ≤ κ) (hκ : κ < P.length) (hP : NetOk d P)
    (hm : Monotone U) (hspan : U κ < U (κ+1)) (hk : k ≤ order) :
    ((curveDersA32 p U P κ u order).getD k []).getD j 0 = eval u (derivative^[k] (spanPoly p U P κ j)) := by
  rw [curveDersA32_row p U P κ u order k hk, dimOf_eq hP (by omega)]
  by_cases hkp : k ≤ p
  · rw [if_pos (by omega)]
    obtain ⟨_, hC⟩ := foldl_axpy_range
      (fun r => ((basisFunsDersA23 p U κ u (min p order)).getD k []).getD r 0)
      (fun r => ptsGet P (κ - p + r)) d (p + 1) (fun r hr => ptsGet_length hP _ (by omega))
    rw [hC j]
    exact a32_sum_true p U P κ u (min p order) k j (by omega) hp hm hspan (by omega)
  · rw [if_neg (by omega), vzero_getD]
    unfold spanPoly
    rw [iterate_derivative_spanPoly_above U κ p (sep_of_mono U κ hm hspan) hp _ k (by omega), eval_zero]

/-- the rows have the dimension of the control points -/
theorem curveDersA32_row_length (p : ℕ) (U : ℕ → K) (P : List (List K)) (κ : ℕ) (u : K) (d order k : ℕ)
    (hp : p ≤ κ) (hκ : κ < P.length) (hP : NetOk d P) (hk : k ≤ order) :
    ((curveDersA32 p U P κ u order).getD k []).length = d := by
  rw [curveDersA32_row p U P κ u order k hk, dimOf_eq hP (by omega)]
  split
  · exact (foldl_axpy_range _ (fun r => ptsGet P (κ - p + r)) d (p + 1)
      (fun r hr => ptsGet_length hP _ (by omega))).1
  · simp [vzero]

end Geomdl
