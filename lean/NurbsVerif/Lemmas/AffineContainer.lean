import NurbsVerif.Lemmas.AffineAssembleXform
import NurbsVerif.Lemmas.AffineAssembleWitness

/-!
  C10, containers: `rotateAt` (the model's rotation of one shape about a GIVEN point – the inner
  `rotate_x / rotate_y / rotate_z` of `operations.rotate`) end to end, and the container functions
  `translateAll`, `scaleAll`, `rotateAll` of `Model/Transform.lean` on a list of well-formed shapes:
  every evaluated point of every element moves by ONE map (for `rotateAll`: the rotation about the evaluated
  start point of the first element).
-/
set_option linter.unusedSectionVars false
namespace Geomdl
open Blossom Finset
variable {K : Type} [Field K] [LinearOrder K] [IsStrictOrderedRing K]

theorem rotate_eq_rotateAt (S : Shape K) (axis : ℕ) (c s : K) :
    rotate S axis c s = rotateAt S (startPoint S) axis c s := rfl

theorem rotateAt_eq_mapPts (S : Shape K) (o : List K) (axis : ℕ) (c s : K) :
    rotateAt S o axis c s
      = ((S.mapPts (translatePt (o.map (fun x => 0 - x)))).mapPts (rotatePt axis c s)).mapPts
          (translatePt (o.map (fun x => 0 - (0 - x)))) := rfl

theorem rotateAt_same (S : Shape K) (o : List K) (axis : ℕ) (c s : K) :
    (rotateAt S o axis c s).rat = S.rat ∧ (rotateAt S o axis c s).degs = S.degs ∧
    (rotateAt S o axis c s).kvs = S.kvs ∧ (rotateAt S o axis c s).sizes = S.sizes := ⟨rfl, rfl, rfl, rfl⟩

theorem rotateAt_wf {d : ℕ} {S : Shape K} (h : ShapeWF d S) (hd : d = 2 ∨ d = 3) (o : List K) (ho : o.length = d)
    (axis : ℕ) (c s : K) : ShapeWF d (rotateAt S o axis c s) :=
  ((h.mapPts _ (translatePt_affOn d _ (by simp [ho])).len).mapPts _ (rotatePt_affOn d hd axis c s).len).mapPts _
    (translatePt_affOn d _ (by simp [ho])).len

/-- rotation of a shape about an arbitrary point `o` with `d` coordinates, end to end -/
theorem rotateAt_pointAt {d : ℕ} {S : Shape K} (h : ShapeWF d S) (hd : d = 2 ∨ d = 3) (o : List K) (ho : o.length = d)
    (axis : ℕ) (c s : K) (t : ℕ → K) (ht : S.InDom t) :
    (rotateAt S o axis c s).pointAt t = rotateAbout axis c s o (S.pointAt t) := by
  have a1 := translatePt_affOn d (o.map (fun x => 0 - x)) (by simp [ho])
  have a2 := rotatePt_affOn d hd axis c s
  have a3 := translatePt_affOn d (o.map (fun x => 0 - (0 - x))) (by simp [ho])
  have w1 := h.mapPts _ a1.len
  have w2 := w1.mapPts _ a2.len
  rw [rotateAt_eq_mapPts, mapPts_pointAt w2 _ _ _ a3 t ht, mapPts_pointAt w1 _ _ _ a2 t ht,
    mapPts_pointAt h _ _ _ a1 t ht]
  rfl

theorem rotateAt_weights {d : ℕ} {S : Shape K} (h : ShapeWF d S) (hr : S.rat = true) (hd : d = 2 ∨ d = 3)
    (o : List K) (ho : o.length = d) (axis : ℕ) (c s : K) :
    (rotateAt S o axis c s).net.length = S.net.length ∧
    ∀ i, i < S.net.length → (ptsGet (rotateAt S o axis c s).net i).getD d 0 = (ptsGet S.net i).getD d 0 := by
  have a1 := translatePt_affOn d (o.map (fun x => 0 - x)) (by simp [ho])
  have a2 := rotatePt_affOn d hd axis c s
  have a3 := translatePt_affOn d (o.map (fun x => 0 - (0 - x))) (by simp [ho])
  obtain ⟨n1, l1, w1⟩ := mapPts_weights (h.netOk_rat hr) hr _ a1.len
  obtain ⟨n2, l2, w2⟩ := mapPts_weights (S := S.mapPts _) n1 hr _ a2.len
  obtain ⟨n3, l3, w3⟩ := mapPts_weights (S := (S.mapPts _).mapPts _) n2 hr _ a3.len
  rw [rotateAt_eq_mapPts]
  refine ⟨by rw [l3, l2, l1], ?_⟩
  intro i hi
  rw [w3 i (by rw [l2, l1]; exact hi), w2 i (by rw [l1]; exact hi), w1 i hi]

/-! ### containers -/

/-- what one call does to one element `S` of a container, in terms of the point map `f`: the result `R` is a
    well-formed shape with the same rational flag, degrees, knot vectors and sizes (so the same domain), a rational
    element keeps the weight of every control point, and every evaluated point of the closed domain is moved by `f` -/
def ElemMoved (d : ℕ) (f : List K → List K) (S R : Shape K) : Prop :=
  ShapeWF d R ∧ (R.rat = S.rat ∧ R.degs = S.degs ∧ R.kvs = S.kvs ∧ R.sizes = S.sizes) ∧
  (S.rat = true → R.net.length = S.net.length ∧
    ∀ i, i < S.net.length → (ptsGet R.net i).getD d 0 = (ptsGet S.net i).getD d 0) ∧
  ∀ t : ℕ → K, S.InDom t → R.pointAt t = f (S.pointAt t)

theorem translate_elemMoved {d : ℕ} {S : Shape K} (h : ShapeWF d S) (v : List K) (hv : v.length = d) :
    ElemMoved d (translatePt v) S (translate S v) :=
  ⟨translate_wf h v hv, ⟨rfl, rfl, rfl, rfl⟩, fun hr => translate_weights h hr v hv,
    fun t ht => translate_pointAt h v hv t ht⟩

theorem scale_elemMoved {d : ℕ} {S : Shape K} (h : ShapeWF d S) (m : K) :
    ElemMoved d (scalePt m) S (scale S m) :=
  ⟨scale_wf h m, ⟨rfl, rfl, rfl, rfl⟩, fun hr => scale_weights h hr m, fun t ht => scale_pointAt h m t ht⟩

theorem rotateAt_elemMoved {d : ℕ} {S : Shape K} (h : ShapeWF d S) (hd : d = 2 ∨ d = 3) (o : List K) (ho : o.length = d)
    (axis : ℕ) (c s : K) : ElemMoved d (rotateAbout axis c s o) S (rotateAt S o axis c s) :=
  ⟨rotateAt_wf h hd o ho axis c s, rotateAt_same S o axis c s, fun hr => rotateAt_weights h hr hd o ho axis c s,
    fun t ht => rotateAt_pointAt h hd o ho axis c s t ht⟩

/-- element-wise: if `g` moves every well-formed shape by `f`, then `Ss.map g` has the same number of elements and
    the `i`-th one is the `i`-th input element moved by `f` -/
theorem map_elemMoved {d : ℕ} (f : List K → List K) (g : Shape K → Shape K) (Ss : List (Shape K))
    (hw : ∀ S ∈ Ss, ShapeWF d S) (hg : ∀ S, ShapeWF d S → ElemMoved d f S (g S)) :
    (Ss.map g).length = Ss.length ∧
    ∀ (i : ℕ) (S R : Shape K), Ss[i]? = some S → (Ss.map g)[i]? = some R → ElemMoved d f S R := by
  refine ⟨by simp, ?_⟩
  intro i S R hS hR
  rw [List.getElem?_map, hS] at hR
  simp only [Option.map_some, Option.some.injEq] at hR
  subst hR
  exact hg S (hw S (List.mem_of_getElem? hS))

theorem translateAll_nil (v : List K) : translateAll ([] : List (Shape K)) v = none := rfl
theorem scaleAll_nil (m : K) : scaleAll ([] : List (Shape K)) m = [] := rfl
theorem rotateAll_nil (axis : ℕ) (c s : K) : rotateAll ([] : List (Shape K)) axis c s = none := rfl

theorem translateAll_cons (S0 : Shape K) (tl : List (Shape K)) (v : List K) :
    translateAll (S0 :: tl) v = some ((S0 :: tl).map (fun S => translate S v)) := rfl

theorem rotateAll_cons (S0 : Shape K) (tl : List (Shape K)) (axis : ℕ) (c s : K) :
    rotateAll (S0 :: tl) axis c s = some ((S0 :: tl).map (fun S => rotateAt S (startPoint S0) axis c s)) := rfl

theorem translateAll_isSome (Ss : List (Shape K)) (v : List K) : (translateAll Ss v).isSome ↔ Ss ≠ [] := by
  cases Ss <;> simp [translateAll]

theorem rotateAll_isSome (Ss : List (Shape K)) (axis : ℕ) (c s : K) : (rotateAll Ss axis c s).isSome ↔ Ss ≠ [] := by
  cases Ss <;> simp [rotateAll]

theorem translateAll_moved {d : ℕ} {Ss Rs : List (Shape K)} (hw : ∀ S ∈ Ss, ShapeWF d S) (v : List K) (hv : v.length = d)
    (hR : translateAll Ss v = some Rs) :
    Rs.length = Ss.length ∧
    ∀ (i : ℕ) (S R : Shape K), Ss[i]? = some S → Rs[i]? = some R → ElemMoved d (translatePt v) S R := by
  cases Ss with
  | nil => simp [translateAll] at hR
  | cons S0 tl =>
    rw [translateAll_cons] at hR
    simp only [Option.some.injEq] at hR
    subst hR
    exact map_elemMoved _ _ _ hw (fun S h => translate_elemMoved h v hv)

theorem scaleAll_moved {d : ℕ} {Ss : List (Shape K)} (hw : ∀ S ∈ Ss, ShapeWF d S) (m : K) :
    (scaleAll Ss m).length = Ss.length ∧
    ∀ (i : ℕ) (S R : Shape K), Ss[i]? = some S → (scaleAll Ss m)[i]? = some R → ElemMoved d (scalePt m) S R :=
  map_elemMoved _ _ _ hw (fun _ h => scale_elemMoved h m)

theorem rotateAll_moved {d : ℕ} {Ss Rs : List (Shape K)} (hw : ∀ S ∈ Ss, ShapeWF d S) (hd : d = 2 ∨ d = 3)
    (axis : ℕ) (c s : K) (hR : rotateAll Ss axis c s = some Rs) :
    ∃ S0, Ss.head? = some S0 ∧ Rs.length = Ss.length ∧
    ∀ (i : ℕ) (S R : Shape K), Ss[i]? = some S → Rs[i]? = some R →
      ElemMoved d (rotateAbout axis c s (startPoint S0)) S R := by
  cases Ss with
  | nil => simp [rotateAll] at hR
  | cons S0 tl =>
    rw [rotateAll_cons] at hR
    simp only [Option.some.injEq] at hR
    subst hR
    have h0 : ShapeWF d S0 := hw S0 (by simp)
    exact ⟨S0, rfl, map_elemMoved _ _ _ hw (fun S h => rotateAt_elemMoved h hd _ h0.startPoint_length axis c s)⟩

/-- the first element of the rotated container is `rotate` of the first element, so the common centre stays where it
    is: it is still the start point of the first element -/
theorem rotateAll_head {d : ℕ} {Ss Rs : List (Shape K)} (hw : ∀ S ∈ Ss, ShapeWF d S) (hd : d = 2 ∨ d = 3)
    (axis : ℕ) (c s : K) (hR : rotateAll Ss axis c s = some Rs) :
    ∃ S0 R0, Ss.head? = some S0 ∧ Rs.head? = some R0 ∧ R0 = rotate S0 axis c s ∧ startPoint R0 = startPoint S0 := by
  cases Ss with
  | nil => simp [rotateAll] at hR
  | cons S0 tl =>
    rw [rotateAll_cons] at hR
    simp only [Option.some.injEq] at hR
    subst hR
    exact ⟨S0, _, rfl, rfl, rfl, rotate_startPoint (hw S0 (by simp)) hd axis c s⟩

/-- a container of one element is the single shape: the container functions are the per-shape ones -/
theorem all_singleton (S : Shape K) (v : List K) (m : K) (axis : ℕ) (c s : K) :
    translateAll [S] v = some [translate S v] ∧ scaleAll [S] m = [scale S m] ∧
    rotateAll [S] axis c s = some [rotate S axis c s] := ⟨rfl, rfl, rfl⟩

/-! ### witness: a two-element surface container (rational `exSurf` first, then a non-rational bilinear patch) -/

/-- a non-rational surface, degrees 1×2, sizes 2×3, domain `[0,1] × [0,2]`, 3-D points -/
def exSurfB : Shape ℚ :=
  { rat := false, degs := [1,2], kvs := [[0,0,1,1],[0,0,0,2,2,2]], sizes := [2,3],
    net := [[1,0,0],[1,1,2],[1,3,0],[4,0,1],[5,1,1],[4,2,-1]] }

theorem exSurfB_wf : ShapeWF 3 exSurfB := by
  refine ⟨Or.inr (Or.inl rfl), ?_, rfl, ?_, ?_, ?_, ?_⟩
  · intro i hi
    have hi' : i < 2 := hi
    rcases i with _ | _ | i
    · exact knotsOk_of_sorted 1 _ 2 (by decide +kernel) (by omega) (by decide +kernel)
    · exact knotsOk_of_sorted 2 _ 3 (by decide +kernel) (by omega) (by decide +kernel)
    · omega
  · show NetOk 3 exSurfB.net
    intro pt hpt; simp [exSurfB] at hpt; rcases hpt with h|h|h|h|h|h <;> simp [h]
  · intro hr; simp [exSurfB] at hr
  · intro i hi
    have hi' : i < 2 := hi
    rcases i with _ | _ | i
    · rfl
    · rfl
    · omega
  · intro i hi
    have hi' : i < 2 := hi
    rcases i with _ | _ | i
    · decide
    · decide
    · omega

/-- the parameter pair `(1/4, 3/2)` of `exSurfB` -/
def exTB : ℕ → ℚ := fun i => if i = 0 then 1/4 else 3/2

theorem exTB_inDom : exSurfB.InDom exTB := by
  intro i hi
  have hi' : i < 2 := hi
  rcases i with _ | _ | i
  · exact ⟨by decide +kernel, by decide +kernel⟩
  · exact ⟨by decide +kernel, by decide +kernel⟩
  · omega

theorem exPair_wf : ∀ S ∈ [exSurf, exSurfB], ShapeWF 3 S := by
  intro S hS
  simp only [List.mem_cons, List.not_mem_nil, or_false] at hS
  rcases hS with rfl | rfl
  · exact exSurf_wf
  · exact exSurfB_wf

end Geomdl
