import NurbsVerif.Model.Effects

/-!
# Lemmas for the cache-effect model (C12)

* caches evolve independently (`absRun_apply`), hence `pathOkOn cs` (2·|cs| single-cache runs)
  decides preservation of `noStaleOn cs` from *every* start state;
* the abstraction is sound for the concrete model `Obj` (`SimOn` is a simulation).
No Mathlib needed.
-/
namespace Eff

theorem mem_allC (c : Cch) : c ∈ allC := by cases c <;> simp [allC]

theorem absRun_apply (evs : List Ev) (σ : AState) (c : Cch) : absRun evs σ c = runC c (σ c) evs := by
  induction evs generalizing σ with
  | nil => rfl
  | cons e es ih =>
    have := ih (absStep σ e)
    simpa [absRun, runC, absStep] using this

theorem absRun_append (a b : List Ev) (σ : AState) : absRun (a ++ b) σ = absRun b (absRun a σ) := by
  simp [absRun, List.foldl_append]

theorem noStaleOn_iff (cs : List Cch) (σ : AState) : noStaleOn cs σ = true ↔ ∀ c ∈ cs, σ c ≠ .stale := by
  unfold noStaleOn
  rw [List.all_eq_true]
  constructor
  · intro h c hc
    simpa using h c hc
  · intro h c hc
    simpa using h c hc

theorem noStale_iff (σ : AState) : noStale σ = true ↔ ∀ c, σ c ≠ .stale := by
  unfold noStale
  rw [noStaleOn_iff]
  exact ⟨fun h c => h c (mem_allC c), fun h c _ => h c⟩

theorem pathOkOn_iff (cs : List Cch) (evs : List Ev) :
    pathOkOn cs evs = true ↔ ∀ c ∈ cs, runC c .empty evs ≠ .stale ∧ runC c .fresh evs ≠ .stale := by
  unfold pathOkOn
  rw [List.all_eq_true]
  constructor
  · intro h c hc
    simpa using h c hc
  · intro h c hc
    simpa using h c hc

/-- what the Boolean check means: the path preserves stale-freeness from every abstract state -/
theorem pathOkOn_preserves {cs : List Cch} {evs : List Ev} (h : pathOkOn cs evs = true) (σ : AState)
    (hσ : noStaleOn cs σ = true) : noStaleOn cs (absRun evs σ) = true := by
  rw [noStaleOn_iff] at *
  rw [pathOkOn_iff] at h
  intro c hc
  rw [absRun_apply]
  have hcc := hσ c hc
  cases hs : σ c with
  | empty => exact (h c hc).1
  | fresh => exact (h c hc).2
  | stale => exact absurd hs hcc

theorem pathOk_preserves {evs : List Ev} (h : pathOk evs = true) (σ : AState) (hσ : noStale σ = true) :
    noStale (absRun evs σ) = true :=
  pathOkOn_preserves (cs := allC) h σ hσ

/-- conversely a path that fails the check leaves a stale cache from some stale-free state -/
theorem not_pathOkOn_witness {cs : List Cch} {evs : List Ev} (h : pathOkOn cs evs = false) :
    ∃ σ, noStaleOn cs σ = true ∧ noStaleOn cs (absRun evs σ) = false := by
  have h' : ¬ (∀ c ∈ cs, runC c .empty evs ≠ .stale ∧ runC c .fresh evs ≠ .stale) := by
    rw [← pathOkOn_iff]; simp [h]
  have : ∃ c, c ∈ cs ∧ (runC c .empty evs = .stale ∨ runC c .fresh evs = .stale) := by
    apply Classical.byContradiction
    intro hne
    apply h'
    intro c hcs
    constructor
    · intro hc; exact hne ⟨c, hcs, Or.inl hc⟩
    · intro hc; exact hne ⟨c, hcs, Or.inr hc⟩
  obtain ⟨c, hcs, hc⟩ := this
  rcases hc with hc | hc
  · refine ⟨fun _ => .empty, ?_, ?_⟩
    · rw [noStaleOn_iff]; intro d _; simp
    · apply Bool.eq_false_iff.mpr
      intro hn
      rw [noStaleOn_iff] at hn
      exact hn c hcs (by rw [absRun_apply]; exact hc)
  · refine ⟨fun _ => .fresh, ?_, ?_⟩
    · rw [noStaleOn_iff]; intro d _; simp
    · apply Bool.eq_false_iff.mpr
      intro hn
      rw [noStaleOn_iff] at hn
      exact hn c hcs (by rw [absRun_apply]; exact hc)

theorem startOf_noStale (n : Nat) : noStale (startOf n) = true := by
  rw [noStale_iff]; intro c; unfold startOf; split <;> simp

/-- the 512-start-state formulation of the prototype is implied by `pathOk` -/
theorem pathOk_starts {evs : List Ev} (h : pathOk evs = true) :
    starts.all (fun σ => noStale (absRun evs σ)) = true := by
  rw [List.all_eq_true]
  intro σ hσ
  unfold starts at hσ
  rw [List.mem_map] at hσ
  obtain ⟨n, _, rfl⟩ := hσ
  exact pathOk_preserves h _ (startOf_noStale n)

/-- the once-and-for-all lift: stale-freeness is preserved along any history of ok paths -/
theorem lift (cs : List Cch) (paths : List (List Ev)) (h : ∀ p ∈ paths, pathOkOn cs p = true)
    (σ : AState) (hσ : noStaleOn cs σ = true) : noStaleOn cs (absRun paths.flatten σ) = true := by
  induction paths generalizing σ with
  | nil => simpa [absRun] using hσ
  | cons p ps ih =>
    rw [List.flatten_cons, absRun_append]
    exact ih (fun q hq => h q (List.mem_cons_of_mem _ hq)) _
      (pathOkOn_preserves (h p List.mem_cons_self) σ hσ)

/-! ### soundness for the concrete model -/

/-- simulation between an abstract state and a concrete object (on the caches `cs`) -/
def SimOn (cs : List Cch) (fresh : Cch → (Fld → Nat) → Nat) (σ : AState) (o : Obj) : Prop :=
  ∀ c, c ∈ cs → (σ c = .empty → o.caches c = none) ∧ (σ c = .fresh → o.caches c = some (fresh c o.fields))

/-- the abstract state of a concrete object that satisfies `Inv` -/
def absOf (o : Obj) : AState := fun c => if (o.caches c).isSome then .fresh else .empty

theorem sim_absOf {cs fresh} {o : Obj} (h : InvOn cs fresh o) : SimOn cs fresh (absOf o) o := by
  intro c hcs
  unfold absOf
  rcases h c hcs with hc | hc <;> simp [hc]

theorem noStaleOn_absOf (cs : List Cch) (o : Obj) : noStaleOn cs (absOf o) = true := by
  rw [noStaleOn_iff]; intro c _; unfold absOf; split <;> simp

theorem sim_step {cs fresh} (hd : DepsOnly fresh) {σ : AState} {o : Obj} (h : SimOn cs fresh σ o) (e : Ev) (v : Nat) :
    SimOn cs fresh (absStep σ e) (cstep fresh o (e, v)) := by
  intro c hcs
  obtain ⟨h1, h2⟩ := h c hcs
  cases e with
  | write f =>
    simp only [absStep, stepC, cstep]
    by_cases hf : f ∈ deps c ∧ σ c = .fresh
    · simp [hf]
    · rw [if_neg hf]
      refine ⟨h1, fun hfr => ?_⟩
      rw [h2 hfr]
      have hnot : f ∉ deps c := fun hm => hf ⟨hm, hfr⟩
      congr 1
      apply hd
      intro g hg
      have : g ≠ f := fun hgf => hnot (hgf ▸ hg)
      simp [this]
  | clear c' =>
    simp only [absStep, stepC, cstep]
    by_cases hc : c = c'
    · simp [hc]
    · simp [hc]; exact ⟨h1, h2⟩
  | fill c' =>
    simp only [absStep, stepC, cstep]
    by_cases hc : c = c'
    · subst hc; simp
    · simp [hc]; exact ⟨h1, h2⟩

theorem sim_run {cs fresh} (hd : DepsOnly fresh) (evs : List (Ev × Nat)) {σ : AState} {o : Obj} (h : SimOn cs fresh σ o) :
    SimOn cs fresh (absRun (evs.map Prod.fst) σ) (crun fresh evs o) := by
  induction evs generalizing σ o with
  | nil => simpa [absRun, crun] using h
  | cons ev rest ih =>
    obtain ⟨e, v⟩ := ev
    have := ih (sim_step hd h e v)
    simpa [absRun, crun] using this

theorem inv_of_sim {cs fresh} {σ : AState} {o : Obj} (h : SimOn cs fresh σ o) (hs : noStaleOn cs σ = true) :
    InvOn cs fresh o := by
  rw [noStaleOn_iff] at hs
  intro c hcs
  obtain ⟨h1, h2⟩ := h c hcs
  cases hc : σ c with
  | empty => exact Or.inl (h1 hc)
  | fresh => exact Or.inr (h2 hc)
  | stale => exact absurd hc (hs c hcs)

/-- a path accepted by `pathOkOn cs` preserves `InvOn cs`, whatever values are written -/
theorem inv_preserved {cs fresh} (hd : DepsOnly fresh) (evs : List (Ev × Nat))
    (hok : pathOkOn cs (evs.map Prod.fst) = true) {o : Obj} (h : InvOn cs fresh o) :
    InvOn cs fresh (crun fresh evs o) :=
  inv_of_sim (sim_run hd evs (sim_absOf h)) (pathOkOn_preserves hok _ (noStaleOn_absOf cs o))

/-- a path accepted by `eagerOkOn` leaves an eager cache that held the fresh value holding the fresh value -/
theorem eager_preserved {cs fresh} (hd : DepsOnly fresh) (evs : List (Ev × Nat))
    (hok : eagerOkOn cs (evs.map Prod.fst) = true) {o : Obj} (h : InvOn cs fresh o) (c : Cch) (hcs : c ∈ cs)
    (hc : eager c = true) (hfull : o.caches c = some (fresh c o.fields)) :
    (crun fresh evs o).caches c = some (fresh c (crun fresh evs o).fields) := by
  have hs := sim_run hd evs (sim_absOf h)
  apply (hs c hcs).2
  rw [absRun_apply]
  unfold eagerOkOn at hok
  rw [List.all_eq_true] at hok
  have := hok c hcs
  have habs : absOf o c = .fresh := by simp [absOf, hfull]
  rw [habs]
  simpa [hc] using this

theorem crun_append (fresh) (a b : List (Ev × Nat)) (o : Obj) :
    crun fresh (a ++ b) o = crun fresh b (crun fresh a o) := by
  simp [crun, List.foldl_append]

/-- all histories: any sequence of event paths, each accepted by `pathOkOn cs`, preserves `InvOn cs` -/
theorem inv_history {cs fresh} (hd : DepsOnly fresh) (hist : List (List (Ev × Nat)))
    (hok : ∀ p ∈ hist, pathOkOn cs (p.map Prod.fst) = true) {o : Obj} (h : InvOn cs fresh o) :
    InvOn cs fresh (crun fresh hist.flatten o) := by
  induction hist generalizing o with
  | nil => simpa [crun] using h
  | cons p ps ih =>
    rw [List.flatten_cons, crun_append]
    exact ih (fun q hq => hok q (List.mem_cons_of_mem _ hq))
      (inv_preserved hd p (hok p List.mem_cons_self) h)

/-- membership in the checked table gives the per-path facts -/
theorem ok_paths {s : OpSummary} (h : s.ok = true) {p : List Ev} (hp : p ∈ s.all) : pathOkOn s.caches p = true := by
  unfold OpSummary.ok at h
  rw [Bool.and_eq_true, List.all_eq_true] at h
  exact h.1 p hp

theorem ok_eager {s : OpSummary} (h : s.ok = true) {p : List Ev} (hp : p ∈ s.paths) : eagerOkOn s.caches p = true := by
  unfold OpSummary.ok at h
  rw [Bool.and_eq_true, List.all_eq_true, List.all_eq_true] at h
  exact h.2 p hp

end Eff
