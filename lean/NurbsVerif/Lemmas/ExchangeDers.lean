import NurbsVerif.Lemmas.ExchangeAssemble
import NurbsVerif.Lemmas.ConfigDersNorm
import NurbsVerif.Lemmas.DersSum
import NurbsVerif.Lemmas.RatDers
import NurbsVerif.Lemmas.RatCurveTrue

/-!
  C14, derivatives of the reimported CURVE.  The readers return the rational form `asRational` of the exported
  shape: (a) a non-rational shape comes back with unit weights, (b) the knot vector comes back normalised.

  (a) does nothing to the derivatives: A4.2 on the derivatives of the unit-weight homogeneous curve returns the
      derivatives of the plain curve (`curveDers_unit`: the weight function is the constant 1 – partition of unity –,
      its derivatives of order ≥ 1 vanish, and the Leibniz recursion with `w = 1, w' = w'' = … = 0` is the identity);
  (b) is a change of parameter `t = (u - first)/(last - first)`: the derivative of order `k` with respect to the
      parameter of the reimported curve is `(last - first)ᵏ` times the one of the exported curve (chain rule,
      `curveDers_normalized`, C17) – the same vectors iff the knot vector already was `[0 … 1]` or `k = 0`.
-/
set_option linter.unusedSectionVars false

namespace Geomdl
open Blossom Polynomial Finset
variable {K : Type} [Field K] [LinearOrder K] [IsStrictOrderedRing K]

/-- the Leibniz recursion A4.2 with a constant weight function 1 is the identity -/
theorem ratDers_unit (A w : ℕ → K) (h0 : w 0 = 1) (h1 : ∀ i, w (i+1) = 0) (k : ℕ) : ratDers A w k = A k := by
  rw [ratDers]
  simp [h0, h1]

theorem ptsGet_append1_getD_lt (P : List (List K)) (d m j : ℕ) (hP : NetOk d P) (hm : m < P.length) (hj : j < d) :
    (ptsGet (P.map (· ++ [1])) m).getD j 0 = (ptsGet P m).getD j 0 := by
  rw [ptsGet_append1 P m hm]
  have hl := ptsGet_length hP m hm
  rw [List.getD_eq_getElem?_getD, List.getElem?_append_left (by omega), ← List.getD_eq_getElem?_getD]

theorem ptsGet_append1_getD_last (P : List (List K)) (d m : ℕ) (hP : NetOk d P) (hm : m < P.length) :
    (ptsGet (P.map (· ++ [1])) m).getD d 0 = 1 := by
  rw [ptsGet_append1 P m hm]
  have hl := ptsGet_length hP m hm
  rw [List.getD_eq_getElem?_getD, List.getElem?_append_right (by omega)]
  simp [hl]

theorem netOk_append1 (P : List (List K)) (d : ℕ) (hP : NetOk d P) : NetOk (d+1) (P.map (· ++ [1])) := by
  intro pt hpt
  simp only [List.mem_map] at hpt
  obtain ⟨q, hq, rfl⟩ := hpt
  simp [hP q hq]

/-- the span polynomial of a coordinate `j < d` of the unit-weight net is the one of the plain net -/
theorem spanPoly_append1_lt (p : ℕ) (U : ℕ → K) (P : List (List K)) (κ d j : ℕ) (hP : NetOk d P)
    (hκ : κ < P.length) (hj : j < d) : spanPoly p U (P.map (· ++ [1])) κ j = spanPoly p U P κ j := by
  unfold spanPoly
  apply polP_congr
  intro m _ hm2
  rw [ptsGet_append1_getD_lt P d m j hP (by omega) hj]

/-- the span polynomial of the weight coordinate of the unit-weight net is the constant 1 -/
theorem spanPoly_append1_last (p : ℕ) (U : ℕ → K) (P : List (List K)) (κ d : ℕ) (hP : NetOk d P)
    (hκ : κ < P.length) (hp : p ≤ κ) (hm : Monotone U) (hspan : U κ < U (κ+1)) :
    spanPoly p U (P.map (· ++ [1])) κ d = 1 := by
  unfold spanPoly
  rw [polP_congr U p p _ (fun _ => (1 : K[X])) κ (by
    intro m _ hm2
    rw [ptsGet_append1_getD_last P d m hP (by omega), C_1])]
  exact polP_one U κ (sep_of_mono U κ hm hspan) p p κ hp (le_refl _) (by omega)

/-- **A3.2 + A4.2 on the unit-weight net = A3.2 on the plain net** (given span, non-empty, `p ≤ κ < n`) -/
theorem curveDersAt_unit (p : ℕ) (U : ℕ → K) (P : List (List K)) (κ : ℕ) (u : K) (d order : ℕ)
    (hp : p ≤ κ) (hκ : κ < P.length) (hP : NetOk d P) (hm : Monotone U) (hspan : U κ < U (κ+1)) :
    ratCurveDers (curveDersAt p U (combineUnit P) κ u order) = curveDersAt p U P κ u order := by
  rw [combineUnit_eq]
  have hP1 := netOk_append1 P d hP
  have hκ1 : κ < (P.map (· ++ [1])).length := by simpa using hκ
  have hrows := curveDersAt_row_length p U (P.map (· ++ [1])) κ u (d+1) order hp hκ1 hP1
  have hlenW := curveDersAt_length p U (P.map (· ++ [1])) κ u order
  have hlen := curveDersAt_length p U P κ u order
  have hL : (ratCurveDers (curveDersAt p U (P.map (· ++ [1])) κ u order)).length = order + 1 := by
    rw [ratCurveDers_eq_fold, (ratFold_prefix _ _).1, hlenW]
  apply List.ext_getElem (by rw [hL, hlen])
  intro k hk1 hk2
  have hk : k ≤ order := by omega
  obtain ⟨hl, hc⟩ := ratCurveDers_coord _ d hrows k (by omega)
  have hrow2 : ((curveDersAt p U P κ u order).getD k []).length = d :=
    curveDersAt_row_length p U P κ u d order hp hκ hP _ (by
      rw [List.getD_eq_getElem?_getD, List.getElem?_eq_getElem hk2]; simp)
  have e1 : (ratCurveDers (curveDersAt p U (P.map (· ++ [1])) κ u order))[k]
      = (ratCurveDers (curveDersAt p U (P.map (· ++ [1])) κ u order)).getD k [] := by
    rw [List.getD_eq_getElem?_getD, List.getElem?_eq_getElem hk1]; rfl
  have e2 : (curveDersAt p U P κ u order)[k] = (curveDersAt p U P κ u order).getD k [] := by
    rw [List.getD_eq_getElem?_getD, List.getElem?_eq_getElem hk2]; rfl
  rw [e1, e2]
  apply list_eq_of_getD_lt d hl hrow2
  intro j hj
  rw [hc j hj, ratDers_unit]
  · rw [curveDersAt_all p U _ κ u (d+1) j order k hp hκ1 hP1 hm hspan hk,
      curveDersAt_all p U P κ u d j order k hp hκ hP hm hspan hk, spanPoly_append1_lt p U P κ d j hP hκ hj]
  · rw [curveDersAt_all p U _ κ u (d+1) d order 0 hp hκ1 hP1 hm hspan (by omega),
      spanPoly_append1_last p U P κ d hP hκ hp hm hspan]
    simp
  · intro i
    by_cases hi : i + 1 ≤ order
    · rw [curveDersAt_all p U _ κ u (d+1) d order (i+1) hp hκ1 hP1 hm hspan hi,
        spanPoly_append1_last p U P κ d hP hκ hp hm hspan, Function.iterate_succ_apply, derivative_one,
        Polynomial.iterate_derivative_zero, eval_zero]
    · have e : (curveDersAt p U (P.map (· ++ [1])) κ u order).getD (i + 1) [] = [] := by
        rw [List.getD_eq_getElem?_getD, List.getElem?_eq_none (by rw [hlenW]; omega)]
        rfl
      show ((curveDersAt p U (P.map (· ++ [1])) κ u order).getD (i + 1) []).getD d 0 = 0
      rw [e]
      rfl

namespace Exch

/-- with the library's span search, on the closed domain -/
theorem curveDers_unit (p d : ℕ) (U : List K) (P : List (List K)) (hU : KvWF p U P.length)
    (hP : Geomdl.NetOk d P) (u : K) (hu : InDomain p U P.length u) (order : ℕ) :
    ratCurveDers (curveDers p (fnOf U) (combineUnit P) u order) = curveDers p (fnOf U) P u order := by
  obtain ⟨hs, a1, a2⟩ := findSpanLinear_dom hU.knotsOk u hu.1 hu.2
  unfold curveDers
  rw [combineUnit_length]
  exact curveDersAt_unit p (fnOf U) P _ u d order a1 a2 hP hs.mono hs.nonempty

/-- `Curve.derivatives(u, order)` on a curve record: span search, A3.2 on the stored net, A4.2 iff rational -/
abbrev Crv.ders (c : Crv K) (u : K) (order : ℕ) : List (List K) :=
  if c.rational then ratCurveDers (curveDers c.degree (fnOf c.knots) c.net u order)
  else curveDers c.degree (fnOf c.knots) c.net u order

/-- the unit weights of the reimported form do not change any derivative: same knots, same parameter -/
theorem Crv.ders_unit_weights (c : Crv K) (d : ℕ) (h : c.EvalOk d) (u : K)
    (hu : InDomain c.degree c.knots c.net.length u) (order : ℕ) :
    ratCurveDers (curveDers c.degree (fnOf c.knots) (homNet c.rational c.net) u order) = c.ders u order := by
  obtain ⟨hU, _, _⟩ := kvWF_of_kvOk _ _ _ h.kv h.last
  obtain ⟨r, p, U, P⟩ := c
  cases r with
  | true => simp [homNet, Crv.ders]
  | false =>
    simp only [Crv.ders, Bool.false_eq_true, if_false]
    rw [homNet_false_eq]
    exact curveDers_unit p d U P hU h.net u hu order

/-- **curves**: the derivatives of the reimported curve at the normalised parameter are the derivatives of the
    exported curve at `u`, the one of order `k` multiplied by `(U_last - U_first)ᵏ` -/
theorem Crv.asRational_ders (c : Crv K) (d : ℕ) (h : c.EvalOk d) (u : K)
    (hu : InDomain c.degree c.knots c.net.length u) (order : ℕ) :
    c.asRational.ders (normParam c.knots u) order
      = scaleJet (c.knots.getLastD 0 - c.knots.headD 0) (c.ders u order) := by
  obtain ⟨hU, hne, hr⟩ := kvWF_of_kvOk _ _ _ h.kv h.last
  rw [← Crv.ders_unit_weights c d h u hu order]
  obtain ⟨r, p, U, P⟩ := c
  simp only [Crv.ders, Crv.asRational, if_true, normParam]
  exact ratCurveDers_normalized p U _ u order hne hr

theorem scaleJet_one (L : List (List K)) : scaleJet (1 : K) L = L := by
  unfold scaleJet
  apply List.ext_getElem (by simp)
  intro k h1 h2
  simp [vsmul]

/-- a curve whose knot vector already is normalised (the library's default) comes back with the same derivatives -/
theorem Crv.asRational_ders_normalised (c : Crv K) (d : ℕ) (h : c.EvalOk d) (u : K)
    (hu : InDomain c.degree c.knots c.net.length u) (order : ℕ)
    (h0 : c.knots.headD 0 = 0) (h1 : c.knots.getLastD 0 = 1) :
    c.asRational.ders u order = c.ders u order := by
  have := Crv.asRational_ders c d h u hu order
  rw [normParam, h0, h1, sub_zero, sub_zero, div_one, scaleJet_one] at this
  exact this

end Exch
end Geomdl
