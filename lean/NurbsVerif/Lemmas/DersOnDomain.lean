import NurbsVerif.Lemmas.SurfLoopsTrue
import NurbsVerif.Lemmas.RatCurveTrue
import NurbsVerif.Lemmas.RatSurfTrue
import NurbsVerif.Lemmas.HodographTangent
import NurbsVerif.Lemmas.AssembleWF

/-!
# C02: the default evaluators AS CODED, through the span search, on the closed domain

The as-coded theorems (`curveDersA32_true`, `surfaceDersA36_true`, `tangent*_true`, `normalSurface_true`) are stated
at a GIVEN non-empty span; the driver ops (`cders32`, `sders36`, `tanc`, `tans`, `nrms`) and the library run them on
the span `find_span_linear` returns.  Here the two are composed (closed domain of a well-formed shape), and A4.2 is
composed with A3.2 as coded (the default evaluator of a rational curve).
-/
namespace Geomdl
open Blossom Polynomial Finset
open scoped Polynomial.Bivariate
variable {K : Type} [Field K] [LinearOrder K] [IsStrictOrderedRing K]

/-- A3.2 as coded through the span search, closed domain -/
theorem curveDersA32_domain (p d : ℕ) (Ul : List K) (P : List (List K)) (hC : CurveWF p d Ul P) (u : K)
    (h1 : fnOf Ul p ≤ u) (h2 : u ≤ fnOf Ul P.length) (order k j : ℕ) (hk : k ≤ order) :
    ((curveDersA32 p (fnOf Ul) P (findSpanLinear p (fnOf Ul) P.length u) u order).getD k []).getD j 0
      = eval u (derivative^[k] (spanPoly p (fnOf Ul) P (findSpanLinear p (fnOf Ul) P.length u) j)) := by
  obtain ⟨hs, hp, hκ⟩ := findSpanLinear_dom hC.knotsOk u h1 h2
  exact curveDersA32_true p (fnOf Ul) P _ u d j order k hp hκ hC.net hC.mono hs.nonempty hk

/-- A3.2 as coded on a homogeneous net, then A4.2 (`CurveEvaluatorRational.derivatives`), at a span: the Leibniz
    system of the true derivatives -/
theorem ratCurveDersA32_true (p : ℕ) (U : ℕ → K) (Pw : List (List K)) (κ : ℕ) (u : K)
    (d order k j : ℕ) (hp : p ≤ κ) (hκ : κ < Pw.length) (hP : NetOk (d+1) Pw) (hm : Monotone U)
    (hspan : U κ < U (κ+1)) (hw0 : eval u (spanPoly p U Pw κ d) ≠ 0) (hk : k ≤ order) (hj : j < d) :
    ∑ i ∈ range (k+1), (Nat.choose k i : K) * eval u (derivative^[i] (spanPoly p U Pw κ d))
        * ((ratCurveDers (curveDersA32 p U Pw κ u order)).getD (k - i) []).getD j 0
      = eval u (derivative^[k] (spanPoly p U Pw κ j)) := by
  have hlen : (curveDersA32 p U Pw κ u order).length = order + 1 := by simp [curveDersA32]
  have hrows : ∀ r ∈ curveDersA32 p U Pw κ u order, r.length = d + 1 := by
    intro r hr
    obtain ⟨i, hi, rfl⟩ := List.getElem_of_mem hr
    have := curveDersA32_row_length p U Pw κ u (d+1) order i hp hκ hP (by omega)
    rwa [List.getD_eq_getElem?_getD, List.getElem?_eq_getElem hi, Option.getD_some] at this
  have htrue : ∀ i c, i ≤ order → ((curveDersA32 p U Pw κ u order).getD i []).getD c 0
      = eval u (derivative^[i] (spanPoly p U Pw κ c)) :=
    fun i c hi => curveDersA32_true p U Pw κ u (d+1) c order i hp hκ hP hm hspan hi
  have hw : ((curveDersA32 p U Pw κ u order).getD 0 []).getD d 0 ≠ 0 := by
    rw [htrue 0 d (by omega)]; exact hw0
  have h := ratCurveDers_leibniz (curveDersA32 p U Pw κ u order) d hrows hw k j (by omega) hj
  rw [htrue k j hk] at h
  rw [← h]
  apply Finset.sum_congr rfl
  intro i hi
  rw [htrue i d (by have := Finset.mem_range.mp hi; omega)]

/-- … through the span search, closed domain, positive weights (what `NURBS.Curve.derivatives` runs) -/
theorem ratCurveDersA32_domain (p d : ℕ) (Ul : List K) (Pw : List (List K)) (hC : CurveWF p (d+1) Ul Pw)
    (hwt : ∀ i, i < Pw.length → 0 < (ptsGet Pw i).getD d 0) (u : K)
    (h1 : fnOf Ul p ≤ u) (h2 : u ≤ fnOf Ul Pw.length) (order k j : ℕ) (hk : k ≤ order) (hj : j < d) :
    0 < eval u (spanPoly p (fnOf Ul) Pw (findSpanLinear p (fnOf Ul) Pw.length u) d) ∧
    ∑ i ∈ range (k+1), (Nat.choose k i : K)
        * eval u (derivative^[i] (spanPoly p (fnOf Ul) Pw (findSpanLinear p (fnOf Ul) Pw.length u) d))
        * ((ratCurveDers (curveDersA32 p (fnOf Ul) Pw (findSpanLinear p (fnOf Ul) Pw.length u) u order)).getD
            (k - i) []).getD j 0
      = eval u (derivative^[k] (spanPoly p (fnOf Ul) Pw (findSpanLinear p (fnOf Ul) Pw.length u) j)) := by
  obtain ⟨hs, hp, hκ⟩ := findSpanLinear_dom hC.knotsOk u h1 h2
  have hpos := (ratCurveDers_domain p d Ul Pw hC hwt u h1 h2 0 0 j (le_refl _) hj).1
  exact ⟨hpos, ratCurveDersA32_true p (fnOf Ul) Pw _ u d order k j hp hκ hC.net hC.mono hs.nonempty
    (ne_of_gt hpos) hk hj⟩

/-- `tangent_curve_single` of a non-rational curve through the span search, closed domain -/
theorem tangentCurve_domain (p d : ℕ) (Ul : List K) (P : List (List K)) (hC : CurveWF p d Ul P) (u : K)
    (h1 : fnOf Ul p ≤ u) (h2 : u ≤ fnOf Ul P.length) (j : ℕ) :
    (tangentCurve (curveDersA32 p (fnOf Ul) P (findSpanLinear p (fnOf Ul) P.length u) u 1)).1.getD j 0
      = eval u (spanPoly p (fnOf Ul) P (findSpanLinear p (fnOf Ul) P.length u) j) ∧
    (tangentCurve (curveDersA32 p (fnOf Ul) P (findSpanLinear p (fnOf Ul) P.length u) u 1)).2.getD j 0
      = eval u (derivative (spanPoly p (fnOf Ul) P (findSpanLinear p (fnOf Ul) P.length u) j)) := by
  obtain ⟨hs, hp, hκ⟩ := findSpanLinear_dom hC.knotsOk u h1 h2
  exact tangentCurve_true p (fnOf Ul) P _ u d j hp hκ hC.net hC.mono hs.nonempty

/-- `tangent_curve_single` of a RATIONAL curve (A3.2 as coded on the span found, A4.2, `(ders[0], ders[1])`): with
    `w`, `A_j` the weight / numerator polynomials of the span, `w(u) > 0`, `w·C = A_j`, `w·T + w'·C = A_j'` -/
theorem tangentCurve_rational_domain (p d : ℕ) (Ul : List K) (Pw : List (List K))
    (hC : CurveWF p (d+1) Ul Pw) (hwt : ∀ i, i < Pw.length → 0 < (ptsGet Pw i).getD d 0) (u : K)
    (h1 : fnOf Ul p ≤ u) (h2 : u ≤ fnOf Ul Pw.length) (j : ℕ) (hj : j < d) :
    0 < eval u (spanPoly p (fnOf Ul) Pw (findSpanLinear p (fnOf Ul) Pw.length u) d) ∧
    eval u (spanPoly p (fnOf Ul) Pw (findSpanLinear p (fnOf Ul) Pw.length u) d)
        * (tangentCurve (ratCurveDers (curveDersA32 p (fnOf Ul) Pw (findSpanLinear p (fnOf Ul) Pw.length u) u 1))).1.getD j 0
      = eval u (spanPoly p (fnOf Ul) Pw (findSpanLinear p (fnOf Ul) Pw.length u) j) ∧
    eval u (spanPoly p (fnOf Ul) Pw (findSpanLinear p (fnOf Ul) Pw.length u) d)
        * (tangentCurve (ratCurveDers (curveDersA32 p (fnOf Ul) Pw (findSpanLinear p (fnOf Ul) Pw.length u) u 1))).2.getD j 0
      + eval u (derivative (spanPoly p (fnOf Ul) Pw (findSpanLinear p (fnOf Ul) Pw.length u) d))
        * (tangentCurve (ratCurveDers (curveDersA32 p (fnOf Ul) Pw (findSpanLinear p (fnOf Ul) Pw.length u) u 1))).1.getD j 0
      = eval u (derivative (spanPoly p (fnOf Ul) Pw (findSpanLinear p (fnOf Ul) Pw.length u) j)) := by
  obtain ⟨hpos, k0⟩ := ratCurveDersA32_domain p d Ul Pw hC hwt u h1 h2 1 0 j (by omega) hj
  obtain ⟨_, k1⟩ := ratCurveDersA32_domain p d Ul Pw hC hwt u h1 h2 1 1 j (by omega) hj
  simp only [Finset.sum_range_succ, Finset.sum_range_zero, zero_add, Nat.choose_self, Nat.choose_zero_right,
    Nat.cast_one, one_mul, Function.iterate_zero, id_eq, Function.iterate_one, Nat.sub_zero, Nat.sub_self] at k0 k1
  exact ⟨hpos, k0, k1⟩

/-! ### surfaces -/

/-- A3.6 as coded through the two span searches, closed domain -/
theorem surfaceDersA36_domain (pu pv : ℕ) (Uu Uv : ℕ → K) (su sv : ℕ) (P : List (List K)) (u v : K)
    (d j order k l : ℕ) (hUu : KnotsOk pu Uu su) (hUv : KnotsOk pv Uv sv) (hlen : P.length = su * sv) (hP : NetOk d P)
    (hu1 : Uu pu ≤ u) (hu2 : u ≤ Uu su) (hv1 : Uv pv ≤ v) (hv2 : v ≤ Uv sv) (hk : k ≤ order) (hl : l ≤ order) :
    (((surfaceDersA36 pu pv Uu Uv sv P (findSpanLinear pu Uu su u) (findSpanLinear pv Uv sv v) u v order).getD k []).getD
        l []).getD j 0
      = (pderivU^[k] (pderivV^[l] (surfSpanPoly pu pv Uu Uv sv P (findSpanLinear pu Uu su u)
          (findSpanLinear pv Uv sv v) j))).evalEval u v := by
  obtain ⟨hsu, hpu, hku⟩ := findSpanLinear_dom hUu u hu1 hu2
  obtain ⟨hsv, hpv, hkv⟩ := findSpanLinear_dom hUv v hv1 hv2
  exact surfaceDersA36_true pu pv Uu Uv su sv P _ _ u v d j order k l hpu hpv hku hkv hlen hP hUu.mono hUv.mono
    hsu.nonempty hsv.nonempty hk hl

/-- A3.6 as coded on a homogeneous net, then A4.4 (`SurfaceEvaluatorRational.derivatives`), through the span
    searches, closed domain, positive weights -/
theorem ratSurfaceDersA36_domain (pu pv : ℕ) (Uu Uv : ℕ → K) (su sv : ℕ) (Pw : List (List K)) (u v : K)
    (d c order k l : ℕ)
    (hUu : KnotsOk pu Uu su) (hUv : KnotsOk pv Uv sv) (hlen : Pw.length = su * sv) (hP : NetOk (d+1) Pw)
    (hwt : ∀ i, i < Pw.length → 0 < (ptsGet Pw i).getD d 0)
    (hu1 : Uu pu ≤ u) (hu2 : u ≤ Uu su) (hv1 : Uv pv ≤ v) (hv2 : v ≤ Uv sv)
    (hk : k ≤ order) (hl : l ≤ order) (hc : c < d) :
    0 < (surfSpanPoly pu pv Uu Uv sv Pw (findSpanLinear pu Uu su u) (findSpanLinear pv Uv sv v) d).evalEval u v ∧
    ∑ i ∈ range (k+1), ∑ j ∈ range (l+1),
      (Nat.choose k i : K) * (Nat.choose l j : K)
        * (pderivU^[i] (pderivV^[j] (surfSpanPoly pu pv Uu Uv sv Pw (findSpanLinear pu Uu su u)
            (findSpanLinear pv Uv sv v) d))).evalEval u v
        * ((((ratSurfaceDers (surfaceDersA36 pu pv Uu Uv sv Pw (findSpanLinear pu Uu su u)
            (findSpanLinear pv Uv sv v) u v order) order).getD (k - i) []).getD (l - j) []).getD c 0)
      = (pderivU^[k] (pderivV^[l] (surfSpanPoly pu pv Uu Uv sv Pw (findSpanLinear pu Uu su u)
            (findSpanLinear pv Uv sv v) c))).evalEval u v := by
  obtain ⟨hsu, hpu, hku⟩ := findSpanLinear_dom hUu u hu1 hu2
  obtain ⟨hsv, hpv, hkv⟩ := findSpanLinear_dom hUv v hv1 hv2
  have hpos := (ratSurfaceDers_domain pu pv Uu Uv su sv Pw u v d c 0 0 0 hUu hUv hlen hP hwt hu1 hu2 hv1 hv2
    (le_refl _) (le_refl _) hc).1
  exact ⟨hpos, ratSurfaceDersA36_true pu pv Uu Uv su sv Pw _ _ u v d c order k l hpu hpv hku hkv hlen hP
    hUu.mono hUv.mono hsu.nonempty hsv.nonempty (ne_of_gt hpos) hk hl hc⟩

/-- `tangent_surface_single` of a non-rational surface through the span searches, closed domain -/
theorem tangentSurface_domain (pu pv : ℕ) (Uu Uv : ℕ → K) (su sv : ℕ) (P : List (List K)) (u v : K) (d j : ℕ)
    (hUu : KnotsOk pu Uu su) (hUv : KnotsOk pv Uv sv) (hlen : P.length = su * sv) (hP : NetOk d P)
    (hu1 : Uu pu ≤ u) (hu2 : u ≤ Uu su) (hv1 : Uv pv ≤ v) (hv2 : v ≤ Uv sv) :
    (tangentSurface (surfaceDersA36 pu pv Uu Uv sv P (findSpanLinear pu Uu su u) (findSpanLinear pv Uv sv v) u v 1)).1.getD j 0
      = (surfSpanPoly pu pv Uu Uv sv P (findSpanLinear pu Uu su u) (findSpanLinear pv Uv sv v) j).evalEval u v ∧
    (tangentSurface (surfaceDersA36 pu pv Uu Uv sv P (findSpanLinear pu Uu su u) (findSpanLinear pv Uv sv v) u v 1)).2.1.getD j 0
      = (pderivU (surfSpanPoly pu pv Uu Uv sv P (findSpanLinear pu Uu su u) (findSpanLinear pv Uv sv v) j)).evalEval u v ∧
    (tangentSurface (surfaceDersA36 pu pv Uu Uv sv P (findSpanLinear pu Uu su u) (findSpanLinear pv Uv sv v) u v 1)).2.2.getD j 0
      = (pderivV (surfSpanPoly pu pv Uu Uv sv P (findSpanLinear pu Uu su u) (findSpanLinear pv Uv sv v) j)).evalEval u v := by
  obtain ⟨hsu, hpu, hku⟩ := findSpanLinear_dom hUu u hu1 hu2
  obtain ⟨hsv, hpv, hkv⟩ := findSpanLinear_dom hUv v hv1 hv2
  exact tangentSurface_true pu pv Uu Uv su sv P _ _ u v d j hpu hpv hku hkv hlen hP hUu.mono hUv.mono
    hsu.nonempty hsv.nonempty

/-- `normal_surface_single` of a non-rational 3-D surface through the span searches, closed domain -/
theorem normalSurface_domain (pu pv : ℕ) (Uu Uv : ℕ → K) (su sv : ℕ) (P : List (List K)) (u v : K)
    (hUu : KnotsOk pu Uu su) (hUv : KnotsOk pv Uv sv) (hlen : P.length = su * sv) (hP : NetOk 3 P)
    (hu1 : Uu pu ≤ u) (hu2 : u ≤ Uu su) (hv1 : Uv pv ≤ v) (hv2 : v ≤ Uv sv)
    (Su Sv : ℕ → K)
    (hSu : ∀ c, Su c = (pderivU (surfSpanPoly pu pv Uu Uv sv P (findSpanLinear pu Uu su u)
      (findSpanLinear pv Uv sv v) c)).evalEval u v)
    (hSv : ∀ c, Sv c = (pderivV (surfSpanPoly pu pv Uu Uv sv P (findSpanLinear pu Uu su u)
      (findSpanLinear pv Uv sv v) c)).evalEval u v) :
    ∃ pt n, normalSurface (surfaceDersA36 pu pv Uu Uv sv P (findSpanLinear pu Uu su u) (findSpanLinear pv Uv sv v)
        u v 1) = some (pt, n) ∧
      (∀ c, pt.getD c 0 = (surfSpanPoly pu pv Uu Uv sv P (findSpanLinear pu Uu su u)
        (findSpanLinear pv Uv sv v) c).evalEval u v) ∧
      n = [Su 1 * Sv 2 - Su 2 * Sv 1, Su 2 * Sv 0 - Su 0 * Sv 2, Su 0 * Sv 1 - Su 1 * Sv 0] ∧
      n.getD 0 0 * Su 0 + n.getD 1 0 * Su 1 + n.getD 2 0 * Su 2 = 0 ∧
      n.getD 0 0 * Sv 0 + n.getD 1 0 * Sv 1 + n.getD 2 0 * Sv 2 = 0 := by
  obtain ⟨hsu, hpu, hku⟩ := findSpanLinear_dom hUu u hu1 hu2
  obtain ⟨hsv, hpv, hkv⟩ := findSpanLinear_dom hUv v hv1 hv2
  exact normalSurface_true pu pv Uu Uv su sv P _ _ u v hpu hpv hku hkv hlen hP hUu.mono hUv.mono
    hsu.nonempty hsv.nonempty Su Sv hSu hSv

end Geomdl
