import NurbsVerif.Lemmas.AssembleLayout
import NurbsVerif.Lemmas.AssembleEnds

/-!
  C13, boundary sections at the level of evaluated points.  A surface is evaluated through the curves
  `extract_curves` returns (`S(u,v)` = curve point at `u` of the polygon of the v-curves' points at `v`,
  and the other way round); at a clamped end of a direction the polygon collapses to its first / last
  point, so the boundary iso-curve (iso-surface of a volume) IS the first / last extracted curve
  (surface).
-/
namespace Geomdl
open Blossom Finset
set_option linter.unusedSectionVars false
variable {K : Type} [Field K] [LinearOrder K] [IsStrictOrderedRing K]

/-- a curve with a clamped knot function evaluated at the start (`e = false`) / end (`e = true`) of its
    domain is its first / last control point -/
theorem curvePoint_at_end (p : ℕ) (U : ℕ → K) (P : List (List K)) (n d j : ℕ) (hn : P.length = n)
    (hU : KnotsOk p U n) (hc : ClampedOk p U n) (hP : NetOk d P) (e : Bool) :
    (curvePoint p U P (if e then U n else U p)).getD j 0
      = (ptsGet P (if e then n - 1 else 0)).getD j 0 := by
  subst hn
  cases e
  · simp only [Bool.false_eq_true, if_false]
    exact curvePoint_start p U P d j hU.mono hU.pn hP hc.first hc.start
  · simp only [if_true]
    exact curvePoint_end p U P d j hU hP hc.stop

theorem ptsGet_map_range (n : ℕ) (f : ℕ → List K) (i : ℕ) (hi : i < n) :
    ptsGet ((List.range n).map f) i = f i := by
  simp [ptsGet, List.getD_eq_getElem?_getD, List.getElem?_range hi]

/-! ### surfaces through `extract_curves` -/

section surface
variable (S : Srf (List K) (ℕ → K)) (d : ℕ)

theorem extractCurvesV_eq : extractCurvesV S = (List.range S.su).map fun u =>
    ({ deg := S.dv, kv := S.kv, pts := rowOf S.sv S.pts u } : Crv (List K) (ℕ → K)) := rfl

theorem extractCurvesU_eq : extractCurvesU S = (List.range S.sv).map fun v =>
    ({ deg := S.du, kv := S.ku, pts := colOf S.su S.sv S.pts v } : Crv (List K) (ℕ → K)) := rfl

/-- **`'v'` family, on given spans**: `S(u,v)` is the degree-`du` curve point at `u` of the polygon formed
    by the points at `v` of the extracted v-curves -/
theorem surfacePointAt_extractV (h : S.WF) (hd : NetOk d S.pts) (ku kv : ℕ)
    (hpu : S.du ≤ ku) (hpv : S.dv ≤ kv) (hku : ku < S.su) (hkv : kv < S.sv) (u v : K) (j : ℕ) :
    (surfacePointAt S.du S.dv S.ku S.kv S.sv S.pts ku kv u v).getD j 0
      = (curvePointAt S.du S.ku ((extractCurvesV S).map fun C => curvePointAt C.deg C.kv C.pts kv v) ku u).getD j 0 := by
  rw [extractCurvesV_eq, List.map_map]
  have e := curvePointAt_of_sections S.du S.ku S.su ku u d j hpu hku
    (fun i => curvePointAt S.dv S.kv (rowOf S.sv S.pts i) kv v)
    (fun i hi => curvePointAt_length S.dv S.kv _ kv v d hpv (by simp [rowOf]; exact hkv)
      (rowOf_netOk S.su S.sv d S.pts hd h.1 i hi))
  simp only [Function.comp_def] at e ⊢
  rw [e]
  exact surfacePointAt_rows S.du S.dv S.ku S.kv S.su S.sv S.pts ku kv u v d j hpu hpv hku hkv h.1 hd

/-- **`'u'` family, on given spans**: `S(u,v)` is the degree-`dv` curve point at `v` of the polygon formed
    by the points at `u` of the extracted u-curves -/
theorem surfacePointAt_extractU (h : S.WF) (hd : NetOk d S.pts) (ku kv : ℕ)
    (hpu : S.du ≤ ku) (hpv : S.dv ≤ kv) (hku : ku < S.su) (hkv : kv < S.sv) (u v : K) (j : ℕ) :
    (surfacePointAt S.du S.dv S.ku S.kv S.sv S.pts ku kv u v).getD j 0
      = (curvePointAt S.dv S.kv ((extractCurvesU S).map fun C => curvePointAt C.deg C.kv C.pts ku u) kv v).getD j 0 := by
  rw [extractCurvesU_eq, List.map_map]
  have e := curvePointAt_of_sections S.dv S.kv S.sv kv v d j hpv hkv
    (fun i => curvePointAt S.du S.ku (colOf S.su S.sv S.pts i) ku u)
    (fun i hi => curvePointAt_length S.du S.ku _ ku u d hpu (by simp [colOf]; exact hku)
      (colOf_netOk S.su S.sv d S.pts hd h.1 i hi))
  simp only [Function.comp_def] at e ⊢
  rw [e]
  exact surfacePointAt_cols S.du S.dv S.ku S.kv S.su S.sv S.pts ku kv u v d j hpu hpv hku hkv h.1 hd

/-- `'v'` family, point level (all spans by the library's linear search) -/
theorem surfacePoint_extractV (h : S.WF) (hd : NetOk d S.pts) (hdu : S.du + 1 ≤ S.su) (hdv : S.dv + 1 ≤ S.sv)
    (u v : K) (j : ℕ) :
    (surfacePoint S.du S.dv S.ku S.kv S.su S.sv S.pts u v).getD j 0
      = (curvePoint S.du S.ku ((extractCurvesV S).map fun C => curvePoint C.deg C.kv C.pts v) u).getD j 0 := by
  have key := surfacePointAt_extractV S d h hd _ _ (asm_span_ge S.du S.ku S.su u hdu) (asm_span_ge S.dv S.kv S.sv v hdv)
    (asm_span_lt S.du S.ku S.su u hdu) (asm_span_lt S.dv S.kv S.sv v hdv) u v j
  have hl : ((extractCurvesV S).map fun C =>
      curvePointAt C.deg C.kv C.pts (findSpanLinear S.dv S.kv S.sv v) v).length = S.su := by
    simp [extractCurvesV]
  have hm : ((extractCurvesV S).map fun C => curvePoint C.deg C.kv C.pts v)
      = (extractCurvesV S).map fun C => curvePointAt C.deg C.kv C.pts (findSpanLinear S.dv S.kv S.sv v) v := by
    apply List.map_congr_left
    intro C hC
    rw [extractCurvesV_eq] at hC
    simp only [List.mem_map, List.mem_range] at hC
    obtain ⟨i, _, rfl⟩ := hC
    simp [curvePoint, rowOf]
  rw [hm]
  unfold surfacePoint curvePoint
  rw [hl]
  exact key

/-- `'u'` family, point level -/
theorem surfacePoint_extractU (h : S.WF) (hd : NetOk d S.pts) (hdu : S.du + 1 ≤ S.su) (hdv : S.dv + 1 ≤ S.sv)
    (u v : K) (j : ℕ) :
    (surfacePoint S.du S.dv S.ku S.kv S.su S.sv S.pts u v).getD j 0
      = (curvePoint S.dv S.kv ((extractCurvesU S).map fun C => curvePoint C.deg C.kv C.pts u) v).getD j 0 := by
  have key := surfacePointAt_extractU S d h hd _ _ (asm_span_ge S.du S.ku S.su u hdu) (asm_span_ge S.dv S.kv S.sv v hdv)
    (asm_span_lt S.du S.ku S.su u hdu) (asm_span_lt S.dv S.kv S.sv v hdv) u v j
  have hl : ((extractCurvesU S).map fun C =>
      curvePointAt C.deg C.kv C.pts (findSpanLinear S.du S.ku S.su u) u).length = S.sv := by
    simp [extractCurvesU]
  have hm : ((extractCurvesU S).map fun C => curvePoint C.deg C.kv C.pts u)
      = (extractCurvesU S).map fun C => curvePointAt C.deg C.kv C.pts (findSpanLinear S.du S.ku S.su u) u := by
    apply List.map_congr_left
    intro C hC
    rw [extractCurvesU_eq] at hC
    simp only [List.mem_map, List.mem_range] at hC
    obtain ⟨i, _, rfl⟩ := hC
    simp [curvePoint, colOf]
  rw [hm]
  unfold surfacePoint curvePoint
  rw [hl]
  exact key

/-- **boundary iso-curves `u = u_min` / `u = u_max`** of a surface clamped in `u`: the surface point is
    the point at `v` of the first / last curve of the `'v'` family of `extract_curves` -/
theorem surfacePoint_boundary_u (h : S.WF) (hd : NetOk d S.pts) (hUu : KnotsOk S.du S.ku S.su)
    (hcu : ClampedOk S.du S.ku S.su) (hdv : S.dv + 1 ≤ S.sv) (e : Bool) (v : K) (j : ℕ) :
    ∃ C, (extractCurvesV S)[if e then S.su - 1 else 0]? = some C ∧
      (surfacePoint S.du S.dv S.ku S.kv S.su S.sv S.pts (if e then S.ku S.su else S.ku S.du) v).getD j 0
        = (curvePoint C.deg C.kv C.pts v).getD j 0 := by
  have hi : (if e then S.su - 1 else 0) < S.su := by have := hUu.pn; split <;> omega
  refine ⟨{ deg := S.dv, kv := S.kv, pts := rowOf S.sv S.pts (if e then S.su - 1 else 0) }, ?_, ?_⟩
  · rw [extractCurvesV_eq, List.getElem?_map, List.getElem?_range hi]; rfl
  · rw [surfacePoint_extractV S d h hd hUu.pn hdv, extractCurvesV_eq, List.map_map]
    have hP : NetOk d ((List.range S.su).map
        ((fun C : Crv (List K) (ℕ → K) => curvePoint C.deg C.kv C.pts v) ∘
          fun u => ({ deg := S.dv, kv := S.kv, pts := rowOf S.sv S.pts u } : Crv (List K) (ℕ → K)))) := by
      intro pt hpt
      simp only [List.mem_map, List.mem_range, Function.comp_def] at hpt
      obtain ⟨i, hi, rfl⟩ := hpt
      exact curvePoint_length S.dv S.kv _ v d (by simp [rowOf]; exact hdv) (rowOf_netOk S.su S.sv d S.pts hd h.1 i hi)
    rw [curvePoint_at_end S.du S.ku _ S.su d j (by simp) hUu hcu hP e, ptsGet_map_range _ _ _ hi]
    rfl

/-- **boundary iso-curves `v = v_min` / `v = v_max`** of a surface clamped in `v`: the surface point is
    the point at `u` of the first / last curve of the `'u'` family -/
theorem surfacePoint_boundary_v (h : S.WF) (hd : NetOk d S.pts) (hUv : KnotsOk S.dv S.kv S.sv)
    (hcv : ClampedOk S.dv S.kv S.sv) (hdu : S.du + 1 ≤ S.su) (e : Bool) (u : K) (j : ℕ) :
    ∃ C, (extractCurvesU S)[if e then S.sv - 1 else 0]? = some C ∧
      (surfacePoint S.du S.dv S.ku S.kv S.su S.sv S.pts u (if e then S.kv S.sv else S.kv S.dv)).getD j 0
        = (curvePoint C.deg C.kv C.pts u).getD j 0 := by
  have hi : (if e then S.sv - 1 else 0) < S.sv := by have := hUv.pn; split <;> omega
  refine ⟨{ deg := S.du, kv := S.ku, pts := colOf S.su S.sv S.pts (if e then S.sv - 1 else 0) }, ?_, ?_⟩
  · rw [extractCurvesU_eq, List.getElem?_map, List.getElem?_range hi]; rfl
  · rw [surfacePoint_extractU S d h hd hdu hUv.pn, extractCurvesU_eq, List.map_map]
    have hP : NetOk d ((List.range S.sv).map
        ((fun C : Crv (List K) (ℕ → K) => curvePoint C.deg C.kv C.pts u) ∘
          fun v => ({ deg := S.du, kv := S.ku, pts := colOf S.su S.sv S.pts v } : Crv (List K) (ℕ → K)))) := by
      intro pt hpt
      simp only [List.mem_map, List.mem_range, Function.comp_def] at hpt
      obtain ⟨i, hi, rfl⟩ := hpt
      exact curvePoint_length S.du S.ku _ u d (by simp [colOf]; exact hdu) (colOf_netOk S.su S.sv d S.pts hd h.1 i hi)
    rw [curvePoint_at_end S.dv S.kv _ S.sv d j (by simp) hUv hcv hP e, ptsGet_map_range _ _ _ hi]
    rfl

end surface

end Geomdl
