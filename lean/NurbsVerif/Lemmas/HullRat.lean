import NurbsVerif.Lemmas.HullVol

/-! Rational shapes (positive weights) stay inside the hull of their Cartesian control points, and
    every shape stays inside `boundingBox` (the model of `utilities.evaluate_bounding_box`) of its net. -/
namespace Geomdl
open Blossom Finset
variable {K : Type} [Field K] [LinearOrder K] [IsStrictOrderedRing K]

/-! ### the bounding-box scan -/

theorem zipWith_getD (f : K → K → K) (a b : List K) (j : ℕ) (ha : j < a.length) (hb : j < b.length) :
    (List.zipWith f a b).getD j 0 = f (a.getD j 0) (b.getD j 0) := by
  simp [List.getD_eq_getElem?_getD, List.getElem?_zipWith, List.getElem?_eq_getElem ha, List.getElem?_eq_getElem hb]

/-- invariant of the min / max scan -/
theorem bbFold_spec (d j : ℕ) (hj : j < d) : ∀ (rest : List (List K)) (acc : List K × List K),
    acc.1.length = d → acc.2.length = d → (∀ pt ∈ rest, pt.length = d) →
    (rest.foldl (fun (acc : List K × List K) pt =>
      (List.zipWith (fun c m => if c < m then c else m) pt acc.1,
       List.zipWith (fun c m => if m < c then c else m) pt acc.2)) acc).1.getD j 0 ≤ acc.1.getD j 0 ∧
    acc.2.getD j 0 ≤ (rest.foldl (fun (acc : List K × List K) pt =>
      (List.zipWith (fun c m => if c < m then c else m) pt acc.1,
       List.zipWith (fun c m => if m < c then c else m) pt acc.2)) acc).2.getD j 0 ∧
    ∀ pt ∈ rest,
      (rest.foldl (fun (acc : List K × List K) pt =>
        (List.zipWith (fun c m => if c < m then c else m) pt acc.1,
         List.zipWith (fun c m => if m < c then c else m) pt acc.2)) acc).1.getD j 0 ≤ pt.getD j 0 ∧
      pt.getD j 0 ≤ (rest.foldl (fun (acc : List K × List K) pt =>
        (List.zipWith (fun c m => if c < m then c else m) pt acc.1,
         List.zipWith (fun c m => if m < c then c else m) pt acc.2)) acc).2.getD j 0 := by
  intro rest
  induction rest with
  | nil => intro acc _ _ _; simp
  | cons p ps ih =>
    intro acc h1 h2 hall
    have hp : p.length = d := hall p (by simp)
    simp only [List.foldl_cons]
    have hl1 : (List.zipWith (fun c m => if c < m then c else m) p acc.1).length = d := by
      rw [List.length_zipWith, hp, h1]; simp
    have hl2 : (List.zipWith (fun c m => if m < c then c else m) p acc.2).length = d := by
      rw [List.length_zipWith, hp, h2]; simp
    obtain ⟨i1, i2, i3⟩ := ih (List.zipWith (fun c m => if c < m then c else m) p acc.1,
       List.zipWith (fun c m => if m < c then c else m) p acc.2) hl1 hl2 (fun pt hpt => hall pt (by simp [hpt]))
    simp only at i1 i2 i3
    rw [zipWith_getD _ p acc.1 j (by omega) (by omega)] at i1
    rw [zipWith_getD _ p acc.2 j (by omega) (by omega)] at i2
    have m1 : (if p.getD j 0 < acc.1.getD j 0 then p.getD j 0 else acc.1.getD j 0) ≤ acc.1.getD j 0 := by
      split_ifs with hc
      · exact le_of_lt hc
      · exact le_refl _
    have m2 : (if p.getD j 0 < acc.1.getD j 0 then p.getD j 0 else acc.1.getD j 0) ≤ p.getD j 0 := by
      split_ifs with hc
      · exact le_refl _
      · exact not_lt.mp hc
    have M1 : acc.2.getD j 0 ≤ (if acc.2.getD j 0 < p.getD j 0 then p.getD j 0 else acc.2.getD j 0) := by
      split_ifs with hc
      · exact le_of_lt hc
      · exact le_refl _
    have M2 : p.getD j 0 ≤ (if acc.2.getD j 0 < p.getD j 0 then p.getD j 0 else acc.2.getD j 0) := by
      split_ifs with hc
      · exact le_refl _
      · exact not_lt.mp hc
    refine ⟨le_trans i1 m1, le_trans M1 i2, ?_⟩
    intro pt hpt
    rcases List.mem_cons.mp hpt with rfl | hpt'
    · exact ⟨le_trans i1 m2, le_trans M2 i2⟩
    · exact i3 pt hpt'

/-- **`evaluate_bounding_box` bounds every point of the net**, coordinate by coordinate -/
theorem boundingBox_spec (d : ℕ) (P : List (List K)) (hP : NetOk d P) (i : ℕ) (hi : i < P.length) (j : ℕ) (hj : j < d) :
    (boundingBox P).1.getD j 0 ≤ (ptsGet P i).getD j 0 ∧ (ptsGet P i).getD j 0 ≤ (boundingBox P).2.getD j 0 := by
  have hmem : ptsGet P i ∈ P := by
    unfold ptsGet
    rw [List.getD_eq_getElem?_getD, List.getElem?_eq_getElem hi]
    exact List.getElem_mem hi
  cases P with
  | nil => simp at hi
  | cons p0 rest =>
    obtain ⟨b1, b2, b3⟩ := bbFold_spec d j hj rest (p0, p0) (hP p0 (by simp)) (hP p0 (by simp))
      (fun pt hpt => hP pt (by simp [hpt]))
    rcases List.mem_cons.mp hmem with h | h
    · rw [h]; exact ⟨b1, b2⟩
    · exact b3 _ h

/-! ### inside the reported bounding box (non-rational) -/

theorem curvePointAt_in_boundingBox (p : ℕ) (U : ℕ → K) (P : List (List K)) (k : ℕ) (u : K) (d j : ℕ)
    (h : SpanOk U k u) (hp : p ≤ k) (hk : k < P.length) (hP : NetOk d P) (hj : j < d) :
    (boundingBox P).1.getD j 0 ≤ (curvePointAt p U P k u).getD j 0 ∧
      (curvePointAt p U P k u).getD j 0 ≤ (boundingBox P).2.getD j 0 :=
  curvePointAt_in_box p U P k u d j h hp hk hP _ _
    (fun i hi => (boundingBox_spec d P hP i hi j hj).1) (fun i hi => (boundingBox_spec d P hP i hi j hj).2)

theorem surfacePointAt_in_boundingBox (pu pv : ℕ) (Uu Uv : ℕ → K) (su sv : ℕ) (P : List (List K)) (ku kv : ℕ) (u v : K) (d j : ℕ)
    (hu : SpanOk Uu ku u) (hv : SpanOk Uv kv v)
    (hpu : pu ≤ ku) (hpv : pv ≤ kv) (hku : ku < su) (hkv : kv < sv) (hlen : P.length = su * sv) (hP : NetOk d P) (hj : j < d) :
    (boundingBox P).1.getD j 0 ≤ (surfacePointAt pu pv Uu Uv sv P ku kv u v).getD j 0 ∧
      (surfacePointAt pu pv Uu Uv sv P ku kv u v).getD j 0 ≤ (boundingBox P).2.getD j 0 :=
  surfacePointAt_in_box pu pv Uu Uv su sv P ku kv u v d j hu hv hpu hpv hku hkv hlen hP _ _
    (fun i hi => (boundingBox_spec d P hP i hi j hj).1) (fun i hi => (boundingBox_spec d P hP i hi j hj).2)

theorem volumePointAt_in_boundingBox (pu pv pw : ℕ) (Uu Uv Uw : ℕ → K) (su sv sw : ℕ) (P : List (List K))
    (ku kv kw : ℕ) (u v w : K) (d j : ℕ)
    (hu : SpanOk Uu ku u) (hv : SpanOk Uv kv v) (hw : SpanOk Uw kw w)
    (hpu : pu ≤ ku) (hpv : pv ≤ kv) (hpw : pw ≤ kw) (hku : ku < su) (hkv : kv < sv) (hkw : kw < sw)
    (hlen : P.length = su * sv * sw) (hP : NetOk d P) (hj : j < d) :
    (boundingBox P).1.getD j 0 ≤ (volumePointAt pu pv pw Uu Uv Uw su sv P ku kv kw u v w).getD j 0 ∧
      (volumePointAt pu pv pw Uu Uv Uw su sv P ku kv kw u v w).getD j 0 ≤ (boundingBox P).2.getD j 0 :=
  volumePointAt_in_box pu pv pw Uu Uv Uw su sv sw P ku kv kw u v w d j hu hv hw hpu hpv hpw hku hkv hkw hlen hP _ _
    (fun i hi => (boundingBox_spec d P hP i hi j hj).1) (fun i hi => (boundingBox_spec d P hP i hi j hj).2)

/-! ### rational shapes -/

/-- generic assembled form: a homogeneous point `pt` (with `d+1` coordinates) that is a convex
    combination of homogeneous control points `cp i` with positive weights projects into the hull of
    the projected control points -/
theorem rat_hull_lists {ι : Type} (s : Finset ι) (c : ι → K) (hc1 : ∑ i ∈ s, c i = 1) (hc0 : ∀ i ∈ s, 0 ≤ c i)
    (d : ℕ) (pt : List K) (cp : ι → List K) (hpt : pt.length = d + 1) (hcp : ∀ i ∈ s, (cp i).length = d + 1)
    (hX : ∀ l, pt.getD l 0 = ∑ i ∈ s, c i * (cp i).getD l 0)
    (hw : ∀ i ∈ s, 0 < (cp i).getD d 0) (A : ℕ → K) (lo hi : K)
    (hlo : ∀ i ∈ s, lo ≤ ∑ l ∈ range d, A l * (project (cp i)).getD l 0)
    (hhi : ∀ i ∈ s, ∑ l ∈ range d, A l * (project (cp i)).getD l 0 ≤ hi) :
    0 < pt.getD d 0 ∧ lo ≤ ∑ l ∈ range d, A l * (project pt).getD l 0 ∧
      ∑ l ∈ range d, A l * (project pt).getD l 0 ≤ hi := by
  have epr : ∀ (x : List K), x.length = d + 1 →
      ∑ l ∈ range d, A l * (project x).getD l 0 = ∑ l ∈ range d, A l * (x.getD l 0 / x.getD d 0) := by
    intro x hx
    apply Finset.sum_congr rfl
    intro l hl
    rw [project_getD x d l hx (Finset.mem_range.mp hl)]
  rw [epr pt hpt]
  apply rat_hull_of_repr s c hc1 hc0 d (fun l => pt.getD l 0) (fun i l => (cp i).getD l 0) (fun l _ => hX l) hw A lo hi
  · intro i hmem
    rw [← epr (cp i) (hcp i hmem)]; exact hlo i hmem
  · intro i hmem
    rw [← epr (cp i) (hcp i hmem)]; exact hhi i hmem

/-- **Rational curves** (weights of the active control points positive): the weight of the
    evaluated homogeneous point is positive, and every linear functional of the projected point
    lies between its bounds on the projected (Cartesian) active control points -/
theorem curvePointAt_rational_in_hull (p : ℕ) (U : ℕ → K) (Pw : List (List K)) (k : ℕ) (u : K) (d : ℕ)
    (h : SpanOk U k u) (hp : p ≤ k) (hk : k < Pw.length) (hP : NetOk (d+1) Pw)
    (hwt : ∀ r, r ≤ p → 0 < (ptsGet Pw (k - p + r)).getD d 0) (A : ℕ → K) (lo hi : K)
    (hlo : ∀ r, r ≤ p → lo ≤ ∑ l ∈ range d, A l * (project (ptsGet Pw (k - p + r))).getD l 0)
    (hhi : ∀ r, r ≤ p → ∑ l ∈ range d, A l * (project (ptsGet Pw (k - p + r))).getD l 0 ≤ hi) :
    0 < (curvePointAt p U Pw k u).getD d 0 ∧
    lo ≤ ∑ l ∈ range d, A l * (project (curvePointAt p U Pw k u)).getD l 0 ∧
      ∑ l ∈ range d, A l * (project (curvePointAt p U Pw k u)).getD l 0 ≤ hi := by
  obtain ⟨h1, h0, hX⟩ := curvePointAt_convex p U Pw k u (d+1) h hp hk hP
  have hlen : (curvePointAt p U Pw k u).length = d + 1 := by
    unfold curvePointAt
    rw [dimOf_eq hP (by omega)]
    apply linComb_length
    intro pt hpt
    simp only [List.mem_map, List.mem_range] at hpt
    obtain ⟨r, hr, rfl⟩ := hpt
    exact ptsGet_length hP _ (by omega)
  apply rat_hull_lists _ _ h1 h0 d _ (fun r => ptsGet Pw (k - p + r)) hlen _ hX
  · intro r hr; rw [Finset.mem_range] at hr; exact hwt r (by omega)
  · intro r hr; rw [Finset.mem_range] at hr; exact hlo r (by omega)
  · intro r hr; rw [Finset.mem_range] at hr; exact hhi r (by omega)
  · intro r hr; rw [Finset.mem_range] at hr; exact ptsGet_length hP _ (by omega)

theorem surfacePointAt_length (pu pv : ℕ) (Uu Uv : ℕ → K) (su sv : ℕ) (P : List (List K)) (ku kv : ℕ) (u v : K) (d : ℕ)
    (hpu : pu ≤ ku) (hpv : pv ≤ kv) (hku : ku < su) (hkv : kv < sv) (hlen : P.length = su * sv) (hP : NetOk d P) :
    (surfacePointAt pu pv Uu Uv sv P ku kv u v).length = d := by
  have hpos : 0 < P.length := by rw [hlen]; exact Nat.mul_pos (by omega) (by omega)
  unfold surfacePointAt
  simp only []
  rw [dimOf_eq hP hpos]
  apply linComb_length
  intro pt hpt
  simp only [List.mem_map, List.mem_range] at hpt
  obtain ⟨a, ha, rfl⟩ := hpt
  apply linComb_length
  intro pt hpt
  simp only [List.mem_map, List.mem_range] at hpt
  obtain ⟨b, hb, rfl⟩ := hpt
  apply ptsGet_length hP
  rw [hlen]
  calc kv - pv + b + sv * (ku - pu + a) < sv + sv * (ku - pu + a) := by omega
    _ = sv * (ku - pu + a + 1) := by ring
    _ ≤ sv * su := Nat.mul_le_mul_left _ (by omega)
    _ = su * sv := by ring

/-- **Rational surfaces** -/
theorem surfacePointAt_rational_in_hull (pu pv : ℕ) (Uu Uv : ℕ → K) (su sv : ℕ) (Pw : List (List K)) (ku kv : ℕ) (u v : K) (d : ℕ)
    (hu : SpanOk Uu ku u) (hv : SpanOk Uv kv v)
    (hpu : pu ≤ ku) (hpv : pv ≤ kv) (hku : ku < su) (hkv : kv < sv) (hlen : Pw.length = su * sv) (hP : NetOk (d+1) Pw)
    (hwt : ∀ a b, a ≤ pu → b ≤ pv → 0 < (ptsGet Pw (kv - pv + b + sv * (ku - pu + a))).getD d 0)
    (A : ℕ → K) (lo hi : K)
    (hlo : ∀ a b, a ≤ pu → b ≤ pv →
      lo ≤ ∑ l ∈ range d, A l * (project (ptsGet Pw (kv - pv + b + sv * (ku - pu + a)))).getD l 0)
    (hhi : ∀ a b, a ≤ pu → b ≤ pv →
      ∑ l ∈ range d, A l * (project (ptsGet Pw (kv - pv + b + sv * (ku - pu + a)))).getD l 0 ≤ hi) :
    0 < (surfacePointAt pu pv Uu Uv sv Pw ku kv u v).getD d 0 ∧
    lo ≤ ∑ l ∈ range d, A l * (project (surfacePointAt pu pv Uu Uv sv Pw ku kv u v)).getD l 0 ∧
      ∑ l ∈ range d, A l * (project (surfacePointAt pu pv Uu Uv sv Pw ku kv u v)).getD l 0 ≤ hi := by
  obtain ⟨h1, h0, hX⟩ := surfacePointAt_convex pu pv Uu Uv su sv Pw ku kv u v (d+1) hu hv hpu hpv hku hkv hlen hP
  have hidx : ∀ a c, a < su → c < sv → c + sv * a < Pw.length := by
    intro a c ha hc
    rw [hlen]
    calc c + sv * a < sv + sv * a := by omega
      _ = sv * (a + 1) := by ring
      _ ≤ sv * su := Nat.mul_le_mul_left _ (by omega)
      _ = su * sv := by ring
  apply rat_hull_lists _ _ h1 h0 d _ (fun i : ℕ × ℕ => ptsGet Pw (kv - pv + i.2 + sv * (ku - pu + i.1)))
    (surfacePointAt_length pu pv Uu Uv su sv Pw ku kv u v (d+1) hpu hpv hku hkv hlen hP) _ hX
  · intro i hmem
    simp only [Finset.mem_product, Finset.mem_range] at hmem
    exact hwt i.1 i.2 (by omega) (by omega)
  · intro i hmem
    simp only [Finset.mem_product, Finset.mem_range] at hmem
    exact hlo i.1 i.2 (by omega) (by omega)
  · intro i hmem
    simp only [Finset.mem_product, Finset.mem_range] at hmem
    exact hhi i.1 i.2 (by omega) (by omega)
  · intro i hmem
    simp only [Finset.mem_product, Finset.mem_range] at hmem
    exact ptsGet_length hP _ (hidx _ _ (by omega) (by omega))

/-- **Rational volumes** -/
theorem volumePointAt_rational_in_hull (pu pv pw : ℕ) (Uu Uv Uw : ℕ → K) (su sv sw : ℕ) (Pw : List (List K))
    (ku kv kw : ℕ) (u v w : K) (d : ℕ)
    (hu : SpanOk Uu ku u) (hv : SpanOk Uv kv v) (hw : SpanOk Uw kw w)
    (hpu : pu ≤ ku) (hpv : pv ≤ kv) (hpw : pw ≤ kw) (hku : ku < su) (hkv : kv < sv) (hkw : kw < sw)
    (hlen : Pw.length = su * sv * sw) (hP : NetOk (d+1) Pw)
    (hwt : ∀ a b c, a ≤ pu → b ≤ pv → c ≤ pw →
      0 < (ptsGet Pw (kv - pv + b + sv * (ku - pu + a + su * (kw - pw + c)))).getD d 0)
    (A : ℕ → K) (lo hi : K)
    (hlo : ∀ a b c, a ≤ pu → b ≤ pv → c ≤ pw →
      lo ≤ ∑ l ∈ range d, A l * (project (ptsGet Pw (kv - pv + b + sv * (ku - pu + a + su * (kw - pw + c))))).getD l 0)
    (hhi : ∀ a b c, a ≤ pu → b ≤ pv → c ≤ pw →
      ∑ l ∈ range d, A l * (project (ptsGet Pw (kv - pv + b + sv * (ku - pu + a + su * (kw - pw + c))))).getD l 0 ≤ hi) :
    0 < (volumePointAt pu pv pw Uu Uv Uw su sv Pw ku kv kw u v w).getD d 0 ∧
    lo ≤ ∑ l ∈ range d, A l * (project (volumePointAt pu pv pw Uu Uv Uw su sv Pw ku kv kw u v w)).getD l 0 ∧
      ∑ l ∈ range d, A l * (project (volumePointAt pu pv pw Uu Uv Uw su sv Pw ku kv kw u v w)).getD l 0 ≤ hi := by
  obtain ⟨h1, h0, hX⟩ := volumePointAt_convex pu pv pw Uu Uv Uw su sv sw Pw ku kv kw u v w (d+1) hu hv hw hpu hpv hpw hku hkv hkw hlen hP
  apply rat_hull_lists _ _ h1 h0 d _
    (fun i : ℕ × ℕ × ℕ => ptsGet Pw (kv - pv + i.2.1 + sv * (ku - pu + i.1 + su * (kw - pw + i.2.2))))
    (volumePointAt_length pu pv pw Uu Uv Uw su sv sw Pw ku kv kw u v w (d+1) hpu hpv hpw hku hkv hkw hlen hP) _ hX
  · intro i hmem
    simp only [Finset.mem_product, Finset.mem_range] at hmem
    exact hwt i.1 i.2.1 i.2.2 (by omega) (by omega) (by omega)
  · intro i hmem
    simp only [Finset.mem_product, Finset.mem_range] at hmem
    exact hlo i.1 i.2.1 i.2.2 (by omega) (by omega) (by omega)
  · intro i hmem
    simp only [Finset.mem_product, Finset.mem_range] at hmem
    exact hhi i.1 i.2.1 i.2.2 (by omega) (by omega) (by omega)
  · intro i hmem
    simp only [Finset.mem_product, Finset.mem_range] at hmem
    exact ptsGet_length hP _ (by rw [hlen]; exact vol_idx_lt su sv sw _ _ _ (by omega) (by omega) (by omega))

/-! ### rational shapes inside the bounding box of the Cartesian control points -/

theorem sum_indicator (d j : ℕ) (hj : j < d) (y : ℕ → K) :
    ∑ l ∈ range d, (if l = j then (1:K) else 0) * y l = y j := by
  simp [ite_mul, Finset.sum_ite_eq', hj]

theorem project_length (pt : List K) (d : ℕ) (h : pt.length = d + 1) : (project pt).length = d := by
  simp [project, h]

theorem netOk_map_project (d : ℕ) (Pw : List (List K)) (hP : NetOk (d+1) Pw) : NetOk d (Pw.map project) := by
  intro pt hpt
  simp only [List.mem_map] at hpt
  obtain ⟨x, hx, rfl⟩ := hpt
  exact project_length x d (hP x hx)

theorem ptsGet_map_project (Pw : List (List K)) (i : ℕ) (hi : i < Pw.length) :
    ptsGet (Pw.map project) i = project (ptsGet Pw i) := by
  simp [ptsGet, List.getD_eq_getElem?_getD, hi]

/-- bounds of coordinate `j` of the Cartesian control points, read off `boundingBox (Pw.map project)` -/
theorem cartesian_box (d : ℕ) (Pw : List (List K)) (hP : NetOk (d+1) Pw) (i : ℕ) (hi : i < Pw.length) (j : ℕ) (hj : j < d) :
    (boundingBox (Pw.map project)).1.getD j 0 ≤ ∑ l ∈ range d, (if l = j then (1:K) else 0) * (project (ptsGet Pw i)).getD l 0 ∧
    ∑ l ∈ range d, (if l = j then (1:K) else 0) * (project (ptsGet Pw i)).getD l 0 ≤ (boundingBox (Pw.map project)).2.getD j 0 := by
  rw [sum_indicator d j hj, ← ptsGet_map_project Pw i hi]
  exact boundingBox_spec d (Pw.map project) (netOk_map_project d Pw hP) i (by simpa using hi) j hj

theorem curvePointAt_rational_in_boundingBox (p : ℕ) (U : ℕ → K) (Pw : List (List K)) (k : ℕ) (u : K) (d j : ℕ)
    (h : SpanOk U k u) (hp : p ≤ k) (hk : k < Pw.length) (hP : NetOk (d+1) Pw)
    (hwt : ∀ i, i < Pw.length → 0 < (ptsGet Pw i).getD d 0) (hj : j < d) :
    (boundingBox (Pw.map project)).1.getD j 0 ≤ (project (curvePointAt p U Pw k u)).getD j 0 ∧
      (project (curvePointAt p U Pw k u)).getD j 0 ≤ (boundingBox (Pw.map project)).2.getD j 0 := by
  have := (curvePointAt_rational_in_hull p U Pw k u d h hp hk hP (fun r hr => hwt _ (by omega))
    (fun l => if l = j then 1 else 0) _ _
    (fun r hr => (cartesian_box d Pw hP _ (by omega) j hj).1)
    (fun r hr => (cartesian_box d Pw hP _ (by omega) j hj).2)).2
  rw [sum_indicator d j hj] at this
  exact this

theorem surfacePointAt_rational_in_boundingBox (pu pv : ℕ) (Uu Uv : ℕ → K) (su sv : ℕ) (Pw : List (List K)) (ku kv : ℕ) (u v : K) (d j : ℕ)
    (hu : SpanOk Uu ku u) (hv : SpanOk Uv kv v)
    (hpu : pu ≤ ku) (hpv : pv ≤ kv) (hku : ku < su) (hkv : kv < sv) (hlen : Pw.length = su * sv) (hP : NetOk (d+1) Pw)
    (hwt : ∀ i, i < Pw.length → 0 < (ptsGet Pw i).getD d 0) (hj : j < d) :
    (boundingBox (Pw.map project)).1.getD j 0 ≤ (project (surfacePointAt pu pv Uu Uv sv Pw ku kv u v)).getD j 0 ∧
      (project (surfacePointAt pu pv Uu Uv sv Pw ku kv u v)).getD j 0 ≤ (boundingBox (Pw.map project)).2.getD j 0 := by
  have hidx : ∀ a c, a < su → c < sv → c + sv * a < Pw.length := by
    intro a c ha hc
    rw [hlen]
    calc c + sv * a < sv + sv * a := by omega
      _ = sv * (a + 1) := by ring
      _ ≤ sv * su := Nat.mul_le_mul_left _ (by omega)
      _ = su * sv := by ring
  have := (surfacePointAt_rational_in_hull pu pv Uu Uv su sv Pw ku kv u v d hu hv hpu hpv hku hkv hlen hP
    (fun a b ha hb => hwt _ (hidx _ _ (by omega) (by omega)))
    (fun l => if l = j then 1 else 0) _ _
    (fun a b ha hb => (cartesian_box d Pw hP _ (hidx _ _ (by omega) (by omega)) j hj).1)
    (fun a b ha hb => (cartesian_box d Pw hP _ (hidx _ _ (by omega) (by omega)) j hj).2)).2
  rw [sum_indicator d j hj] at this
  exact this

theorem volumePointAt_rational_in_boundingBox (pu pv pw : ℕ) (Uu Uv Uw : ℕ → K) (su sv sw : ℕ) (Pw : List (List K))
    (ku kv kw : ℕ) (u v w : K) (d j : ℕ)
    (hu : SpanOk Uu ku u) (hv : SpanOk Uv kv v) (hw : SpanOk Uw kw w)
    (hpu : pu ≤ ku) (hpv : pv ≤ kv) (hpw : pw ≤ kw) (hku : ku < su) (hkv : kv < sv) (hkw : kw < sw)
    (hlen : Pw.length = su * sv * sw) (hP : NetOk (d+1) Pw)
    (hwt : ∀ i, i < Pw.length → 0 < (ptsGet Pw i).getD d 0) (hj : j < d) :
    (boundingBox (Pw.map project)).1.getD j 0 ≤ (project (volumePointAt pu pv pw Uu Uv Uw su sv Pw ku kv kw u v w)).getD j 0 ∧
      (project (volumePointAt pu pv pw Uu Uv Uw su sv Pw ku kv kw u v w)).getD j 0 ≤ (boundingBox (Pw.map project)).2.getD j 0 := by
  have hidx : ∀ a b c, a < su → b < sv → c < sw → b + sv * (a + su * c) < Pw.length := by
    intro a b c ha hb hc
    rw [hlen]; exact vol_idx_lt su sv sw a b c ha hb hc
  have := (volumePointAt_rational_in_hull pu pv pw Uu Uv Uw su sv sw Pw ku kv kw u v w d hu hv hw hpu hpv hpw hku hkv hkw hlen hP
    (fun a b c ha hb hc => hwt _ (hidx _ _ _ (by omega) (by omega) (by omega)))
    (fun l => if l = j then 1 else 0) _ _
    (fun a b c ha hb hc => (cartesian_box d Pw hP _ (hidx _ _ _ (by omega) (by omega) (by omega)) j hj).1)
    (fun a b c ha hb hc => (cartesian_box d Pw hP _ (hidx _ _ _ (by omega) (by omega) (by omega)) j hj).2)).2
  rw [sum_indicator d j hj] at this
  exact this

end Geomdl
