import NurbsVerif.Lemmas.ConfigKnotOps

/-!
  C17, knot refinement under an affine change of the knot range (helper level).

  With knots `a•U + b` (`a > 0`), tolerance `a·tol` and – where given – the knot lists mapped the same
  way, the list `X` of knots to insert is the image of the original `X` (sorting, de-duplication and
  midpoint bisection commute with an increasing affine map), every single insertion finds the same span and
  multiplicity, and the result is the image knot vector with the SAME control points.
-/
set_option linter.unusedSectionVars false

namespace Geomdl
open Blossom
variable {K : Type} [Field K] [LinearOrder K] [IsStrictOrderedRing K]

theorem cfg_affine_le (a b x y : K) (ha : 0 < a) : a * x + b ≤ a * y + b ↔ x ≤ y := by
  constructor
  · intro h
    have : a * x ≤ a * y := by linarith
    exact le_of_mul_le_mul_left this ha
  · intro h
    have := mul_le_mul_of_nonneg_left h (le_of_lt ha)
    linarith

theorem cfg_affine_inj (a b x y : K) (ha : 0 < a) : a * x + b = a * y + b ↔ x = y := by
  constructor
  · intro h
    exact le_antisymm ((cfg_affine_le a b x y ha).mp (le_of_eq h)) ((cfg_affine_le a b y x ha).mp (le_of_eq h.symm))
  · intro h; rw [h]

theorem insertSorted_affine (a b : K) (ha : 0 < a) (x : K) : ∀ (l : List K),
    insertSorted (a * x + b) (l.map (fun y => a * y + b)) = (insertSorted x l).map (fun y => a * y + b)
  | [] => rfl
  | y :: ys => by
      simp only [List.map_cons, insertSorted, cfg_affine_le a b x y ha]
      split
      · rfl
      · rw [List.map_cons, insertSorted_affine a b ha x ys]

theorem cfg_contains_affine (a b : K) (ha : 0 < a) (x : K) (l : List K) :
    (l.map (fun y => a * y + b)).contains (a * x + b) = l.contains x := by
  rw [List.contains_eq_mem, List.contains_eq_mem]
  congr 1
  apply propext
  rw [List.mem_map]
  constructor
  · rintro ⟨y, hy, he⟩
    rw [(cfg_affine_inj a b y x ha).mp he] at hy; exact hy
  · intro h; exact ⟨x, h, rfl⟩

/-- `sorted(set(l))` commutes with an increasing affine map -/
theorem sortDedup_affine (a b : K) (ha : 0 < a) (l : List K) :
    sortDedup (l.map (fun y => a * y + b)) = (sortDedup l).map (fun y => a * y + b) := by
  unfold sortDedup
  have key : ∀ (l acc : List K),
      (l.map (fun y => a * y + b)).foldl (fun acc x => if acc.contains x then acc else insertSorted x acc)
          (acc.map (fun y => a * y + b))
        = (l.foldl (fun acc x => if acc.contains x then acc else insertSorted x acc) acc).map (fun y => a * y + b) := by
    intro l
    induction l with
    | nil => intro acc; rfl
    | cons x xs ih =>
      intro acc
      simp only [List.map_cons, List.foldl_cons]
      rw [cfg_contains_affine a b ha, insertSorted_affine a b ha]
      by_cases hc : acc.contains x = true
      · rw [if_pos hc, if_pos hc]; exact ih acc
      · rw [if_neg hc, if_neg hc]; exact ih _
  exact key l []

/-- one bisection round commutes with an affine map -/
theorem densify_affine (a b : K) : ∀ (l : List K),
    densify (l.map (fun y => a * y + b)) = (densify l).map (fun y => a * y + b)
  | [] => rfl
  | [_] => rfl
  | x :: y :: rest => by
      have ih := densify_affine a b (y :: rest)
      simp only [List.map_cons, densify] at ih ⊢
      rw [ih]
      congr 2
      ring

theorem iterate_densify_affine (a b : K) : ∀ (n : ℕ) (l : List K),
    iterate densify n (l.map (fun y => a * y + b)) = (iterate densify n l).map (fun y => a * y + b)
  | 0, _ => rfl
  | n+1, l => by rw [iterate, iterate, densify_affine, iterate_densify_affine a b n]

theorem cfg_copies_affine (p : ℕ) (U : List K) (tol a b : K) (ha : 0 < a) (ks : List K) :
    (ks.map (fun y => a * y + b)).flatMap
        (fun mk => List.replicate (p - findMultiplicity mk (U.map (fun y => a * y + b)) (a * tol)) mk)
      = (ks.flatMap (fun mk => List.replicate (p - findMultiplicity mk U tol) mk)).map (fun y => a * y + b) := by
  rw [List.flatMap_map, List.map_flatMap]
  congr 1
  funext mk
  rw [findMultiplicity_affine mk U tol a b ha, List.map_replicate]

/-- the list `X` of knots that `knot_refinement` inserts (default knot list) is mapped entry by entry -/
theorem refineX_affine (p : ℕ) (U : List K) (density : ℕ) (tol a b : K) (ha : 0 < a) :
    refineX p (U.map (fun y => a * y + b)) density (a * tol) = (refineX p U density tol).map (fun y => a * y + b) := by
  unfold refineX
  simp only []
  rw [← List.map_drop, List.length_map, ← List.map_take, sortDedup_affine a b ha, iterate_densify_affine,
    cfg_copies_affine p U tol a b ha]

/-- … also with an explicit `knot_list` and `add_knot_list` (mapped the same way) -/
theorem refineXOf_affine (p : ℕ) (U : List K) (kl : Option (List K)) (add : List K) (density : ℕ) (tol a b : K)
    (ha : 0 < a) :
    refineXOf p (U.map (fun y => a * y + b)) (kl.map (List.map (fun y => a * y + b)))
        (add.map (fun y => a * y + b)) density (a * tol)
      = (refineXOf p U kl add density tol).map (fun y => a * y + b) := by
  unfold refineXOf
  cases kl with
  | some l =>
    simp only [Option.map_some]
    rw [← List.map_append, sortDedup_affine a b ha, iterate_densify_affine, cfg_copies_affine p U tol a b ha]
  | none =>
    simp only [Option.map_none]
    rw [← List.map_drop, List.length_map, ← List.map_take, ← List.map_append, sortDedup_affine a b ha,
      iterate_densify_affine, cfg_copies_affine p U tol a b ha]

/-- one single insertion of the refinement fold: same span, same multiplicity, same control points -/
theorem insertOne_affine (p : ℕ) (tol a b : K) (ha : 0 < a) (V : List K) (Q : List (List K)) (x : K) (hne : V ≠ []) :
    insertOne p (a * tol) (V.map (fun y => a * y + b), Q) (a * x + b)
      = ((insertOne p tol (V, Q) x).1.map (fun y => a * y + b), (insertOne p tol (V, Q) x).2) := by
  unfold insertOne
  simp only []
  rw [fnOf_map_affine V a b hne, findSpanLinear_affine p (fnOf V) Q.length x a b ha,
    findMultiplicity_affine x V tol a b ha, knotInsertionKv_map (fun y => a * y + b),
    knotInsertion_affine p (fnOf V) Q x 1 _ _ a b (ne_of_gt ha)]

theorem cfg_insertOne_ne_nil (p : ℕ) (tol : K) (st : List K × List (List K)) (x : K) : (insertOne p tol st x).1 ≠ [] := by
  unfold insertOne knotInsertionKv
  simp

theorem insertFold_affine (p : ℕ) (tol a b : K) (ha : 0 < a) : ∀ (X : List K) (V : List K) (Q : List (List K)), V ≠ [] →
    (X.map (fun y => a * y + b)).foldl (insertOne p (a * tol)) (V.map (fun y => a * y + b), Q)
      = (((X.foldl (insertOne p tol) (V, Q)).1).map (fun y => a * y + b), (X.foldl (insertOne p tol) (V, Q)).2)
  | [], _, _, _ => rfl
  | x :: X, V, Q, hne => by
      simp only [List.map_cons, List.foldl_cons]
      rw [insertOne_affine p tol a b ha V Q x hne]
      exact insertFold_affine p tol a b ha X _ _ (cfg_insertOne_ne_nil p tol (V, Q) x)

/-- **knot refinement** (`helpers.knot_refinement`, density form): knots `a•U + b`, tolerance `a·tol` give the
    mapped knot vector and the same control points; "cannot refine" is answered in the same cases -/
theorem knotRefinement_affine (p : ℕ) (U : List K) (P : List (List K)) (density : ℕ) (tol a b : K) (ha : 0 < a)
    (hne : U ≠ []) :
    knotRefinement p (U.map (fun y => a * y + b)) P density (a * tol)
      = (knotRefinement p U P density tol).map (fun r => (r.1.map (fun y => a * y + b), r.2)) := by
  unfold knotRefinement
  simp only []
  rw [refineX_affine p U density tol a b ha, List.isEmpty_map]
  split
  · rfl
  · rw [insertFold_affine p tol a b ha _ U P hne]; rfl

/-- … and with explicit `knot_list` / `add_knot_list` -/
theorem knotRefinementOf_affine (p : ℕ) (U : List K) (P : List (List K)) (kl : Option (List K)) (add : List K)
    (density : ℕ) (tol a b : K) (ha : 0 < a) (hne : U ≠ []) :
    knotRefinementOf p (U.map (fun y => a * y + b)) P (kl.map (List.map (fun y => a * y + b)))
        (add.map (fun y => a * y + b)) density (a * tol)
      = (knotRefinementOf p U P kl add density tol).map (fun r => (r.1.map (fun y => a * y + b), r.2)) := by
  unfold knotRefinementOf
  simp only []
  rw [refineXOf_affine p U kl add density tol a b ha, List.isEmpty_map]
  split
  · rfl
  · rw [insertFold_affine p tol a b ha _ U P hne]; rfl

end Geomdl
