import NurbsVerif.Model.SpanRGrid
import NurbsVerif.Lemmas.SpanREval
import NurbsVerif.Lemmas.DersOnDomain
import NurbsVerif.Lemmas.Grid

/-!
  Derivatives on the span the REPAIRED linear search finds (`curveDersR`, `curveDersA32R`, `surfaceDersR`,
  `surfaceDersA36R`, `Model/SpanRGrid.lean`): on the whole closed domain of EVERY sorted knot function with `U p < U n`
  (`DomOk`: the last domain span may be empty) every entry is the iterated `Polynomial.derivative` of the span polynomial
  of the span found (non-empty, contains the parameter) – the per-span theorems `curveDersAt_all`, `curveDersA32_true`,
  `surfaceDersAt_all`, `surfaceDersA36_true` composed with `findSpanLinearR_ok`; rational: the Leibniz system with positive
  weight polynomial.  At `u = U n` the span found is the last non-empty span, on which the span polynomial coincides with
  the curve (`curvePointR_last_span`): the derivatives there are the LEFT-hand ones.  Under `KnotsOk` the R tables are the
  tables of the search without step back.
-/
set_option linter.unusedSectionVars false

namespace Geomdl
open Blossom Polynomial Finset
open scoped Polynomial.Bivariate
variable {K : Type} [Field K] [LinearOrder K] [IsStrictOrderedRing K]

/-! ### equal to the tables of the search without step back under `KnotsOk` -/

theorem curveDersR_eq_curveDers (p : ℕ) (U : ℕ → K) (P : List (List K)) (u : K) (order : ℕ)
    (hU : KnotsOk p U P.length) (hlo : U p ≤ u) (hhi : u ≤ U P.length) :
    curveDersR p U P u order = curveDers p U P u order := by
  unfold curveDersR curveDers
  rw [findSpanLinearR_eq_of_knotsOk hU u hlo hhi]

theorem curveDersA32R_eq (p : ℕ) (U : ℕ → K) (P : List (List K)) (u : K) (order : ℕ)
    (hU : KnotsOk p U P.length) (hlo : U p ≤ u) (hhi : u ≤ U P.length) :
    curveDersA32R p U P u order = curveDersA32 p U P (findSpanLinear p U P.length u) u order := by
  unfold curveDersA32R
  rw [findSpanLinearR_eq_of_knotsOk hU u hlo hhi]

theorem surfaceDersR_eq (pu pv : ℕ) (Uu Uv : ℕ → K) (su sv : ℕ) (P : List (List K)) (u v : K) (order : ℕ) (tri : Bool)
    (hUu : KnotsOk pu Uu su) (hUv : KnotsOk pv Uv sv)
    (hu1 : Uu pu ≤ u) (hu2 : u ≤ Uu su) (hv1 : Uv pv ≤ v) (hv2 : v ≤ Uv sv) :
    surfaceDersR pu pv Uu Uv su sv P u v order tri
      = surfaceDersAt pu pv Uu Uv sv P (findSpanLinear pu Uu su u) (findSpanLinear pv Uv sv v) u v order tri := by
  unfold surfaceDersR
  rw [findSpanLinearR_eq_of_knotsOk hUu u hu1 hu2, findSpanLinearR_eq_of_knotsOk hUv v hv1 hv2]

theorem surfaceDersA36R_eq (pu pv : ℕ) (Uu Uv : ℕ → K) (su sv : ℕ) (P : List (List K)) (u v : K) (order : ℕ)
    (hUu : KnotsOk pu Uu su) (hUv : KnotsOk pv Uv sv)
    (hu1 : Uu pu ≤ u) (hu2 : u ≤ Uu su) (hv1 : Uv pv ≤ v) (hv2 : v ≤ Uv sv) :
    surfaceDersA36R pu pv Uu Uv su sv P u v order
      = surfaceDersA36 pu pv Uu Uv sv P (findSpanLinear pu Uu su u) (findSpanLinear pv Uv sv v) u v order := by
  unfold surfaceDersA36R
  rw [findSpanLinearR_eq_of_knotsOk hUu u hu1 hu2, findSpanLinearR_eq_of_knotsOk hUv v hv1 hv2]

/-! ### curves, every `DomOk` knot function, closed domain -/

theorem curveDersR_true (p d : ℕ) (U : ℕ → K) (P : List (List K)) (hU : DomOk p U P.length) (hP : NetOk d P) (u : K)
    (h1 : U p ≤ u) (h2 : u ≤ U P.length) (order k j : ℕ) (hk : k ≤ order) :
    ((curveDersR p U P u order).getD k []).getD j 0
      = eval u (derivative^[k] (spanPoly p U P (findSpanLinearR p U P.length u) j)) := by
  obtain ⟨hs, hp, hκ⟩ := findSpanLinearR_ok hU u h1 h2
  exact curveDersAt_all p U P _ u d j order k hp hκ hP hU.mono hs.nonempty hk

theorem curveDersA32R_true (p d : ℕ) (U : ℕ → K) (P : List (List K)) (hU : DomOk p U P.length) (hP : NetOk d P) (u : K)
    (h1 : U p ≤ u) (h2 : u ≤ U P.length) (order k j : ℕ) (hk : k ≤ order) :
    ((curveDersA32R p U P u order).getD k []).getD j 0
      = eval u (derivative^[k] (spanPoly p U P (findSpanLinearR p U P.length u) j)) := by
  obtain ⟨hs, hp, hκ⟩ := findSpanLinearR_ok hU u h1 h2
  exact curveDersA32_true p U P _ u d j order k hp hκ hP hU.mono hs.nonempty hk

/-- the span polynomial of the span found evaluates to the R point (order 0) -/
theorem curvePointR_eq_spanPoly (p d : ℕ) (U : ℕ → K) (P : List (List K)) (hpn : p + 1 ≤ P.length) (hP : NetOk d P)
    (u : K) (j : ℕ) :
    (curvePointR p U P u).getD j 0 = eval u (spanPoly p U P (findSpanLinearR p U P.length u) j) :=
  (spanPoly_eval p U P _ u d j (findSpanLinearR_bounds p U _ u hpn).1 (findSpanLinearR_bounds p U _ u hpn).2 hP).symm

/-- **the last non-empty span**: with `κ` the span the repaired search finds at the domain end `U n`, every parameter of
    the half-open interval `[U κ, U n)` (not empty) has span `κ`, so the curve coincides there with the span polynomial of
    `κ` – the polynomial whose derivatives at `U n` the R tables return -/
theorem findSpanLinearR_last_span (p : ℕ) (U : ℕ → K) (n : ℕ) (hU : DomOk p U n) (u : K)
    (h1 : U (findSpanLinearR p U n (U n)) ≤ u) (h2 : u < U n) :
    findSpanLinearR p U n u = findSpanLinearR p U n (U n) := by
  obtain ⟨b1, b2, b3, b4, _⟩ := findSpanLinearR_right_end p U n hU.pn hU.mono hU.dom
  have hlo : U p ≤ u := le_trans (hU.mono b1) h1
  rw [findSpanLinearR_eq_of_lt p U n u hU.pn hU.mono hlo h2]
  exact findSpanLinear_unique p U n u hU.pn hU.mono hlo h2 _ h1 (by rw [b4]; exact h2)

theorem curvePointR_last_span (p d : ℕ) (U : ℕ → K) (P : List (List K)) (hU : DomOk p U P.length) (hP : NetOk d P)
    (u : K) (h1 : U (findSpanLinearR p U P.length (U P.length)) ≤ u) (h2 : u < U P.length) (j : ℕ) :
    (curvePointR p U P u).getD j 0 = eval u (spanPoly p U P (findSpanLinearR p U P.length (U P.length)) j) := by
  rw [curvePointR_eq_spanPoly p d U P hU.pn hP u j, findSpanLinearR_last_span p U P.length hU u h1 h2]

/-! ### rational curves: positive weight polynomial, Leibniz system -/

theorem spanPolyR_weight_pos (p d : ℕ) (U : ℕ → K) (Pw : List (List K)) (hU : DomOk p U Pw.length)
    (hP : NetOk (d+1) Pw) (hwt : ∀ i, i < Pw.length → 0 < (ptsGet Pw i).getD d 0) (u : K)
    (h1 : U p ≤ u) (h2 : u ≤ U Pw.length) :
    0 < eval u (spanPoly p U Pw (findSpanLinearR p U Pw.length u) d) := by
  obtain ⟨hs, hp, hκ⟩ := findSpanLinearR_ok hU u h1 h2
  rw [spanPoly_eval p U Pw _ u (d+1) d hp hκ hP]
  exact curvePointAt_weight_pos p U Pw _ u d hs hp hκ hP hwt

theorem ratCurveDersR_true (p d : ℕ) (U : ℕ → K) (Pw : List (List K)) (hU : DomOk p U Pw.length)
    (hP : NetOk (d+1) Pw) (hwt : ∀ i, i < Pw.length → 0 < (ptsGet Pw i).getD d 0) (u : K)
    (h1 : U p ≤ u) (h2 : u ≤ U Pw.length) (order k j : ℕ) (hk : k ≤ order) (hj : j < d) :
    0 < eval u (spanPoly p U Pw (findSpanLinearR p U Pw.length u) d) ∧
    ∑ i ∈ range (k+1), (Nat.choose k i : K)
        * eval u (derivative^[i] (spanPoly p U Pw (findSpanLinearR p U Pw.length u) d))
        * ((ratCurveDers (curveDersR p U Pw u order)).getD (k - i) []).getD j 0
      = eval u (derivative^[k] (spanPoly p U Pw (findSpanLinearR p U Pw.length u) j)) := by
  obtain ⟨hs, hp, hκ⟩ := findSpanLinearR_ok hU u h1 h2
  have hpos := spanPolyR_weight_pos p d U Pw hU hP hwt u h1 h2
  exact ⟨hpos, ratCurveDersAt_true p U Pw _ u d order k j hp hκ hP hU.mono hs.nonempty (ne_of_gt hpos) hk hj⟩

theorem ratCurveDersA32R_true (p d : ℕ) (U : ℕ → K) (Pw : List (List K)) (hU : DomOk p U Pw.length)
    (hP : NetOk (d+1) Pw) (hwt : ∀ i, i < Pw.length → 0 < (ptsGet Pw i).getD d 0) (u : K)
    (h1 : U p ≤ u) (h2 : u ≤ U Pw.length) (order k j : ℕ) (hk : k ≤ order) (hj : j < d) :
    0 < eval u (spanPoly p U Pw (findSpanLinearR p U Pw.length u) d) ∧
    ∑ i ∈ range (k+1), (Nat.choose k i : K)
        * eval u (derivative^[i] (spanPoly p U Pw (findSpanLinearR p U Pw.length u) d))
        * ((ratCurveDers (curveDersA32R p U Pw u order)).getD (k - i) []).getD j 0
      = eval u (derivative^[k] (spanPoly p U Pw (findSpanLinearR p U Pw.length u) j)) := by
  obtain ⟨hs, hp, hκ⟩ := findSpanLinearR_ok hU u h1 h2
  have hpos := spanPolyR_weight_pos p d U Pw hU hP hwt u h1 h2
  exact ⟨hpos, ratCurveDersA32_true p U Pw _ u d order k j hp hκ hP hU.mono hs.nonempty (ne_of_gt hpos) hk hj⟩

/-! ### surfaces -/

theorem surfaceDersR_true (pu pv d : ℕ) (Uu Uv : ℕ → K) (su sv : ℕ) (P : List (List K))
    (hUu : DomOk pu Uu su) (hUv : DomOk pv Uv sv) (hlen : P.length = su * sv) (hP : NetOk d P) (u v : K)
    (hu1 : Uu pu ≤ u) (hu2 : u ≤ Uu su) (hv1 : Uv pv ≤ v) (hv2 : v ≤ Uv sv) (order k l j : ℕ) (tri : Bool)
    (hk : k ≤ order) (hl : l ≤ order) (htri : tri = false ∨ k + l ≤ order) :
    (((surfaceDersR pu pv Uu Uv su sv P u v order tri).getD k []).getD l []).getD j 0
      = (pderivU^[k] (pderivV^[l] (surfSpanPoly pu pv Uu Uv sv P (findSpanLinearR pu Uu su u)
          (findSpanLinearR pv Uv sv v) j))).evalEval u v := by
  obtain ⟨hsu, hpu, hku⟩ := findSpanLinearR_ok hUu u hu1 hu2
  obtain ⟨hsv, hpv, hkv⟩ := findSpanLinearR_ok hUv v hv1 hv2
  exact surfaceDersAt_all pu pv Uu Uv su sv P _ _ u v d j order k l tri hpu hpv hku hkv hlen hP hUu.mono hUv.mono
    hsu.nonempty hsv.nonempty hk hl htri

theorem surfaceDersA36R_true (pu pv d : ℕ) (Uu Uv : ℕ → K) (su sv : ℕ) (P : List (List K))
    (hUu : DomOk pu Uu su) (hUv : DomOk pv Uv sv) (hlen : P.length = su * sv) (hP : NetOk d P) (u v : K)
    (hu1 : Uu pu ≤ u) (hu2 : u ≤ Uu su) (hv1 : Uv pv ≤ v) (hv2 : v ≤ Uv sv) (order k l j : ℕ)
    (hk : k ≤ order) (hl : l ≤ order) :
    (((surfaceDersA36R pu pv Uu Uv su sv P u v order).getD k []).getD l []).getD j 0
      = (pderivU^[k] (pderivV^[l] (surfSpanPoly pu pv Uu Uv sv P (findSpanLinearR pu Uu su u)
          (findSpanLinearR pv Uv sv v) j))).evalEval u v := by
  obtain ⟨hsu, hpu, hku⟩ := findSpanLinearR_ok hUu u hu1 hu2
  obtain ⟨hsv, hpv, hkv⟩ := findSpanLinearR_ok hUv v hv1 hv2
  exact surfaceDersA36_true pu pv Uu Uv su sv P _ _ u v d j order k l hpu hpv hku hkv hlen hP hUu.mono hUv.mono
    hsu.nonempty hsv.nonempty hk hl

/-- the bivariate span polynomial of the span pair found evaluates to the R point -/
theorem surfacePointR_eq_surfSpanPoly (pu pv d : ℕ) (Uu Uv : ℕ → K) (su sv : ℕ) (P : List (List K))
    (hu : pu + 1 ≤ su) (hv : pv + 1 ≤ sv) (hlen : P.length = su * sv) (hP : NetOk d P) (u v : K) (j : ℕ) :
    (surfacePointR pu pv Uu Uv su sv P u v).getD j 0
      = (surfSpanPoly pu pv Uu Uv sv P (findSpanLinearR pu Uu su u) (findSpanLinearR pv Uv sv v) j).evalEval u v :=
  surfacePointAt_eq_surfSpanPoly pu pv Uu Uv su sv P _ _ u v d j
    (findSpanLinearR_bounds pu Uu _ u hu).1 (findSpanLinearR_bounds pv Uv _ v hv).1
    (findSpanLinearR_bounds pu Uu _ u hu).2 (findSpanLinearR_bounds pv Uv _ v hv).2 hlen hP

theorem surfSpanPolyR_weight_pos (pu pv d : ℕ) (Uu Uv : ℕ → K) (su sv : ℕ) (Pw : List (List K))
    (hUu : DomOk pu Uu su) (hUv : DomOk pv Uv sv) (hlen : Pw.length = su * sv) (hP : NetOk (d+1) Pw)
    (hwt : ∀ i, i < Pw.length → 0 < (ptsGet Pw i).getD d 0) (u v : K)
    (hu1 : Uu pu ≤ u) (hu2 : u ≤ Uu su) (hv1 : Uv pv ≤ v) (hv2 : v ≤ Uv sv) (hd : 0 < d) :
    0 < (surfSpanPoly pu pv Uu Uv sv Pw (findSpanLinearR pu Uu su u) (findSpanLinearR pv Uv sv v) d).evalEval u v := by
  rw [← surfacePointR_eq_surfSpanPoly pu pv (d+1) Uu Uv su sv Pw hUu.pn hUv.pn hlen hP u v d]
  exact (surfacePointR_rational_eq_cdbSpan pu pv Uu Uv su sv Pw u v d 0 hUu hUv hlen hP hu1 hu2 hv1 hv2 hwt hd).1

theorem ratSurfaceDersA36R_true (pu pv d : ℕ) (Uu Uv : ℕ → K) (su sv : ℕ) (Pw : List (List K))
    (hUu : DomOk pu Uu su) (hUv : DomOk pv Uv sv) (hlen : Pw.length = su * sv) (hP : NetOk (d+1) Pw)
    (hwt : ∀ i, i < Pw.length → 0 < (ptsGet Pw i).getD d 0) (u v : K)
    (hu1 : Uu pu ≤ u) (hu2 : u ≤ Uu su) (hv1 : Uv pv ≤ v) (hv2 : v ≤ Uv sv)
    (order k l c : ℕ) (hk : k ≤ order) (hl : l ≤ order) (hc : c < d) :
    0 < (surfSpanPoly pu pv Uu Uv sv Pw (findSpanLinearR pu Uu su u) (findSpanLinearR pv Uv sv v) d).evalEval u v ∧
    ∑ i ∈ range (k+1), ∑ j ∈ range (l+1),
      (Nat.choose k i : K) * (Nat.choose l j : K)
        * (pderivU^[i] (pderivV^[j] (surfSpanPoly pu pv Uu Uv sv Pw (findSpanLinearR pu Uu su u)
            (findSpanLinearR pv Uv sv v) d))).evalEval u v
        * ((((ratSurfaceDers (surfaceDersA36R pu pv Uu Uv su sv Pw u v order) order).getD (k - i) []).getD (l - j) []).getD c 0)
      = (pderivU^[k] (pderivV^[l] (surfSpanPoly pu pv Uu Uv sv Pw (findSpanLinearR pu Uu su u)
            (findSpanLinearR pv Uv sv v) c))).evalEval u v := by
  obtain ⟨hsu, hpu, hku⟩ := findSpanLinearR_ok hUu u hu1 hu2
  obtain ⟨hsv, hpv, hkv⟩ := findSpanLinearR_ok hUv v hv1 hv2
  have hpos := surfSpanPolyR_weight_pos pu pv d Uu Uv su sv Pw hUu hUv hlen hP hwt u v hu1 hu2 hv1 hv2 (by omega)
  exact ⟨hpos, ratSurfaceDersA36_true pu pv Uu Uv su sv Pw _ _ u v d c order k l hpu hpv hku hkv hlen hP
    hUu.mono hUv.mono hsu.nonempty hsv.nonempty (ne_of_gt hpos) hk hl hc⟩

theorem ratSurfaceDersR_true (pu pv d : ℕ) (Uu Uv : ℕ → K) (su sv : ℕ) (Pw : List (List K))
    (hUu : DomOk pu Uu su) (hUv : DomOk pv Uv sv) (hlen : Pw.length = su * sv) (hP : NetOk (d+1) Pw)
    (hwt : ∀ i, i < Pw.length → 0 < (ptsGet Pw i).getD d 0) (u v : K)
    (hu1 : Uu pu ≤ u) (hu2 : u ≤ Uu su) (hv1 : Uv pv ≤ v) (hv2 : v ≤ Uv sv)
    (order k l c : ℕ) (hk : k ≤ order) (hl : l ≤ order) (hc : c < d) :
    0 < (surfSpanPoly pu pv Uu Uv sv Pw (findSpanLinearR pu Uu su u) (findSpanLinearR pv Uv sv v) d).evalEval u v ∧
    ∑ i ∈ range (k+1), ∑ j ∈ range (l+1),
      (Nat.choose k i : K) * (Nat.choose l j : K)
        * (pderivU^[i] (pderivV^[j] (surfSpanPoly pu pv Uu Uv sv Pw (findSpanLinearR pu Uu su u)
            (findSpanLinearR pv Uv sv v) d))).evalEval u v
        * ((((ratSurfaceDers (surfaceDersR pu pv Uu Uv su sv Pw u v order false) order).getD (k - i) []).getD (l - j) []).getD c 0)
      = (pderivU^[k] (pderivV^[l] (surfSpanPoly pu pv Uu Uv sv Pw (findSpanLinearR pu Uu su u)
            (findSpanLinearR pv Uv sv v) c))).evalEval u v := by
  obtain ⟨hsu, hpu, hku⟩ := findSpanLinearR_ok hUu u hu1 hu2
  obtain ⟨hsv, hpv, hkv⟩ := findSpanLinearR_ok hUv v hv1 hv2
  have hpos := surfSpanPolyR_weight_pos pu pv d Uu Uv su sv Pw hUu hUv hlen hP hwt u v hu1 hu2 hv1 hv2 (by omega)
  exact ⟨hpos, ratSurfaceDers_true pu pv Uu Uv su sv Pw _ _ u v d c order k l hpu hpv hku hkv hlen hP
    hUu.mono hUv.mono hsu.nonempty hsv.nonempty (ne_of_gt hpos) hk hl hc⟩

end Geomdl
