import NurbsVerif.Lemmas.KnotRowsRemW

/-! List-of-rows branches, part 11: ONE removal (`num = 1`).  The rows branch treats iso-curve `c` exactly as
    the point branch does if and only if the removability flag of iso-curve `c` equals the flag of the first
    iso-curve (the one the code looks at); here the "if" direction, whatever the common value is. -/
namespace Geomdl
namespace Rows
open RemInv
variable {K : Type} [Field K] [LinearOrder K] [IsStrictOrderedRing K]

/-- start of the sweep of the FIRST step (no shared slot can be written): the invariant holds for any
    fictitious index `L ≥ last`, i.e. `ctrlpts_new` is not touched at all -/
theorem sweepStart_inv0 (first last L : ℕ) (st : RemRowsSt K) (hL : last ≤ L) (hfl : first ≤ last)
    (hal : ∀ a ∈ st.al, a.1 = 0)
    (c : ℕ) (cpc tempc : List (List K)) (h1 : isoCol c st.cp = cpc) (h2 : isoCol c st.temp = tempc) :
    SwInv c 0 L cpc (sweepStart first last st)
      { temp := cTemp0 cpc tempc first last, i := first, j := last, ii := 1, jj := last - first + 1 } := by
  constructor
  · show isoCol c ((st.temp.set 0 (rowGet st.cp (first - 1))).set (last - first + 2)
      (rowGet st.cp (last + 1))) = cTemp0 cpc tempc first last
    unfold cTemp0
    rw [isoCol_set, isoCol_set, ← ptsGet_isoCol, ← ptsGet_isoCol, h1, h2]
  · rfl
  · rfl
  · rfl
  · rfl
  · intro x _
    show ptsGet (rowGet st.cp x) c = ptsGet cpc x
    rw [← ptsGet_isoCol, h1]
  · show st.cp.length = cpc.length
    rw [← h1, isoCol_length]
  · exact hL
  · exact le_refl _
  · show 1 + last = last - first + 1 + first
    omega
  · intro a ha
    show a.1 = 0 ∨ last - first + 1 < a.1 ∨ _
    have ha' : a ∈ (last - first + 2, last + 1) :: (((0, first - 1) :: st.al.filter (fun b => b.1 != 0)).filter
        (fun b => b.1 != last - first + 2)) := ha
    rcases List.mem_cons.mp ha' with e | e
    · right; left; rw [e]; simp
    · have e1 := (List.mem_filter.mp e).1
      rcases List.mem_cons.mp e1 with e2 | e2
      · left; rw [e2]
      · left; exact hal a (List.mem_filter.mp e2).1

/-- **the first removal step when the flag of iso-curve `c` equals the flag of the first iso-curve** -/
theorem step0_sim (U : ℕ → K) (u : K) (p m W first last : ℕ) (tol2 : K) (st : RemRowsSt K)
    (hm : 0 < m) (hlast : last = first + W) (hW2 : W ≤ 2 * p + 4) (hlen : last < st.cp.length)
    (hal : ∀ a ∈ st.al, a.1 = 0) (c : ℕ) (hc : c < m)
    (cp0 temp0 cpc tempc : List (List K))
    (s0 : Sim 0 (st, first, last) (cp0, temp0, first, last))
    (sc : Sim c (st, first, last) (cpc, tempc, first, last))
    (hf : remFlag U u p tol2 (cpc, tempc, first, last) 0 = remFlag U u p tol2 (cp0, temp0, first, last) 0) :
    Sim c (remStepRows U u p m tol2 (st, first, last) 0) (remStep U u p tol2 (cpc, tempc, first, last) 0) := by
  have hal' : AlStart 0 W last st.al := fun a ha => Or.inl (hal a ha)
  cases hb : remFlag U u p tol2 (cp0, temp0, first, last) 0 with
  | true =>
    exact (step_sim U u p m 0 W first last tol2 st hm hlast (by intro h; omega) (by omega) hlen hal' c hc
      cp0 temp0 cpc tempc s0 sc hb (by rw [hf, hb])).1
  | false =>
    have hfc : remFlag U u p tol2 (cpc, tempc, first, last) 0 = false := by rw [hf, hb]
    have inv0 := sweep_sim 0 m hm U u p 0 last cp0 (p + 2) _ _
      (sweepStart_inv 0 W first last st hlast (by intro h; omega) hal' 0 cp0 temp0 s0.1 s0.2.1)
    have invL := sweep_sim c m hc U u p 0 (st.cp.length + last) cpc (p + 2) _ _
      (sweepStart_inv0 first last (st.cp.length + last) st (by omega) (by omega) hal c cpc tempc sc.1 sc.2.1)
    have hflag : remFlagRows U u p 0 tol2 (remSweepRows U u p 0 m (p + 2) (sweepStart first last st)) = false := by
      rw [flag_sim U u p 0 last tol2 cp0 _ _ inv0]
      exact hb
    have hrows : remStepRows U u p m tol2 (st, first, last) 0
        = (remSweepRows U u p 0 m (p + 2) (sweepStart first last st), first - 1, last + 1) := by
      unfold remStepRows
      simp only []
      have : ({ ((st.bindTemp 0 (first - 1)).bindTemp (last - first + 2) (last + 1)) with
          i := first, j := last, ii := 1, jj := last - first + 1 } : RemRowsSt K) = sweepStart first last st := rfl
      rw [this, hflag]
      rfl
    rw [hrows, remStep_pieces, hfc]
    simp only [Bool.false_eq_true, if_false]
    have hc1 : isoCol c st.cp = cpc := sc.1
    refine ⟨?_, invL.temp, rfl, rfl⟩
    apply net_ext
    · rw [isoCol_length, invL.len]
    · intro y hy
      rw [isoCol_length, invL.len, ← hc1, isoCol_length] at hy
      rw [ptsGet_isoCol]
      exact invL.cp y (Or.inl (by omega))

/-- **ONE removal: iso-curve `c` of the rows branch is A5.8 of iso-curve `c` whenever its removability flag
    equals the flag of the FIRST iso-curve** (both set: both copy back; both clear: neither does) -/
theorem isoCol_knotRemovalRows_one (p : ℕ) (U : ℕ → K) (R : List (List (List K))) (u : K) (s r : ℕ) (tol2 : K)
    (hm : 0 < (R.headD []).length) (hsp : s ≤ p) (hps : p + 1 ≤ r) (hs1 : 1 ≤ s) (hr : r < R.length)
    (c : ℕ) (hc : c < (R.headD []).length)
    (hf : remFlag U u p tol2 (remState p U (isoCol c R) u s r tol2 0) 0
        = remFlag U u p tol2 (remState p U (isoCol 0 R) u s r tol2 0) 0) :
    isoCol c (knotRemovalRows p U R u 1 s r tol2) = knotRemoval p U (isoCol c R) u 1 s r tol2 := by
  have hz : ∀ c', Sim c' (rowsState p U R u s r tol2 0) (remState p U (isoCol c' R) u s r tol2 0) := by
    intro c'
    refine ⟨rfl, ?_, rfl, rfl⟩
    show isoCol c' (List.replicate (2 * p + 1) (List.replicate (R.headD []).length [])) = List.replicate (2 * p + 1) []
    rw [isoCol_replicate, ptsGet_replicate_nil]
  have hstep := step0_sim U u p (R.headD []).length (p - s) (r - p) (r - s) tol2 (rowsState p U R u s r tol2 0).1
    hm (by omega) (by omega) (by show r - s < R.length; omega) (by intro a ha; exact absurd ha (List.not_mem_nil))
    c hc (isoCol 0 R) (List.replicate (2 * p + 1) []) (isoCol c R) (List.replicate (2 * p + 1) [])
    (hz 0) (hz c) hf
  unfold knotRemovalRows knotRemoval
  rw [if_neg (by omega), if_neg (by omega)]
  simp only []
  have h1 := hstep.1
  have e1 : (List.range 1) = [0] := rfl
  rw [e1]
  simp only [List.foldl_cons, List.foldl_nil]
  rw [isoCol_take, isoCol_shift]
  have h1' : isoCol c (remStepRows U u p (R.headD []).length tol2
      ({ cp := R, temp := List.replicate (2 * p + 1) (List.replicate (R.headD []).length []), al := [],
         i := 0, j := 0, ii := 0, jj := 0 }, r - p, r - s) 0).1.cp
      = (remStep U u p tol2 (isoCol c R, List.replicate (2 * p + 1) [], r - p, r - s) 0).1 := h1
  rw [h1', isoCol_length]

end Rows
end Geomdl
